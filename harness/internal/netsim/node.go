package netsim

import (
	"errors"
	"math/rand"
	"net"
	"sync"
	"time"

	"github.com/btcsuite/btcd/btcutil/v2/gcs/builder"
	"github.com/btcsuite/btcd/chainhash/v2"
	"github.com/btcsuite/btcd/wire/v2"
)

// FullServices is what an honest full node advertises.
const FullServices = wire.SFNodeNetwork | wire.SFNodeWitness | wire.SFNodeCF

// HdrLie makes a node corrupt the header at Height in its headers replies
// (and send nothing after it).  Kind: "badpow" (hash above the limit),
// "wrongprev" (valid work, previous-block field does not connect).
type HdrLie struct {
	Kind   string `json:"kind"`
	Height int    `json:"height"`
}

// FilterLie makes a node lie about the filter of the block at Height: it
// claims a different (well-formed) filter.  The lie can be told in the
// checkpoint list, in cfheaders replies and/or in the cfilter itself; a node
// that sets all three is self-consistent and can only be refuted against the
// block.  InCheckpt alone is the "checkpoint-only liar" (F15).
type FilterLie struct {
	Height    int  `json:"height"`
	InCheckpt bool `json:"in_checkpt"`
	InHeaders bool `json:"in_headers"`
	InFilter  bool `json:"in_filter"`
}

// BlockLie makes a node serve an invalid block for getdata at Height
// (-1 = every height).  Kind: "mutatetx" (a transaction is altered, the
// merkle root no longer matches), "badwitness" (witness data without a
// witness commitment).
type BlockLie struct {
	Kind   string `json:"kind"`
	Height int    `json:"height"`
}

// Behaviour is the script of one remote node.
type Behaviour struct {
	// NoWitness / NoCF drop the service bit from the version message.
	NoWitness bool `json:"no_witness,omitempty"`
	NoCF      bool `json:"no_cf,omitempty"`
	// Silent lists wire commands the node never answers ("getheaders",
	// "getcfcheckpt", "getcfheaders", "getcfilters", "getdata", "inv").
	Silent []string `json:"silent,omitempty"`
	// DisconnectOn lists wire commands on whose receipt the node closes the
	// connection.
	DisconnectOn []string   `json:"disconnect_on,omitempty"`
	Hdr          *HdrLie    `json:"hdr,omitempty"`
	Filter       *FilterLie `json:"filter,omitempty"`
	// CFilterGarbage: height whose cfilter is random bytes (0 = none).
	CFilterGarbage int       `json:"cfilter_garbage,omitempty"`
	Block          *BlockLie `json:"block,omitempty"`
	// TxMode: answer to a transaction inv: "getdata" (default), "reject"
	// (reject without asking), "getdata-reject", "none".
	TxMode string `json:"tx_mode,omitempty"`
	// RefuseDial makes connection attempts fail.
	RefuseDial bool `json:"refuse_dial,omitempty"`
	// HandshakeDelayMs: the node answers the client's version message only
	// after this long (fixes the order in which peers become usable).
	HandshakeDelayMs int `json:"handshake_delay_ms,omitempty"`
	// DropHandshakes: the node closes its first k connections during the
	// version exchange (after reading the client's version message, before
	// sending its own version / verack) and behaves as configured on every
	// later connection (a node that is restarting, or has no free slot).
	DropHandshakes int `json:"drop_handshakes,omitempty"`
	// HoldVerack: the node answers the client's version message with its own
	// version but sends the verack only when ReleaseVerack is called (the
	// client's side of the handshake stays unfinished until then).
	HoldVerack bool `json:"hold_verack,omitempty"`
}

func has(l []string, s string) bool {
	for _, x := range l {
		if x == s {
			return true
		}
	}
	return false
}

// Node is a scripted remote node.
type Node struct {
	Addr string
	ID   int

	mu      sync.Mutex
	chain   *Chain
	old     []*Chain // chains served earlier: like a real node, blocks of stale branches stay known
	b       Behaviour
	conns   map[*nodeConn]struct{}
	recv    map[string]int
	dials   int
	dropped int                    // connections closed during the version exchange so far
	txs     map[chainhash.Hash]int // transactions received
	lies    map[*Chain]*lieData
	closed  bool
	// HoldVerack: closed by ReleaseVerack; versionSent counts connections
	// that got our version message and wait for the verack
	verack      chan struct{}
	versionSent int
}

type nodeConn struct {
	c   net.Conn
	wmu sync.Mutex
}

type lieData struct {
	filter []byte
	fhash  chainhash.Hash
	fhdrs  []chainhash.Hash // from lie height on; index = height - lieHeight
}

// NewNode creates a node serving chain c with behaviour b.
func NewNode(id int, addr string, c *Chain, b Behaviour) *Node {
	return &Node{Addr: addr, ID: id, chain: c, b: b, conns: map[*nodeConn]struct{}{},
		recv: map[string]int{}, txs: map[chainhash.Hash]int{}, lies: map[*Chain]*lieData{}}
}

// Chain returns the chain currently served.
func (n *Node) Chain() *Chain { n.mu.Lock(); defer n.mu.Unlock(); return n.chain }

// Behaviour returns the current behaviour.
func (n *Node) Behaviour() Behaviour { n.mu.Lock(); defer n.mu.Unlock(); return n.b }

// SetBehaviour replaces the behaviour (takes effect for the next message).
func (n *Node) SetBehaviour(b Behaviour) { n.mu.Lock(); n.b = b; n.mu.Unlock() }

// Received returns how many messages of each command arrived so far.
func (n *Node) Received() map[string]int {
	n.mu.Lock()
	defer n.mu.Unlock()
	m := map[string]int{}
	for k, v := range n.recv {
		m[k] = v
	}
	return m
}

// Dials returns how many connection attempts reached this node.
func (n *Node) Dials() int { n.mu.Lock(); defer n.mu.Unlock(); return n.dials }

// ReleaseVerack lets every connection held by HoldVerack (now and later) go on.
func (n *Node) ReleaseVerack() {
	n.mu.Lock()
	defer n.mu.Unlock()
	if n.verack == nil {
		n.verack = make(chan struct{})
	}
	select {
	case <-n.verack:
	default:
		close(n.verack)
	}
}

// AwaitingVerack returns how many connections have been sent the node's
// version message and are held before the verack.
func (n *Node) AwaitingVerack() int { n.mu.Lock(); defer n.mu.Unlock(); return n.versionSent }

// StopReading makes the node stop reading on every open connection while
// keeping the connections open (a peer whose process hangs, or whose socket
// receive buffer is never drained): the client can still write slack bytes to
// each connection, then its writes block. The node still writes what its
// serving goroutine had in hand. It returns the number of connections.
func (n *Node) StopReading(slack int) int {
	n.mu.Lock()
	defer n.mu.Unlock()
	k := 0
	for c := range n.conns {
		if bc, ok := c.c.(*bufConn); ok {
			bc.StopReading(slack)
			k++
		}
	}
	return k
}

// Live returns the number of open connections.
func (n *Node) Live() int { n.mu.Lock(); defer n.mu.Unlock(); return len(n.conns) }

// TxReceived reports how often the transaction was delivered to this node.
func (n *Node) TxReceived(h chainhash.Hash) int { n.mu.Lock(); defer n.mu.Unlock(); return n.txs[h] }

// SetChain switches the node to chain c (an extension or a reorganisation of
// the previous one) and, if announce, advertises the new tip with a block inv
// on every open connection.
func (n *Node) SetChain(c *Chain, announce bool) {
	n.mu.Lock()
	if n.chain != c {
		n.old = append([]*Chain{n.chain}, n.old...)
	}
	n.chain = c
	var cs []*nodeConn
	for k := range n.conns {
		cs = append(cs, k)
	}
	n.mu.Unlock()
	if !announce {
		return
	}
	tip := c.TipHash()
	for _, k := range cs {
		inv := wire.NewMsgInv()
		_ = inv.AddInvVect(wire.NewInvVect(wire.InvTypeBlock, &tip))
		k.send(inv)
	}
}

// DisconnectAll closes every open connection.
func (n *Node) DisconnectAll() {
	n.mu.Lock()
	var cs []*nodeConn
	for k := range n.conns {
		cs = append(cs, k)
	}
	n.mu.Unlock()
	for _, k := range cs {
		k.c.Close()
	}
}

// Shutdown closes all connections and refuses new ones.
func (n *Node) Shutdown() {
	n.mu.Lock()
	n.closed = true
	n.mu.Unlock()
	n.DisconnectAll()
}

// lookup finds the chain (current first, then stale branches the node has
// served before) that contains block h, and its height there.
func (n *Node) lookup(cur *Chain, h chainhash.Hash) (*Chain, int, bool) {
	if i, ok := cur.Index[h]; ok {
		return cur, i, true
	}
	n.mu.Lock()
	old := n.old
	n.mu.Unlock()
	for _, c := range old {
		if i, ok := c.Index[h]; ok {
			return c, i, true
		}
	}
	return nil, 0, false
}

const pver = uint32(wire.AddrV2Version)

func (k *nodeConn) send(m wire.Message) {
	k.wmu.Lock()
	defer k.wmu.Unlock()
	_, _ = wire.WriteMessageWithEncodingN(k.c, m, pver, Params.Net, wire.WitnessEncoding)
}

// accept is called by the dialer; it returns an error for refused dials.
func (n *Node) accept(conn net.Conn) error {
	n.mu.Lock()
	n.dials++
	if n.closed || n.b.RefuseDial {
		n.mu.Unlock()
		return errors.New("connection refused")
	}
	k := &nodeConn{c: conn}
	n.conns[k] = struct{}{}
	n.mu.Unlock()
	go n.serve(k)
	return nil
}

func (n *Node) lie(c *Chain, fl *FilterLie) *lieData {
	n.mu.Lock()
	defer n.mu.Unlock()
	if d, ok := n.lies[c]; ok {
		return d
	}
	h := fl.Height
	// A well-formed but wrong filter: the filter of the same block with the
	// coinbase output script replaced.
	blk := c.Blocks[h].Copy()
	// Every output script is replaced.  (neutrino's VerifyBasicBlockFilter
	// skips the coinbase transaction, so against a coinbase-only block this
	// lie cannot be refuted with the block; against a block with further
	// transactions it can.)
	for ti, tx := range blk.Transactions {
		for oi, o := range tx.TxOut {
			o.PkScript = []byte{0x00, 0x14, 0xde, 0xad, 0xbe, 0xef, byte(h), byte(h >> 8),
				1, 2, 3, 4, 5, 6, 7, 8, 9, 10, 11, byte(ti), byte(oi), byte(n.ID)}
		}
	}
	// BuildBasicFilter keys the filter with the block hash, which only
	// depends on the (unchanged) header.
	var prev [][]byte
	for i, tx := range blk.Transactions {
		if i == 0 {
			continue
		}
		for range tx.TxIn {
			prev = append(prev, []byte{0x51})
		}
	}
	f, err := builder.BuildBasicFilter(blk, prev)
	if err != nil {
		panic(err)
	}
	d := &lieData{}
	d.filter, _ = f.NBytes()
	d.fhash, _ = builder.GetFilterHash(f)
	p := c.FHdrs[h-1]
	for i := h; i < len(c.Blocks); i++ {
		fh := c.FHashes[i]
		if i == h {
			fh = d.fhash
		}
		p = chainhash.DoubleHashH(append(append([]byte{}, fh[:]...), p[:]...))
		d.fhdrs = append(d.fhdrs, p)
	}
	n.lies[c] = d
	return d
}

func (n *Node) serve(k *nodeConn) {
	defer func() {
		k.c.Close()
		n.mu.Lock()
		delete(n.conns, k)
		n.mu.Unlock()
	}()
	rng := rand.New(rand.NewSource(time.Now().UnixNano()))
	for {
		_, msg, _, err := wire.ReadMessageWithEncodingN(k.c, pver, Params.Net, wire.WitnessEncoding)
		if err != nil {
			if err == wire.ErrUnknownMessage {
				continue
			}
			var me *wire.MessageError
			if errors.As(err, &me) {
				continue
			}
			return
		}
		cmd := msg.Command()
		n.mu.Lock()
		n.recv[cmd]++
		c, b := n.chain, n.b
		n.mu.Unlock()
		if has(b.DisconnectOn, cmd) {
			return
		}
		if has(b.Silent, cmd) {
			continue
		}
		switch m := msg.(type) {
		case *wire.MsgVersion:
			if b.DropHandshakes > 0 {
				n.mu.Lock()
				drop := n.dropped < b.DropHandshakes
				if drop {
					n.dropped++
				}
				n.mu.Unlock()
				if drop {
					return
				}
			}
			if b.HandshakeDelayMs > 0 {
				time.Sleep(time.Duration(b.HandshakeDelayMs) * time.Millisecond)
			}
			sv := FullServices
			if b.NoWitness {
				sv &^= wire.SFNodeWitness
			}
			if b.NoCF {
				sv &^= wire.SFNodeCF
			}
			ta, _ := net.ResolveTCPAddr("tcp", n.Addr)
			me := wire.NewNetAddressIPPort(ta.IP, uint16(ta.Port), sv)
			you := wire.NewNetAddressIPPort(net.ParseIP("10.9.9.9"), 40000, 0)
			v := wire.NewMsgVersion(me, you, rng.Uint64(), int32(c.Tip()))
			v.Services = sv
			v.ProtocolVersion = int32(pver)
			_ = v.AddUserAgent("netsim", "0.0.1")
			k.send(v)
			if b.HoldVerack {
				n.mu.Lock()
				if n.verack == nil {
					n.verack = make(chan struct{})
				}
				ch := n.verack
				n.versionSent++
				n.mu.Unlock()
				select {
				case <-ch:
				case <-time.After(25 * time.Second):
					return
				}
			}
			k.send(wire.NewMsgVerAck())

		case *wire.MsgPing:
			k.send(wire.NewMsgPong(m.Nonce))

		case *wire.MsgInv:
			for _, iv := range m.InvList {
				if iv.Type != wire.InvTypeTx && iv.Type != wire.InvTypeWitnessTx {
					continue
				}
				switch b.TxMode {
				case "reject":
					r := wire.NewMsgReject("tx", wire.RejectInsufficientFee, "insufficient fee")
					r.Hash = iv.Hash
					k.send(r)
				case "none":
				default:
					gd := wire.NewMsgGetData()
					_ = gd.AddInvVect(iv)
					k.send(gd)
				}
			}

		case *wire.MsgTx:
			h := m.TxHash()
			n.mu.Lock()
			n.txs[h]++
			n.mu.Unlock()
			if b.TxMode == "getdata-reject" {
				r := wire.NewMsgReject("tx", wire.RejectInvalid, "bad-txns-inputs-missingorspent")
				r.Hash = h
				k.send(r)
			}

		case *wire.MsgGetHeaders:
			start := 0
			for _, l := range m.BlockLocatorHashes {
				if i, ok := c.Index[*l]; ok {
					start = i
					break
				}
			}
			resp := wire.NewMsgHeaders()
			for i := start + 1; i < len(c.Blocks) && len(resp.Headers) < wire.MaxBlockHeadersPerMsg; i++ {
				hdr := c.Blocks[i].Header
				if b.Hdr != nil && b.Hdr.Height == i {
					switch b.Hdr.Kind {
					case "badpow":
						Unmine(&hdr)
					case "wrongprev":
						hdr.PrevBlock[0] ^= 0x55
						hdr.Nonce = 0
						Mine(&hdr)
					}
					_ = resp.AddBlockHeader(&hdr)
					break
				}
				_ = resp.AddBlockHeader(&hdr)
				if c.Hashes[i] == m.HashStop {
					break
				}
			}
			k.send(resp)

		case *wire.MsgGetCFCheckpt:
			c, stop, ok := n.lookup(c, m.StopHash)
			if !ok {
				continue
			}
			cnt := stop / wire.CFCheckptInterval
			resp := wire.NewMsgCFCheckpt(m.FilterType, &m.StopHash, cnt) // capacity matters
			for h := wire.CFCheckptInterval; h <= stop; h += wire.CFCheckptInterval {
				x := c.FHdrs[h]
				if fl := b.Filter; fl != nil && fl.InCheckpt && fl.Height >= 1 && fl.Height <= h && fl.Height < len(c.Blocks) {
					x = n.lie(c, fl).fhdrs[h-fl.Height]
				}
				_ = resp.AddCFHeader(&x)
			}
			k.send(resp)

		case *wire.MsgGetCFHeaders:
			c, stop, ok := n.lookup(c, m.StopHash)
			if !ok || int(m.StartHeight) > stop {
				continue
			}
			resp := wire.NewMsgCFHeaders()
			resp.FilterType = m.FilterType
			resp.StopHash = m.StopHash
			fl := b.Filter
			lying := fl != nil && fl.InHeaders && fl.Height >= 1 && fl.Height < len(c.Blocks)
			if m.StartHeight > 0 {
				resp.PrevFilterHeader = c.FHdrs[m.StartHeight-1]
				if lying && int(m.StartHeight)-1 >= fl.Height {
					resp.PrevFilterHeader = n.lie(c, fl).fhdrs[int(m.StartHeight)-1-fl.Height]
				}
			}
			for h := int(m.StartHeight); h <= stop && len(resp.FilterHashes) < wire.MaxCFHeadersPerMsg; h++ {
				fh := c.FHashes[h]
				if lying && h == fl.Height {
					fh = n.lie(c, fl).fhash
				}
				_ = resp.AddCFHash(&fh)
			}
			k.send(resp)

		case *wire.MsgGetCFilters:
			c, stop, ok := n.lookup(c, m.StopHash)
			if !ok {
				continue
			}
			for h := int(m.StartHeight); h <= stop; h++ {
				data := c.Filters[h]
				if fl := b.Filter; fl != nil && fl.InFilter && fl.Height == h && h >= 1 {
					data = n.lie(c, fl).filter
				}
				if b.CFilterGarbage == h && h > 0 {
					data = make([]byte, 9)
					rng.Read(data)
					data[0] = 3
				}
				k.send(wire.NewMsgCFilter(m.FilterType, &c.Hashes[h], data))
			}

		case *wire.MsgGetData:
			for _, iv := range m.InvList {
				c, i, ok := n.lookup(c, iv.Hash)
				if !ok {
					continue
				}
				blk := c.Blocks[i]
				if bl := b.Block; bl != nil && (bl.Height == i || bl.Height < 0) && i > 0 {
					blk = blk.Copy()
					switch bl.Kind {
					case "mutatetx":
						blk.Transactions[0].TxOut[0].Value++
					case "badwitness":
						blk.Transactions[0].TxIn[0].Witness = wire.TxWitness{make([]byte, 32)}
						if len(blk.Transactions) > 1 {
							blk.Transactions[1].TxIn[0].Witness = wire.TxWitness{[]byte{1, 2, 3}}
						}
					}
				}
				k.send(blk)
			}
		}
	}
}
