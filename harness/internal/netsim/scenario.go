package netsim

import (
	"fmt"
	"net"
	"os"
	"sort"
	"sync"
	"time"

	"github.com/btcsuite/btcd/chainhash/v2"
)

// NodeSpec describes one remote node of a scenario.  Node 1 (index 0) is by
// convention the honest node of C04 scenarios.
type NodeSpec struct {
	B Behaviour `json:"behaviour"`
	// Chain: "main" follows the honest chain through every extension and
	// reorganisation; "lighter" serves a valid fork with less work, forking
	// LighterDepth blocks below the initial tip, and never changes.
	Chain        string `json:"chain"`
	LighterDepth int    `json:"lighter_depth,omitempty"`
	// Addr overrides the node's "ip:port" (default NodeAddr(id)); nodes may
	// share an IP on different ports.
	Addr string `json:"addr,omitempty"`
	// Host: the client is configured with this host name (and the node's
	// port) instead of the node's IP literal; the simulated resolver maps
	// the name to the node's IP.  Observations (IsBanned, connected) are
	// still taken under the IP form.
	Host string `json:"host,omitempty"`
}

// Event is something the scenario does at a given time after Start.
type Event struct {
	AtMs   int    `json:"at_ms"`
	Kind   string `json:"kind"`             // extend | reorg | getblock | disconnect | leave (disconnect and refuse redials for good)
	N      int    `json:"n,omitempty"`      // extend: blocks; reorg: extra blocks over the replaced ones
	Depth  int    `json:"depth,omitempty"`  // reorg: blocks replaced
	Height int    `json:"height,omitempty"` // getblock: height (negative = from tip)
	Node   int    `json:"node,omitempty"`   // disconnect: node id (1-based)
}

// Scenario is a replayable netsim history.
type Scenario struct {
	ID         int        `json:"id"`
	Seed       int64      `json:"seed"`
	ChainLen   int        `json:"chain_len"`
	TipUnix    int64      `json:"tip_unix"`
	Nodes      []NodeSpec `json:"nodes"`
	Events     []Event    `json:"events"`
	DeadlineMs int        `json:"deadline_ms"` // after the last event
	RetryMs    int        `json:"retry_ms"`    // connection retry interval (0 = neutrino default 5s)
	// StopWhenConverged ends the run as soon as the client is synced to the
	// final honest chain (after all events); otherwise the run lasts until
	// MinRunMs / the deadline.
	StopWhenConverged bool `json:"stop_when_converged"`
	MinRunMs          int  `json:"min_run_ms,omitempty"`
	// After the last event the honest chain keeps growing: GrowCount blocks,
	// one every GrowEveryMs, each announced with an inv.
	GrowEveryMs int `json:"grow_every_ms,omitempty"`
	GrowCount   int `json:"grow_count,omitempty"`
	// BanStoreFault makes every write of a ban record fail (the ban cannot
	// be recorded); a misbehaving peer must still be disconnected.
	BanStoreFault bool `json:"ban_store_fault,omitempty"`
}

// ValidRow is one (height, block hash token, filter header token) of a valid
// chain, restricted to the heights that occur in samples.
type ValidRow struct {
	Height int32 `json:"h"`
	Hash   int   `json:"hash"`
	FHdr   int   `json:"fhdr"`
}

// SampleRow is a sample with hashes interned as tokens (0 = none).
type SampleRow struct {
	T         int64  `json:"t_ms"`
	Height    int32  `json:"h"`
	Hash      int    `json:"hash"`
	HashAt    int    `json:"hash_at"`
	FHdr      int    `json:"fhdr"`
	FHdrRead  bool   `json:"fhdr_read"`
	HdrTip    int32  `json:"hdr_tip"`
	FTip      int32  `json:"ftip"`
	Current   bool   `json:"current"`
	Banned    []bool `json:"banned"`
	Connected []bool `json:"connected"`
	Err       string `json:"err,omitempty"`
}

// GetBlockObs is the outcome of a getblock event.
type GetBlockObs struct {
	Height int    `json:"height"`
	OK     bool   `json:"ok"`
	Err    string `json:"err,omitempty"`
	Ms     int64  `json:"ms"`
}

// Result is what a scenario run observed.
type Result struct {
	Samples []SampleRow `json:"samples"`
	Polls   int         `json:"polls"`
	// RunMs: length of the sampling window; Polls far below RunMs/20 means
	// the process was starved (machine overloaded), not the client stuck.
	RunMs       int64      `json:"run_ms"`
	Valid       []ValidRow `json:"valid"`
	Converged   bool       `json:"converged"`
	ConvergedMs int64      `json:"converged_ms"`
	FinalTip    int        `json:"final_honest_tip"`
	Final       SampleRow  `json:"final"`
	Dials       []int      `json:"dials"`
	// BanMs: time of the first sample that reports the node banned (-1 never).
	BanMs []int64 `json:"ban_ms"`
	// DialsAfterBan / VersionsAfterBan: connection attempts that reached the
	// node, and version handshakes the client began with it, after the ban
	// was first sampled (+ a settling margin).
	DialsAfterBan    []int         `json:"dials_after_ban"`
	VersionsAfterBan []int         `json:"versions_after_ban"`
	GetBlocks        []GetBlockObs `json:"getblocks,omitempty"`
	StopMs           int64         `json:"stop_ms"`
	StopReturned     bool          `json:"stop_returned"`
	SetupErr         string        `json:"setup_err,omitempty"`
	Received         []string      `json:"received,omitempty"`
}

type interner struct {
	m map[chainhash.Hash]int
}

func (in *interner) tok(h chainhash.Hash) int {
	if h == (chainhash.Hash{}) {
		return 0
	}
	if t, ok := in.m[h]; ok {
		return t
	}
	t := len(in.m) + 1
	in.m[h] = t
	return t
}

// RunScenario executes s on a fresh data directory under work.
func RunScenario(s *Scenario, work string) *Result {
	res := &Result{}
	dir, err := os.MkdirTemp(work, fmt.Sprintf("s%d-", s.ID))
	if err != nil {
		panic(err)
	}
	defer os.RemoveAll(dir)
	base := CachedChain(s.Seed, s.ChainLen, time.Unix(s.TipUnix, 0), 0.3)
	valid := []*Chain{base}
	nt := NewNet()
	var mainNodes []*Node
	for i, spec := range s.Nodes {
		ch := base
		if spec.Chain == "lighter" {
			d := spec.LighterDepth
			if d < 2 {
				d = 2
			}
			if d > base.Tip()-1 {
				d = base.Tip() - 1
			}
			// a valid fork with strictly less work: d blocks replaced by d-1
			ch = base.Fork(base.Tip()-d, d-1, int64(1000+i), 0.3)
			valid = append(valid, ch)
		}
		n := nt.AddAt(spec.Addr, ch, spec.B)
		if spec.Chain != "lighter" {
			mainNodes = append(mainNodes, n)
		}
	}
	peers := nt.Addrs()
	for i, spec := range s.Nodes {
		if spec.Host != "" {
			ip, port, err := net.SplitHostPort(peers[i])
			if err != nil {
				panic(err)
			}
			RegisterHost(spec.Host, net.ParseIP(ip))
			peers[i] = net.JoinHostPort(spec.Host, port)
		}
	}
	cl, err := NewClient(dir, nt, peers, time.Duration(s.RetryMs)*time.Millisecond, false, ClientOpts{BanFault: s.BanStoreFault})
	if err != nil {
		res.SetupErr = err.Error()
		return res
	}
	if err := cl.Start(); err != nil {
		res.SetupErr = err.Error()
		return res
	}
	t0 := time.Now()
	sp := NewSampler(cl, nt.Addrs(), 20*time.Millisecond)
	cur := base

	// ban bookkeeping
	nNodes := len(s.Nodes)
	res.BanMs = make([]int64, nNodes)
	dialsAtBan := make([]int, nNodes)
	versAtBan := make([]int, nNodes)
	banSeen := make([]bool, nNodes)
	for i := range res.BanMs {
		res.BanMs[i] = -1
	}
	noteBans := func() {
		last, ok := sp.Last()
		if !ok {
			return
		}
		for i, b := range last.Banned {
			if b && !banSeen[i] {
				banSeen[i] = true
				res.BanMs[i] = time.Since(t0).Milliseconds()
				// settle: the disconnect and a racing redial may still be
				// in flight; count from a little later.
				go func(i int) {
					time.Sleep(300 * time.Millisecond)
					n := nt.Nodes()[i]
					dialsAtBan[i] = n.Dials()
					versAtBan[i] = n.Received()["version"]
				}(i)
			}
		}
	}

	var gmu sync.Mutex
	var gwg sync.WaitGroup
	evs := append([]Event(nil), s.Events...)
	sort.SliceStable(evs, func(i, j int) bool { return evs[i].AtMs < evs[j].AtMs })
	lastEv := 0
	if len(evs) > 0 {
		lastEv = evs[len(evs)-1].AtMs
	}
	// Background growth of the honest chain after the structured events:
	// one announced block every GrowEveryMs.
	for k := 1; k <= s.GrowCount && s.GrowEveryMs > 0; k++ {
		evs = append(evs, Event{AtMs: lastEv + k*s.GrowEveryMs, Kind: "extend", N: 1})
	}
	apply := func(ev Event) {
		switch ev.Kind {
		case "extend":
			cur = cur.Extend(ev.N, int64(s.ID*100+ev.AtMs), 0.3)
			valid = append(valid, cur)
			for _, n := range mainNodes {
				n.SetChain(cur, true)
			}
		case "reorg":
			d := ev.Depth
			if d > cur.Tip()-1 {
				d = cur.Tip() - 1
			}
			cur = cur.Fork(cur.Tip()-d, d+ev.N, int64(s.ID*100+ev.AtMs), 0.3)
			valid = append(valid, cur)
			for _, n := range mainNodes {
				n.SetChain(cur, true)
			}
		case "disconnect":
			if ev.Node >= 1 && ev.Node <= nNodes {
				nt.Nodes()[ev.Node-1].DisconnectAll()
			}
		case "leave":
			if ev.Node >= 1 && ev.Node <= nNodes {
				n := nt.Nodes()[ev.Node-1]
				b := n.Behaviour()
				b.RefuseDial = true
				n.SetBehaviour(b)
				n.DisconnectAll()
			}
		case "getblock":
			h := ev.Height
			if h <= 0 {
				h = cur.Tip() + h
			}
			if h < 1 {
				h = 1
			}
			hash := cur.Hashes[h]
			gwg.Add(1)
			go func(h int) {
				defer gwg.Done()
				st := time.Now()
				b, err := cl.CS.GetBlock(hash)
				o := GetBlockObs{Height: h, OK: err == nil && b != nil && *b.Hash() == hash, Ms: time.Since(st).Milliseconds()}
				if err != nil {
					o.Err = err.Error()
				}
				gmu.Lock()
				res.GetBlocks = append(res.GetBlocks, o)
				gmu.Unlock()
			}(h)
		}
	}
	deadline := t0.Add(time.Duration(lastEv+s.DeadlineMs) * time.Millisecond)
	minEnd := t0.Add(time.Duration(s.MinRunMs) * time.Millisecond)
	next := 0
	for time.Now().Before(deadline) {
		now := time.Since(t0)
		for next < len(evs) && now >= time.Duration(evs[next].AtMs)*time.Millisecond {
			apply(evs[next])
			next++
		}
		noteBans()
		if now >= time.Duration(lastEv)*time.Millisecond && !res.Converged && Synced(cl.CS, cur) {
			res.Converged = true
			res.ConvergedMs = now.Milliseconds()
		}
		if res.Converged && s.StopWhenConverged && time.Now().After(minEnd) {
			break
		}
		time.Sleep(10 * time.Millisecond)
	}
	res.FinalTip = cur.Tip()
	noteBans()
	time.Sleep(40 * time.Millisecond)
	samples, polls := sp.Stop()
	res.Polls = polls
	res.RunMs = time.Since(t0).Milliseconds()
	for i, n := range nt.Nodes() {
		res.Dials = append(res.Dials, n.Dials())
		da, va := 0, 0
		if banSeen[i] {
			da, va = n.Dials()-dialsAtBan[i], n.Received()["version"]-versAtBan[i]
			if dialsAtBan[i] == 0 && versAtBan[i] == 0 {
				da, va = 0, 0 // banned too late to settle
			}
		}
		res.DialsAfterBan = append(res.DialsAfterBan, da)
		res.VersionsAfterBan = append(res.VersionsAfterBan, va)
		rc := n.Received()
		str := ""
		for _, k := range SortedKeys(rc) {
			str += fmt.Sprintf("%s=%d ", k, rc[k])
		}
		res.Received = append(res.Received, str)
	}
	ret, took, _ := cl.StopWithin(30 * time.Second)
	res.StopReturned, res.StopMs = ret, took.Milliseconds()
	nt.Shutdown()
	// wait (bounded) for getblock goroutines: Stop releases them
	gdone := make(chan struct{})
	go func() { gwg.Wait(); close(gdone) }()
	select {
	case <-gdone:
	case <-time.After(5 * time.Second):
	}
	if ret {
		cl.CloseDB()
	}

	// intern and build the valid table
	in := &interner{m: map[chainhash.Hash]int{}}
	heights := map[int32]bool{}
	conv := func(x Sample) SampleRow {
		return SampleRow{T: x.T, Height: x.Height, Hash: in.tok(x.Hash), HashAt: in.tok(x.HashAt), FHdr: in.tok(x.FHdr),
			FHdrRead: x.FHdrOK, HdrTip: x.HdrTip, FTip: x.FTip, Current: x.Current, Banned: x.Banned,
			Connected: x.Connected, Err: x.Err}
	}
	for _, x := range samples {
		res.Samples = append(res.Samples, conv(x))
		if x.Height >= 0 {
			heights[x.Height] = true
		}
	}
	if len(res.Samples) > 0 {
		res.Final = res.Samples[len(res.Samples)-1]
	}
	var hs []int
	for h := range heights {
		hs = append(hs, int(h))
	}
	sort.Ints(hs)
	seen := map[[3]int]bool{}
	for _, h := range hs {
		for _, c := range valid {
			if h < len(c.Hashes) {
				row := ValidRow{Height: int32(h), Hash: in.tok(c.Hashes[h]), FHdr: in.tok(c.FHdrs[h])}
				k := [3]int{h, row.Hash, row.FHdr}
				if !seen[k] {
					seen[k] = true
					res.Valid = append(res.Valid, row)
				}
			}
		}
	}
	return res
}
