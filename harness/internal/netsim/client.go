package netsim

import (
	"context"
	"errors"
	"fmt"
	"github.com/btcsuite/btclog"
	"net"
	"os"
	"path/filepath"
	"runtime"
	"sort"
	"strconv"
	"strings"
	"sync"
	"sync/atomic"
	"time"

	"github.com/btcsuite/btcd/chainhash/v2"
	"github.com/btcsuite/btcwallet/walletdb"
	_ "github.com/btcsuite/btcwallet/walletdb/bdb" // bbolt driver
	"github.com/lightninglabs/neutrino"
	"github.com/lightninglabs/neutrino/headerfs"
)

func init() {
	neutrino.DisableDNSSeed = true
}

// Net is the simulated network: a set of nodes reachable by address.
type Net struct {
	mu    sync.Mutex
	nodes map[string]*Node
	order []*Node
	port  int
}

// NewNet creates an empty network.
func NewNet() *Net { return &Net{nodes: map[string]*Node{}, port: 40000} }

// NodeAddr is the address of node number id (1-based).
func NodeAddr(id int) string { return fmt.Sprintf("10.1.%d.%d:18555", id/200, 1+id%200) }

// Add registers a node at its default address; ids are 1-based positions.
func (nt *Net) Add(c *Chain, b Behaviour) *Node { return nt.AddAt("", c, b) }

// AddAt registers a node at the given "ip:port" ("" = NodeAddr(id)); several
// nodes may share an IP on different ports.
func (nt *Net) AddAt(addr string, c *Chain, b Behaviour) *Node {
	nt.mu.Lock()
	defer nt.mu.Unlock()
	id := len(nt.order) + 1
	if addr == "" {
		addr = NodeAddr(id)
	}
	n := NewNode(id, addr, c, b)
	nt.nodes[n.Addr] = n
	nt.order = append(nt.order, n)
	return n
}

// Nodes lists the nodes in id order.
func (nt *Net) Nodes() []*Node {
	nt.mu.Lock()
	defer nt.mu.Unlock()
	return append([]*Node(nil), nt.order...)
}

// Addrs lists the node addresses in id order.
func (nt *Net) Addrs() []string {
	var a []string
	for _, n := range nt.Nodes() {
		a = append(a, n.Addr)
	}
	return a
}

// Dial is the neutrino.Config.Dialer of the simulated network.  An address
// that is not a *net.TCPAddr is dialled the way net.Dial would: its string
// form "host:port" is resolved with Resolver.
func (nt *Net) Dial(a net.Addr) (net.Conn, error) {
	ta, ok := a.(*net.TCPAddr)
	if !ok {
		host, port, err := net.SplitHostPort(a.String())
		if err != nil {
			return nil, errors.New("netsim: not a TCP address")
		}
		ips, err := Resolver(host)
		if err != nil {
			return nil, err
		}
		p, err := strconv.Atoi(port)
		if err != nil {
			return nil, errors.New("netsim: not a TCP address")
		}
		ta = &net.TCPAddr{IP: ips[0], Port: p}
	}
	nt.mu.Lock()
	n := nt.nodes[ta.String()]
	nt.port++
	me := &net.TCPAddr{IP: net.ParseIP("10.9.9.9"), Port: nt.port}
	nt.mu.Unlock()
	if n == nil {
		return nil, errors.New("netsim: no route to host")
	}
	c1, c2 := BufPipe(me, ta)
	if err := n.accept(c2); err != nil {
		return nil, err
	}
	return c1, nil
}

// Shutdown closes every node.
func (nt *Net) Shutdown() {
	for _, n := range nt.Nodes() {
		n.Shutdown()
	}
}

// hosts is the name table of the simulated network (process wide: scenarios
// running concurrently use distinct names).
var (
	hostsMu sync.Mutex
	hosts   = map[string]net.IP{}
)

// RegisterHost makes Resolver answer ip for the host name.
func RegisterHost(name string, ip net.IP) {
	hostsMu.Lock()
	hosts[name] = ip
	hostsMu.Unlock()
}

// Resolver is the neutrino.Config.NameResolver of the simulated network: IP
// literals resolve to themselves, registered host names to their address.
func Resolver(host string) ([]net.IP, error) {
	ip := net.ParseIP(host)
	if ip == nil {
		hostsMu.Lock()
		ip = hosts[host]
		hostsMu.Unlock()
	}
	if ip == nil {
		return nil, errors.New("netsim: cannot resolve " + host)
	}
	return []net.IP{ip}, nil
}

// Client is a full neutrino client on a data directory.
type Client struct {
	Dir string
	DB  walletdb.DB
	CS  *neutrino.ChainService
	Net *Net
}

// BanFaultDB fails every database update issued by banman's BanIPNet while
// Fail is set: the state in which a ban cannot be recorded (I/O error).
type BanFaultDB struct {
	walletdb.DB
	Fail  atomic.Bool
	Count atomic.Int64 // ban writes refused
}

func (d *BanFaultDB) Update(f func(tx walletdb.ReadWriteTx) error, reset func()) error {
	if d.Fail.Load() && calledFrom("banman.(*banStore).BanIPNet") {
		d.Count.Add(1)
		return errors.New("netsim: injected ban store write fault")
	}
	return d.DB.Update(f, reset)
}

func calledFrom(fn string) bool {
	pcs := make([]uintptr, 32)
	n := runtime.Callers(2, pcs)
	frames := runtime.CallersFrames(pcs[:n])
	for {
		fr, more := frames.Next()
		if strings.HasSuffix(fr.Function, fn) {
			return true
		}
		if !more {
			return false
		}
	}
}

// BanFault makes NewClient wrap the database in a BanFaultDB with Fail set
// (read under cfgMu by the next NewClient call of this goroutine's scenario).
type ClientOpts struct {
	BanFault bool
	// WrapDB, if set, wraps the database handed to the ChainService (after
	// the BanFault wrapper).
	WrapDB func(walletdb.DB) walletdb.DB
}

// HoldDB can hold one ban-status lookup of the ChainService itself: the
// database transaction of the next ChainService.IsBanned call that is made
// from inside package neutrino (not by the harness), either before the
// transaction runs (HoldBefore) or after it has run and committed, before it
// returns to the caller (HoldAfter: a slow disk).  Hook free: the call is
// recognised by its call stack.
type HoldDB struct {
	walletdb.DB
	mu     sync.Mutex
	mode   int // 0 not armed
	paused chan HoldInfo
	resume chan struct{}
}

// Modes of HoldDB.Arm.
const (
	HoldAfter  = 1
	HoldBefore = 2
)

// HoldInfo describes the lookup that is being held.
type HoldInfo struct {
	// Caller is the function of package neutrino that called IsBanned.
	Caller string
	// OnPeerHandler: the lookup runs on the peerHandler goroutine.
	OnPeerHandler bool
}

// Arm holds the next lookup; the returned channel reports it, closing
// release lets it go on (it goes on by itself after 30 s).
func (d *HoldDB) Arm(mode int) (paused <-chan HoldInfo, release func()) {
	d.mu.Lock()
	defer d.mu.Unlock()
	d.mode = mode
	d.paused = make(chan HoldInfo, 1)
	d.resume = make(chan struct{})
	r := d.resume
	var once sync.Once
	return d.paused, func() { once.Do(func() { close(r) }) }
}

// Disarm cancels an Arm that has not caught a lookup.
func (d *HoldDB) Disarm() { d.mu.Lock(); d.mode = 0; d.mu.Unlock() }

// ownLookup reports whether the current goroutine is inside
// ChainService.IsBanned called by a function of package neutrino.
func ownLookup() (HoldInfo, bool) {
	const pkg = "github.com/lightninglabs/neutrino."
	pcs := make([]uintptr, 64)
	n := runtime.Callers(3, pcs)
	frames := runtime.CallersFrames(pcs[:n])
	var info HoldInfo
	found, next := false, false
	for {
		fr, more := frames.Next()
		switch {
		case next:
			next = false
			if !strings.HasPrefix(fr.Function, pkg) {
				return info, false
			}
			info.Caller = strings.TrimPrefix(fr.Function, pkg)
			found = true
		case !found && strings.HasSuffix(fr.Function, "neutrino.(*ChainService).IsBanned"):
			next = true
		case strings.HasSuffix(fr.Function, "neutrino.(*ChainService).peerHandler"):
			info.OnPeerHandler = true
		}
		if !more {
			return info, found
		}
	}
}

func (d *HoldDB) hold(mode int) {
	d.mu.Lock()
	if d.mode != mode {
		d.mu.Unlock()
		return
	}
	info, ok := ownLookup()
	if !ok {
		d.mu.Unlock()
		return
	}
	d.mode = 0
	paused, resume := d.paused, d.resume
	d.mu.Unlock()
	paused <- info
	select {
	case <-resume:
	case <-time.After(30 * time.Second):
	}
}

func (d *HoldDB) Update(f func(tx walletdb.ReadWriteTx) error, reset func()) error {
	d.hold(HoldBefore)
	err := d.DB.Update(f, reset)
	d.hold(HoldAfter)
	return err
}

func (d *HoldDB) View(f func(tx walletdb.ReadTx) error, reset func()) error {
	d.hold(HoldBefore)
	err := d.DB.View(f, reset)
	d.hold(HoldAfter)
	return err
}

// cfgMu serialises the window in which package-level neutrino variables are
// set and read by NewChainService.
var cfgMu sync.Mutex

// NewClient opens (or creates) the database in dir and builds a ChainService
// that connects to the given node addresses only.
func NewClient(dir string, nt *Net, peers []string, retry time.Duration, persist bool, opts ...ClientOpts) (*Client, error) {
	dbPath := filepath.Join(dir, "neutrino.db")
	db, err := walletdb.Create("bdb", dbPath, true, 10*time.Second, false)
	if err != nil {
		return nil, err
	}
	if len(opts) > 0 && opts[0].BanFault {
		fdb := &BanFaultDB{DB: db}
		fdb.Fail.Store(true)
		db = fdb
	}
	if len(opts) > 0 && opts[0].WrapDB != nil {
		db = opts[0].WrapDB(db)
	}
	cfgMu.Lock()
	old := neutrino.ConnectionRetryInterval
	if retry > 0 {
		neutrino.ConnectionRetryInterval = retry
	}
	cs, err := neutrino.NewChainService(neutrino.Config{
		DataDir: dir, Database: db, ChainParams: Params,
		ConnectPeers:  peers,
		NameResolver:  Resolver,
		Dialer:        nt.Dial,
		PersistToDisk: persist,
	})
	neutrino.ConnectionRetryInterval = old
	cfgMu.Unlock()
	if err != nil {
		db.Close()
		return nil, err
	}
	return &Client{Dir: dir, DB: db, CS: cs, Net: nt}, nil
}

// Start starts the chain service.
func (c *Client) Start() error { return c.CS.Start(context.Background()) }

// StopWithin calls ChainService.Stop and waits at most d for it to return.
// It reports whether Stop returned, how long it took and its error.
func (c *Client) StopWithin(d time.Duration) (returned bool, took time.Duration, err error) {
	done := make(chan error, 1)
	t0 := time.Now()
	go func() { done <- c.CS.Stop() }()
	select {
	case err = <-done:
		return true, time.Since(t0), err
	case <-time.After(d):
		return false, time.Since(t0), nil
	}
}

// CloseDB closes the database (only after Stop has returned).
func (c *Client) CloseDB() error { return c.DB.Close() }

// ---------------------------------------------------------------------
// Sampler.

// Sample is one reading of the client's externally visible state.
type Sample struct {
	T         int64          `json:"t_ms"`
	Height    int32          `json:"height"`     // BestBlock height, -1 on error
	Hash      chainhash.Hash `json:"-"`          // BestBlock hash
	HashAt    chainhash.Hash `json:"-"`          // GetBlockHash(Height)
	FHdr      chainhash.Hash `json:"-"`          // filter header stored at Height
	FHdrOK    bool           `json:"fhdr_read"`  // the filter header could be read
	HdrTip    int32          `json:"hdr_tip"`    // block header store tip height
	FTip      int32          `json:"filter_tip"` // filter header store tip height
	Current   bool           `json:"current"`
	Banned    []bool         `json:"banned"`    // per node id order
	Connected []bool         `json:"connected"` // per node id order
	Err       string         `json:"err,omitempty"`
}

func (s *Sample) key() string {
	return fmt.Sprintf("%d %v %v %v %v %d %d %v %v %v %s", s.Height, s.Hash, s.HashAt, s.FHdr, s.FHdrOK,
		s.HdrTip, s.FTip, s.Current, s.Banned, s.Connected, s.Err)
}

// Sampler polls the client periodically and keeps the distinct consecutive
// readings.
type Sampler struct {
	c       *Client
	addrs   []string
	every   time.Duration
	mu      sync.Mutex
	samples []Sample
	polls   int
	stop    chan struct{}
	done    chan struct{}
	t0      time.Time
}

// ReadSample takes one reading.
func ReadSample(cs *neutrino.ChainService, addrs []string, t0 time.Time) Sample {
	s := Sample{T: time.Since(t0).Milliseconds(), Height: -1, HdrTip: -1, FTip: -1}
	bs, err := cs.BestBlock()
	if err != nil {
		s.Err = "bestblock"
	} else {
		s.Height, s.Hash = bs.Height, bs.Hash
		if h, err := cs.GetBlockHash(int64(bs.Height)); err == nil {
			s.HashAt = *h
		} else {
			s.Err = "getblockhash"
		}
		if fh, err := cs.RegFilterHeaders.FetchHeaderByHeight(uint32(bs.Height)); err == nil {
			s.FHdr, s.FHdrOK = *fh, true
		}
	}
	if _, h, err := cs.BlockHeaders.ChainTip(); err == nil {
		s.HdrTip = int32(h)
	}
	if _, h, err := cs.RegFilterHeaders.ChainTip(); err == nil {
		s.FTip = int32(h)
	}
	s.Current = cs.IsCurrent()
	conn := map[string]bool{}
	for _, p := range cs.Peers() {
		conn[p.Addr()] = true
	}
	for _, a := range addrs {
		s.Banned = append(s.Banned, cs.IsBanned(a))
		s.Connected = append(s.Connected, conn[a])
	}
	return s
}

// NewSampler starts polling c every interval.
func NewSampler(c *Client, addrs []string, every time.Duration) *Sampler {
	sp := &Sampler{c: c, addrs: addrs, every: every, stop: make(chan struct{}), done: make(chan struct{}), t0: time.Now()}
	go sp.run()
	return sp
}

func (sp *Sampler) run() {
	defer close(sp.done)
	tk := time.NewTicker(sp.every)
	defer tk.Stop()
	last := ""
	for {
		s := ReadSample(sp.c.CS, sp.addrs, sp.t0)
		k := s.key()
		sp.mu.Lock()
		sp.polls++
		if k != last {
			sp.samples = append(sp.samples, s)
			last = k
		}
		sp.mu.Unlock()
		select {
		case <-sp.stop:
			return
		case <-tk.C:
		}
	}
}

// Last returns the latest reading.
func (sp *Sampler) Last() (Sample, bool) {
	sp.mu.Lock()
	defer sp.mu.Unlock()
	if len(sp.samples) == 0 {
		return Sample{}, false
	}
	return sp.samples[len(sp.samples)-1], true
}

// Stop ends polling (waits up to 2 s for the poller) and returns the distinct
// readings and the number of polls.
func (sp *Sampler) Stop() ([]Sample, int) {
	close(sp.stop)
	select {
	case <-sp.done:
	case <-time.After(2 * time.Second):
	}
	sp.mu.Lock()
	defer sp.mu.Unlock()
	return append([]Sample(nil), sp.samples...), sp.polls
}

// WaitUntil polls cond every 10 ms until it holds or the deadline passes.
func WaitUntil(d time.Duration, cond func() bool) bool {
	end := time.Now().Add(d)
	for {
		if cond() {
			return true
		}
		if time.Now().After(end) {
			return false
		}
		time.Sleep(10 * time.Millisecond)
	}
}

// Synced reports whether the client's best block is the tip of chain ch with
// the matching filter header.
func Synced(cs *neutrino.ChainService, ch *Chain) bool {
	bs, err := cs.BestBlock()
	if err != nil || int(bs.Height) != ch.Tip() || bs.Hash != ch.TipHash() {
		return false
	}
	fh, err := cs.RegFilterHeaders.FetchHeaderByHeight(uint32(bs.Height))
	return err == nil && *fh == ch.FHdrs[ch.Tip()]
}

// ---------------------------------------------------------------------
// Reopen check.

// Reopen is the result of reopening a data directory with the real stores.
type Reopen struct {
	OpenOK    bool   `json:"open_ok"`
	HdrTip    int32  `json:"hdr_tip"`
	FTip      int32  `json:"filter_tip"`
	TipsOK    bool   `json:"tips_ok"`    // both ChainTips readable, filter tip <= block tip
	ChainOK   bool   `json:"chain_ok"`   // every stored header links to its parent from genesis and lies on a known valid chain
	FiltersOK bool   `json:"filters_ok"` // every stored filter header equals the valid chain's
	What      string `json:"what,omitempty"`
}

// ReopenCheck opens dir's database and both header stores again and checks
// their basic consistency against the set of valid chains.
func ReopenCheck(dir string, valid []*Chain) (r Reopen) {
	r.HdrTip, r.FTip = -1, -1
	db, err := walletdb.Open("bdb", filepath.Join(dir, "neutrino.db"), true, 5*time.Second, false)
	if err != nil {
		r.What = "open db: " + err.Error()
		return
	}
	defer db.Close()
	bh, err := headerfs.NewBlockHeaderStore(dir, db, &Params)
	if err != nil {
		r.What = "open block header store: " + err.Error()
		return
	}
	fh, err := headerfs.NewFilterHeaderStore(dir, db, headerfs.RegularFilter, &Params, nil)
	if err != nil {
		r.What = "open filter header store: " + err.Error()
		return
	}
	r.OpenOK = true
	_, bt, err1 := bh.ChainTip()
	_, ft, err2 := fh.ChainTip()
	if err1 != nil || err2 != nil {
		r.What = fmt.Sprintf("chain tip unreadable: %v / %v", err1, err2)
		return
	}
	r.HdrTip, r.FTip = int32(bt), int32(ft)
	if ft > bt {
		r.What = "filter tip above block tip"
		return
	}
	r.TipsOK = true
	// Which valid chain holds the stored tip?
	tipHdr, err := bh.FetchHeaderByHeight(bt)
	if err != nil {
		r.What = "tip header unreadable: " + err.Error()
		return
	}
	var on *Chain
	for _, c := range valid {
		if c.Contains(int(bt), tipHdr.BlockHash()) {
			on = c
			break
		}
	}
	if on == nil {
		r.What = "stored tip is on no valid chain"
		return
	}
	for h := uint32(0); h <= bt; h++ {
		hd, err := bh.FetchHeaderByHeight(h)
		if err != nil || hd.BlockHash() != on.Hashes[h] {
			r.What = fmt.Sprintf("stored header %d is not the valid chain's", h)
			return
		}
	}
	r.ChainOK = true
	for h := uint32(0); h <= ft; h++ {
		x, err := fh.FetchHeaderByHeight(h)
		if err != nil || *x != on.FHdrs[h] {
			r.What = fmt.Sprintf("stored filter header %d is not the valid chain's", h)
			return
		}
	}
	r.FiltersOK = true
	return
}

// SortedKeys returns the keys of m sorted.
func SortedKeys(m map[string]int) []string {
	k := make([]string, 0, len(m))
	for x := range m {
		k = append(k, x)
	}
	sort.Strings(k)
	return k
}

// EnableLog routes neutrino's log output to stderr at the given level
// ("debug", "info", ...); for debugging scenarios by hand.
func EnableLog(level string) {
	backend := btclog.NewBackend(os.Stderr)
	l := backend.Logger("NTRN")
	lv, _ := btclog.LevelFromString(level)
	l.SetLevel(lv)
	neutrino.UseLogger(l)
}

func init() {
	if lv := os.Getenv("NETSIM_LOG"); lv != "" {
		EnableLog(lv)
	}
}
