package netsim

import (
	"bytes"
	"io"
	"net"
	"sync"
	"time"
)

// Buffered in-memory connection pair (net.Pipe is unbuffered and deadlocks the
// bitcoin version handshake: both sides write before reading).
type half struct {
	mu     sync.Mutex
	cv     *sync.Cond
	buf    bytes.Buffer
	closed bool
	// a reader that has stopped reading: the bytes stay where they are and
	// the buffer takes at most limit bytes; a Write that does not fit blocks
	// (like a socket whose send buffer is full) until the connection is closed
	deaf  bool
	limit int
}

func newHalf() *half { h := &half{}; h.cv = sync.NewCond(&h.mu); return h }

type bufConn struct {
	r, w          *half
	local, remote net.Addr
}

func BufPipe(a, b net.Addr) (net.Conn, net.Conn) {
	x, y := newHalf(), newHalf()
	return &bufConn{r: x, w: y, local: a, remote: b}, &bufConn{r: y, w: x, local: b, remote: a}
}

func (c *bufConn) Read(p []byte) (int, error) {
	c.r.mu.Lock()
	defer c.r.mu.Unlock()
	for c.r.buf.Len() == 0 || c.r.deaf {
		if c.r.closed {
			return 0, io.EOF
		}
		c.r.cv.Wait()
	}
	return c.r.buf.Read(p)
}

// StopReading makes this end of the connection stop reading for good (a Read
// in progress or issued later blocks until the connection is closed) while
// the connection stays open; the peer can still write slack more bytes, then
// its Write blocks.
func (c *bufConn) StopReading(slack int) {
	c.r.mu.Lock()
	c.r.deaf = true
	c.r.limit = c.r.buf.Len() + slack
	c.r.mu.Unlock()
}
func (c *bufConn) Write(p []byte) (int, error) {
	c.w.mu.Lock()
	defer c.w.mu.Unlock()
	written := 0
	for {
		if c.w.closed {
			return written, io.ErrClosedPipe
		}
		if !c.w.deaf {
			n, _ := c.w.buf.Write(p[written:])
			c.w.cv.Broadcast()
			return written + n, nil
		}
		// the reader has stopped reading: take what still fits, then block
		if free := c.w.limit - c.w.buf.Len(); free > 0 {
			k := len(p) - written
			if k > free {
				k = free
			}
			c.w.buf.Write(p[written : written+k])
			written += k
			if written == len(p) {
				return written, nil
			}
		}
		c.w.cv.Wait()
	}
}
func (c *bufConn) Close() error {
	for _, h := range []*half{c.r, c.w} {
		h.mu.Lock()
		h.closed = true
		h.cv.Broadcast()
		h.mu.Unlock()
	}
	return nil
}
func (c *bufConn) LocalAddr() net.Addr                { return c.local }
func (c *bufConn) RemoteAddr() net.Addr               { return c.remote }
func (c *bufConn) SetDeadline(t time.Time) error      { return nil }
func (c *bufConn) SetReadDeadline(t time.Time) error  { return nil }
func (c *bufConn) SetWriteDeadline(t time.Time) error { return nil }
