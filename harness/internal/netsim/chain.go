// Package netsim is the in-process network simulation (DESIGN.md §4, shared
// component S3): a full neutrino.ChainService with real stores and the real
// connmgr/peer/query stack whose Dialer hands out one end of a buffered
// in-memory connection; the other end is served by a scripted node written
// directly on wire.ReadMessage/WriteMessage.
//
// Netsim runs are wall-clock systems: compare them only through
// schedule-insensitive observables (safety predicates at every sample,
// converged state / ban set at a deadline).
package netsim

import (
	"encoding/binary"
	"math/rand"
	"sync"
	"time"

	"github.com/btcsuite/btcd/blockchain"
	"github.com/btcsuite/btcd/btcutil/v2"
	"github.com/btcsuite/btcd/btcutil/v2/gcs/builder"
	"github.com/btcsuite/btcd/chaincfg/v2"
	"github.com/btcsuite/btcd/chainhash/v2"
	"github.com/btcsuite/btcd/wire/v2"
)

// Params are the chain parameters of every simulated network.
var Params = chaincfg.SimNetParams

// BlockSpacing is the timestamp distance between consecutive blocks.
const BlockSpacing = 10 * time.Second

// Out describes one transaction output of the synthetic chain that scenarios
// can ask about (GetUtxo, Rescan).
type Out struct {
	OutPoint    wire.OutPoint
	PkScript    []byte
	Value       int64
	Height      int // block that creates it
	SpentHeight int // 0 = unspent on this chain
	SpendTx     chainhash.Hash
}

// Chain is an immutable synthetic simnet chain: valid proof of work at the
// simnet limit, coinbase-only and multi-transaction blocks, real basic
// filters, filter hashes and filter headers.  Index 0 is the genesis block.
type Chain struct {
	Blocks  []*wire.MsgBlock
	Hashes  []chainhash.Hash
	Filters [][]byte
	FHashes []chainhash.Hash
	FHdrs   []chainhash.Hash
	Index   map[chainhash.Hash]int
	Outs    []Out // every non-coinbase-created and coinbase output, in creation order

	// spendable outputs not yet spent (indices into Outs), for the builder.
	unspent []int
	salt    uint64
}

// Tip is the height of the last block.
func (c *Chain) Tip() int { return len(c.Blocks) - 1 }

// TipHash is the hash of the last block.
func (c *Chain) TipHash() chainhash.Hash { return c.Hashes[len(c.Hashes)-1] }

// Contains reports whether (height, hash) is a block of this chain.
func (c *Chain) Contains(height int, h chainhash.Hash) bool {
	return height >= 0 && height < len(c.Hashes) && c.Hashes[height] == h
}

func (c *Chain) clone() *Chain {
	d := &Chain{
		Blocks:  append([]*wire.MsgBlock(nil), c.Blocks...),
		Hashes:  append([]chainhash.Hash(nil), c.Hashes...),
		Filters: append([][]byte(nil), c.Filters...),
		FHashes: append([]chainhash.Hash(nil), c.FHashes...),
		FHdrs:   append([]chainhash.Hash(nil), c.FHdrs...),
		Index:   make(map[chainhash.Hash]int, len(c.Index)+8),
		Outs:    append([]Out(nil), c.Outs...),
		unspent: append([]int(nil), c.unspent...),
		salt:    c.salt,
	}
	for k, v := range c.Index {
		d.Index[k] = v
	}
	return d
}

func (c *Chain) prevScripts(b *wire.MsgBlock, scripts map[wire.OutPoint][]byte) [][]byte {
	var out [][]byte
	for i, tx := range b.Transactions {
		if i == 0 {
			continue
		}
		for _, in := range tx.TxIn {
			out = append(out, scripts[in.PreviousOutPoint])
		}
	}
	return out
}

func (c *Chain) add(b *wire.MsgBlock, prev [][]byte) {
	h := b.BlockHash()
	f, err := builder.BuildBasicFilter(b, prev)
	if err != nil {
		panic(err)
	}
	fb, _ := f.NBytes()
	fh, _ := builder.GetFilterHash(f)
	var p chainhash.Hash
	if len(c.FHdrs) > 0 {
		p = c.FHdrs[len(c.FHdrs)-1]
	}
	hdr, _ := builder.MakeHeaderForFilter(f, p)
	c.Index[h] = len(c.Blocks)
	c.Blocks = append(c.Blocks, b)
	c.Hashes = append(c.Hashes, h)
	c.Filters = append(c.Filters, fb)
	c.FHashes = append(c.FHashes, fh)
	c.FHdrs = append(c.FHdrs, hdr)
}

// Mine sets a nonce that satisfies the simnet proof-of-work limit.
func Mine(h *wire.BlockHeader) {
	for {
		hash := h.BlockHash()
		if blockchain.HashToBig(&hash).Cmp(Params.PowLimit) <= 0 {
			return
		}
		h.Nonce++
	}
}

// Unmine sets a nonce whose hash is ABOVE the limit (invalid proof of work).
func Unmine(h *wire.BlockHeader) {
	for {
		hash := h.BlockHash()
		if blockchain.HashToBig(&hash).Cmp(Params.PowLimit) > 0 {
			return
		}
		h.Nonce++
	}
}

func randScript(r *rand.Rand) []byte {
	s := make([]byte, 22)
	s[0], s[1] = 0x00, 0x14
	r.Read(s[2:])
	return s
}

// extend appends one block built from r.  txProb is the probability that the
// block carries spending transactions besides the coinbase.
func (c *Chain) extend(r *rand.Rand, txProb float64) {
	height := len(c.Blocks)
	prevHdr := c.Blocks[height-1].Header
	ts := prevHdr.Timestamp.Add(BlockSpacing)

	cb := wire.NewMsgTx(2)
	sig := make([]byte, 12)
	binary.LittleEndian.PutUint32(sig[0:], uint32(height))
	binary.LittleEndian.PutUint64(sig[4:], c.salt^r.Uint64())
	cb.AddTxIn(&wire.TxIn{PreviousOutPoint: wire.OutPoint{Index: 0xffffffff},
		SignatureScript: sig, Sequence: 0xffffffff})
	cbScript := randScript(r)
	cb.AddTxOut(&wire.TxOut{Value: 50e8, PkScript: cbScript})

	b := &wire.MsgBlock{Header: wire.BlockHeader{Version: 4, PrevBlock: c.Hashes[height-1],
		Timestamp: ts, Bits: Params.PowLimitBits}}
	_ = b.AddTransaction(cb)

	type pend struct {
		idx int
		tx  *wire.MsgTx
	}
	var spends []pend
	if height > 2 && r.Float64() < txProb && len(c.unspent) > 0 {
		n := 1 + r.Intn(3)
		for k := 0; k < n && len(c.unspent) > 0; k++ {
			j := r.Intn(len(c.unspent))
			oi := c.unspent[j]
			c.unspent = append(c.unspent[:j], c.unspent[j+1:]...)
			o := c.Outs[oi]
			if o.Value < 1e6 {
				continue
			}
			tx := wire.NewMsgTx(2)
			tx.AddTxIn(&wire.TxIn{PreviousOutPoint: o.OutPoint, Sequence: 0xffffffff})
			nout := 1 + r.Intn(2)
			for q := 0; q < nout; q++ {
				tx.AddTxOut(&wire.TxOut{Value: o.Value/int64(nout) - 1000, PkScript: randScript(r)})
			}
			_ = b.AddTransaction(tx)
			spends = append(spends, pend{oi, tx})
		}
	}
	utx := make([]*btcutil.Tx, len(b.Transactions))
	for i, tx := range b.Transactions {
		utx[i] = btcutil.NewTx(tx)
	}
	b.Header.MerkleRoot = blockchain.CalcMerkleRoot(utx, false)
	Mine(&b.Header)

	scripts := map[wire.OutPoint][]byte{}
	for _, p := range spends {
		scripts[c.Outs[p.idx].OutPoint] = c.Outs[p.idx].PkScript
	}
	c.add(b, c.prevScripts(b, scripts))

	for _, p := range spends {
		c.Outs[p.idx].SpentHeight = height
		c.Outs[p.idx].SpendTx = p.tx.TxHash()
	}
	for _, tx := range b.Transactions {
		h := tx.TxHash()
		for i, o := range tx.TxOut {
			c.Outs = append(c.Outs, Out{OutPoint: wire.OutPoint{Hash: h, Index: uint32(i)},
				PkScript: o.PkScript, Value: o.Value, Height: height})
			c.unspent = append(c.unspent, len(c.Outs)-1)
		}
	}
}

// NewChain builds n blocks on top of the simnet genesis block, deterministic
// in (seed, n, tipTime): block n has timestamp tipTime, its ancestors are
// BlockSpacing apart.
func NewChain(seed int64, n int, tipTime time.Time, txProb float64) *Chain {
	c := &Chain{Index: map[chainhash.Hash]int{}, salt: uint64(seed) * 0x9e3779b97f4a7c15}
	c.add(Params.GenesisBlock, nil)
	r := rand.New(rand.NewSource(seed*31 + 7))
	// The genesis block keeps its own (old) timestamp; block 1 starts the
	// regular spacing.  extend() derives the time from the previous header,
	// so temporarily pretend genesis is one spacing before block 1.
	start := tipTime.Truncate(time.Second).Add(-time.Duration(n) * BlockSpacing)
	gen := *c.Blocks[0]
	gen.Header.Timestamp = start
	real0 := c.Blocks[0]
	c.Blocks[0] = &gen
	for i := 1; i <= n; i++ {
		c.extend(r, txProb)
		if i == 1 {
			c.Blocks[0] = real0
		}
	}
	c.Blocks[0] = real0
	return c
}

// Extend returns a copy of c with k more blocks (deterministic in salt).
func (c *Chain) Extend(k int, salt int64, txProb float64) *Chain {
	d := c.clone()
	d.salt = c.salt ^ (uint64(salt)+1)*0xbf58476d1ce4e5b9
	r := rand.New(rand.NewSource(salt*131 + int64(len(c.Blocks))))
	for i := 0; i < k; i++ {
		d.extend(r, txProb)
	}
	return d
}

// Fork returns a chain sharing blocks 0..height with c followed by k fresh
// blocks (different from c's for every salt != 0).
func (c *Chain) Fork(height, k int, salt int64, txProb float64) *Chain {
	d := c.clone()
	for i := height + 1; i < len(d.Blocks); i++ {
		delete(d.Index, d.Hashes[i])
	}
	d.Blocks, d.Hashes, d.Filters = d.Blocks[:height+1], d.Hashes[:height+1], d.Filters[:height+1]
	d.FHashes, d.FHdrs = d.FHashes[:height+1], d.FHdrs[:height+1]
	// Rebuild the output view for the shorter prefix.
	var outs []Out
	for _, o := range d.Outs {
		if o.Height > height {
			continue
		}
		if o.SpentHeight > height {
			o.SpentHeight, o.SpendTx = 0, chainhash.Hash{}
		}
		outs = append(outs, o)
	}
	d.Outs = outs
	d.unspent = nil
	for i, o := range d.Outs {
		if o.SpentHeight == 0 {
			d.unspent = append(d.unspent, i)
		}
	}
	return d.Extend(k, salt+7777, txProb)
}

var (
	chainMu    sync.Mutex
	chainCache = map[[3]int64]*Chain{}
)

// SetParams switches the chain parameters of the simulated network (simnet by
// default) for everything created afterwards and forgets the cached chains.
// Only between scenario batches: scenarios of one batch share the parameters.
// (neutrino keeps asking for headers after every headers message on simnet
// only, which hides locator problems; regtest behaves like a real network.)
func SetParams(p chaincfg.Params) {
	chainMu.Lock()
	defer chainMu.Unlock()
	Params = p
	chainCache = map[[3]int64]*Chain{}
}

// CachedChain memoises NewChain (chains are immutable, so scenarios of one
// run share the expensive long prefix).
func CachedChain(seed int64, n int, tipTime time.Time, txProb float64) *Chain {
	key := [3]int64{seed, int64(n), tipTime.Unix()*1000 + int64(txProb*100)}
	chainMu.Lock()
	defer chainMu.Unlock()
	if c, ok := chainCache[key]; ok {
		return c
	}
	c := NewChain(seed, n, tipTime, txProb)
	chainCache[key] = c
	return c
}

// HeightsWithTxs returns the heights (>= 1) of blocks that carry transactions
// besides the coinbase (multi = true) or only the coinbase (multi = false).
func (c *Chain) HeightsWithTxs(multi bool) []int {
	var hs []int
	for i := 1; i < len(c.Blocks); i++ {
		if (len(c.Blocks[i].Transactions) > 1) == multi {
			hs = append(hs, i)
		}
	}
	return hs
}
