// Operations, execution and generation of header-store histories, shared
// by the C07 (sequential, faults) and C08 (crash images) harnesses.
package storeh

import (
	"fmt"
	"math/rand"
	"sort"
	"sync/atomic"
	"time"

	"github.com/btcsuite/btcd/blockchain"
	"github.com/btcsuite/btcd/chainhash/v2"
	"github.com/lightninglabs/neutrino/headerfs"

	c "verifharness/internal/common"
)

type Ent struct {
	A int64 `json:"a"` // bwrite: block token; fwrite: filter token
	B int64 `json:"b"` // bwrite: height;      fwrite: block token
}

type Op struct {
	Kind  string `json:"kind"`
	Es    []Ent  `json:"es,omitempty"`
	N     int64  `json:"n,omitempty"`
	X     int64  `json:"x,omitempty"`
	Fault string `json:"fault,omitempty"` // "", write, writetrunc, db, dbsync, trunc
	K     int64  `json:"k,omitempty"`
	Obs   string `json:"obs,omitempty"`   // Gallina term of the observation
	WF    bool   `json:"wf"`              // generated as a well-formed call
	Panic string `json:"panic,omitempty"` // the real code panicked in this call
	Race  string `json:"race,omitempty"`  // a reader racing with this call saw a state no history has
}

type History struct {
	ID  int  `json:"id"`
	Ops []Op `json:"ops"`
	// ConcRead describes the first disagreement between concurrent readers
	// and the sequential dump at the end of the history ("" = none).
	ConcRead string `json:"conc_read,omitempty"`
}

type locatorer interface {
	BlockLocatorFromHash(hash *chainhash.Hash) (blockchain.BlockLocator, error)
}

type Env struct {
	// RaceReader starts a by-height reader alongside every block append whose
	// index transaction is made to fail.
	RaceReader bool
	Dir        string
	DB         *FDB
	BS         headerfs.BlockHeaderStore
	FS         headerfs.FilterHeaderStore
	BF         *FFile
	FF         *FFile
	Pool       *Pool
	// Assert is the header state assertion handed to NewFilterHeaderStore
	// by Open (nil: none).
	Assert *headerfs.FilterHeader
}

func (e *Env) Open() error {
	raw, err := OpenDB(e.Dir)
	if err != nil {
		return err
	}
	e.DB = &FDB{DB: raw}
	e.BS, err = headerfs.NewBlockHeaderStore(e.Dir, e.DB, Params)
	if err != nil {
		raw.Close()
		return err
	}
	e.FS, err = headerfs.NewFilterHeaderStore(e.Dir, e.DB, headerfs.RegularFilter, Params, e.Assert)
	if err != nil {
		headerfs.VerifCloseBlockFile(e.BS)
		raw.Close()
		return err
	}
	headerfs.VerifWrapBlockFile(e.BS, func(f headerfs.File) headerfs.File {
		e.BF = NewFFile(f, "block")
		return e.BF
	})
	headerfs.VerifWrapFilterFile(e.FS, func(f headerfs.File) headerfs.File {
		e.FF = NewFFile(f, "filter")
		return e.FF
	})
	return nil
}

// Adopt installs stores that were opened elsewhere (e.g. by
// neutrino.NewChainService on db) and wraps their flat files as Open does.
func (e *Env) Adopt(db *FDB, bs headerfs.BlockHeaderStore, fs headerfs.FilterHeaderStore) {
	e.DB, e.BS, e.FS = db, bs, fs
	headerfs.VerifWrapBlockFile(e.BS, func(f headerfs.File) headerfs.File {
		e.BF = NewFFile(f, "block")
		return e.BF
	})
	headerfs.VerifWrapFilterFile(e.FS, func(f headerfs.File) headerfs.File {
		e.FF = NewFFile(f, "filter")
		return e.FF
	})
}

func (e *Env) Close() {
	if e.BS != nil {
		headerfs.VerifCloseBlockFile(e.BS)
	}
	if e.FS != nil {
		headerfs.VerifCloseFilterFile(e.FS)
	}
	if e.DB != nil {
		e.DB.DB.Close()
	}
	e.BS, e.FS, e.DB = nil, nil, nil
}

func (e *Env) arm(file *FFile, fault string, k int64) {
	switch fault {
	case "write":
		file.WriteFailAt = k
	case "writetrunc":
		file.WriteFailAt = k
		file.TruncFail = true
	case "db":
		e.DB.Fail = true
	case "db2":
		// the SECOND index transaction of the call fails: the operations
		// of the unchanged code make one, so this is no fault at all
		e.DB.SkipThenFail = 2
	case "dbsync":
		e.DB.Fail = true
		file.SyncFail = true
	case "sync":
		// the next fsync of the header file fails and nothing else does:
		// the operations of the unchanged code sync only when compensating
		// for a failed index transaction, so this is no fault at all
		file.SyncFail = true
	case "trunc":
		// For appends: db failure followed by a failing compensation;
		// for rollbacks: the truncate itself fails.
		file.TruncFail = true
	}
}

func (e *Env) disarm() {
	for _, f := range []*FFile{e.BF, e.FF} {
		f.WriteFailAt, f.TruncFail, f.SyncFail = -1, false, false
	}
	e.DB.Fail = false
	e.DB.SkipThenFail = 0
}

func optPair(ok bool, a, b int64) string {
	if !ok {
		return "None"
	}
	return c.Some(c.Pair(c.Z(a), c.Z(b)))
}

func toks(l []int64) string { return c.Ints(l) }

// exec runs one op on the real stores and returns the observation term; the
// bool is false when the history must stop (reopen failed).
func (e *Env) Exec(op *Op) (cont bool) {
	defer func() {
		if r := recover(); r != nil {
			// the store's mutex may still be held: the history stops here
			op.Panic = fmt.Sprint(r)
			op.Obs = ""
			e.disarm()
			cont = false
		}
	}()
	return e.exec(op)
}

func (e *Env) exec(op *Op) bool {
	p := e.Pool
	switch op.Kind {
	case "bwrite":
		hdrs := make([]headerfs.BlockHeader, len(op.Es))
		for i, en := range op.Es {
			hdrs[i] = headerfs.BlockHeader{BlockHeader: p.Header(en.A), Height: uint32(en.B)}
		}
		if op.Fault == "trunc" {
			e.DB.Fail = true
		}
		e.arm(e.BF, op.Fault, op.K)
		// A reader racing with an append whose index transaction fails
		// must never be handed a header of that append: no state before
		// or after the call holds it (the readers take the read lock).
		var sawUncommitted atomic.Bool
		stopR := make(chan struct{})
		doneR := make(chan struct{})
		if e.RaceReader && len(hdrs) > 0 && op.WF && op.Fault == "db" {
			e.DB.FailDelay = 300 * time.Microsecond
			first := hdrs[0].Height
			go func() {
				defer close(doneR)
				for {
					select {
					case <-stopR:
						return
					default:
					}
					if h, err := e.BS.FetchHeaderByHeight(first); err == nil && h.BlockHash() == hdrs[0].BlockHeader.BlockHash() {
						sawUncommitted.Store(true)
					}
				}
			}()
		} else {
			close(doneR)
		}
		err := e.BS.WriteHeaders(hdrs...)
		close(stopR)
		<-doneR
		e.DB.FailDelay = 0
		e.disarm()
		if err != nil && sawUncommitted.Load() {
			op.Race = "a concurrent FetchHeaderByHeight returned a header of an append that then reported failure"
		}
		op.Obs = c.App("ORes", c.Bool(err == nil))
	case "fwrite":
		hdrs := make([]headerfs.FilterHeader, len(op.Es))
		for i, en := range op.Es {
			hdrs[i] = headerfs.FilterHeader{FilterHash: p.Filter(en.A), HeaderHash: p.Hash(en.B)}
		}
		if op.Fault == "trunc" {
			e.DB.Fail = true
		}
		e.arm(e.FF, op.Fault, op.K)
		err := e.FS.WriteHeaders(hdrs...)
		e.disarm()
		op.Obs = c.App("ORes", c.Bool(err == nil))
	case "brollback":
		e.arm(e.BF, op.Fault, op.K)
		st, err := e.BS.RollbackBlockHeaders(uint32(op.N))
		e.disarm()
		if err != nil {
			op.Obs = "(OStamp None)"
		} else {
			op.Obs = c.App("OStamp", optPair(true, int64(uint32(st.Height)), p.BTok(st.Hash)))
		}
	case "frollback":
		nt := p.Hash(op.X)
		e.arm(e.FF, op.Fault, op.K)
		st, err := e.FS.RollbackLastBlock(&nt)
		e.disarm()
		if err != nil {
			op.Obs = "(OStamp None)"
		} else {
			op.Obs = c.App("OStamp", optPair(true, int64(uint32(st.Height)), p.FTok(st.Hash)))
		}
	case "reopen":
		e.Close()
		if err := e.Open(); err != nil {
			op.Obs = "(OReopen false)"
			return false
		}
		op.Obs = "(OReopen true)"
	case "legacy":
		// Move the index entries of the given block tokens to the legacy
		// root-bucket layout, then read the tip: invisible to the model
		// (rendered as QBTip).
		hs := make([]chainhash.Hash, len(op.Es))
		for i, en := range op.Es {
			hs[i] = p.Hash(en.A)
		}
		if err := headerfs.VerifLegacyize(e.DB, hs); err != nil {
			op.Obs = "(OPair None)"
			break
		}
		fallthrough
	case "qbtip":
		h, ht, err := e.BS.ChainTip()
		if err != nil {
			op.Obs = "(OPair None)"
		} else {
			op.Obs = c.App("OPair", optPair(true, p.HTok(h), int64(ht)))
		}
	case "qbheight":
		h, err := e.BS.FetchHeaderByHeight(uint32(op.N))
		if err != nil {
			op.Obs = "(OTok None)"
		} else {
			op.Obs = c.App("OTok", c.Some(c.Z(p.HTok(h))))
		}
	case "qbhash":
		x := p.Hash(op.X)
		h, ht, err := e.BS.FetchHeader(&x)
		if err != nil {
			op.Obs = "(OPair None)"
		} else {
			op.Obs = c.App("OPair", optPair(true, p.HTok(h), int64(ht)))
		}
	case "qheightof":
		x := p.Hash(op.X)
		ht, err := e.BS.HeightFromHash(&x)
		if err != nil {
			op.Obs = "(OTok None)"
		} else {
			op.Obs = c.App("OTok", c.Some(c.Z(int64(ht))))
		}
	case "qbanc":
		x := p.Hash(op.X)
		hs, start, err := e.BS.FetchHeaderAncestors(uint32(op.N), &x)
		if err != nil {
			op.Obs = "(OList None)"
		} else {
			var l []int64
			for i := range hs {
				l = append(l, p.HTok(&hs[i]))
			}
			op.Obs = c.App("OList", c.Some(c.Pair(toks(l), c.Z(int64(start)))))
		}
	case "qlocator", "qlatest":
		var loc blockchain.BlockLocator
		var err error
		if op.Kind == "qlatest" {
			loc, err = e.BS.LatestBlockLocator()
			if err != nil && len(loc) == 0 {
				op.Obs = "(OLoc None)"
				break
			}
		} else {
			x := p.Hash(op.X)
			loc, err = e.BS.(locatorer).BlockLocatorFromHash(&x)
		}
		var l []int64
		for _, h := range loc {
			l = append(l, p.BTok(*h))
		}
		op.Obs = c.App("OLoc", c.Some(c.Pair(toks(l), c.Bool(err == nil))))
	case "qftip":
		h, ht, err := e.FS.ChainTip()
		if err != nil {
			op.Obs = "(OPair None)"
		} else {
			op.Obs = c.App("OPair", optPair(true, p.FTok(*h), int64(ht)))
		}
	case "qfheight":
		h, err := e.FS.FetchHeaderByHeight(uint32(op.N))
		if err != nil {
			op.Obs = "(OTok None)"
		} else {
			op.Obs = c.App("OTok", c.Some(c.Z(p.FTok(*h))))
		}
	case "qfhash":
		x := p.Hash(op.X)
		h, err := e.FS.FetchHeader(&x)
		if err != nil {
			op.Obs = "(OTok None)"
		} else {
			op.Obs = c.App("OTok", c.Some(c.Z(p.FTok(*h))))
		}
	case "qfanc":
		x := p.Hash(op.X)
		hs, start, err := e.FS.FetchHeaderAncestors(uint32(op.N), &x)
		if err != nil {
			op.Obs = "(OList None)"
		} else {
			var l []int64
			for i := range hs {
				l = append(l, p.FTok(hs[i]))
			}
			op.Obs = c.App("OList", c.Some(c.Pair(toks(l), c.Z(int64(start)))))
		}
	default:
		panic("op " + op.Kind)
	}
	return true
}

func faultTerm(op *Op) string {
	switch op.Fault {
	case "", "db2", "sync":
		return "NoFault"
	case "write":
		return c.App("WriteFail", c.Z(op.K))
	case "writetrunc":
		return c.App("WriteTruncFail", c.Z(op.K))
	case "db":
		return "DbFail"
	case "dbsync":
		return "DbSyncFail"
	case "trunc":
		return "TruncFail"
	}
	panic(op.Fault)
}

func OpTerm(op *Op) string {
	ents := func() string {
		it := make([]string, len(op.Es))
		for i, e := range op.Es {
			it[i] = c.Pair(c.Z(e.A), c.Z(e.B))
		}
		return c.List(it)
	}
	switch op.Kind {
	case "bwrite":
		return c.App("BWrite", ents(), faultTerm(op))
	case "fwrite":
		return c.App("FWrite", ents(), faultTerm(op))
	case "brollback":
		return c.App("BRollback", c.Z(op.N), faultTerm(op))
	case "frollback":
		return c.App("FRollback", c.Z(op.X), faultTerm(op))
	case "reopen":
		return "Reopen"
	case "qbtip", "legacy":
		return "QBTip"
	case "qbheight":
		return c.App("QBHeight", c.Z(op.N))
	case "qbhash":
		return c.App("QBHash", c.Z(op.X))
	case "qheightof":
		return c.App("QHeightOf", c.Z(op.X))
	case "qbanc":
		return c.App("QBAnc", c.Z(op.N), c.Z(op.X))
	case "qlocator":
		return c.App("QLocator", c.Z(op.X))
	case "qlatest":
		return "QLatestLocator"
	case "qftip":
		return "QFTip"
	case "qfheight":
		return c.App("QFHeight", c.Z(op.N))
	case "qfhash":
		return c.App("QFHash", c.Z(op.X))
	case "qfanc":
		return c.App("QFAnc", c.Z(op.N), c.Z(op.X))
	}
	panic(op.Kind)
}

// ---------------------------------------------------------------------
// Generation (adaptive: reads the real tips to produce mostly well-formed
// calls; the stored history replays without regeneration).

type Gen struct {
	R      *rand.Rand
	E      *Env
	Used   map[int64]bool // block tokens currently believed in the store
	Chain  []int64        // shadow block chain (tokens by height), best effort
	FChain int            // shadow number of filter entries
	nextF  int64
	MaxTok int64          // fresh block tokens are drawn from 1..MaxTok (0 = whole pool)
	Ever   map[int64]bool // every block token ever handed to WriteHeaders in this history
	// the previous op moved entries to the legacy bucket: prefer a rollback
	// as long as the filter tip allows, so that its range mixes both layouts
	afterLegacy bool
}

func (g *Gen) fresh() int64 {
	n := int64(len(g.E.Pool.Headers))
	if g.MaxTok > 0 {
		n = g.MaxTok
	}
	if g.R.Intn(8) == 0 {
		// boundary hashes (sub-bucket prefixes 00 00 and ff ff)
		all := int64(len(g.E.Pool.Headers))
		for _, t := range []int64{1, all, 2, all - 1, 3, all - 2} {
			if t <= n && !g.Used[t] && t != g.E.Pool.Genesis && g.R.Intn(2) == 0 {
				return t
			}
		}
	}
	for try := 0; try < 1000; try++ {
		t := 1 + g.R.Int63n(n)
		if !g.Used[t] && t != g.E.Pool.Genesis {
			return t
		}
	}
	return 1
}

func (g *Gen) someHash() int64 {
	x := g.R.Intn(10)
	switch {
	case x < 6 && len(g.Chain) > 0:
		return g.Chain[g.R.Intn(len(g.Chain))]
	case x < 8 && len(g.Ever) > 0:
		// a hash written earlier (possibly rolled back since)
		keys := make([]int64, 0, len(g.Ever))
		for t := range g.Ever {
			keys = append(keys, t)
		}
		sort.Slice(keys, func(i, j int) bool { return keys[i] < keys[j] })
		return keys[g.R.Intn(len(keys))]
	case x < 9:
		return 1 + g.R.Int63n(int64(len(g.E.Pool.Headers)))
	default:
		return 999999 // unknown
	}
}

func (g *Gen) someHeight() int64 {
	n := int64(len(g.Chain))
	switch g.R.Intn(8) {
	case 0:
		return 0
	case 1:
		return n - 1
	case 2:
		return n
	case 3:
		return 4294967295
	case 4:
		return n + 3
	default:
		if n > 0 {
			return g.R.Int63n(n)
		}
		return 0
	}
}

func (g *Gen) pickFault(app bool, nbytes int64, malformed bool) (string, int64) {
	x := g.R.Intn(100)
	if x < 6 && (nbytes > 0 || !app) {
		return "db2", 0
	}
	if x < 10 && (nbytes > 0 || !app) {
		return "sync", 0
	}
	if app {
		switch {
		case x < 78:
			return "", 0
		case x < 88 && nbytes > 0:
			return "write", g.R.Int63n(nbytes)
		case x < 95 && nbytes > 0:
			return "db", 0
		case malformed && nbytes > 0:
			switch g.R.Intn(3) {
			case 0:
				return "writetrunc", 1 + g.R.Int63n(nbytes)
			case 1:
				return "dbsync", 0
			default:
				return "trunc", 0
			}
		}
		return "", 0
	}
	if malformed && x < 30 {
		if g.R.Intn(2) == 0 {
			return "trunc", 0
		}
		return "db", 0
	}
	return "", 0
}

func (g *Gen) Next(malformed bool) Op {
	r := g.R
	x := r.Intn(100)
	tipH := int64(len(g.Chain)) - 1
	if g.afterLegacy {
		g.afterLegacy = false
		if room := int64(len(g.Chain) - g.FChain); room >= 2 && room <= tipH && r.Intn(2) == 0 {
			return Op{Kind: "brollback", WF: true, N: room}
		}
	}
	switch {
	case x < 22: // block append
		k := []int{0, 1, 1, 2, 2, 5, 17}[r.Intn(7)]
		op := Op{Kind: "bwrite", WF: true}
		h := tipH + 1
		for i := 0; i < k; i++ {
			t := g.fresh()
			g.Used[t] = true
			if g.Ever == nil {
				g.Ever = map[int64]bool{}
			}
			g.Ever[t] = true
			ht := h + int64(i)
			if malformed && r.Intn(6) == 0 {
				ht += int64(1 + r.Intn(3)) // gap / wrong height
				op.WF = false
			}
			op.Es = append(op.Es, Ent{t, ht})
		}
		if malformed && k > 1 && r.Intn(5) == 0 {
			// shuffled order
			r.Shuffle(len(op.Es), func(i, j int) { op.Es[i], op.Es[j] = op.Es[j], op.Es[i] })
			op.WF = false
		}
		op.Fault, op.K = g.pickFault(true, int64(k)*80, malformed)
		if op.Fault == "writetrunc" || op.Fault == "dbsync" || op.Fault == "trunc" {
			op.WF = false
		}
		return op
	case x < 36: // filter append
		room := len(g.Chain) - g.FChain
		k := []int{0, 1, 1, 2, 5}[r.Intn(5)]
		op := Op{Kind: "fwrite", WF: true}
		if k > room {
			if !malformed {
				k = room
			} else {
				op.WF = false
			}
		}
		for i := 0; i < k; i++ {
			g.nextF++
			bt := int64(999998)
			if g.FChain+i < len(g.Chain) {
				bt = g.Chain[g.FChain+i]
			}
			if malformed && r.Intn(6) == 0 {
				bt = g.someHash()
				op.WF = false
			}
			op.Es = append(op.Es, Ent{FilterBase + 1 + (g.nextF % int64(len(g.E.Pool.Filters)-1)), bt})
		}
		op.Fault, op.K = g.pickFault(true, int64(k)*32, malformed)
		if op.Fault == "writetrunc" || op.Fault == "dbsync" || op.Fault == "trunc" {
			op.WF = false
		}
		return op
	case x < 46: // block rollback
		op := Op{Kind: "brollback", WF: true}
		room := int64(len(g.Chain) - g.FChain)
		switch r.Intn(6) {
		case 0:
			op.N = 0
		case 1:
			op.N = 1
		case 2:
			op.N = 2
		case 3:
			op.N = room
		case 4:
			op.N = tipH
		default:
			op.N = tipH + 1
		}
		if op.N < 0 {
			op.N = 0
		}
		if op.N > room || op.N > tipH {
			if malformed {
				op.WF = false
			} else if room >= 0 {
				op.N = room
			}
		}
		op.Fault, op.K = g.pickFault(false, 0, malformed)
		if op.Fault != "" && op.Fault != "db2" && op.Fault != "sync" {
			op.WF = false
		}
		return op
	case x < 53: // filter rollback
		op := Op{Kind: "frollback", WF: true}
		if g.FChain >= 2 && g.FChain-2 < len(g.Chain) {
			op.X = g.Chain[g.FChain-2]
		} else {
			op.X = g.someHash()
			op.WF = false
			if !malformed {
				return Op{Kind: "qftip", WF: true}
			}
		}
		if malformed && r.Intn(4) == 0 {
			op.X = g.someHash()
			op.WF = false
		}
		op.Fault, op.K = g.pickFault(false, 0, malformed)
		if op.Fault != "" && op.Fault != "db2" && op.Fault != "sync" {
			op.WF = false
		}
		return op
	case x < 57:
		return Op{Kind: "reopen", WF: true}
	case x < 59:
		// an old database: some of the stored entries (a prefix of the
		// chain, the tip, or a random subset) live in the root bucket
		g.afterLegacy = true
		op := Op{Kind: "legacy", WF: true}
		n := len(g.Chain)
		switch r.Intn(4) {
		case 0:
			for _, t := range g.Chain {
				op.Es = append(op.Es, Ent{A: t})
			}
		case 1:
			for _, t := range g.Chain[:n-n/2] {
				op.Es = append(op.Es, Ent{A: t})
			}
		case 2:
			if n > 0 {
				op.Es = append(op.Es, Ent{A: g.Chain[n-1]})
			}
		default:
			for _, t := range g.Chain {
				if r.Intn(2) == 0 {
					op.Es = append(op.Es, Ent{A: t})
				}
			}
		}
		return op
	case x < 64:
		return Op{Kind: "qbtip", WF: true}
	case x < 69:
		return Op{Kind: "qbheight", N: g.someHeight(), WF: true}
	case x < 74:
		return Op{Kind: "qbhash", X: g.someHash(), WF: true}
	case x < 78:
		return Op{Kind: "qheightof", X: g.someHash(), WF: true}
	case x < 82:
		n := []int64{0, 1, 2, tipH, tipH + 1, 7}[r.Intn(6)]
		if n < 0 {
			n = 0
		}
		return Op{Kind: "qbanc", N: n, X: g.someHash(), WF: true}
	case x < 85:
		return Op{Kind: "qlocator", X: g.someHash(), WF: true}
	case x < 87:
		return Op{Kind: "qlatest", WF: true}
	case x < 90:
		return Op{Kind: "qftip", WF: true}
	case x < 94:
		return Op{Kind: "qfheight", N: g.someHeight(), WF: true}
	case x < 97:
		return Op{Kind: "qfhash", X: g.someHash(), WF: true}
	default:
		return Op{Kind: "qfanc", N: []int64{0, 1, 2, 5}[r.Intn(4)], X: g.someHash(), WF: true}
	}
}

// resync refreshes the shadow chain from the real stores after each op.
func (g *Gen) Resync() {
	g.Chain = g.Chain[:0]
	g.Used = map[int64]bool{}
	_, tip, err := g.E.BS.ChainTip()
	if err == nil {
		for h := uint32(0); h <= tip; h++ {
			hd, err := g.E.BS.FetchHeaderByHeight(h)
			if err != nil {
				break
			}
			t := g.E.Pool.HTok(hd)
			g.Chain = append(g.Chain, t)
			g.Used[t] = true
		}
	}
	_, ft, err := g.E.FS.ChainTip()
	if err == nil {
		g.FChain = int(ft) + 1
	}
}

// fullDump appends the reads that pin down the whole visible state.
func FullDump(g *Gen) []Op {
	ops := []Op{{Kind: "qbtip", WF: true}, {Kind: "qftip", WF: true}, {Kind: "qlatest", WF: true}}
	n := int64(len(g.Chain))
	for h := int64(0); h <= n; h++ {
		ops = append(ops, Op{Kind: "qbheight", N: h, WF: true}, Op{Kind: "qfheight", N: h, WF: true})
	}
	for _, t := range g.Chain {
		ops = append(ops, Op{Kind: "qheightof", X: t, WF: true}, Op{Kind: "qfhash", X: t, WF: true})
	}
	// hashes that were written once and rolled back since must not be found
	onChain := map[int64]bool{}
	for _, t := range g.Chain {
		onChain[t] = true
	}
	var gone []int64
	for t := range g.Ever {
		if !onChain[t] {
			gone = append(gone, t)
		}
	}
	sort.Slice(gone, func(i, j int) bool { return gone[i] < gone[j] })
	for _, t := range gone {
		ops = append(ops, Op{Kind: "qheightof", X: t, WF: true}, Op{Kind: "qbhash", X: t, WF: true},
			Op{Kind: "qfhash", X: t, WF: true}, Op{Kind: "qfanc", N: 1, X: t, WF: true})
	}
	return ops
}

// ProbeGenesisFilter returns the genesis filter header a fresh filter store holds.
func ProbeGenesisFilter(base string) (chainhash.Hash, error) {
	var gf chainhash.Hash
	tmpl, err := Template(base)
	if err != nil {
		return gf, err
	}
	d := base + "/probe"
	if err := CopyDir(tmpl, d); err != nil {
		return gf, err
	}
	e := &Env{Dir: d}
	if err := e.Open(); err != nil {
		return gf, err
	}
	h, err := e.FS.FetchHeaderByHeight(0)
	if err != nil {
		return gf, err
	}
	gf = *h
	e.Close()
	return gf, nil
}
