// Package storeh: shared pieces for harnesses that drive the real headerfs
// stores: fault-injecting File and DB wrappers, token interning, template
// store directories.
package storeh

import (
	"bytes"
	"errors"
	"fmt"
	"io"
	"math/rand"
	"os"
	"path/filepath"
	"sort"
	"sync"
	"syscall"
	"time"

	"github.com/btcsuite/btcd/chaincfg/v2"
	"github.com/btcsuite/btcd/chainhash/v2"
	"github.com/btcsuite/btcd/wire/v2"
	"github.com/btcsuite/btcwallet/walletdb"
	_ "github.com/btcsuite/btcwallet/walletdb/bdb"
	"github.com/lightninglabs/neutrino/headerfs"
)

// ErrInjected is the injected failure.
var ErrInjected = errors.New("injected fault")

// Params used by all store harnesses.
var Params = &chaincfg.SimNetParams

// ---------------------------------------------------------------------
// File wrapper.

// FFile wraps a headerfs.File with one-shot faults and a step callback.
type FFile struct {
	headerfs.File
	Name_ string
	// one-shot faults
	WriteFailAt int64 // >= 0: next Write stores this many bytes, then fails
	TruncFail   bool
	SyncFail    bool
	// OnStep is called after every completed durable step.
	OnStep func(file string, kind string, arg int64)
	// BeforeWrite is called before a Write with the data.
	BeforeWrite func(file string, data []byte)
}

// NewFFile wraps f.
func NewFFile(f headerfs.File, name string) *FFile {
	return &FFile{File: f, Name_: name, WriteFailAt: -1}
}

func (f *FFile) Write(p []byte) (int, error) {
	if f.BeforeWrite != nil {
		f.BeforeWrite(f.Name_, p)
	}
	if f.WriteFailAt >= 0 && len(p) > 0 {
		k := f.WriteFailAt
		f.WriteFailAt = -1
		if k > int64(len(p)) {
			k = int64(len(p))
		}
		n := 0
		if k > 0 {
			n, _ = f.File.Write(p[:k])
		}
		return n, ErrInjected
	}
	n, err := f.File.Write(p)
	if err == nil && f.OnStep != nil && len(p) > 0 {
		f.OnStep(f.Name_, "append", int64(len(p)))
	}
	return n, err
}

func (f *FFile) Truncate(size int64) error {
	if f.TruncFail {
		f.TruncFail = false
		return ErrInjected
	}
	err := f.File.Truncate(size)
	if err == nil && f.OnStep != nil {
		f.OnStep(f.Name_, "truncate", size)
	}
	return err
}

func (f *FFile) Sync() error {
	if f.SyncFail {
		f.SyncFail = false
		return ErrInjected
	}
	return f.File.Sync()
}

// ---------------------------------------------------------------------
// DB wrapper.

// FDB wraps a walletdb.DB; when Fail is set the next Update fails without
// running (the transaction is never committed).
type FDB struct {
	walletdb.DB
	Fail     bool
	OnCommit func()
	// OnCommitW, when set, is called after every committed Update with the
	// number of index writes of the transaction (Put/Delete of header entries
	// and tip keys; creating buckets and the sub-bucket marker do not count):
	// 0 = a commit that is not a durable step of the header stores.
	OnCommitW func(writes int)
	// AfterView, see View.
	AfterView func()
	// SkipThenFail = n > 0 makes the n-th Update from now fail (n = 1 is
	// what Fail does); cleared by disarm.
	SkipThenFail int
	// FailDelay is how long an injected transaction failure takes.
	FailDelay time.Duration
}

// View passes through; AfterView (one shot) runs right after the next read
// transaction has returned, i.e. between an index lookup and whatever the
// store does next with its result.
func (d *FDB) View(f func(tx walletdb.ReadTx) error, reset func()) error {
	err := d.DB.View(f, reset)
	if h := d.AfterView; h != nil {
		d.AfterView = nil
		h()
	}
	return err
}

func (d *FDB) Update(f func(tx walletdb.ReadWriteTx) error, reset func()) error {
	if d.SkipThenFail > 0 {
		// fail the n-th update from now, let the earlier ones through
		d.SkipThenFail--
		if d.SkipThenFail == 0 {
			return ErrInjected
		}
	}
	if d.Fail {
		d.Fail = false
		if d.FailDelay > 0 {
			// the failing transaction takes a moment: readers racing
			// with the writer get a chance to run inside the window
			time.Sleep(d.FailDelay)
		}
		return ErrInjected
	}
	if d.OnCommitW != nil {
		n := 0
		err := d.DB.Update(func(tx walletdb.ReadWriteTx) error {
			return f(&cntTx{ReadWriteTx: tx, n: &n})
		}, reset)
		if err == nil {
			if d.OnCommit != nil {
				d.OnCommit()
			}
			d.OnCommitW(n)
		}
		return err
	}
	err := d.DB.Update(f, reset)
	if err == nil && d.OnCommit != nil {
		d.OnCommit()
	}
	return err
}

// cntTx / cntBucket count the writes of one transaction to the header index
// (top-level bucket "header-index"); other components' buckets (filter db,
// ban store) are passed through uncounted.
type cntTx struct {
	walletdb.ReadWriteTx
	n *int
}

const headerIndexBucket = "header-index"

func (t *cntTx) wrap(b walletdb.ReadWriteBucket) walletdb.ReadWriteBucket {
	if b == nil {
		return nil
	}
	return &cntBucket{ReadWriteBucket: b, t: t}
}

func (t *cntTx) ReadWriteBucket(key []byte) walletdb.ReadWriteBucket {
	b := t.ReadWriteTx.ReadWriteBucket(key)
	if string(key) != headerIndexBucket {
		return b
	}
	return t.wrap(b)
}

func (t *cntTx) CreateTopLevelBucket(key []byte) (walletdb.ReadWriteBucket, error) {
	b, err := t.ReadWriteTx.CreateTopLevelBucket(key)
	if string(key) != headerIndexBucket {
		return b, err
	}
	return t.wrap(b), err
}

type cntBucket struct {
	walletdb.ReadWriteBucket
	t *cntTx
}

func (b *cntBucket) NestedReadWriteBucket(key []byte) walletdb.ReadWriteBucket {
	return b.t.wrap(b.ReadWriteBucket.NestedReadWriteBucket(key))
}

func (b *cntBucket) CreateBucket(key []byte) (walletdb.ReadWriteBucket, error) {
	nb, err := b.ReadWriteBucket.CreateBucket(key)
	return b.t.wrap(nb), err
}

func (b *cntBucket) CreateBucketIfNotExists(key []byte) (walletdb.ReadWriteBucket, error) {
	nb, err := b.ReadWriteBucket.CreateBucketIfNotExists(key)
	return b.t.wrap(nb), err
}

func (b *cntBucket) Put(key, value []byte) error {
	if string(key) != "index-sub-buckets-ready" {
		*b.t.n++
	}
	return b.ReadWriteBucket.Put(key, value)
}

func (b *cntBucket) Delete(key []byte) error {
	*b.t.n++
	return b.ReadWriteBucket.Delete(key)
}

func (b *cntBucket) Tx() walletdb.ReadWriteTx { return b.t }

// ---------------------------------------------------------------------
// Observation of a store directory (for start-up crash images: the
// constructors open their files themselves, so the durable steps they perform
// are derived from what the directory looks like at every index commit).

// DirObs is what a crash would leave behind, as far as the flat files go.
type DirObs struct {
	BSize, FSize int64  // -1 = the file does not exist
	BIno, FIno   uint64 // inode (a removed and re-created file gets a new one)
}

func statFile(p string) (int64, uint64) {
	fi, err := os.Stat(p)
	if err != nil {
		return -1, 0
	}
	var ino uint64
	if st, ok := fi.Sys().(*syscall.Stat_t); ok {
		ino = st.Ino
	}
	return fi.Size(), ino
}

// ObserveDir stats the two flat files of a store directory.
func ObserveDir(dir string) DirObs {
	var o DirObs
	o.BSize, o.BIno = statFile(filepath.Join(dir, "block_headers.bin"))
	o.FSize, o.FIno = statFile(filepath.Join(dir, "reg_filter_headers.bin"))
	return o
}

// ---------------------------------------------------------------------
// Template store directory.

var (
	tmplOnce sync.Once
	tmplDir  string
	tmplErr  error
)

// OpenDB opens (or creates) the bbolt file in dir.
func OpenDB(dir string) (walletdb.DB, error) {
	p := filepath.Join(dir, "neutrino.db")
	if _, err := os.Stat(p); err == nil {
		return walletdb.Open("bdb", p, true, 10*time.Second, false)
	}
	return walletdb.Create("bdb", p, true, 10*time.Second, false)
}

// Template builds (once per process) a directory with freshly initialised
// block and filter header stores and returns its path.
func Template(base string) (string, error) {
	tmplOnce.Do(func() {
		tmplDir = filepath.Join(base, "template")
		os.RemoveAll(tmplDir)
		if tmplErr = os.MkdirAll(tmplDir, 0o755); tmplErr != nil {
			return
		}
		var db walletdb.DB
		db, tmplErr = OpenDB(tmplDir)
		if tmplErr != nil {
			return
		}
		bs, err := headerfs.NewBlockHeaderStore(tmplDir, db, Params)
		if err != nil {
			tmplErr = err
			return
		}
		fs, err := headerfs.NewFilterHeaderStore(tmplDir, db, headerfs.RegularFilter, Params, nil)
		if err != nil {
			tmplErr = err
			return
		}
		headerfs.VerifCloseBlockFile(bs)
		headerfs.VerifCloseFilterFile(fs)
		tmplErr = db.Close()
	})
	return tmplDir, tmplErr
}

// CopyDir copies the three store files from src to dst.
func CopyDir(src, dst string) error {
	if err := os.MkdirAll(dst, 0o755); err != nil {
		return err
	}
	for _, n := range []string{"neutrino.db", "block_headers.bin", "reg_filter_headers.bin"} {
		in, err := os.Open(filepath.Join(src, n))
		if err != nil {
			if os.IsNotExist(err) {
				continue
			}
			return err
		}
		out, err := os.Create(filepath.Join(dst, n))
		if err != nil {
			in.Close()
			return err
		}
		_, err = io.Copy(out, in)
		in.Close()
		out.Close()
		if err != nil {
			return err
		}
	}
	return nil
}

// ---------------------------------------------------------------------
// Header pool and tokens.

// Pool is a set of synthetic block headers and filter header values with
// stable integer tokens.  Block tokens are 1..n in the BYTE ORDER of the
// hashes (the order the index sorts batches in); filter tokens start at
// FilterBase; 0 is "unknown bytes".
type Pool struct {
	Headers       []*wire.BlockHeader // index = token-1
	Hashes        []chainhash.Hash
	Filters       []chainhash.Hash // index = token-FilterBase
	byHash        map[chainhash.Hash]int64
	byFilt        map[chainhash.Hash]int64
	Genesis       int64 // token of the genesis block
	GenesisFilter int64
}

// FilterBase is the first filter-header token.
const FilterBase = 1000000

// NewPool builds a deterministic pool of n headers / n filter values.
func NewPool(n int, genesisFilter chainhash.Hash) *Pool {
	r := rand.New(rand.NewSource(424242))
	p := &Pool{byHash: map[chainhash.Hash]int64{}, byFilt: map[chainhash.Hash]int64{}}
	hs := []*wire.BlockHeader{&Params.GenesisBlock.Header}
	for i := 0; i < n; i++ {
		h := &wire.BlockHeader{Version: 4, Bits: 0x207fffff, Nonce: uint32(i),
			Timestamp: time.Unix(1600000000+int64(i)*600, 0)}
		r.Read(h.PrevBlock[:])
		r.Read(h.MerkleRoot[:])
		hs = append(hs, h)
	}
	sort.Slice(hs, func(i, j int) bool {
		a, b := hs[i].BlockHash(), hs[j].BlockHash()
		return bytes.Compare(a[:], b[:]) < 0
	})
	// Boundary hashes for the index's 2-byte sub-bucket prefix: the three
	// smallest pool headers are replaced by headers whose hash starts with
	// 00 00, the three largest by ff ff (ground by nonce; ranks, and with
	// them all other tokens, stay as they were).
	grind := func(h *wire.BlockHeader, b byte) {
		for n := uint32(0); ; n++ {
			h.Nonce = n
			hh := h.BlockHash()
			if hh[0] == b && hh[1] == b {
				return
			}
		}
	}
	for i := 0; i < 3; i++ {
		grind(hs[i], 0x00)
		grind(hs[len(hs)-1-i], 0xff)
	}
	sort.Slice(hs, func(i, j int) bool {
		a, b := hs[i].BlockHash(), hs[j].BlockHash()
		return bytes.Compare(a[:], b[:]) < 0
	})
	for i, h := range hs {
		p.Headers = append(p.Headers, h)
		hh := h.BlockHash()
		p.Hashes = append(p.Hashes, hh)
		p.byHash[hh] = int64(i + 1)
		if hh == *Params.GenesisHash {
			p.Genesis = int64(i + 1)
		}
	}
	p.Filters = append(p.Filters, genesisFilter)
	p.byFilt[genesisFilter] = FilterBase
	p.GenesisFilter = FilterBase
	for i := 1; i <= n; i++ {
		var f chainhash.Hash
		r.Read(f[:])
		p.Filters = append(p.Filters, f)
		p.byFilt[f] = FilterBase + int64(i)
	}
	return p
}

// BTok returns the token of a block hash (0 if unknown).
func (p *Pool) BTok(h chainhash.Hash) int64 {
	if t, ok := p.byHash[h]; ok {
		return t
	}
	// hashes made by Hash() for tokens outside the pool map back
	var n int64
	if _, err := fmt.Sscanf(string(bytes.TrimRight(h[:], "\x00")), "unknown-%d", &n); err == nil {
		return n
	}
	return 0
}

// HTok returns the token of a block header.
func (p *Pool) HTok(h *wire.BlockHeader) int64 { return p.byHash[h.BlockHash()] }

// FTok returns the token of a filter header value (0 if unknown).
func (p *Pool) FTok(h chainhash.Hash) int64 { return p.byFilt[h] }

// Header returns the header with the given token.
func (p *Pool) Header(tok int64) *wire.BlockHeader { return p.Headers[tok-1] }

// Hash returns the hash with the given block token; unknown tokens map to a
// hash that is in no store.
func (p *Pool) Hash(tok int64) chainhash.Hash {
	if tok >= 1 && int(tok) <= len(p.Hashes) {
		return p.Hashes[tok-1]
	}
	var h chainhash.Hash
	copy(h[:], fmt.Sprintf("unknown-%d", tok))
	return h
}

// Filter returns the filter value with the given token.
func (p *Pool) Filter(tok int64) chainhash.Hash {
	i := tok - FilterBase
	if i >= 0 && int(i) < len(p.Filters) {
		return p.Filters[i]
	}
	var h chainhash.Hash
	copy(h[:], fmt.Sprintf("unknownf-%d", tok))
	return h
}
