// Package qskel is shared by the C05 (GetCFilter) and C06 (GetBlock)
// harnesses: synthetic blocks, an independent re-implementation of the merkle
// root / witness commitment checks, header-store templates and the
// ChainService skeleton with a scripted work manager.
package qskel

import (
	"bytes"
	"crypto/sha256"
	"encoding/binary"
	"fmt"
	"io"
	"math/big"
	"math/rand"
	"os"
	"path/filepath"
	"time"

	"github.com/btcsuite/btcd/btcutil/v2/gcs"
	"github.com/btcsuite/btcd/btcutil/v2/gcs/builder"
	"github.com/btcsuite/btcd/chaincfg/v2"
	"github.com/btcsuite/btcd/chainhash/v2"
	"github.com/btcsuite/btcd/wire/v2"
	"github.com/btcsuite/btcwallet/walletdb"
	_ "github.com/btcsuite/btcwallet/walletdb/bdb"
	"github.com/lightninglabs/neutrino"
	"github.com/lightninglabs/neutrino/filterdb"
	"github.com/lightninglabs/neutrino/headerfs"
	"github.com/lightninglabs/neutrino/query"
)

// Params is the network every skeleton runs on.
var Params = chaincfg.SimNetParams

// ---------------------------------------------------------------------
// hashing helpers written here on purpose (independent of btcd/blockchain)

func dsha(b []byte) chainhash.Hash {
	a := sha256.Sum256(b)
	return chainhash.Hash(sha256.Sum256(a[:]))
}

// MerkleRoot is the bitcoin merkle root of the given leaves.
func MerkleRoot(leaves []chainhash.Hash) chainhash.Hash {
	if len(leaves) == 0 {
		return chainhash.Hash{}
	}
	level := append([]chainhash.Hash{}, leaves...)
	for len(level) > 1 {
		if len(level)%2 == 1 {
			level = append(level, level[len(level)-1])
		}
		next := make([]chainhash.Hash, 0, len(level)/2)
		for i := 0; i < len(level); i += 2 {
			var buf [64]byte
			copy(buf[:32], level[i][:])
			copy(buf[32:], level[i+1][:])
			next = append(next, dsha(buf[:]))
		}
		level = next
	}
	return level[0]
}

func txids(b *wire.MsgBlock) []chainhash.Hash {
	out := make([]chainhash.Hash, len(b.Transactions))
	for i, tx := range b.Transactions {
		var buf bytes.Buffer
		_ = tx.SerializeNoWitness(&buf)
		out[i] = dsha(buf.Bytes())
	}
	return out
}

func wtxids(b *wire.MsgBlock) []chainhash.Hash {
	out := make([]chainhash.Hash, len(b.Transactions))
	for i, tx := range b.Transactions {
		if i == 0 {
			continue // coinbase wtxid is all zero
		}
		var buf bytes.Buffer
		_ = tx.Serialize(&buf)
		out[i] = dsha(buf.Bytes())
	}
	return out
}

func isCoinbase(tx *wire.MsgTx) bool {
	if len(tx.TxIn) != 1 {
		return false
	}
	p := tx.TxIn[0].PreviousOutPoint
	return p.Index == 0xffffffff && p.Hash == chainhash.Hash{}
}

var witnessMagic = []byte{0x6a, 0x24, 0xaa, 0x21, 0xa9, 0xed}

func compactToBig(c uint32) *big.Int {
	mant := c & 0x007fffff
	neg := c&0x00800000 != 0
	exp := uint(c >> 24)
	var bn *big.Int
	if exp <= 3 {
		mant >>= 8 * (3 - exp)
		bn = big.NewInt(int64(mant))
	} else {
		bn = big.NewInt(int64(mant))
		bn.Lsh(bn, 8*(exp-3))
	}
	if neg {
		bn = bn.Neg(bn)
	}
	return bn
}

func hashToBig(h chainhash.Hash) *big.Int {
	var r [32]byte
	for i := 0; i < 32; i++ {
		r[i] = h[31-i]
	}
	return new(big.Int).SetBytes(r[:])
}

// HeaderHash is the double-SHA256 of the 80 byte header.
func HeaderHash(h *wire.BlockHeader) chainhash.Hash {
	var buf bytes.Buffer
	_ = h.Serialize(&buf)
	return dsha(buf.Bytes())
}

// IndepSanity re-implements the parts of CheckBlockSanity the generators
// can violate: proof of work, timestamp, tx count, coinbase position, merkle
// root, duplicate transactions.
func IndepSanity(b *wire.MsgBlock, now time.Time) bool {
	target := compactToBig(b.Header.Bits)
	if target.Sign() <= 0 || target.Cmp(Params.PowLimit) > 0 {
		return false
	}
	if hashToBig(HeaderHash(&b.Header)).Cmp(target) > 0 {
		return false
	}
	if b.Header.Timestamp.After(now.Add(2 * time.Hour)) {
		return false
	}
	if len(b.Transactions) == 0 || !isCoinbase(b.Transactions[0]) {
		return false
	}
	for _, tx := range b.Transactions[1:] {
		if isCoinbase(tx) {
			return false
		}
	}
	for _, tx := range b.Transactions {
		if len(tx.TxIn) == 0 || len(tx.TxOut) == 0 {
			return false
		}
		for _, o := range tx.TxOut {
			if o.Value < 0 || o.Value > 21e14 {
				return false
			}
		}
	}
	ids := txids(b)
	if MerkleRoot(ids) != b.Header.MerkleRoot {
		return false
	}
	seen := map[chainhash.Hash]bool{}
	for _, id := range ids {
		if seen[id] {
			return false
		}
		seen[id] = true
	}
	return true
}

// IndepWitness re-implements ValidateWitnessCommitment.
func IndepWitness(b *wire.MsgBlock) bool {
	if len(b.Transactions) == 0 || len(b.Transactions[0].TxIn) == 0 {
		return false
	}
	cb := b.Transactions[0]
	var commit []byte
	if isCoinbase(cb) {
		for i := len(cb.TxOut) - 1; i >= 0; i-- {
			s := cb.TxOut[i].PkScript
			if len(s) >= 38 && bytes.HasPrefix(s, witnessMagic) {
				commit = s[6:38]
				break
			}
		}
	}
	if commit == nil {
		for _, tx := range b.Transactions {
			if tx.HasWitness() {
				return false
			}
		}
		return true
	}
	w := cb.TxIn[0].Witness
	if len(w) != 1 || len(w[0]) != 32 {
		return false
	}
	root := MerkleRoot(wtxids(b))
	var pre [64]byte
	copy(pre[:32], root[:])
	copy(pre[32:], w[0])
	h := dsha(pre[:])
	return bytes.Equal(h[:], commit)
}

// ---------------------------------------------------------------------
// synthetic blocks

func randBytes(r *rand.Rand, n int) []byte {
	b := make([]byte, n)
	r.Read(b)
	return b
}

func p2pkh(r *rand.Rand) []byte {
	return append(append([]byte{0x76, 0xa9, 0x14}, randBytes(r, 20)...), 0x88, 0xac)
}
func p2wpkh(r *rand.Rand) []byte { return append([]byte{0x00, 0x14}, randBytes(r, 20)...) }
func p2wsh(r *rand.Rand) []byte  { return append([]byte{0x00, 0x20}, randBytes(r, 32)...) }

// RandScript returns a random standard output script.
func RandScript(r *rand.Rand) []byte {
	switch r.Intn(3) {
	case 0:
		return p2pkh(r)
	case 1:
		return p2wpkh(r)
	default:
		return p2wsh(r)
	}
}

// MakeTx builds a random non-coinbase transaction.
func MakeTx(r *rand.Rand, segwit bool, nOut int, opReturnOnly bool) *wire.MsgTx {
	tx := wire.NewMsgTx(2)
	nIn := 1 + r.Intn(2)
	for i := 0; i < nIn; i++ {
		var h chainhash.Hash
		r.Read(h[:])
		in := wire.NewTxIn(wire.NewOutPoint(&h, uint32(r.Intn(4))), nil, nil)
		if segwit {
			in.Witness = wire.TxWitness{randBytes(r, 71), randBytes(r, 33)}
		} else {
			in.SignatureScript = append([]byte{0x47}, randBytes(r, 0x47)...)
		}
		tx.AddTxIn(in)
	}
	for i := 0; i < nOut; i++ {
		if opReturnOnly {
			tx.AddTxOut(wire.NewTxOut(0, append([]byte{0x6a, 0x08}, randBytes(r, 8)...)))
		} else {
			tx.AddTxOut(wire.NewTxOut(int64(1000+r.Intn(1e8)), RandScript(r)))
		}
	}
	return tx
}

// BlockSpec describes one synthetic block of a committed chain.
type BlockSpec struct {
	NTx       int  `json:"ntx"`        // non-coinbase transactions
	Segwit    bool `json:"segwit"`     // witness txs + commitment
	BadCommit bool `json:"bad_commit"` // the committed block itself has a wrong commitment
	FutureTS  bool `json:"future_ts"`  // header timestamp a day ahead
	NoScripts bool `json:"no_scripts"` // only OP_RETURN outputs: empty basic filter
	// SpendPrev: the first input of the first non-coinbase transaction spends
	// output 0 of the previous block's coinbase, and the block's honest filter
	// contains that output's script (a real spend: the filter is not a
	// function of the block alone).
	SpendPrev bool `json:"spend_prev,omitempty"`
}

// SetCommitment (re)computes the witness commitment output of a segwit
// block's coinbase (last output) from its current transactions.
func SetCommitment(b *wire.MsgBlock) {
	cb := b.Transactions[0]
	root := MerkleRoot(wtxids(b))
	var pre [64]byte
	copy(pre[:32], root[:])
	copy(pre[32:], cb.TxIn[0].Witness[0])
	h := dsha(pre[:])
	cb.TxOut[len(cb.TxOut)-1].PkScript = append(append([]byte{}, witnessMagic...), h[:]...)
}

// Solve sets the merkle root from the transactions and grinds the nonce.
func Solve(b *wire.MsgBlock) {
	b.Header.MerkleRoot = MerkleRoot(txids(b))
	target := compactToBig(b.Header.Bits)
	for hashToBig(HeaderHash(&b.Header)).Cmp(target) > 0 {
		b.Header.Nonce++
	}
}

// BuildBlock builds a synthetic block on top of prev.
func BuildBlock(r *rand.Rand, prev chainhash.Hash, height int32, ts time.Time, sp BlockSpec) *wire.MsgBlock {
	b := wire.NewMsgBlock(&wire.BlockHeader{
		Version: 4, PrevBlock: prev, Timestamp: ts, Bits: Params.PowLimitBits,
	})
	cb := wire.NewMsgTx(1)
	hs := make([]byte, 5)
	hs[0] = 4
	binary.LittleEndian.PutUint32(hs[1:], uint32(height))
	in := wire.NewTxIn(wire.NewOutPoint(&chainhash.Hash{}, 0xffffffff), append(hs, randBytes(r, 4)...), nil)
	cb.AddTxIn(in)
	if sp.NoScripts {
		cb.AddTxOut(wire.NewTxOut(50e8, []byte{0x6a, 0x01, byte(height)}))
	} else {
		cb.AddTxOut(wire.NewTxOut(50e8, p2pkh(r)))
	}
	b.AddTransaction(cb)
	for i := 0; i < sp.NTx; i++ {
		b.AddTransaction(MakeTx(r, sp.Segwit, 1+r.Intn(3), sp.NoScripts))
	}
	if sp.Segwit {
		cb.TxIn[0].Witness = wire.TxWitness{randBytes(r, 32)}
		cb.AddTxOut(wire.NewTxOut(0, nil))
		SetCommitment(b)
		if sp.BadCommit {
			cb.TxOut[len(cb.TxOut)-1].PkScript[10] ^= 0x55
		}
	}
	if sp.FutureTS {
		b.Header.Timestamp = ts.Add(80 * time.Hour) // chains start 48h in the past
	}
	Solve(b)
	return b
}

// CloneBlock deep-copies a block.
func CloneBlock(b *wire.MsgBlock) *wire.MsgBlock {
	var buf bytes.Buffer
	if err := b.Serialize(&buf); err != nil {
		panic(err)
	}
	var c wire.MsgBlock
	if err := c.Deserialize(&buf); err != nil {
		panic(err)
	}
	return &c
}

// BlockBytes is the witness serialization of a block.
func BlockBytes(b *wire.MsgBlock) []byte {
	var buf bytes.Buffer
	if err := b.Serialize(&buf); err != nil {
		panic(err)
	}
	return buf.Bytes()
}

// ---------------------------------------------------------------------
// committed chain + store template

// Chain is a committed chain: block headers 0..N (0 = simnet genesis) and
// committed filter headers 0..FTip.
type Chain struct {
	Blocks  []*wire.MsgBlock
	Hashes  []chainhash.Hash
	Filters []*gcs.Filter    // honest basic filter per height
	Commit  []*gcs.Filter    // the filter the committed header chain commits to
	Alt     []*gcs.Filter    // another filter per block, for rewritten header chains
	FHdrs   []chainhash.Hash // committed filter headers 0..FTip
	FTip    int
}

// BuildChain builds blocks 1..len(specs) on the simnet genesis. poisoned
// heights commit to another filter than the honest one.
func BuildChain(r *rand.Rand, specs []BlockSpec, ftip int, poisoned map[int]bool) *Chain {
	c := &Chain{FTip: ftip}
	gen := Params.GenesisBlock
	c.Blocks = append(c.Blocks, gen)
	c.Hashes = append(c.Hashes, *Params.GenesisHash)
	gf, err := builder.BuildBasicFilter(gen, nil)
	if err != nil {
		panic(err)
	}
	c.Filters = append(c.Filters, gf)
	c.Commit = append(c.Commit, gf)
	c.Alt = append(c.Alt, gf)
	gh, err := builder.MakeHeaderForFilter(gf, chainhash.Hash{})
	if err != nil {
		panic(err)
	}
	c.FHdrs = append(c.FHdrs, gh)
	ts := time.Now().Add(-48 * time.Hour).Truncate(time.Second)
	for i, sp := range specs {
		h := i + 1
		b := BuildBlock(r, c.Hashes[h-1], int32(h), ts.Add(time.Duration(h)*time.Minute), sp)
		c.Blocks = append(c.Blocks, b)
		c.Hashes = append(c.Hashes, HeaderHash(&b.Header))
		var prevScripts [][]byte
		for j := 0; j < sp.NTx && !sp.NoScripts; j++ {
			prevScripts = append(prevScripts, RandScript(r))
		}
		if sp.SpendPrev && sp.NTx > 0 && !sp.NoScripts {
			pcb := c.Blocks[h-1].Transactions[0]
			ptx := pcb.TxHash()
			b.Transactions[1].TxIn[0].PreviousOutPoint = *wire.NewOutPoint(&ptx, 0)
			if sp.Segwit {
				SetCommitment(b)
				if sp.BadCommit {
					cbo := b.Transactions[0].TxOut
					cbo[len(cbo)-1].PkScript[10] ^= 0x55
				}
			}
			b.Header.Nonce = 0
			Solve(b)
			c.Hashes[h] = HeaderHash(&b.Header)
			if ps := pcb.TxOut[0].PkScript; len(ps) > 0 {
				if len(prevScripts) > 0 {
					prevScripts[0] = ps
				} else {
					prevScripts = append(prevScripts, ps)
				}
			}
		}
		f, err := builder.BuildBasicFilter(b, prevScripts)
		if err != nil {
			panic(err)
		}
		c.Filters = append(c.Filters, f)
		cf := f
		if poisoned[h] {
			cf, err = builder.BuildBasicFilter(b, [][]byte{RandScript(r), RandScript(r)})
			if err != nil {
				panic(err)
			}
		}
		c.Commit = append(c.Commit, cf)
		af, err := builder.BuildBasicFilter(b, [][]byte{RandScript(r), RandScript(r), RandScript(r)})
		if err != nil {
			panic(err)
		}
		c.Alt = append(c.Alt, af)
		if h <= ftip {
			fh, err := builder.MakeHeaderForFilter(cf, c.FHdrs[h-1])
			if err != nil {
				panic(err)
			}
			c.FHdrs = append(c.FHdrs, fh)
		}
	}
	return c
}

const dbName = "neutrino.db"

// MakeTemplate creates the header stores of a chain in dir.
func MakeTemplate(dir string, c *Chain) {
	if err := os.MkdirAll(dir, 0o755); err != nil {
		panic(err)
	}
	db, err := walletdb.Create("bdb", filepath.Join(dir, dbName), true, 10*time.Second, false)
	if err != nil {
		panic(err)
	}
	defer db.Close()
	bs, err := headerfs.NewBlockHeaderStore(dir, db, &Params)
	if err != nil {
		panic(err)
	}
	fs, err := headerfs.NewFilterHeaderStore(dir, db, headerfs.RegularFilter, &Params, nil)
	if err != nil {
		panic(err)
	}
	var bh []headerfs.BlockHeader
	for h := 1; h < len(c.Blocks); h++ {
		hdr := c.Blocks[h].Header
		bh = append(bh, headerfs.BlockHeader{BlockHeader: &hdr, Height: uint32(h)})
	}
	if len(bh) > 0 {
		if err := bs.WriteHeaders(bh...); err != nil {
			panic(err)
		}
	}
	var fh []headerfs.FilterHeader
	for h := 1; h <= c.FTip; h++ {
		fh = append(fh, headerfs.FilterHeader{HeaderHash: c.Hashes[h], FilterHash: c.FHdrs[h], Height: uint32(h)})
	}
	if len(fh) > 0 {
		if err := fs.WriteHeaders(fh...); err != nil {
			panic(err)
		}
	}
}

// CopyDir copies the flat files of a template.
func CopyDir(src, dst string) {
	if err := os.MkdirAll(dst, 0o755); err != nil {
		panic(err)
	}
	ents, err := os.ReadDir(src)
	if err != nil {
		panic(err)
	}
	for _, e := range ents {
		in, err := os.Open(filepath.Join(src, e.Name()))
		if err != nil {
			panic(err)
		}
		out, err := os.Create(filepath.Join(dst, e.Name()))
		if err != nil {
			panic(err)
		}
		if _, err := io.Copy(out, in); err != nil {
			panic(err)
		}
		in.Close()
		out.Close()
	}
}

// ScriptWM is the scripted work manager: every Query is handed to OnQuery.
type ScriptWM struct {
	OnQuery func(reqs []*query.Request, opts []query.QueryOption) chan error
	Queries int
}

func (w *ScriptWM) Start() error { return nil }
func (w *ScriptWM) Stop() error  { return nil }
func (w *ScriptWM) Query(reqs []*query.Request, opts ...query.QueryOption) chan error {
	w.Queries++
	return w.OnQuery(reqs, opts)
}

// CountingDB wraps the filter database and counts written filters.
type CountingDB struct {
	filterdb.FilterDatabase
	Written chan int
}

func (c *CountingDB) PutFilters(fs ...*filterdb.FilterData) error {
	err := c.FilterDatabase.PutFilters(fs...)
	c.Written <- len(fs)
	return err
}

// Env is one opened skeleton.
type Env struct {
	CS  *neutrino.ChainService
	DB  walletdb.DB
	Dir string
	WM  *ScriptWM
	Cnt *CountingDB
}

// EnvConfig are the knobs of a skeleton.
type EnvConfig struct {
	FilterCacheSize uint64
	BlockCacheSize  uint64
	Persist         bool
	Ticker          time.Duration
	// WrapDB, if set, wraps the opened walletdb before it is handed to the
	// service (header indexes, filter database, ban store); Env.DB stays
	// the unwrapped database.
	WrapDB func(walletdb.DB) walletdb.DB
	// WrapFilterDB, if set, wraps the real filter database (below the
	// counting wrapper) before it is wired into the service.
	WrapFilterDB func(filterdb.FilterDatabase) filterdb.FilterDatabase
}

// Open opens a skeleton on a (copied) template directory.
func Open(dir string, cfg EnvConfig) *Env {
	db, err := walletdb.Open("bdb", filepath.Join(dir, dbName), true, 10*time.Second, false)
	if err != nil {
		panic(err)
	}
	e := &Env{DB: db, Dir: dir, WM: &ScriptWM{}}
	sdb := db
	if cfg.WrapDB != nil {
		sdb = cfg.WrapDB(db)
	}
	cs, err := neutrino.VerifNewQueryService(neutrino.VerifQueryConfig{
		DataDir: dir, Database: sdb, ChainParams: Params,
		FilterCacheSize: cfg.FilterCacheSize, BlockCacheSize: cfg.BlockCacheSize,
		PersistToDisk: cfg.Persist, DBWritesTicker: cfg.Ticker, WorkManager: e.WM,
		WrapFilterDB: func(f filterdb.FilterDatabase) filterdb.FilterDatabase {
			if cfg.WrapFilterDB != nil {
				f = cfg.WrapFilterDB(f)
			}
			e.Cnt = &CountingDB{FilterDatabase: f, Written: make(chan int, 4096)}
			return e.Cnt
		},
	})
	if err != nil {
		panic(err)
	}
	e.CS = cs
	return e
}

// Close stops the skeleton and closes the database.
func (e *Env) Close() {
	e.CS.VerifStop()
	e.DB.Close()
}

// Interner hands out small integer tokens for byte strings.
type Interner struct {
	m    map[string]int64
	next int64
}

func NewInterner(first int64) *Interner { return &Interner{m: map[string]int64{}, next: first} }

// Tok returns the token of b, allocating one if new.
func (in *Interner) Tok(b []byte) int64 {
	if t, ok := in.m[string(b)]; ok {
		return t
	}
	t := in.next
	in.next++
	in.m[string(b)] = t
	return t
}

// Has reports whether b was interned.
func (in *Interner) Has(b []byte) bool { _, ok := in.m[string(b)]; return ok }

// PeerAddr is the address of scripted peer p.
func PeerAddr(p int) string { return fmt.Sprintf("10.7.%d.%d:18555", p/200, 1+p%200) }
