// Package common holds the pieces shared by all correspondence harnesses:
// deterministic PRNG, a Gallina term printer, and the run report that the
// python orchestrator (/verif/check) reads.
package common

import (
	"encoding/json"
	"flag"
	"fmt"
	"math/big"
	"math/rand"
	"os"
	"path/filepath"
	"sort"
	"strings"
)

// Args are the command line arguments every harness accepts.
type Args struct {
	Seed    int64
	Tier    string
	Out     string
	Replay  string
	Workers int
}

// ParseArgs parses the standard harness flags.
func ParseArgs() Args {
	var a Args
	flag.Int64Var(&a.Seed, "seed", 1, "PRNG seed")
	flag.StringVar(&a.Tier, "tier", "quick", "quick|thorough")
	flag.StringVar(&a.Out, "out", "", "output directory")
	flag.StringVar(&a.Replay, "replay", "", "history file to replay")
	flag.IntVar(&a.Workers, "workers", 16, "parallel workers")
	flag.Parse()
	if a.Out == "" {
		fmt.Fprintln(os.Stderr, "missing -out")
		os.Exit(2)
	}
	if err := os.MkdirAll(a.Out, 0o755); err != nil {
		panic(err)
	}
	return a
}

// Rng returns the PRNG for case number i of a run with the given seed: all
// random choices of one case derive from (seed, i), so every case replays
// alone.
func Rng(seed int64, i int) *rand.Rand {
	return rand.New(rand.NewSource(seed*1000003 + int64(i)*7919 + 17))
}

// ---------------------------------------------------------------------
// Gallina printer.

// N prints a non-negative integer in N_scope / Z_scope neutral form; the
// cases files open the scope they need.
func N(v int64) string { return fmt.Sprintf("%d", v) }

// Z prints an integer for Z_scope, parenthesising negatives.
func Z(v int64) string {
	if v < 0 {
		return fmt.Sprintf("(%d)", v)
	}
	return fmt.Sprintf("%d", v)
}

// BigZ prints a big integer for Z_scope.
func BigZ(v *big.Int) string {
	if v.Sign() < 0 {
		return "(" + v.String() + ")"
	}
	return v.String()
}

// Bool prints a Coq bool.
func Bool(b bool) string {
	if b {
		return "true"
	}
	return "false"
}

// List prints a Coq list.
func List(items []string) string {
	return "[" + strings.Join(items, "; ") + "]"
}

// Bytes prints a byte slice as a list of numerals.
func Bytes(b []byte) string {
	it := make([]string, len(b))
	for i, x := range b {
		it[i] = fmt.Sprintf("%d", x)
	}
	return List(it)
}

// Ints prints a list of ints.
func Ints(b []int64) string {
	it := make([]string, len(b))
	for i, x := range b {
		it[i] = Z(x)
	}
	return List(it)
}

// App prints a constructor / function application.
func App(f string, args ...string) string {
	if len(args) == 0 {
		return f
	}
	return "(" + f + " " + strings.Join(args, " ") + ")"
}

// Opt prints an option.
func Opt(s *string) string {
	if s == nil {
		return "None"
	}
	return "(Some " + *s + ")"
}

// Some wraps a term.
func Some(s string) string { return "(Some " + s + ")" }

// Pair prints a pair.
func Pair(a, b string) string { return "(" + a + ", " + b + ")" }

// ---------------------------------------------------------------------
// Report.

// Report is what a harness leaves behind for the orchestrator.
type Report struct {
	Property           string         `json:"property"`
	Seed               int64          `json:"seed"`
	Tier               string         `json:"tier"`
	Evaluations        int            `json:"evaluations"`
	DistinctNontrivial int            `json:"distinct_nontrivial"`
	Rule               string         `json:"rule"`
	Samples            []any          `json:"samples"`
	Histogram          map[string]int `json:"histogram"`
	// ImplFailures are property failures the harness itself saw on the
	// implementation (independent of the model), keyed by case id.
	ImplFailures []ImplFailure `json:"impl_failures"`
	// Cases maps a case id to the file holding its replayable history.
	Cases map[string]string `json:"cases"`
	// Exhaustive is set when a finite space was enumerated completely.
	Exhaustive bool   `json:"exhaustive"`
	Notes      string `json:"notes,omitempty"`
}

// ImplFailure is a failure observed on the implementation alone.
type ImplFailure struct {
	Case string `json:"case"`
	Step int    `json:"step"`
	What string `json:"what"`
	// Tag names a known root cause when the harness can tell, so the
	// orchestrator can match it against KNOWN_FINDINGS.json.
	Tag string `json:"tag,omitempty"`
}

// NewReport makes an empty report.
func NewReport(prop string, a Args) *Report {
	return &Report{Property: prop, Seed: a.Seed, Tier: a.Tier,
		Histogram: map[string]int{}, Cases: map[string]string{}}
}

// Write stores the report as <out>/report.json.
func (r *Report) Write(out string) {
	b, err := json.MarshalIndent(r, "", " ")
	if err != nil {
		panic(err)
	}
	if err := os.WriteFile(filepath.Join(out, "report.json"), b, 0o644); err != nil {
		panic(err)
	}
}

// Signatures counts distinct signatures.
type Signatures map[string]struct{}

// Add records one signature.
func (s Signatures) Add(sig string) { s[sig] = struct{}{} }

// SortedKeys returns map keys sorted.
func SortedKeys(m map[string]int) []string {
	k := make([]string, 0, len(m))
	for x := range m {
		k = append(k, x)
	}
	sort.Strings(k)
	return k
}

// WriteFile writes a file or panics.
func WriteFile(path, content string) {
	if err := os.WriteFile(path, []byte(content), 0o644); err != nil {
		panic(err)
	}
}

// WriteJSON writes v as JSON.
func WriteJSON(path string, v any) {
	b, err := json.MarshalIndent(v, "", " ")
	if err != nil {
		panic(err)
	}
	WriteFile(path, string(b))
}

// ReadJSON reads JSON into v.
func ReadJSON(path string, v any) {
	b, err := os.ReadFile(path)
	if err != nil {
		panic(err)
	}
	if err := json.Unmarshal(b, v); err != nil {
		panic(err)
	}
}
