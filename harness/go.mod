module verifharness

go 1.25.11

require (
	github.com/btcsuite/btcd v0.26.0
	github.com/btcsuite/btcd/address/v2 v2.0.0
	github.com/btcsuite/btcd/btcec/v2 v2.5.0
	github.com/btcsuite/btcd/btcutil/v2 v2.0.0
	github.com/btcsuite/btcd/chaincfg/v2 v2.0.0
	github.com/btcsuite/btcd/chainhash/v2 v2.0.0
	github.com/btcsuite/btcd/txscript/v2 v2.0.0
	github.com/btcsuite/btcd/wire/v2 v2.0.0
	github.com/btcsuite/btclog v1.0.0
	github.com/lightninglabs/neutrino v0.16.2
	github.com/lightninglabs/neutrino/cache v1.1.4
)

require (
	github.com/aead/siphash v1.0.1 // indirect
	github.com/btcsuite/btcd/v2transport v1.0.1 // indirect
	github.com/btcsuite/btcwallet v0.16.18 // indirect
	github.com/btcsuite/btcwallet/wtxmgr v1.6.0 // indirect
	github.com/btcsuite/go-socks v0.0.0-20170105172521-4720035b7bfd // indirect
	github.com/btcsuite/websocket v0.0.0-20150119174127-31079b680792 // indirect
	github.com/davecgh/go-spew v1.1.1 // indirect
	github.com/decred/dcrd/crypto/blake256 v1.1.0 // indirect
	github.com/decred/dcrd/dcrec/secp256k1/v4 v4.4.0 // indirect
	github.com/decred/dcrd/lru v1.1.3 // indirect
	github.com/kkdai/bstream v1.0.0 // indirect
	github.com/lightningnetwork/lnd/clock v1.0.1 // indirect
	github.com/lightningnetwork/lnd/fn/v2 v2.0.8 // indirect
	github.com/lightningnetwork/lnd/queue v1.0.1 // indirect
	github.com/lightningnetwork/lnd/ticker v1.1.1 // indirect
	github.com/pmezard/go-difflib v1.0.0 // indirect
	github.com/stretchr/objx v0.5.2 // indirect
	github.com/stretchr/testify v1.10.0 // indirect
	golang.org/x/crypto v0.41.0 // indirect
	golang.org/x/exp v0.0.0-20250811191247-51f88131bc50 // indirect
	golang.org/x/sync v0.16.0 // indirect
	gopkg.in/yaml.v3 v3.0.1 // indirect
)

require (
	github.com/btcsuite/btcwallet/walletdb v1.6.0
	go.etcd.io/bbolt v1.3.11 // indirect
	golang.org/x/sys v0.35.0 // indirect
)

replace github.com/lightninglabs/neutrino => /repo

replace github.com/lightninglabs/neutrino/cache => /repo/cache
