module verifharness

go 1.25.11

require (
	github.com/lightninglabs/neutrino v0.0.0
	github.com/lightninglabs/neutrino/cache v1.1.4
)

require (
	github.com/btcsuite/btcwallet/walletdb v1.6.0
	go.etcd.io/bbolt v1.3.11 // indirect
	golang.org/x/sys v0.35.0 // indirect
)

replace github.com/lightninglabs/neutrino => /repo

replace github.com/lightninglabs/neutrino/cache => /repo/cache
