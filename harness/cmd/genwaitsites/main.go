// genwaitsites: the translator that regenerates /verif/coq/Generated/WaitSites.v
// from the SOURCE TEXT of the neutrino checkout on every check run.
//
// For every function named in functions.txt (committed next to this file) it
// lists, in source order, the function's BLOCKING SITES: select statements
// with their alternatives, channel sends / receives outside a select, range
// loops over channels, Wait calls (sync.WaitGroup, sync.Cond, other),
// time.Sleep, and the channel creations make(chan T[, n]) with the name the
// channel is given and its capacity expression (allow-list entries that rely
// on a capacity are tied to them).  A receive of the two-valued form
// (v, ok := <-ch) is marked RecvFromOk.  Function literals (goroutines, callbacks, deferred closures)
// belong to the enclosing function; the site records the nesting ("go",
// "func", "defer").  coq/C17/Tie.v proves by computation that the hand-written
// table of wait sites of the C17 model (coq/C17/Model.v code_sites, references
// in coq/C17/Sites.v) agrees with this list and that every listed site is
// accounted for.
//
// Only go/parser, go/ast and go/printer are used: no type checking, no build
// of the packages, no network.  Consequences (also stated in props/C17.json):
//   - "is this expression a channel / a WaitGroup / a Cond" is decided from
//     the declarations of the same package by NAME (struct fields, parameters,
//     local make(chan) / var declarations, functions returning a channel);
//   - calls into functions that are not listed are not followed; mutexes,
//     I/O and the semantics of WaitGroup are not seen.
//
// No line numbers are emitted and expression text is printed without any
// white space, so edits that do not touch a blocking site leave the output
// unchanged.
//
// Also listed, in every function: panic(...) calls (PanicOnErr when the
// argument mentions an error value); and with the flag +returns the returns
// of a non-nil last result (used for functions that must not fail because of
// a shutdown: a caller turns their error into a panic).
//
// functions.txt: one "file Receiver.Function [+calls] [+returns]" per line; with +calls
// the X.Stop() calls and close(ch) of that function are listed as well (used
// for the Stop functions, whose order of calls the model's stop order is tied
// to).
//
// usage: genwaitsites [-repo dir] [-all file.go ...]
//
//	default: the committed list, Coq file on stdout
//	-all:    every function of the given files (discovery, plain text)
package main

import (
	"bytes"
	_ "embed"
	"flag"
	"fmt"
	"go/ast"
	"go/parser"
	"go/printer"
	"go/token"
	"os"
	"path/filepath"
	"sort"
	"strings"
)

//go:embed functions.txt
var functionsTxt string

type alt struct {
	kind  string // RecvFrom RecvFromOk SendTo Timer Default WaitOn Made
	text  string
	text2 string // Made: the capacity expression ("0" = unbuffered)
}

type site struct {
	fn   string
	ord  int
	ctx  string
	kind string
	alts []alt
}

// what a name is known to be, from the declarations of the package
const (
	tChan = 1 << iota
	tWaitGroup
	tCond
)

type pkgInfo struct {
	fset  *token.FileSet
	files map[string]*ast.File // base name -> file
	names map[string]int       // field / function name -> type bits
}

func typeBits(e ast.Expr) int {
	switch t := e.(type) {
	case *ast.ChanType:
		return tChan
	case *ast.StarExpr:
		return typeBits(t.X)
	case *ast.ParenExpr:
		return typeBits(t.X)
	case *ast.SelectorExpr:
		if x, ok := t.X.(*ast.Ident); ok && x.Name == "sync" {
			switch t.Sel.Name {
			case "WaitGroup":
				return tWaitGroup
			case "Cond":
				return tCond
			}
		}
	}
	return 0
}

func loadPkg(dir string) (*pkgInfo, error) {
	p := &pkgInfo{fset: token.NewFileSet(), files: map[string]*ast.File{}, names: map[string]int{}}
	ents, err := os.ReadDir(dir)
	if err != nil {
		return nil, err
	}
	for _, e := range ents {
		n := e.Name()
		if e.IsDir() || !strings.HasSuffix(n, ".go") || strings.HasSuffix(n, "_test.go") {
			continue
		}
		f, err := parser.ParseFile(p.fset, filepath.Join(dir, n), nil, parser.SkipObjectResolution)
		if err != nil {
			return nil, err
		}
		p.files[n] = f
		ast.Inspect(f, func(nd ast.Node) bool {
			switch x := nd.(type) {
			case *ast.StructType:
				for _, fl := range x.Fields.List {
					b := typeBits(fl.Type)
					if b == 0 {
						continue
					}
					for _, nm := range fl.Names {
						p.names[nm.Name] |= b
					}
				}
			case *ast.FuncDecl:
				if x.Type.Results != nil && len(x.Type.Results.List) >= 1 {
					if b := typeBits(x.Type.Results.List[0].Type); b&tChan != 0 {
						p.names[x.Name.Name+"()"] |= tChan
					}
				}
			case *ast.InterfaceType:
				for _, m := range x.Methods.List {
					ft, ok := m.Type.(*ast.FuncType)
					if !ok || ft.Results == nil || len(ft.Results.List) < 1 {
						continue
					}
					if b := typeBits(ft.Results.List[0].Type); b&tChan != 0 {
						for _, nm := range m.Names {
							p.names[nm.Name+"()"] |= tChan
						}
					}
				}
			}
			return true
		})
	}
	return p, nil
}

func (p *pkgInfo) text(e ast.Node) string {
	var b bytes.Buffer
	printer.Fprint(&b, p.fset, e)
	s := b.String()
	var o strings.Builder
	for _, r := range s {
		if r == ' ' || r == '\t' || r == '\n' || r == '\r' {
			continue
		}
		o.WriteRune(r)
	}
	return o.String()
}

// the name an expression is looked up by: last selector / identifier, "f()"
// for a call
func headName(e ast.Expr) string {
	switch x := e.(type) {
	case *ast.Ident:
		return x.Name
	case *ast.SelectorExpr:
		return x.Sel.Name
	case *ast.ParenExpr:
		return headName(x.X)
	case *ast.StarExpr:
		return headName(x.X)
	case *ast.CallExpr:
		h := headName(x.Fun)
		if h == "" {
			return ""
		}
		return h + "()"
	case *ast.IndexExpr:
		return headName(x.X)
	}
	return ""
}

func isTimerExpr(e ast.Expr) bool {
	switch x := e.(type) {
	case *ast.ParenExpr:
		return isTimerExpr(x.X)
	case *ast.CallExpr:
		if s, ok := x.Fun.(*ast.SelectorExpr); ok {
			if id, ok := s.X.(*ast.Ident); ok && id.Name == "time" && (s.Sel.Name == "After" || s.Sel.Name == "Tick") {
				return true
			}
		}
	case *ast.SelectorExpr:
		// ticker.C / timer.C
		return x.Sel.Name == "C"
	}
	return false
}

type walker struct {
	p      *pkgInfo
	fn     string
	locals map[string]int
	timers map[string]string      // local name -> text of the timer expression it was assigned
	made   map[*ast.CallExpr]bool // make(chan ...) calls already listed with their name
	calls  bool                   // also list X.Stop() calls and close(ch) (the "+calls" flag)
	rets   bool                   // also list the returns of a non-nil error (the "+returns" flag)
	depth  int                    // nesting in function literals (returns are listed at depth 0 only)
	out    []site
}

func (w *walker) add(ctx []string, kind string, alts []alt) {
	w.out = append(w.out, site{fn: w.fn, ord: len(w.out), ctx: strings.Join(ctx, "/"), kind: kind, alts: alts})
}

func (w *walker) bits(e ast.Expr) int {
	h := headName(e)
	if h == "" {
		return 0
	}
	if _, isIdent := e.(*ast.Ident); isIdent {
		if b, ok := w.locals[h]; ok {
			return b
		}
	}
	return w.p.names[h] | w.locals[h]
}

// recvAltOk: the receive is of the two-valued form (v, ok := <-ch), the only
// form that can tell a closed channel from a value.
func (w *walker) recvAltOk(x ast.Expr, twoValued bool) alt {
	a := w.recvAlt(x)
	if twoValued && a.kind == "RecvFrom" {
		a.kind = "RecvFromOk"
	}
	return a
}

func isMakeChan(e ast.Expr) (*ast.CallExpr, bool) {
	c, ok := e.(*ast.CallExpr)
	if !ok {
		return nil, false
	}
	f, ok := c.Fun.(*ast.Ident)
	if !ok || f.Name != "make" || len(c.Args) < 1 {
		return nil, false
	}
	_, isChan := c.Args[0].(*ast.ChanType)
	return c, isChan
}

// addMake lists a channel creation: the name it is given (variable, field of
// a composite literal, assigned expression; "" when it is used in place) and
// its capacity expression.
func (w *walker) addMake(ctx []string, c *ast.CallExpr, name string) {
	if w.made[c] {
		return
	}
	w.made[c] = true
	capText := "0"
	if len(c.Args) >= 2 {
		capText = w.p.text(c.Args[1])
	}
	w.add(ctx, "MakeChan", []alt{{kind: "Made", text: name, text2: capText}})
}

func (w *walker) recvAlt(x ast.Expr) alt {
	if isTimerExpr(x) {
		return alt{kind: "Timer", text: w.p.text(x)}
	}
	// a local variable holding a timer channel: timeout := time.After(d)
	if id, ok := x.(*ast.Ident); ok {
		if t, ok := w.timers[id.Name]; ok {
			return alt{kind: "Timer", text: t}
		}
	}
	return alt{kind: "RecvFrom", text: w.p.text(x)}
}

func recvOperand(e ast.Expr) (ast.Expr, bool) {
	for {
		if pe, ok := e.(*ast.ParenExpr); ok {
			e = pe.X
			continue
		}
		break
	}
	if u, ok := e.(*ast.UnaryExpr); ok && u.Op == token.ARROW {
		return u.X, true
	}
	return nil, false
}

func (w *walker) declareFields(fl *ast.FieldList) {
	if fl == nil {
		return
	}
	for _, f := range fl.List {
		b := typeBits(f.Type)
		for _, nm := range f.Names {
			w.locals[nm.Name] = b
		}
	}
}

// walk visits the statements / expressions of a function in source order.
func (w *walker) walk(n ast.Node, ctx []string) {
	if n == nil {
		return
	}
	switch x := n.(type) {
	case *ast.FuncLit:
		w.declareFields(x.Type.Params)
		w.depth++
		w.walk(x.Body, append(append([]string{}, ctx...), "func"))
		w.depth--
		return
	case *ast.ReturnStmt:
		// +returns: a return whose last result is not the literal nil (the
		// function's error result); function literals have their own results
		if w.rets && w.depth == 0 && len(x.Results) > 0 {
			last := w.p.text(x.Results[len(x.Results)-1])
			if last != "nil" {
				for _, r := range x.Results {
					w.walk(r, ctx)
				}
				w.add(ctx, "ErrReturn", []alt{{kind: "WaitOn", text: last}})
				return
			}
		}
	case *ast.GoStmt:
		w.walkCall(x.Call, ctx, "go")
		return
	case *ast.DeferStmt:
		w.walkCall(x.Call, ctx, "defer")
		return
	case *ast.SelectStmt:
		var alts []alt
		hasDefault := false
		for _, c := range x.Body.List {
			cc := c.(*ast.CommClause)
			switch s := cc.Comm.(type) {
			case nil:
				hasDefault = true
				alts = append(alts, alt{kind: "Default", text: ""})
			case *ast.SendStmt:
				alts = append(alts, alt{kind: "SendTo", text: w.p.text(s.Chan)})
			case *ast.ExprStmt:
				if op, ok := recvOperand(s.X); ok {
					alts = append(alts, w.recvAlt(op))
				}
			case *ast.AssignStmt:
				if len(s.Rhs) == 1 {
					if op, ok := recvOperand(s.Rhs[0]); ok {
						alts = append(alts, w.recvAltOk(op, len(s.Lhs) == 2))
					}
				}
			}
		}
		k := "Select"
		if hasDefault {
			k = "SelectDefault"
		}
		w.add(ctx, k, alts)
		for _, c := range x.Body.List {
			for _, st := range c.(*ast.CommClause).Body {
				w.walk(st, ctx)
			}
		}
		return
	case *ast.SendStmt:
		w.walk(x.Value, ctx)
		w.add(ctx, "BareSend", []alt{{kind: "SendTo", text: w.p.text(x.Chan)}})
		return
	case *ast.UnaryExpr:
		if x.Op == token.ARROW {
			w.walk(x.X, ctx)
			a := w.recvAlt(x.X)
			k := "BareRecv"
			if a.kind == "Timer" {
				k = "TimerRecv"
			}
			w.add(ctx, k, []alt{a})
			return
		}
	case *ast.RangeStmt:
		w.walk(x.X, ctx)
		if w.bits(x.X)&tChan != 0 {
			w.add(ctx, "RangeChan", []alt{w.recvAlt(x.X)})
		}
		w.walk(x.Body, ctx)
		return
	case *ast.CallExpr:
		if c, ok := isMakeChan(x); ok {
			w.addMake(ctx, c, "")
			return
		}
		if s, ok := x.Fun.(*ast.SelectorExpr); ok {
			name := s.Sel.Name
			switch {
			case name == "Wait" && len(x.Args) == 0:
				k := "OtherWait"
				b := w.bits(s.X)
				if b&tWaitGroup != 0 {
					k = "WaitGroupWait"
				} else if b&tCond != 0 {
					k = "CondWait"
				}
				w.walk(s.X, ctx)
				w.add(ctx, k, []alt{{kind: "WaitOn", text: w.p.text(s.X)}})
				return
			case strings.HasPrefix(name, "WaitFor"):
				w.walk(s.X, ctx)
				for _, a := range x.Args {
					w.walk(a, ctx)
				}
				w.add(ctx, "OtherWait", []alt{{kind: "WaitOn", text: w.p.text(x.Fun)}})
				return
			case name == "Sleep":
				if id, ok := s.X.(*ast.Ident); ok && id.Name == "time" {
					w.add(ctx, "Sleep", []alt{{kind: "Timer", text: w.p.text(x)}})
					return
				}
			case name == "Stop" && len(x.Args) == 0 && w.calls:
				w.walk(s.X, ctx)
				w.add(ctx, "StopCall", []alt{{kind: "WaitOn", text: w.p.text(s.X)}})
				return
			}
		}
		if f, ok := x.Fun.(*ast.Ident); ok && f.Name == "panic" && len(x.Args) == 1 {
			// panic(...) whose argument mentions an error value: an error
			// return of a callee (a shutdown error, say) kills the process
			// (the site names the error identifiers only, not the message)
			k := "Panic"
			seen := map[string]bool{}
			var errs []string
			ast.Inspect(x.Args[0], func(n ast.Node) bool {
				if id, ok := n.(*ast.Ident); ok {
					ln := strings.ToLower(id.Name)
					if ln == "err" || strings.HasSuffix(ln, "err") || strings.HasPrefix(id.Name, "Err") {
						k = "PanicOnErr"
						if !seen[id.Name] {
							seen[id.Name] = true
							errs = append(errs, id.Name)
						}
					}
				}
				return true
			})
			sort.Strings(errs)
			w.add(ctx, k, []alt{{kind: "WaitOn", text: strings.Join(errs, ",")}})
			return
		}
		if f, ok := x.Fun.(*ast.Ident); ok && f.Name == "close" && len(x.Args) == 1 && w.calls {
			w.add(ctx, "CloseChan", []alt{{kind: "WaitOn", text: w.p.text(x.Args[0])}})
			return
		}
	case *ast.AssignStmt:
		// v, ok := <-ch outside a select
		if len(x.Lhs) == 2 && len(x.Rhs) == 1 {
			if op, ok := recvOperand(x.Rhs[0]); ok {
				w.walk(op, ctx)
				a := w.recvAltOk(op, true)
				k := "BareRecv"
				if a.kind == "Timer" {
					k = "TimerRecv"
				}
				w.add(ctx, k, []alt{a})
				return
			}
		}
		if len(x.Lhs) == len(x.Rhs) {
			for i, r := range x.Rhs {
				if c, ok := isMakeChan(r); ok {
					w.addMake(ctx, c, w.p.text(x.Lhs[i]))
				}
			}
		}
		// local channel declarations: x := make(chan T[, n])
		if len(x.Lhs) == len(x.Rhs) {
			for i, l := range x.Lhs {
				id, ok := l.(*ast.Ident)
				if !ok {
					continue
				}
				if isTimerExpr(x.Rhs[i]) {
					if _, isSel := x.Rhs[i].(*ast.SelectorExpr); !isSel {
						w.timers[id.Name] = w.p.text(x.Rhs[i])
					}
				} else {
					delete(w.timers, id.Name)
				}
				if c, ok := x.Rhs[i].(*ast.CallExpr); ok {
					if f, ok := c.Fun.(*ast.Ident); ok && f.Name == "make" && len(c.Args) >= 1 {
						if x.Tok == token.DEFINE || w.locals[id.Name] == 0 {
							w.locals[id.Name] = typeBits(c.Args[0])
						}
						continue
					}
				}
				if x.Tok == token.DEFINE {
					if _, seen := w.locals[id.Name]; !seen {
						w.locals[id.Name] = 0
					}
				}
			}
		}
	case *ast.KeyValueExpr:
		if c, ok := isMakeChan(x.Value); ok {
			w.addMake(ctx, c, w.p.text(x.Key))
		}
	case *ast.DeclStmt:
		if gd, ok := x.Decl.(*ast.GenDecl); ok && gd.Tok == token.VAR {
			for _, sp := range gd.Specs {
				vs := sp.(*ast.ValueSpec)
				if len(vs.Names) == len(vs.Values) {
					for i, v := range vs.Values {
						if c, ok := isMakeChan(v); ok {
							w.addMake(ctx, c, vs.Names[i].Name)
						}
					}
				}
				b := 0
				if vs.Type != nil {
					b = typeBits(vs.Type)
				}
				for _, nm := range vs.Names {
					w.locals[nm.Name] = b
				}
			}
		}
	}
	// generic descent in source order
	children(n, func(c ast.Node) { w.walk(c, ctx) })
}

func (w *walker) walkCall(c *ast.CallExpr, ctx []string, tag string) {
	for _, a := range c.Args {
		w.walk(a, ctx)
	}
	if fl, ok := c.Fun.(*ast.FuncLit); ok {
		w.declareFields(fl.Type.Params)
		w.depth++
		w.walk(fl.Body, append(append([]string{}, ctx...), tag))
		w.depth--
		return
	}
	// go x.method() / defer wg.Wait(): the call itself is a site only when
	// deferred (it runs in this goroutine)
	if tag == "defer" {
		w.walk(c, append(append([]string{}, ctx...), tag))
		return
	}
	w.walk(c.Fun, ctx)
}

// children calls f on the direct children of n in source order.
func children(n ast.Node, f func(ast.Node)) {
	first := true
	ast.Inspect(n, func(c ast.Node) bool {
		if c == nil {
			return false
		}
		if first {
			first = false
			return true
		}
		f(c)
		return false
	})
}

func funcID(file string, fd *ast.FuncDecl) string {
	name := fd.Name.Name
	if fd.Recv != nil && len(fd.Recv.List) == 1 {
		t := fd.Recv.List[0].Type
		if s, ok := t.(*ast.StarExpr); ok {
			t = s.X
		}
		if ix, ok := t.(*ast.IndexExpr); ok {
			t = ix.X
		}
		if id, ok := t.(*ast.Ident); ok {
			name = id.Name + "." + name
		}
	}
	return name
}

func sitesOf(p *pkgInfo, file string, fd *ast.FuncDecl, calls, rets bool) []site {
	w := &walker{p: p, fn: file + ":" + funcID(file, fd), locals: map[string]int{}, timers: map[string]string{}, made: map[*ast.CallExpr]bool{}, calls: calls, rets: rets}
	w.declareFields(fd.Recv)
	w.declareFields(fd.Type.Params)
	w.declareFields(fd.Type.Results)
	if fd.Body != nil {
		w.walk(fd.Body, nil)
	}
	return w.out
}

func coqStr(s string) string {
	return "\"" + strings.ReplaceAll(s, "\"", "\"\"") + "\""
}

func (s site) coq() string {
	var as []string
	for _, a := range s.alts {
		if a.kind == "Default" {
			as = append(as, "Default")
		} else if a.kind == "Made" {
			as = append(as, "Made "+coqStr(a.text)+" "+coqStr(a.text2))
		} else {
			as = append(as, a.kind+" "+coqStr(a.text))
		}
	}
	return fmt.Sprintf("mkG %s %d %s %s [%s]", coqStr(s.fn), s.ord, coqStr(s.ctx), s.kind, strings.Join(as, "; "))
}

func main() {
	repo := flag.String("repo", "", "neutrino checkout (default $VERIF_REPO, else /repo)")
	all := flag.Bool("all", false, "discovery: list the sites of every function of the given files")
	flag.Parse()
	if *repo == "" {
		*repo = os.Getenv("VERIF_REPO")
	}
	if *repo == "" {
		*repo = "/repo"
	}
	pkgs := map[string]*pkgInfo{}
	pkgOf := func(file string) *pkgInfo {
		dir := filepath.Dir(filepath.Join(*repo, file))
		if p, ok := pkgs[dir]; ok {
			return p
		}
		p, err := loadPkg(dir)
		if err != nil {
			fmt.Fprintln(os.Stderr, "genwaitsites:", err)
			os.Exit(1)
		}
		pkgs[dir] = p
		return p
	}
	findFuncs := func(file string) map[string]*ast.FuncDecl {
		p := pkgOf(file)
		f := p.files[filepath.Base(file)]
		if f == nil {
			fmt.Fprintf(os.Stderr, "genwaitsites: no file %s in %s\n", file, *repo)
			os.Exit(1)
		}
		m := map[string]*ast.FuncDecl{}
		for _, d := range f.Decls {
			if fd, ok := d.(*ast.FuncDecl); ok {
				m[funcID(file, fd)] = fd
			}
		}
		return m
	}

	if *all {
		for _, file := range flag.Args() {
			m := findFuncs(file)
			var names []string
			for n := range m {
				names = append(names, n)
			}
			sort.Strings(names)
			for _, n := range names {
				for _, s := range sitesOf(pkgOf(file), file, m[n], false, false) {
					fmt.Println(s.coq())
				}
			}
		}
		return
	}

	var out []string
	var missing []string
	nfn := 0
	for _, line := range strings.Split(functionsTxt, "\n") {
		if i := strings.Index(line, "#"); i >= 0 {
			line = line[:i]
		}
		fs := strings.Fields(line)
		if len(fs) == 0 {
			continue
		}
		calls, rets := false, false
		for len(fs) > 2 {
			switch fs[len(fs)-1] {
			case "+calls":
				calls = true
			case "+returns":
				rets = true
			default:
				fmt.Fprintf(os.Stderr, "genwaitsites: bad flag in functions.txt: %q\n", line)
				os.Exit(1)
			}
			fs = fs[:len(fs)-1]
		}
		if len(fs) != 2 {
			fmt.Fprintf(os.Stderr, "genwaitsites: bad line in functions.txt: %q\n", line)
			os.Exit(1)
		}
		file, name := fs[0], fs[1]
		fd := findFuncs(file)[name]
		nfn++
		if fd == nil {
			// a listed function that no longer exists: emit a marker site so
			// that the tie fails in Coq (with a name) rather than here
			missing = append(missing, file+":"+name)
			out = append(out, fmt.Sprintf("mkG %s 0 \"\" MissingFunction []", coqStr(file+":"+name)))
			continue
		}
		for _, s := range sitesOf(pkgOf(file), file, fd, calls, rets) {
			out = append(out, s.coq())
		}
	}
	fmt.Println("(* GENERATED by harness/cmd/genwaitsites from the source text of the neutrino checkout. Do not edit. *)")
	fmt.Println("From Coq Require Import String List.")
	fmt.Println("From Verif Require Import C17.WaitTypes.")
	fmt.Println("Import ListNotations.")
	fmt.Println("Open Scope string_scope.")
	fmt.Printf("(* %d functions listed, %d sites, %d listed functions not found *)\n", nfn, len(out)-len(missing), len(missing))
	fmt.Println("Definition wait_sites : list gsite := [")
	for i, s := range out {
		sep := ";"
		if i == len(out)-1 {
			sep = ""
		}
		fmt.Printf("  %s%s\n", s, sep)
	}
	fmt.Println("].")
}
