// Correspondence harness for C09: drives the real rescan goroutine
// (neutrino.NewRescan / Rescan.Start / Rescan.Update) against a
// harness-implemented ChainSource.  Every ChainSource call made by the rescan
// goroutine stops at a gate; a scheduler decides (deterministically from the
// seed) what happens while the goroutine is blocked there: blocks join or
// leave the best chain, Update calls are issued, the pending call succeeds or
// fails.  Block notifications travel through a real
// blockntfns.SubscriptionManager; the scheduler hands them to the rescan one
// by one.  Observables: the ordered OnFilteredBlockConnected /
// OnFilteredBlockDisconnected callbacks with the attached transactions, the
// return of Update calls, and where the goroutine blocks next.
//
// The waiting phase of rescan() (rescanState.waitForBlocks, twice) is part of
// every trace: its BestBlock and Subscribe calls are gated like all others,
// IsCurrent() answers a flag the scheduler flips ("current" items), and Update
// calls are issued while the goroutine waits there, in every position relative
// to the block notifications of the wait.  "quit" items close the quit
// channel.
package main

import (
	"errors"
	"fmt"
	"math/rand"
	"os"
	"path/filepath"
	"runtime"
	"sort"
	"strings"
	"sync"
	"sync/atomic"
	"time"

	"github.com/btcsuite/btcd/address/v2"
	"github.com/btcsuite/btcd/btcec/v2"
	"github.com/btcsuite/btcd/btcutil/v2"
	"github.com/btcsuite/btcd/btcutil/v2/gcs"
	"github.com/btcsuite/btcd/btcutil/v2/gcs/builder"
	"github.com/btcsuite/btcd/chaincfg/v2"
	"github.com/btcsuite/btcd/chainhash/v2"
	"github.com/btcsuite/btcd/rpcclient"
	"github.com/btcsuite/btcd/txscript/v2"
	"github.com/btcsuite/btcd/wire/v2"
	"github.com/lightninglabs/neutrino"
	"github.com/lightninglabs/neutrino/blockntfns"
	"github.com/lightninglabs/neutrino/headerfs"

	c "verifharness/internal/common"
)

// ---------------------------------------------------------------------
// History format (replayable).

// InRef names an outpoint: output Out of pool transaction Tx (Tx >= 0), or
// the synthetic foreign outpoint number -Tx (Tx < 0).
type InRef struct {
	Tx  int `json:"tx"`
	Out int `json:"out"`
}

// PoolTx is a transaction of the case's pool: one or more inputs, outputs
// paying addresses 1..nAddr.
type PoolTx struct {
	Ins  []InRef `json:"ins"`
	Outs []int   `json:"outs"`
}

// Cb is a recorded callback.
type Cb struct {
	Conn   bool    `json:"conn"`
	ID     int64   `json:"id"`
	Prev   int64   `json:"prev"`
	Height int64   `json:"height"`
	Txs    []int64 `json:"txs,omitempty"`
}

// Item is one scheduler step and what was observed after it.
type Item struct {
	Kind string `json:"kind"` // extend rollback start update reply deliver retry current quit
	// extend
	Time int64 `json:"time,omitempty"`
	Txs  []int `json:"txs,omitempty"`
	// start / update
	Start  int64   `json:"start,omitempty"`
	StartT int64   `json:"start_t,omitempty"`
	End    int64   `json:"end,omitempty"`
	Addrs  []int   `json:"addrs,omitempty"`
	Inputs []InRef `json:"inputs,omitempty"`
	Rewind int64   `json:"rewind,omitempty"`
	Split  bool    `json:"split,omitempty"` // one WatchAddrs / AddAddrs option per address
	// reply
	Res string `json:"res,omitempty"` // ok fail notfound
	// current
	Cur bool `json:"cur,omitempty"`
	// observations
	Cbs  []Cb   `json:"cbs,omitempty"`
	Recv bool   `json:"recv,omitempty"`
	Blk  string `json:"blk,omitempty"` // idle select done dead exit call
	BK   int64  `json:"bk,omitempty"`
	BA   int64  `json:"ba,omitempty"`
	// annotation (not compared): the rescan is still in waitForBlocks after this step
	InWait bool `json:"in_wait,omitempty"`
}

// History is one case.
type History struct {
	ID      int      `json:"id"`
	Profile string   `json:"profile,omitempty"`
	Pool    []PoolTx `json:"pool"`
	Items   []Item   `json:"items"`
	Failure string   `json:"failure,omitempty"`
}

const (
	nAddr = 5
	// addresses 6..nAddrAll are the forms of two keys K, K2; tokens 6/7, 8/9
	// and 13/12 are pairs with EQUAL EncodeAddress() and DIFFERENT scripts
	// (AddressPubKey.EncodeAddress is the pay-to-pubkey-hash encoding of the
	// serialized key):
	//   6 P2PKH(hash160(K compressed))     7 P2PK(K compressed)
	//   8 P2PKH(hash160(K uncompressed))   9 P2PK(K uncompressed)
	//  10 P2WPKH(hash160(K compressed))   11 P2SH(the P2WPKH script of K)
	//  12 P2PK(K2 compressed)             13 P2PKH(hash160(K2 compressed))
	// (address/v2 has no hybrid format: a hybrid serialization parses into
	// the uncompressed address.)  Every token has its own script, so in the
	// model an address token still is a script token.
	nAddrAll   = 13
	minerTok   = 99
	poolTokOff = 100
	rndTokOff  = 900
	cbTokOff   = 5000
)

// ---------------------------------------------------------------------
// Real objects.

var (
	params      = chaincfg.RegressionNetParams
	addrs       [nAddrAll + 1]address.Address
	addrScripts [nAddrAll + 1][]byte
	minerScript []byte
)

func init() {
	for i := 1; i <= nAddr; i++ {
		h := make([]byte, 20)
		for j := range h {
			h[j] = byte(i*17 + j)
		}
		a, err := address.NewAddressWitnessPubKeyHash(h, &params)
		if err != nil {
			panic(err)
		}
		addrs[i] = a
		s, err := txscript.PayToAddrScript(a)
		if err != nil {
			panic(err)
		}
		addrScripts[i] = s
	}
	h := make([]byte, 20)
	for j := range h {
		h[j] = 0xee
	}
	a, _ := address.NewAddressWitnessPubKeyHash(h, &params)
	minerScript, _ = txscript.PayToAddrScript(a)

	// the forms of two keys
	must := func(a address.Address, err error) address.Address {
		if err != nil {
			panic(err)
		}
		return a
	}
	key := func(b byte) *btcec.PublicKey {
		var sk [32]byte
		for j := range sk {
			sk[j] = b + byte(j)
		}
		_, pk := btcec.PrivKeyFromBytes(sk[:])
		return pk
	}
	k1, k2 := key(0x11), key(0x71)
	pkc := must(address.NewAddressPubKey(k1.SerializeCompressed(), &params)).(*address.AddressPubKey)
	pku := must(address.NewAddressPubKey(k1.SerializeUncompressed(), &params)).(*address.AddressPubKey)
	pk2 := must(address.NewAddressPubKey(k2.SerializeCompressed(), &params)).(*address.AddressPubKey)
	addrs[6], addrs[7] = pkc.AddressPubKeyHash(), pkc
	addrs[8], addrs[9] = pku.AddressPubKeyHash(), pku
	addrs[10] = must(address.NewAddressWitnessPubKeyHash(address.Hash160(k1.SerializeCompressed()), &params))
	w10, _ := txscript.PayToAddrScript(addrs[10])
	addrs[11] = must(address.NewAddressScriptHash(w10, &params))
	addrs[12], addrs[13] = pk2, pk2.AddressPubKeyHash()
	seen := map[string]int{}
	for i := 1; i <= nAddrAll; i++ {
		s, err := txscript.PayToAddrScript(addrs[i])
		if err != nil {
			panic(err)
		}
		addrScripts[i] = s
		if j, dup := seen[string(s)]; dup {
			panic(fmt.Sprintf("addresses %d and %d have one script", j, i))
		}
		seen[string(s)] = i
	}
	for _, p := range keyPairs {
		if addrs[p[0]].EncodeAddress() != addrs[p[1]].EncodeAddress() {
			panic("key pair does not share its EncodeAddress()")
		}
	}
}

// keyPairs: address tokens with equal EncodeAddress() and different scripts.
var keyPairs = [][2]int{{6, 7}, {8, 9}, {13, 12}}

type blk struct {
	tok    int64
	hdr    wire.BlockHeader
	hash   chainhash.Hash
	block  *btcutil.Block
	filter *gcs.Filter
	term   string // Gallina list of the block's transactions
	plain  bool   // coinbase only
	time   int64
}

type call struct {
	kind  int
	arg   int64
	reply chan string
}

type probe struct{}

func (probe) Header() wire.BlockHeader   { return wire.BlockHeader{} }
func (probe) Height() uint32             { return 0 }
func (probe) ChainTip() wire.BlockHeader { return wire.BlockHeader{} }

type wrap struct {
	ch        chan blockntfns.BlockNtfn
	real      *blockntfns.Subscription
	mu        sync.Mutex
	fifo      []blockntfns.BlockNtfn
	got       int
	sig       chan struct{}
	cancelled bool
}

type subInfo struct {
	w       *wrap
	backlog int
	err     bool
}

// kase is one running case; it implements neutrino.ChainSource and
// blockntfns.NotificationSource.
type kase struct {
	h    *History
	mu   sync.Mutex
	dead chan struct{}

	// environment
	chain    []*blk
	byHash   map[chainhash.Hash]*blk
	txTok    map[chainhash.Hash]int64
	poolTx   []*wire.MsgTx
	nblocks  int
	srcCh    chan blockntfns.BlockNtfn
	mgr      *blockntfns.SubscriptionManager
	lastBack int

	// gate
	gateCh      chan *call
	subDone     chan subInfo
	started     int32 // set by the first BestBlock call (rescan() has begun; newRescanState is not gated)
	passthrough int32
	isCur       int32 // what IsCurrent() answers
	quitClosed  bool
	nBest       int // BestBlock calls seen by the scheduler; the first two belong to waitForBlocks

	// rescan
	rescan *neutrino.Rescan
	quit   chan struct{}
	errCh  <-chan error

	// scheduler view
	held      *call
	quiescent bool
	exited    bool
	exitErr   error
	active    *wrap
	pendDone  chan error
	pendGID   int64
	recv      bool
	armedEst  bool
	armTime   time.Time
	ambiguous bool
	lastKind  int
	mode      string // idle catchup current
	toldH     int64
	failure   string

	cbMu      sync.Mutex
	cbs       []Cb
	legacy    []Cb
	filtered  []Cb
	recording int32
}

func newKase(h *History) *kase {
	k := &kase{h: h, dead: make(chan struct{}), byHash: map[chainhash.Hash]*blk{},
		txTok: map[chainhash.Hash]int64{}, srcCh: make(chan blockntfns.BlockNtfn),
		gateCh: make(chan *call), subDone: make(chan subInfo, 64), quit: make(chan struct{}),
		mode: "idle", isCur: 1}
	// pool transactions
	for i, p := range h.Pool {
		tx := wire.NewMsgTx(2)
		tx.LockTime = uint32(i + 1)
		for _, in := range p.Ins {
			tx.AddTxIn(wire.NewTxIn(k.outpoint(in), nil, nil))
		}
		for _, o := range p.Outs {
			tx.AddTxOut(wire.NewTxOut(1000, addrScripts[o]))
		}
		k.poolTx = append(k.poolTx, tx)
		k.txTok[tx.TxHash()] = int64(poolTokOff + i)
	}
	g := params.GenesisBlock
	gb := &blk{tok: 1, hdr: g.Header, hash: g.BlockHash(), block: btcutil.NewBlock(g),
		time: g.Header.Timestamp.Unix(), plain: true}
	gb.filter, _ = builder.BuildBasicFilter(g, nil)
	k.chain = []*blk{gb}
	k.byHash[gb.hash] = gb
	k.mgr = blockntfns.NewSubscriptionManager(k)
	k.mgr.Start()
	atomic.StoreInt32(&k.recording, 1)
	return k
}

func (k *kase) close() {
	close(k.dead)
	done := make(chan struct{})
	go func() { k.mgr.Stop(); close(done) }()
	select {
	case <-done:
	case <-time.After(3 * time.Second):
	}
}

func rndHash(n int) chainhash.Hash {
	return chainhash.DoubleHashH([]byte(fmt.Sprintf("foreign-%d", n)))
}

func (k *kase) outpoint(r InRef) *wire.OutPoint {
	if r.Tx < 0 {
		return wire.NewOutPoint(ptr(rndHash(-r.Tx)), 0)
	}
	h := k.poolTx[r.Tx].TxHash()
	return wire.NewOutPoint(&h, uint32(r.Out))
}

func ptr(h chainhash.Hash) *chainhash.Hash { return &h }

// refTerm gives (txid token, index, script token) of an outpoint.
func (k *kase) refToks(r InRef) (int64, int64, int64) {
	if r.Tx < 0 {
		return int64(rndTokOff - r.Tx), 0, int64((-r.Tx)%nAddr + 1)
	}
	return int64(poolTokOff + r.Tx), int64(r.Out), int64(k.h.Pool[r.Tx].Outs[r.Out])
}

func (k *kase) refScript(r InRef) []byte {
	_, _, s := k.refToks(r)
	return addrScripts[s]
}

func (k *kase) insTerm(ins []InRef) string {
	var it []string
	for _, r := range ins {
		a, b, s := k.refToks(r)
		it = append(it, fmt.Sprintf("(%d,%d,%d)", a, b, s))
	}
	return c.List(it)
}

func intsTerm(v []int) string {
	it := make([]string, len(v))
	for i, x := range v {
		it[i] = fmt.Sprint(x)
	}
	return c.List(it)
}

// buildBlock makes block number n (1-based creation ordinal) on top of prev.
func (k *kase) buildBlock(prev *blk, n int, t int64, txs []int) *blk {
	msg := wire.NewMsgBlock(&wire.BlockHeader{Version: 1, PrevBlock: prev.hash,
		Timestamp: time.Unix(t, 0), Bits: 0x207fffff, Nonce: uint32(n)})
	cb := wire.NewMsgTx(1)
	cb.AddTxIn(wire.NewTxIn(wire.NewOutPoint(&chainhash.Hash{}, 0xffffffff),
		[]byte{byte(n), byte(n >> 8), 0x51}, nil))
	cb.AddTxOut(wire.NewTxOut(5000, minerScript))
	msg.AddTransaction(cb)
	k.txTok[cb.TxHash()] = int64(cbTokOff + n)
	terms := []string{fmt.Sprintf("T %d [] [%d]", cbTokOff+n, minerTok)}
	var prevScripts [][]byte
	for _, i := range txs {
		msg.AddTransaction(k.poolTx[i])
		for _, in := range k.h.Pool[i].Ins {
			prevScripts = append(prevScripts, k.refScript(in))
		}
		terms = append(terms, fmt.Sprintf("T %d %s %s", poolTokOff+i,
			k.insTerm(k.h.Pool[i].Ins), intsTerm(k.h.Pool[i].Outs)))
	}
	msg.Header.MerkleRoot = chainhash.DoubleHashH([]byte(fmt.Sprintf("m%d", n)))
	b := &blk{tok: int64(n + 1), hdr: msg.Header, hash: msg.BlockHash(), time: t,
		term: c.List(terms), plain: len(txs) == 0}
	b.block = btcutil.NewBlock(msg)
	f, err := builder.BuildBasicFilter(msg, prevScripts)
	if err != nil {
		panic(err)
	}
	b.filter = f
	return b
}

func (k *kase) tokOf(h chainhash.Hash) int64 {
	k.mu.Lock()
	defer k.mu.Unlock()
	if b, ok := k.byHash[h]; ok {
		return b.tok
	}
	return -1
}

// ---------------------------------------------------------------------
// NotificationSource (what the block manager is to the real manager).

func (k *kase) Notifications() <-chan blockntfns.BlockNtfn { return k.srcCh }

func (k *kase) NotificationsSinceHeight(height uint32) ([]blockntfns.BlockNtfn, uint32, error) {
	k.mu.Lock()
	defer k.mu.Unlock()
	best := uint32(len(k.chain) - 1)
	k.lastBack = 0
	if height == 0 || best == height {
		return nil, best, nil
	}
	if height > best {
		return nil, 0, fmt.Errorf("request with height %d is greater than best height known %d", height, best)
	}
	var out []blockntfns.BlockNtfn
	for i := height + 1; i <= best; i++ {
		out = append(out, blockntfns.NewBlockConnected(k.chain[i].hdr, i))
	}
	k.lastBack = len(out)
	return out, best, nil
}

// ---------------------------------------------------------------------
// ChainSource.

func (k *kase) gate(kind int, arg int64) string {
	if atomic.LoadInt32(&k.started) == 0 || atomic.LoadInt32(&k.passthrough) == 1 {
		return "ok"
	}
	cl := &call{kind: kind, arg: arg, reply: make(chan string, 1)}
	select {
	case k.gateCh <- cl:
	case <-k.dead:
		return "fail"
	}
	select {
	case r := <-cl.reply:
		return r
	case <-k.dead:
		return "fail"
	}
}

func (k *kase) ChainParams() chaincfg.Params { return params }

// IsCurrent is read by the predicate of the second waitForBlocks right after
// BestBlock returns / a notification is taken; the flag only changes while the
// goroutine is blocked.
func (k *kase) IsCurrent() bool { return atomic.LoadInt32(&k.isCur) == 1 }

func (k *kase) BestBlock() (*headerfs.BlockStamp, error) {
	// the first call is the one of the first waitForBlocks: rescan() has begun
	atomic.StoreInt32(&k.started, 1)
	k.gate(1, 0)
	k.mu.Lock()
	defer k.mu.Unlock()
	t := k.chain[len(k.chain)-1]
	return &headerfs.BlockStamp{Height: int32(len(k.chain) - 1), Hash: t.hash, Timestamp: t.hdr.Timestamp}, nil
}

func (k *kase) GetBlockHeaderByHeight(h uint32) (*wire.BlockHeader, error) {
	k.gate(2, int64(h))
	k.mu.Lock()
	defer k.mu.Unlock()
	if int(h) >= len(k.chain) {
		return nil, errors.New("height not found")
	}
	hd := k.chain[h].hdr
	return &hd, nil
}

func (k *kase) GetBlockHeader(hash *chainhash.Hash) (*wire.BlockHeader, uint32, error) {
	k.gate(7, k.tokOf(*hash))
	k.mu.Lock()
	defer k.mu.Unlock()
	for i, b := range k.chain {
		if b.hash == *hash {
			hd := b.hdr
			return &hd, uint32(i), nil
		}
	}
	return nil, 0, errors.New("header not found")
}

func (k *kase) GetFilterHeaderByHeight(h uint32) (*chainhash.Hash, error) {
	k.gate(4, int64(h))
	k.mu.Lock()
	defer k.mu.Unlock()
	if int(h) >= len(k.chain) {
		return nil, errors.New("filter header not found")
	}
	fh := chainhash.DoubleHashH(k.chain[h].hash[:])
	return &fh, nil
}

func (k *kase) GetCFilter(hash chainhash.Hash, _ wire.FilterType, _ ...neutrino.QueryOption) (*gcs.Filter, error) {
	r := k.gate(5, k.tokOf(hash))
	k.mu.Lock()
	defer k.mu.Unlock()
	b, ok := k.byHash[hash]
	switch {
	case r == "notfound":
		return nil, headerfs.ErrHashNotFound
	case r != "ok" || !ok:
		return nil, errors.New("filter fetch failed")
	}
	return b.filter, nil
}

func (k *kase) GetBlock(hash chainhash.Hash, _ ...neutrino.QueryOption) (*btcutil.Block, error) {
	r := k.gate(6, k.tokOf(hash))
	k.mu.Lock()
	defer k.mu.Unlock()
	b, ok := k.byHash[hash]
	if r != "ok" || !ok {
		return nil, errors.New("block fetch failed")
	}
	return b.block, nil
}

func (k *kase) Subscribe(h uint32) (*blockntfns.Subscription, error) {
	k.gate(3, int64(h))
	gated := atomic.LoadInt32(&k.started) == 1 && atomic.LoadInt32(&k.passthrough) == 0
	real, err := k.mgr.NewSubscription(h)
	if err != nil {
		if gated {
			k.subDone <- subInfo{err: true}
		}
		return nil, err
	}
	w := &wrap{ch: make(chan blockntfns.BlockNtfn), real: real, sig: make(chan struct{}, 1)}
	go func() {
		for n := range real.Notifications {
			w.mu.Lock()
			w.fifo = append(w.fifo, n)
			w.got++
			w.mu.Unlock()
			select {
			case w.sig <- struct{}{}:
			default:
			}
		}
	}()
	if !gated {
		// finishing: forward straight through
		go func() {
			for {
				w.mu.Lock()
				var n blockntfns.BlockNtfn
				if len(w.fifo) > 0 {
					n = w.fifo[0]
					w.fifo = w.fifo[1:]
				}
				w.mu.Unlock()
				if n == nil {
					select {
					case <-w.sig:
					case <-k.dead:
						return
					case <-time.After(20 * time.Millisecond):
					}
					continue
				}
				select {
				case w.ch <- n:
				case <-k.dead:
					return
				}
			}
		}()
	}
	k.mu.Lock()
	back := k.lastBack
	k.mu.Unlock()
	if gated {
		k.subDone <- subInfo{w: w, backlog: back}
	}
	return &blockntfns.Subscription{Notifications: w.ch, Cancel: func() {
		w.mu.Lock()
		w.cancelled = true
		w.mu.Unlock()
		real.Cancel()
	}}, nil
}

// ---------------------------------------------------------------------
// callbacks

func (k *kase) txToks(txs []*btcutil.Tx) []int64 {
	var out []int64
	k.mu.Lock()
	defer k.mu.Unlock()
	for _, t := range txs {
		tok, ok := k.txTok[*t.Hash()]
		if !ok {
			tok = -1
		}
		out = append(out, tok)
	}
	return out
}

func (k *kase) handlers() rpcclient.NotificationHandlers {
	return rpcclient.NotificationHandlers{
		OnFilteredBlockConnected: func(height int32, header *wire.BlockHeader, txs []*btcutil.Tx) {
			if atomic.LoadInt32(&k.recording) == 0 {
				return
			}
			cb := Cb{Conn: true, ID: k.tokOf(header.BlockHash()), Prev: k.tokOf(header.PrevBlock),
				Height: int64(height), Txs: k.txToks(txs)}
			k.cbMu.Lock()
			k.cbs = append(k.cbs, cb)
			k.filtered = append(k.filtered, Cb{Conn: true, ID: cb.ID, Height: cb.Height})
			k.cbMu.Unlock()
		},
		OnFilteredBlockDisconnected: func(height int32, header *wire.BlockHeader) {
			if atomic.LoadInt32(&k.recording) == 0 {
				return
			}
			cb := Cb{ID: k.tokOf(header.BlockHash()), Prev: k.tokOf(header.PrevBlock), Height: int64(height)}
			k.cbMu.Lock()
			k.cbs = append(k.cbs, cb)
			k.filtered = append(k.filtered, Cb{ID: cb.ID, Height: cb.Height})
			k.cbMu.Unlock()
		},
		OnBlockConnected: func(hash *chainhash.Hash, height int32, _ time.Time) {
			if atomic.LoadInt32(&k.recording) == 0 {
				return
			}
			k.cbMu.Lock()
			k.legacy = append(k.legacy, Cb{Conn: true, ID: k.tokOf(*hash), Height: int64(height)})
			k.cbMu.Unlock()
		},
		OnBlockDisconnected: func(hash *chainhash.Hash, height int32, _ time.Time) {
			if atomic.LoadInt32(&k.recording) == 0 {
				return
			}
			k.cbMu.Lock()
			k.legacy = append(k.legacy, Cb{ID: k.tokOf(*hash), Height: int64(height)})
			k.cbMu.Unlock()
		},
	}
}

// ---------------------------------------------------------------------
// scheduler

const waitLimit = 5 * time.Second

func goid() int64 {
	buf := make([]byte, 64)
	n := runtime.Stack(buf, false)
	var id int64
	fmt.Sscanf(string(buf[:n]), "goroutine %d ", &id)
	return id
}

// parked reports whether goroutine id is blocked in a select.
func parked(id int64) bool {
	buf := make([]byte, 1<<20)
	for {
		n := runtime.Stack(buf, true)
		if n < len(buf) {
			buf = buf[:n]
			break
		}
		buf = make([]byte, 2*len(buf))
	}
	s := string(buf)
	marker := fmt.Sprintf("goroutine %d [", id)
	i := strings.Index(s, marker)
	if i < 0 {
		return false
	}
	rest := s[i+len(marker):]
	j := strings.Index(rest, "]")
	return j >= 0 && strings.HasPrefix(rest[:j], "select")
}

func (k *kase) fail(what string) {
	if k.failure == "" {
		k.failure = what
	}
}

// settlePending decides, once the rescan goroutine is blocked again, whether
// the pending Update call has been received.
func (k *kase) settlePending() {
	if k.pendDone == nil {
		return
	}
	if parked(k.pendGID) {
		return
	}
	select {
	case err := <-k.pendDone:
		if err == nil {
			k.recv = true
		}
		k.pendDone = nil
	case <-time.After(waitLimit):
		k.fail("hang: Update call neither parked nor returning")
	}
}

// sync waits until the rescan goroutine is blocked: in a gated call, in its
// select (the probe notification is taken), or gone.
func (k *kase) sync() {
	k.held, k.quiescent = nil, false
	for {
		var probeCh chan blockntfns.BlockNtfn
		var pd chan error
		if k.pendDone != nil {
			pd = k.pendDone
		} else if k.active != nil && !k.quitClosed {
			// (with the quit channel closed a goroutine that reaches
			// its select must leave; no probe, it could be taken
			// instead of the quit case)
			probeCh = k.active.ch
		}
		select {
		case probeCh <- probe{}:
			k.quiescent = true
			return
		case cl := <-k.gateCh:
			k.held = cl
			k.settlePending()
			k.noteCall(cl)
			return
		case err := <-k.errCh:
			k.exited, k.exitErr = true, err
			k.settlePending()
			return
		case err := <-pd:
			if err == nil {
				k.recv = true
			}
			k.pendDone = nil
		case <-time.After(waitLimit):
			k.fail("hang: rescan goroutine neither calls the chain source nor waits in its select")
			k.exited = true
			return
		}
	}
}

// noteCall keeps the scheduler's picture of the phase: the first two BestBlock
// calls are those of the two waitForBlocks, every later one is the catch-up
// branch of rescanLoop.
func (k *kase) noteCall(cl *call) {
	if cl.kind == 1 {
		k.nBest++
		if k.nBest > 2 {
			k.mode = "catchup"
		} else {
			k.mode = "wait"
		}
	}
}

func (k *kase) inWait() bool { return k.rescan != nil && k.nBest <= 2 }

func (k *kase) waitFifo(w *wrap, n int) {
	deadline := time.After(waitLimit)
	for {
		w.mu.Lock()
		got := w.got
		w.mu.Unlock()
		if got >= n {
			return
		}
		select {
		case <-w.sig:
		case <-time.After(2 * time.Millisecond):
		case <-deadline:
			k.fail("hang: subscription manager did not deliver a notification")
			return
		}
	}
}

func (k *kase) pushNtfn(n blockntfns.BlockNtfn) {
	w := k.active
	want := 0
	if w != nil {
		w.mu.Lock()
		cancelled := w.cancelled
		want = w.got + 1
		w.mu.Unlock()
		if cancelled {
			w, k.active = nil, nil
		}
	}
	select {
	case k.srcCh <- n:
	case <-time.After(waitLimit):
		k.fail("hang: subscription manager does not read its source")
		return
	}
	if w != nil {
		k.waitFifo(w, want)
	}
}

func (k *kase) checkTimer() {
	if k.armedEst && k.mode == "current" && time.Since(k.armTime) > 60*time.Millisecond {
		k.ambiguous = true
	}
}

func (k *kase) fifoLen() int {
	w := k.active
	if w == nil {
		return 0
	}
	w.mu.Lock()
	defer w.mu.Unlock()
	if w.cancelled {
		return 0
	}
	return len(w.fifo)
}

// applicable says whether item kind can be performed in the current state.
func (k *kase) applicable(kind string) bool {
	switch kind {
	case "extend", "rollback":
		return !k.exited
	case "start":
		return k.rescan == nil
	case "update":
		return k.rescan != nil && !k.exited && k.pendDone == nil && !k.quitClosed
	case "current":
		return true
	case "quit":
		return !k.quitClosed && !k.exited && k.pendDone == nil
	case "reply":
		return k.held != nil
	case "deliver":
		return k.quiescent && k.fifoLen() > 0
	case "retry":
		return k.quiescent
	}
	return false
}

func (k *kase) perform(it *Item) {
	k.recv = false
	k.cbMu.Lock()
	k.cbs = nil
	k.cbMu.Unlock()
	if it.Kind != "retry" {
		k.checkTimer()
	}
	switch it.Kind {
	case "extend":
		k.mu.Lock()
		k.nblocks++
		b := k.buildBlock(k.chain[len(k.chain)-1], k.nblocks, it.Time, it.Txs)
		k.chain = append(k.chain, b)
		k.byHash[b.hash] = b
		h := uint32(len(k.chain) - 1)
		k.mu.Unlock()
		k.pushNtfn(blockntfns.NewBlockConnected(b.hdr, h))
	case "rollback":
		k.mu.Lock()
		if len(k.chain) < 2 {
			k.mu.Unlock()
			break
		}
		t := k.chain[len(k.chain)-1]
		h := uint32(len(k.chain) - 1)
		k.chain = k.chain[:len(k.chain)-1]
		nt := k.chain[len(k.chain)-1]
		k.mu.Unlock()
		k.pushNtfn(blockntfns.NewBlockDisconnected(t.hdr, h, nt.hdr))
	case "start":
		k.mu.Lock()
		sb := k.chain[0]
		sh := int32(0)
		if it.Start >= 0 && int(it.Start) < len(k.chain) {
			sb, sh = k.chain[it.Start], int32(it.Start)
		}
		k.mu.Unlock()
		opts := []neutrino.RescanOption{
			neutrino.NotificationHandlers(k.handlers()), neutrino.QuitChan(k.quit),
			neutrino.StartBlock(&headerfs.BlockStamp{Hash: sb.hash, Height: sh}),
			neutrino.StartTime(time.Unix(it.StartT, 0)),
		}
		if it.End != 0 {
			opts = append(opts, neutrino.EndBlock(&headerfs.BlockStamp{Height: int32(it.End)}))
		}
		var as []address.Address
		for _, a := range it.Addrs {
			as = append(as, addrs[a])
			if it.Split {
				opts = append(opts, neutrino.WatchAddrs(addrs[a]))
			}
		}
		if !it.Split {
			opts = append(opts, neutrino.WatchAddrs(as...))
		}
		var ins []neutrino.InputWithScript
		for _, r := range it.Inputs {
			ins = append(ins, neutrino.InputWithScript{OutPoint: *k.outpoint(r), PkScript: k.refScript(r)})
		}
		opts = append(opts, neutrino.WatchInputs(ins...))
		k.rescan = neutrino.NewRescan(k, opts...)
		k.errCh = k.rescan.Start()
		k.toldH = int64(sh)
		k.mode = "wait"
		k.sync()
	case "update":
		var uo []neutrino.UpdateOption
		var as []address.Address
		for _, a := range it.Addrs {
			as = append(as, addrs[a])
		}
		if it.Split {
			for _, a := range as {
				uo = append(uo, neutrino.AddAddrs(a))
			}
		} else if len(as) > 0 {
			uo = append(uo, neutrino.AddAddrs(as...))
		}
		var ins []neutrino.InputWithScript
		for _, r := range it.Inputs {
			ins = append(ins, neutrino.InputWithScript{OutPoint: *k.outpoint(r), PkScript: k.refScript(r)})
		}
		if len(ins) > 0 {
			uo = append(uo, neutrino.AddInputs(ins...))
		}
		if it.Rewind != 0 {
			uo = append(uo, neutrino.Rewind(uint32(it.Rewind)))
		}
		done := make(chan error, 1)
		idc := make(chan int64, 1)
		r := k.rescan
		go func() {
			idc <- goid()
			done <- r.Update(uo...)
		}()
		k.pendGID = <-idc
		k.pendDone = done
		if k.held != nil {
			// the goroutine is inside a chain source call: the Update
			// call must be parked in its send before we go on
			deadline := time.Now().Add(waitLimit)
			for !parked(k.pendGID) {
				if time.Now().After(deadline) {
					k.fail("hang: Update call does not block")
					break
				}
				time.Sleep(50 * time.Microsecond)
			}
		} else {
			k.sync()
			k.checkTimer()
		}
	case "reply":
		cl := k.held
		k.held = nil
		if cl.kind == 5 && it.Res != "ok" && k.lastKind == 4 {
			k.armedEst, k.armTime = true, time.Now()
		}
		k.lastKind = cl.kind
		cl.reply <- it.Res
		if cl.kind == 3 {
			select {
			case si := <-k.subDone:
				if !si.err {
					k.active = si.w
					if !k.quitClosed {
						// (with the quit channel closed the goroutine leaves at
						// its next select and cancels the subscription: the
						// backlog may never arrive)
						k.waitFifo(si.w, si.backlog)
					}
					if k.inWait() {
						k.mode = "wait"
					} else {
						k.mode = "current"
					}
					k.armedEst = false
				}
			case <-time.After(waitLimit):
				k.fail("hang: Subscribe does not return")
			}
		}
		k.sync()
	case "deliver":
		w := k.active
		w.mu.Lock()
		n := w.fifo[0]
		w.fifo = w.fifo[1:]
		w.mu.Unlock()
		select {
		case w.ch <- n:
		case <-time.After(waitLimit):
			k.fail("hang: rescan goroutine does not take a notification while in its select")
			k.exited = true
			return
		}
		k.checkTimer()
		k.sync()
	case "retry":
		k.armedEst = false
		select {
		case cl := <-k.gateCh:
			k.held, k.quiescent = cl, false
			k.noteCall(cl)
		case err := <-k.errCh:
			k.exited, k.exitErr, k.quiescent = true, err, false
		case <-time.After(400 * time.Millisecond):
			// timer fired on an empty queue (or was not armed)
		}
	case "current":
		v := int32(0)
		if it.Cur {
			v = 1
		}
		atomic.StoreInt32(&k.isCur, v)
	case "quit":
		close(k.quit)
		k.quitClosed = true
		if k.rescan != nil && k.held == nil && !k.exited {
			// the goroutine is in a select: it must leave
			k.sync()
		}
	}
	// observations
	k.cbMu.Lock()
	it.Cbs = append([]Cb(nil), k.cbs...)
	k.cbMu.Unlock()
	for _, cb := range it.Cbs {
		if cb.Conn {
			k.toldH = cb.Height
		} else {
			k.toldH = cb.Height - 1
		}
	}
	it.Recv = k.recv
	it.InWait = k.inWait() && !k.exited
	it.BK, it.BA = 0, 0
	switch {
	case k.rescan == nil:
		it.Blk = "idle"
	case k.exited && k.exitErr == nil && k.failure == "":
		it.Blk = "done"
	case k.exited && k.exitErr == neutrino.ErrRescanExit && k.failure == "":
		it.Blk = "exit"
	case k.exited:
		it.Blk = "dead"
	case k.held != nil:
		it.Blk, it.BK, it.BA = "call", int64(k.held.kind), k.held.arg
	default:
		it.Blk = "select"
	}
}

// finish lets the rescan run to its end without recording.
func (k *kase) finish() {
	atomic.StoreInt32(&k.recording, 0)
	atomic.StoreInt32(&k.passthrough, 1)
	if !k.quitClosed {
		close(k.quit)
	}
	if k.held != nil {
		k.held.reply <- "ok"
	}
	if k.rescan == nil || k.exited {
		return
	}
	deadline := time.After(waitLimit)
	for {
		select {
		case cl := <-k.gateCh:
			cl.reply <- "ok"
		case <-k.subDone:
		case <-k.errCh:
			return
		case <-deadline:
			k.fail("hang: rescan does not stop after its quit channel is closed")
			return
		}
	}
}

// ---------------------------------------------------------------------
// generation (adaptive: the next item depends on where the goroutine blocks)

type gen struct {
	r        *rand.Rand
	profile  string
	max      int
	plan     []Item
	nextPool int
	updates  int
	lastTime int64
	pFail    int
	deep     int
	// waiting phase
	waitSteps int  // scheduler steps spent while the rescan waits
	waitMax   int  // after that many, the wait is brought to its end
	notCur    bool // the chain source was made "not current" before Start
	quits     int  // quit items left
	// several addresses of one key (own PRNG stream: the other draws of a
	// case do not depend on it)
	rk       *rand.Rand
	keyforms bool
}

// keyPattern is a list of addresses of one key in which two have the same
// EncodeAddress() and different scripts: either order, with a repeated
// address, with the witness forms of the key in between.
func (g *gen) keyPattern() []int {
	p := keyPairs[g.rk.Intn(len(keyPairs))]
	a, b := p[0], p[1]
	if g.rk.Intn(2) == 0 {
		a, b = b, a
	}
	switch g.rk.Intn(7) {
	case 0:
		return []int{a, a, b}
	case 1:
		return []int{a, b, a}
	case 2:
		return []int{a, 10, b, 11}
	case 3:
		q := keyPairs[g.rk.Intn(len(keyPairs))]
		return []int{a, q[1], b, q[0]}
	default:
		return []int{a, b}
	}
}

// keyAddrs rewrites the addresses of a Start / Update item of a key-forms
// case: a pattern in one call, or a single form (the other form of the pair
// then arrives in another call).
func (g *gen) keyAddrs(it *Item, p int) {
	if !g.keyforms || g.rk.Intn(100) >= p {
		return
	}
	if g.rk.Intn(100) < 70 {
		it.Addrs = append(it.Addrs, g.keyPattern()...)
	} else {
		it.Addrs = append(it.Addrs, 6+g.rk.Intn(nAddrAll-5))
	}
	if len(it.Addrs) > 1 && g.rk.Intn(3) == 0 {
		it.Split = true
	}
}

func genPool(r *rand.Rand) []PoolTx {
	n := 8 + r.Intn(5)
	var pool []PoolTx
	for i := 0; i < n; i++ {
		var p PoolTx
		nin := 1 + r.Intn(2)
		for j := 0; j < nin; j++ {
			if i > 0 && r.Intn(100) < 60 {
				t := r.Intn(i)
				p.Ins = append(p.Ins, InRef{Tx: t, Out: r.Intn(len(pool[t].Outs))})
			} else {
				p.Ins = append(p.Ins, InRef{Tx: -(1 + r.Intn(6))})
			}
		}
		nout := 1 + r.Intn(2)
		for j := 0; j < nout; j++ {
			p.Outs = append(p.Outs, 1+r.Intn(nAddr))
		}
		pool = append(pool, p)
	}
	return pool
}

func (g *gen) extendItem(k *kase) Item {
	g.lastTime += int64(300 + g.r.Intn(600))
	t := g.lastTime
	if g.r.Intn(8) == 0 {
		t -= int64(g.r.Intn(2000)) // block times are not monotone
	}
	it := Item{Kind: "extend", Time: t}
	for j := 0; j < 3; j++ {
		x := g.r.Intn(100)
		switch {
		case x < 45 && g.nextPool < len(k.h.Pool):
			it.Txs = append(it.Txs, g.nextPool)
			g.nextPool++
		case x < 55 && g.nextPool > 0:
			it.Txs = append(it.Txs, g.r.Intn(g.nextPool))
		}
	}
	// no transaction twice in one block
	seen := map[int]bool{}
	var txs []int
	for _, t := range it.Txs {
		if !seen[t] {
			seen[t] = true
			txs = append(txs, t)
		}
	}
	it.Txs = txs
	return it
}

func (g *gen) randRef(k *kase) InRef {
	if g.r.Intn(100) < 75 {
		t := g.r.Intn(len(k.h.Pool))
		return InRef{Tx: t, Out: g.r.Intn(len(k.h.Pool[t].Outs))}
	}
	return InRef{Tx: -(1 + g.r.Intn(6))}
}

func (g *gen) updateItem(k *kase) Item {
	it := Item{Kind: "update"}
	if g.r.Intn(100) < 60 {
		it.Addrs = []int{1 + g.r.Intn(nAddr)}
	} else {
		it.Inputs = []InRef{g.randRef(k)}
	}
	if g.r.Intn(100) < 55 && k.toldH >= 1 {
		it.Rewind = 1 + g.r.Int63n(k.toldH+1) // sometimes at or above the current height: no rewind
	}
	g.keyAddrs(&it, 60)
	return it
}

func (g *gen) envItems(k *kase) []Item {
	n := len(k.chain)
	x := g.r.Intn(100)
	catchup := k.mode == "catchup"
	allowDeep := !catchup || g.profile == "catchup-reorg"
	switch {
	case x < 50 || n < 2 || !allowDeep:
		return []Item{g.extendItem(k)}
	default:
		d := 1 + g.r.Intn(3)
		if g.profile == "catchup-reorg" && catchup && n > 3 {
			d = 1 + g.r.Intn(n-2)
		}
		if d > n-1 {
			d = n - 1
		}
		var its []Item
		for i := 0; i < d; i++ {
			its = append(its, Item{Kind: "rollback"})
		}
		grow := d + 1
		if g.r.Intn(10) == 0 {
			grow = g.r.Intn(d + 1)
		}
		for i := 0; i < grow; i++ {
			its = append(its, g.extendItem(k))
		}
		return its
	}
}

// waitUpdate is an Update call issued while the rescan waits: mostly items
// nothing watches yet, sometimes with a rewind below the start height.
func (g *gen) waitUpdate(k *kase) Item {
	it := Item{Kind: "update"}
	switch x := g.r.Intn(100); {
	case x < 55:
		it.Addrs = []int{1 + g.r.Intn(nAddr)}
	case x < 85:
		it.Inputs = []InRef{g.randRef(k)}
	default:
		it.Addrs = []int{1 + g.r.Intn(nAddr)}
		it.Inputs = []InRef{g.randRef(k)}
	}
	if g.r.Intn(100) < 35 && k.toldH >= 1 {
		it.Rewind = 1 + g.r.Int63n(k.toldH+1)
	}
	g.keyAddrs(&it, 60)
	return it
}

// nextWait schedules the waiting phase (the rescan goroutine is in one of the
// two waitForBlocks calls): chain events before BestBlock answers (a rollback
// then puts the start height / the end block ahead of the tip), Update calls
// in every position relative to the notifications of the wait, notifications,
// and finally what ends the wait.
func (g *gen) nextWait(k *kase) *Item {
	g.waitSteps++
	x := g.r.Intn(100)
	canUpd := k.applicable("update") && g.updates > 0
	closing := g.waitSteps > g.waitMax
	if k.held != nil {
		switch {
		case x < 70 || closing:
			return &Item{Kind: "reply", Res: "ok"}
		case x < 80 && canUpd:
			g.updates--
			it := g.waitUpdate(k)
			return &it
		case x < 90 && len(k.chain) > 2 && k.held.kind == 1:
			// the tip leaves the chain before BestBlock answers
			return &Item{Kind: "rollback"}
		default:
			it := g.extendItem(k)
			return &it
		}
	}
	if !k.quiescent {
		return nil
	}
	fl := k.fifoLen()
	cur := k.IsCurrent()
	if closing {
		// end the wait: become current, then a block notification
		switch {
		case !cur:
			return &Item{Kind: "current", Cur: true}
		case fl > 0:
			return &Item{Kind: "deliver"}
		default:
			it := g.extendItem(k)
			return &it
		}
	}
	switch {
	case x < 30 && canUpd:
		g.updates--
		it := g.waitUpdate(k)
		return &it
	case x < 60 && fl > 0:
		return &Item{Kind: "deliver"}
	case x < 80:
		it := g.extendItem(k)
		return &it
	case x < 88 && !cur:
		return &Item{Kind: "current", Cur: true}
	case x < 91 && cur:
		return &Item{Kind: "current", Cur: false}
	case x < 94 && len(k.chain) > 2:
		return &Item{Kind: "rollback"}
	case x < 96 && g.quits > 0 && k.applicable("quit"):
		g.quits--
		return &Item{Kind: "quit"}
	case fl > 0:
		return &Item{Kind: "deliver"}
	default:
		it := g.extendItem(k)
		return &it
	}
}

func (g *gen) next(k *kase, done int) *Item {
	if k.exited || done >= g.max {
		return nil
	}
	if len(g.plan) > 0 && (k.rescan == nil || g.r.Intn(100) < 85) {
		it := g.plan[0]
		g.plan = g.plan[1:]
		if k.applicable(it.Kind) {
			return &it
		}
	}
	if k.inWait() {
		return g.nextWait(k)
	}
	x := g.r.Intn(100)
	canUpd := k.applicable("update") && g.updates > 0
	catchup := k.mode == "catchup"
	if g.quits > 0 && k.applicable("quit") && g.r.Intn(100) < 2 {
		g.quits--
		return &Item{Kind: "quit"}
	}
	switch {
	case k.held != nil:
		pReply, pUpd := 80, 5
		if catchup {
			pReply, pUpd = 90, 3
		}
		if g.profile == "updates" {
			pUpd *= 3
		}
		// a reorganisation below the current block while catching up
		if g.profile == "catchup-reorg" && catchup && g.deep > 0 && k.toldH >= 2 &&
			len(k.chain) > 2 && g.r.Intn(100) < 30 {

			g.deep--
			fork := g.r.Intn(int(k.toldH))
			if fork > len(k.chain)-2 {
				fork = len(k.chain) - 2
			}
			d := len(k.chain) - 1 - fork
			g.plan = nil
			for i := 0; i < d; i++ {
				g.plan = append(g.plan, Item{Kind: "rollback"})
			}
			for i := 0; i < d+1; i++ {
				g.plan = append(g.plan, g.extendItem(k))
			}
			it := g.plan[0]
			g.plan = g.plan[1:]
			return &it
		}
		switch {
		case x < pReply:
			it := Item{Kind: "reply", Res: "ok"}
			pf := g.pFail
			if catchup {
				pf = g.pFail / 8 // a failed fetch ends a catching-up rescan
			}
			switch k.held.kind {
			case 5:
				if g.r.Intn(100) < pf {
					it.Res = "fail"
				} else if k.lastKind == 2 && g.r.Intn(100) < 8 {
					// "hash not found" only for blocks with nothing in them
					k.mu.Lock()
					for _, b := range k.byHash {
						if b.tok == k.held.arg && b.plain {
							it.Res = "notfound"
						}
					}
					k.mu.Unlock()
				}
			case 6:
				if g.r.Intn(100) < pf/2 {
					it.Res = "fail"
				}
			}
			return &it
		case x < pReply+pUpd && canUpd:
			g.updates--
			it := g.updateItem(k)
			return &it
		default:
			g.plan = g.envItems(k)
			it := g.plan[0]
			g.plan = g.plan[1:]
			return &it
		}
	case k.quiescent:
		fl := k.fifoLen()
		if k.armedEst {
			// blocks wait for a retry: fire the timer, stash more
			// notifications, or reorganise the waiting blocks away
			switch {
			case x < 30:
				return &Item{Kind: "retry"}
			case x < 62 && fl > 0:
				return &Item{Kind: "deliver"}
			case x < 85 && len(k.chain) > 2:
				d := 1 + g.r.Intn(2)
				g.plan = nil
				for i := 0; i < d; i++ {
					g.plan = append(g.plan, Item{Kind: "rollback"})
				}
				for i := 0; i < d+g.r.Intn(2); i++ {
					g.plan = append(g.plan, g.extendItem(k))
				}
				it := g.plan[0]
				g.plan = g.plan[1:]
				return &it
			default:
				return &Item{Kind: "retry"}
			}
		}
		switch {
		case fl > 0 && x < 78:
			return &Item{Kind: "deliver"}
		case canUpd && x < 88:
			g.updates--
			it := g.updateItem(k)
			return &it
		case k.armedEst && fl == 0 && x < 94:
			return &Item{Kind: "retry"}
		default:
			g.plan = g.envItems(k)
			it := g.plan[0]
			g.plan = g.plan[1:]
			return &it
		}
	}
	return nil
}

func genCase(seed int64, id int, tier string) (*History, *gen) {
	r := c.Rng(seed, id)
	g := &gen{r: r, max: 64, updates: 2, lastTime: params.GenesisBlock.Header.Timestamp.Unix() + 1000}
	if tier == "thorough" {
		g.max = 90
	}
	switch x := r.Intn(100); {
	case x < 18:
		g.profile, g.pFail = "plain", 0
	case x < 40:
		g.profile, g.pFail = "faulty", 30
	case x < 58:
		g.profile, g.pFail, g.updates = "updates", 12, 4
	case x < 72:
		g.profile, g.pFail, g.deep = "catchup-reorg", 10, 2
	default:
		// the rescan starts while the chain source is not current (or
		// loses its start / end block before BestBlock answers) and
		// waits; updates arrive during the wait
		g.profile, g.pFail, g.updates = "waiting", 4, 5
		g.waitMax = 4 + r.Intn(14)
		g.max += 16
	}
	if r.Intn(100) < 6 {
		g.quits = 1
	}
	h := &History{ID: id, Profile: g.profile, Pool: genPool(r)}
	// about a third of the cases: the pool pays (and spends) the forms of two
	// keys, watch lists hold several addresses of one key
	g.rk = c.Rng(seed, id+300007)
	if g.rk.Intn(100) < 30 {
		g.keyforms = true
		h.Profile += "+keyforms"
		for i := range h.Pool {
			for j := range h.Pool[i].Outs {
				if g.rk.Intn(100) < 65 {
					h.Pool[i].Outs[j] = 6 + g.rk.Intn(nAddrAll-5)
				}
			}
		}
	}
	return h, g
}

func (g *gen) preamble(k *kase) {
	r := g.r
	n := 3 + r.Intn(5)
	for i := 0; i < n; i++ {
		g.plan = append(g.plan, g.extendItem(k))
	}
	st := Item{Kind: "start", Start: int64(r.Intn(n))}
	if r.Intn(100) < 65 {
		st.Start = int64(r.Intn(2))
	}
	if g.profile == "waiting" {
		// start near the tip: a rollback before BestBlock answers puts
		// the start height ahead of the best block
		if r.Intn(100) < 45 {
			st.Start = int64(n - r.Intn(2))
		}
		if r.Intn(100) < 80 {
			g.notCur = true
			g.plan = append(g.plan, Item{Kind: "current", Cur: false})
		}
	} else if r.Intn(100) < 10 {
		g.notCur = true
		g.waitMax = 2 + r.Intn(6)
		g.plan = append(g.plan, Item{Kind: "current", Cur: false})
	}
	if r.Intn(100) < 30 {
		st.StartT = g.plan[r.Intn(n)].Time
	}
	if g.profile == "waiting" && r.Intn(100) < 40 && st.Start >= 1 {
		// a start time between the blocks below the start block: a
		// rewind during the wait moves the rescan across it
		st.StartT = g.plan[r.Intn(int(st.Start))].Time
	}
	if r.Intn(100) < 8 {
		st.End = st.Start + 1 + int64(r.Intn(n))
	}
	if g.profile == "waiting" && r.Intn(100) < 25 {
		// an end block at or near the tip: the wait may end by reaching it
		st.End = int64(n - r.Intn(2))
		if st.End <= st.Start {
			st.End = st.Start + 1
		}
	}
	na := []int{0, 1, 1, 1, 2, 2, 3}[r.Intn(7)]
	for _, a := range r.Perm(nAddr)[:na] {
		st.Addrs = append(st.Addrs, a+1)
	}
	if r.Intn(100) < 40 {
		st.Inputs = append(st.Inputs, g.randRef(k))
	}
	if g.profile == "plain" && r.Intn(2) == 0 {
		st.Addrs, st.Inputs = nil, nil
	}
	if g.profile == "waiting" && r.Intn(100) < 60 {
		// nothing or little watched at Start: what the updates of the
		// wait add decides what is delivered
		st.Inputs = nil
		if len(st.Addrs) > 1 {
			st.Addrs = st.Addrs[:1]
		}
		if r.Intn(2) == 0 {
			st.Addrs = nil
		}
	}
	g.keyAddrs(&st, 75)
	g.plan = append(g.plan, st)
}

// runCase executes one case (generated or replayed) and fills in the
// observations.  It is re-run when a retry timer raced with the scheduler.
func runCase(seed int64, id int, tier string, replay *History) *History {
	var h *History
	for try := 0; try < 4; try++ {
		var g *gen
		if replay != nil {
			cp := *replay
			cp.Items = append([]Item(nil), replay.Items...)
			cp.Failure = ""
			h = &cp
		} else {
			h, g = genCase(seed, id, tier)
		}
		k := newKase(h)
		if g != nil {
			g.preamble(k)
			for {
				it := g.next(k, len(h.Items))
				if it == nil {
					break
				}
				h.Items = append(h.Items, *it)
				k.perform(&h.Items[len(h.Items)-1])
				if k.failure != "" {
					break
				}
			}
		} else {
			for i := range h.Items {
				it := &h.Items[i]
				if !k.applicable(it.Kind) || k.failure != "" {
					// the history no longer fits the code: leave an
					// observation no model run can produce
					it.Cbs, it.Recv, it.Blk, it.BK, it.BA = nil, false, "call", 0, int64(-1-i)
					continue
				}
				k.perform(it)
			}
		}
		k.finish()
		// the legacy callbacks must mirror the filtered ones
		k.cbMu.Lock()
		if k.failure == "" && !sameSeq(k.filtered, k.legacy) {
			k.failure = "legacy: OnBlockConnected/OnBlockDisconnected differ from the filtered callbacks"
		}
		k.cbMu.Unlock()
		h.Failure = k.failure
		amb := k.ambiguous
		k.close()
		if !amb || h.Failure != "" {
			return h
		}
	}
	// could not get a run free of timer races: keep only the prefix before
	// the rescan start (harmless, replays trivially)
	for i, it := range h.Items {
		if it.Kind == "start" {
			h.Items = h.Items[:i]
			break
		}
	}
	h.Profile += "/timer-race-dropped"
	return h
}

func sameSeq(a, b []Cb) bool {
	if len(a) != len(b) {
		return false
	}
	for i := range a {
		if a[i].Conn != b[i].Conn || a[i].ID != b[i].ID || a[i].Height != b[i].Height {
			return false
		}
	}
	return true
}

// ---------------------------------------------------------------------
// Gallina output

func int64s(v []int64) string {
	it := make([]string, len(v))
	for i, x := range v {
		it[i] = c.Z(x)
	}
	return c.List(it)
}

func caseTerm(h *History) (string, string) {
	k := newKase(h) // rebuilds the blocks to print their transactions
	defer k.close()
	var items, sig []string
	for i := range h.Items {
		it := &h.Items[i]
		var ev, s string
		switch it.Kind {
		case "extend":
			k.nblocks++
			b := k.buildBlock(k.chain[len(k.chain)-1], k.nblocks, it.Time, it.Txs)
			k.chain = append(k.chain, b)
			ev, s = fmt.Sprintf("EE %d %d %s", b.tok, it.Time, b.term), "e"
		case "rollback":
			if len(k.chain) >= 2 {
				k.chain = k.chain[:len(k.chain)-1]
			}
			ev, s = "ER", "r"
		case "start":
			ev, s = fmt.Sprintf("ES %d %d %d %s %s", it.Start, it.StartT, it.End, intsTerm(it.Addrs), k.insTerm(it.Inputs)), "S"
		case "update":
			ev, s = fmt.Sprintf("EU %s %s %d", intsTerm(it.Addrs), k.insTerm(it.Inputs), it.Rewind), "u"
			if it.Rewind != 0 {
				s = "U"
			}
		case "reply":
			switch it.Res {
			case "ok":
				ev, s = "TOk", "k"
			case "fail":
				ev, s = "TFail", "f"
			default:
				ev, s = "TNf", "n"
			}
		case "deliver":
			ev, s = "TN", "d"
		case "retry":
			ev, s = "TR", "t"
		case "current":
			ev, s = "EC "+c.Bool(it.Cur), "c"
			if it.Cur {
				s = "C"
			}
		case "quit":
			ev, s = "EQ", "q"
		}
		var cbs []string
		for _, cb := range it.Cbs {
			if cb.Conn {
				cbs = append(cbs, fmt.Sprintf("CC %s %s %d %s", c.Z(cb.ID), c.Z(cb.Prev), cb.Height, int64s(cb.Txs)))
				s += "+"
				if len(cb.Txs) > 0 {
					s += "x"
				}
			} else {
				cbs = append(cbs, fmt.Sprintf("CD %s %s %d", c.Z(cb.ID), c.Z(cb.Prev), cb.Height))
				s += "-"
			}
		}
		var blk string
		switch it.Blk {
		case "idle":
			blk = "BIdle"
		case "select":
			blk = "BSelect"
		case "done":
			blk = "BDone"
		case "dead":
			blk = "BDead"
		case "exit":
			blk = "BExit"
		default:
			blk = fmt.Sprintf("(BCall %d %s)", it.BK, c.Z(it.BA))
		}
		if it.Recv {
			s += "^"
		}
		items = append(items, fmt.Sprintf("(%s, O %s %s %s)", ev, c.List(cbs), c.Bool(it.Recv), blk))
		sig = append(sig, s)
	}
	g := params.GenesisBlock.Header.Timestamp.Unix()
	return fmt.Sprintf("(%d, (1, %d, %s))", h.ID, g, c.List(items)), strings.Join(sig, "")
}

func main() {
	a := c.ParseArgs()
	rep := c.NewReport("C09", a)
	var hs []*History
	if a.Replay != "" {
		var h History
		c.ReadJSON(a.Replay, &h)
		hs = []*History{runCase(a.Seed, h.ID, a.Tier, &h)}
	} else {
		// corpus of fixed regression histories first
		var corpus []string
		for _, d := range []string{"../corpus/C09", "/verif/corpus/C09"} {
			m, _ := filepath.Glob(filepath.Join(d, "*.json"))
			if len(m) > 0 {
				corpus = m
				break
			}
		}
		sort.Strings(corpus)
		n := 200
		if a.Tier == "thorough" {
			n = 4000
		}
		hs = make([]*History, len(corpus)+n)
		var wg sync.WaitGroup
		sem := make(chan struct{}, a.Workers)
		for i := range hs {
			wg.Add(1)
			sem <- struct{}{}
			go func(i int) {
				defer wg.Done()
				defer func() { <-sem }()
				if i < len(corpus) {
					var h History
					c.ReadJSON(corpus[i], &h)
					h.ID = 100000 + i
					hs[i] = runCase(a.Seed, h.ID, a.Tier, &h)
				} else {
					hs[i] = runCase(a.Seed, i-len(corpus), a.Tier, nil)
				}
			}(i)
		}
		wg.Wait()
	}

	sigs := c.Signatures{}
	nontrivial := c.Signatures{}
	const shard = 24
	var sb strings.Builder
	nshard := 0
	flush := func() {
		if sb.Len() == 0 {
			return
		}
		body := "From Coq Require Import ZArith List.\nFrom Verif Require Import C09.Model C09.Spec C09.Replay.\nImport ListNotations.\nOpen Scope Z_scope.\nDefinition cases : list (Z * (Z * Z * list (ev * obs))) := [\n" +
			sb.String() + "].\nDefinition R := Eval vm_compute in (run_cases cases).\nSet Printing Width 1000000.\nSet Printing Depth 1000000.\nPrint R.\n"
		c.WriteFile(filepath.Join(a.Out, fmt.Sprintf("cases_%d.v", nshard)), body)
		nshard++
		sb.Reset()
	}
	cnt := 0
	for _, h := range hs {
		t, sig := caseTerm(h)
		if cnt > 0 {
			sb.WriteString(";\n")
		}
		sb.WriteString(t)
		cnt++
		if cnt == shard {
			flush()
			cnt = 0
		}
		sigs.Add(sig)
		// non-trivial: the rescan delivered a connected block carrying
		// transactions, or a disconnect, or a retry fired, or an update
		// was received
		if strings.ContainsAny(sig, "x-t^") {
			nontrivial.Add(sig)
		}
		for _, it := range h.Items {
			key := "op:" + it.Kind
			if it.Kind == "reply" {
				key += ":" + it.Res
			}
			rep.Histogram[key]++
			for _, cb := range it.Cbs {
				if cb.Conn {
					rep.Histogram["cb:connected"]++
					if len(cb.Txs) > 0 {
						rep.Histogram["cb:connected-with-txs"]++
					}
				} else {
					rep.Histogram["cb:disconnected"]++
				}
			}
			if it.Kind == "start" || it.Kind == "update" {
				has := map[int]bool{}
				for _, x := range it.Addrs {
					has[x] = true
				}
				for _, p := range keyPairs {
					if has[p[0]] && has[p[1]] {
						rep.Histogram["keyforms:"+it.Kind+"-with-both-forms-of-a-key"]++
						break
					}
				}
			}
			if it.Recv {
				rep.Histogram["update-received"]++
				if it.InWait {
					rep.Histogram["update-received-while-waiting"]++
				}
			}
			if it.InWait && it.Kind == "deliver" {
				rep.Histogram["wait:notification-not-ending-the-wait"]++
			}
			if it.InWait && it.Blk == "select" && it.Kind == "reply" {
				rep.Histogram["wait:entered"]++
			}
		}
		rep.Histogram["profile:"+h.Profile]++
		path := filepath.Join(a.Out, fmt.Sprintf("hist-%d.json", h.ID))
		c.WriteJSON(path, h)
		rep.Cases[fmt.Sprint(h.ID)] = path
		if h.Failure != "" {
			tag := strings.SplitN(h.Failure, ":", 2)[0]
			rep.ImplFailures = append(rep.ImplFailures, c.ImplFailure{Case: fmt.Sprint(h.ID),
				Step: len(h.Items) - 1, What: h.Failure, Tag: tag})
		}
	}
	flush()
	rep.Histogram["distinct_signatures"] = len(sigs)
	rep.Evaluations = len(hs)
	rep.DistinctNontrivial = len(nontrivial)
	rep.Rule = "histories of chain events (extend / roll back, reorganisations of any depth), Start, Update calls (addresses, inputs, rewind), results of the gated ChainSource calls (ok / fail / hash-not-found), notification deliveries, retry-timer firings, IsCurrent flips and quit, executed on the real rescan goroutine from the first BestBlock call of waitForBlocks on (about a third of the histories make the rescan wait there and issue Update calls during the wait); non-trivial = at least one connected callback carrying transactions, a disconnected callback, a retry firing or a received update; distinct = distinct signature of item kinds and callbacks"
	for i := 0; i < len(hs) && i < 3; i++ {
		rep.Samples = append(rep.Samples, hs[i])
	}
	rep.Write(a.Out)
	_ = os.Stdout
}
