// Harness c03loop: the sources of cmd/c03 (symbolic links), started in the
// mode of family L (the real cfHandler loop) by default, so that it can be
// registered as an extra harness next to cmd/c03 with a directory and a
// binary of its own.
package main

func init() { defaultLoop = true }
