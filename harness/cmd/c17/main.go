// Harness for C17: "Stop always completes and releases every blocked caller".
//
// Every scenario runs a full neutrino.ChainService (real stores, real
// connmgr/peer/query stack) against scripted in-memory peers
// (internal/netsim), brings it into a chosen state (idle, mid-sync, mid-
// reorganisation, without peers), starts API calls that block because the
// peers are silent on the message they need, calls Stop, and records
//   - whether and when Stop returned,
//   - for every call: whether it returned and the class of its result,
//   - the result of reopening the data directory with the real stores.
//
// The Coq side (C17/Replay.v) replays the scenario facts on the shutdown
// model (sequential composition of the component stops over the wait-site
// table extracted from the code) and checks the recorded outcome vector with
// the monitor.
package main

import (
	"bytes"
	"errors"
	"fmt"
	"math/rand"
	"os"
	"path/filepath"
	"sort"
	"strings"
	"sync"
	"time"

	"github.com/btcsuite/btcd/btcjson"
	"github.com/btcsuite/btcd/btcutil/v2"
	"github.com/btcsuite/btcd/chainhash/v2"
	"github.com/btcsuite/btcd/rpcclient"
	"github.com/btcsuite/btcd/wire/v2"
	"github.com/btcsuite/btcwallet/walletdb"
	"github.com/lightninglabs/neutrino"
	"github.com/lightninglabs/neutrino/blockntfns"
	"github.com/lightninglabs/neutrino/filterdb"
	"github.com/lightninglabs/neutrino/headerfs"
	"github.com/lightninglabs/neutrino/pushtx"
	"github.com/lightninglabs/neutrino/query"

	c "verifharness/internal/common"
	ns "verifharness/internal/netsim"
)

var _ = btcjson.Bool

const (
	stopBound  = 20 * time.Second // "bounded time" of the property (generous)
	stopGiveUp = 30 * time.Second // after this the harness abandons the client
	callGrace  = 5 * time.Second  // callers must return this soon after Stop
)

// CallObs is the observation of one API call that was started before Stop.
type CallObs struct {
	Kind     string `json:"kind"`
	Pre      bool   `json:"returned_before_stop"`
	Returned bool   `json:"returned"`
	Class    string `json:"class"` // ok | shutdown | cancel | timeout | other | hung
	Detail   string `json:"detail,omitempty"`
}

// Obs is the outcome vector of a scenario.
type Obs struct {
	Synced       bool      `json:"synced_before"`
	PeersAtStop  int       `json:"peers_at_stop"`
	StopReturned bool      `json:"stop_returned"`
	StopMs       int64     `json:"stop_ms"`
	StopErr      string    `json:"stop_err,omitempty"`
	Calls        []CallObs `json:"calls"`
	Reopen       ns.Reopen `json:"reopen"`
	ReopenDone   bool      `json:"reopen_done"`
	Recv         []string  `json:"peer_received,omitempty"`
}

// Scn is one scenario (history) and, after the run, its observations.
type Scn struct {
	ID       int      `json:"id"`
	Seed     int64    `json:"seed"`
	ChainLen int      `json:"chain_len"`
	TipUnix  int64    `json:"tip_unix"`
	NPeers   int      `json:"n_peers"`
	Silent   []string `json:"silent"`
	TxMode   string   `json:"tx_mode"`
	Phase    string   `json:"phase"` // idle | midsync | reorg | nopeers | notstarted | comp (see comp.go) | backlog | deafpeer
	Comp     *Comp    `json:"comp,omitempty"`
	DeafMode string   `json:"deaf_mode,omitempty"` // phase deafpeer: bcast | cfquery
	Slack    int      `json:"slack,omitempty"`     // phase deafpeer: bytes the deaf peer's connection still takes
	Backlog  int      `json:"backlog,omitempty"`   // phase backlog: filters queued for the batch writer right before Stop
	DelayMs  int      `json:"delay_ms"`
	Calls    []string `json:"calls"`
	Persist  bool     `json:"persist"`
	Obs      *Obs     `json:"obs,omitempty"`
}

func classify(err error) (string, string) {
	switch {
	case err == nil:
		return "ok", ""
	case errors.Is(err, neutrino.ErrShuttingDown), errors.Is(err, query.ErrWorkManagerShuttingDown),
		errors.Is(err, pushtx.ErrBroadcasterStopped), errors.Is(err, blockntfns.ErrSubscriptionManagerStopped):
		return "shutdown", err.Error()
	case errors.Is(err, query.ErrJobCanceled), errors.Is(err, neutrino.ErrGetUtxoCancelled),
		errors.Is(err, neutrino.ErrRescanExit):
		return "cancel", err.Error()
	case errors.Is(err, query.ErrQueryTimeout):
		return "timeout", err.Error()
	}
	return "other", err.Error()
}

// worse combines the result classes of two sub-calls: the one the monitor is
// more likely to reject wins (other > timeout > cancel > shutdown > ok).
func worse(a, b [2]string) (string, string) {
	rank := map[string]int{"ok": 0, "shutdown": 1, "cancel": 2, "timeout": 3, "other": 4}
	if rank[b[0]] > rank[a[0]] {
		return b[0], b[1]
	}
	return a[0], a[1]
}

type call struct {
	kind string
	done chan struct{}
	mu   sync.Mutex
	cls  string
	det  string
	// peers hammer
	stopHammer chan struct{}
}

func (k *call) finish(cls, det string) {
	k.mu.Lock()
	k.cls, k.det = cls, det
	k.mu.Unlock()
	close(k.done)
}

func startCall(kind string, cl *ns.Client, ch *ns.Chain, r *rand.Rand) *call {
	k := &call{kind: kind, done: make(chan struct{}), stopHammer: make(chan struct{})}
	cs := cl.CS
	switch kind {
	case "getblock":
		h := 1 + r.Intn(ch.Tip())
		hash := ch.Hashes[h]
		go func() {
			b, err := cs.GetBlock(hash)
			cls, det := classify(err)
			if err == nil && (b == nil || *b.Hash() != hash) {
				cls, det = "other", "wrong block returned"
			}
			k.finish(cls, det)
		}()
	case "getcfilter":
		h := 1 + r.Intn(ch.Tip())
		hash := ch.Hashes[h]
		go func() {
			f, err := cs.GetCFilter(hash, wire.GCSFilterRegular)
			cls, det := classify(err)
			if err == nil && f == nil {
				cls, det = "other", "nil filter without error"
			}
			k.finish(cls, det)
		}()
	case "getutxo":
		// Two requests at different heights: the scanner works on them one
		// after the other, so the second scan starts while Stop is under way.
		pick := func() ns.Out {
			o := ch.Outs[r.Intn(len(ch.Outs))]
			for o.Height == 0 {
				o = ch.Outs[r.Intn(len(ch.Outs))]
			}
			return o
		}
		outs := []ns.Out{pick(), pick()}
		res := make(chan [2]string, 2)
		for _, o := range outs {
			go func(o ns.Out) {
				rep, err := cs.GetUtxo(
					neutrino.WatchInputs(neutrino.InputWithScript{OutPoint: o.OutPoint, PkScript: o.PkScript}),
					neutrino.StartBlock(&headerfs.BlockStamp{Height: int32(o.Height)}),
				)
				cls, det := classify(err)
				if err == nil && rep == nil {
					cls, det = "other", "nil report without error"
				}
				res <- [2]string{cls, det}
			}(o)
		}
		go func() {
			a, b := <-res, <-res
			k.finish(worse(a, b))
		}()
	case "rescan":
		o := ch.Outs[r.Intn(len(ch.Outs))]
		go func() {
			rs := neutrino.NewRescan(&neutrino.RescanChainSource{ChainService: cs},
				neutrino.StartBlock(&headerfs.BlockStamp{Height: 0, Hash: *ns.Params.GenesisHash}),
				neutrino.WatchInputs(neutrino.InputWithScript{OutPoint: o.OutPoint, PkScript: o.PkScript}),
				neutrino.QuitChan(make(chan struct{})), // never closed: only Stop may end the rescan
				neutrino.NotificationHandlers(rpcclient.NotificationHandlers{
					OnFilteredBlockConnected:    func(int32, *wire.BlockHeader, []*btcutil.Tx) {},
					OnFilteredBlockDisconnected: func(int32, *wire.BlockHeader) {},
				}),
			)
			err := <-rs.Start()
			cls, det := classify(err)
			if err == nil {
				cls, det = "other", "rescan without end block returned nil"
			}
			k.finish(cls, det)
		}()
	case "sendtx":
		// Two transactions: while the broadcaster's handler is inside
		// sendTransaction for the first, the second caller is blocked
		// handing over its request.
		res := make(chan [2]string, 2)
		for j := 0; j < 2; j++ {
			tx := wire.NewMsgTx(2)
			var hh chainhash.Hash
			r.Read(hh[:])
			tx.AddTxIn(&wire.TxIn{PreviousOutPoint: wire.OutPoint{Hash: hh, Index: 0}})
			tx.AddTxOut(&wire.TxOut{Value: 1000, PkScript: []byte{0x51}})
			go func() {
				cls, det := classify(cs.SendTransaction(tx))
				res <- [2]string{cls, det}
			}()
		}
		go func() {
			a, b := <-res, <-res
			k.finish(worse(a, b))
		}()
	case "peers":
		// Hammer the peer-state queries around the shutdown instant: every
		// single call has to return.
		var wg sync.WaitGroup
		for g := 0; g < 4; g++ {
			wg.Add(1)
			go func(g int) {
				defer wg.Done()
				for {
					select {
					case <-k.stopHammer:
						return
					default:
					}
					switch g % 4 {
					case 0:
						cs.Peers()
					case 1:
						cs.ConnectedCount()
					case 2:
						cs.OutboundGroupCount("x")
					case 3:
						cs.IsCurrent()
						cs.AddedNodeInfo()
					}
				}
			}(g)
		}
		go func() {
			wg.Wait()
			k.finish("shutdown", "")
		}()
	default:
		panic("unknown call kind " + kind)
	}
	return k
}

func runScn(s *Scn, work string) (fails []c.ImplFailure) {
	if s.Phase == "comp" {
		return runComp(s, work)
	}
	o := &Obs{}
	s.Obs = o
	fail := func(what, tag string) {
		fails = append(fails, c.ImplFailure{Case: fmt.Sprint(s.ID), Step: 0, What: what, Tag: tag})
	}
	dir, err := os.MkdirTemp(work, fmt.Sprintf("c%d-", s.ID))
	if err != nil {
		panic(err)
	}
	r := rand.New(rand.NewSource(s.Seed*977 + int64(s.ID)*13 + 1))
	base := ns.CachedChain(s.Seed, s.ChainLen, time.Unix(s.TipUnix, 0), 0.3)
	nt := ns.NewNet()
	for i := 0; i < s.NPeers; i++ {
		nt.Add(base, ns.Behaviour{Silent: s.Silent, TxMode: s.TxMode})
	}
	cl, err := ns.NewClient(dir, nt, nt.Addrs(), 0, s.Persist)
	if err != nil {
		fail("cannot create client: "+err.Error(), "setup")
		return
	}
	// "notstarted": the service was created but never started (the state a
	// caller is in when Start returned an error before starting anything);
	// Stop must still return (finding F40).
	started := s.Phase != "notstarted"
	if started {
		if err := cl.Start(); err != nil {
			fail("cannot start client: "+err.Error(), "setup")
			return
		}
	}
	cur := base
	switch s.Phase {
	case "notstarted":
	case "midsync":
		time.Sleep(time.Duration(s.DelayMs) * time.Millisecond)
	default:
		if !has(s.Silent, "getheaders") && !has(s.Silent, "getcfheaders") {
			o.Synced = ns.WaitUntil(15*time.Second, func() bool { return ns.Synced(cl.CS, base) })
		} else {
			time.Sleep(300 * time.Millisecond)
		}
	}
	var calls []*call
	launch := func() {
		for _, kd := range s.Calls {
			calls = append(calls, startCall(kd, cl, base, r))
		}
	}
	var qHashes []chainhash.Hash
	var qRaws [][]byte
	switch s.Phase {
	case "notstarted":
		// no peer handler runs, so no API call can be made
	case "backlog":
		// PersistToDisk: the filters of an optimistic getcfilters batch have
		// just been handed to the filter batch writer (10 per database
		// transaction), and Stop is called at once, while the writer's
		// queue still holds most of them.
		var err error
		qHashes, qRaws, err = cl.CS.VerifQueueFilterWrites(s.Backlog)
		if err != nil {
			fail("cannot queue filters: "+err.Error(), "setup")
			return
		}
	case "deafpeer":
		// The first peer keeps its connection open but stops READING (a hung
		// process, a receive buffer that is never drained): after Slack more
		// bytes every write of the client to it blocks, as on a socket whose
		// send buffer is full. An all-peers query is then in flight when
		// Stop is called: a transaction broadcast (bcast), or the filter-
		// header handler's getcfheaders for a new block (cfquery). The query
		// has to end by its own timeout although its message to that peer is
		// never written.
		nodes := nt.Nodes()
		if nodes[0].StopReading(s.Slack) == 0 {
			fail("the peer to be made deaf is not connected", "setup")
			return
		}
		if s.DeafMode == "cfquery" {
			cur = base.Fork(base.Tip(), 2, int64(s.ID), 0.3)
			nodes[0].SetChain(cur, false)
			for _, n := range nodes[1:] {
				n.SetChain(cur, true)
			}
			ns.WaitUntil(5*time.Second, func() bool {
				_, h, err := cl.CS.BlockHeaders.ChainTip()
				return err == nil && int(h) == cur.Tip()
			})
		}
		launch()
		time.Sleep(time.Duration(150+s.DelayMs) * time.Millisecond)
	case "reorg":
		launch()
		cur = base.Fork(base.Tip()-1-r.Intn(5), 8, int64(s.ID), 0.3)
		for _, n := range nt.Nodes() {
			n.SetChain(cur, true)
		}
		time.Sleep(time.Duration(s.DelayMs) * time.Millisecond)
	case "nopeers":
		nt.Shutdown()
		ns.WaitUntil(3*time.Second, func() bool { return len(cl.CS.Peers()) == 0 })
		launch()
		time.Sleep(time.Duration(100+s.DelayMs) * time.Millisecond)
	default:
		launch()
		time.Sleep(time.Duration(100+s.DelayMs) * time.Millisecond)
	}
	for _, k := range calls {
		select {
		case <-k.done:
			k.mu.Lock()
			o.Calls = append(o.Calls, CallObs{Kind: k.kind, Pre: true, Returned: true, Class: k.cls, Detail: k.det})
			k.mu.Unlock()
		default:
			o.Calls = append(o.Calls, CallObs{Kind: k.kind})
		}
	}
	if started {
		o.PeersAtStop = len(cl.CS.Peers())
	}

	ret, took, serr := cl.StopWithin(stopGiveUp)
	o.StopReturned, o.StopMs = ret, took.Milliseconds()
	if serr != nil {
		o.StopErr = serr.Error()
	}
	// Callers: everything that was blocked must come back soon after Stop.
	deadline := time.Now().Add(callGrace)
	for i, k := range calls {
		if k.kind == "peers" {
			close(k.stopHammer)
		}
		if o.Calls[i].Pre {
			continue
		}
		select {
		case <-k.done:
			k.mu.Lock()
			o.Calls[i].Returned, o.Calls[i].Class, o.Calls[i].Detail = true, k.cls, k.det
			k.mu.Unlock()
		case <-time.After(time.Until(deadline)):
			o.Calls[i].Class = "hung"
		}
	}
	for _, n := range nt.Nodes() {
		rc := n.Received()
		var parts []string
		for _, kk := range ns.SortedKeys(rc) {
			parts = append(parts, fmt.Sprintf("%s=%d", kk, rc[kk]))
		}
		o.Recv = append(o.Recv, strings.Join(parts, " "))
	}
	nt.Shutdown()
	if ret {
		if err := cl.CloseDB(); err != nil {
			o.Reopen.What = "close db: " + err.Error()
		} else {
			o.Reopen = ns.ReopenCheck(dir, []*ns.Chain{base, cur})
			o.ReopenDone = true
			if s.Phase == "backlog" && o.Reopen.FiltersOK {
				if what := checkQueuedFilters(dir, qHashes, qRaws); what != "" {
					o.Reopen.FiltersOK, o.Reopen.What = false, what
				}
			}
		}
		os.RemoveAll(dir)
	}
	// Failures only the Go side can see: hangs.
	if !ret {
		fail(fmt.Sprintf("ChainService.Stop did not return within %v (phase %s, calls %v, silent %v, peers at stop %d)",
			stopGiveUp, s.Phase, s.Calls, s.Silent, o.PeersAtStop), hangTag(s, o))
	}
	return
}

// checkQueuedFilters: after a reopen the filter database holds a PREFIX of the
// filters that were queued before Stop (the writer persists them in order, a
// batch per transaction; what was still queued is dropped), each equal to the
// queued one. Returns "" or what is wrong.
func checkQueuedFilters(dir string, hashes []chainhash.Hash, raws [][]byte) string {
	db, err := walletdb.Open("bdb", filepath.Join(dir, "neutrino.db"), true, 5*time.Second, false)
	if err != nil {
		return "open db: " + err.Error()
	}
	defer db.Close()
	fdb, err := filterdb.New(db, ns.Params)
	if err != nil {
		return "open filter db: " + err.Error()
	}
	missingAt := -1
	for i := range hashes {
		f, err := fdb.FetchFilter(&hashes[i], filterdb.RegularFilter)
		if err != nil {
			if missingAt < 0 {
				missingAt = i
			}
			continue
		}
		if missingAt >= 0 {
			return fmt.Sprintf("queued filter %d is on disk but filter %d is not: not a prefix", i, missingAt)
		}
		raw, err := f.NBytes()
		if err != nil || !bytes.Equal(raw, raws[i]) {
			return fmt.Sprintf("queued filter %d differs on disk", i)
		}
	}
	return ""
}

// hangTag names the root cause of a Stop hang when the scenario contains the
// ingredients of a known one.
func hangTag(s *Scn, o *Obs) string {
	if s.Phase == "notstarted" {
		return "F40-stop-without-start"
	}
	if s.Phase == "backlog" {
		return "stop-hang-filter-backlog"
	}
	if s.Phase == "deafpeer" {
		return "stop-hang-deaf-peer"
	}
	for i, k := range o.Calls {
		if k.Kind == "getutxo" && !k.Pre {
			_ = i
			return "F20-scanner-waits-on-workmanager"
		}
	}
	return "stop-hang"
}

func has(l []string, x string) bool {
	for _, y := range l {
		if y == x {
			return true
		}
	}
	return false
}

// ---------------------------------------------------------------------
// Generation.

var silentChoices = [][]string{
	{}, {"getdata"}, {"getcfilters"}, {"inv"}, {"getdata", "getcfilters"}, {"getdata", "getcfilters", "inv"},
	{"getcfheaders"}, {"getheaders"}, {"getcfcheckpt"},
}

var callKinds = []string{"getblock", "getcfilter", "getutxo", "rescan", "sendtx", "peers"}

func gen(r *rand.Rand, id int, seed, tip int64) Scn {
	s := Scn{ID: id, Seed: seed, ChainLen: 150, TipUnix: tip, NPeers: 1 + r.Intn(3), TxMode: "getdata"}
	x := r.Intn(100)
	switch {
	case x < 40:
		s.Phase = "idle"
	case x < 60:
		s.Phase = "midsync"
		s.DelayMs = r.Intn(120)
	case x < 80:
		s.Phase = "reorg"
		s.DelayMs = r.Intn(80)
	default:
		s.Phase = "nopeers"
	}
	s.DelayMs += r.Intn(100)
	s.Silent = append([]string{}, silentChoices[r.Intn(6)]...)
	if r.Intn(8) == 0 {
		s.Silent = append([]string{}, silentChoices[6+r.Intn(3)]...)
	}
	if has(s.Silent, "inv") || r.Intn(4) == 0 {
		s.TxMode = []string{"none", "reject", "getdata-reject"}[r.Intn(3)]
	}
	n := 1 + r.Intn(4)
	seen := map[string]bool{}
	for len(s.Calls) < n {
		k := callKinds[r.Intn(len(callKinds))]
		if seen[k] {
			continue
		}
		seen[k] = true
		s.Calls = append(s.Calls, k)
	}
	sort.Strings(s.Calls)
	if seen["rescan"] && r.Intn(4) == 0 {
		// rescan on a chain that never becomes current
		s.Silent = []string{"getheaders"}
	}
	s.Persist = r.Intn(3) == 0
	return s
}

// corpus: fixed regression scenarios, run first.
func corpus(seed, tip int64) []Scn {
	mk := func(id int, phase string, silent []string, calls ...string) Scn {
		return Scn{ID: id, Seed: seed, ChainLen: 150, TipUnix: tip, NPeers: 2, Silent: silent, TxMode: "getdata",
			Phase: phase, DelayMs: 50, Calls: calls}
	}
	cs := []Scn{
		mk(0, "idle", []string{}, "peers"),
		mk(1, "idle", []string{"getdata"}, "getblock"),
		mk(2, "idle", []string{"getcfilters"}, "getcfilter", "rescan"),
		mk(3, "idle", []string{"getdata"}, "getutxo"),
		mk(4, "nopeers", []string{}, "getutxo"),
		mk(5, "idle", []string{"inv"}, "sendtx"),
		mk(6, "nopeers", []string{}, "getblock", "getcfilter"),
		mk(7, "reorg", []string{"getdata", "getcfilters"}, "getblock", "getcfilter", "peers"),
		mk(8, "midsync", []string{}, "peers", "rescan"),
	}
	cs[5].TxMode = "none"
	// long chain: checkpointed filter-header sync in flight, silent on checkpoints
	long := mk(9, "midsync", []string{"getcfcheckpt"}, "peers")
	long.ChainLen = 1100
	long.DelayMs = 400
	cs = append(cs, long)
	// F40: Stop on a service that was never started
	cs = append(cs, mk(10, "notstarted", []string{}), mk(11, "notstarted", []string{}))
	cs[11].Persist = true
	// A rescan started while the chain is not current (peers silent on
	// getheaders: the client stays at genesis) parks in waitForBlocks on its
	// block subscription; Stop closes the subscription and the rescan has to
	// come back (seeded change C17 round 2 no. 1).
	// Stop with a backlog in the filter batch writer (seeded change C17-12)
	b1, b2 := mk(14, "backlog", []string{}), mk(15, "backlog", []string{})
	b1.Persist, b1.Backlog, b2.Persist, b2.Backlog = true, 400, true, 37
	// Stop with an all-peers query in flight to a peer that has stopped reading
	// (seeded change C17-16)
	d1, d2, d3 := mk(16, "deafpeer", []string{}, "sendtx"), mk(17, "deafpeer", []string{}, "peers"), mk(18, "deafpeer", []string{}, "sendtx")
	d1.DeafMode, d2.DeafMode, d3.DeafMode, d3.Slack = "bcast", "cfquery", "bcast", 30
	cs = append(cs, d1, d2, d3)
	cs = append(cs, mk(12, "idle", []string{"getheaders"}, "rescan"),
		mk(13, "midsync", []string{"getheaders"}, "peers", "rescan"), b1, b2)
	return cs
}

// ---------------------------------------------------------------------
// Coq terms.

var phaseCode = map[string]int64{"idle": 0, "midsync": 1, "reorg": 2, "nopeers": 3, "notstarted": 4, "comp": 5, "backlog": 6, "deafpeer": 7}
var kindCode = map[string]int64{"getblock": 0, "getcfilter": 1, "getutxo": 2, "rescan": 3, "sendtx": 4, "peers": 5}
var classCode = map[string]int64{"ok": 0, "shutdown": 1, "cancel": 2, "timeout": 3, "other": 4, "hung": 5}
var silentBit = map[string]int64{"getdata": 1, "getcfilters": 2, "inv": 4, "getcfheaders": 8, "getheaders": 16, "getcfcheckpt": 32}

func caseTerm(s *Scn) (string, string) {
	o := s.Obs
	var mask int64
	for _, x := range s.Silent {
		mask |= silentBit[x]
	}
	var calls []string
	sig := s.Phase + "/"
	for _, k := range o.Calls {
		calls = append(calls, fmt.Sprintf("(%d, %s, %d)", kindCode[k.Kind], c.Bool(k.Pre), classCode[k.Class]))
		sig += k.Kind[:4]
		if !k.Pre {
			sig += "*"
		}
		sig += ","
	}
	sig += fmt.Sprintf("/s%d/p%d", mask, min(o.PeersAtStop, 1))
	reopen := int64(0) // 0 ok, 1 failed, 2 not attempted (Stop hung)
	if !o.ReopenDone {
		reopen = 2
	} else if !(o.Reopen.OpenOK && o.Reopen.TipsOK && o.Reopen.ChainOK && o.Reopen.FiltersOK) {
		reopen = 1
	}
	long := s.ChainLen >= 1000
	t := fmt.Sprintf("(%d, mkCase %d %d %d %s %s %s %s %d %d)", s.ID, phaseCode[s.Phase], o.PeersAtStop, mask,
		c.Bool(s.Persist), c.Bool(long), c.List(calls), c.Bool(o.StopReturned), o.StopMs, reopen)
	return t, sig
}

func main() {
	a := c.ParseArgs()
	rep := c.NewReport("C17", a)
	tip := time.Now().Add(-20 * time.Minute).Unix()
	var ss []Scn
	if a.Replay != "" {
		var s Scn
		c.ReadJSON(a.Replay, &s)
		// Re-mine with the recorded tip time when it is still recent enough
		// for the chain to count as current; otherwise with a fresh one.
		if time.Since(time.Unix(s.TipUnix, 0)) > 20*time.Hour {
			s.TipUnix = tip
		}
		s.Obs = nil
		if s.Comp != nil {
			s.Comp.Panic = ""
		}
		ss = []Scn{s}
	} else {
		ss = corpus(a.Seed, tip)
		ss = append(ss, compCorpus(a.Seed, tip, 20)...)
		if a.Tier == "thorough" {
			// more backlog sizes around the queue's capacities (10 + 10)
			for i, n := range []int{1, 9, 10, 11, 20, 21, 22, 60, 150, 1000} {
				ss = append(ss, Scn{ID: 60 + i, Seed: a.Seed, ChainLen: 150, TipUnix: tip, NPeers: 2, Silent: []string{},
					TxMode: "getdata", Phase: "backlog", DelayMs: 50, Persist: true, Backlog: n})
			}
		}
		n := 50
		if a.Tier == "thorough" {
			n = 300
		}
		for i := 0; i < n; i++ {
			ss = append(ss, gen(c.Rng(a.Seed, i), 100+i, a.Seed, tip))
		}
	}
	work, err := os.MkdirTemp(a.Out, "net")
	if err != nil {
		panic(err)
	}
	// Build the shared chains before the clock-sensitive part starts.
	for i := range ss {
		if ss[i].Phase != "comp" {
			ns.CachedChain(ss[i].Seed, ss[i].ChainLen, time.Unix(ss[i].TipUnix, 0), 0.3)
		}
	}
	var wg sync.WaitGroup
	var fmu sync.Mutex
	sem := make(chan struct{}, a.Workers)
	for i := range ss {
		wg.Add(1)
		sem <- struct{}{}
		go func(s *Scn) {
			defer wg.Done()
			defer func() { <-sem }()
			f := runScn(s, work)
			fmu.Lock()
			rep.ImplFailures = append(rep.ImplFailures, f...)
			fmu.Unlock()
		}(&ss[i])
	}
	wg.Wait()

	var sb strings.Builder
	sb.WriteString("From Coq Require Import ZArith List Bool.\nFrom Verif Require Import C17.Model C17.Spec C17.Replay.\nImport ListNotations.\nOpen Scope Z_scope.\n")
	sb.WriteString("Definition cases : list (Z * case) := [\n")
	sigs, nontrivial := c.Signatures{}, c.Signatures{}
	for i := range ss {
		s := &ss[i]
		if s.Obs == nil {
			continue
		}
		t, sig := caseTerm(s)
		if i > 0 {
			sb.WriteString(";\n")
		}
		sb.WriteString(t)
		sigs.Add(sig)
		blocked := false
		for _, k := range s.Obs.Calls {
			rep.Histogram["call:"+k.Kind+":"+k.Class]++
			if !k.Pre {
				blocked = true
			}
		}
		if blocked {
			nontrivial.Add(sig)
		}
		rep.Histogram["phase:"+s.Phase]++
		switch {
		case !s.Obs.StopReturned:
			rep.Histogram["stop:hung"]++
		case s.Obs.StopMs > stopBound.Milliseconds():
			rep.Histogram["stop:late"]++
		case s.Obs.StopMs > 2000:
			rep.Histogram["stop:2s+"]++
		default:
			rep.Histogram["stop:<2s"]++
		}
		path := filepath.Join(a.Out, fmt.Sprintf("hist-%d.json", s.ID))
		c.WriteJSON(path, s)
		rep.Cases[fmt.Sprint(s.ID)] = path
		if len(rep.Samples) < 3 {
			rep.Samples = append(rep.Samples, s)
		}
	}
	sb.WriteString("].\n")
	sb.WriteString("Definition R := Eval vm_compute in (run_cases cases).\nSet Printing Width 1000000.\nSet Printing Depth 1000000.\nPrint R.\n")
	c.WriteFile(filepath.Join(a.Out, "cases.v"), sb.String())
	rep.Evaluations = len(ss)
	rep.DistinctNontrivial = len(nontrivial)
	rep.Rule = "distinct (phase, call kinds with blocked-at-Stop marks, silent mask, peers>0) signatures among scenarios in which at least one API call was still blocked when Stop began"
	rep.Write(a.Out)
	os.RemoveAll(work)
	// Abandoned clients (Stop hung) may still hold goroutines: leave now.
	os.Exit(0)
}
