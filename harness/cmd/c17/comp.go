// Component scenarios of the C17 harness: Stop in the middle of a
// reorganisation.
//
// A real blockManager on real header stores, wired the way NewChainService
// wires it (hook neutrino.VerifC17NewBlockManager: its unbuffered
// notification channel is consumed by a real blockntfns.SubscriptionManager),
// follows a chain A with filter headers.  Then the tail of ChainService.Stop
// is performed at the instant the netsim scenarios do not reach — between
// blockSubscriptionMgr.Stop and blockManager.Stop:
//
//	mid   the subscription manager is stopped (nobody consumes notifications
//	      any more); a headers message reorganises Depth blocks onto a longer
//	      branch B; the block handler parks in the first disconnected-block
//	      notification; blockManager.Stop closes b.quit.
//	late  as mid, but a SECOND reorganising message is queued while the
//	      handler is parked: it is taken from the queue after b.quit has been
//	      closed (or not at all: the handler's select chooses).
//	cp    the rollback is the one after a checkpoint mismatch.
//
// Expected: no panic (the block handler runs under a recover: impl_failure
// panic-in-stop), blockManager.Stop returns within the bound, the stores
// reopen with a connected block chain made of headers of A and B only and a
// filter chain that is not ahead of it.
package main

import (
	"fmt"
	"math/big"
	"os"
	"path/filepath"
	"time"

	"github.com/btcsuite/btcd/blockchain"
	"github.com/btcsuite/btcd/chaincfg/v2"
	"github.com/btcsuite/btcd/chainhash/v2"
	"github.com/btcsuite/btcd/peer"
	"github.com/btcsuite/btcd/wire/v2"
	"github.com/btcsuite/btcwallet/walletdb"
	_ "github.com/btcsuite/btcwallet/walletdb/bdb"
	"github.com/lightninglabs/neutrino"
	"github.com/lightninglabs/neutrino/headerfs"

	c "verifharness/internal/common"
	ns "verifharness/internal/netsim"
)

// Comp describes one component scenario.
type Comp struct {
	Variant string `json:"variant"` // mid | late | cp
	NA      int    `json:"n_a"`     // length of chain A
	Depth   int    `json:"depth"`   // blocks of A the reorganisation disconnects
	NB      int    `json:"n_b"`     // length of branch B above the fork point
	CF      int    `json:"cf"`      // filter headers written for A (<= NA)
	Panic   string `json:"panic,omitempty"`
}

func mineChain(prev *wire.BlockHeader, n int, tag byte) []*wire.BlockHeader {
	params := &chaincfg.SimNetParams
	target := blockchain.CompactToBig(params.PowLimitBits)
	out := make([]*wire.BlockHeader, 0, n)
	for i := 0; i < n; i++ {
		var merkle chainhash.Hash
		merkle[0], merkle[1], merkle[2] = tag, byte(i+1), byte((i+1)>>8)
		h := &wire.BlockHeader{Version: 0x20000000, PrevBlock: prev.BlockHash(), MerkleRoot: merkle,
			Timestamp: prev.Timestamp.Add(10 * time.Minute), Bits: params.PowLimitBits}
		for {
			hash := h.BlockHash()
			var w *big.Int = blockchain.HashToBig(&hash)
			if w.Cmp(target) <= 0 {
				break
			}
			h.Nonce++
		}
		out = append(out, h)
		prev = h
	}
	return out
}

type compEnv struct {
	dir    string
	params chaincfg.Params
	db     walletdb.DB
	bs     headerfs.BlockHeaderStore
	fs     headerfs.FilterHeaderStore
}

func (e *compEnv) open() error {
	db, err := walletdb.Create("bdb", filepath.Join(e.dir, "neutrino.db"), true, 10*time.Second, false)
	if err != nil {
		return err
	}
	e.db = db
	if e.bs, err = headerfs.NewBlockHeaderStore(e.dir, db, &e.params); err != nil {
		return err
	}
	e.fs, err = headerfs.NewFilterHeaderStore(e.dir, db, headerfs.RegularFilter, &e.params, nil)
	return err
}

func waitFor(d time.Duration, cond func() bool) bool {
	dl := time.Now().Add(d)
	for time.Now().Before(dl) {
		if cond() {
			return true
		}
		time.Sleep(2 * time.Millisecond)
	}
	return cond()
}

func runComp(s *Scn, work string) (fails []c.ImplFailure) {
	o := &Obs{}
	s.Obs = o
	cp := s.Comp
	fail := func(what, tag string) {
		fails = append(fails, c.ImplFailure{Case: fmt.Sprint(s.ID), Step: 0, What: what, Tag: tag})
	}
	dir, err := os.MkdirTemp(work, fmt.Sprintf("c%d-", s.ID))
	if err != nil {
		panic(err)
	}
	e := &compEnv{dir: dir, params: chaincfg.SimNetParams}
	genesis := &e.params.GenesisBlock.Header
	chainA := mineChain(genesis, cp.NA, 0xa)
	fork := genesis
	if cp.NA-cp.Depth > 0 {
		fork = chainA[cp.NA-cp.Depth-1]
	}
	chainB := mineChain(fork, cp.NB, 0xb)
	// a second, still longer branch for the late message, forking one lower
	fork2, d2 := genesis, cp.NA
	if cp.NA-cp.Depth-1 > 0 {
		fork2, d2 = chainA[cp.NA-cp.Depth-2], cp.Depth+1
	}
	chainC := mineChain(fork2, d2+cp.NB+2, 0xc)
	if cp.Variant == "cp" {
		// the header at height NA+2 is checkpointed to something else
		bogus := chainhash.Hash{0xcc}
		e.params.Checkpoints = []chaincfg.Checkpoint{{Height: int32(cp.NA + 2), Hash: &bogus}}
	}
	if err := e.open(); err != nil {
		fail("cannot open stores: "+err.Error(), "setup")
		return
	}
	bm, err := neutrino.VerifC17NewBlockManager(e.params, e.bs, e.fs, blockchain.NewMedianTime())
	if err != nil {
		fail("cannot build block manager: "+err.Error(), "setup")
		return
	}
	fp, err := peer.NewOutboundPeer(&peer.Config{}, "10.9.9.9:18555")
	if err != nil {
		panic(err)
	}
	sp := neutrino.VerifNewServerPeer(fp)
	bm.SetSyncPeer(sp)
	bm.Start()
	bm.SubMgr.Start()

	tipIs := func(h uint32) func() bool {
		return func() bool { _, t, err := e.bs.ChainTip(); return err == nil && t == h }
	}
	// chain A with its filter headers (what the two handlers do during sync)
	bm.QueueHeaders(chainA, sp)
	if !waitFor(10*time.Second, tipIs(uint32(cp.NA))) {
		fail("chain A was not accepted", "setup")
		return
	}
	if cp.CF > 0 {
		gfh, _, err := e.fs.ChainTip()
		if err != nil {
			panic(err)
		}
		msg := &wire.MsgCFHeaders{FilterType: wire.GCSFilterRegular, StopHash: chainA[cp.CF-1].BlockHash(), PrevFilterHeader: *gfh}
		for i := 0; i < cp.CF; i++ {
			fh := chainhash.Hash{0xf1, byte(i), byte(i >> 8)}
			msg.FilterHashes = append(msg.FilterHashes, &fh)
		}
		if _, _, err := bm.WriteCFHeaders(msg); err != nil {
			fail("cannot write filter headers: "+err.Error(), "setup")
			return
		}
	}
	o.Synced = true

	// ChainService.Stop has stopped the subscription manager ...
	bm.SubMgr.Stop()
	// ... when the reorganising message arrives
	switch cp.Variant {
	case "cp":
		// headers NA+1 .. NA+3 extend A; the one at NA+2 fails the checkpoint:
		// roll back to the previous checkpoint (genesis)
		bm.QueueHeaders(mineChain(chainA[cp.NA-1], 3, 0xd), sp)
	default:
		bm.QueueHeaders(chainB, sp)
	}
	// the handler has disconnected the first block and is parked in its notification
	if !waitFor(10*time.Second, func() bool { _, t, err := e.bs.ChainTip(); return err == nil && t < uint32(cp.NA) }) {
		fail("the rollback did not start", "setup")
		return
	}
	time.Sleep(5 * time.Millisecond)
	if cp.Variant == "late" {
		bm.QueueHeaders(chainC, sp)
	}

	// ... and now stops the block manager
	done := make(chan error, 1)
	t0 := time.Now()
	go func() { done <- bm.Stop() }()
	select {
	case <-done:
		o.StopReturned, o.StopMs = true, time.Since(t0).Milliseconds()
	case <-time.After(stopGiveUp):
		o.StopMs = time.Since(t0).Milliseconds()
	}
	select {
	case p := <-bm.Panicked():
		cp.Panic = p
		o.StopReturned = false // a panic inside Stop: the process would be gone
		fail(fmt.Sprintf("the block handler panicked while the block manager was being stopped (%s, %d-block rollback): %s",
			cp.Variant, cp.Depth, p), "panic-in-stop")
	default:
		if !o.StopReturned {
			fail(fmt.Sprintf("blockManager.Stop did not return within %v in the middle of a %d-block rollback (%s)",
				stopGiveUp, cp.Depth, cp.Variant), "stop-hang")
		}
	}
	if !o.StopReturned && cp.Panic == "" {
		return
	}

	// reopen: connected chain of known headers, filter chain not ahead
	if err := e.db.Close(); err != nil {
		o.Reopen.What = "close db: " + err.Error()
		return
	}
	o.ReopenDone = true
	known := map[chainhash.Hash]bool{genesis.BlockHash(): true}
	for _, l := range [][]*wire.BlockHeader{chainA, chainB, chainC} {
		for _, h := range l {
			known[h.BlockHash()] = true
		}
	}
	var r ns.Reopen
	if err := e.open(); err != nil {
		r.What = "reopen: " + err.Error()
	} else {
		r.OpenOK = true
		_, ht, err1 := e.bs.ChainTip()
		_, ft, err2 := e.fs.ChainTip()
		r.HdrTip, r.FTip = int32(ht), int32(ft)
		r.TipsOK = err1 == nil && err2 == nil && ft <= ht
		r.ChainOK, r.FiltersOK = err1 == nil, err2 == nil
		prev := genesis.BlockHash()
		for h := uint32(1); h <= ht && r.ChainOK; h++ {
			hdr, err := e.bs.FetchHeaderByHeight(h)
			if err != nil || hdr.PrevBlock != prev || !known[hdr.BlockHash()] {
				r.ChainOK = false
				r.What = fmt.Sprintf("block header at height %d missing, unknown or not connected", h)
				break
			}
			prev = hdr.BlockHash()
		}
		for h := uint32(0); h <= ft && r.FiltersOK; h++ {
			if _, err := e.fs.FetchHeaderByHeight(h); err != nil {
				r.FiltersOK = false
				r.What = fmt.Sprintf("filter header at height %d missing", h)
			}
		}
		e.db.Close()
	}
	o.Reopen = r
	os.RemoveAll(dir)
	return
}

// compCorpus: the deterministic family, run in every tier.
func compCorpus(seed, tip int64, firstID int) []Scn {
	var out []Scn
	id := firstID
	add := func(variant string, na, depth, nb, cf, copies int) {
		for i := 0; i < copies; i++ {
			out = append(out, Scn{ID: id, Seed: seed, TipUnix: tip, Phase: "comp",
				Comp: &Comp{Variant: variant, NA: na, Depth: depth, NB: nb, CF: cf}})
			id++
		}
	}
	add("mid", 6, 1, 3, 6, 1)
	add("mid", 6, 2, 4, 6, 1)
	add("mid", 8, 5, 7, 8, 1)
	add("mid", 8, 8, 10, 4, 1) // down to genesis, filter headers only half way
	add("mid", 6, 3, 5, 0, 1)  // no filter headers yet
	// the handler's select chooses between the queued message and b.quit:
	// several copies so that the message is taken after quit in some of them
	add("late", 6, 1, 3, 6, 4)
	add("late", 7, 2, 4, 7, 4)
	add("cp", 5, 5, 0, 5, 1)
	add("cp", 4, 4, 0, 2, 1)
	return out
}
