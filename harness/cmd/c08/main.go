// Correspondence harness for C08: crash images of the real headerfs stores.
// Every mutating store operation of a generated well-formed history is run
// with hooks that snapshot the data directory (two flat files + the bbolt
// file as of its last commit) after each durable step, and - inside a file
// append - with only a prefix of the bytes written.  Each image is reopened
// with the real constructors, dumped, and extended by a follow-up append.
package main

import (
	"fmt"
	"math/rand"
	"os"
	"path/filepath"
	"strings"
	"sync"

	c "verifharness/internal/common"
	"verifharness/internal/storeh"
)

type Op = storeh.Op

type Case struct {
	ID     int     `json:"id"`
	Prefix []Op    `json:"prefix"`
	Cop    Op      `json:"cop"`
	K      int     `json:"k"`
	Torn   int64   `json:"torn"` // -1 = none
	Kinds  []int64 `json:"kinds"`
	Post   []Op    `json:"post"`
}

type History struct {
	ID    int    `json:"id"`
	Ops   []Op   `json:"ops"`   // the generated history (for -replay)
	Cases []Case `json:"cases"` // crash cases derived from it
	// start-up paths: first start on an empty directory (no Ops), header
	// state assertions on the final state of Ops
	FirstStart bool         `json:"first_start,omitempty"`
	ViaCS      bool         `json:"via_chain_service,omitempty"` // first start through neutrino.NewChainService
	Startup    *StartupSpec `json:"startup,omitempty"`
	SCases     []SCase      `json:"scases,omitempty"`
}

func isMut(k string) bool {
	return k == "bwrite" || k == "fwrite" || k == "brollback" || k == "frollback"
}

// evalImage reopens the stores on a crash image and produces the post trace.
func evalImage(dir string, pool *storeh.Pool, followTok int64, probe []int64) []Op {
	post := []Op{{Kind: "reopen", WF: true}}
	opened, rest := evalImageA(dir, pool, followTok, nil, probe...)
	if !opened {
		post[0].Obs = "(OReopen false)"
		return post
	}
	post[0].Obs = "(OReopen true)"
	return append(post, rest...)
}

// probeToks samples hash tokens of the interrupted operation's entries: after
// recovery each is either stored at its height or unknown to the index (an
// index commit split into several transactions would leave orphans).
func probeToks(op *Op) []int64 {
	if op.Kind != "bwrite" || len(op.Es) == 0 {
		return nil
	}
	n := len(op.Es)
	seen := map[int]bool{}
	var out []int64
	for _, i := range []int{0, n / 3, n / 2, 999, 1000, 1001, 1999, 2000, 2001, 4095, 4096, n - 2, n - 1} {
		if i >= 0 && i < n && !seen[i] {
			seen[i] = true
			out = append(out, op.Es[i].A)
		}
	}
	return out
}

func appendBytes(path string, data []byte) {
	f, err := os.OpenFile(path, os.O_WRONLY|os.O_APPEND, 0o644)
	if err != nil {
		panic(err)
	}
	f.Write(data)
	f.Close()
}

func runHistory(id int, seed int64, nops int, nTrig int, base string, pool *storeh.Pool, replay *History) History {
	if replay != nil && replay.FirstStart && replay.ViaCS {
		return runFirstStartCS(id, seed, base, pool, replay)
	}
	if replay != nil && replay.FirstStart {
		return runFirstStart(id, seed, base, pool, replay)
	}
	tmpl, err := storeh.Template(base)
	if err != nil {
		panic(err)
	}
	dir := filepath.Join(base, fmt.Sprintf("h%d", id))
	os.RemoveAll(dir)
	if err := storeh.CopyDir(tmpl, dir); err != nil {
		panic(err)
	}
	defer os.RemoveAll(dir)
	e := &storeh.Env{Dir: dir, Pool: pool}
	if err := e.Open(); err != nil {
		panic(err)
	}
	defer func() { e.Close() }()
	h := History{ID: id}
	r := c.Rng(seed, id)
	g := &storeh.Gen{R: r, E: e, Used: map[int64]bool{}, MaxTok: 560}
	g.Resync()
	nimg := 0
	step := 0
	broken := false
	nsample := 0
	ra := rand.New(rand.NewSource(seed*7907 + int64(id)*7349 + 11)) // assertions on crash images (own stream: the histories stay as they were)
	for {
		var op Op
		if replay != nil {
			if step >= len(replay.Ops) {
				break
			}
			op = replay.Ops[step]
			op.Obs = ""
		} else {
			if step >= nops {
				break
			}
			op = g.Next(false)
			op.Fault, op.K = "", 0
			if !op.WF {
				op = Op{Kind: "qbtip", WF: true}
			}
		}
		step++
		if !isMut(op.Kind) {
			ok := e.Exec(&op)
			h.Ops = append(h.Ops, op)
			if !ok {
				broken = true
				break
			}
			continue
		}
		// mutating op: record durable steps, snapshot after each
		type img struct {
			k    int
			torn int64
			dir  string
		}
		var imgs []img
		var kinds []int64
		nsteps := 0
		snap := func(k int, torn int64, file string, data []byte) {
			d := filepath.Join(base, fmt.Sprintf("img-%d-%d", id, nimg))
			nimg++
			os.RemoveAll(d)
			if err := storeh.CopyDir(dir, d); err != nil {
				panic(err)
			}
			if data != nil {
				name := "block_headers.bin"
				if file == "filter" {
					name = "reg_filter_headers.bin"
				}
				appendBytes(filepath.Join(d, name), data)
			}
			imgs = append(imgs, img{k, torn, d})
		}
		onStep := func(file, kind string, arg int64) {
			nsteps++
			switch {
			case kind == "append" && file == "block":
				kinds = append(kinds, 1)
			case kind == "append":
				kinds = append(kinds, 2)
			case kind == "truncate" && file == "block":
				kinds = append(kinds, 3)
			case kind == "truncate":
				kinds = append(kinds, 4)
			}
			snap(nsteps, -1, "", nil)
		}
		beforeWrite := func(file string, data []byte) {
			if len(data) == 0 {
				return
			}
			esz := int64(80)
			if file == "filter" {
				esz = 32
			}
			n := int64(len(data)) / esz
			// torn length classes: partial first entry; q whole entries;
			// q whole entries + a partial one
			var lens []int64
			lens = append(lens, 1+r.Int63n(esz-1))
			if n >= 2 {
				q := 1 + r.Int63n(n-1)
				lens = append(lens, q*esz, q*esz+1+r.Int63n(esz-1))
			}
			for _, b := range lens {
				snap(nsteps, b, file, data[:b])
			}
		}
		e.BF.OnStep, e.FF.OnStep = onStep, onStep
		e.BF.BeforeWrite, e.FF.BeforeWrite = beforeWrite, beforeWrite
		e.DB.OnCommit = func() {
			nsteps++
			kinds = append(kinds, 5)
			snap(nsteps, -1, "", nil)
		}
		prefix := append([]Op{}, h.Ops...)
		small := len(pool.Headers) <= 1000
		var ftoksBefore []int64
		if small {
			ftoksBefore = filterTokens(e, pool)
		}
		ok := e.Exec(&op)
		e.BF.OnStep, e.FF.OnStep, e.BF.BeforeWrite, e.FF.BeforeWrite, e.DB.OnCommit = nil, nil, nil, nil, nil
		for _, im := range imgs {
			if im.torn < 0 && im.k >= nsteps {
				os.RemoveAll(im.dir) // complete operation: not a crash point
				continue
			}
			ftok := 561 + int64(len(h.Cases)%30)
			if ftok == pool.Genesis {
				ftok = 595 // never hand the genesis header itself to the follow-up append
			}
			if len(pool.Headers) > 1000 {
				ftok = 5000 + int64(len(h.Cases)%30) // the big pool's batch uses the low tokens
				if ftok == pool.Genesis {
					ftok = 5050
				}
			}
			// a sample of the images (every filter-append image, a third of
			// the others) is reopened a second time WITH a header state
			// assertion that must not trigger: the stored value at a height
			// both the before and the after state hold, or a height beyond
			// the file
			var adir string
			if small && len(ftoksBefore) > 0 && (op.Kind == "fwrite" || nsample%3 == 0) {
				adir = im.dir + "-a"
				os.RemoveAll(adir)
				if err := storeh.CopyDir(im.dir, adir); err != nil {
					panic(err)
				}
			}
			nsample++
			post := evalImage(im.dir, pool, ftok, probeToks(&op))
			os.RemoveAll(im.dir)
			if adir != "" {
				keep := int64(len(ftoksBefore))
				if op.Kind == "frollback" && keep > 1 {
					keep--
				}
				var as Assertion
				if ra.Intn(3) == 0 {
					as = Assertion{int64(len(ftoksBefore)) + int64(len(op.Es)) + 1 + ra.Int63n(3), 1999999}
				} else {
					hh := ra.Int63n(keep)
					if ra.Intn(2) == 0 {
						hh = keep - 1 // the last entry every outcome keeps
					}
					as = Assertion{hh, ftoksBefore[hh]}
				}
				opened, apost := evalImageA(adir, pool, ftok, &as, probeToks(&op)...)
				os.RemoveAll(adir)
				cop := op
				h.SCases = append(h.SCases, SCase{
					ID: id*1000 + 500 + len(h.SCases), Kind: 4, AH: as.H, AV: as.V, K: im.k, Torn: im.torn, With: true,
					Kinds: append([]int64{}, kinds...), Opened: opened, Post: apost, Real: true, NP: len(prefix), Cop: &cop,
				})
			}
			h.Cases = append(h.Cases, Case{
				ID: id*1000 + len(h.Cases), Prefix: prefix, Cop: op, K: im.k, Torn: im.torn,
				Kinds: append([]int64{}, kinds...), Post: post,
			})
		}
		h.Ops = append(h.Ops, op)
		if !ok {
			broken = true
			break
		}
		g.Resync()
	}
	if !broken && nTrig > 0 {
		// header state assertions on the final state
		ftoks := filterTokens(e, pool)
		g.Resync()
		btoks := append([]int64{}, g.Chain...)
		e.Close()
		lostTailCases(&h, base, dir, pool, btoks, ftoks)
		startupCases(&h, seed, base, dir, pool, ftoks, nTrig, replay)
	}
	return h
}

func trace(ops []Op) string {
	it := make([]string, len(ops))
	for i := range ops {
		it[i] = c.Pair(storeh.OpTerm(&ops[i]), ops[i].Obs)
	}
	return c.List(it)
}

func main() {
	a := c.ParseArgs()
	rep := c.NewReport("C08", a)
	base := filepath.Join(a.Out, "stores")
	os.MkdirAll(base, 0o755)
	defer os.RemoveAll(base)
	gf, err := storeh.ProbeGenesisFilter(base)
	if err != nil {
		panic(err)
	}
	pool := storeh.NewPool(600, gf)

	n, nops, nTrig := 24, 14, 1
	if a.Tier == "thorough" {
		n, nops, nTrig = 400, 20, 2
	}
	firstStart := &History{ID: 800, FirstStart: true}
	// one append of a whole headers message (more entries than any internal
	// chunking would use), over its own, larger header pool
	const bigID, bigN = 850, 4500
	var bigPool *storeh.Pool
	var bigHist *History
	var replay *History
	var corpus []History
	if a.Replay != "" {
		var h History
		c.ReadJSON(a.Replay, &h)
		replay = &h
		n = 1
	} else {
		files, _ := filepath.Glob("../corpus/C08/*.json")
		for _, f := range files {
			var h History
			c.ReadJSON(f, &h)
			corpus = append(corpus, h)
		}
		corpus = append(corpus, *firstStart, History{ID: 801, FirstStart: true, ViaCS: true})
		n += len(corpus)
		bigPool = storeh.NewPool(5200, gf)
		bh := History{ID: bigID}
		op := Op{Kind: "bwrite", WF: true}
		for t, ht := int64(1), int64(1); ht <= bigN; t++ {
			if t == bigPool.Genesis {
				continue
			}
			op.Es = append(op.Es, storeh.Ent{A: t, B: ht})
			ht++
		}
		// ... and the filter headers of the same blocks, again in one call
		// (header import writes batches of this size to both stores)
		fop := Op{Kind: "fwrite", WF: true}
		for i, en := range op.Es[:2500] {
			fop.Es = append(fop.Es, storeh.Ent{A: storeh.FilterBase + 1 + int64(i)%int64(len(bigPool.Filters)-1), B: en.A})
		}
		bh.Ops = []Op{op, fop}
		bigHist = &bh
	}
	hs := make([]History, n)
	var wg sync.WaitGroup
	sem := make(chan struct{}, a.Workers)
	for i := 0; i < n; i++ {
		wg.Add(1)
		sem <- struct{}{}
		go func(i int) {
			defer wg.Done()
			defer func() { <-sem }()
			id, rp := i, replay
			if replay != nil {
				id = replay.ID
			} else if i >= n-len(corpus) {
				rp = &corpus[i-(n-len(corpus))]
				id = rp.ID
			}
			hs[i] = runHistory(id, a.Seed, nops, nTrig, base, pool, rp)
		}(i)
	}
	wg.Wait()
	var big History
	if bigHist != nil {
		big = runHistory(bigID, a.Seed, 2, 0, base, bigPool, bigHist)
	}

	var all []Case
	owner := map[int]int{}
	for i := range hs {
		for _, cs := range hs[i].Cases {
			owner[cs.ID] = i
			all = append(all, cs)
		}
	}
	const perShard = 120
	shard := 0
	distinct := c.Signatures{}
	if len(big.Cases) > 0 {
		// the big-batch cases use the big pool's tokens: their own files
		// (two cases per file: the files are evaluated in parallel)
		for part := 0; part*2 < len(big.Cases); part++ {
			var sb strings.Builder
			sb.WriteString("From Coq Require Import ZArith List.\nFrom Verif Require Import S1.Model C08.Model C08.Replay.\nImport ListNotations.\nOpen Scope Z_scope.\n")
			sb.WriteString(fmt.Sprintf("Definition genesis : Z := %d.\nDefinition gfh : Z := %d.\n", bigPool.Genesis, bigPool.GenesisFilter))
			sb.WriteString("Definition cases : list ccase := [\n")
			for i := part * 2; i < part*2+2 && i < len(big.Cases); i++ {
				cs := &big.Cases[i]
				if i > part*2 {
					sb.WriteString(";\n")
				}
				torn := "None"
				if cs.Torn >= 0 {
					torn = c.Some(c.Z(cs.Torn))
				}
				sb.WriteString(fmt.Sprintf("{| cid := %d; prefix := %s; cop := %s; ck := %d; ctorn := %s; ckinds := %s; post := %s |}",
					cs.ID, trace(cs.Prefix), storeh.OpTerm(&cs.Cop), cs.K, torn, c.Ints(cs.Kinds), trace(cs.Post)))
			}
			sb.WriteString("].\nDefinition R := Eval vm_compute in (run_cases genesis gfh cases).\nSet Printing Width 1000000.\nSet Printing Depth 1000000.\nPrint R.\n")
			c.WriteFile(filepath.Join(a.Out, fmt.Sprintf("cases_big%d.v", part)), sb.String())
		}
		p := filepath.Join(a.Out, fmt.Sprintf("hist-%d.json", big.ID))
		c.WriteJSON(p, big)
		for _, cs := range big.Cases {
			rep.Cases[fmt.Sprint(cs.ID)] = p
			rep.Histogram["crash:bwrite:whole-headers-message"]++
		}
	}
	for start := 0; start < len(all); start += perShard {
		end := start + perShard
		if end > len(all) {
			end = len(all)
		}
		var sb strings.Builder
		sb.WriteString("From Coq Require Import ZArith List.\nFrom Verif Require Import S1.Model C08.Model C08.Replay.\nImport ListNotations.\nOpen Scope Z_scope.\n")
		sb.WriteString(fmt.Sprintf("Definition genesis : Z := %d.\nDefinition gfh : Z := %d.\n", pool.Genesis, pool.GenesisFilter))
		sb.WriteString("Definition cases : list ccase := [\n")
		for i := start; i < end; i++ {
			cs := &all[i]
			if i > start {
				sb.WriteString(";\n")
			}
			torn := "None"
			if cs.Torn >= 0 {
				torn = c.Some(c.Z(cs.Torn))
			}
			sb.WriteString(fmt.Sprintf("{| cid := %d; prefix := %s; cop := %s; ck := %d; ctorn := %s; ckinds := %s; post := %s |}",
				cs.ID, trace(cs.Prefix), storeh.OpTerm(&cs.Cop), cs.K, torn, c.Ints(cs.Kinds), trace(cs.Post)))
		}
		sb.WriteString("].\nDefinition R := Eval vm_compute in (run_cases genesis gfh cases).\nSet Printing Width 1000000.\nSet Printing Depth 1000000.\nPrint R.\n")
		c.WriteFile(filepath.Join(a.Out, fmt.Sprintf("cases_%d.v", shard)), sb.String())
		shard++
	}
	// start-up cases (first start, header state assertions)
	type sref struct {
		h  int
		cs *SCase
	}
	var sall []sref
	for i := range hs {
		for j := range hs[i].SCases {
			sall = append(sall, sref{i, &hs[i].SCases[j]})
		}
	}
	const perSShard = 100
	for start, sh := 0, 0; start < len(sall); start, sh = start+perSShard, sh+1 {
		end := start + perSShard
		if end > len(sall) {
			end = len(sall)
		}
		var sb strings.Builder
		sb.WriteString("From Coq Require Import ZArith List.\nFrom Verif Require Import S1.Model C08.Model C08.Replay.\nImport ListNotations.\nOpen Scope Z_scope.\n")
		sb.WriteString(fmt.Sprintf("Definition genesis : Z := %d.\nDefinition gfh : Z := %d.\n", pool.Genesis, pool.GenesisFilter))
		sb.WriteString("Definition cases : list scase := [\n")
		for i := start; i < end; i++ {
			if i > start {
				sb.WriteString(";\n")
			}
			sb.WriteString(scaseTerm(sall[i].cs, hs[sall[i].h].Ops))
		}
		sb.WriteString("].\nDefinition R := Eval vm_compute in (run_scases genesis gfh cases).\nSet Printing Width 1000000.\nSet Printing Depth 1000000.\nPrint R.\n")
		c.WriteFile(filepath.Join(a.Out, fmt.Sprintf("cases_s%d.v", sh)), sb.String())
	}
	for i := range hs {
		p := filepath.Join(a.Out, fmt.Sprintf("hist-%d.json", hs[i].ID))
		c.WriteJSON(p, hs[i])
		for _, cs := range hs[i].SCases {
			rep.Cases[fmt.Sprint(cs.ID)] = p
			cls := fmt.Sprintf("k%d", cs.K)
			if cs.Torn >= 0 {
				cls += "+torn"
			}
			var key string
			switch cs.Kind {
			case 0:
				key = fmt.Sprintf("startup:first:filter=%v:%s", cs.Filter, cls)
			case 3:
				key = fmt.Sprintf("startup:first-chainservice:%s", cls)
			case 5, 6:
				key = fmt.Sprintf("lost-tail:%s:partial=%v", map[int]string{5: "block", 6: "filter"}[cs.Kind], cs.K%map[int]int{5: 80, 6: 32}[cs.Kind] != 0)
			case 4:
				hc := "stored-value"
				if cs.AV == 1999999 {
					hc = "beyond-file"
				}
				key = fmt.Sprintf("crash+assertion:%s:%s:%s", cs.Cop.Kind, hc, cls)
			case 1:
				hc := "mid"
				if cs.AH == 0 {
					hc = "genesis"
				}
				key = fmt.Sprintf("startup:reset:%s:with=%v:%s", hc, cs.With, cls)
			default:
				key = "startup:assertion-not-triggering"
			}
			rep.Histogram[key]++
			distinct.Add(key)
			if !cs.Opened {
				rep.Histogram["startup_open_failed"]++
			}
		}
		for _, cs := range hs[i].Cases {
			rep.Cases[fmt.Sprint(cs.ID)] = p
			cls := "step-boundary"
			if cs.Torn >= 0 {
				esz := int64(80)
				if cs.Cop.Kind == "fwrite" {
					esz = 32
				}
				if cs.Torn%esz == 0 {
					cls = "torn-whole-entries"
				} else if cs.Torn < esz {
					cls = "torn-partial-first"
				} else {
					cls = "torn-whole+partial"
				}
			}
			rep.Histogram["crash:"+cs.Cop.Kind+":"+cls]++
			distinct.Add(fmt.Sprintf("%s/%s/%d/%d", cs.Cop.Kind, cls, len(cs.Cop.Es), cs.Cop.N))
			if cs.Post[0].Obs == "(OReopen false)" {
				rep.Histogram["reopen_failed"]++
			}
		}
	}
	rep.Evaluations = len(all) + len(sall) + len(big.Cases)
	rep.DistinctNontrivial = len(distinct)
	rep.Rule = "crash images of the real stores: for every mutating operation (block/filter append of 1..17 entries, single/multi-header block rollback, filter rollback) of generated well-formed histories, one image after each durable step that is not the last, and three torn-append images per file write (partial first entry, q whole entries, q whole + partial); each image is reopened with NewBlockHeaderStore/NewFilterHeaderStore, dumped and extended by a follow-up append; every image is non-trivial (a crash inside a multi-step operation); distinct = distinct (operation, crash class, batch size, rollback depth). Start-up paths: one first start on an empty directory (NewBlockHeaderStore, NewFilterHeaderStore) with the directory snapshotted at every index commit and the images between commits assembled from the bbolt file of the earlier commit and a prefix of the bytes the code wrote; on every history's final state a NewFilterHeaderStore with a header state assertion that triggers the reset, snapshotted/assembled the same way, every image reopened WITH and WITHOUT the assertion; plus four assertions that must not trigger (height beyond the file, stored value, genesis entry, largest height)"
	for i := 0; i < len(all) && i < 3; i++ {
		rep.Samples = append(rep.Samples, all[i])
	}
	rep.Write(a.Out)
}
