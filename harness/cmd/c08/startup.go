// Start-up paths of the header stores (C08): crash images of the very first
// start on an empty directory, and of the filter header state reset that a
// header state assertion triggers in NewFilterHeaderStore.
//
// The constructors open their flat files themselves, so the file wrapper of
// the other crash images cannot be installed before the genesis write.  What
// IS real: the constructors run on the real directory with the DB wrapper,
// and the directory (flat files + bbolt file) is snapshotted at every
// committed index transaction.  The durable steps the code performed are
// derived from consecutive snapshots (file grew = append, file shrank =
// truncate, file replaced by a new one = removed, transaction with index
// writes = index step).  Images BETWEEN two commits are built from those
// pieces: the bbolt file as of the earlier commit, the flat file with the
// first b bytes of what the code went on to write (or removed).
package main

import (
	"fmt"
	"math/rand"
	"os"
	"path/filepath"

	"github.com/btcsuite/btcwallet/walletdb"
	"github.com/lightninglabs/neutrino"
	"github.com/lightninglabs/neutrino/headerfs"

	c "verifharness/internal/common"
	"verifharness/internal/storeh"
)

type Assertion struct {
	H int64 `json:"h"`
	V int64 `json:"v"` // filter header token
}

// StartupSpec fixes the random choices of the start-up cases of a history
// (stored with the history so that -replay reproduces them).
type StartupSpec struct {
	Asserts []Assertion `json:"asserts"` // assertions that trigger the reset
	Plain   []Assertion `json:"plain"`   // assertions that must not trigger
	Torn    []int64     `json:"torn"`    // torn lengths of a genesis append (per append, by position)
}

type SCase struct {
	ID     int     `json:"id"`
	Kind   int     `json:"kind"` // 0 first start, 1 reset crash image, 2 assertion that must not trigger
	Filter bool    `json:"filter,omitempty"`
	AH     int64   `json:"ah"` // asserted height; -1 = no assertion
	AV     int64   `json:"av"`
	K      int     `json:"k"`
	Torn   int64   `json:"torn"` // -1 = none
	With   bool    `json:"with"` // the image is reopened WITH the assertion
	Kinds  []int64 `json:"kinds"`
	Opened bool    `json:"opened"`
	Post   []Op    `json:"post"`
	Real   bool    `json:"real"` // the image is a snapshot taken at a commit (not assembled)
	// kind 4: an ordinary crash image (after the first NP ops of the history,
	// inside Cop) reopened with an assertion that must not trigger
	NP  int `json:"np,omitempty"`
	Cop *Op `json:"cop,omitempty"`
}

const (
	blockFile  = "block_headers.bin"
	filterFile = "reg_filter_headers.bin"
)

type snapshot struct {
	obs    storeh.DirObs
	dir    string
	writes int
}

type observer struct {
	base  string
	tag   string
	work  string
	n     int
	snaps []snapshot
	held  []*os.File
}

func (o *observer) newDir(kind string) string {
	d := filepath.Join(o.base, fmt.Sprintf("%s-%s-%d", kind, o.tag, o.n))
	o.n++
	os.RemoveAll(d)
	return d
}

// hold keeps the present flat files open, so that their inode numbers cannot
// be handed to files created while the constructor runs.
func (o *observer) hold() {
	for _, n := range []string{blockFile, filterFile} {
		if f, err := os.Open(filepath.Join(o.work, n)); err == nil {
			o.held = append(o.held, f)
		}
	}
}

func (o *observer) release() {
	for _, f := range o.held {
		f.Close()
	}
	o.held = nil
}

func (o *observer) snap(writes int) {
	d := o.newDir("snap")
	if err := storeh.CopyDir(o.work, d); err != nil {
		panic(err)
	}
	o.snaps = append(o.snaps, snapshot{obs: storeh.ObserveDir(o.work), dir: d, writes: writes})
}

func (o *observer) cleanup() {
	for _, s := range o.snaps {
		os.RemoveAll(s.dir)
	}
}

type dstep struct {
	kind     int64 // 1 append block, 2 append filter, 3 truncate block, 4 truncate filter, 5 index transaction, 6 filter file removed
	from, to int64 // file sizes (file steps)
	src      int   // snapshot that shows the result of the step
	last     bool  // last step derived from its interval
}

func nz(v int64) int64 {
	if v < 0 {
		return 0
	}
	return v
}

// derive lists the durable steps between consecutive snapshots: file steps
// first, then the index transaction that ended the interval.
func derive(snaps []snapshot, all bool) []dstep {
	var out []dstep
	for i := 1; i < len(snaps); i++ {
		p, cu := snaps[i-1].obs, snaps[i].obs
		n0 := len(out)
		ps, cs := nz(p.BSize), nz(cu.BSize)
		if cs > ps {
			out = append(out, dstep{kind: 1, from: ps, to: cs, src: i})
		} else if cs < ps {
			out = append(out, dstep{kind: 3, from: ps, to: cs, src: i})
		}
		ps, cs = nz(p.FSize), nz(cu.FSize)
		if p.FSize >= 0 && (cu.FSize < 0 || cu.FIno != p.FIno) {
			out = append(out, dstep{kind: 6, from: ps, to: 0, src: i})
			ps = 0
		}
		if cs > ps {
			out = append(out, dstep{kind: 2, from: ps, to: cs, src: i})
		} else if cs < ps {
			out = append(out, dstep{kind: 4, from: ps, to: cs, src: i})
		}
		if snaps[i].writes > 0 {
			out = append(out, dstep{kind: 5, src: i})
		}
		if len(out) > n0 {
			out[len(out)-1].last = true
		} else if all && i < len(snaps)-1 {
			// a commit that is no durable step of the stores (bucket
			// creation): the directory at that moment is an image all the same
			out = append(out, dstep{kind: 0, src: i})
		}
	}
	return out
}

type simage struct {
	k    int
	torn int64
	dir  string
	real bool
}

func readRange(path string, from, to int64) []byte {
	data, err := os.ReadFile(path)
	if err != nil || int64(len(data)) < to {
		panic(fmt.Sprintf("readRange %s [%d,%d): %v (len %d)", path, from, to, err, len(data)))
	}
	return data[from:to]
}

func appendOrCreate(path string, data []byte) {
	f, err := os.OpenFile(path, os.O_WRONLY|os.O_APPEND|os.O_CREATE, 0o644)
	if err != nil {
		panic(err)
	}
	f.Write(data)
	f.Close()
}

// images materialises one crash image per step boundary plus the torn
// images of every append.  tornFor(i, esz) gives the torn lengths of the
// i-th append.
func (o *observer) images(steps []dstep, tornFor func(i int, esz int64) []int64) []simage {
	var out []simage
	cp := func(src string) string {
		d := o.newDir("simg")
		if err := storeh.CopyDir(src, d); err != nil {
			panic(err)
		}
		return d
	}
	cur := cp(o.snaps[0].dir)
	out = append(out, simage{0, -1, cp(cur), true})
	napp := 0
	j := -1
	for _, st := range steps {
		if st.kind == 0 {
			out = append(out, simage{j + 1, -1, cp(o.snaps[st.src].dir), true})
			continue
		}
		j++
		name := filterFile
		esz := int64(32)
		if st.kind == 1 || st.kind == 3 {
			name, esz = blockFile, 80
		}
		switch st.kind {
		case 1, 2:
			data := readRange(filepath.Join(o.snaps[st.src].dir, name), st.from, st.to)
			for _, b := range tornFor(napp, esz) {
				if b <= 0 || b >= int64(len(data)) {
					continue
				}
				d := cp(cur)
				appendOrCreate(filepath.Join(d, name), data[:b])
				out = append(out, simage{j, b, d, false})
			}
			napp++
			appendOrCreate(filepath.Join(cur, name), data)
		case 3, 4:
			if err := os.Truncate(filepath.Join(cur, name), st.to); err != nil {
				panic(err)
			}
		case 6:
			os.Remove(filepath.Join(cur, name))
		case 5:
			os.RemoveAll(cur)
			cur = cp(o.snaps[st.src].dir)
		}
		out = append(out, simage{j + 1, -1, cp(cur), st.kind == 5})
		if st.last && st.kind != 5 {
			// the directory as the code left it at the commit that ended the
			// interval (e.g. the removed file created again, empty)
			out = append(out, simage{j + 1, -1, cp(o.snaps[st.src].dir), true})
		}
	}
	os.RemoveAll(cur)
	return out
}

func kindsOf(steps []dstep) []int64 {
	out := []int64{}
	for _, s := range steps {
		if s.kind != 0 {
			out = append(out, s.kind)
		}
	}
	return out
}

func (a *Assertion) header(pool *storeh.Pool) *headerfs.FilterHeader {
	if a == nil {
		return nil
	}
	return &headerfs.FilterHeader{FilterHash: pool.Filter(a.V), Height: uint32(a.H)}
}

// evalImageA opens the stores on an image (the filter store with the given
// assertion, if any), dumps them and appends a follow-up header.
func evalImageA(dir string, pool *storeh.Pool, followTok int64, as *Assertion, probe ...int64) (bool, []Op) {
	e := &storeh.Env{Dir: dir, Pool: pool, Assert: as.header(pool)}
	if err := e.Open(); err != nil {
		return false, []Op{}
	}
	e.Assert = nil
	defer e.Close()
	return true, dumpFollow(e, pool, followTok, probe...)
}

// dumpFollow dumps the open stores of e and appends the follow-up header.
func dumpFollow(e *storeh.Env, pool *storeh.Pool, followTok int64, probe ...int64) []Op {
	g := &storeh.Gen{E: e, Used: map[int64]bool{}}
	g.Resync()
	ops := storeh.FullDump(g)
	if len(g.Chain) > 400 {
		ops = lightDump(g)
	}
	for _, t := range probe {
		ops = append(ops, Op{Kind: "qheightof", X: t, WF: true}, Op{Kind: "qbhash", X: t, WF: true})
	}
	// follow-up: syncing resumes - append one block header at tip+1, read it
	// back, append a filter header if the filter chain is behind
	if _, tip, err := e.BS.ChainTip(); err == nil {
		ops = append(ops,
			Op{Kind: "bwrite", Es: []storeh.Ent{{A: followTok, B: int64(tip) + 1}}, WF: true},
			Op{Kind: "qbheight", N: int64(tip) + 1, WF: true},
			Op{Kind: "qbtip", WF: true},
			Op{Kind: "qheightof", X: followTok, WF: true})
		if _, ft, err := e.FS.ChainTip(); err == nil && ft < tip {
			if h, err := e.BS.FetchHeaderByHeight(ft + 1); err == nil {
				ops = append(ops,
					Op{Kind: "fwrite", Es: []storeh.Ent{{A: storeh.FilterBase + 599, B: pool.HTok(h)}}, WF: true},
					Op{Kind: "qftip", WF: true})
			}
		}
	}
	post := []Op{}
	for i := range ops {
		e.Exec(&ops[i])
		post = append(post, ops[i])
	}
	return post
}

func init() { neutrino.DisableDNSSeed = true }

// chainServiceCfg is the configuration of a ChainService that is constructed
// but never started: no peers, no DNS seeds, nothing persisted besides what
// NewChainService itself creates.
func chainServiceCfg(dir string, db walletdb.DB) neutrino.Config {
	return neutrino.Config{DataDir: dir, Database: db, ChainParams: *storeh.Params}
}

// closeChainService releases what a constructed, never started ChainService
// holds open (the two flat files).
func closeChainService(cs *neutrino.ChainService) {
	if cs.BlockHeaders != nil {
		headerfs.VerifCloseBlockFile(cs.BlockHeaders)
	}
	if cs.RegFilterHeaders != nil {
		headerfs.VerifCloseFilterFile(cs.RegFilterHeaders)
	}
}

// evalImageCS reopens an image through neutrino.NewChainService, dumps both
// header stores through the service's own handles and appends the follow-up
// header.
func evalImageCS(dir string, pool *storeh.Pool, followTok int64) (bool, []Op) {
	raw, err := storeh.OpenDB(dir)
	if err != nil {
		return false, []Op{}
	}
	defer raw.Close()
	fdb := &storeh.FDB{DB: raw}
	cs, err := neutrino.NewChainService(chainServiceCfg(dir, fdb))
	if err != nil {
		// a constructor that failed half-way leaves its files open; they
		// go away with the process
		return false, []Op{}
	}
	e := &storeh.Env{Dir: dir, Pool: pool}
	e.Adopt(fdb, cs.BlockHeaders, cs.RegFilterHeaders)
	post := dumpFollow(e, pool, followTok)
	closeChainService(cs)
	return true, post
}

// lightDump pins down a long chain at its ends and a few heights in between
// (the full dump of thousands of entries would dominate the replay).
func lightDump(g *storeh.Gen) []Op {
	ops := []Op{{Kind: "qbtip", WF: true}, {Kind: "qftip", WF: true}}
	n := int64(len(g.Chain))
	for _, h := range []int64{0, 1, 2, n / 2, 999, 1000, 1001, 1999, 2000, 2001, 4096, n - 2, n - 1, n, n + 1} {
		if h < 0 {
			continue
		}
		ops = append(ops, Op{Kind: "qbheight", N: h, WF: true}, Op{Kind: "qfheight", N: h, WF: true})
		if h < n {
			ops = append(ops, Op{Kind: "qheightof", X: g.Chain[h], WF: true})
		}
	}
	return ops
}

func followTok(pool *storeh.Pool, n int) int64 {
	t := 561 + int64(n%30)
	if t == pool.Genesis {
		t = 595 // never hand the genesis header itself to the follow-up append
	}
	return t
}

// tornList hands out two torn lengths per append (a random one and entry
// size - 1), recording them in the spec; on replay it hands the recorded
// ones out again in the same order.
func tornList(spec *StartupSpec, replay bool, r *rand.Rand) func(i int, esz int64) []int64 {
	next := 0
	return func(_ int, esz int64) []int64 {
		if replay {
			if next+1 < len(spec.Torn) {
				l := spec.Torn[next : next+2]
				next += 2
				return l
			}
			return nil
		}
		l := []int64{1 + r.Int63n(esz-1), esz - 1}
		spec.Torn = append(spec.Torn, l...)
		return l
	}
}

// ---------------------------------------------------------------------
// First start on an empty directory.

func runFirstStart(id int, seed int64, base string, pool *storeh.Pool, replay *History) History {
	h := History{ID: id, FirstStart: true, Startup: &StartupSpec{}}
	if replay != nil && replay.Startup != nil {
		h.Startup = replay.Startup
	}
	r := c.Rng(seed, id)
	work := filepath.Join(base, fmt.Sprintf("first-%d", id))
	os.RemoveAll(work)
	if err := os.MkdirAll(work, 0o755); err != nil {
		panic(err)
	}
	defer os.RemoveAll(work)
	raw, err := storeh.OpenDB(work)
	if err != nil {
		panic(err)
	}
	fdb := &storeh.FDB{DB: raw}
	torn := tornList(h.Startup, replay != nil && replay.Startup != nil, r)

	emit := func(filter bool, o *observer) {
		steps := derive(o.snaps, true)
		kinds := kindsOf(steps)
		for _, im := range o.images(steps, torn) {
			opened, post := evalImageA(im.dir, pool, followTok(pool, len(h.SCases)), nil)
			os.RemoveAll(im.dir)
			h.SCases = append(h.SCases, SCase{
				ID: id*1000 + 500 + len(h.SCases), Kind: 0, Filter: filter, AH: -1, K: im.k, Torn: im.torn,
				Kinds: kinds, Opened: opened, Post: post, Real: im.real,
			})
		}
		o.cleanup()
	}

	// phase 1: NewBlockHeaderStore
	o1 := &observer{base: base, tag: fmt.Sprintf("%d-b", id), work: work}
	o1.snap(0)
	fdb.OnCommitW = func(n int) { o1.snap(n) }
	bs, err := headerfs.NewBlockHeaderStore(work, fdb, storeh.Params)
	if err != nil {
		panic(err)
	}
	o1.snap(0)
	// phase 2: NewFilterHeaderStore
	o2 := &observer{base: base, tag: fmt.Sprintf("%d-f", id), work: work}
	o2.snap(0)
	fdb.OnCommitW = func(n int) { o2.snap(n) }
	fs, err := headerfs.NewFilterHeaderStore(work, fdb, headerfs.RegularFilter, storeh.Params, nil)
	if err != nil {
		panic(err)
	}
	o2.snap(0)
	fdb.OnCommitW = nil
	headerfs.VerifCloseBlockFile(bs)
	headerfs.VerifCloseFilterFile(fs)
	raw.Close()

	emit(false, o1)
	emit(true, o2)
	return h
}

// ---------------------------------------------------------------------
// First start through neutrino.NewChainService: the ORDER in which the
// service opens the two stores is part of what makes the first start
// crash-safe (the filter store's tip is resolved through the block store's
// index entry).  The real constructor runs on an empty data directory; the
// directory is snapshotted at every committed transaction of any component
// (filter db, header stores, ban store); the header-store sub-sequence of
// the observed steps is compared with the model's first_steps_b ++
// first_steps_f; every image is reopened through NewChainService again.

func runFirstStartCS(id int, seed int64, base string, pool *storeh.Pool, replay *History) History {
	h := History{ID: id, FirstStart: true, ViaCS: true, Startup: &StartupSpec{}}
	if replay != nil && replay.Startup != nil {
		h.Startup = replay.Startup
	}
	r := c.Rng(seed, id)
	work := filepath.Join(base, fmt.Sprintf("firstcs-%d", id))
	os.RemoveAll(work)
	if err := os.MkdirAll(work, 0o755); err != nil {
		panic(err)
	}
	defer os.RemoveAll(work)
	raw, err := storeh.OpenDB(work)
	if err != nil {
		panic(err)
	}
	fdb := &storeh.FDB{DB: raw}
	torn := tornList(h.Startup, replay != nil && replay.Startup != nil, r)

	o := &observer{base: base, tag: fmt.Sprintf("%d-cs", id), work: work}
	o.snap(0)
	fdb.OnCommitW = func(n int) { o.snap(n) }
	cs, err := neutrino.NewChainService(chainServiceCfg(work, fdb))
	fdb.OnCommitW = nil
	if err != nil {
		panic(err)
	}
	o.snap(0)
	closeChainService(cs)
	raw.Close()

	steps := derive(o.snaps, true)
	kinds := kindsOf(steps)
	for _, im := range o.images(steps, torn) {
		opened, post := evalImageCS(im.dir, pool, followTok(pool, len(h.SCases)))
		os.RemoveAll(im.dir)
		h.SCases = append(h.SCases, SCase{
			ID: id*1000 + 500 + len(h.SCases), Kind: 3, AH: -1, K: im.k, Torn: im.torn,
			Kinds: kinds, Opened: opened, Post: post, Real: im.real,
		})
	}
	o.cleanup()
	return h
}

// ---------------------------------------------------------------------
// Lost file tail (NOT a process crash: a power loss that loses the unsynced
// tail of a flat file while the index commits survived).  After a history the
// last k headers (k = 1, 2, the last batch, the last two batches; once with a
// partial header: k*80+37 bytes) are cut off the block file - and separately
// off the filter file - WITHOUT touching the index; the image is reopened
// with the real constructors.  Refusing to open is what the unchanged code
// and the model do.  A store that opens is dumped (every lost hash must be
// unknown through every lookup), gets DIFFERENT headers appended at the lost
// heights, and is dumped again.

func lostTailCases(h *History, base, dir string, pool *storeh.Pool, btoks, ftoks []int64) {
	if len(pool.Headers) > 1000 {
		return
	}
	id := h.ID
	// sizes of the last two successful block batches of the history
	var batches []int
	for i := len(h.Ops) - 1; i >= 0 && len(batches) < 2; i-- {
		if h.Ops[i].Kind == "bwrite" && len(h.Ops[i].Es) > 0 && h.Ops[i].Obs == "(ORes true)" {
			batches = append(batches, len(h.Ops[i].Es))
		}
	}
	cuts := func(n int, max int) []int {
		var ks []int
		cand := []int{1, 2}
		if len(batches) > 0 {
			cand = append(cand, batches[0])
		}
		if len(batches) > 1 {
			cand = append(cand, batches[0]+batches[1])
		}
		seen := map[int]bool{}
		for _, k := range cand {
			if k >= 1 && k <= n-1 && k <= max && !seen[k] {
				seen[k] = true
				ks = append(ks, k)
			}
		}
		return ks
	}
	fresh := func(i int) int64 {
		t := int64(561 + i)
		if t >= pool.Genesis {
			t++ // skip the genesis header's token
		}
		return t
	}
	run := func(kind int, name string, esz int64, n int, bytes int64) {
		d := filepath.Join(base, fmt.Sprintf("lost-%d-%d", id, len(h.SCases)))
		os.RemoveAll(d)
		if err := storeh.CopyDir(dir, d); err != nil {
			panic(err)
		}
		defer os.RemoveAll(d)
		p := filepath.Join(d, name)
		fi, err := os.Stat(p)
		if err != nil || fi.Size() != int64(n)*esz {
			return // not the un-torn file the family is about
		}
		if err := os.Truncate(p, fi.Size()-bytes); err != nil {
			panic(err)
		}
		m := int((fi.Size() - bytes) / esz) // whole entries left
		sc := SCase{ID: id*1000 + 500 + len(h.SCases), Kind: kind, AH: -1, K: int(bytes), Torn: -1, Kinds: []int64{}, Post: []Op{}, Real: false}
		e := &storeh.Env{Dir: d, Pool: pool}
		if err := e.Open(); err == nil {
			sc.Opened = true
			g := &storeh.Gen{E: e, Used: map[int64]bool{}, Ever: map[int64]bool{}}
			g.Resync()
			var ops []Op
			if kind == 5 {
				lost := btoks[m:]
				for _, t := range lost {
					g.Ever[t] = true
				}
				ops = storeh.FullDump(g)
				for _, t := range lost {
					ops = append(ops,
						Op{Kind: "qheightof", X: t, WF: true}, Op{Kind: "qbhash", X: t, WF: true},
						Op{Kind: "qbanc", N: 1, X: t, WF: true}, Op{Kind: "qlocator", X: t, WF: true},
						Op{Kind: "qfhash", X: t, WF: true}, Op{Kind: "qfanc", N: 0, X: t, WF: true})
				}
				// different headers at the lost heights
				w := Op{Kind: "bwrite", WF: true}
				for i := range lost {
					w.Es = append(w.Es, storeh.Ent{A: fresh(i), B: int64(m + i)})
				}
				ops = append(ops, w, Op{Kind: "qbtip", WF: true}, Op{Kind: "qlatest", WF: true})
				for i, t := range lost {
					ops = append(ops,
						Op{Kind: "qbheight", N: int64(m + i), WF: true},
						Op{Kind: "qheightof", X: fresh(i), WF: true}, Op{Kind: "qbhash", X: fresh(i), WF: true},
						Op{Kind: "qheightof", X: t, WF: true}, Op{Kind: "qbhash", X: t, WF: true},
						Op{Kind: "qbanc", N: 1, X: t, WF: true}, Op{Kind: "qlocator", X: t, WF: true})
				}
			} else {
				ops = storeh.FullDump(g)
				for i := m; i < len(ftoks); i++ {
					ops = append(ops, Op{Kind: "qfheight", N: int64(i), WF: true})
					if i < len(btoks) {
						ops = append(ops, Op{Kind: "qfhash", X: btoks[i], WF: true}, Op{Kind: "qfanc", N: 1, X: btoks[i], WF: true})
					}
				}
				// different filter headers at the lost heights
				w := Op{Kind: "fwrite", WF: true}
				for i := m; i < len(ftoks) && i < len(btoks); i++ {
					w.Es = append(w.Es, storeh.Ent{A: storeh.FilterBase + 599 - int64(i-m), B: btoks[i]})
				}
				ops = append(ops, w, Op{Kind: "qftip", WF: true})
				for i := m; i < len(ftoks) && i < len(btoks); i++ {
					ops = append(ops, Op{Kind: "qfheight", N: int64(i), WF: true}, Op{Kind: "qfhash", X: btoks[i], WF: true})
				}
			}
			for i := range ops {
				if !e.Exec(&ops[i]) {
					break
				}
				sc.Post = append(sc.Post, ops[i])
			}
			e.Close()
		}
		h.SCases = append(h.SCases, sc)
	}
	nb, nf := len(btoks), len(ftoks)
	for i, k := range cuts(nb, 30) {
		run(5, blockFile, 80, nb, int64(k)*80)
		if i == 0 && k+1 <= nb-1 {
			run(5, blockFile, 80, nb, int64(k)*80+37)
		}
	}
	for i, k := range cuts(nf, 30) {
		if i >= 2 {
			break
		}
		run(6, filterFile, 32, nf, int64(k)*32)
		if i == 0 && k+1 <= nf-1 {
			run(6, filterFile, 32, nf, int64(k)*32+13)
		}
	}
}

// ---------------------------------------------------------------------
// Header state assertions on the final state of a history.

// startupCases runs on the (closed) directory of a history's final state.
func startupCases(h *History, seed int64, base, dir string, pool *storeh.Pool, ftoks []int64, nTrig int, replay *History) {
	id := h.ID
	r := rand.New(rand.NewSource(seed*7919 + int64(id)*104729 + 5))
	nf := int64(len(ftoks))
	if nf == 0 {
		return
	}
	replaying := replay != nil && replay.Startup != nil
	if replaying {
		h.Startup = replay.Startup
	} else {
		spec := &StartupSpec{}
		const wrong = 1999999 // a filter header value no store ever holds
		for i := 0; i < nTrig; i++ {
			var hh int64
			switch r.Intn(4) {
			case 0:
				hh = 0
			case 1:
				hh = nf - 1
			default:
				hh = r.Int63n(nf)
			}
			if i == 0 && nf > 1 && hh == 0 {
				hh = 1 + r.Int63n(nf-1) // height 0 is the second choice
			}
			spec.Asserts = append(spec.Asserts, Assertion{hh, wrong})
		}
		hh := r.Int63n(nf)
		spec.Plain = []Assertion{
			{nf + r.Int63n(3), wrong}, // height beyond the file
			{hh, ftoks[hh]},           // the stored value
			{0, ftoks[0]},             // the genesis entry, right value
			{4294967295, wrong},       // the largest height
		}
		h.Startup = spec
	}
	spec := h.Startup
	torn := tornList(spec, replaying, r)
	add := func(sc SCase) {
		sc.ID = id*1000 + 500 + len(h.SCases)
		h.SCases = append(h.SCases, sc)
	}

	// assertions that must not trigger: open the final state with them
	for i := range spec.Plain {
		as := spec.Plain[i]
		d := filepath.Join(base, fmt.Sprintf("plain-%d-%d", id, i))
		os.RemoveAll(d)
		if err := storeh.CopyDir(dir, d); err != nil {
			panic(err)
		}
		opened, post := evalImageA(d, pool, followTok(pool, len(h.SCases)), &as)
		os.RemoveAll(d)
		add(SCase{Kind: 2, AH: as.H, AV: as.V, K: 0, Torn: -1, With: true, Kinds: []int64{}, Opened: opened, Post: post, Real: true})
	}

	// assertions that trigger: run the real reset, snapshot at every commit
	for i := range spec.Asserts {
		as := spec.Asserts[i]
		work := filepath.Join(base, fmt.Sprintf("reset-%d-%d", id, i))
		os.RemoveAll(work)
		if err := storeh.CopyDir(dir, work); err != nil {
			panic(err)
		}
		raw, err := storeh.OpenDB(work)
		if err != nil {
			panic(err)
		}
		fdb := &storeh.FDB{DB: raw}
		var bs headerfs.BlockHeaderStore
		bs, err = headerfs.NewBlockHeaderStore(work, fdb, storeh.Params)
		if err != nil {
			panic(err)
		}
		o := &observer{base: base, tag: fmt.Sprintf("%d-r%d", id, i), work: work}
		o.hold()
		o.snap(0)
		fdb.OnCommitW = func(n int) { o.snap(n) }
		fs, ferr := headerfs.NewFilterHeaderStore(work, fdb, headerfs.RegularFilter, storeh.Params, as.header(pool))
		fdb.OnCommitW = nil
		o.snap(0)
		o.release()
		if ferr == nil {
			headerfs.VerifCloseFilterFile(fs)
		}
		headerfs.VerifCloseBlockFile(bs)
		raw.Close()
		os.RemoveAll(work)

		steps := derive(o.snaps, false)
		kinds := kindsOf(steps)
		for _, im := range o.images(steps, torn) {
			for _, with := range []bool{true, false} {
				d := im.dir + "-e"
				os.RemoveAll(d)
				if err := storeh.CopyDir(im.dir, d); err != nil {
					panic(err)
				}
				var ap *Assertion
				if with {
					ap = &as
				}
				opened, post := evalImageA(d, pool, followTok(pool, len(h.SCases)), ap)
				os.RemoveAll(d)
				add(SCase{Kind: 1, AH: as.H, AV: as.V, K: im.k, Torn: im.torn, With: with, Kinds: kinds, Opened: opened, Post: post, Real: im.real})
			}
			os.RemoveAll(im.dir)
		}
		o.cleanup()
		if ferr != nil {
			// the constructor itself failed on a well-formed state: report
			// through a case that cannot open
			add(SCase{Kind: 1, AH: as.H, AV: as.V, K: 0, Torn: -1, With: true, Kinds: kinds, Opened: false, Post: []Op{}, Real: true})
		}
	}
}

// filterTokens reads the filter chain of the open stores.
func filterTokens(e *storeh.Env, pool *storeh.Pool) []int64 {
	var out []int64
	_, ft, err := e.FS.ChainTip()
	if err != nil {
		return nil
	}
	for hh := uint32(0); hh <= ft; hh++ {
		v, err := e.FS.FetchHeaderByHeight(hh)
		if err != nil {
			return nil
		}
		out = append(out, pool.FTok(*v))
	}
	return out
}

var _ walletdb.DB = (*storeh.FDB)(nil)

func scaseTerm(cs *SCase, prefix []Op) string {
	torn := "None"
	if cs.Torn >= 0 {
		torn = c.Some(c.Z(cs.Torn))
	}
	as := "None"
	if cs.AH >= 0 {
		as = c.Some(c.Pair(c.Z(cs.AH), c.Z(cs.AV)))
	}
	cop := "QBTip"
	if cs.Kind == 4 {
		prefix = prefix[:cs.NP]
		cop = storeh.OpTerm(cs.Cop)
	}
	return fmt.Sprintf("{| sid := %d; skind := %d; sprefix := %s; scop := %s; sfilter := %s; sassert := %s; sk := %d; storn := %s; swith := %s; skinds := %s; sopened := %s; spost := %s |}",
		cs.ID, cs.Kind, trace(prefix), cop, c.Bool(cs.Filter), as, cs.K, torn, c.Bool(cs.With), c.Ints(cs.Kinds), c.Bool(cs.Opened), trace(cs.Post))
}
