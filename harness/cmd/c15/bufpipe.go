package main

import (
	"bytes"
	"io"
	"net"
	"sync"
	"time"
)

// Buffered in-memory connection pair (net.Pipe is unbuffered and deadlocks the
// bitcoin version handshake: both sides write before reading).
type half struct {
	mu     sync.Mutex
	cv     *sync.Cond
	buf    bytes.Buffer
	closed bool
}

func newHalf() *half { h := &half{}; h.cv = sync.NewCond(&h.mu); return h }

type bufConn struct {
	r, w          *half
	local, remote net.Addr
}

func bufPipe(a, b net.Addr) (net.Conn, net.Conn) {
	x, y := newHalf(), newHalf()
	return &bufConn{r: x, w: y, local: a, remote: b}, &bufConn{r: y, w: x, local: b, remote: a}
}

func (c *bufConn) Read(p []byte) (int, error) {
	c.r.mu.Lock()
	defer c.r.mu.Unlock()
	for c.r.buf.Len() == 0 {
		if c.r.closed {
			return 0, io.EOF
		}
		c.r.cv.Wait()
	}
	return c.r.buf.Read(p)
}
func (c *bufConn) Write(p []byte) (int, error) {
	c.w.mu.Lock()
	defer c.w.mu.Unlock()
	if c.w.closed {
		return 0, io.ErrClosedPipe
	}
	n, _ := c.w.buf.Write(p)
	c.w.cv.Broadcast()
	return n, nil
}
func (c *bufConn) Close() error {
	for _, h := range []*half{c.r, c.w} {
		h.mu.Lock()
		h.closed = true
		h.cv.Broadcast()
		h.mu.Unlock()
	}
	return nil
}
func (c *bufConn) LocalAddr() net.Addr                { return c.local }
func (c *bufConn) RemoteAddr() net.Addr               { return c.remote }
func (c *bufConn) SetDeadline(t time.Time) error      { return nil }
func (c *bufConn) SetReadDeadline(t time.Time) error  { return nil }
func (c *bufConn) SetWriteDeadline(t time.Time) error { return nil }
