// Correspondence harness for C15.
//
// Family "b": drives the real pushtx.Broadcaster through its public API with a
// scripted cfg.Broadcast callback (the harness decides when every worker call
// returns and with which error), a scripted block subscription, real ticks in
// a few cases, MarkAsConfirmed and Stop at arbitrary points.
// Family "v": runs the production ChainService.sendTransaction (via the
// verif-tagged VerifSendTxEnv) against 1..5 real btcd peers whose remote ends
// are scripted (getdata / reject / silence).
// Aux tables: float32 threshold comparison sweep, ParseBroadcastError.
package main

import (
	"encoding/json"
	"errors"
	"fmt"
	"math/big"
	"math/rand"
	"net"
	"os"
	"path/filepath"
	"strings"
	"sync"
	"sync/atomic"
	"time"

	"github.com/btcsuite/btcd/chaincfg/v2"
	"github.com/btcsuite/btcd/chainhash/v2"
	"github.com/btcsuite/btcd/wire/v2"
	"github.com/lightninglabs/neutrino"
	"github.com/lightninglabs/neutrino/pushtx"

	c "verifharness/internal/common"
)

// ---------------------------------------------------------------------
// histories

type Op struct {
	Kind string `json:"kind"` // bc|conf|block|tickwait|wcall|wret|whand|wdone|stop|bcstart|bcret
	Tx   int    `json:"tx,omitempty"`
	// Out is the class the scripted network reply stands for; R selects the
	// reject message (code + reason text as real peers word it) that the
	// callback turns into its error with the real pushtx.ParseBroadcastError.
	Out    string `json:"out,omitempty"` // accept|unknown|invalid|fee|mempool|confirmed|other
	R      int    `json:"r,omitempty"`
	Expect bool   `json:"expect,omitempty"` // wcall: a worker call is expected (long deadline)
	// observations
	Obs  string `json:"obs,omitempty"` // none|ret|confd|confquit|trig|sent|ans|hand|done|stop|held|stopbc|ansh
	OTx  int    `json:"otx,omitempty"`
	ORet string `json:"oret,omitempty"` // nil|stopped|unknown|invalid|fee|mempool|confirmed|other
}

type PeerScript struct {
	Beh    string `json:"beh"` // silent|getdata|getdata_reject|reject_only|getdata_other|reject_otherhash|getdata2_reject
	RCode  uint8  `json:"rcode,omitempty"`
	Reason string `json:"reason,omitempty"`
	Class  int    `json:"class"` // the class this (rcode, reason) stands for (hand-written expectation)
}

type History struct {
	ID     int    `json:"id"`
	Family string `json:"family"` // b|v
	// family b
	NTx        int     `json:"ntx,omitempty"`
	Parents    [][]int `json:"parents,omitempty"` // per tx (1-based ids), ids of spent txs
	IntervalMs int     `json:"interval_ms,omitempty"`
	Ops        []Op    `json:"ops,omitempty"`
	Orders     [][]int `json:"orders,omitempty"` // observation: sends of the k-th rebroadcast
	// family v
	Peers   []PeerScript `json:"peers,omitempty"`
	TNum    int          `json:"tnum,omitempty"`
	TDen    int          `json:"tden,omitempty"`
	Verdict string       `json:"verdict,omitempty"` // observation: none|unknown|...|badmapping
	// family e (end to end): Replies[k] = what each peer does on the k-th
	// announcement of the transaction; Steps = caller / chain events
	Replies [][]PeerScript `json:"replies,omitempty"`
	Steps   []EStep        `json:"steps,omitempty"`
	// family n: scenario on a full client (nopeers|late-peer|silent-peer)
	Net string `json:"net,omitempty"`
	// family t (timed): a stream of caller events shorter apart than the
	// rebroadcast interval
	Stream        string `json:"stream,omitempty"` // conf|bc
	StreamMs      int    `json:"stream_ms,omitempty"`
	DurMs         int    `json:"dur_ms,omitempty"`
	MinRebroadcst int    `json:"min_rebroadcasts,omitempty"`
	Rebroadcasts  int    `json:"rebroadcasts,omitempty"` // observation
}

// EStep is one step of an end-to-end history.
type EStep struct {
	Kind string `json:"kind"` // bc|block
	// observations
	Ret       string `json:"ret,omitempty"` // bc: class of Broadcast's return
	Announced bool   `json:"announced"`     // the peers received an inv for the tx
	Idx       int    `json:"idx"`           // which entry of Replies answered it
}

var outNames = []string{"accept", "unknown", "invalid", "fee", "mempool", "confirmed", "other"}

// rejectTexts: per class, reject messages as btcd / bitcoind peers word
// them (with the txids, outpoints and numeric prefixes they add).
var rejectTexts = map[string][]struct {
	code   wire.RejectCode
	reason string
}{
	"mempool": {
		{wire.RejectDuplicate, "already have transaction 4a5e1e4baab89f3a32518a88c31bc87f618f76673e2cc77ab2127b7afdeda33b"},
		{wire.RejectDuplicate, "txn-already-in-mempool"},
		{wire.RejectDuplicate, "already have transaction in mempool 0e3e2357e806b6cdb1f70b54c3a3a17b6714ee1f0e68bebb44a74b1efd512098"},
		{wire.RejectDuplicate, "18: txn-already-in-mempool"},
	},
	"confirmed": {
		{wire.RejectDuplicate, "transaction already exists in blockchain"},
		{wire.RejectDuplicate, "txn-already-known"},
		{wire.RejectDuplicate, "transaction already exists"},
		{wire.RejectDuplicate, "18: txn-already-known (code 18)"},
	},
	"invalid": {
		{wire.RejectInvalid, "bad-txns-inputs-missingorspent"},
		{wire.RejectNonstandard, "transaction output 0: payment of 100 is dust"},
		{wire.RejectDuplicate, "output 9b0fc92260312ce44e74ef369f5c66bbb85848f2eddd5a7a1cde251e54ccfdd5:1 already spent by transaction 999e1c837c76a1b7fbb7e57baf87b309960f5ffefbf2a9b95dd890602272f644 in the memory pool"},
		{wire.RejectDuplicate, "txn-mempool-conflict"},
		{wire.RejectDuplicate, "18: txn-mempool-conflict (code 18)"},
	},
	"fee": {
		{wire.RejectInsufficientFee, "transaction 4a5e1e4b has 10 fees which is under the required amount of 226"},
		{wire.RejectInsufficientFee, "min relay fee not met, 100 < 141"},
	},
	"unknown": {
		{wire.RejectMalformed, "tx decode failed"},
		{wire.RejectDuplicate, "duplicate of something we do not understand"},
		{wire.RejectObsolete, "obsolete version"},
	},
}

// outErr is the error the scripted cfg.Broadcast returns for op.
func outErr(op *Op) error {
	if op.Out == "accept" {
		return nil
	}
	if l := rejectTexts[op.Out]; len(l) > 0 {
		m := l[((op.R%len(l))+len(l))%len(l)]
		return pushtx.ParseBroadcastError(wire.NewMsgReject(wire.CmdTx, m.code, m.reason), "10.1.1.1:18555")
	}
	return errors.New("backend failure")
}

var codeNames = []string{"unknown", "invalid", "fee", "mempool", "confirmed"}

func classify(err error) string {
	if err == nil {
		return "nil"
	}
	if err == pushtx.ErrBroadcasterStopped {
		return "stopped"
	}
	if be, ok := err.(*pushtx.BroadcastError); ok && int(be.Code) < len(codeNames) {
		return codeNames[be.Code]
	}
	return "other"
}

// ---------------------------------------------------------------------
// family v: sendTransaction against scripted peers

var rejectPool = []struct {
	code   wire.RejectCode
	reason string
	class  int // 0 unknown, 1 invalid, 2 fee, 3 mempool, 4 confirmed
}{
	{wire.RejectInvalid, "bad-txns-inputs-missingorspent", 1},
	{wire.RejectNonstandard, "transaction output 0: payment of 100 is dust", 1},
	{wire.RejectInsufficientFee, "min relay fee not met, 100 < 141", 2},
	{wire.RejectDuplicate, "txn-mempool-conflict", 1},
	{wire.RejectDuplicate, "txn-already-in-mempool", 3},
	{wire.RejectDuplicate, "txn-already-known", 4},
	{wire.RejectDuplicate, "output 9b0fc922:1 already spent by transaction 999e1c83 in the memory pool", 1},
	{wire.RejectDuplicate, "already have transaction 4a5e1e4baab89f3a32518a88c31bc87f618f76673e2cc77ab2127b7afdeda33b", 3},
	{wire.RejectDuplicate, "transaction already exists in blockchain", 4},
	{wire.RejectDuplicate, "something else", 0},
	{wire.RejectMalformed, "malformed", 0},
	{wire.RejectDuplicate, "already have transaction in mempool 0e3e2357", 3},
	{wire.RejectDuplicate, "18: txn-already-known (code 18)", 4},
}

var thresholds = [][2]int{{3, 5}, {1, 2}, {1, 3}, {2, 3}, {1, 1}, {9, 10}, {1, 5}, {3, 4}}

func genV(r *rand.Rand, id int) History {
	h := History{ID: id, Family: "v"}
	t := thresholds[0]
	if r.Intn(3) == 0 {
		t = thresholds[r.Intn(len(thresholds))]
	}
	h.TNum, h.TDen = t[0], t[1]
	n := 1 + r.Intn(5)
	// bias: a majority flavour so that "all rejected" and threshold cases are common
	flavour := r.Intn(4)
	for i := 0; i < n; i++ {
		var p PeerScript
		x := r.Intn(100)
		switch {
		case flavour == 0 && x < 70, x < 30:
			p.Beh = "getdata_reject"
		case flavour == 1 && x < 60, x < 50:
			p.Beh = "getdata"
		case x < 62:
			p.Beh = "reject_only"
		case x < 72:
			p.Beh = "silent"
		case x < 80:
			p.Beh = "getdata_other"
		case x < 90:
			p.Beh = "reject_otherhash"
		default:
			p.Beh = "getdata2_reject"
		}
		rp := rejectPool[r.Intn(len(rejectPool))]
		if flavour == 2 && r.Intn(2) == 0 {
			rp = rejectPool[r.Intn(2)] // invalid-heavy
		}
		p.RCode, p.Reason, p.Class = uint8(rp.code), rp.reason, rp.class
		h.Peers = append(h.Peers, p)
	}
	return h
}

func corpusV() []History {
	gr := func(i int) PeerScript {
		return PeerScript{Beh: "getdata_reject", RCode: uint8(rejectPool[i].code), Reason: rejectPool[i].reason, Class: rejectPool[i].class}
	}
	g := PeerScript{Beh: "getdata"}
	ro := PeerScript{Beh: "reject_only", RCode: uint8(wire.RejectInsufficientFee), Reason: "insufficient fee", Class: 2}
	return []History{
		// F16: one peer fetched and accepted, another only rejected
		{Family: "v", TNum: 3, TDen: 5, Peers: []PeerScript{g, ro}},
		// exactly at the threshold: 3 of 5 invalid
		{Family: "v", TNum: 3, TDen: 5, Peers: []PeerScript{gr(0), gr(1), gr(0), g, g}},
		// just below: 2 of 4 at 3/5; exactly 1/2 at threshold 1/2
		{Family: "v", TNum: 3, TDen: 5, Peers: []PeerScript{gr(0), gr(0), g, g}},
		{Family: "v", TNum: 1, TDen: 2, Peers: []PeerScript{gr(1), g}},
		// all rejected, mixed codes (most rejected wins, tie = any)
		{Family: "v", TNum: 3, TDen: 5, Peers: []PeerScript{gr(2), gr(2), gr(0)}},
		{Family: "v", TNum: 3, TDen: 5, Peers: []PeerScript{gr(4), gr(5)}},
		// every replier already has it (reasons with the txid appended): the
		// error must carry the Mempool class, which the broadcaster accepts
		{Family: "v", TNum: 3, TDen: 5, Peers: []PeerScript{gr(7), gr(11), gr(7)}},
		// every replier says it is in the chain (suffix / numeric prefix)
		{Family: "v", TNum: 3, TDen: 5, Peers: []PeerScript{gr(8), gr(12)}},
		// double spend worded by btcd, at the threshold
		{Family: "v", TNum: 3, TDen: 5, Peers: []PeerScript{gr(6), gr(6), gr(6), g, g}},
		// nobody asked
		{Family: "v", TNum: 3, TDen: 5, Peers: []PeerScript{{Beh: "silent"}, ro}},
		// non-invalid rejections below "all": no error
		{Family: "v", TNum: 3, TDen: 5, Peers: []PeerScript{gr(2), gr(2), g}},
		// rejecting non-repliers next to invalid rejections of repliers
		{Family: "v", TNum: 3, TDen: 5, Peers: []PeerScript{gr(0), g, g, ro, ro}},
	}
}

// scripted remote end of one peer connection
func serveRemote(conn net.Conn, p PeerScript, txHash chainhash.Hash, wg *sync.WaitGroup) {
	var n int32
	serveRemoteRounds(conn, []PeerScript{p}, txHash, wg, &n)
}

// serveRemoteRounds: the k-th inv for the transaction is answered according
// to rounds[k] (the last entry for all later ones); invs counts them.
func serveRemoteRounds(conn net.Conn, rounds []PeerScript, txHash chainhash.Hash, wg *sync.WaitGroup, invs *int32) {
	defer wg.Done()
	p := rounds[0]
	pver := uint32(wire.AddrV2Version)
	params := chaincfg.SimNetParams
	var wmu sync.Mutex
	send := func(m wire.Message) {
		wmu.Lock()
		defer wmu.Unlock()
		_, _ = wire.WriteMessageWithEncodingN(conn, m, pver, params.Net, wire.WitnessEncoding)
	}
	other := chainhash.Hash{0xee, 0x01}
	reject := func(h chainhash.Hash) {
		rj := wire.NewMsgReject(wire.CmdTx, wire.RejectCode(p.RCode), p.Reason)
		rj.Hash = h
		send(rj)
	}
	for {
		_, msg, _, err := wire.ReadMessageWithEncodingN(conn, pver, params.Net, wire.WitnessEncoding)
		if err != nil {
			if err == wire.ErrUnknownMessage {
				continue
			}
			return
		}
		switch m := msg.(type) {
		case *wire.MsgVersion:
			me := wire.NewNetAddressIPPort(net.ParseIP("10.1.1.1"), 18555, wire.SFNodeNetwork|wire.SFNodeWitness|wire.SFNodeCF)
			you := wire.NewNetAddressIPPort(net.ParseIP("10.9.9.9"), 40000, 0)
			v := wire.NewMsgVersion(me, you, uint64(time.Now().UnixNano())^uint64(rand.Int63()), 0)
			v.Services = wire.SFNodeNetwork | wire.SFNodeWitness | wire.SFNodeCF
			v.ProtocolVersion = int32(pver)
			_ = v.AddUserAgent("fakenode", "0.0.1")
			send(v)
			send(wire.NewMsgVerAck())
		case *wire.MsgPing:
			send(wire.NewMsgPong(m.Nonce))
		case *wire.MsgInv:
			for _, iv := range m.InvList {
				if iv.Type != wire.InvTypeTx && iv.Type != wire.InvTypeWitnessTx {
					continue
				}
				if iv.Hash == txHash {
					k := int(atomic.AddInt32(invs, 1)) - 1
					if k >= len(rounds) {
						k = len(rounds) - 1
					}
					p = rounds[k]
				}
				switch p.Beh {
				case "getdata", "getdata_reject", "reject_otherhash":
					gd := wire.NewMsgGetData()
					_ = gd.AddInvVect(iv)
					send(gd)
				case "getdata2_reject":
					gd := wire.NewMsgGetData()
					_ = gd.AddInvVect(iv)
					_ = gd.AddInvVect(iv)
					send(gd)
				case "getdata_other":
					gd := wire.NewMsgGetData()
					_ = gd.AddInvVect(wire.NewInvVect(iv.Type, &other))
					send(gd)
				case "reject_only":
					reject(iv.Hash)
				}
			}
		case *wire.MsgTx:
			switch p.Beh {
			case "getdata_reject", "getdata2_reject":
				reject(m.TxHash())
			case "reject_otherhash":
				reject(other)
			}
		}
	}
}

func runV(h *History) (fails []c.ImplFailure) {
	tx := wire.NewMsgTx(2)
	tx.AddTxIn(&wire.TxIn{PreviousOutPoint: wire.OutPoint{Index: uint32(h.ID)}})
	tx.AddTxOut(&wire.TxOut{Value: 1, PkScript: []byte{0x51}})
	txHash := tx.TxHash()
	var conns []net.Conn
	var addrs []string
	var wg sync.WaitGroup
	var remotes []net.Conn
	for i := range h.Peers {
		p := &h.Peers[i]
		la := &net.TCPAddr{IP: net.IPv4(10, 9, 9, 9), Port: 40000 + i}
		ra := &net.TCPAddr{IP: net.IPv4(10, 1, byte(1+h.ID%200), byte(1+i)), Port: 18555}
		a, b := bufPipe(la, ra)
		conns = append(conns, a)
		remotes = append(remotes, b)
		addrs = append(addrs, ra.String())
		wg.Add(1)
		go serveRemote(b, *p, txHash, &wg)
	}
	env, err := neutrino.VerifNewSendTxEnv(conns, addrs, &chaincfg.SimNetParams, 800*time.Millisecond)
	if err != nil {
		return []c.ImplFailure{{Case: fmt.Sprint(h.ID), What: "handshake: " + err.Error(), Tag: "netsim"}}
	}
	res := make(chan error, 1)
	go func() {
		res <- env.SendTransaction(tx,
			neutrino.InvalidTxThreshold(float32(h.TNum)/float32(h.TDen)),
			neutrino.RejectTimeout(400*time.Millisecond))
	}()
	select {
	case err := <-res:
		switch {
		case err == nil:
			h.Verdict = "none"
		default:
			if be, ok := err.(*pushtx.BroadcastError); ok && int(be.Code) < len(codeNames) {
				h.Verdict = codeNames[be.Code]
			} else {
				h.Verdict = "badmapping"
			}
		}
	case <-time.After(10 * time.Second):
		h.Verdict = "none"
		fails = append(fails, c.ImplFailure{Case: fmt.Sprint(h.ID), What: "sendTransaction did not return within 10s", Tag: "sendtx-blocked"})
	}
	env.Close()
	for _, rc := range remotes {
		rc.Close()
	}
	return fails
}

// ---------------------------------------------------------------------
// Coq terms

var coqCode = map[string]string{"unknown": "Unknown", "invalid": "Invalid", "fee": "InsufficientFee", "mempool": "Mempool", "confirmed": "Confirmed"}
var coqCodeIdx = []string{"Unknown", "Invalid", "InsufficientFee", "Mempool", "Confirmed"}

func outTerm(o string) string {
	switch o {
	case "accept":
		return "OAccept"
	case "other":
		return "OOther"
	}
	return "(ORej " + coqCode[o] + ")"
}

func retTerm(o string) string {
	switch o {
	case "nil":
		return "RNil"
	case "stopped":
		return "RStopped"
	case "other":
		return "(RErr OOther)"
	}
	return "(RErr (ORej " + coqCode[o] + "))"
}

func evTerm(op *Op) string {
	switch op.Kind {
	case "bc":
		return c.App("EBroadcast", c.Z(int64(op.Tx)), outTerm(op.Out))
	case "conf":
		return c.App("EConf", c.Z(int64(op.Tx)))
	case "block":
		return "EBlock"
	case "tickwait":
		return "ETick"
	case "wcall":
		return "EWCall"
	case "wret":
		return c.App("EWRet", outTerm(op.Out))
	case "whand":
		return "EWHandoff"
	case "subcancel":
		return "ESubCancel"
	case "bcstart":
		return c.App("EBcStart", c.Z(int64(op.Tx)))
	case "bcret":
		return c.App("EBcRet", outTerm(op.Out))
	case "wdone":
		return "EWDone"
	case "stop":
		return "EStop"
	}
	panic("kind " + op.Kind)
}

func obsTerm(op *Op) string {
	switch op.Obs {
	case "none", "":
		return "ONone"
	case "ret":
		return c.App("ORet", c.Z(int64(op.OTx)), retTerm(op.ORet))
	case "confd":
		return c.App("OConfd", c.Z(int64(op.OTx)))
	case "confquit":
		return "OConfQuit"
	case "trig":
		return "OTrig"
	case "sent":
		return c.App("OSent", c.Z(int64(op.OTx)))
	case "ans":
		return "OAns"
	case "hand":
		return c.App("OHand", c.Z(int64(op.OTx)))
	case "done":
		return "ODone"
	case "stop":
		return "OStop"
	case "held":
		return c.App("OBcHeld", c.Z(int64(op.OTx)))
	case "stopbc":
		return c.App("OStopBc", c.Z(int64(op.OTx)))
	case "ansh":
		return "OAnsH"
	}
	panic("obs " + op.Obs)
}

func intsTerm(l []int) string {
	it := make([]string, len(l))
	for i, x := range l {
		it[i] = c.Z(int64(x))
	}
	return c.List(it)
}

func bTerm(h *History) (string, string) {
	var deps, ords, tr, sig []string
	for i, ps := range h.Parents {
		if len(ps) > 0 {
			deps = append(deps, c.Pair(c.Z(int64(i+1)), intsTerm(ps)))
		}
	}
	for _, o := range h.Orders {
		ords = append(ords, intsTerm(o))
	}
	for i := range h.Ops {
		op := &h.Ops[i]
		tr = append(tr, c.Pair(evTerm(op), obsTerm(op)))
		s := map[string]string{"bc": "b", "conf": "c", "block": "B", "tickwait": "T", "wcall": "C", "wret": "r", "whand": "H", "wdone": "D", "stop": "S", "bcstart": "K", "bcret": "k", "subcancel": "X"}[op.Kind]
		if (op.Kind == "bc" || (op.Kind == "bcret" && op.Obs == "ret")) && op.ORet != "nil" {
			s = "x"
		}
		if op.Obs == "none" {
			s = strings.ToLower(s) + "-"
		}
		sig = append(sig, s)
	}
	return c.Pair(c.Z(int64(h.ID)), c.Pair(c.Pair(c.List(deps), c.List(ords)), c.List(tr))), strings.Join(sig, "")
}

func vTerm(h *History) (string, string) {
	var ms, sig []string
	for i, p := range h.Peers {
		id := c.Z(int64(i + 1))
		code := coqCodeIdx[p.Class]
		switch p.Beh {
		case "getdata":
			ms = append(ms, c.App("MGetData", id, "true"))
		case "getdata_reject":
			ms = append(ms, c.App("MGetData", id, "true"), c.App("MReject", id, "true", code))
		case "getdata2_reject":
			ms = append(ms, c.App("MGetData", id, "true"), c.App("MGetData", id, "true"), c.App("MReject", id, "true", code))
		case "reject_only":
			ms = append(ms, c.App("MReject", id, "true", code))
		case "getdata_other":
			ms = append(ms, c.App("MGetData", id, "false"))
		case "reject_otherhash":
			ms = append(ms, c.App("MGetData", id, "true"), c.App("MReject", id, "false", code))
		}
		sig = append(sig, p.Beh[:1]+p.Beh[len(p.Beh)-1:]+fmt.Sprint(p.Class))
	}
	v := "VNone"
	switch h.Verdict {
	case "none":
	case "badmapping":
		v = "VBadMapping"
	default:
		v = "(VErr " + coqCode[h.Verdict] + ")"
	}
	t := fmt.Sprintf("(%s, (%s, %d, %d, %s))", c.Z(int64(h.ID)), c.List(ms), h.TNum, h.TDen, v)
	return t, strings.Join(sig, ",") + "/" + fmt.Sprint(h.TNum, h.TDen) + "=" + h.Verdict
}

// ---------------------------------------------------------------------
// aux tables

func thrRows() []string {
	var rows []string
	for _, t := range thresholds {
		thr := float32(t[0]) / float32(t[1])
		for n := 1; n <= neutrino.MaxPeers; n++ {
			mask := new(big.Int)
			for i := 0; i <= n; i++ {
				// the expression of query.go sendTransaction
				numInvalid := float32(i)
				numPeersResponded := float32(n)
				if numInvalid/numPeersResponded >= thr {
					mask.SetBit(mask, i, 1)
				}
			}
			rows = append(rows, fmt.Sprintf("(%d, %d, %d, %s)", t[0], t[1], n, mask.String()))
		}
	}
	return rows
}

var subs = []string{"txn-mempool-conflict", "txn-already-in-mempool", "txn-already-known",
	"already spent", "already have transaction", "transaction already exists"}

func parseRows() []string {
	var reasons []string
	reasons = append(reasons, "", "bad-txns", strings.Join(subs, " / "))
	for i, a := range subs {
		reasons = append(reasons, "x "+a+" y")
		for j, b := range subs {
			if i != j {
				reasons = append(reasons, b+"; "+a)
			}
		}
	}
	codes := []wire.RejectCode{0, wire.RejectMalformed, wire.RejectInvalid, wire.RejectObsolete, wire.RejectDuplicate,
		0x13, wire.RejectNonstandard, wire.RejectDust, wire.RejectInsufficientFee, wire.RejectCheckpoint, 0xff}
	var rows []string
	for _, rc := range codes {
		for _, reason := range reasons {
			be := pushtx.ParseBroadcastError(wire.NewMsgReject(wire.CmdTx, rc, reason), "peer")
			fl := make([]string, len(subs))
			for k, s := range subs {
				fl[k] = c.Bool(strings.Contains(reason, s))
			}
			rows = append(rows, fmt.Sprintf("(%d, %s, %d)", rc, c.List(fl), be.Code))
		}
	}
	return rows
}

// ---------------------------------------------------------------------

func readHistory(path string) History {
	raw, err := os.ReadFile(path)
	if err != nil {
		panic(err)
	}
	var wrap struct {
		History *History `json:"history"`
	}
	if json.Unmarshal(raw, &wrap) == nil && wrap.History != nil && wrap.History.Family != "" {
		return *wrap.History
	}
	var h History
	if err := json.Unmarshal(raw, &h); err != nil {
		panic(err)
	}
	return h
}

const vBase = 100000

func main() {
	a := c.ParseArgs()
	rep := c.NewReport("C15", a)
	type job struct {
		h      History
		script []Op // nil = generate online
		tick   bool
		nops   int
	}
	var jobs []job
	if a.Replay != "" {
		h := readHistory(a.Replay)
		jobs = []job{{h: h, script: append([]Op{}, h.Ops...)}}
	} else {
		nb, nops, ntick, nv := 90, 26, 6, 40
		if a.Tier == "thorough" {
			nb, nops, ntick, nv = 1500, 40, 40, 400
		}
		for _, h := range corpusB() {
			h.ID = len(jobs)
			jobs = append(jobs, job{h: h, script: append([]Op{}, h.Ops...)})
		}
		for i := 0; i < nb; i++ {
			id := len(jobs)
			r := c.Rng(a.Seed, id+50000)
			ntx := 2 + r.Intn(5)
			jobs = append(jobs, job{h: History{ID: id, Family: "b", NTx: ntx, Parents: genParents(r, ntx)}, nops: nops/2 + r.Intn(nops)})
		}
		for i := 0; i < ntick; i++ {
			id := len(jobs)
			r := c.Rng(a.Seed, id+50000)
			ntx := 2 + r.Intn(4)
			jobs = append(jobs, job{h: History{ID: id, Family: "b", NTx: ntx, Parents: genParents(r, ntx), IntervalMs: 40}, tick: true})
		}
		k := 0
		for _, h := range corpusV() {
			h.ID = vBase + k
			k++
			jobs = append(jobs, job{h: h})
		}
		for i := 0; i < nv; i++ {
			jobs = append(jobs, job{h: genV(c.Rng(a.Seed, vBase+k), vBase+k)})
			k++
		}
		ne := 3
		if a.Tier == "thorough" {
			ne = 30
		}
		k = 0
		for _, h := range corpusE() {
			h.ID = eBase + k
			k++
			jobs = append(jobs, job{h: h})
		}
		for i := 0; i < ne; i++ {
			jobs = append(jobs, job{h: genE(c.Rng(a.Seed, eBase+k), eBase+k)})
			k++
		}
		for i, h := range corpusT() {
			h.ID = tBase + i
			jobs = append(jobs, job{h: h})
		}
		for i, h := range corpusN() {
			h.ID = nBase + i
			jobs = append(jobs, job{h: h})
		}
	}

	var mu sync.Mutex
	var wg sync.WaitGroup
	sem := make(chan struct{}, a.Workers)
	retries := 0
	for i := range jobs {
		wg.Add(1)
		sem <- struct{}{}
		go func(j *job) {
			defer wg.Done()
			defer func() { <-sem }()
			h := &j.h
			if h.Family == "v" || h.Family == "e" || h.Family == "t" || h.Family == "n" {
				var f []c.ImplFailure
				switch h.Family {
				case "v":
					f = runV(h)
				case "e":
					f = runE(h)
				case "n":
					f = runN(h, a.Out)
				default:
					f = runT(h)
				}
				mu.Lock()
				rep.ImplFailures = append(rep.ImplFailures, f...)
				mu.Unlock()
				return
			}
			// A run whose observations contradict the generator-side
			// simulation may be a scheduling artefact of the unobservable
			// semaphore release (or of a tick during a caller phase): run
			// the case again with a longer settle time; the last attempt
			// stands.
			var ru *runner
			for try, settle := range []time.Duration{2 * time.Millisecond, 40 * time.Millisecond, 250 * time.Millisecond} {
				switch {
				case j.script != nil:
					ru = runScripted(h, a.Seed, settle, j.script)
				case j.tick:
					ru = newRunner(h, a.Seed, settle)
					genTick(c.Rng(a.Seed, h.ID), h, ru)
					ru.finish()
				default:
					ru = newRunner(h, a.Seed, settle)
					genB(c.Rng(a.Seed, h.ID), h, ru, j.nops)
					ru.finish()
				}
				if !ru.unexpected && len(ru.failures) == 0 {
					break
				}
				if try < 2 {
					mu.Lock()
					retries++
					mu.Unlock()
				}
			}
			mu.Lock()
			rep.ImplFailures = append(rep.ImplFailures, ru.failures...)
			mu.Unlock()
		}(&jobs[i])
	}
	wg.Wait()
	hs := make([]History, len(jobs))
	for i := range jobs {
		hs[i] = jobs[i].h
	}

	var sb strings.Builder
	sb.WriteString("From Coq Require Import ZArith List Bool.\nFrom Verif Require Import C15.Model C15.Spec C15.Replay.\nImport ListNotations.\nOpen Scope Z_scope.\n")
	var bts, vts, ets []string
	sigs := c.Signatures{}
	nontrivial := c.Signatures{}
	for i := range hs {
		h := &hs[i]
		var t, sig string
		if h.Family == "e" || h.Family == "n" {
			t, sig = eTerm(h)
			sig = h.Net + sig
			ets = append(ets, t)
			rep.Histogram["e2e_steps"] += len(h.Steps)
			for _, st := range h.Steps {
				if st.Kind == "block" && st.Announced {
					rep.Histogram["e2e_reannouncements"]++
					nontrivial.Add("e:" + sig)
				}
			}
		} else if h.Family == "t" {
			sig = fmt.Sprintf("t:%s/%d/%d", h.Stream, h.StreamMs, h.IntervalMs)
			rep.Histogram["timed_rebroadcasts"] += h.Rebroadcasts
		} else if h.Family == "v" {
			t, sig = vTerm(h)
			vts = append(vts, t)
			rep.Histogram["verdict:"+h.Verdict]++
			rep.Histogram["vpeers:"+fmt.Sprint(len(h.Peers))]++
			// non-trivial: at least one peer asked and at least one reject arrived
			asked, rej := false, false
			for _, p := range h.Peers {
				asked = asked || strings.HasPrefix(p.Beh, "getdata") || p.Beh == "reject_otherhash"
				rej = rej || strings.Contains(p.Beh, "reject")
				rep.Histogram["beh:"+p.Beh]++
			}
			if asked && rej {
				nontrivial.Add("v:" + sig)
			}
		} else {
			t, sig = bTerm(h)
			bts = append(bts, t)
			for j := range h.Ops {
				k := h.Ops[j].Kind
				if k == "bc" {
					k += ":" + h.Ops[j].ORet
				}
				rep.Histogram["op:"+k]++
			}
			rep.Histogram["rebroadcasts"] += len(h.Orders)
			full := false
			for _, o := range h.Orders {
				if len(o) >= 2 {
					full = true
				}
			}
			// non-trivial: a rebroadcast of at least two transactions happened
			if full {
				nontrivial.Add("b:" + sig)
			}
		}
		sigs.Add(sig)
		path := filepath.Join(a.Out, fmt.Sprintf("hist-%d.json", h.ID))
		c.WriteJSON(path, h)
		rep.Cases[fmt.Sprint(h.ID)] = path
	}
	hdr := sb.String()
	tr, pr := thrRows(), parseRows()
	const shard = 300
	nsh := (len(bts) + shard - 1) / shard
	if nsh == 0 {
		nsh = 1
	}
	for k := 0; k < nsh; k++ {
		lo, hi := k*shard, (k+1)*shard
		if hi > len(bts) {
			hi = len(bts)
		}
		if lo > hi {
			lo = hi
		}
		var f strings.Builder
		f.WriteString(hdr)
		f.WriteString("Definition cases : list (Z * bcase) := [\n" + strings.Join(bts[lo:hi], ";\n") + "].\n")
		if k == 0 {
			f.WriteString("Definition vcases : list (Z * vcase) := [\n" + strings.Join(vts, ";\n") + "].\n")
			f.WriteString("Definition ecases : list (Z * ecase) := [\n" + strings.Join(ets, ";\n") + "].\n")
			f.WriteString("Definition thr_rows : list (Z * Z * Z * Z) := [\n" + strings.Join(tr, ";\n") + "].\n")
			f.WriteString("Definition parse_rows : list (Z * list bool * Z) := [\n" + strings.Join(pr, ";\n") + "].\n")
			f.WriteString("Definition R := Eval vm_compute in (run_cases cases ++ run_vcases vcases ++ run_ecases ecases ++ map (fun i => (i, 3, 0, 0)) (thr_mismatches thr_rows) ++ map (fun i => (i, 4, 0, 0)) (parse_mismatches parse_rows)).\n")
		} else {
			f.WriteString("Definition R := Eval vm_compute in (run_cases cases).\n")
		}
		f.WriteString("Set Printing Width 1000000.\nSet Printing Depth 1000000.\nPrint R.\n")
		name := "cases.v"
		if nsh > 1 {
			name = fmt.Sprintf("cases_%d.v", k)
		}
		c.WriteFile(filepath.Join(a.Out, name), f.String())
	}

	rep.Histogram["threshold_rows"] = len(tr)
	rep.Histogram["parse_rows"] = len(pr)
	rep.Histogram["distinct_signatures"] = len(sigs)
	rep.Histogram["retried_runs"] = retries
	rep.Evaluations = len(hs)
	rep.DistinctNontrivial = len(nontrivial)
	rep.Rule = "family b: histories of Broadcast (all outcome classes) / MarkAsConfirmed / block / tick / worker call+return (scripted outcome) / Stop over 2..6 transactions with chain, diamond, independent and random dependency graphs, run on the real pushtx.Broadcaster; non-trivial = some rebroadcast sent at least two transactions. family v: 1..5 scripted peers (getdata, getdata+reject, reject only, silence, other hash) against the production sendTransaction; non-trivial = some peer asked for the tx and some reject arrived. family e: production sendTransaction wired into a production Broadcaster against scripted peers (one tx; Broadcast / block steps, per-announcement unanimous or mixed replies); non-trivial = some block re-announced the tx. family t: 100 ms ticker under a 20-25 ms stream of caller events, no blocks, at least 3 rebroadcasts in 1.5 s required. distinct = distinct op-kind / behaviour signature"
	n := 0
	for i := range hs {
		if i == 0 || i == 7 || hs[i].ID == vBase {
			rep.Samples = append(rep.Samples, hs[i])
			n++
		}
	}
	rep.Exhaustive = false
	rep.Write(a.Out)
}
