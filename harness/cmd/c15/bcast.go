package main

// Family b: the real pushtx.Broadcaster under a scripted callback, block
// subscription and (in a few cases) a real ticker.  Histories are generated
// ONLINE (each operation is executed as soon as it is chosen) because the
// generator-side simulation needs one observation: which transaction a worker
// call carried (wtxmgr.DependencySort is free to pick among valid orders).

import (
	"errors"
	"fmt"
	"math/rand"
	"strings"
	"sync"
	"sync/atomic"
	"time"

	"github.com/btcsuite/btcd/chainhash/v2"
	"github.com/btcsuite/btcd/wire/v2"
	"github.com/lightninglabs/neutrino/blockntfns"
	"github.com/lightninglabs/neutrino/pushtx"

	c "verifharness/internal/common"
)

// sim is the generator-side simulation: it guides deadlines and schedules
// only; verdicts come from the Coq model and monitor.
type sim struct {
	pending  map[int]bool
	w        int // 0 idle, 1 run, 2 call, 3 hand
	todo     int
	stopped  bool
	lastSent int
	busy     bool // the handler is inside cfg.Broadcast for a request
	busyTx   int
	subGone  bool // the block subscription was cancelled from outside
}

func newSim() *sim { return &sim{pending: map[int]bool{}} }

func (s *sim) apply(op *Op) {
	switch op.Kind {
	case "bc":
		if !s.stopped && (op.Out == "accept" || op.Out == "mempool") {
			s.pending[op.Tx] = true
		}
	case "conf":
		if !s.stopped {
			delete(s.pending, op.Tx)
		}
	case "block", "tickwait":
		if !s.stopped && s.w == 0 {
			s.w, s.todo = 1, len(s.pending)
		}
	case "wcall":
		if s.w == 1 && s.todo > 0 {
			if s.stopped {
				s.w = 0
			} else {
				s.w = 2
				s.todo--
				s.lastSent = op.OTx
			}
		}
	case "wret":
		if s.w == 2 {
			if op.Out == "confirmed" {
				s.w = 3
			} else {
				s.w = 1
			}
		}
	case "whand":
		if s.w == 3 {
			if s.stopped {
				s.w = 0
			} else {
				s.w = 1
				delete(s.pending, s.lastSent)
			}
		}
	case "wdone":
		if s.ends() {
			s.w = 0
		}
	case "stop":
		s.stopped = true
	case "subcancel":
		s.subGone = true
	case "bcstart":
		if !s.stopped && !s.busy {
			s.busy, s.busyTx = true, op.Tx
		}
	case "bcret":
		if s.busy {
			s.busy = false
			if !s.stopped && (op.Out == "accept" || op.Out == "mempool") {
				s.pending[s.busyTx] = true
			}
		}
	}
}

func (s *sim) ends() bool {
	return (s.w == 1 && (s.todo == 0 || s.stopped)) || (s.w == 3 && s.stopped)
}

// canPost: a worker call may legitimately show up without a further trigger.
func (s *sim) canPost() bool { return !s.stopped && (s.w == 1 || s.w == 3) && s.todo > 0 }

type post struct {
	tx    *wire.MsgTx
	reply chan error
}

type runner struct {
	h        *History
	s        *sim
	b        *pushtx.Broadcaster
	txs      []*wire.MsgTx
	ids      map[chainhash.Hash]int
	posts    chan post
	abort    chan struct{}
	ntfn     chan blockntfns.BlockNtfn
	hmu      sync.Mutex
	hTx      *wire.MsgTx
	hErr     error
	subGone  int32      // the block subscription was cancelled (SubscribeBlocks fails)
	hHold    bool       // the handler's next call is held open
	hposts   chan post  // ... and announced here
	hpost    *post      // the held call
	bcRes    chan error // result of the Broadcast caller whose request is held
	bcTx     int
	inflight []post
	stash    *post
	cur      []int
	curOpen  bool
	stopDone chan struct{}
	stopped  bool
	dead     bool
	settle   time.Duration
	// results
	unexpected bool
	failures   []c.ImplFailure
}

const long = 3 * time.Second

func makeTxs(h *History, r *rand.Rand) ([]*wire.MsgTx, map[chainhash.Hash]int) {
	txs := make([]*wire.MsgTx, h.NTx+1)
	ids := map[chainhash.Hash]int{}
	for i := 1; i <= h.NTx; i++ {
		tx := wire.NewMsgTx(2)
		var ps []int
		if i-1 < len(h.Parents) {
			ps = h.Parents[i-1]
		}
		if len(ps) == 0 {
			var hh chainhash.Hash
			r.Read(hh[:])
			tx.AddTxIn(&wire.TxIn{PreviousOutPoint: wire.OutPoint{Hash: hh, Index: uint32(i)}})
		}
		for k, p := range ps {
			// a parent listed more than once: several of its outputs
			idx := uint32(i)
			for _, q := range ps[:k] {
				if q == p {
					idx++
				}
			}
			tx.AddTxIn(&wire.TxIn{PreviousOutPoint: wire.OutPoint{Hash: txs[p].TxHash(), Index: idx}})
		}
		// most transactions carry witness data (txid != wtxid), a few do not
		if r.Intn(4) > 0 {
			for _, in := range tx.TxIn {
				sig := make([]byte, 71)
				r.Read(sig)
				key := make([]byte, 33)
				r.Read(key)
				in.Witness = wire.TxWitness{sig, key}
			}
		}
		for k := 0; k < 8; k++ {
			pk := make([]byte, 22)
			r.Read(pk)
			tx.AddTxOut(&wire.TxOut{Value: int64(1000 + i), PkScript: pk})
		}
		txs[i] = tx
		ids[tx.TxHash()] = i
	}
	return txs, ids
}

// newRunner starts a Broadcaster for the (empty) history h.
func newRunner(h *History, seed int64, settle time.Duration) *runner {
	r := rand.New(rand.NewSource(seed*7 + int64(h.ID)*13 + 5))
	ru := &runner{h: h, s: newSim(), posts: make(chan post, 64), hposts: make(chan post, 4), abort: make(chan struct{}),
		ntfn: make(chan blockntfns.BlockNtfn), settle: settle}
	ru.txs, ru.ids = makeTxs(h, r)
	h.Ops, h.Orders = nil, nil
	interval := time.Hour
	if h.IntervalMs > 0 {
		interval = time.Duration(h.IntervalMs) * time.Millisecond
	}
	ru.b = pushtx.NewBroadcaster(&pushtx.Config{
		Broadcast: func(tx *wire.MsgTx) error {
			// The handler passes on the very pointer given to Broadcast;
			// the worker sends copies.
			ru.hmu.Lock()
			if tx == ru.hTx {
				e, hold := ru.hErr, ru.hHold
				ru.hmu.Unlock()
				if !hold {
					return e
				}
				hp := post{tx: tx, reply: make(chan error, 1)}
				select {
				case ru.hposts <- hp:
				case <-ru.abort:
					return nil
				}
				select {
				case e := <-hp.reply:
					return e
				case <-ru.abort:
					return nil
				}
			}
			ru.hmu.Unlock()
			p := post{tx: tx, reply: make(chan error, 1)}
			select {
			case ru.posts <- p:
			case <-ru.abort:
				return nil
			}
			select {
			case e := <-p.reply:
				return e
			case <-ru.abort:
				return nil
			}
		},
		SubscribeBlocks: func() (*blockntfns.Subscription, error) {
			if atomic.LoadInt32(&ru.subGone) != 0 {
				return nil, errors.New("subscription manager stopped")
			}
			return &blockntfns.Subscription{Notifications: ru.ntfn, Cancel: func() {}}, nil
		},
		RebroadcastInterval: interval,
	})
	if err := ru.b.Start(); err != nil {
		panic(err)
	}
	return ru
}

func (ru *runner) fail(what, tag string) {
	ru.failures = append(ru.failures, c.ImplFailure{Case: fmt.Sprint(ru.h.ID), Step: len(ru.h.Ops), What: what, Tag: tag})
	ru.dead = true
}

func (ru *runner) getPost(d time.Duration) *post {
	if ru.stash != nil {
		p := ru.stash
		ru.stash = nil
		return p
	}
	select {
	case p := <-ru.posts:
		return &p
	case <-time.After(d):
		return nil
	}
}

func (ru *runner) closeOrder() {
	if ru.curOpen {
		ru.h.Orders = append(ru.h.Orders, ru.cur)
		ru.cur, ru.curOpen = nil, false
	}
}

// barrier returns once the handler is back in its select, i.e. has finished
// processing everything handed to it before (an unbuffered send returns at
// hand-off, possibly before the receiver ran).  MarkAsConfirmed of a hash
// that belongs to no transaction changes nothing.
func (ru *runner) barrier() {
	res := make(chan struct{})
	go func() { ru.b.MarkAsConfirmed(chainhash.Hash{0xba, 0x44}); close(res) }()
	select {
	case <-res:
	case <-time.After(long):
		ru.fail("handler did not take a MarkAsConfirmed within 3s", "handler-stuck")
	}
}

// exec runs one operation on the real code and appends it, with its
// observation, to the history.
func (ru *runner) exec(op Op) {
	s := ru.s
	op.Obs, op.OTx, op.ORet = "none", 0, ""
	defer func() {
		s.apply(&op)
		ru.h.Ops = append(ru.h.Ops, op)
	}()
	if ru.dead {
		return
	}
	b := ru.b
	switch op.Kind {
	case "bc":
		cp := ru.txs[op.Tx].Copy()
		ru.hmu.Lock()
		ru.hTx, ru.hErr, ru.hHold = cp, outErr(&op), false
		ru.hmu.Unlock()
		res := make(chan error, 1)
		go func() { res <- b.Broadcast(cp) }()
		select {
		case err := <-res:
			op.Obs, op.OTx, op.ORet = "ret", op.Tx, classify(err)
			if ru.stopped && op.ORet != "stopped" {
				// served by a handler that had not yet noticed quit
				ru.unexpected = true
			}
		case <-time.After(long):
			ru.fail("Broadcast did not return within 3s", "broadcast-blocked")
		}
	case "bcstart":
		// a Broadcast request whose cfg.Broadcast call (made by the handler)
		// is held open until the matching bcret
		cp := ru.txs[op.Tx].Copy()
		ru.hmu.Lock()
		ru.hTx, ru.hErr, ru.hHold = cp, nil, true
		ru.hmu.Unlock()
		res := make(chan error, 1)
		go func() { res <- b.Broadcast(cp) }()
		select {
		case hp := <-ru.hposts:
			op.Obs, op.OTx = "held", op.Tx
			ru.hpost, ru.bcRes, ru.bcTx = &hp, res, op.Tx
		case err := <-res:
			op.Obs, op.OTx, op.ORet = "ret", op.Tx, classify(err)
			if !ru.stopped {
				ru.unexpected = true
			}
		case <-time.After(long):
			ru.fail("Broadcast neither reached the callback nor returned within 3s", "broadcast-blocked")
		}
	case "bcret":
		if ru.hpost == nil {
			break
		}
		ru.hpost.reply <- outErr(&op)
		ru.hpost = nil
		if !ru.stopped {
			select {
			case err := <-ru.bcRes:
				op.Obs, op.OTx, op.ORet = "ret", ru.bcTx, classify(err)
			case <-time.After(long):
				ru.fail("Broadcast did not return within 3s after its callback returned", "broadcast-blocked")
			}
			break
		}
		// The caller left at Stop; the handler must get rid of its reply and
		// leave, so that Stop can finish (unless the worker still holds it up).
		op.Obs = "ansh"
		if ru.stopDone != nil && len(ru.inflight) == 0 {
			select {
			case <-ru.stopDone:
			case <-time.After(long):
				ru.fail("Stop did not return within 3s after the handler's Broadcast callback returned", "stop-blocked")
			}
		}
	case "conf":
		res := make(chan struct{})
		hash := ru.txs[op.Tx].TxHash()
		go func() { b.MarkAsConfirmed(hash); close(res) }()
		d := long
		if ru.stopped {
			d = time.Second
		}
		select {
		case <-res:
			if ru.stopped {
				op.Obs = "confquit"
			} else {
				op.Obs, op.OTx = "confd", op.Tx
			}
		case <-time.After(d):
			if ru.stopped {
				ru.fail("MarkAsConfirmed after Stop did not return within 1s", "F11")
			} else {
				ru.fail("MarkAsConfirmed did not return within 3s", "markconfirmed-blocked")
			}
		}
	case "subcancel":
		// The environment cancels the block subscription while the
		// Broadcaster keeps running (e.g. the subscription manager was
		// stopped first): the channel handed out is closed and a new
		// subscription cannot be had.  Nothing observable may change.
		if atomic.CompareAndSwapInt32(&ru.subGone, 0, 1) {
			close(ru.ntfn)
		}
	case "block":
		if atomic.LoadInt32(&ru.subGone) != 0 {
			break // no way to deliver a block any more
		}
		d := long
		if ru.stopped {
			d = 15 * time.Millisecond
		}
		select {
		case ru.ntfn <- blockntfns.NewBlockConnected(wire.BlockHeader{}, uint32(len(ru.h.Ops))):
			op.Obs = "trig"
			if s.w == 0 && !ru.stopped {
				ru.closeOrder()
				ru.curOpen = true
			}
			if !ru.stopped {
				ru.barrier()
			} else {
				ru.unexpected = true
			}
		case <-time.After(d):
			if !ru.stopped {
				ru.fail("block notification not taken by the handler within 3s", "handler-stuck")
			}
		}
	case "tickwait":
		if p := ru.getPost(long); p != nil {
			ru.stash = p
			op.Obs = "trig"
			ru.closeOrder()
			ru.curOpen = true
		} else {
			ru.unexpected = true
		}
	case "wcall":
		d := 15 * time.Millisecond
		if op.Expect {
			d = long
		}
		p := ru.getPost(d)
		if p != nil {
			id := ru.ids[p.tx.TxHash()]
			op.Obs, op.OTx = "sent", id
			ru.inflight = append(ru.inflight, *p)
			ru.curOpen = true
			ru.cur = append(ru.cur, id)
		}
		if (p != nil) != op.Expect {
			ru.unexpected = true
		}
	case "wret":
		if len(ru.inflight) > 0 {
			ru.inflight[0].reply <- outErr(&op)
			ru.inflight = ru.inflight[1:]
			op.Obs = "ans"
		}
	case "whand":
		// The hand-off is invisible from outside; the worker proceeds (next
		// call, or exit) only after the handler has taken the hash, which
		// the following wcall / wdone operation witnesses.
		if s.w == 3 && !ru.stopped {
			op.Obs, op.OTx = "hand", s.lastSent
			if s.todo > 0 {
				// Wait for that witness now: a caller operation issued
				// before the handler took the hash would race with it
				// in the handler's select.
				if p := ru.getPost(long); p != nil {
					ru.stash = p
				} else {
					ru.unexpected = true
				}
			}
		} else if s.w == 3 {
			op.Obs = "done"
			ru.closeOrder()
		}
	case "wdone":
		willEnd := s.ends()
		if ru.stopDone != nil && ru.hpost == nil {
			select {
			case <-ru.stopDone:
			case <-time.After(long):
				ru.fail("Stop did not return within 3s after the in-flight call returned", "stop-blocked")
			}
		} else {
			time.Sleep(ru.settle)
		}
		if len(ru.posts) > 0 {
			ru.unexpected = true // the worker is still sending
		} else if willEnd {
			op.Obs = "done"
			ru.closeOrder()
		}
	case "stop":
		op.Obs = "stop"
		if ru.stopDone == nil {
			ru.stopDone = make(chan struct{})
			go func(ch chan struct{}) { b.Stop(); close(ch) }(ru.stopDone)
		}
		first := !ru.stopped
		ru.stopped = true
		if ru.hpost != nil {
			// the handler sits in a request's callback: the caller of that
			// request must leave with ErrBroadcasterStopped
			if first {
				select {
				case err := <-ru.bcRes:
					op.Obs, op.OTx = "stopbc", ru.bcTx
					if classify(err) != "stopped" {
						op.Obs = "stop"
						ru.unexpected = true
					}
				case <-time.After(long):
					ru.fail("Broadcast caller not released within 3s of Stop while its callback is open", "broadcast-blocked")
				}
			}
		} else if len(ru.inflight) > 0 {
			// Stop waits for the in-flight call; give the idle handler
			// time to notice quit before the next caller operation.
			time.Sleep(time.Millisecond)
		} else {
			select {
			case <-ru.stopDone:
			case <-time.After(long):
				ru.fail("Stop did not return within 3s with no call in flight", "stop-blocked")
			}
		}
	}
}

// finish looks for stray worker calls, then stops the broadcaster.
func (ru *runner) finish() {
	if !ru.dead && ru.h.IntervalMs == 0 && !ru.s.canPost() && len(ru.inflight) == 0 {
		select {
		case p := <-ru.posts:
			id := ru.ids[p.tx.TxHash()]
			ru.h.Ops = append(ru.h.Ops, Op{Kind: "wcall", Obs: "sent", OTx: id})
			ru.cur = append(ru.cur, id)
			ru.curOpen = true
			ru.unexpected = true
		case <-time.After(10 * time.Millisecond):
		}
	}
	ru.closeOrder()
	close(ru.abort)
	if ru.stopDone == nil {
		ru.stopDone = make(chan struct{})
		go func(ch chan struct{}) { ru.b.Stop(); close(ch) }(ru.stopDone)
	}
	select {
	case <-ru.stopDone:
	case <-time.After(long):
		if !ru.dead {
			ru.fail("Stop did not return within 3s at the end of the history", "stop-blocked")
		}
	}
}

// ---------------------------------------------------------------------
// generators

func pickOut(r *rand.Rand, worker bool) string {
	x := r.Intn(100)
	if worker {
		switch {
		case x < 45:
			return "accept"
		case x < 65:
			return "mempool"
		case x < 82:
			return "confirmed"
		case x < 90:
			return "invalid"
		case x < 95:
			return "fee"
		default:
			return "other"
		}
	}
	switch {
	case x < 48:
		return "accept"
	case x < 63:
		return "mempool"
	case x < 73:
		return "invalid"
	case x < 80:
		return "fee"
	case x < 85:
		return "unknown"
	case x < 92:
		return "confirmed"
	default:
		return "other"
	}
}

func genParents(r *rand.Rand, n int) [][]int {
	p := make([][]int, n)
	switch r.Intn(6) {
	case 5: // chain in which a child spends two or three outputs of its parent
		for i := 1; i < n; i++ {
			p[i] = []int{i}
			for k := r.Intn(3); k > 0; k-- {
				p[i] = append(p[i], i)
			}
			if i >= 2 && r.Intn(3) == 0 {
				p[i] = append(p[i], i-1) // and one of its grandparent
			}
		}
	case 0: // chain
		for i := 1; i < n; i++ {
			p[i] = []int{i}
		}
	case 1: // diamond 1 <- 2,3 <- 4, rest chained behind
		for i := 1; i < n; i++ {
			switch {
			case i == 1 || i == 2:
				p[i] = []int{1}
			case i == 3:
				p[i] = []int{2, 3}
			default:
				p[i] = []int{i}
			}
		}
	case 2: // independent
	case 3: // two chains
		for i := 2; i < n; i++ {
			p[i] = []int{i - 1}
		}
	default: // random DAG over lower ids
		for i := 1; i < n; i++ {
			for j := 0; j < i; j++ {
				if r.Intn(3) == 0 {
					p[i] = append(p[i], j+1)
				}
			}
		}
	}
	return p
}

// forced emits the operation the schedule cannot postpone (see header of
// Model.v: hand-off and exit of the worker are not observable moments).
func forced(ru *runner, r *rand.Rand) bool {
	switch {
	case ru.s.w == 3 && ru.s.busy && !ru.s.stopped:
		// the hand-off needs the handler, which is inside a request's call
		ru.exec(Op{Kind: "bcret", Out: pickOut(r, false), R: r.Intn(8)})
		return true
	case ru.s.w == 3:
		ru.exec(Op{Kind: "whand"})
		return true
	case ru.s.w == 1 && ru.s.todo == 0:
		ru.exec(Op{Kind: "wdone"})
		return true
	}
	return false
}

// genB generates and runs one history.
func genB(r *rand.Rand, h *History, ru *runner, nops int) {
	s := ru.s
	ntx := h.NTx
	push := func(op Op) {
		if op.Out != "" {
			op.R = r.Intn(8)
		}
		ru.exec(op)
	}
	malformed := r.Intn(100) < 25 // more nonsense: confs of unknown txs, probes, repeats
	pickTx := func(pending bool) int {
		if pending && len(s.pending) > 0 && r.Intn(10) < 8 {
			k := r.Intn(len(s.pending))
			for t := 1; t <= ntx; t++ {
				if s.pending[t] {
					if k == 0 {
						return t
					}
					k--
				}
			}
		}
		return 1 + r.Intn(ntx)
	}
	// in some histories the block subscription is cancelled from outside at
	// some point before Stop; no block can be delivered afterwards and the
	// history ends soon (the unchanged handler spins on the closed channel)
	cancelAt := -1
	if r.Intn(100) < 12 {
		cancelAt = r.Intn(nops)
	}
	stopAt := -1
	if r.Intn(100) < 60 {
		stopAt = r.Intn(nops + 1)
	}
	// front-load broadcasts so that rebroadcasts have content
	for i, n := 0, 1+r.Intn(ntx+1); i < n; i++ {
		push(Op{Kind: "bc", Tx: 1 + r.Intn(ntx), Out: pickOut(r, false)})
	}
	for len(h.Ops) < nops {
		if cancelAt >= 0 && len(h.Ops) >= cancelAt && !s.subGone && !s.stopped {
			push(Op{Kind: "subcancel"})
			if n := len(h.Ops) + 3 + r.Intn(6); n < nops {
				nops = n
			}
			continue
		}
		if stopAt >= 0 && len(h.Ops) >= stopAt && !s.stopped {
			// Stop is issued with the worker idle or inside a call (whether a
			// worker between two calls sees quit first is a race)
			if s.w == 1 && s.todo > 0 {
				push(Op{Kind: "wcall", Expect: true})
			}
			if !forced(ru, r) {
				push(Op{Kind: "stop"})
			}
			continue
		}
		if s.busy && !s.stopped {
			// the handler is inside a request's call: only the worker's own
			// steps, the return of that call, or Stop can happen
			x := r.Intn(100)
			switch {
			case s.w == 1 && s.todo == 0:
				push(Op{Kind: "wdone"})
			case s.w == 1 && s.todo > 0 && x < 35:
				push(Op{Kind: "wcall", Expect: true})
			case s.w == 2 && x < 35:
				push(Op{Kind: "wret", Out: pickOut(r, true)})
			default:
				push(Op{Kind: "bcret", Out: pickOut(r, false)})
			}
			continue
		}
		if forced(ru, r) {
			continue
		}
		x := r.Intn(100)
		if s.stopped {
			switch {
			case s.busy && x < 40:
				push(Op{Kind: "bcret", Out: pickOut(r, false)})
			case s.w == 2 && x < 50:
				push(Op{Kind: "wret", Out: pickOut(r, true)})
				push(Op{Kind: "wdone"})
			case x < 70:
				push(Op{Kind: "bc", Tx: pickTx(false), Out: pickOut(r, false)})
			case x < 92:
				push(Op{Kind: "conf", Tx: pickTx(true)})
			case x < 96:
				push(Op{Kind: "stop"})
			default:
				if s.w == 0 && !s.subGone {
					push(Op{Kind: "block"})
				}
			}
			continue
		}
		switch {
		case s.w == 1 && s.todo > 0 && x < 45:
			push(Op{Kind: "wcall", Expect: true})
		case s.w == 2 && x < 45:
			push(Op{Kind: "wret", Out: pickOut(r, true)})
		case x < 55:
			push(Op{Kind: "bc", Tx: pickTx(false), Out: pickOut(r, false)})
		case x < 62:
			push(Op{Kind: "bcstart", Tx: pickTx(false)})
		case x < 74:
			push(Op{Kind: "conf", Tx: pickTx(!malformed)})
		case x < 94 && !s.subGone:
			push(Op{Kind: "block"})
		case x < 94:
			push(Op{Kind: "conf", Tx: pickTx(true)})
		default:
			if malformed && (s.w == 0 || s.w == 2) {
				push(Op{Kind: "wcall"}) // probe: no worker call may appear
			} else if !s.subGone {
				push(Op{Kind: "block"})
			} else {
				push(Op{Kind: "bc", Tx: pickTx(false), Out: pickOut(r, false)})
			}
		}
	}
	// after a stop the in-flight call must still return for Stop to finish
	if s.stopped && s.w == 2 {
		push(Op{Kind: "wret", Out: pickOut(r, true)})
		push(Op{Kind: "wdone"})
	}
	// ... and so must a request's call the handler is still inside
	if s.busy {
		push(Op{Kind: "bcret", Out: pickOut(r, false)})
	}
}

// genTick: real ticker; quick caller phases alternate with waiting for the
// tick-driven rebroadcast.
func genTick(r *rand.Rand, h *History, ru *runner) {
	s := ru.s
	ntx := h.NTx
	push := func(op Op) {
		if op.Out != "" {
			op.R = r.Intn(8)
		}
		ru.exec(op)
	}
	rounds := 2 + r.Intn(2)
	for k := 0; k < rounds; k++ {
		for i, n := 0, 1+r.Intn(3); i < n; i++ {
			if r.Intn(4) == 0 && len(s.pending) > 1 {
				for t := 1; t <= ntx; t++ {
					if s.pending[t] {
						push(Op{Kind: "conf", Tx: t})
						break
					}
				}
			} else {
				push(Op{Kind: "bc", Tx: 1 + r.Intn(ntx), Out: []string{"accept", "accept", "mempool", "invalid"}[r.Intn(4)]})
			}
		}
		if len(s.pending) == 0 {
			push(Op{Kind: "bc", Tx: 1 + r.Intn(ntx), Out: "accept"})
		}
		push(Op{Kind: "tickwait"})
		for n := 0; s.w != 0 && n < 40; n++ {
			switch {
			case s.w == 1 && s.todo > 0:
				push(Op{Kind: "wcall", Expect: true})
			case s.w == 2:
				push(Op{Kind: "wret", Out: []string{"accept", "mempool", "confirmed", "invalid"}[r.Intn(4)]})
			default:
				forced(ru, r)
			}
		}
	}
	push(Op{Kind: "stop"})
	push(Op{Kind: "conf", Tx: 1})
}

func ops(spec string) []Op {
	// compact notation: b3a = bc tx3 accept (outcomes a,m,i,f,u,c,o); c2 = conf 2;
	// B block; C wcall(expected); P probe; r<a..> wret; H whand; D wdone; S stop;
	// T wait for tick; K<tx> Broadcast request whose callback is held; k<a..> its return;
	// X the block subscription is cancelled from outside
	outs := map[byte]string{'a': "accept", 'm': "mempool", 'i': "invalid", 'f': "fee", 'u': "unknown", 'c': "confirmed", 'o': "other"}
	var res []Op
	for _, t := range strings.Fields(spec) {
		switch t[0] {
		case 'X':
			res = append(res, Op{Kind: "subcancel"})
		case 'K':
			res = append(res, Op{Kind: "bcstart", Tx: int(t[1] - '0')})
		case 'k':
			res = append(res, Op{Kind: "bcret", Out: outs[t[1]]})
		case 'b':
			res = append(res, Op{Kind: "bc", Tx: int(t[1] - '0'), Out: outs[t[2]]})
		case 'c':
			res = append(res, Op{Kind: "conf", Tx: int(t[1] - '0')})
		case 'B':
			res = append(res, Op{Kind: "block"})
		case 'C':
			res = append(res, Op{Kind: "wcall", Expect: true})
		case 'P':
			res = append(res, Op{Kind: "wcall"})
		case 'r':
			res = append(res, Op{Kind: "wret", Out: outs[t[1]]})
		case 'H':
			res = append(res, Op{Kind: "whand"})
		case 'D':
			res = append(res, Op{Kind: "wdone"})
		case 'S':
			res = append(res, Op{Kind: "stop"})
		case 'T':
			res = append(res, Op{Kind: "tickwait"})
		}
	}
	for i := range res {
		if res[i].Out != "" {
			res[i].R = i // walk through the wordings of each class
		}
	}
	return res
}

// corpusB: fixed regression schedules, run first.
func corpusB() []History {
	chain5 := [][]int{nil, {1}, {2}, {3}, {4}}
	diamond := [][]int{nil, {1}, {1}, {2, 3}}
	return []History{
		// the shape of TestRebroadcast (children broadcast first), then one confirmation
		{Family: "b", NTx: 5, Parents: chain5, Ops: ops("b5a b4a b3m b2a b1a B C ra C ra C ra C ra C ra D c1 B C ra C ra C ra C ra D")},
		// diamond, a rejected tx, block while running, a peer-reported confirmation
		{Family: "b", NTx: 4, Parents: diamond, Ops: ops("b4a b2a b3i b1a b3a B C ra B C P rc H C ra C rm D B C ra C ra C ra D")},
		// F11: MarkAsConfirmed after Stop must return
		{Family: "b", NTx: 2, Parents: [][]int{nil, {1}}, Ops: ops("b1a b2a S c1 b1a c2 S")},
		// Stop while a worker call is in flight
		{Family: "b", NTx: 3, Parents: [][]int{nil, {1}, {2}}, Ops: ops("b1a b2a b3a B C ra C S c2 ra D b1a")},
		// every error class; nothing rejected is ever rebroadcast
		{Family: "b", NTx: 6, Parents: make([][]int, 6), Ops: ops("b1i b2f b3u b4c b5o b6m B C ra D c6 B D b1a b1i B C ri D")},
		// confirmed answer as the last call, then Stop
		{Family: "b", NTx: 2, Parents: [][]int{nil, {1}}, Ops: ops("b2a b1a B C ra C rc H D B C ra D S B c1")},
		// Stop while a worker call is held open, then that call returns with
		// every outcome class: Stop must return (the worker's report of a
		// confirmed tx needs its quit alternative), with and without
		// transactions left to send, block- and tick-triggered
		{Family: "b", NTx: 3, Parents: [][]int{nil, {1}, {2}}, Ops: ops("b1a b2a b3a B C S rc D c1 b2a S")},
		{Family: "b", NTx: 1, Parents: [][]int{nil}, Ops: ops("b1a B C S rc D c1")},
		{Family: "b", NTx: 3, Parents: [][]int{nil, {1}, {2}}, Ops: ops("b1a b2a b3a B C ra C S b1a c3 rc D")},
		{Family: "b", NTx: 2, Parents: [][]int{nil, {1}}, IntervalMs: 40, Ops: ops("b1a b2a T C S rc D c2")},
		{Family: "b", NTx: 2, Parents: [][]int{nil, nil}, Ops: ops("b1a b2a B C S ra D")},
		{Family: "b", NTx: 2, Parents: [][]int{nil, nil}, Ops: ops("b1a b2a B C S rm D")},
		{Family: "b", NTx: 2, Parents: [][]int{nil, nil}, Ops: ops("b1a b2a B C S ri D")},
		{Family: "b", NTx: 2, Parents: [][]int{nil, nil}, Ops: ops("b1a b2a B C S rf D")},
		{Family: "b", NTx: 2, Parents: [][]int{nil, nil}, Ops: ops("b1a b2a B C S ru D")},
		{Family: "b", NTx: 2, Parents: [][]int{nil, nil}, Ops: ops("b1a b2a B C S ro D")},
		// Stop while the HANDLER is inside cfg.Broadcast for a caller's
		// request: the caller leaves with ErrBroadcasterStopped, the call
		// then returns with every reply class, the handler must not wait for
		// the caller that left (errChan has capacity 1) and Stop must return
		{Family: "b", NTx: 2, Parents: [][]int{nil, {1}}, Ops: ops("b1a K2 S ka c1 b2a")},
		{Family: "b", NTx: 2, Parents: [][]int{nil, {1}}, Ops: ops("b1a K2 S km")},
		{Family: "b", NTx: 2, Parents: [][]int{nil, {1}}, Ops: ops("b1a K2 S ki")},
		{Family: "b", NTx: 2, Parents: [][]int{nil, {1}}, Ops: ops("K1 S kf")},
		{Family: "b", NTx: 2, Parents: [][]int{nil, {1}}, Ops: ops("K1 S ku")},
		{Family: "b", NTx: 2, Parents: [][]int{nil, {1}}, Ops: ops("K1 S kc")},
		{Family: "b", NTx: 2, Parents: [][]int{nil, {1}}, Ops: ops("K1 S ko S c1")},
		// ... also with a rebroadcast call open at the same time, either order
		{Family: "b", NTx: 2, Parents: [][]int{nil, {1}}, Ops: ops("b1a b2a B C K1 S ka rc D")},
		{Family: "b", NTx: 2, Parents: [][]int{nil, {1}}, Ops: ops("b1a b2a B C K1 S rc D km")},
		// held requests without Stop: the caller gets the verdict; nothing
		// else reaches the handler meanwhile, the worker goes on
		{Family: "b", NTx: 3, Parents: [][]int{nil, {1}, {2}}, Ops: ops("b1a K2 km B C ra C ra D K3 ki K3 ka B C ra C ra C ra D")},
		{Family: "b", NTx: 2, Parents: [][]int{nil, {1}}, Ops: ops("b1a b2a B K1 C ra C rc km H D B C ra D")},
		// the block subscription is cancelled from outside while the
		// Broadcaster runs: MarkAsConfirmed / Broadcast are still served,
		// a running rebroadcast goes on, ticks still rebroadcast, Stop returns
		{Family: "b", NTx: 2, Parents: [][]int{nil, {1}}, Ops: ops("b1a b2a B C ra C ra D X c1 b2a c2 b1m S c1")},
		{Family: "b", NTx: 2, Parents: [][]int{nil, {1}}, Ops: ops("b1a X K2 km c1 b1i S")},
		{Family: "b", NTx: 2, Parents: [][]int{nil, {1}}, Ops: ops("b1a b2a B C X ra C ra D c2 S")},
		{Family: "b", NTx: 2, Parents: [][]int{nil, {1}}, IntervalMs: 40, Ops: ops("b1a b2a X T C ra C ra D c1 S")},
		// reply wordings end to end: "already have transaction <txid>" is a
		// success and keeps being rebroadcast; "transaction already exists
		// in blockchain" during a rebroadcast ends it (each class several times,
		// so that every wording of rejectTexts is used)
		{Family: "b", NTx: 2, Parents: [][]int{nil, nil}, Ops: ops("b1m b2m b1m b2m B C rm C rm D B C rc H C rm D B C rc H D B D")},
		{Family: "b", NTx: 2, Parents: [][]int{nil, nil}, Ops: ops("b1i b1i b1i b1i b1i b2f b2f b2u b2u b2u b1c b1c b1c b1c B D b1m B C ri D B C rf D B C ru D B C rc H D B D")},
	}
}

// runScripted executes a fixed list of operations (corpus, -replay).
func runScripted(h *History, seed int64, settle time.Duration, script []Op) *runner {
	ru := newRunner(h, seed, settle)
	for _, op := range script {
		ru.exec(op)
	}
	ru.finish()
	return ru
}
