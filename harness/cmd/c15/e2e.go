package main

// Family e: the production sendTransaction wired into a production
// pushtx.Broadcaster the way NewChainService does it (Broadcast: func(tx)
// error { return s.sendTransaction(tx) }), against scripted peers; one
// transaction; the property is checked on what callers and peers see.
//
// Family t: a real ticker under a stream of caller events that arrive more
// often than the rebroadcast interval.

import (
	"fmt"
	"math/rand"
	"net"
	"strings"
	"sync"
	"sync/atomic"
	"time"

	"github.com/btcsuite/btcd/chaincfg/v2"
	"github.com/btcsuite/btcd/chainhash/v2"
	"github.com/btcsuite/btcd/wire/v2"
	"github.com/lightninglabs/neutrino"
	"github.com/lightninglabs/neutrino/blockntfns"
	"github.com/lightninglabs/neutrino/pushtx"

	c "verifharness/internal/common"
)

const (
	eBase = 200000
	tBase = 300000
)

func witnessTx(seed int64) *wire.MsgTx {
	r := rand.New(rand.NewSource(seed))
	tx := wire.NewMsgTx(2)
	var hh chainhash.Hash
	r.Read(hh[:])
	sig := make([]byte, 71)
	r.Read(sig)
	pk := make([]byte, 33)
	r.Read(pk)
	tx.AddTxIn(&wire.TxIn{PreviousOutPoint: wire.OutPoint{Hash: hh, Index: 1}, Witness: wire.TxWitness{sig, pk}})
	tx.AddTxOut(&wire.TxOut{Value: 5000, PkScript: append([]byte{0x00, 0x14}, pk[:20]...)})
	return tx
}

func ePeer(i int) PeerScript {
	return PeerScript{Beh: "getdata_reject", RCode: uint8(rejectPool[i].code), Reason: rejectPool[i].reason, Class: rejectPool[i].class}
}

func steps(spec string) []EStep {
	var res []EStep
	for _, t := range strings.Fields(spec) {
		res = append(res, EStep{Kind: t})
	}
	return res
}

func corpusE() []History {
	g := PeerScript{Beh: "getdata"}
	mp, mp2, cf, cf2, inv, fee := ePeer(7), ePeer(11), ePeer(8), ePeer(12), ePeer(0), ePeer(2)
	return []History{
		// every replier already has it (txid appended to the reason): Broadcast
		// succeeds, the tx is announced again on the next blocks, until all
		// repliers say it is in the chain; then never again
		{Family: "e", Replies: [][]PeerScript{{mp, mp2, mp}, {mp2, mp, mp}, {cf, cf2, cf}}, Steps: steps("bc block block block")},
		// unanimously invalid: Broadcast fails, nothing is ever re-announced
		{Family: "e", Replies: [][]PeerScript{{inv, inv}}, Steps: steps("bc block")},
		// one replier accepts silently: success; confirmed on the first rebroadcast
		{Family: "e", Replies: [][]PeerScript{{g, fee, fee}, {cf2, cf, cf}}, Steps: steps("bc block block")},
		// invalid share at the threshold fails; a second Broadcast is accepted and rebroadcast
		{Family: "e", Replies: [][]PeerScript{{inv, inv, inv, g, g}, {g, g, g, g, g}, {mp, mp, mp2, mp, mp}}, Steps: steps("bc bc block block")},
		// "already in the chain" on the initial Broadcast is an error for the caller
		{Family: "e", Replies: [][]PeerScript{{cf, cf2}}, Steps: steps("bc block")},
	}
}

func genE(r *rand.Rand, id int) History {
	h := History{ID: id, Family: "e"}
	n := 1 + r.Intn(4)
	classes := [][]int{{7, 11}, {8, 12}, {0, 1, 6}, {2}, {-1}}
	rounds := 3 + r.Intn(2)
	for k := 0; k < rounds; k++ {
		cl := classes[r.Intn(len(classes))]
		if k == 0 && r.Intn(3) > 0 {
			cl = classes[0] // mostly start accepted
		}
		var ps []PeerScript
		for i := 0; i < n; i++ {
			if cl[0] < 0 {
				ps = append(ps, PeerScript{Beh: "getdata"})
			} else {
				ps = append(ps, ePeer(cl[r.Intn(len(cl))]))
			}
		}
		h.Replies = append(h.Replies, ps)
	}
	h.Steps = steps("bc")
	for k := 0; k < rounds; k++ {
		if r.Intn(5) == 0 {
			h.Steps = append(h.Steps, EStep{Kind: "bc"})
		} else {
			h.Steps = append(h.Steps, EStep{Kind: "block"})
		}
	}
	return h
}

func runE(h *History) (fails []c.ImplFailure) {
	fail := func(step int, what, tag string) {
		fails = append(fails, c.ImplFailure{Case: fmt.Sprint(h.ID), Step: step, What: what, Tag: tag})
	}
	h.TNum, h.TDen = 3, 5
	tx := witnessTx(int64(h.ID)*31 + 7)
	txHash := tx.TxHash()
	n := len(h.Replies[0])
	var conns, remotes []net.Conn
	var addrs []string
	var wg sync.WaitGroup
	invs := make([]int32, n)
	for i := 0; i < n; i++ {
		rounds := make([]PeerScript, len(h.Replies))
		for k := range h.Replies {
			rounds[k] = h.Replies[k][i]
		}
		la := &net.TCPAddr{IP: net.IPv4(10, 9, 9, 9), Port: 41000 + i}
		ra := &net.TCPAddr{IP: net.IPv4(10, 2, byte(1+h.ID%200), byte(1+i)), Port: 18555}
		a, b := bufPipe(la, ra)
		conns, remotes, addrs = append(conns, a), append(remotes, b), append(addrs, ra.String())
		wg.Add(1)
		go serveRemoteRounds(b, rounds, txHash, &wg, &invs[i])
	}
	const broadcastTimeout, rejectTimeout = 600 * time.Millisecond, 300 * time.Millisecond
	env, err := neutrino.VerifNewSendTxEnv(conns, addrs, &chaincfg.SimNetParams, broadcastTimeout)
	if err != nil {
		fail(0, "handshake: "+err.Error(), "netsim")
		return
	}
	ntfn := make(chan blockntfns.BlockNtfn)
	b := pushtx.NewBroadcaster(&pushtx.Config{
		// as NewChainService: Broadcast = the service's sendTransaction
		Broadcast: func(tx *wire.MsgTx) error {
			return env.SendTransaction(tx, neutrino.RejectTimeout(rejectTimeout))
		},
		SubscribeBlocks: func() (*blockntfns.Subscription, error) {
			return &blockntfns.Subscription{Notifications: ntfn, Cancel: func() {}}, nil
		},
		RebroadcastInterval: time.Hour,
	})
	if err := b.Start(); err != nil {
		panic(err)
	}
	seen := func() int { // announcements that reached every peer
		m := int(atomic.LoadInt32(&invs[0]))
		for i := range invs {
			if v := int(atomic.LoadInt32(&invs[i])); v < m {
				m = v
			}
		}
		return m
	}
	// time one announcement round needs to be over on the client side
	roundTime := func(idx int) time.Duration {
		if idx >= len(h.Replies) {
			idx = len(h.Replies) - 1
		}
		for _, p := range h.Replies[idx] {
			if p.Beh != "getdata_reject" {
				return broadcastTimeout + rejectTimeout + 250*time.Millisecond
			}
		}
		return 250 * time.Millisecond
	}
	dead := false
	for i := range h.Steps {
		st := &h.Steps[i]
		st.Ret, st.Announced, st.Idx = "", false, 0
		if dead {
			continue
		}
		c0 := seen()
		st.Idx = c0
		if st.Idx >= len(h.Replies) {
			st.Idx = len(h.Replies) - 1
		}
		switch st.Kind {
		case "bc":
			res := make(chan error, 1)
			go func() { res <- b.Broadcast(tx) }()
			select {
			case err := <-res:
				st.Ret = classify(err)
				st.Announced = seen() > c0
			case <-time.After(10 * time.Second):
				fail(i, "Broadcast did not return within 10s", "broadcast-blocked")
				dead = true
			}
		case "block":
			select {
			case ntfn <- blockntfns.NewBlockConnected(wire.BlockHeader{}, uint32(i)):
			case <-time.After(3 * time.Second):
				fail(i, "block notification not taken within 3s", "handler-stuck")
				dead = true
				continue
			}
			deadline := time.Now().Add(time.Second)
			for time.Now().Before(deadline) && seen() <= c0 {
				time.Sleep(2 * time.Millisecond)
			}
			if seen() > c0 {
				st.Announced = true
				time.Sleep(roundTime(c0))
			}
		}
	}
	stopDone := make(chan struct{})
	go func() { b.Stop(); close(stopDone) }()
	select {
	case <-stopDone:
	case <-time.After(5 * time.Second):
		fail(len(h.Steps), "Stop did not return within 5s", "stop-blocked")
	}
	env.Close()
	for _, rc := range remotes {
		rc.Close()
	}
	return fails
}

func msgsTerm(ps []PeerScript) string {
	var ms []string
	for i, p := range ps {
		id := c.Z(int64(i + 1))
		code := coqCodeIdx[p.Class]
		switch p.Beh {
		case "getdata":
			ms = append(ms, c.App("MGetData", id, "true"))
		case "getdata_reject":
			ms = append(ms, c.App("MGetData", id, "true"), c.App("MReject", id, "true", code))
		case "getdata2_reject":
			ms = append(ms, c.App("MGetData", id, "true"), c.App("MGetData", id, "true"), c.App("MReject", id, "true", code))
		case "reject_only":
			ms = append(ms, c.App("MReject", id, "true", code))
		case "getdata_other":
			ms = append(ms, c.App("MGetData", id, "false"))
		case "reject_otherhash":
			ms = append(ms, c.App("MGetData", id, "true"), c.App("MReject", id, "false", code))
		}
	}
	return c.List(ms)
}

func eTerm(h *History) (string, string) {
	var items, sig []string
	for _, st := range h.Steps {
		ms := msgsTerm(h.Replies[st.Idx])
		switch st.Kind {
		case "bc":
			r := st.Ret
			if r == "" {
				r = "other"
			}
			items = append(items, c.App("XBroadcast", ms, retTerm(r)))
			sig = append(sig, "b:"+r)
		case "block":
			if !st.Announced {
				ms = "[]"
			}
			items = append(items, c.App("XBlock", c.Bool(st.Announced), ms))
			sig = append(sig, "B:"+c.Bool(st.Announced))
		}
	}
	return fmt.Sprintf("(%s, (%d, %d, %s))", c.Z(int64(h.ID)), h.TNum, h.TDen, c.List(items)), strings.Join(sig, ",")
}

// ---------------------------------------------------------------------
// family t

func corpusT() []History {
	return []History{
		{Family: "t", IntervalMs: 100, Stream: "conf", StreamMs: 20, DurMs: 1500, MinRebroadcst: 3},
		{Family: "t", IntervalMs: 100, Stream: "bc", StreamMs: 25, DurMs: 1500, MinRebroadcst: 3},
	}
}

// runT: one accepted transaction, no block, a stream of MarkAsConfirmed
// (unrelated hashes) or Broadcast (another, rejected transaction) calls that
// arrive more often than the rebroadcast interval: the periodic rebroadcast
// must go on all the same.
func runT(h *History) (fails []c.ImplFailure) {
	tx := witnessTx(int64(h.ID) + 11)
	other := witnessTx(int64(h.ID) + 12)
	txHash := tx.TxHash()
	var count int32
	b := pushtx.NewBroadcaster(&pushtx.Config{
		Broadcast: func(t *wire.MsgTx) error {
			if t.TxHash() == txHash {
				atomic.AddInt32(&count, 1)
				return nil
			}
			return &pushtx.BroadcastError{Code: pushtx.Invalid, Reason: "bad-txns"}
		},
		SubscribeBlocks: func() (*blockntfns.Subscription, error) {
			return &blockntfns.Subscription{Notifications: make(chan blockntfns.BlockNtfn), Cancel: func() {}}, nil
		},
		RebroadcastInterval: time.Duration(h.IntervalMs) * time.Millisecond,
	})
	if err := b.Start(); err != nil {
		panic(err)
	}
	call := func(f func()) bool {
		done := make(chan struct{})
		go func() { f(); close(done) }()
		select {
		case <-done:
			return true
		case <-time.After(3 * time.Second):
			return false
		}
	}
	ok := call(func() { _ = b.Broadcast(tx) })
	start := time.Now()
	for k := 0; ok && time.Since(start) < time.Duration(h.DurMs)*time.Millisecond; k++ {
		if h.Stream == "bc" {
			ok = call(func() { _ = b.Broadcast(other) })
		} else {
			hh := chainhash.Hash{0x7e, byte(k), byte(k >> 8)}
			ok = call(func() { b.MarkAsConfirmed(hh) })
		}
		time.Sleep(time.Duration(h.StreamMs) * time.Millisecond)
	}
	if !ok {
		fails = append(fails, c.ImplFailure{Case: fmt.Sprint(h.ID), What: "a caller operation did not return within 3s", Tag: "caller-blocked"})
	}
	h.Rebroadcasts = int(atomic.LoadInt32(&count)) - 1
	if ok && h.Rebroadcasts < h.MinRebroadcst {
		fails = append(fails, c.ImplFailure{Case: fmt.Sprint(h.ID), Step: 0, Tag: "tick-starved",
			What: fmt.Sprintf("pending transaction rebroadcast %d times in %d ms with a %d ms interval and no blocks (callers arriving every %d ms); at least %d required",
				h.Rebroadcasts, h.DurMs, h.IntervalMs, h.StreamMs, h.MinRebroadcst)})
	}
	if !call(b.Stop) {
		fails = append(fails, c.ImplFailure{Case: fmt.Sprint(h.ID), What: "Stop did not return within 3s", Tag: "stop-blocked"})
	}
	return fails
}
