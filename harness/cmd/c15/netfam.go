package main

// Family n: the PUBLIC entry point ChainService.SendTransaction on a full
// client (internal/netsim: real ChainService, temporary bdb database,
// in-memory connections, scripted nodes).  A broadcast may report failure
// only when peers that replied rejected the transaction: without peers, with
// a peer that connects later, and with a silent peer it must succeed, and the
// transaction must be offered to a peer once a block arrives.

import (
	"fmt"
	"os"
	"time"

	ns "verifharness/internal/netsim"

	c "verifharness/internal/common"
)

const nBase = 400000

func corpusN() []History {
	return []History{
		{Family: "n", Net: "nopeers"},
		{Family: "n", Net: "late-peer"},
		{Family: "n", Net: "silent-peer"},
	}
}

func runN(h *History, work string) (fails []c.ImplFailure) {
	step := 0
	fail := func(what, tag string) {
		fails = append(fails, c.ImplFailure{Case: fmt.Sprint(h.ID), Step: step, What: h.Net + ": " + what, Tag: tag})
	}
	h.TNum, h.TDen = 3, 5
	h.Replies = [][]PeerScript{{}, {{Beh: "getdata"}}}
	h.Steps = nil
	dir, err := os.MkdirTemp(work, fmt.Sprintf("n%d-", h.ID))
	if err != nil {
		panic(err)
	}
	defer os.RemoveAll(dir)
	base := ns.CachedChain(int64(h.ID%97)+3, 12, time.Unix(time.Now().Unix(), 0), 0.3)
	nt := ns.NewNet()
	defer nt.Shutdown()
	var node *ns.Node
	switch h.Net {
	case "late-peer":
		node = nt.Add(base, ns.Behaviour{RefuseDial: true})
	case "silent-peer":
		node = nt.Add(base, ns.Behaviour{Silent: []string{"inv"}})
	}
	cl, err := ns.NewClient(dir, nt, nt.Addrs(), 200*time.Millisecond, false)
	if err != nil {
		fail("cannot create client: "+err.Error(), "setup")
		return
	}
	if err := cl.Start(); err != nil {
		fail("cannot start client: "+err.Error(), "setup")
		cl.CloseDB()
		return
	}
	defer func() {
		if ok, _, _ := cl.StopWithin(30 * time.Second); !ok {
			fail("ChainService.Stop did not return within 30s", "stop-blocked")
			return
		}
		cl.CloseDB()
	}()
	tx := witnessTx(int64(h.ID) + 21)
	txHash := tx.TxHash()
	send := func() (string, bool) {
		res := make(chan error, 1)
		go func() { res <- cl.CS.SendTransaction(tx) }()
		select {
		case err := <-res:
			return classify(err), true
		case <-time.After(25 * time.Second):
			fail("SendTransaction did not return within 25s", "sendtx-blocked")
			return "other", false
		}
	}
	bc := func() bool {
		r, ok := send()
		h.Steps = append(h.Steps, EStep{Kind: "bc", Ret: r, Idx: 0})
		if ok && r != "nil" {
			fail(fmt.Sprintf("SendTransaction failed (%s) although no peer rejected the transaction (connected peers: %d)",
				r, cl.CS.ConnectedCount()), "sendtx-failed-without-reject")
		}
		step++
		return ok
	}
	switch h.Net {
	case "nopeers":
		if n := cl.CS.ConnectedCount(); n != 0 {
			fail(fmt.Sprintf("expected no connection, have %d", n), "setup")
			return
		}
		if bc() {
			bc()
		}
	case "late-peer":
		if n := cl.CS.ConnectedCount(); n != 0 {
			fail(fmt.Sprintf("expected no connection, have %d", n), "setup")
			return
		}
		if !bc() {
			return
		}
		// the node starts accepting connections; the client syncs to it
		node.SetBehaviour(ns.Behaviour{})
		if !ns.WaitUntil(20*time.Second, func() bool { return ns.Synced(cl.CS, base) }) {
			fail("client did not connect and sync within 20s", "setup")
			return
		}
		// a new block: whatever was accepted before must now be offered
		ext := base.Extend(1, int64(h.ID), 0.3)
		node.SetChain(ext, true)
		ann := ns.WaitUntil(25*time.Second, func() bool { return node.TxReceived(txHash) > 0 })
		h.Steps = append(h.Steps, EStep{Kind: "block", Announced: ann, Idx: 1})
		if !ann && len(fails) == 0 {
			fail("the transaction accepted while no peer was connected was not delivered to the peer within 25s of a new block", "not-reannounced")
		}
	case "silent-peer":
		if !ns.WaitUntil(20*time.Second, func() bool { return cl.CS.ConnectedCount() > 0 }) {
			fail("client did not connect within 20s", "setup")
			return
		}
		before := node.Received()["inv"]
		if !bc() {
			return
		}
		if node.Received()["inv"] <= before && len(fails) == 0 {
			fail("the connected peer never received an inv for the transaction", "not-announced")
		}
	}
	return fails
}
