// Correspondence harness for C05: drives the real ChainService.GetCFilter
// (and GetBlock, as a possible second producer of cached filters)
// (query.go: prepareCFiltersQuery, cfiltersQuery.handleResponse), the real
// filter database, batch writer and LRU filter cache through a skeleton with
// real header stores and a scripted work manager. Filters are real GCS
// filters built by builder.BuildBasicFilter on synthetic blocks; the
// committed filter headers are written to the real store. Writes the
// observations as a Coq cases file for Verif.C05.Replay.
package main

import (
	"errors"
	"fmt"
	"math/rand"
	"os"
	"path/filepath"
	"runtime/debug"
	"sort"
	"strings"
	"sync"
	"time"

	"github.com/btcsuite/btcd/btcutil/v2/gcs"
	"github.com/btcsuite/btcd/btcutil/v2/gcs/builder"
	"github.com/btcsuite/btcd/chainhash/v2"
	"github.com/btcsuite/btcd/wire/v2"
	"github.com/btcsuite/btcwallet/walletdb"
	"github.com/lightninglabs/neutrino"
	"github.com/lightninglabs/neutrino/cache/lru"
	"github.com/lightninglabs/neutrino/filterdb"
	"github.com/lightninglabs/neutrino/headerfs"
	"github.com/lightninglabs/neutrino/query"

	c "verifharness/internal/common"
	q "verifharness/internal/qskel"
)

// Resp is one scripted response.
type Resp struct {
	Kind   string `json:"kind"`
	Height int    `json:"height"` // block the response claims to be for
	Arg    int    `json:"arg,omitempty"`
	MSeed  int64  `json:"mseed,omitempty"`
	// observations / oracle inputs
	Req      int   `json:"req"` // 0 ok, 1 other message, 2 getcfilters of another type
	IsCF     bool  `json:"is_cf"`
	TypeOK   bool  `json:"type_ok"`
	Blk      int64 `json:"blk"`
	DecodeOK bool  `json:"decode_ok"`
	Filt     int64 `json:"filt"`
	Prog     int   `json:"prog"` // 0 none, 1 progressed, 2 finished
}

// Op is one operation of a history.
type Op struct {
	Kind     string  `json:"kind"`             // call|dropcache|purge|rewrite|rollback|extend|getblock
	Hold     bool    `json:"hold,omitempty"`   // call A: its query is held open while the next call is started
	Queued   bool    `json:"queued,omitempty"` // call B: started while the held call is in flight
	From     int     `json:"from,omitempty"`   // rewrite: filter headers From..tip are rolled back and re-written
	Toggle   []int   `json:"toggle,omitempty"` // rewrite: heights whose committed filter changes
	NewFHs   []int64 `json:"new_fhs,omitempty"`
	Upto     int     `json:"upto,omitempty"`     // extend: filter headers tip+1..Upto are committed (Toggle applies)
	NewBest  int64   `json:"new_best,omitempty"` // rewrite/rollback/extend: the filter header tip afterwards (observed)
	Height   int     `json:"height"` // -1: a hash without a header
	FType    int     `json:"ftype"`  // 0 regular
	Batch    int     `json:"batch"`  // 0 none, 1 forward, 2 reverse
	MaxBatch int64   `json:"max_batch"`
	Resps    []Resp  `json:"resps,omitempty"`
	Verdict  string  `json:"verdict,omitempty"`
	// call: write commits placed right after the read transaction of the
	// call's filter database lookup has ended (one PutFilters commit per
	// group; heights of committed blocks, the committed filter is written)
	Writes [][]int `json:"writes,omitempty"`
	// observations
	WTok  [][2]int64 `json:"wtok,omitempty"`  // the puts of Writes in order: (block id, filter token)
	WDone bool       `json:"wdone,omitempty"` // the read transaction happened and the commits were made
	Res     string     `json:"res,omitempty"` // filter|fetch|query|quit|other
	ResTok  int64      `json:"res_tok,omitempty"`
	Queried bool       `json:"queried,omitempty"`
	Range   [2]int64   `json:"range,omitempty"`
	Cache   [][2]int64 `json:"cache,omitempty"`
	DB      [][2]int64 `json:"db,omitempty"` // after the flush that follows the op
	Flushed bool       `json:"flushed,omitempty"`
}

// ChainCfg describes a committed chain.
type ChainCfg struct {
	Seed     int64         `json:"seed"`
	Specs    []q.BlockSpec `json:"specs"`
	FTip     int           `json:"ftip"`
	Poisoned []int         `json:"poisoned"`
}

// History is one replayable case.
type History struct {
	ID       int      `json:"id"`
	Chain    ChainCfg `json:"chain"`
	CacheCap uint64   `json:"cache_cap"`
	Persist  bool     `json:"persist"`
	Ops      []Op     `json:"ops"`
	// tables
	Best   int64      `json:"best"`
	FHs    []int64    `json:"fhs,omitempty"`
	HfTab  [][3]int64 `json:"hf,omitempty"`
	SizeT  [][2]int64 `json:"sizes,omitempty"`
	D0     [][2]int64 `json:"d0,omitempty"`
	Fail   string     `json:"fail,omitempty"`
	FailAt int        `json:"fail_at,omitempty"`
}

var errInjected = errors.New("scripted dispatcher failure")
var errPanicked = errors.New("GetCFilter panicked")

func mkSpecs(r *rand.Rand, n int) []q.BlockSpec {
	sp := make([]q.BlockSpec, n)
	for i := range sp {
		sp[i] = q.BlockSpec{NTx: r.Intn(4), Segwit: r.Intn(3) == 0}
	}
	if n > 4 {
		sp[r.Intn(n)] = q.BlockSpec{NTx: 1, NoScripts: true}
	}
	return sp
}

func chainCfgs(seed int64) []ChainCfg {
	r := c.Rng(seed, 900001)
	cfgs := []ChainCfg{
		{Seed: seed*10 + 1, Specs: mkSpecs(r, 24), FTip: 24, Poisoned: []int{7}},
		{Seed: seed*10 + 2, Specs: mkSpecs(r, 24), FTip: 20, Poisoned: []int{20}},
		{Seed: seed*10 + 3, Specs: mkSpecs(r, 3), FTip: 3},
		{Seed: seed*10 + 4, Specs: mkSpecs(r, 12), FTip: 12, Poisoned: []int{1, 12}},
	}
	// the longer chain of the overlapped-lookup family
	r5 := c.Rng(seed, 900005)
	big := mkSpecs(r5, 44)
	for i := range big {
		// larger blocks: filters of a few hundred bytes, so that the filter
		// bucket spans several database pages
		if !big[i].NoScripts {
			big[i].NTx = 12 + r5.Intn(40)
		}
	}
	cfgs = append(cfgs, ChainCfg{Seed: seed*10 + 5, Specs: big, FTip: 44})
	// real spends (separate stream: the specs above stay what they were): the
	// first transaction of about every second block with transactions spends
	// the previous block's coinbase output, whose script is in the filter
	r2 := c.Rng(seed, 900002)
	for ci := range cfgs {
		for i := range cfgs[ci].Specs {
			sp := &cfgs[ci].Specs[i]
			if sp.NTx > 0 && !sp.NoScripts && r2.Intn(2) == 0 {
				sp.SpendPrev = true
			}
		}
	}
	return cfgs
}

func clampRange(h, best, batch int, maxb int64) (int, int) {
	bsz := 1000
	if maxb > 0 && maxb < 1000 {
		bsz = int(maxb)
	}
	st, sp := h, h
	switch batch {
	case 1:
		sp = h + bsz - 1
	case 2:
		st = h - bsz + 1
	}
	if st < 1 {
		st = 1
	}
	if sp > best {
		sp = best
	}
	return st, sp
}

var badKinds = []string{"alt_variant", "true_filter", "other_filter", "corrupt", "truncate", "empty", "bad_n",
	"wrong_type", "unsolicited", "unknown_block", "noncfilter", "badreq", "badreq_type", "honest"}

func genCall(r *rand.Rand, cfg *ChainCfg, used []int, last bool) Op {
	n := len(cfg.Specs)
	best := cfg.FTip
	op := Op{Kind: "call"}
	x := r.Intn(100)
	switch {
	case x < 5:
		op.Height = -1
	case x < 11:
		op.Height = 0
	case x < 19:
		op.Height = 1
	case x < 27:
		op.Height = best
	case x < 33:
		op.Height = best + 1 + r.Intn(4)
		if op.Height > n {
			op.Height = n
		}
	case x < 55 && len(used) > 0:
		op.Height = used[r.Intn(len(used))]
	default:
		op.Height = 1 + r.Intn(best)
	}
	if r.Intn(100) < 4 {
		op.FType = 1
	}
	op.Batch = []int{0, 0, 1, 1, 2, 2, 1}[r.Intn(7)]
	op.MaxBatch = []int64{0, 1, 2, 3, 3, 5, 5, 8, 1000, 2000, -1}[r.Intn(11)]
	st, sp := 1, 0
	if op.Height >= 0 {
		st, sp = clampRange(op.Height, best, op.Batch, op.MaxBatch)
	}
	var rs []Resp
	structured := r.Intn(100) < 75
	for h := st; h <= sp; h++ {
		if structured || r.Intn(2) == 0 {
			if r.Intn(100) < 88 {
				rs = append(rs, Resp{Kind: "honest", Height: h})
			}
		}
	}
	r.Shuffle(len(rs), func(i, j int) { rs[i], rs[j] = rs[j], rs[i] })
	nbad := r.Intn(4)
	if !structured {
		nbad = 2 + r.Intn(6)
	}
	for i := 0; i < nbad; i++ {
		k := badKinds[r.Intn(len(badKinds))]
		var h int
		switch {
		case k == "unsolicited":
			h = 1 + r.Intn(n)
		case sp >= st && r.Intn(4) > 0:
			h = st + r.Intn(sp-st+1)
		default:
			h = r.Intn(n + 1)
		}
		b := Resp{Kind: k, Height: h, Arg: r.Intn(n + 1), MSeed: r.Int63()}
		pos := r.Intn(len(rs) + 1)
		rs = append(rs[:pos], append([]Resp{b}, rs[pos:]...)...)
	}
	// duplicates of earlier responses
	if len(rs) > 0 && r.Intn(3) == 0 {
		d := rs[r.Intn(len(rs))]
		rs = append(rs, d)
	}
	op.Resps = rs
	switch y := r.Intn(100); {
	case y < 82:
		op.Verdict = "ok"
	case y < 97 || !last:
		op.Verdict = "err"
	default:
		op.Verdict = "quit"
	}
	return op
}

func genHistory(r *rand.Rand, id int, cfg ChainCfg) History {
	h := History{ID: id, Chain: cfg, Persist: r.Intn(10) < 7}
	switch x := r.Intn(10); {
	case x < 5:
		h.CacheCap = 1 << 20
	case x < 9:
		h.CacheCap = uint64(40 + r.Intn(120))
	default:
		h.CacheCap = 6
	}
	nops := 4 + r.Intn(6)
	var used []int
	best := cfg.FTip
	for i := 0; i < nops; i++ {
		x := r.Intn(100)
		// call A held in flight / headers rewritten / call B queued behind A
		if best >= 3 && i < nops-1 && ((i == 0 && r.Intn(100) < 45) || (i > 0 && r.Intn(100) < 4)) {
			t := 2 + r.Intn(best-1) // B's target
			b := Op{Kind: "call", Queued: true, Height: t, Batch: []int{0, 0, 1, 2}[r.Intn(4)],
				MaxBatch: []int64{0, 1, 2, 3}[r.Intn(4)], Verdict: []string{"ok", "ok", "ok", "err"}[r.Intn(4)]}
			st, sp := clampRange(t, best, b.Batch, b.MaxBatch)
			// A: a single block outside B's range
			a := 1 + r.Intn(best)
			for tries := 0; a >= st && a <= sp && tries < 20; tries++ {
				a = 1 + r.Intn(best)
			}
			if a >= st && a <= sp {
				b.Batch, st, sp = 0, t, t
				a = 1
				if t == 1 {
					a = 2
				}
			}
			opA := Op{Kind: "call", Hold: true, Height: a, Verdict: []string{"ok", "ok", "err"}[r.Intn(3)]}
			if r.Intn(10) < 8 {
				opA.Resps = []Resp{{Kind: "honest", Height: a}}
			}
			for hh := st; hh <= sp; hh++ {
				pair := []Resp{{Kind: "alt_variant", Height: hh}, {Kind: "honest", Height: hh}}
				if r.Intn(2) == 0 {
					pair[0], pair[1] = pair[1], pair[0]
				}
				if hh != t && r.Intn(2) == 0 {
					pair = pair[1:]
				}
				b.Resps = append(b.Resps, pair...)
			}
			if r.Intn(3) == 0 {
				r.Shuffle(len(b.Resps), func(i, j int) { b.Resps[i], b.Resps[j] = b.Resps[j], b.Resps[i] })
			}
			h.Ops = append(h.Ops, opA)
			if r.Intn(10) < 7 {
				k := st
				if k > 1 && r.Intn(2) == 0 {
					k = 1 + r.Intn(k)
				}
				if a >= k && r.Intn(3) > 0 {
					// mostly leave A's own headers alone
					if a < t {
						k = a + 1
					}
				}
				tg := []int{t}
				for hh := k; hh <= best; hh++ {
					if hh != t && r.Intn(3) == 0 {
						tg = append(tg, hh)
					}
				}
				h.Ops = append(h.Ops, Op{Kind: "rewrite", From: k, Toggle: tg})
			}
			h.Ops = append(h.Ops, b)
			used = append(used, a, t)
			i++
			continue
		}
		if x >= 98 && best >= 2 {
			k := 1 + r.Intn(best)
			tg := []int{k + r.Intn(best-k+1)}
			h.Ops = append(h.Ops, Op{Kind: "rewrite", From: k, Toggle: tg})
			continue
		}
		switch {
		case x < 8 && i > 0:
			h.Ops = append(h.Ops, Op{Kind: "dropcache"})
		case x < 12:
			h.Ops = append(h.Ops, Op{Kind: "purge"})
		case x < 18:
			// GetBlock of a block whose filter was or will be asked for
			b := 1 + r.Intn(len(cfg.Specs))
			if len(used) > 0 && r.Intn(2) == 0 && used[len(used)-1] > 0 {
				b = used[len(used)-1]
			}
			h.Ops = append(h.Ops, Op{Kind: "getblock", Height: b})
			used = append(used, b)
		default:
			op := genCall(r, &cfg, used, i == nops-1)
			used = append(used, op.Height)
			if op.Batch != 0 && op.Height > 0 {
				// neighbours are likely asked next (what batching is for)
				used = append(used, op.Height+1, op.Height-1)
				for j := range used {
					if used[j] > len(cfg.Specs) {
						used[j] = len(cfg.Specs)
					}
					if used[j] < 0 {
						used[j] = 0
					}
				}
			}
			h.Ops = append(h.Ops, op)
		}
	}
	return h
}

func corpus(cfgs []ChainCfg) []History {
	H := func(h int) Resp { return Resp{Kind: "honest", Height: h} }
	B := func(k string, h int) Resp { return Resp{Kind: k, Height: h, Arg: 3, MSeed: 99} }
	call := func(h, batch int, maxb int64, v string, rs ...Resp) Op {
		return Op{Kind: "call", Height: h, Batch: batch, MaxBatch: maxb, Resps: rs, Verdict: v}
	}
	a, b, t, o := cfgs[0], cfgs[1], cfgs[2], cfgs[4]
	// ow: a lookup of block h whose read transaction is followed by the given
	// write commits; but(x, lo, hi, more...): blocks lo..hi without x, and more
	ow := func(h int, groups ...[]int) Op { return Op{Kind: "call", Height: h, Verdict: "err", Writes: groups} }
	but := func(x, lo, hi int, more ...int) []int {
		var l []int
		for i := lo; i <= hi; i++ {
			if i != x {
				l = append(l, i)
			}
		}
		return append(l, more...)
	}
	// two blocks of chain a that spend the previous block's coinbase output
	sp1, sp2 := 2, 3
	if real, _ := spenders(&a); len(real) >= 2 {
		sp1, sp2 = real[0], real[len(real)-1]
	}
	return []History{
		{ID: 0, Chain: a, CacheCap: 1 << 20, Persist: true, Ops: []Op{
			call(5, 0, 0, "ok", B("corrupt", 5), B("other_filter", 5), H(5), H(5)),
			call(5, 0, 0, "err"),
			{Kind: "dropcache"},
			call(5, 0, 0, "err"),
		}},
		{ID: 1, Chain: a, CacheCap: 1 << 20, Persist: true, Ops: []Op{
			call(7, 0, 0, "ok", B("true_filter", 7)),
			call(7, 1, 3, "ok", H(9), B("wrong_type", 8), H(8), B("unsolicited", 12), H(7), H(9)),
			call(8, 0, 0, "err"), call(9, 0, 0, "err"),
		}},
		{ID: 2, Chain: a, CacheCap: 1 << 20, Persist: false, Ops: []Op{
			call(1, 2, 5, "ok", H(1)),
			call(24, 1, 5, "ok", H(24)),
			call(24, 2, 3, "ok", H(22), H(23)),
			call(3, 2, 5, "ok", H(2), H(3), H(1)),
		}},
		{ID: 3, Chain: a, CacheCap: 1 << 20, Persist: true, Ops: []Op{
			{Kind: "call", Height: 0, Verdict: "ok"},
			{Kind: "purge"},
			call(0, 0, 0, "ok", H(0)),
			call(0, 1, 3, "ok", H(0), H(1), H(2)),
			call(1, 0, 0, "err"),
			call(-1, 0, 0, "ok", H(1)),
		}},
		{ID: 4, Chain: b, CacheCap: 1 << 20, Persist: true, Ops: []Op{
			call(21, 0, 0, "ok", H(21)),
			call(22, 0, 0, "ok", H(22)),
			call(21, 2, 4, "ok", H(18), H(19), H(20), H(21)),
			call(21, 1, 4, "ok", H(21)),
			call(20, 0, 0, "ok", B("true_filter", 20), H(20)),
			call(23, 0, 0, "ok", H(23)),
			call(24, 1, 3, "ok", H(24)),
			call(24, 2, 3, "ok", H(24)),
		}},
		{ID: 5, Chain: t, CacheCap: 1 << 20, Persist: true, Ops: []Op{
			call(1, 1, 0, "ok", H(3), H(2), H(1)),
			call(3, 2, 2000, "err"),
			{Kind: "dropcache"},
			call(2, 0, -1, "ok"),
			call(3, 0, 0, "quit", H(3)),
		}},
		{ID: 6, Chain: a, CacheCap: 60, Persist: true, Ops: []Op{
			call(10, 1, 8, "ok", H(10), H(11), H(12), H(13), H(14), H(15), H(16), H(17)),
			call(10, 0, 0, "err"), call(17, 0, 0, "err"), call(13, 0, 0, "err"),
		}},
		// queued call vs. header rewrite: B must verify against the headers
		// committed when its own query starts
		{ID: 8, Chain: a, CacheCap: 1 << 20, Persist: true, Ops: []Op{
			{Kind: "call", Hold: true, Height: 1, Resps: []Resp{H(1)}, Verdict: "ok"},
			{Kind: "rewrite", From: 5, Toggle: []int{5, 6}},
			{Kind: "call", Queued: true, Height: 6, Resps: []Resp{B("alt_variant", 6), H(6)}, Verdict: "ok"},
			call(6, 0, 0, "err"),
		}},
		{ID: 9, Chain: a, CacheCap: 1 << 20, Persist: false, Ops: []Op{
			{Kind: "call", Hold: true, Height: 2, Resps: []Resp{H(2)}, Verdict: "ok"},
			{Kind: "call", Queued: true, Height: 9, Batch: 1, MaxBatch: 2, Resps: []Resp{H(10), B("alt_variant", 9), H(9)}, Verdict: "ok"},
			{Kind: "call", Hold: true, Height: 3, Resps: []Resp{H(3)}, Verdict: "err"},
			{Kind: "rewrite", From: 12, Toggle: []int{13}},
			{Kind: "call", Queued: true, Height: 13, Batch: 2, MaxBatch: 2, Resps: []Resp{H(13), B("alt_variant", 13), B("alt_variant", 12), H(12)}, Verdict: "ok"},
		}},
		// finding F-C05-2 (repaired): a rewrite leaves a cached / stored filter
		// behind that no longer matches the committed header. It must not be
		// served (from the cache, then from the database); the next answered
		// query replaces it in both (healing)
		{ID: 10, Chain: a, CacheCap: 1 << 20, Persist: true, Ops: []Op{
			call(5, 0, 0, "ok", H(5)),
			{Kind: "rewrite", From: 5, Toggle: []int{5}},
			call(5, 0, 0, "err"),
			{Kind: "dropcache"},
			call(5, 0, 0, "err"),
			call(5, 0, 0, "ok", B("alt_variant", 5), H(5)),
			call(5, 0, 0, "err"),
			{Kind: "dropcache"},
			call(5, 0, 0, "err"),
			// rewritten back: the filter stored now is the stale one
			{Kind: "rewrite", From: 4, Toggle: []int{5}},
			call(5, 1, 2, "ok", H(6)),
			call(5, 1, 2, "ok", H(5)),
		}},
		// retry of the same range after the filter headers inside it were
		// rolled back and re-committed: filters matching the OLD headers must
		// be ignored (persisted / not persisted)
		{ID: 11, Chain: a, CacheCap: 1 << 20, Persist: true, Ops: []Op{
			call(6, 2, 4, "ok", H(3), H(4), B("alt_variant", 6)),
			{Kind: "rewrite", From: 5, Toggle: []int{5, 6}},
			call(6, 2, 4, "ok", B("alt_variant", 5), B("alt_variant", 6), H(3), H(4), H(5), H(6)),
			call(5, 0, 0, "err"), call(6, 0, 0, "err"),
		}},
		{ID: 12, Chain: a, CacheCap: 1 << 20, Persist: false, Ops: []Op{
			call(10, 1, 3, "err", H(11)),
			{Kind: "rewrite", From: 9, Toggle: []int{10, 12}},
			call(10, 1, 3, "ok", B("alt_variant", 12), B("alt_variant", 10), H(10), H(11), H(12)),
			call(10, 0, 0, "err"), call(12, 0, 0, "err"),
		}},
		// GetBlock is no producer of filters: GetBlock(B), then GetCFilter(B)
		{ID: 13, Chain: a, CacheCap: 1 << 20, Persist: true, Ops: []Op{
			{Kind: "getblock", Height: sp1},
			call(sp1, 0, 0, "ok"),
			{Kind: "getblock", Height: sp2},
			call(sp2, 0, 0, "ok", H(sp2)),
			{Kind: "getblock", Height: sp2},
			call(sp2, 0, 0, "err"),
		}},
		// database-served lookups overlapped by write commits
		{ID: 14, Chain: o, CacheCap: 1 << 20, Persist: true, Ops: []Op{
			call(10, 1, 8, "ok", honestRange(10, 17)...),
			{Kind: "dropcache"},
			ow(12, but(12, 10, 17, 1, 2, 3), []int{20, 21}, but(12, 10, 17, 22, 23, 24, 25), []int{4, 5}, but(12, 1, 5, 30, 31)),
			ow(15, but(15, 10, 17), []int{26}, but(15, 1, 5, 27, 28, 29), but(15, 10, 17, 16)),
			ow(0, []int{37, 38}, but(0, 1, 5), but(0, 10, 17, 39, 40, 41)),
			ow(17, but(17, 10, 17, 42, 43), []int{44, 12}, but(17, 20, 31)),
			ow(11, but(11, 1, 5), but(11, 10, 17), []int{6, 7}, but(11, 20, 31, 8, 9)),
			ow(21, but(21, 20, 31), []int{32}, but(21, 1, 17), but(21, 20, 31, 33, 34)),
			ow(3, but(3, 1, 9), []int{35}, but(3, 10, 31), []int{36}, but(3, 1, 9)),
			ow(30, but(30, 20, 36), but(30, 1, 19), []int{2}, but(30, 20, 44)),
			call(12, 0, 0, "err"), call(20, 0, 0, "err"),
		}},
		// filter headers rolled back below blocks with local copies (no
		// re-commit): nothing above the filter header tip may be returned,
		// from cache or database, whatever the network says; then the headers
		// catch up, block 12 committing to another filter
		{ID: 15, Chain: a, CacheCap: 1 << 20, Persist: true, Ops: []Op{
			call(8, 1, 5, "ok", honestRange(8, 12)...),
			{Kind: "rollback", From: 11},
			call(12, 0, 0, "ok", H(12)),
			call(11, 2, 3, "ok", H(11), H(10), H(9)),
			call(10, 0, 0, "err"),
			{Kind: "dropcache"},
			call(12, 0, 0, "err"),
			call(11, 1, 2, "ok", H(11), H(12)),
			call(10, 0, 0, "err"),
			{Kind: "extend", Upto: 24, Toggle: []int{12}},
			call(11, 0, 0, "err"),
			call(12, 0, 0, "ok", B("alt_variant", 12), H(12)),
			call(12, 0, 0, "err"),
		}},
		// the reset variant, not persisted: filter headers back to the genesis
		// block, the cache still holding the filters
		{ID: 16, Chain: a, CacheCap: 1 << 20, Persist: false, Ops: []Op{
			call(3, 1, 4, "ok", honestRange(3, 6)...),
			{Kind: "rollback", From: 1},
			call(3, 0, 0, "ok", H(3)),
			call(1, 2, 3, "ok", H(1)),
			call(0, 0, 0, "err"),
			{Kind: "extend", Upto: 5},
			call(3, 0, 0, "err"),
			call(6, 0, 0, "ok", H(6)),
			call(5, 2, 2, "ok"),
		}},
		{ID: 7, Chain: a, CacheCap: 1 << 20, Persist: true, Ops: []Op{
			call(4, 1, 2, "ok", H(4), B("empty", 5), B("bad_n", 5), B("truncate", 5), B("noncfilter", 5), B("badreq", 5), B("badreq_type", 5), B("unknown_block", 5)),
			call(5, 0, 0, "ok", H(5)),
			{Kind: "call", Height: 5, FType: 1, Verdict: "ok"},
		}},
	}
}

// ---------------------------------------------------------------------

type chainEntry struct {
	once  sync.Once
	chain *q.Chain
	tmpl  string
}

var (
	chainMu sync.Mutex
	chains  = map[string]*chainEntry{}
)

func getChain(cfg *ChainCfg, work string) (*q.Chain, string) {
	key := fmt.Sprintf("%d/%v/%d/%v", cfg.Seed, cfg.Specs, cfg.FTip, cfg.Poisoned)
	chainMu.Lock()
	e := chains[key]
	if e == nil {
		e = &chainEntry{tmpl: filepath.Join(work, fmt.Sprintf("tmpl-%d", len(chains)))}
		chains[key] = e
	}
	chainMu.Unlock()
	e.once.Do(func() {
		p := map[int]bool{}
		for _, x := range cfg.Poisoned {
			p[x] = true
		}
		e.chain = q.BuildChain(rand.New(rand.NewSource(cfg.Seed)), cfg.Specs, cfg.FTip, p)
		q.MakeTemplate(e.tmpl, e.chain)
	})
	return e.chain, e.tmpl
}

type runner struct {
	ch      *q.Chain
	env     *q.Env
	hashID  map[chainhash.Hash]int64
	nextHID int64
	variant []int // per height: 0 = Commit filter committed, 1 = Alt filter committed
	ctls    chan *callCtl
	ftok    *q.Interner // filters by N-bytes
	htok    *q.Interner // filter headers
	fhs     []chainhash.Hash
	hf      map[[2]int64]int64
	sizes   map[int64]int64
	rdb     *racingDB             // the service's walletdb: runs armed write commits after a read transaction
	wfdb    filterdb.FilterDatabase // the overlapping writers' handle on the same database
	added   int // items handed to the batch writer (progress reports while persisting)
	written int
	fails   []string
}

func (ru *runner) hid(h chainhash.Hash) int64 {
	if id, ok := ru.hashID[h]; ok {
		return id
	}
	id := ru.nextHID
	ru.nextHID++
	ru.hashID[h] = id
	return id
}

func (ru *runner) hdrTok(h chainhash.Hash) int64 {
	if h == (chainhash.Hash{}) {
		return 0
	}
	return ru.htok.Tok(h[:])
}

// noteFilter interns a decoded filter and evaluates MakeHeaderForFilter
// against the committed header below block id blk (when there is one).
func (ru *runner) noteFilter(f *gcs.Filter, blk int64) int64 {
	nb, err := f.NBytes()
	if err != nil {
		panic(err)
	}
	tok := ru.ftok.Tok(nb)
	ru.sizes[tok] = int64(len(nb))
	if blk >= 0 && blk-1 < int64(len(ru.fhs)) {
		var prev chainhash.Hash
		if blk > 0 {
			prev = ru.fhs[blk-1]
		}
		key := [2]int64{tok, ru.hdrTok(prev)}
		if _, ok := ru.hf[key]; !ok {
			h, err := builder.MakeHeaderForFilter(f, prev)
			if err != nil {
				panic(err)
			}
			ru.hf[key] = ru.hdrTok(h)
		}
	}
	return tok
}

func filterBytes(f *gcs.Filter) []byte {
	b, err := f.NBytes()
	if err != nil {
		panic(err)
	}
	return b
}

// buildResp builds the wire messages of r.
func (ru *runner) buildResp(r *Resp, reqMsg wire.Message) (wire.Message, wire.Message) {
	ch := ru.ch
	n := len(ch.Blocks) - 1
	h := r.Height
	if h < 0 || h > n {
		h = 0
	}
	rr := rand.New(rand.NewSource(r.MSeed))
	hash := ch.Hashes[h]
	ft := wire.GCSFilterRegular
	cur, other := ch.Commit[h], ch.Alt[h]
	if ru.variant[h] == 1 {
		cur, other = other, cur
	}
	data := filterBytes(cur)
	req := reqMsg
	switch r.Kind {
	case "honest":
	case "alt_variant":
		data = filterBytes(other)
	case "true_filter":
		data = filterBytes(ch.Filters[h])
	case "other_filter":
		o := r.Arg % (n + 1)
		if o == h {
			o = (o + 1) % (n + 1)
		}
		data = filterBytes(ch.Commit[o])
	case "corrupt":
		data = append([]byte{}, data...)
		i := rr.Intn(len(data))
		data[i] ^= 1 << uint(rr.Intn(8))
	case "truncate":
		if len(data) > 1 {
			data = data[:len(data)-1]
		} else {
			data = append(append([]byte{}, data...), 0x55)
		}
	case "empty":
		data = nil
	case "bad_n":
		data = append([]byte{0xfd, 0x01}, data...) // non-canonical / wrong N
	case "wrong_type":
		ft = wire.FilterType(1 + rr.Intn(3))
	case "unsolicited":
	case "unknown_block":
		rr.Read(hash[:])
	case "noncfilter":
		switch rr.Intn(3) {
		case 0:
			m := wire.NewMsgCFHeaders()
			m.StopHash = hash
			return req, m
		case 1:
			return req, ch.Blocks[h]
		default:
			return req, wire.NewMsgCFCheckpt(wire.GCSFilterRegular, &hash, 0)
		}
	case "badreq":
		req = wire.NewMsgGetData()
	case "badreq_type":
		orig := reqMsg.(*wire.MsgGetCFilters)
		req = wire.NewMsgGetCFilters(wire.FilterType(1), orig.StartHeight, &orig.StopHash)
	default:
		panic("kind " + r.Kind)
	}
	return req, wire.NewMsgCFilter(ft, &hash, data)
}

func (ru *runner) observeCache(op *Op) {
	op.Cache = [][2]int64{}
	ru.env.CS.FilterCache.RangeFILO(func(k neutrino.FilterCacheKey, v *neutrino.CacheableFilter) bool {
		id := ru.hid(k.BlockHash)
		if k.FilterType != filterdb.RegularFilter {
			id = -7
		}
		op.Cache = append(op.Cache, [2]int64{id, ru.noteFilter(v.Filter, id)})
		return true
	})
}

func (ru *runner) observeDB(op *Op) {
	op.DB = [][2]int64{}
	err := walletdb.View(ru.env.DB, func(tx walletdb.ReadTx) error {
		bk := tx.ReadBucket([]byte("filter-store")).NestedReadBucket([]byte("regular"))
		return bk.ForEach(func(k, v []byte) error {
			var h chainhash.Hash
			copy(h[:], k)
			id := ru.hid(h)
			f, err := gcs.FromNBytes(builder.DefaultP, builder.DefaultM, v)
			if err != nil {
				op.DB = append(op.DB, [2]int64{id, -9})
				return nil
			}
			op.DB = append(op.DB, [2]int64{id, ru.noteFilter(f, id)})
			return nil
		})
	})
	if err != nil {
		panic(err)
	}
	sort.Slice(op.DB, func(i, j int) bool { return op.DB[i][0] < op.DB[j][0] })
}

// flush waits until the batch writer has persisted everything it was given.
func (ru *runner) flush() bool {
	deadline := time.After(10 * time.Second)
	for ru.written < ru.added {
		select {
		case n := <-ru.env.Cnt.Written:
			ru.written += n
		case <-deadline:
			return false
		}
	}
	return true
}

// callCtl couples one GetCFilter call with the scripted work manager.
type callCtl struct {
	op       *Op
	block    bool          // a GetBlock call: answered with the block itself
	hold     bool          // keep the query open until finish()
	gate     chan struct{} // if set: wait for it before touching anything
	inFlight chan struct{} // closed when the query is (held) in flight / reached the gate
	errChan  chan error
	queried  bool
	done     chan callRes
}

type callRes struct {
	f   *gcs.Filter
	err error
}

// serve is the scripted work manager's answer to the query of ctl.
func (ru *runner) serve(ctl *callCtl, persist bool, reqs []*query.Request) chan error {
	errChan := make(chan error, 1)
	ctl.errChan = errChan
	if ctl.gate != nil {
		close(ctl.inFlight)
		select {
		case <-ctl.gate:
		case <-time.After(30 * time.Second):
		}
	}
	op := ctl.op
	ctl.queried = true
	if len(reqs) != 1 {
		ru.fails = append(ru.fails, fmt.Sprintf("request: %d requests in one GetCFilter query", len(reqs)))
		errChan <- errInjected
		return errChan
	}
	if gd, isGD := reqs[0].Req.(*wire.MsgGetData); ctl.block || isGD {
		// GetBlock: an honest peer sends the block
		if !ctl.block || !isGD || len(gd.InvList) != 1 || gd.InvList[0].Hash != ru.ch.Hashes[op.Height] {
			ru.fails = append(ru.fails, "request: unexpected getdata / GetBlock did not ask for the requested block")
			errChan <- errInjected
			return errChan
		}
		reqs[0].HandleResp(reqs[0].Req, ru.ch.Blocks[op.Height], q.PeerAddr(1))
		errChan <- nil
		return errChan
	}
	gcf, ok := reqs[0].Req.(*wire.MsgGetCFilters)
	if !ok || gcf.FilterType != wire.GCSFilterRegular {
		ru.fails = append(ru.fails, "request: GetCFilter did not send a regular getcfilters")
	} else {
		op.Range = [2]int64{int64(gcf.StartHeight), ru.hid(gcf.StopHash)}
	}
	for ri := range op.Resps {
		r := &op.Resps[ri]
		req, msg := ru.buildResp(r, reqs[0].Req)
		switch {
		case req == reqs[0].Req:
			r.Req = 0
		case r.Kind == "badreq_type":
			r.Req = 2
		default:
			r.Req = 1
		}
		r.IsCF, r.TypeOK, r.DecodeOK, r.Blk, r.Filt = false, false, false, 0, 0
		if cf, isCF := msg.(*wire.MsgCFilter); isCF {
			r.IsCF = true
			r.TypeOK = cf.FilterType == wire.GCSFilterRegular
			r.Blk = ru.hid(cf.BlockHash)
			f, err := gcs.FromNBytes(builder.DefaultP, builder.DefaultM, cf.Data)
			if err == nil {
				if _, err2 := builder.MakeHeaderForFilter(f, chainhash.Hash{}); err2 == nil {
					r.DecodeOK = true
					r.Filt = ru.noteFilter(f, r.Blk)
				}
			}
		}
		pg := reqs[0].HandleResp(req, msg, q.PeerAddr(1+ri%5))
		r.Prog = 0
		switch {
		case pg.Finished && pg.Progressed:
			r.Prog = 2
		case pg.Progressed:
			r.Prog = 1
		case pg.Finished:
			r.Prog = 3
		}
		if r.Prog != 0 && persist {
			ru.added++
		}
	}
	if ctl.hold {
		close(ctl.inFlight)
		return errChan
	}
	ru.verdict(ctl)
	return errChan
}

func (ru *runner) verdict(ctl *callCtl) {
	switch ctl.op.Verdict {
	case "ok":
		ctl.errChan <- nil
	case "err":
		ctl.errChan <- errInjected
	case "quit":
		ru.env.CS.VerifQuit()
	}
}

// start launches GetCFilter for op in a goroutine.
func (ru *runner) start(op *Op, oi int, hold, gated bool) *callCtl {
	ch := ru.ch
	n := len(ch.Blocks) - 1
	var target chainhash.Hash
	if op.Height >= 0 && op.Height <= n {
		target = ch.Hashes[op.Height]
	} else {
		op.Height = -1
		target = chainhash.Hash{0xee, byte(oi), 0x02}
	}
	op.Range = [2]int64{0, 0}
	ctl := &callCtl{op: op, hold: hold, inFlight: make(chan struct{}), done: make(chan callRes, 1)}
	if gated {
		ctl.gate = make(chan struct{})
	}
	ru.ctls <- ctl
	op.WDone, op.WTok = false, nil
	if len(op.Writes) > 0 {
		ru.armWrites(op)
	}
	go func() {
		// a slice into a released page of the memory mapped database file
		// faults instead of panicking: turn it into a panic and report it
		debug.SetPanicOnFault(true)
		defer func() {
			if e := recover(); e != nil {
				ctl.done <- callRes{nil, fmt.Errorf("%w: %v", errPanicked, e)}
			}
		}()
		var opts []neutrino.QueryOption
		switch op.Batch {
		case 1:
			opts = append(opts, neutrino.OptimisticBatch())
		case 2:
			opts = append(opts, neutrino.OptimisticReverseBatch())
		}
		if op.MaxBatch != 0 {
			opts = append(opts, neutrino.MaxBatchSize(op.MaxBatch))
		}
		if oi%3 == 1 {
			opts = append(opts, neutrino.NumRetries(uint8(oi)))
		}
		ft := wire.GCSFilterRegular
		if op.FType != 0 {
			ft = wire.FilterType(op.FType)
		}
		f, err := ru.env.CS.GetCFilter(target, ft, opts...)
		ctl.done <- callRes{f, err}
	}()
	return ctl
}

// localHit tells whether GetCFilter for the block at height would be answered
// from the cache or the database (without touching the LRU order).
func (ru *runner) localHit(height int) bool {
	if height < 0 || height >= len(ru.ch.Hashes) {
		return false
	}
	hash := ru.ch.Hashes[height]
	hit := false
	ru.env.CS.FilterCache.RangeFILO(func(k neutrino.FilterCacheKey, _ *neutrino.CacheableFilter) bool {
		if k.BlockHash == hash {
			hit = true
			return false
		}
		return true
	})
	if hit {
		return true
	}
	f, err := ru.env.CS.FilterDB.FetchFilter(&hash, filterdb.RegularFilter)
	return err == nil && f != nil
}

// finishObs waits for the call's result and records the observations.
func (ru *runner) finishObs(h *History, ctl *callCtl, oi int) bool {
	op := ctl.op
	var out callRes
	select {
	case out = <-ctl.done:
	case <-time.After(30 * time.Second):
		h.Fail, h.FailAt = fmt.Sprintf("hang: GetCFilter did not return (op %d)", oi), oi
		return false
	}
	// a call that never reached the work manager leaves its ctl queued
	if !ctl.queried {
		select {
		case c2 := <-ru.ctls:
			if c2 != ctl {
				ru.ctls <- c2
			}
		default:
		}
	}
	op.Queried = ctl.queried
	if len(op.Writes) > 0 {
		op.WDone = ru.rdb.disarm()
	}
	switch {
	case errors.Is(out.err, errPanicked):
		h.Fail, h.FailAt = fmt.Sprintf("panic: %v (op %d)", out.err, oi), oi
		return false
	case out.err == nil && out.f != nil:
		op.Res = "filter"
		op.ResTok = ru.noteFilter(out.f, int64(op.Height))
	case errors.Is(out.err, neutrino.ErrShuttingDown):
		op.Res = "quit"
	case errors.Is(out.err, errInjected):
		op.Res = "query"
	case errors.Is(out.err, neutrino.ErrFilterFetchFailed):
		op.Res = "fetch"
	case out.err != nil:
		op.Res = "other"
	default:
		op.Res = "nil-nil"
		ru.fails = append(ru.fails, "result: GetCFilter returned (nil, nil)")
	}
	ru.observeCache(op)
	if h.Persist || len(op.Writes) > 0 {
		if !ru.flush() {
			h.Fail, h.FailAt = fmt.Sprintf("hang: batch writer did not persist %d queued filters", ru.added-ru.written), oi
			return false
		}
		op.Flushed = true
		ru.observeDB(op)
	}
	if len(ru.fails) > 0 && h.Fail == "" {
		h.Fail, h.FailAt = ru.fails[0], oi
	}
	return true
}

// rewrite rolls the filter header store back to From-1 and writes new headers
// From..tip through the real store; the filters committed at the toggled
// heights change, and so do all headers from From on.
func (ru *runner) rewrite(op *Op) {
	tip := len(ru.fhs) - 1
	k := op.From
	if k < 1 {
		k = 1
	}
	if k > tip {
		k = tip
	}
	op.From = k
	ru.rechain(op, k, tip)
}

// rollback rolls the filter headers From..tip back WITHOUT committing new
// ones: the block headers stay, the blocks From..tip have no committed filter
// header any more (From = 1: what a reset of the filter headers at start-up
// leaves behind, the filter database surviving).
func (ru *runner) rollback(op *Op) {
	tip := len(ru.fhs) - 1
	k := op.From
	if k < 1 {
		k = 1
	}
	if k > tip+1 {
		k = tip + 1
	}
	op.From = k
	ru.rechain(op, k, k-1)
}

// extend commits filter headers for the blocks tip+1..Upto (filter headers
// catching up with the block headers; the committed filter of the toggled
// heights is the other variant).
func (ru *runner) extend(op *Op) {
	tip := len(ru.fhs) - 1
	n := len(ru.ch.Blocks) - 1
	if op.Upto > n {
		op.Upto = n
	}
	if op.Upto < tip {
		op.Upto = tip
	}
	ru.rechain(op, tip+1, op.Upto)
}

// rechain rolls the filter header store back to k-1 (if its tip is above) and
// writes headers k..upto through the real store; afterwards the committed
// headers and the tip are read back from the store.
func (ru *runner) rechain(op *Op, k, upto int) {
	fs := ru.env.CS.RegFilterHeaders
	tip := len(ru.fhs) - 1
	for h := tip; h >= k; h-- {
		if _, err := fs.RollbackLastBlock(&ru.ch.Hashes[h-1]); err != nil {
			panic(err)
		}
	}
	if tip >= k {
		ru.fhs = ru.fhs[:k]
	}
	for _, t := range op.Toggle {
		if t >= k && t <= upto {
			ru.variant[t] = 1 - ru.variant[t]
		}
	}
	var hdrs []headerfs.FilterHeader
	prev := ru.fhs[k-1]
	for h := k; h <= upto; h++ {
		f := ru.ch.Commit[h]
		if ru.variant[h] == 1 {
			f = ru.ch.Alt[h]
		}
		nh, err := builder.MakeHeaderForFilter(f, prev)
		if err != nil {
			panic(err)
		}
		hdrs = append(hdrs, headerfs.FilterHeader{HeaderHash: ru.ch.Hashes[h], FilterHash: nh, Height: uint32(h)})
		prev = nh
	}
	if len(hdrs) > 0 {
		if err := fs.WriteHeaders(hdrs...); err != nil {
			panic(err)
		}
	}
	// what the store says now: its tip (from the index) and the headers up
	// to it
	_, ftip, err := fs.ChainTip()
	if err != nil {
		panic(err)
	}
	ru.fhs = ru.fhs[:k]
	for h := k; h <= int(ftip); h++ {
		got, err := fs.FetchHeaderByHeight(uint32(h))
		if err != nil {
			panic(err)
		}
		ru.fhs = append(ru.fhs, *got)
	}
	if int(ftip) < k-1 {
		ru.fhs = ru.fhs[:ftip+1]
	}
	bb, err := ru.env.CS.BestBlock()
	if err != nil {
		panic(err)
	}
	op.NewBest = int64(bb.Height)
	op.NewFHs = nil
	for _, x := range ru.fhs {
		op.NewFHs = append(op.NewFHs, ru.hdrTok(x))
	}
}

func runHistory(h *History, work string) {
	ch, tmpl := getChain(&h.Chain, work)
	dir := filepath.Join(work, fmt.Sprintf("case-%d", h.ID))
	q.CopyDir(tmpl, dir)
	defer os.RemoveAll(dir)
	rdb := &racingDB{}
	env := q.Open(dir, q.EnvConfig{FilterCacheSize: h.CacheCap, Persist: h.Persist, Ticker: 15 * time.Millisecond,
		WrapDB: func(db walletdb.DB) walletdb.DB { rdb.DB = db; return rdb },
		WrapFilterDB: func(f filterdb.FilterDatabase) filterdb.FilterDatabase {
			return &markingFDB{FilterDatabase: f, rdb: rdb}
		}})
	defer env.Close()
	// the overlapping writers commit one plain read-write transaction per
	// group (no bbolt batching delay): a handle that hides BatchDB
	wfdb, err := filterdb.New(struct{ walletdb.DB }{env.DB}, q.Params)
	if err != nil {
		panic(err)
	}

	ru := &runner{ch: ch, env: env, hashID: map[chainhash.Hash]int64{}, nextHID: 1000,
		ftok: q.NewInterner(10), htok: q.NewInterner(100), hf: map[[2]int64]int64{}, sizes: map[int64]int64{},
		variant: make([]int, len(ch.Blocks)), ctls: make(chan *callCtl, 4), rdb: rdb, wfdb: wfdb}
	for i, hh := range ch.Hashes {
		ru.hashID[hh] = int64(i)
	}
	env.WM.OnQuery = func(reqs []*query.Request, _ []query.QueryOption) chan error {
		select {
		case ctl := <-ru.ctls:
			return ru.serve(ctl, h.Persist, reqs)
		default:
			ru.fails = append(ru.fails, "request: unexpected query")
			ec := make(chan error, 1)
			ec <- errInjected
			return ec
		}
	}
	// committed filter headers as the store has them
	_, ftip, err := env.CS.RegFilterHeaders.ChainTip()
	if err != nil {
		panic(err)
	}
	for i := uint32(0); i <= ftip; i++ {
		fhh, err := env.CS.RegFilterHeaders.FetchHeaderByHeight(i)
		if err != nil {
			panic(err)
		}
		ru.fhs = append(ru.fhs, *fhh)
	}
	bb, err := env.CS.BestBlock()
	if err != nil {
		panic(err)
	}
	h.Best = int64(bb.Height)
	h.FHs = nil
	for _, x := range ru.fhs {
		h.FHs = append(h.FHs, ru.hdrTok(x))
	}
	var d0 Op
	ru.observeDB(&d0)
	h.D0 = d0.DB

	for oi := 0; oi < len(h.Ops); oi++ {
		op := &h.Ops[oi]
		switch op.Kind {
		case "dropcache":
			env.CS.FilterCache = lru.NewCache[neutrino.FilterCacheKey, *neutrino.CacheableFilter](h.CacheCap)
			ru.observeCache(op)
			continue
		case "purge":
			if err := env.CS.FilterDB.PurgeFilters(filterdb.RegularFilter); err != nil {
				panic(err)
			}
			ru.observeCache(op)
			ru.observeDB(op)
			continue
		case "rewrite", "rollback", "extend":
			switch op.Kind {
			case "rewrite":
				ru.rewrite(op)
			case "rollback":
				ru.rollback(op)
			default:
				ru.extend(op)
			}
			ru.observeCache(op)
			ru.observeDB(op)
			continue
		case "getblock":
			if !ru.getBlock(h, op, oi) {
				return
			}
			continue
		}
		if !op.Hold {
			ctl := ru.start(op, oi, false, false)
			if !ru.finishObs(h, ctl, oi) {
				return
			}
			continue
		}
		// call A is held in flight (it owns the single-flight mutex), call B is
		// started and parks on the mutex, the headers are (possibly)
		// rewritten, A completes, then B's query is answered.
		ctlA := ru.start(op, oi, true, false)
		inFlight := false
		select {
		case <-ctlA.inFlight:
			inFlight = true
		case r := <-ctlA.done:
			ctlA.done <- r // A never reached the network: plain sequential execution
		case <-time.After(30 * time.Second):
			h.Fail, h.FailAt = fmt.Sprintf("hang: GetCFilter neither queried nor returned (op %d)", oi), oi
			return
		}
		// find B (the next call) and an optional rewrite in between
		bi, ri := -1, -1
		for j := oi + 1; j < len(h.Ops) && j <= oi+2; j++ {
			if h.Ops[j].Kind == "rewrite" && ri < 0 && bi < 0 {
				ri = j
			} else if h.Ops[j].Kind == "call" && h.Ops[j].Queued {
				bi = j
				break
			} else {
				break
			}
		}
		// a B that is answered locally (or refused at once) does not queue on
		// the mutex: run it sequentially instead (its cache access would be
		// reordered with A's observation otherwise)
		if inFlight && bi >= 0 && (h.Ops[bi].FType != 0 || ru.localHit(h.Ops[bi].Height)) {
			bi = -1
		}
		if !inFlight || bi < 0 {
			if inFlight {
				ru.verdict(ctlA)
			}
			if !ru.finishObs(h, ctlA, oi) {
				return
			}
			continue
		}
		ctlB := ru.start(&h.Ops[bi], bi, false, true)
		// let B reach the mutex: it can neither finish a network query nor
		// reach the work manager while A is in flight
		select {
		case <-ctlB.inFlight:
			ru.fails = append(ru.fails, "mutex: a second GetCFilter query went out while one was in flight")
		case <-time.After(60 * time.Millisecond):
		}
		if ri >= 0 {
			ru.rewrite(&h.Ops[ri])
		}
		ru.verdict(ctlA)
		if !ru.finishObs(h, ctlA, oi) {
			return
		}
		if ri >= 0 {
			ru.observeCache(&h.Ops[ri])
			ru.observeDB(&h.Ops[ri])
		}
		close(ctlB.gate)
		if !ru.finishObs(h, ctlB, bi) {
			return
		}
		oi = bi
	}
	h.HfTab = nil
	for k, v := range ru.hf {
		h.HfTab = append(h.HfTab, [3]int64{k[0], k[1], v})
	}
	sort.Slice(h.HfTab, func(i, j int) bool {
		if h.HfTab[i][0] != h.HfTab[j][0] {
			return h.HfTab[i][0] < h.HfTab[j][0]
		}
		return h.HfTab[i][1] < h.HfTab[j][1]
	})
	h.SizeT = nil
	for k, v := range ru.sizes {
		h.SizeT = append(h.SizeT, [2]int64{k, v})
	}
	sort.Slice(h.SizeT, func(i, j int) bool { return h.SizeT[i][0] < h.SizeT[j][0] })
}

func pairs(l [][2]int64) string {
	it := make([]string, len(l))
	for i, p := range l {
		it[i] = c.Pair(c.Z(p[0]), c.Z(p[1]))
	}
	return c.List(it)
}

func caseTerm(h *History) (string, string) {
	var hf []string
	for _, e := range h.HfTab {
		hf = append(hf, fmt.Sprintf("((%s, %s), %s)", c.Z(e[0]), c.Z(e[1]), c.Z(e[2])))
	}
	var steps, sig []string
	for i := range h.Ops {
		op := &h.Ops[i]
		switch op.Kind {
		case "dropcache":
			steps = append(steps, c.Pair("XD", c.App("O_", "RNone", "false", "(0, 0)", "[]", pairs(op.Cache), "[]")))
			sig = append(sig, "D")
			continue
		case "purge":
			steps = append(steps, c.Pair("XP", c.App("O_", "RNone", "false", "(0, 0)", "[]", pairs(op.Cache), pairs(op.DB))))
			sig = append(sig, "P")
			continue
		case "rewrite", "rollback", "extend":
			steps = append(steps, c.Pair(c.App("XR", c.Z(op.NewBest), c.Ints(op.NewFHs)), c.App("O_", "RNone", "false", "(0, 0)", "[]", pairs(op.Cache), pairs(op.DB))))
			sig = append(sig, map[string]string{"rewrite": "W", "rollback": "B", "extend": "X"}[op.Kind])
			continue
		case "getblock":
			steps = append(steps, c.Pair(c.App("XG", c.Z(int64(op.Height))), c.App("O_", "RNone", "false", "(0, 0)", "[]", pairs(op.Cache), pairs(op.DB))))
			sig = append(sig, "G")
			continue
		}
		var rs, pg []string
		s := fmt.Sprintf("b%d", op.Batch)
		if op.Hold {
			s = "H" + s
		}
		if op.Queued {
			s = "Q" + s
		}
		if len(op.Writes) > 0 {
			if op.WDone {
				s = "O" + s
			} else {
				s = "o" + s
			}
		}
		for _, r := range op.Resps {
			rs = append(rs, c.App("R_", c.Z(int64(r.Req)), c.Bool(r.IsCF), c.Bool(r.TypeOK), c.Z(r.Blk), c.Bool(r.DecodeOK), c.Z(r.Filt)))
			if op.Queried {
				pg = append(pg, []string{"np", "pr", "fin", "fin; fin"}[r.Prog])
				s += []string{"i", "p", "f", "?"}[r.Prog]
			}
		}
		v := map[string]string{"ok": "VOk", "err": "VErr", "quit": "VQuit"}[op.Verdict]
		blk := int64(op.Height)
		if op.Height < 0 {
			blk = 5000 + int64(i)
		}
		call := c.App("C_", c.Z(blk), c.Bool(op.Height >= 0), c.Bool(op.FType == 0), c.Z(int64(op.Batch)), c.Z(op.MaxBatch), c.List(rs), v)
		if len(op.Writes) > 0 {
			call = c.App("CW_", c.Z(blk), c.Bool(op.Height >= 0), c.Bool(op.FType == 0), c.Z(int64(op.Batch)), c.Z(op.MaxBatch), c.List(rs), v, pairs(op.WTok))
		}
		var res string
		switch op.Res {
		case "filter":
			res = c.App("RFilter", c.Z(op.ResTok))
			if op.Queried {
				s += "N"
			} else {
				s += "L"
			}
		case "fetch":
			res, s = "RErrFetch", s+"E"
		case "query":
			res, s = "RErrQuery", s+"E"
		case "quit":
			res, s = "RErrQuit", s+"E"
		default:
			res, s = "RErrOther", s+"E"
		}
		obs := c.App("O_", res, c.Bool(op.Queried), c.Pair(c.Z(op.Range[0]), c.Z(op.Range[1])), c.List(pg), pairs(op.Cache), "[]")
		steps = append(steps, c.Pair(call, obs))
		sig = append(sig, s)
		if op.Flushed {
			steps = append(steps, c.Pair("(XF 1000000)", c.App("O_", "RNone", "false", "(0, 0)", "[]", pairs(op.Cache), pairs(op.DB))))
		}
	}
	t := fmt.Sprintf("(%d, (%d, %d, %s, %s,\n  %s,\n  %s, %s,\n  %s))", h.ID, h.Best, h.CacheCap, c.Bool(h.Persist),
		c.Ints(h.FHs), c.List(hf), pairs(h.SizeT), pairs(h.D0), c.List(steps))
	return t, strings.Join(sig, ".")
}

func main() {
	a := c.ParseArgs()
	rep := c.NewReport("C05", a)
	var hs []History
	if a.Replay != "" {
		// a stored history, or a replay file written by ./check (the history
		// is wrapped: {"property": ..., "history": {...}})
		var w struct {
			History *History `json:"history"`
		}
		var h History
		c.ReadJSON(a.Replay, &w)
		if w.History != nil {
			h = *w.History
		} else {
			c.ReadJSON(a.Replay, &h)
		}
		hs = []History{h}
	} else {
		cfgs := chainCfgs(a.Seed)
		hs = corpus(chainCfgs(7))
		n := 140
		if a.Tier == "thorough" {
			n = 8000
		}
		for i := 0; i < n; i++ {
			r := c.Rng(a.Seed, i)
			hs = append(hs, genHistory(r, len(hs), cfgs[[]int{0, 0, 1, 1, 2, 3}[r.Intn(6)]]))
		}
		// the deliberate families (families.go)
		nf := n / 10
		for i := 0; i < nf; i++ {
			r := c.Rng(a.Seed, 400000+i)
			hs = append(hs, genRetry(r, len(hs), cfgs[[]int{0, 0, 1, 3, 4}[r.Intn(5)]]))
		}
		for i := 0; i < nf; i++ {
			r := c.Rng(a.Seed, 500000+i)
			hs = append(hs, genOverlap(r, len(hs), cfgs[[]int{4, 4, 4, 0}[r.Intn(4)]]))
		}
		for i := 0; i < nf; i++ {
			r := c.Rng(a.Seed, 700000+i)
			hs = append(hs, genLag(r, len(hs), cfgs[[]int{0, 0, 1, 3, 4}[r.Intn(5)]]))
		}
		for i := 0; i < nf; i++ {
			r := c.Rng(a.Seed, 600000+i)
			hs = append(hs, genGetBlock(r, len(hs), cfgs[[]int{0, 1, 3, 4}[r.Intn(4)]]))
		}
	}
	work, err := os.MkdirTemp(a.Out, "work")
	if err != nil {
		panic(err)
	}
	defer os.RemoveAll(work)

	var wg sync.WaitGroup
	sem := make(chan struct{}, a.Workers)
	for i := range hs {
		wg.Add(1)
		sem <- struct{}{}
		go func(h *History) {
			defer wg.Done()
			defer func() { <-sem }()
			defer func() {
				if e := recover(); e != nil {
					h.Fail = fmt.Sprintf("panic: %v", e)
				}
			}()
			runHistory(h, work)
		}(&hs[i])
	}
	wg.Wait()

	sigs := c.Signatures{}
	nontrivial := c.Signatures{}
	const shard = 250
	var sb strings.Builder
	nshard, inShard := 0, 0
	flush := func() {
		if sb.Len() == 0 {
			return
		}
		name := "cases.v"
		if len(hs) > shard {
			name = fmt.Sprintf("cases_%d.v", nshard)
		}
		body := "From Coq Require Import ZArith List Bool.\nFrom Verif Require Import C05.Model C05.Spec C05.Replay.\nImport ListNotations.\nOpen Scope Z_scope.\nDefinition cases : list (Z * case) := [\n" +
			sb.String() + "].\nDefinition R := Eval vm_compute in (run_cases cases).\nSet Printing Width 1000000.\nSet Printing Depth 1000000.\nPrint R.\n"
		c.WriteFile(filepath.Join(a.Out, name), body)
		sb.Reset()
		nshard++
		inShard = 0
	}
	for i := range hs {
		h := &hs[i]
		path := filepath.Join(a.Out, fmt.Sprintf("hist-%d.json", h.ID))
		c.WriteJSON(path, h)
		rep.Cases[fmt.Sprint(h.ID)] = path
		if h.Fail != "" {
			tag := strings.SplitN(h.Fail, ":", 2)[0]
			rep.ImplFailures = append(rep.ImplFailures, c.ImplFailure{Case: fmt.Sprint(h.ID), Step: h.FailAt, What: h.Fail, Tag: tag})
			if tag == "hang" || tag == "panic" {
				continue
			}
		}
		t, sig := caseTerm(h)
		if inShard > 0 {
			sb.WriteString(";\n")
		}
		sb.WriteString(t)
		inShard++
		if inShard == shard {
			flush()
		}
		sigs.Add(sig)
		if strings.Contains(sig, "Q") {
			rep.Histogram["histories_with_queued_call"]++
		}
		if strings.Contains(sig, "W") {
			rep.Histogram["histories_with_header_rewrite"]++
		}
		if strings.Contains(sig, "B") {
			rep.Histogram["histories_with_filter_header_rollback"]++
		}
		if strings.Contains(sig, "G") {
			rep.Histogram["histories_with_getblock"]++
		}
		if strings.Contains(sig, "O") {
			rep.Histogram["histories_with_overlapped_db_lookup"]++
		}
		if strings.Contains(sig, "N") && strings.Contains(sig, "i") {
			nontrivial.Add(sig)
		}
		for _, op := range h.Ops {
			rep.Histogram["op:"+op.Kind]++
			if op.Kind != "call" {
				continue
			}
			if len(op.Writes) > 0 {
				switch {
				case !op.WDone:
					rep.Histogram["overlap:no_read_transaction"]++
				case op.Queried:
					rep.Histogram["overlap:db_miss_then_network"]++
				default:
					rep.Histogram["overlap:db_served"]++
				}
				rep.Histogram["overlap:write_commits"] += len(op.Writes)
			}
			rep.Histogram["result:"+op.Res]++
			rep.Histogram[fmt.Sprintf("batch:%d", op.Batch)]++
			rep.Histogram["verdict:"+op.Verdict]++
			if op.Queried {
				rep.Histogram["calls_queried"]++
			} else if op.Res == "filter" {
				rep.Histogram["calls_local_hit"]++
			}
			switch {
			case op.Height < 0:
				rep.Histogram["target:unknown"]++
			case op.Height == 0:
				rep.Histogram["target:genesis"]++
			case int64(op.Height) > h.Best:
				rep.Histogram["target:above_best"]++
			case op.Height == 1 || int64(op.Height) == h.Best:
				rep.Histogram["target:boundary"]++
			default:
				rep.Histogram["target:inside"]++
			}
			for _, r := range op.Resps {
				rep.Histogram["resp:"+r.Kind]++
				if op.Queried {
					rep.Histogram[fmt.Sprintf("progress:%d", r.Prog)]++
				}
			}
		}
	}
	flush()
	if nshard == 0 {
		c.WriteFile(filepath.Join(a.Out, "cases.v"), "From Coq Require Import ZArith List.\nImport ListNotations.\nDefinition R : list (Z*Z*Z*Z) := [].\nPrint R.\n")
	}
	rep.Histogram["distinct_signatures"] = len(sigs)
	rep.Evaluations = len(hs)
	rep.DistinctNontrivial = len(nontrivial)
	rep.Rule = "histories of 4-9 operations (GetCFilter calls with every batching mode and MaxBatchSize option, cache resets, database purges; a flush barrier after each call) on the real ChainService skeleton (real header stores with committed filter headers of real GCS filters, filterdb on bbolt, batch writer, LRU filter cache) with a scripted work manager feeding honest filters in any order plus 12 kinds of corrupted / foreign / malformed / unsolicited / duplicate responses; targets biased to block 0, 1, the tip, above the best filter header and unknown hashes; a history is non-trivial when it contains a filter returned from the network and an ignored response; distinct = distinct per-call signature (batch mode, progress value per response, outcome N network / L local / E error). Deliberate families (10% of the general count each): retry (a query for a range; the filter headers inside the range rolled back and re-committed through the real store; the SAME query again, answered with filters matching the old headers before / after / among the honest ones; persisted and not), overlap (filters persisted through the batch writer, cache emptied or too small, then lookups whose filter-database read transaction is followed — pinned by a walletdb wrapper, on the caller's goroutine, no sleeps — by 2-6 write commits that rewrite the other stored keys and add new ones; database contents compared afterwards), lag (filters cached / persisted, the filter headers rolled back below their blocks through the real store without re-commit — or to the genesis block with the cache emptied: the start-up reset — then calls for blocks above and at the filter header tip with the network silent, honest or serving filters matching the old headers; then the headers catch up, some blocks committing to another filter, and the blocks are asked again), getblock (GetBlock of a block that spends a real output, answered by the scripted work manager, followed by GetCFilter of the same block; filter cache and database observed after GetBlock)."
	for i := 0; i < len(hs) && i < 3; i++ {
		rep.Samples = append(rep.Samples, hs[i])
	}
	rep.Write(a.Out)
}
