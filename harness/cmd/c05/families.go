package main

// Deliberate families of histories (the general generator reaches these
// sequences too rarely, or not at all):
//
//   retry    a network query for a range, the filter headers inside the range
//            rolled back and re-committed for the same blocks, then the SAME
//            query again (same target, mode, batch size, tip) answered with
//            filters matching the OLD headers before the honest ones
//   overlap  filters persisted, cache emptied, then database-served lookups
//            whose read transaction is followed by k write commits that
//            rewrite neighbouring keys and add new ones
//   getblock GetBlock(B) answered from the network followed by GetCFilter(B),
//            B spending a non-empty script

//   lag      filters cached / persisted, then the filter headers rolled back
//            below their blocks WITHOUT being re-committed (From = 1: the
//            reset of the filter headers on start-up), then GetCFilter for
//            blocks above and at the filter-header tip with the network
//            silent, honest, or serving filters that match the old headers;
//            optionally the filter headers catch up again (other filters
//            committed for some blocks) and the blocks are asked once more

import "math/rand"

func honestRange(st, sp int) []Resp {
	var rs []Resp
	for hh := st; hh <= sp; hh++ {
		rs = append(rs, Resp{Kind: "honest", Height: hh})
	}
	return rs
}

func genRetry(r *rand.Rand, id int, cfg ChainCfg) History {
	h := History{ID: id, Chain: cfg, Persist: r.Intn(2) == 0, CacheCap: 1 << 20}
	if r.Intn(4) == 0 {
		h.CacheCap = uint64(40 + r.Intn(120))
	}
	best := cfg.FTip
	t := 1 + r.Intn(best)
	batch := []int{0, 1, 2, 2, 1}[r.Intn(5)]
	maxb := []int64{0, 2, 3, 4, 5, 8, 1000}[r.Intn(7)]
	st, sp := clampRange(t, best, batch, maxb)
	if sp-st > 9 {
		// keep the scripts short: a window of at most 10 blocks around t
		maxb = 8
		st, sp = clampRange(t, best, batch, maxb)
	}
	mk := func() Op { return Op{Kind: "call", Height: t, Batch: batch, MaxBatch: maxb} }

	// an unrelated call first, now and then
	if r.Intn(3) == 0 {
		o := 1 + r.Intn(best)
		if o < st || o > sp {
			h.Ops = append(h.Ops, Op{Kind: "call", Height: o, Resps: []Resp{{Kind: "honest", Height: o}}, Verdict: "ok"})
		}
	}

	// first attempt
	first := mk()
	succeed := !h.Persist && r.Intn(4) == 0 // it may succeed; the cache is emptied afterwards
	for hh := st; hh <= sp; hh++ {
		switch {
		case hh == t && succeed:
			first.Resps = append(first.Resps, Resp{Kind: "honest", Height: hh})
		case hh == t:
			// the target is not delivered, or with a filter that does not
			// match the committed headers
			if r.Intn(2) == 0 {
				first.Resps = append(first.Resps, Resp{Kind: []string{"alt_variant", "true_filter", "corrupt"}[r.Intn(3)], Height: hh, MSeed: r.Int63()})
			}
		case r.Intn(3) == 0:
			first.Resps = append(first.Resps, Resp{Kind: "honest", Height: hh})
		}
	}
	first.Verdict = []string{"ok", "ok", "err"}[r.Intn(3)]
	if succeed {
		first.Verdict = "ok"
	}
	h.Ops = append(h.Ops, first)
	if succeed {
		h.Ops = append(h.Ops, Op{Kind: "dropcache"})
	}

	// the filter headers inside the range are rolled back and re-committed
	k := st + r.Intn(t-st+1)
	if k > 1 && r.Intn(4) == 0 {
		k = 1 + r.Intn(k) // from below the range: every header of the range changes
	}
	tg := []int{t}
	for hh := k; hh <= sp; hh++ {
		if hh != t && r.Intn(3) == 0 {
			tg = append(tg, hh)
		}
	}
	h.Ops = append(h.Ops, Op{Kind: "rewrite", From: k, Toggle: tg})

	// the same query again; filters matching the old headers come first
	retry := mk()
	var old, cur []Resp
	for hh := st; hh <= sp; hh++ {
		if hh == t || r.Intn(2) == 0 {
			old = append(old, Resp{Kind: "alt_variant", Height: hh})
		}
		if hh == t || r.Intn(5) > 0 {
			cur = append(cur, Resp{Kind: "honest", Height: hh})
		}
	}
	switch r.Intn(4) {
	case 0:
		retry.Resps = append(cur, old...)
	case 1:
		retry.Resps = append(old, cur...)
		r.Shuffle(len(retry.Resps), func(i, j int) { retry.Resps[i], retry.Resps[j] = retry.Resps[j], retry.Resps[i] })
	default:
		retry.Resps = append(old, cur...)
	}
	retry.Verdict = "ok"
	h.Ops = append(h.Ops, retry)

	// and what was stored is asked for again: stale entries left behind by
	// the rewrite are not served, healed ones are (from the cache, or after a
	// cache reset from the database)
	if r.Intn(2) == 0 {
		h.Ops = append(h.Ops, Op{Kind: "dropcache"})
	}
	for i, n := 0, 1+r.Intn(3); i < n; i++ {
		h.Ops = append(h.Ops, Op{Kind: "call", Height: st + r.Intn(sp-st+1), Verdict: "err"})
	}
	return h
}

func genOverlap(r *rand.Rand, id int, cfg ChainCfg) History {
	h := History{ID: id, Chain: cfg, Persist: r.Intn(5) > 0, CacheCap: 1 << 20}
	if r.Intn(3) == 0 {
		h.CacheCap = 6 // nothing fits: every lookup of a stored block goes to the database
	}
	best := cfg.FTip
	stored := map[int]bool{0: true} // the genesis filter is in every database
	// fill the database the normal way: batched calls through the batch writer
	for i, n := 0, 1+r.Intn(2); i < n && h.Persist; i++ {
		t := 1 + r.Intn(best)
		maxb := int64(4 + r.Intn(9))
		st, sp := clampRange(t, best, 1, maxb)
		h.Ops = append(h.Ops, Op{Kind: "call", Height: t, Batch: 1, MaxBatch: maxb, Resps: honestRange(st, sp), Verdict: "ok"})
		for hh := st; hh <= sp; hh++ {
			stored[hh] = true
		}
	}
	if h.CacheCap != 6 {
		h.Ops = append(h.Ops, Op{Kind: "dropcache"})
	}
	keys := func() []int {
		var ks []int
		for hh := 0; hh <= best; hh++ {
			if stored[hh] {
				ks = append(ks, hh)
			}
		}
		return ks
	}
	for i, n := 0, 2+r.Intn(4); i < n; i++ {
		ks := keys()
		op := Op{Kind: "call", Verdict: "ok"}
		switch x := r.Intn(10); {
		case x < 7:
			op.Height = ks[r.Intn(len(ks))] // answered by the database
		case x < 8:
			op.Height = 0
		default:
			op.Height = 1 + r.Intn(best) // possibly not stored: database miss, then the network
			if !stored[op.Height] {
				op.Resps = []Resp{{Kind: "honest", Height: op.Height}}
			}
		}
		// k commits. A small one rewrites a few stored neighbours and adds
		// filters of blocks that are not stored yet; a large one rewrites
		// every stored key but the target's (all pages of the bucket are
		// copied, the old ones released, and the next large commit needs more
		// pages than a small one leaves free: released pages are reused)
		for g, k := 0, 2+r.Intn(5); g < k; g++ {
			var grp []int
			if r.Intn(2) == 0 {
				for _, hh := range ks {
					if hh != op.Height {
						grp = append(grp, hh)
					}
				}
			}
			for j, m := 0, 1+r.Intn(8); j < m; j++ {
				var hh int
				if r.Intn(3) == 0 {
					hh = ks[r.Intn(len(ks))]
				} else {
					hh = 1 + r.Intn(best)
				}
				if hh == op.Height && r.Intn(8) > 0 {
					continue // mostly OTHER keys
				}
				grp = append(grp, hh)
			}
			if len(grp) == 0 {
				grp = []int{1 + (op.Height+g)%best}
			}
			op.Writes = append(op.Writes, grp)
			for _, hh := range grp {
				if !stored[hh] {
					stored[hh] = true
					ks = append(ks, hh)
				}
			}
		}
		h.Ops = append(h.Ops, op)
		// (whether the writes happen depends on the cache; what the model
		// says is compared, the generator only tracks the likely contents)
		for _, grp := range op.Writes {
			for _, hh := range grp {
				stored[hh] = true
			}
		}
		if !stored[op.Height] && h.Persist {
			stored[op.Height] = true
		}
		if r.Intn(6) == 0 {
			h.Ops = append(h.Ops, Op{Kind: "dropcache"})
		}
	}
	// read a few of them back undisturbed
	ks := keys()
	for i, n := 0, 1+r.Intn(2); i < n; i++ {
		h.Ops = append(h.Ops, Op{Kind: "call", Height: ks[r.Intn(len(ks))], Verdict: "err"})
	}
	return h
}

// spenders lists the heights whose block has a non-coinbase transaction.
func spenders(cfg *ChainCfg) (real, any []int) {
	for i, sp := range cfg.Specs {
		if i+1 > cfg.FTip {
			break
		}
		if sp.NTx > 0 && !sp.NoScripts {
			any = append(any, i+1)
			if sp.SpendPrev {
				real = append(real, i+1)
			}
		}
	}
	return
}

func genGetBlock(r *rand.Rand, id int, cfg ChainCfg) History {
	h := History{ID: id, Chain: cfg, Persist: r.Intn(2) == 0, CacheCap: 1 << 20}
	if r.Intn(4) == 0 {
		h.CacheCap = uint64(40 + r.Intn(120))
	}
	best := cfg.FTip
	real, any := spenders(&cfg)
	pick := func() int {
		switch x := r.Intn(10); {
		case x < 6 && len(real) > 0:
			return real[r.Intn(len(real))]
		case x < 8 && len(any) > 0:
			return any[r.Intn(len(any))]
		default:
			return 1 + r.Intn(best)
		}
	}
	for i, n := 0, 2+r.Intn(3); i < n; i++ {
		b := pick()
		if r.Intn(4) == 0 {
			// the filter first: GetBlock must leave the entry alone
			h.Ops = append(h.Ops, Op{Kind: "call", Height: b, Resps: []Resp{{Kind: "honest", Height: b}}, Verdict: "ok"})
		}
		h.Ops = append(h.Ops, Op{Kind: "getblock", Height: b})
		if r.Intn(5) == 0 {
			h.Ops = append(h.Ops, Op{Kind: "getblock", Height: b}) // block cache hit
		}
		f := Op{Kind: "call", Height: b, Batch: []int{0, 0, 1, 2}[r.Intn(4)], MaxBatch: []int64{0, 2, 3}[r.Intn(3)], Verdict: "ok"}
		st, sp := clampRange(b, best, f.Batch, f.MaxBatch)
		f.Resps = honestRange(st, sp)
		if r.Intn(5) == 0 {
			f.Resps = nil // no peer answers: a filter may only come from what was verified before
		}
		h.Ops = append(h.Ops, f)
		if r.Intn(3) == 0 {
			h.Ops = append(h.Ops, Op{Kind: "call", Height: b, Verdict: "err"})
		}
	}
	return h
}

func genLag(r *rand.Rand, id int, cfg ChainCfg) History {
	h := History{ID: id, Chain: cfg, Persist: r.Intn(3) > 0, CacheCap: 1 << 20}
	if r.Intn(5) == 0 {
		h.CacheCap = uint64(60 + r.Intn(120))
	}
	best := cfg.FTip
	n := len(cfg.Specs)
	// local copies: a window of filters fetched the normal way
	t := 1 + r.Intn(best)
	maxb := int64(3 + r.Intn(6))
	st, sp := clampRange(t, best, 1, maxb)
	h.Ops = append(h.Ops, Op{Kind: "call", Height: t, Batch: 1, MaxBatch: maxb, Resps: honestRange(st, sp), Verdict: "ok"})
	// the filter headers go back below (some of) them
	k := st + r.Intn(sp-st+1)
	if k > st && r.Intn(3) == 0 {
		k++ // the new tip is a block with a local copy
	}
	if k > best {
		k = best
	}
	reset := r.Intn(4) == 0
	if reset {
		k = 1
	}
	h.Ops = append(h.Ops, Op{Kind: "rollback", From: k})
	if reset || (h.Persist && r.Intn(2) == 0) {
		h.Ops = append(h.Ops, Op{Kind: "dropcache"}) // restart: the database copies survive
	}
	tip := k - 1
	ask := func(tip int, old bool) {
		op := Op{Kind: "call", Batch: []int{0, 0, 1, 2, 2}[r.Intn(5)], MaxBatch: []int64{0, 2, 3, 5}[r.Intn(4)]}
		switch x := r.Intn(10); {
		case x < 5 && k <= sp: // above the tip, local copy likely
			op.Height = k + r.Intn(sp-k+1)
		case x < 7:
			op.Height = tip
		case x < 8 && sp < n:
			op.Height = sp + 1
		default:
			op.Height = st + r.Intn(sp-st+1)
		}
		a, b := clampRange(op.Height, tip, op.Batch, op.MaxBatch)
		switch r.Intn(3) {
		case 0: // the network is silent
		case 1: // honest peers: what they can serve, and the target itself
			op.Resps = honestRange(a, b)
			op.Resps = append(op.Resps, Resp{Kind: "honest", Height: op.Height})
		default: // filters that matched the headers before the rollback
			op.Resps = append(op.Resps, Resp{Kind: "honest", Height: op.Height})
			if old {
				op.Resps = append([]Resp{{Kind: "alt_variant", Height: op.Height}}, op.Resps...)
			}
			for hh := a; hh <= b; hh++ {
				if r.Intn(2) == 0 {
					op.Resps = append(op.Resps, Resp{Kind: "honest", Height: hh})
				}
			}
		}
		op.Verdict = []string{"ok", "ok", "err"}[r.Intn(3)]
		h.Ops = append(h.Ops, op)
	}
	for i, m := 0, 3+r.Intn(3); i < m; i++ {
		ask(tip, false)
	}
	// the filter headers catch up; some blocks now commit to another filter
	if r.Intn(2) == 0 {
		up := sp
		if r.Intn(2) == 0 {
			up = best
		}
		var tg []int
		for hh := k; hh <= up; hh++ {
			if r.Intn(3) == 0 {
				tg = append(tg, hh)
			}
		}
		h.Ops = append(h.Ops, Op{Kind: "extend", Upto: up, Toggle: tg})
		for i, m := 0, 2+r.Intn(3); i < m; i++ {
			ask(up, true)
		}
	}
	return h
}
