package main

// Pinned interleavings around the filter database and the second entry point
// of the filter cache:
//
//   - racingDB: the walletdb handed to the ChainService skeleton. After the
//     read transaction of a GetCFilter database lookup has ended (View has
//     returned, FetchFilter has not yet) it commits the armed write
//     transactions: exactly the schedule in which the batch writer persists
//     other filters while a caller reads one. No sleeps: the commits run on
//     the caller's goroutine between the two points.
//   - getBlock: ChainService.GetBlock answered by the scripted work manager
//     with the block itself; filter cache and filter database are observed
//     afterwards.

import (
	"errors"
	"fmt"
	"sync"
	"time"

	"github.com/btcsuite/btcd/btcutil/v2"
	"github.com/btcsuite/btcd/btcutil/v2/gcs"
	"github.com/btcsuite/btcd/chainhash/v2"
	"github.com/btcsuite/btcwallet/walletdb"
	"github.com/lightninglabs/neutrino"
	"github.com/lightninglabs/neutrino/filterdb"
)

type racingDB struct {
	walletdb.DB
	mu      sync.Mutex
	armed   func()
	ran     bool
	inFetch int // FilterDB.FetchFilter calls in progress (markingFDB)
}

// markingFDB tells the racingDB which read transactions are those of
// FilterDB.FetchFilter (the header stores read through the same walletdb,
// e.g. when GetCFilter checks a local filter against the committed headers).
type markingFDB struct {
	filterdb.FilterDatabase
	rdb *racingDB
}

func (m *markingFDB) FetchFilter(h *chainhash.Hash, t filterdb.FilterType) (*gcs.Filter, error) {
	m.rdb.mu.Lock()
	m.rdb.inFetch++
	m.rdb.mu.Unlock()
	defer func() {
		m.rdb.mu.Lock()
		m.rdb.inFetch--
		m.rdb.mu.Unlock()
	}()
	return m.FilterDatabase.FetchFilter(h, t)
}

// View runs the read transaction and, if a hook is armed and the transaction
// is FetchFilter's, the hook right after the transaction has ended (once).
func (d *racingDB) View(f func(tx walletdb.ReadTx) error, reset func()) error {
	err := d.DB.View(f, reset)
	d.mu.Lock()
	var hook func()
	if d.inFetch > 0 {
		hook = d.armed
		d.armed = nil
	}
	d.mu.Unlock()
	if hook != nil {
		hook()
		d.mu.Lock()
		d.ran = true
		d.mu.Unlock()
	}
	return err
}

// Batch keeps the wrapper a walletdb.BatchDB like the bdb backend it wraps,
// so that the service's PutFilters takes the production path.
func (d *racingDB) Batch(f func(tx walletdb.ReadWriteTx) error) error {
	return d.DB.(walletdb.BatchDB).Batch(f)
}

func (d *racingDB) arm(hook func()) {
	d.mu.Lock()
	d.armed, d.ran = hook, false
	d.mu.Unlock()
}

// disarm removes a hook that did not run and tells whether it ran.
func (d *racingDB) disarm() bool {
	d.mu.Lock()
	defer d.mu.Unlock()
	d.armed = nil
	return d.ran
}

// armWrites arms the write commits of op: one PutFilters transaction per
// group, each storing the committed filter of the listed blocks.
func (ru *runner) armWrites(op *Op) {
	n := len(ru.ch.Blocks) - 1
	var groups [][]*filterdb.FilterData
	for gi := range op.Writes {
		var g []*filterdb.FilterData
		kept := op.Writes[gi][:0]
		for _, hh := range op.Writes[gi] {
			if hh < 0 || hh > n || hh >= len(ru.fhs) {
				continue
			}
			kept = append(kept, hh)
			f := ru.ch.Commit[hh]
			if ru.variant[hh] == 1 {
				f = ru.ch.Alt[hh]
			}
			hash := ru.ch.Hashes[hh]
			g = append(g, &filterdb.FilterData{Filter: f, BlockHash: &hash, Type: filterdb.RegularFilter})
			op.WTok = append(op.WTok, [2]int64{int64(hh), ru.noteFilter(f, int64(hh))})
		}
		op.Writes[gi] = kept
		if len(g) > 0 {
			groups = append(groups, g)
		}
	}
	ru.rdb.arm(func() {
		for _, g := range groups {
			if err := ru.wfdb.PutFilters(g...); err != nil {
				panic(err)
			}
		}
	})
}

// getBlock runs ChainService.GetBlock for op.Height (answered from the
// network unless the block cache has it) and observes the filter cache and
// the filter database.
func (ru *runner) getBlock(h *History, op *Op, oi int) bool {
	n := len(ru.ch.Blocks) - 1
	if op.Height < 0 || op.Height > n {
		op.Height = n
	}
	target := ru.ch.Hashes[op.Height]
	ctl := &callCtl{op: op, block: true, inFlight: make(chan struct{}), done: make(chan callRes, 1)}
	ru.ctls <- ctl
	type bres struct {
		b   *btcutil.Block
		err error
	}
	done := make(chan bres, 1)
	go func() {
		b, err := ru.env.CS.GetBlock(target)
		done <- bres{b, err}
	}()
	var out bres
	select {
	case out = <-done:
	case <-time.After(30 * time.Second):
		h.Fail, h.FailAt = fmt.Sprintf("hang: GetBlock did not return (op %d)", oi), oi
		return false
	}
	if !ctl.queried {
		// served by the block cache: the ctl was never taken
		select {
		case c2 := <-ru.ctls:
			if c2 != ctl {
				ru.ctls <- c2
			}
		default:
		}
	}
	op.Queried = ctl.queried
	switch {
	case out.err == nil && out.b != nil && out.b.MsgBlock().BlockHash() == target:
		op.Res = "block"
	case errors.Is(out.err, neutrino.ErrShuttingDown):
		op.Res = "quit"
	default:
		op.Res = "other"
		ru.fails = append(ru.fails, fmt.Sprintf("getblock: honest block %d not returned: %v", op.Height, out.err))
	}
	ru.observeCache(op)
	if h.Persist && !ru.flush() {
		h.Fail, h.FailAt = fmt.Sprintf("hang: batch writer did not persist %d queued filters", ru.added-ru.written), oi
		return false
	}
	ru.observeDB(op)
	if len(ru.fails) > 0 && h.Fail == "" {
		h.Fail, h.FailAt = ru.fails[0], oi
	}
	return true
}

