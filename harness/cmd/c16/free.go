// Free-running component of the C16 harness: real goroutines, no scheduler
// control, no yield hook (lru.VerifYieldHook is nil while this runs).
//
// (a) Scenarios: a sequential prefix, then 2-3 concurrent calls released
// together from a spin barrier with randomised tiny pre-delays, repeated many
// times on fresh caches. Every distinct outcome (the calls' return values and
// the state observed after all of them returned) is handed to Coq, which
// checks that SOME sequential order of the calls produces it
// (Verif.C16.Replay.run_free). This does not depend on where the yield hooks
// are: a window anywhere in the code that lets a second caller see or leave
// an intermediate state shows up as an outcome no sequential order has.
//
// (b) Stress: several goroutines issue random calls on a few keys, then the
// cache is checked at rest on the Go side.
//
// Both are sampling: which interleavings happen is up to the Go scheduler and
// the hardware.
package main

import (
	"fmt"
	"math/rand"
	"runtime"
	"sort"
	"strconv"
	"strings"
	"sync"
	"sync/atomic"
	"time"

	"github.com/lightninglabs/neutrino/cache/lru"

	c "verifharness/internal/common"
)

// FreeSpec describes a free-running scenario and, once run, its outcomes.
type FreeSpec struct {
	NoCb     bool          `json:"nocb"` // cache built without a delete callback
	Reps     int           `json:"reps"`
	Seed     int64         `json:"seed"`
	Outcomes []FreeOutcome `json:"outcomes,omitempty"`
}

// FreeOutcome is one distinct outcome of the concurrent group.
type FreeOutcome struct {
	Count    int   `json:"count"`     // repetitions that ended like this
	FirstRep int   `json:"first_rep"` // first repetition that did
	Obss     []Obs `json:"obss"`      // result of each concurrent call, in call order
	Tail     []Obs `json:"tail"`      // observations of the tail items
}

// StressSpec describes one stress round.
type StressSpec struct {
	Seed    int64  `json:"seed"`
	Round   int    `json:"round"`
	Workers int    `json:"workers"`
	OpsEach int    `json:"ops_each"`
	Keys    int    `json:"keys"`
	Cap     uint64 `json:"cap"`
	NoCb    bool   `json:"nocb"`
	Ops     int    `json:"ops_done,omitempty"`
}

const freeMaxWorkers = 4

type pad [64]byte

// freeSlot is the per-goroutine callback list; the delete callback finds it
// through the goroutine id (the callback runs on the caller's goroutine).
type freeSlot struct {
	cbs [][2]int64
	_   pad
}

var (
	freeSlots      sync.Map // goroutine id -> *freeSlot
	orphanCallback atomic.Int64
	spinSink       [freeMaxWorkers + 1]struct {
		v int
		_ pad
	}
)

func freeOnDelete(k int64, v *tval) {
	id := int64(-1)
	if v != nil {
		id = v.id
	}
	if s, ok := freeSlots.Load(goid()); ok {
		sl := s.(*freeSlot)
		sl.cbs = append(sl.cbs, [2]int64{k, id})
		return
	}
	orphanCallback.Add(1)
}

//go:noinline
func spin(slot, n int) {
	x := spinSink[slot].v
	for j := 0; j < n; j++ {
		x += j ^ x
	}
	spinSink[slot].v = x
}

const freeBatch = 32

// freeDeadline bounds one batch of repetitions (normally well under a
// millisecond); generous because the callers may be starved on a loaded
// machine. freeHangs counts the scenarios and stress rounds that ran into a
// deadline: after a few of them the rest is skipped (each costs a full
// deadline and they are all reported the same way).
const freeDeadline = 8 * time.Second

var freeHangs atomic.Int64

const freeMaxHangs = 3

// freeRep is one repetition of a batch: a fresh cache with the prefix applied,
// the pre-delays of the callers, their arrival counter and their results.
type freeRep struct {
	arrive atomic.Int32
	_      pad
	ch     *lcache
	run    *runCtx
	delay  [freeMaxWorkers]int
	yield  [freeMaxWorkers]bool
	obs    [freeMaxWorkers]Obs
	pan    [freeMaxWorkers]string
	_      pad
}

// freeGroup is the set of caller goroutines of one scenario. The coordinator
// prepares a batch of repetitions and blocks; the callers walk through the
// batch on their own and meet, for every repetition, at a spin barrier (the
// repetition's arrival counter), so that their calls start within a few
// nanoseconds of each other; only the callers have to be on a CPU at the same
// time. Waiting falls back to sleeping when a partner is not running
// (oversubscribed machine).
type freeGroup struct {
	n     int
	ops   []Op
	batch []freeRep
	nrep  int // repetitions of the batch in use
	start [freeMaxWorkers]chan bool
	fin   chan struct{}
	lost  bool
}

func newFreeGroup(ops []Op) *freeGroup {
	g := &freeGroup{n: len(ops), ops: ops, batch: make([]freeRep, freeBatch), fin: make(chan struct{}, freeMaxWorkers)}
	for i := 0; i < g.n; i++ {
		g.start[i] = make(chan bool, 1)
		go g.worker(i)
	}
	return g
}

func (g *freeGroup) stop() {
	if g.lost {
		return // callers stuck inside the cache: leaked
	}
	for i := 0; i < g.n; i++ {
		g.start[i] <- false
	}
}

func (g *freeGroup) worker(i int) {
	id := goid()
	sl := &freeSlot{}
	freeSlots.Store(id, sl)
	defer freeSlots.Delete(id)
	for <-g.start[i] {
		for b := 0; b < g.nrep; b++ {
			rp := &g.batch[b]
			// barrier
			rp.arrive.Add(1)
			for spins := 0; rp.arrive.Load() < int32(g.n); spins++ {
				if spins > 20000 {
					time.Sleep(20 * time.Microsecond)
				}
			}
			if d := rp.delay[i]; d > 0 {
				spin(i, d)
			}
			if rp.yield[i] {
				runtime.Gosched()
			}
			sl.cbs = nil
			func() {
				defer func() {
					if p := recover(); p != nil {
						rp.pan[i] = fmt.Sprint(p)
					}
				}()
				rp.obs[i] = rp.run.exec(rp.ch, g.ops[i], &sl.cbs)
			}()
		}
		g.fin <- struct{}{}
	}
}

// release lets the callers run the prepared batch; false = deadline.
func (g *freeGroup) release() bool {
	for i := 0; i < g.n; i++ {
		g.start[i] <- true
	}
	tm := time.NewTimer(freeDeadline)
	defer tm.Stop()
	for i := 0; i < g.n; i++ {
		select {
		case <-g.fin:
		case <-tm.C:
			g.lost = true
			return false
		}
	}
	return true
}

func appendObsKey(b []byte, o *Obs) []byte {
	b = append(b, o.Kind[0])
	if o.Evicted {
		b = append(b, 'e')
	}
	if o.Found {
		b = append(b, 'f')
	}
	b = strconv.AppendInt(b, o.Vid, 10)
	b = append(b, ',')
	b = strconv.AppendUint(b, o.N, 10)
	for _, p := range o.Cbs {
		b = append(b, 'c')
		b = strconv.AppendInt(b, p[0], 10)
		b = append(b, ':')
		b = strconv.AppendInt(b, p[1], 10)
	}
	for _, p := range o.List {
		b = append(b, 'l')
		b = strconv.AppendInt(b, p[0], 10)
		b = append(b, ':')
		b = strconv.AppendInt(b, p[1], 10)
	}
	return append(b, ';')
}

// boundedRange is exec for the Range* observers with a bound on the number of
// visited entries (a corrupted list must not hang the harness).
func boundedRange(ch *lcache, kind string) (Obs, bool) {
	l := [][2]int64{}
	n := 0
	vis := func(k int64, v *tval) bool {
		id := int64(-1)
		if v != nil {
			id = v.id
		}
		l = append(l, [2]int64{k, id})
		n++
		return n < 256
	}
	switch kind {
	case "range":
		ch.Range(vis)
		sortPairs(l)
	case "rangefilo":
		ch.RangeFILO(vis)
	default:
		ch.RangeFIFO(vis)
	}
	return Obs{Kind: "list", List: l}, n < 256
}

// runFree runs a free-running scenario: h.Items = prefix (sequential ops),
// exactly one concurrent group, tail observers (len/size/range*). It fills
// h.Free.Outcomes, the prefix observations, and h.Failure for what only the
// Go side can see.
func runFree(h *History) {
	spec := h.Free
	spec.Outcomes = nil
	h.Failure = nil
	gi := -1
	for i := range h.Items {
		if h.Items[i].Op == nil {
			gi = i
			break
		}
	}
	ops := h.Items[gi].Conc
	g := newFreeGroup(ops)
	defer g.stop()
	me := goid()
	sl := &freeSlot{}
	freeSlots.Store(me, sl)
	defer freeSlots.Delete(me)

	rng := c.Rng(spec.Seed, h.ID)
	var opts []lru.CacheOption[int64, *tval]
	if !spec.NoCb {
		opts = append(opts, lru.WithDeleteCallback[int64, *tval](freeOnDelete))
	}
	index := map[string]int{}
	var prefixKey string
	var key []byte
	fail := func(rep int, what, tag string) {
		h.Failure = &Failure{Step: gi, What: fmt.Sprintf("%s (repetition %d)", what, rep), Tag: tag}
	}
	orphans := orphanCallback.Load()
	for rep0 := 0; rep0 < spec.Reps; rep0 += freeBatch {
		g.nrep = spec.Reps - rep0
		if g.nrep > freeBatch {
			g.nrep = freeBatch
		}
		// prepare the batch: fresh caches, sequential prefix, pre-delays
		for b := 0; b < g.nrep; b++ {
			rep := rep0 + b
			rp := &g.batch[b]
			r := &runCtx{lockless: true}
			ch := lru.NewCache[int64, *tval](h.Cap, opts...)
			key = key[:0]
			pobs := make([]Obs, 0, gi)
			panicked := ""
			func() {
				defer func() {
					if p := recover(); p != nil {
						panicked = fmt.Sprint(p)
					}
				}()
				for i := 0; i < gi; i++ {
					if ch.VerifLocked() {
						panicked = "mutex left locked by the previous call"
						return
					}
					sl.cbs = nil
					o := r.exec(ch, *h.Items[i].Op, &sl.cbs)
					pobs = append(pobs, o)
					key = appendObsKey(key, &o)
				}
			}()
			if panicked != "" {
				fail(rep, "sequential prefix: "+panicked, "panic")
				return
			}
			if rep == 0 {
				prefixKey = string(key)
				for i := 0; i < gi; i++ {
					o := pobs[i]
					h.Items[i].Obs = &o
				}
			} else if string(key) != prefixKey {
				fail(rep, "the sequential prefix gave different observations than in repetition 0", "free-prefix-nondeterministic")
				return
			}
			rp.ch, rp.run = ch, r
			rp.arrive.Store(0)
			// pre-delays: none (30 %), each caller a random number of spin
			// iterations below 4, 16, 64, 256 or 1024 (68 %), rarely a
			// runtime.Gosched
			mode := rng.Intn(50)
			for i := 0; i < g.n; i++ {
				rp.delay[i], rp.yield[i], rp.pan[i] = 0, false, ""
				switch {
				case mode < 15:
				case mode < 49:
					rp.delay[i] = rng.Intn(4 << (2 * uint(mode%5)))
				default:
					rp.delay[i] = rng.Intn(64)
					rp.yield[i] = rng.Intn(2) == 0
				}
			}
		}
		// concurrent calls
		if !g.release() {
			freeHangs.Add(1)
			fail(rep0, "free-running concurrent callers did not all return (deadlock)", "deadlock")
			return
		}
		// results and tail observers
		for b := 0; b < g.nrep; b++ {
			rep := rep0 + b
			rp := &g.batch[b]
			ch, r := rp.ch, rp.run
			for i := 0; i < g.n; i++ {
				if rp.pan[i] != "" {
					fail(rep, "concurrent caller panicked: "+rp.pan[i], "panic")
					return
				}
			}
			if ch.VerifLocked() {
				fail(rep, "all concurrent callers returned but the mutex is still held", "deadlock")
				return
			}
			key = key[:0]
			for i := 0; i < g.n; i++ {
				key = appendObsKey(key, &rp.obs[i])
			}
			tobs := make([]Obs, 0, len(h.Items)-gi-1)
			panicked := ""
			func() {
				defer func() {
					if p := recover(); p != nil {
						panicked = fmt.Sprint(p)
					}
				}()
				for i := gi + 1; i < len(h.Items); i++ {
					op := h.Items[i].Op
					var o Obs
					switch op.Kind {
					case "range", "rangefilo", "rangefifo":
						var ok bool
						if o, ok = boundedRange(ch, op.Kind); !ok {
							panicked = op.Kind + " visits more than 255 entries (corrupted list)"
							return
						}
					default:
						sl.cbs = nil
						o = r.exec(ch, *op, &sl.cbs)
					}
					tobs = append(tobs, o)
					key = appendObsKey(key, &o)
				}
			}()
			if panicked != "" {
				fail(rep, "tail observers: "+panicked, "panic")
				return
			}
			if j, ok := index[string(key)]; ok {
				spec.Outcomes[j].Count++
				continue
			}
			index[string(key)] = len(spec.Outcomes)
			oc := FreeOutcome{Count: 1, FirstRep: rep, Obss: make([]Obs, g.n), Tail: tobs}
			copy(oc.Obss, rp.obs[:g.n])
			spec.Outcomes = append(spec.Outcomes, oc)
		}
	}
	if orphanCallback.Load() != orphans && !spec.NoCb {
		// (another scenario running in parallel may have caused it; it is
		// reported once either way)
		fail(spec.Reps, "the delete callback ran on a goroutine that was not inside a cache call", "callback-goroutine")
	}
	h.Executed = len(h.Items)
}

// freeTerm prints a scenario as a Verif.C16.Replay.fcase.
func freeTerm(h *History) string {
	var pre, ops, tl, outs []string
	gi := 0
	for gi < len(h.Items) && h.Items[gi].Op != nil {
		it := &h.Items[gi]
		if it.Obs == nil {
			break
		}
		pre = append(pre, "("+opTerm(it.Op)+","+obsTerm(it.Obs)+")")
		gi++
	}
	if gi < len(h.Items) && h.Items[gi].Op == nil {
		for j := range h.Items[gi].Conc {
			ops = append(ops, opTerm(&h.Items[gi].Conc[j]))
		}
		for i := gi + 1; i < len(h.Items); i++ {
			tl = append(tl, opTerm(h.Items[i].Op))
		}
	}
	for _, oc := range h.Free.Outcomes {
		rs := make([]string, len(oc.Obss))
		for j := range oc.Obss {
			rs[j] = obsTerm(&oc.Obss[j])
		}
		ts := make([]string, len(oc.Tail))
		for j := range oc.Tail {
			ts[j] = obsTerm(&oc.Tail[j])
		}
		outs = append(outs, "(["+strings.Join(rs, ";")+"],["+strings.Join(ts, ";")+"])")
	}
	l := func(x []string) string { return "[" + strings.Join(x, ";") + "]" }
	return fmt.Sprintf("(%d,(%s,%s,%s,%s,%s,%s))", h.ID, u64(h.Cap), c.Bool(h.Free.NoCb), l(pre), l(ops), l(tl), l(outs))
}

const freeHeader = "From Coq Require Import ZArith List.\nFrom Verif Require Import C16.Model C16.Spec C16.Replay.\nImport ListNotations. Open Scope Z_scope.\nDefinition fcases : list (Z * fcase) := [\n"
const freeTrailer = "].\nDefinition R := Eval vm_compute in (run_free fcases).\nSet Printing Width 1000000. Set Printing Depth 1000000. Print R.\n"

// ---------------------------------------------------------------------
// Scenario generation.

func freeSetups() []setup {
	return append(exSetups(),
		setup{"three_small", []Item{put(0, 1, 3), put(1, 2, 3), put(2, 3, 3)}},
		setup{"key0_key1_recent0", []Item{put(0, 1, 2), put(1, 2, 5), get(0)}},
	)
}

// conflicting: two calls on one key, at least one of them writing.
func conflicting(ops []Op) bool {
	for i := range ops {
		for j := i + 1; j < len(ops); j++ {
			a, b := ops[i], ops[j]
			keyed := func(o Op) bool { return o.Kind != "len" && o.Kind != "size" }
			if keyed(a) && keyed(b) && a.Key == b.Key && (a.Kind != "get" || b.Kind != "get") {
				return true
			}
		}
	}
	return false
}

func freeScenario(id int, name string, cp uint64, prefix []Item, ops []Op, nocb bool, reps int, seed int64) History {
	items := append([]Item{}, prefix...)
	for i := range items {
		o := *items[i].Op
		items[i] = Item{Op: &o}
	}
	items = append(items, Item{Conc: append([]Op{}, ops...)})
	items = append(items, tail(true)...)
	if conflicting(ops) {
		reps *= 3
	}
	return History{ID: id, Name: name, Cap: cp, Items: items, Free: &FreeSpec{NoCb: nocb, Reps: reps, Seed: seed}}
}

// randomFreeScenario: random prefix over 3 keys, then 2-3 random calls biased
// towards one key.
func randomFreeScenario(seed int64, id int, reps int) History {
	r := c.Rng(seed, id)
	cp := uint64(4 + r.Intn(9))
	vid := int64(0)
	size := func() uint64 {
		switch r.Intn(8) {
		case 0:
			return 0
		case 1:
			return cp
		}
		return 1 + uint64(r.Int63n(int64(cp/2+1)))
	}
	var prefix []Item
	var live []int64
	for n := r.Intn(6); n > 0; n-- {
		k := int64(r.Intn(3))
		switch x := r.Intn(10); {
		case x < 6:
			vid++
			prefix = append(prefix, put(k, vid, size()))
			live = append(live, vid)
		case x < 8:
			prefix = append(prefix, get(k))
		case x < 9:
			prefix = append(prefix, del(k))
		default:
			if len(live) > 0 {
				prefix = append(prefix, poison(live[r.Intn(len(live))]))
			}
		}
	}
	n := 2 + r.Intn(2)
	focus := int64(r.Intn(3))
	ops := make([]Op, n)
	for i := range ops {
		k := focus
		if r.Intn(3) == 0 {
			k = int64(r.Intn(3))
		}
		switch x := r.Intn(100); {
		case x < 40:
			vid++
			ops[i] = Op{Kind: "put", Key: k, Vid: 100 + vid, Sz: size()}
		case x < 55:
			ops[i] = Op{Kind: "get", Key: k}
		case x < 70:
			ops[i] = Op{Kind: "delete", Key: k}
		case x < 85:
			ops[i] = Op{Kind: "loadanddelete", Key: k}
		case x < 92:
			ops[i] = Op{Kind: "len"}
		default:
			ops[i] = Op{Kind: "size"}
		}
	}
	return freeScenario(id, "free/random", cp, prefix, ops, r.Intn(2) == 0, reps, seed)
}

const (
	freeIDBase   = 500000
	stressIDBase = 900000
)

func freeScenarios(seed int64, thorough bool) []History {
	var hs []History
	id := freeIDBase
	reps2, reps3, nTriples, nRandom := 600, 400, 220, 160
	if thorough {
		reps2, reps3, nTriples, nRandom = 2000, 1500, -1, 1500
	}
	add := func(s setup, ops []Op, nocb bool, reps int) {
		hs = append(hs, freeScenario(id, "free/"+s.name, 10, s.items, ops, nocb, reps, seed))
		id++
	}
	setups := freeSetups()
	var pairs, triples [][]int
	multisets(2, exAlphabetSize, 0, nil, &pairs)
	multisets(3, exAlphabetSize, 0, nil, &triples)
	mk := func(m []int) []Op {
		ops := make([]Op, len(m))
		for t, a := range m {
			ops[t] = exAlphabet(a, t)
		}
		return ops
	}
	for _, s := range setups {
		for _, m := range pairs {
			for _, nocb := range []bool{false, true} {
				add(s, mk(m), nocb, reps2)
			}
		}
	}
	if nTriples < 0 {
		for _, s := range setups {
			for _, m := range triples {
				for _, nocb := range []bool{false, true} {
					add(s, mk(m), nocb, reps3)
				}
			}
		}
	} else {
		r := c.Rng(seed, freeIDBase)
		for i := 0; i < nTriples; i++ {
			add(setups[r.Intn(len(setups))], mk(triples[r.Intn(len(triples))]), r.Intn(2) == 0, reps3)
		}
	}
	for i := 0; i < nRandom; i++ {
		hs = append(hs, randomFreeScenario(seed, id, reps3))
		id++
	}
	return hs
}

// runFreeAll runs the scenarios on `par` parallel runners. Scenarios started
// after `budget` has elapsed (slow or heavily loaded machine) run only 32
// repetitions, after one and a half times the budget 2; it returns how many
// were cut short.
func runFreeAll(hs []History, par int, budget time.Duration) int {
	var next, cut atomic.Int64
	t0 := time.Now()
	var wg sync.WaitGroup
	for w := 0; w < par; w++ {
		wg.Add(1)
		go func() {
			defer wg.Done()
			for {
				i := int(next.Add(1)) - 1
				if i >= len(hs) {
					return
				}
				if freeHangs.Load() >= freeMaxHangs {
					hs[i].Free.Reps = 0
					cut.Add(1)
					continue
				}
				if el := time.Since(t0); el > budget {
					cut.Add(1)
					if hs[i].Free.Reps = 32; el > budget*3/2 {
						hs[i].Free.Reps = 2
					}
				}
				// caller goroutines live for one scenario: nobody spins idle
				runFree(&hs[i])
			}
		}()
	}
	wg.Wait()
	return int(cut.Load())
}

// ---------------------------------------------------------------------
// Stress.

const stressKeyMul = 1000000000

type stressWorker struct {
	fail string
	ops  int
	vals []*tval
	_    pad
}

func stressCallback(bad *atomic.Pointer[string]) func(int64, *tval) {
	return func(k int64, v *tval) {
		switch {
		case v == nil:
			s := fmt.Sprintf("delete callback for key %d with a nil value", k)
			bad.CompareAndSwap(nil, &s)
		case v.id/stressKeyMul != k:
			s := fmt.Sprintf("delete callback for key %d with value %d stored under key %d", k, v.id, v.id/stressKeyMul)
			bad.CompareAndSwap(nil, &s)
		case v.deleted.Add(1) > 1:
			s := fmt.Sprintf("delete callback ran twice for value %d of key %d", v.id, k)
			bad.CompareAndSwap(nil, &s)
		}
	}
}

// runStress runs one stress round and returns "" or what is wrong.
func runStress(sp *StressSpec) (what, tag string) {
	var bad atomic.Pointer[string]
	var opts []lru.CacheOption[int64, *tval]
	if !sp.NoCb {
		opts = append(opts, lru.WithDeleteCallback[int64, *tval](stressCallback(&bad)))
	}
	ch := lru.NewCache[int64, *tval](sp.Cap, opts...)
	ws := make([]stressWorker, sp.Workers)
	var start atomic.Bool
	var wg sync.WaitGroup
	for w := range ws {
		wg.Add(1)
		go func(w int) {
			defer wg.Done()
			sw := &ws[w]
			defer func() {
				if p := recover(); p != nil {
					sw.fail = "panic: " + fmt.Sprint(p)
				}
			}()
			r := rand.New(rand.NewSource(sp.Seed*1000003 + int64(sp.Round)*7919 + int64(w)*104729 + 5))
			for !start.Load() {
				runtime.Gosched()
			}
			ctr := int64(0)
			for i := 0; i < sp.OpsEach && sw.fail == "" && bad.Load() == nil; i++ {
				k := int64(r.Intn(sp.Keys))
				sw.ops++
				switch x := r.Intn(100); {
				case x < 38:
					ctr++
					sz := uint64(r.Intn(4))
					if sz > sp.Cap {
						sz = sp.Cap
					}
					v := &tval{id: k*stressKeyMul + int64(w)*10000000 + ctr, sz: sz}
					sw.vals = append(sw.vals, v)
					if _, err := ch.Put(k, v); err != nil {
						sw.fail = fmt.Sprintf("Put(%d, size %d) failed on a cache of capacity %d: %v", k, sz, sp.Cap, err)
					}
				case x < 56:
					ch.Delete(k)
				case x < 70:
					if v, ok := ch.LoadAndDelete(k); ok && (v == nil || v.id/stressKeyMul != k) {
						sw.fail = fmt.Sprintf("LoadAndDelete(%d) returned a value of another key", k)
					}
				case x < 86:
					if v, err := ch.Get(k); err == nil && (v == nil || v.id/stressKeyMul != k) {
						sw.fail = fmt.Sprintf("Get(%d) returned a value of another key", k)
					}
				case x < 92:
					if n := ch.Len(); n < 0 || n > sp.Keys {
						sw.fail = fmt.Sprintf("Len() = %d with %d keys in use", n, sp.Keys)
					}
				case x < 98:
					if s := ch.Size(); s > sp.Cap {
						sw.fail = fmt.Sprintf("Size() = %d exceeds the capacity %d", s, sp.Cap)
					}
				default:
					// unlocked index iteration under concurrency: only what
					// sync.Map guarantees (no key twice, values of their key)
					seen := map[int64]bool{}
					n := 0
					ch.Range(func(k int64, v *tval) bool {
						if seen[k] {
							sw.fail = fmt.Sprintf("concurrent Range visited key %d twice", k)
						}
						if v == nil || v.id/stressKeyMul != k {
							sw.fail = fmt.Sprintf("concurrent Range: key %d with a value of another key", k)
						}
						seen[k] = true
						n++
						return n < 256
					})
				}
				if r.Intn(64) == 0 {
					runtime.Gosched()
				}
			}
		}(w)
	}
	start.Store(true)
	fin := make(chan struct{})
	go func() { wg.Wait(); close(fin) }()
	select {
	case <-fin:
	case <-time.After(20 * time.Second):
		freeHangs.Add(1)
		return "stress workers did not finish (deadlock)", "deadlock"
	}
	for w := range ws {
		sp.Ops += ws[w].ops
	}
	for w := range ws {
		if f := ws[w].fail; f != "" {
			if strings.HasPrefix(f, "panic: ") {
				return f, "panic"
			}
			return "during the run: " + f, "stress-inconsistent"
		}
	}
	if p := bad.Load(); p != nil {
		return "during the run: " + *p, "stress-inconsistent"
	}
	// at rest
	if ch.VerifLocked() {
		return "all callers returned but the mutex is still held", "deadlock"
	}
	what = ""
	func() {
		defer func() {
			if p := recover(); p != nil {
				what, tag = "panic at rest: "+fmt.Sprint(p), "panic"
			}
		}()
		what = stressAtRest(ch, sp)
	}()
	if what != "" && tag == "" {
		tag = "stress-inconsistent"
	}
	return what, tag
}

func stressAtRest(ch *lcache, sp *StressSpec) string {
	type ent struct {
		k int64
		v *tval
	}
	collect := func(rng func(func(int64, *tval) bool)) ([]ent, bool) {
		var l []ent
		rng(func(k int64, v *tval) bool {
			l = append(l, ent{k, v})
			return len(l) < 256
		})
		return l, len(l) < 256
	}
	filo, ok := collect(ch.RangeFILO)
	if !ok {
		return "RangeFILO visits more than 255 entries (corrupted list)"
	}
	fifo, ok := collect(ch.RangeFIFO)
	if !ok {
		return "RangeFIFO visits more than 255 entries (corrupted list)"
	}
	idx, _ := collect(ch.Range)
	if len(fifo) != len(filo) {
		return fmt.Sprintf("RangeFILO has %d entries, RangeFIFO %d", len(filo), len(fifo))
	}
	var sum uint64
	seen := map[int64]*tval{}
	for i, e := range filo {
		if f := fifo[len(fifo)-1-i]; f.k != e.k || f.v != e.v {
			return "RangeFIFO is not the reverse of RangeFILO"
		}
		if e.v == nil || e.v.id/stressKeyMul != e.k {
			return fmt.Sprintf("key %d holds a value of another key", e.k)
		}
		if _, dup := seen[e.k]; dup {
			return fmt.Sprintf("key %d is twice in the recency list", e.k)
		}
		seen[e.k] = e.v
		sum += e.v.sz
		if e.v.deleted.Load() != 0 {
			return fmt.Sprintf("value %d of key %d is resident although the delete callback was called for it", e.v.id, e.k)
		}
	}
	if s := ch.Size(); s != sum {
		return fmt.Sprintf("Size() = %d but the resident entries total %d", s, sum)
	}
	if sum > sp.Cap {
		return fmt.Sprintf("resident total %d exceeds the capacity %d", sum, sp.Cap)
	}
	if n := ch.Len(); n != len(filo) {
		return fmt.Sprintf("Len() = %d but %d entries are resident", n, len(filo))
	}
	if len(idx) != len(filo) {
		return fmt.Sprintf("the index has %d entries, the recency list %d", len(idx), len(filo))
	}
	for _, e := range idx {
		if seen[e.k] != e.v {
			return fmt.Sprintf("index and recency list disagree on key %d", e.k)
		}
	}
	keys := make([]int64, 0, len(seen))
	for k := range seen {
		keys = append(keys, k)
	}
	sort.Slice(keys, func(i, j int) bool { return keys[i] < keys[j] })
	for _, k := range keys {
		v, err := ch.Get(k)
		if err != nil {
			return fmt.Sprintf("key %d is resident but Get does not find it", k)
		}
		if v != seen[k] {
			return fmt.Sprintf("Get(%d) returns another value than the resident one", k)
		}
	}
	// every entry can be deleted: nothing unreachable stays behind
	for k := int64(0); k < int64(sp.Keys); k++ {
		ch.Delete(k)
	}
	rest, _ := collect(ch.RangeFILO)
	if n, s := ch.Len(), ch.Size(); n != 0 || s != 0 || len(rest) != 0 {
		return fmt.Sprintf("after deleting every key: Len() = %d, Size() = %d, %d entries in the recency list", n, s, len(rest))
	}
	return ""
}

func stressHistory(seed int64, round int, thorough bool) History {
	r := c.Rng(seed, stressIDBase+round)
	sp := &StressSpec{Seed: seed, Round: round, Workers: 4 + 2*r.Intn(3), OpsEach: 1500, Keys: 2 + r.Intn(3),
		Cap: uint64(3 + r.Intn(6)), NoCb: round%2 == 1}
	if thorough {
		sp.OpsEach = 4000
	}
	return History{ID: stressIDBase + round, Name: "stress", Cap: sp.Cap, Stress: sp}
}

func runStressHistory(h *History) {
	h.Failure = nil
	h.Stress.Ops = 0
	if freeHangs.Load() >= freeMaxHangs {
		return // skipped, see freeHangs
	}
	if what, tag := runStress(h.Stress); tag != "" {
		h.Failure = &Failure{Step: 0, What: fmt.Sprintf("stress (%d goroutines, %d keys, capacity %d, callback %v): %s",
			h.Stress.Workers, h.Stress.Keys, h.Stress.Cap, !h.Stress.NoCb, what), Tag: tag}
	}
}
