// Correspondence harness for C16: drives the real cache/lru.Cache with
// generated histories (sequential calls, and groups of concurrent callers
// under a controlled scheduler built on the verif yield hook) and writes the
// observations as Coq cases files for Verif.C16.Replay. free.go adds the
// free-running part (no hook, no scheduler control): distinct outcomes of
// small concurrent scenarios for Replay.run_free, and stress rounds.
package main

import (
	"errors"
	"flag"
	"fmt"
	"math/rand"
	"path/filepath"
	"runtime"
	"sort"
	"strings"
	"sync"
	"sync/atomic"
	"time"

	"github.com/lightninglabs/neutrino/cache"
	"github.com/lightninglabs/neutrino/cache/lru"

	c "verifharness/internal/common"
)

const opDeadline = 2 * time.Second

// ---------------------------------------------------------------------
// History format (JSON, replayable).

// Op is one cache call or harness action.
type Op struct {
	// put|get|delete|loadanddelete|len|size|range|rangefilo|rangefifo|poison|heal
	Kind string `json:"kind"`
	Key  int64  `json:"key,omitempty"`
	Vid  int64  `json:"vid,omitempty"` // value id of a put; the id for poison/heal
	Sz   uint64 `json:"sz,omitempty"`  // what Size() of the put value returns while not poisoned
}

// Obs is the recorded observation of one call.
type Obs struct {
	Kind    string     `json:"kind"` // put|err|val|done|num|list
	Evicted bool       `json:"evicted,omitempty"`
	Found   bool       `json:"found,omitempty"`
	Vid     int64      `json:"vid,omitempty"`
	N       uint64     `json:"n,omitempty"`
	Cbs     [][2]int64 `json:"cbs,omitempty"`  // onDelete callbacks (key, value id) in call order
	List    [][2]int64 `json:"list,omitempty"` // Range*: (key, value id)
	Err     string     `json:"err,omitempty"`  // error class, histogram only
}

// Item is a sequential call (Op/Obs) or a concurrent group (Conc/Sched/Obss).
type Item struct {
	Op    *Op   `json:"op,omitempty"`
	Obs   *Obs  `json:"obs,omitempty"`
	Conc  []Op  `json:"conc,omitempty"`
	Sched []int `json:"sched,omitempty"` // forced schedule on input, executed schedule once run
	Obss  []Obs `json:"obss,omitempty"`

	enabled [][]int // enabled set at every scheduler step (DFS only)
}

// Failure is an implementation failure seen by the harness.
type Failure struct {
	Step int    `json:"step"`
	What string `json:"what"`
	Tag  string `json:"tag"`
}

// History is one case.
type History struct {
	ID    int    `json:"id"`
	Name  string `json:"name,omitempty"`
	Cap   uint64 `json:"cap"`
	Items []Item `json:"items"`
	// Executed is the number of leading items that ran to completion; it is
	// len(items) unless an impl_failure truncated the case.
	Executed int      `json:"executed"`
	Failure  *Failure `json:"failure,omitempty"`
	// Free marks a free-running scenario (free.go): Items = sequential
	// prefix, one concurrent group, tail observers; the group is run without
	// scheduler control Free.Reps times and Free.Outcomes lists the distinct
	// outcomes. Stress marks a stress round (free.go).
	Free   *FreeSpec   `json:"free,omitempty"`
	Stress *StressSpec `json:"stress,omitempty"`
}

// ---------------------------------------------------------------------
// Values, run context.

type runCtx struct {
	mu       sync.Mutex
	poisoned map[int64]bool
	cur      *[][2]int64 // callback list of the operation currently executing
	// lockless: free-running mode. poisoned is only written by the
	// sequential prefix (before the callers are released), so Size() reads it
	// without taking mu and the values add no synchronisation of their own.
	lockless bool
}

type tval struct {
	id  int64
	sz  uint64
	run *runCtx
	// deleted counts the delete callbacks seen for this value (stress runs)
	deleted atomic.Int32
}

func (v *tval) Size() (uint64, error) {
	if v.run == nil {
		return v.sz, nil
	}
	if v.run.lockless {
		if v.run.poisoned[v.id] {
			return 0, fmt.Errorf("size of value %d unavailable", v.id)
		}
		return v.sz, nil
	}
	v.run.mu.Lock()
	p := v.run.poisoned[v.id]
	v.run.mu.Unlock()
	if p {
		return 0, fmt.Errorf("size of value %d unavailable", v.id)
	}
	return v.sz, nil
}

func (r *runCtx) onDelete(k int64, v *tval) {
	id := int64(-1)
	if v != nil {
		id = v.id
	}
	r.mu.Lock()
	if r.cur != nil {
		*r.cur = append(*r.cur, [2]int64{k, id})
	}
	r.mu.Unlock()
}

func (r *runCtx) setCur(p *[][2]int64) {
	r.mu.Lock()
	r.cur = p
	r.mu.Unlock()
}

func (r *runCtx) anyPoisoned() bool {
	r.mu.Lock()
	defer r.mu.Unlock()
	return len(r.poisoned) > 0
}

type lcache = lru.Cache[int64, *tval]

func classify(err error) string {
	s := err.Error()
	switch {
	case strings.Contains(s, "size of cache value"):
		return "new-value-size"
	case strings.Contains(s, "can't insert"):
		return "too-big"
	case strings.Contains(s, "existing cache value"):
		return "resident-value-size"
	case strings.Contains(s, "all elements got evicted"):
		return "evicted-all"
	case strings.Contains(s, "can't evict"):
		return "evict-too-big"
	}
	return "other"
}

func sortPairs(l [][2]int64) {
	sort.Slice(l, func(i, j int) bool {
		if l[i][0] != l[j][0] {
			return l[i][0] < l[j][0]
		}
		return l[i][1] < l[j][1]
	})
}

// exec performs one call on the real cache. cbs is the callback list the
// caller installed as (or will read from) r.cur.
func (r *runCtx) exec(ch *lcache, op Op, cbs *[][2]int64) Obs {
	vidOf := func(v *tval) int64 {
		if v == nil {
			return -1
		}
		return v.id
	}
	switch op.Kind {
	case "put":
		ev, err := ch.Put(op.Key, &tval{id: op.Vid, sz: op.Sz, run: r})
		if err != nil {
			return Obs{Kind: "err", Cbs: *cbs, Err: classify(err)}
		}
		return Obs{Kind: "put", Evicted: ev, Cbs: *cbs}
	case "get":
		v, err := ch.Get(op.Key)
		if err == nil {
			return Obs{Kind: "val", Found: true, Vid: vidOf(v), Cbs: *cbs}
		}
		if errors.Is(err, cache.ErrElementNotFound) {
			return Obs{Kind: "val", Cbs: *cbs}
		}
		return Obs{Kind: "err", Cbs: *cbs, Err: "get-other"}
	case "delete":
		ch.Delete(op.Key)
		return Obs{Kind: "done", Cbs: *cbs}
	case "loadanddelete":
		v, ok := ch.LoadAndDelete(op.Key)
		if ok {
			return Obs{Kind: "val", Found: true, Vid: vidOf(v), Cbs: *cbs}
		}
		return Obs{Kind: "val", Cbs: *cbs}
	case "len":
		return Obs{Kind: "num", N: uint64(int64(ch.Len()))}
	case "size":
		return Obs{Kind: "num", N: ch.Size()}
	case "range", "rangefilo", "rangefifo":
		l := [][2]int64{}
		vis := func(k int64, v *tval) bool {
			l = append(l, [2]int64{k, vidOf(v)})
			return true
		}
		switch op.Kind {
		case "range":
			ch.Range(vis)
			sortPairs(l)
		case "rangefilo":
			ch.RangeFILO(vis)
		default:
			ch.RangeFIFO(vis)
		}
		return Obs{Kind: "list", List: l}
	case "poison":
		r.mu.Lock()
		if r.poisoned == nil {
			r.poisoned = map[int64]bool{}
		}
		r.poisoned[op.Vid] = true
		r.mu.Unlock()
		return Obs{Kind: "done"}
	case "heal":
		r.mu.Lock()
		delete(r.poisoned, op.Vid)
		r.mu.Unlock()
		return Obs{Kind: "done"}
	}
	panic("unknown op kind " + op.Kind)
}

type seqResult struct {
	obs   Obs
	panic string
}

// seqOp runs one sequential call with a deadline.
func (r *runCtx) seqOp(ch *lcache, op Op) (Obs, string, string) {
	var cbs [][2]int64
	r.setCur(&cbs)
	done := make(chan seqResult, 1)
	go func() {
		defer func() {
			if p := recover(); p != nil {
				done <- seqResult{panic: fmt.Sprint(p)}
			}
		}()
		done <- seqResult{obs: r.exec(ch, op, &cbs)}
	}()
	tm := time.NewTimer(opDeadline)
	defer tm.Stop()
	select {
	case res := <-done:
		if res.panic != "" {
			return Obs{}, "operation panicked: " + res.panic, "panic"
		}
		return res.obs, "", ""
	case <-tm.C:
		r.setCur(nil)
		return Obs{}, "operation did not return (deadlock)", "deadlock"
	}
}

// ---------------------------------------------------------------------
// Controlled scheduler over lru.VerifYieldHook.

const (
	evParked = 1
	evDone   = 2
	evPanic  = 3
)

type thread struct {
	op        Op
	ch        *lcache
	resume    chan struct{}
	evt       chan int
	goid      atomic.Int64
	abandoned atomic.Bool
	cbs       [][2]int64
	obs       Obs
	panicMsg  string
	// scheduler-owned
	started, parked, done bool
}

var threads sync.Map // goroutine id -> *thread

func goid() int64 {
	var buf [64]byte
	n := runtime.Stack(buf[:], false)
	var id int64
	for _, b := range buf[len("goroutine "):n] {
		if b < '0' || b > '9' {
			break
		}
		id = id*10 + int64(b-'0')
	}
	return id
}

func yieldHook(n int) {
	v, ok := threads.Load(goid())
	if !ok {
		return
	}
	t := v.(*thread)
	if n != 1 && t.ch.VerifLocked() {
		// inside the critical section of the running thread: not a
		// scheduling point
		return
	}
	t.evt <- evParked
	<-t.resume
}

// runGroup executes a group of concurrent callers under the scheduler.
func (r *runCtx) runGroup(ch *lcache, ops []Op, forced []int) (sched []int, obss []Obs, ens [][]int, what, tag string) {
	ths := make([]*thread, len(ops))
	for i := range ops {
		t := &thread{op: ops[i], ch: ch, resume: make(chan struct{}, 1), evt: make(chan int, 4)}
		ths[i] = t
		go func() {
			id := goid()
			t.goid.Store(id)
			threads.Store(id, t)
			<-t.resume
			if t.abandoned.Load() {
				threads.Delete(id)
				return
			}
			defer func() {
				if p := recover(); p != nil {
					threads.Delete(id)
					t.panicMsg = fmt.Sprint(p)
					t.evt <- evPanic
				}
			}()
			t.obs = r.exec(ch, t.op, &t.cbs)
			threads.Delete(id)
			t.evt <- evDone
		}()
	}
	abandon := func() {
		r.setCur(nil)
		for _, t := range ths {
			if t.done {
				continue
			}
			t.abandoned.Store(true)
			if !t.started {
				t.resume <- struct{}{}
			} else if id := t.goid.Load(); id != 0 {
				threads.Delete(id)
			}
		}
	}
	tm := time.NewTimer(opDeadline)
	defer tm.Stop()
	for pos := 0; ; pos++ {
		var en []int
		allDone, lockedKnown, locked := true, false, false
		for i, t := range ths {
			if t.done {
				continue
			}
			allDone = false
			if !t.started {
				en = append(en, i)
				continue
			}
			if t.parked {
				if !lockedKnown {
					locked, lockedKnown = ch.VerifLocked(), true
				}
				if !locked {
					en = append(en, i)
				}
			}
		}
		if allDone {
			break
		}
		if len(en) == 0 {
			abandon()
			return sched, nil, ens, "all remaining callers blocked on the mutex (deadlock)", "deadlock"
		}
		pick := en[0]
		if pos < len(forced) {
			for _, e := range en {
				if e == forced[pos] {
					pick = e
				}
			}
		}
		ens = append(ens, en)
		sched = append(sched, pick)
		t := ths[pick]
		t.started, t.parked = true, false
		r.setCur(&t.cbs)
		if !tm.Stop() {
			select {
			case <-tm.C:
			default:
			}
		}
		tm.Reset(opDeadline)
		t.resume <- struct{}{}
		select {
		case e := <-t.evt:
			switch e {
			case evParked:
				t.parked = true
			case evDone:
				t.done = true
			case evPanic:
				t.done = true
				abandon()
				return sched, nil, ens, "concurrent caller panicked: " + t.panicMsg, "panic"
			}
		case <-tm.C:
			abandon()
			return sched, nil, ens, fmt.Sprintf("concurrent caller %d did not return or park after being resumed (deadlock)", pick), "deadlock"
		}
	}
	r.setCur(nil)
	obss = make([]Obs, len(ths))
	for i, t := range ths {
		obss[i] = t.obs
	}
	return sched, obss, ens, "", ""
}

// runHistory executes h on a fresh real cache and fills in the observations.
func runHistory(h *History) {
	r := &runCtx{poisoned: map[int64]bool{}}
	ch := lru.NewCache[int64, *tval](h.Cap, lru.WithDeleteCallback[int64, *tval](r.onDelete))
	h.Failure = nil
	for i := range h.Items {
		it := &h.Items[i]
		it.Obs, it.Obss, it.enabled = nil, nil, nil
	}
	for i := range h.Items {
		it := &h.Items[i]
		if it.Op != nil {
			obs, what, tag := r.seqOp(ch, *it.Op)
			if tag != "" {
				h.Failure = &Failure{Step: i, What: what, Tag: tag}
				h.Executed = i
				return
			}
			// harness-side note for the non-triviality rule only
			if (it.Op.Kind == "delete" || it.Op.Kind == "loadanddelete") && len(obs.Cbs) == 0 && r.anyPoisoned() {
				obs.Err = "removed-nothing-while-poisoned"
			}
			it.Obs = &obs
			continue
		}
		sched, obss, ens, what, tag := r.runGroup(ch, it.Conc, it.Sched)
		it.enabled = ens
		if tag != "" {
			h.Failure = &Failure{Step: i, What: what + fmt.Sprintf(" after schedule %v", sched), Tag: tag}
			h.Executed = i
			return
		}
		it.Sched, it.Obss = sched, obss
	}
	h.Executed = len(h.Items)
}

// ---------------------------------------------------------------------
// Gallina output.

func u64(v uint64) string { return fmt.Sprintf("%d", v) }

func opTerm(o *Op) string {
	switch o.Kind {
	case "put":
		return c.App("P", c.Z(o.Key), c.Z(o.Vid), u64(o.Sz))
	case "get":
		return c.App("G", c.Z(o.Key))
	case "delete":
		return c.App("D", c.Z(o.Key))
	case "loadanddelete":
		return c.App("LD", c.Z(o.Key))
	case "len":
		return "Len"
	case "size":
		return "Size"
	case "range":
		return "Range"
	case "rangefilo":
		return "RangeFILO"
	case "rangefifo":
		return "RangeFIFO"
	case "poison":
		return c.App("Poison", c.Z(o.Vid))
	case "heal":
		return c.App("Heal", c.Z(o.Vid))
	}
	panic("op " + o.Kind)
}

func pairsTerm(l [][2]int64) string {
	it := make([]string, len(l))
	for i, p := range l {
		it[i] = "(" + c.Z(p[0]) + "," + c.Z(p[1]) + ")"
	}
	return "[" + strings.Join(it, ";") + "]"
}

func obsTerm(o *Obs) string {
	switch o.Kind {
	case "put":
		return c.App("OPut", c.Bool(o.Evicted), pairsTerm(o.Cbs))
	case "err":
		return c.App("OErr", pairsTerm(o.Cbs))
	case "val":
		v := "None"
		if o.Found {
			v = c.Some(c.Z(o.Vid))
		}
		return c.App("OVal", v, pairsTerm(o.Cbs))
	case "done":
		return c.App("ODone", pairsTerm(o.Cbs))
	case "num":
		return c.App("ONum", u64(o.N))
	case "list":
		return c.App("OList", pairsTerm(o.List))
	}
	panic("obs " + o.Kind)
}

func caseTerm(h *History) string {
	items := make([]string, 0, h.Executed)
	for i := 0; i < h.Executed; i++ {
		it := &h.Items[i]
		if it.Op != nil {
			items = append(items, "ISeq "+opTerm(it.Op)+" "+obsTerm(it.Obs))
			continue
		}
		ops := make([]string, len(it.Conc))
		obs := make([]string, len(it.Conc))
		for j := range it.Conc {
			ops[j] = opTerm(&it.Conc[j])
			obs[j] = obsTerm(&it.Obss[j])
		}
		sch := make([]string, len(it.Sched))
		for j, s := range it.Sched {
			sch[j] = fmt.Sprint(s)
		}
		items = append(items, "IConc ["+strings.Join(ops, ";")+"] ["+strings.Join(sch, ";")+"]%nat ["+strings.Join(obs, ";")+"]")
	}
	return fmt.Sprintf("(%d,(%s,[%s]))", h.ID, u64(h.Cap), strings.Join(items, ";"))
}

const casesHeader = "From Coq Require Import ZArith List.\nFrom Verif Require Import C16.Model C16.Spec C16.Replay.\nImport ListNotations. Open Scope Z_scope.\nDefinition cases : list (Z * case) := [\n"
const casesTrailer = "].\nDefinition R := Eval vm_compute in (run_cases cases).\nSet Printing Width 1000000. Set Printing Depth 1000000. Print R.\n"

// ---------------------------------------------------------------------
// Signatures and statistics.

var letters = map[string]string{"put": "p", "get": "g", "delete": "d", "loadanddelete": "l", "len": "n",
	"size": "z", "range": "r", "rangefilo": "f", "rangefifo": "q", "poison": "x", "heal": "h"}

func opLetter(o *Op, ob *Obs) (string, bool) {
	l := letters[o.Kind]
	nontrivial := false
	switch {
	case ob.Kind == "err":
		l, nontrivial = "E", true
	case o.Kind == "put" && len(ob.Cbs) > 0:
		l, nontrivial = "P", true
	case (o.Kind == "get" || o.Kind == "loadanddelete") && ob.Found:
		l = strings.ToUpper(l)
	case o.Kind == "delete" && len(ob.Cbs) > 0:
		l = "D"
	}
	if ob.Err == "removed-nothing-while-poisoned" {
		nontrivial = true
	}
	return l, nontrivial
}

func signature(h *History, hist map[string]int) (string, bool) {
	var sb strings.Builder
	nontrivial := false
	count := func(o *Op, ob *Obs) {
		hist["op:"+o.Kind]++
		if ob.Kind == "err" {
			hist["err:"+ob.Err]++
		}
		if o.Kind == "put" && ob.Kind != "err" {
			hist[fmt.Sprintf("evictions_per_put:%d", len(ob.Cbs))]++
		}
		if ob.Kind == "err" && len(ob.Cbs) > 0 {
			hist["failed_put_with_evictions"]++
		}
	}
	for i := 0; i < h.Executed; i++ {
		it := &h.Items[i]
		if it.Op != nil {
			l, nt := opLetter(it.Op, it.Obs)
			sb.WriteString(l)
			nontrivial = nontrivial || nt
			count(it.Op, it.Obs)
			continue
		}
		nontrivial = true
		sb.WriteString("[")
		for j := range it.Conc {
			l, _ := opLetter(&it.Conc[j], &it.Obss[j])
			sb.WriteString(l)
			count(&it.Conc[j], &it.Obss[j])
		}
		sb.WriteString("]")
		hist["conc_groups"]++
		hist[fmt.Sprintf("conc_group_threads:%d", len(it.Conc))]++
		ss := make([]string, len(it.Sched))
		for j, s := range it.Sched {
			ss[j] = fmt.Sprint(s)
		}
		hist["schedule:"+strings.Join(ss, "")]++
	}
	return sb.String(), nontrivial
}

// ---------------------------------------------------------------------
// Corpus.

func put(k, vid int64, sz uint64) Item { return Item{Op: &Op{Kind: "put", Key: k, Vid: vid, Sz: sz}} }
func keyed(kind string, k int64) Item  { return Item{Op: &Op{Kind: kind, Key: k}} }
func get(k int64) Item                 { return keyed("get", k) }
func del(k int64) Item                 { return keyed("delete", k) }
func lad(k int64) Item                 { return keyed("loadanddelete", k) }
func plain(kind string) Item           { return Item{Op: &Op{Kind: kind}} }
func poison(id int64) Item             { return Item{Op: &Op{Kind: "poison", Vid: id}} }
func heal(id int64) Item               { return Item{Op: &Op{Kind: "heal", Vid: id}} }
func conc(sched []int, ops ...Op) Item { return Item{Conc: ops, Sched: sched} }
func tail(full bool) []Item {
	t := []Item{plain("len"), plain("size"), plain("range"), plain("rangefilo")}
	if full {
		t = append(t, plain("rangefifo"))
	}
	return t
}

func corpus() []History {
	p7 := func(vid int64) Op { return Op{Kind: "put", Key: 7, Vid: vid, Sz: 3} }
	hs := []History{
		{Name: "f12", Cap: 10, Items: []Item{put(1, 11, 6), poison(11), put(2, 12, 6), plain("len"), plain("size"),
			get(1), heal(11), put(2, 13, 6), get(1), get(2)}},
		{Name: "f13", Cap: 10, Items: []Item{conc([]int{0, 1, 0, 1}, p7(71), p7(72)), plain("len"), plain("size"),
			plain("range"), plain("rangefilo")}},
		{Name: "f13_serial", Cap: 10, Items: []Item{conc([]int{0, 0, 1, 1}, p7(71), p7(72)), plain("len"), plain("size"),
			plain("range"), plain("rangefilo")}},
		{Name: "f12b", Cap: 10, Items: []Item{put(1, 1, 4), put(2, 2, 4), get(1), poison(2), put(1, 3, 8), get(1),
			plain("len"), plain("size"), plain("range"), plain("rangefilo"), heal(2), put(1, 4, 8), plain("len"), plain("size")}},
		{Name: "f12c", Cap: 10, Items: []Item{put(1, 1, 4), poison(1), lad(1), plain("len"), plain("range"), get(1),
			heal(1), put(1, 5, 3), plain("len"), plain("size"), plain("range"), plain("rangefilo"), del(1), plain("len")}},
		{Name: "replace_size", Cap: 10, Items: []Item{put(1, 1, 4), put(2, 2, 4), put(1, 3, 6), plain("size"),
			plain("rangefilo"), put(1, 4, 7), plain("size"), get(2), put(1, 5, 1), plain("size"), put(2, 6, 9), get(1)}},
		{Name: "oversize", Cap: 10, Items: []Item{put(1, 1, 5), put(2, 2, 11), plain("len"), put(1, 3, 11), get(1),
			plain("size"), put(3, 4, 1 << 61), get(3)}},
		{Name: "exact_cap", Cap: 10, Items: []Item{put(1, 1, 3), put(2, 2, 3), put(3, 3, 10), plain("len"), plain("size"),
			put(4, 4, 1), get(3), put(4, 5, 10), put(4, 6, 10)}},
		{Name: "zero_size", Cap: 5, Items: []Item{put(1, 1, 0), put(2, 2, 0), put(3, 3, 5), plain("len"), put(4, 4, 0),
			plain("len"), put(5, 5, 1), plain("rangefilo"), lad(1), del(4), put(1, 6, 0), get(1)}},
		{Name: "cap_zero", Cap: 0, Items: []Item{put(1, 1, 0), put(2, 2, 1), get(1), get(2), put(2, 3, 0), plain("len"),
			del(1), lad(2), lad(2)}},
		{Name: "poison_new_value", Cap: 10, Items: []Item{poison(1), put(1, 1, 3), get(1), heal(1), put(1, 2, 3),
			poison(2), get(1), del(1), lad(1), put(1, 3, 3), plain("len"), heal(2), put(1, 4, 3), heal(9)}},
		{Name: "conc_evict_poisoned", Cap: 10, Items: []Item{put(0, 1, 4), put(1, 2, 4), poison(1),
			conc([]int{0, 1, 1, 0, 2, 2}, Op{Kind: "put", Key: 2, Vid: 11, Sz: 7}, Op{Kind: "get", Key: 0},
				Op{Kind: "loadanddelete", Key: 1}), heal(1), put(2, 12, 7)}},
	}
	for i := range hs {
		hs[i].ID = i
		hs[i].Items = append(hs[i].Items, tail(true)...)
	}
	return hs
}

// ---------------------------------------------------------------------
// Random histories. The generator keeps a rough sequential simulation of
// the cache only to bias choices (resident keys, eviction pressure); it is
// never compared with anything.

type sent struct {
	k, vid int64
	sz     uint64
}
type sim struct {
	cap uint64
	l   []sent // front first
	bad map[int64]bool
}

func (s *sim) sum() uint64 {
	var t uint64
	for _, e := range s.l {
		t += e.sz
	}
	return t
}
func (s *sim) find(k int64) int {
	for i, e := range s.l {
		if e.k == k {
			return i
		}
	}
	return -1
}
func (s *sim) remove(i int) { s.l = append(s.l[:i:i], s.l[i+1:]...) }
func (s *sim) apply(o Op) {
	switch o.Kind {
	case "put":
		if s.bad[o.Vid] || o.Sz > s.cap {
			return
		}
		if i := s.find(o.Key); i >= 0 {
			if s.bad[s.l[i].vid] {
				return
			}
			s.remove(i)
		}
		for len(s.l) > 0 && s.cap-s.sum() < o.Sz {
			if s.bad[s.l[len(s.l)-1].vid] {
				return
			}
			s.l = s.l[:len(s.l)-1]
		}
		s.l = append([]sent{{o.Key, o.Vid, o.Sz}}, s.l...)
	case "get":
		if i := s.find(o.Key); i >= 0 {
			e := s.l[i]
			s.remove(i)
			s.l = append([]sent{e}, s.l...)
		}
	case "delete", "loadanddelete":
		if i := s.find(o.Key); i >= 0 && !s.bad[s.l[i].vid] {
			s.remove(i)
		}
	case "poison":
		s.bad[o.Vid] = true
	case "heal":
		delete(s.bad, o.Vid)
	}
}

type pendingHeal struct {
	vid int64
	at  int
}

type gen struct {
	r       *rand.Rand
	cap     uint64
	keys    []int64
	nextVid int64
	s       *sim
	items   []Item
	heals   []pendingHeal
}

func (g *gen) fresh() int64 { g.nextVid++; return g.nextVid }
func (g *gen) emit(o Op) {
	g.items = append(g.items, Item{Op: &o})
	g.s.apply(o)
}
func (g *gen) anyKey() int64 { return g.keys[g.r.Intn(len(g.keys))] }
func (g *gen) residentKey() (int64, bool) {
	if len(g.s.l) == 0 {
		return g.anyKey(), false
	}
	return g.s.l[g.r.Intn(len(g.s.l))].k, true
}
func (g *gen) absentKey() int64 {
	for try := 0; try < 6; try++ {
		k := g.anyKey()
		if g.s.find(k) < 0 {
			return k
		}
	}
	return g.anyKey()
}
func (g *gen) mostlyResident(pct int) int64 {
	if g.r.Intn(100) < pct {
		k, _ := g.residentKey()
		return k
	}
	return g.anyKey()
}
func (g *gen) fillSize() uint64 {
	lo := g.cap / 4
	if lo < 1 {
		lo = 1
	}
	hi := g.cap/2 + 1
	return lo + uint64(g.r.Int63n(int64(hi-lo+1)))
}
func (g *gen) observer() Op {
	return Op{Kind: []string{"len", "size", "range", "rangefilo", "rangefifo"}[g.r.Intn(5)]}
}

func (g *gen) concGroup() {
	n := 2 + g.r.Intn(2)
	focus := g.mostlyResident(50)
	ops := make([]Op, n)
	for i := range ops {
		k := focus
		if g.r.Intn(100) < 40 {
			k = g.anyKey()
		}
		switch x := g.r.Intn(100); {
		case x < 45:
			sz := g.fillSize()
			if g.r.Intn(4) == 0 {
				sz = g.cap - uint64(g.r.Intn(2))
			}
			if g.r.Intn(15) == 0 {
				sz = g.cap + 1
			}
			ops[i] = Op{Kind: "put", Key: k, Vid: g.fresh(), Sz: sz}
		case x < 65:
			ops[i] = Op{Kind: "get", Key: k}
		case x < 75:
			ops[i] = Op{Kind: "delete", Key: k}
		case x < 85:
			ops[i] = Op{Kind: "loadanddelete", Key: k}
		case x < 92:
			ops[i] = Op{Kind: "len"}
		default:
			ops[i] = Op{Kind: "size"}
		}
	}
	// random interleaving, two steps per thread; the scheduler falls back to
	// the lowest enabled thread where an entry is not enabled
	sched := make([]int, 0, 2*n)
	for i := 0; i < n; i++ {
		sched = append(sched, i, i)
	}
	g.r.Shuffle(len(sched), func(i, j int) { sched[i], sched[j] = sched[j], sched[i] })
	g.items = append(g.items, Item{Conc: ops, Sched: sched})
	for _, o := range ops {
		g.s.apply(o)
	}
}

func (g *gen) structuredStep() {
	// heals that are due
	for i := 0; i < len(g.heals); {
		if g.heals[i].at <= len(g.items) {
			g.emit(Op{Kind: "heal", Vid: g.heals[i].vid})
			g.heals = append(g.heals[:i], g.heals[i+1:]...)
			continue
		}
		i++
	}
	switch x := g.r.Intn(100); {
	case x < 28:
		k := g.absentKey()
		if g.r.Intn(4) == 0 {
			k = g.anyKey()
		}
		g.emit(Op{Kind: "put", Key: k, Vid: g.fresh(), Sz: g.fillSize()})
	case x < 40:
		k, ok := g.residentKey()
		sz := g.fillSize()
		if ok {
			old := g.s.l[g.s.find(k)].sz
			if sz == old {
				sz = old/2 + 1
			}
			if g.r.Intn(3) == 0 {
				sz = g.cap - uint64(g.r.Int63n(int64(g.cap/4+1)))
			}
		}
		g.emit(Op{Kind: "put", Key: k, Vid: g.fresh(), Sz: sz})
	case x < 55:
		g.emit(Op{Kind: "get", Key: g.mostlyResident(80)})
	case x < 61:
		g.emit(Op{Kind: "delete", Key: g.mostlyResident(75)})
	case x < 67:
		g.emit(Op{Kind: "loadanddelete", Key: g.mostlyResident(75)})
	case x < 71:
		g.emit(Op{Kind: "put", Key: g.mostlyResident(50), Vid: g.fresh(), Sz: g.cap + 1 + uint64(g.r.Intn(3))})
	case x < 74:
		g.emit(Op{Kind: "put", Key: g.anyKey(), Vid: g.fresh(), Sz: 0})
	case x < 76:
		g.emit(Op{Kind: "put", Key: g.anyKey(), Vid: g.fresh(), Sz: g.cap})
	case x < 87:
		if len(g.s.l) == 0 {
			g.emit(Op{Kind: "put", Key: g.anyKey(), Vid: g.fresh(), Sz: g.fillSize()})
			return
		}
		// poison a resident value (often the least recently used one),
		// then force an eviction / deletion / replacement of it
		i := len(g.s.l) - 1
		if g.r.Intn(2) == 0 {
			i = g.r.Intn(len(g.s.l))
		}
		e := g.s.l[i]
		g.emit(Op{Kind: "poison", Vid: e.vid})
		switch y := g.r.Intn(10); {
		case y < 4:
			sz := g.cap - uint64(g.r.Int63n(int64(g.cap/3+1)))
			g.emit(Op{Kind: "put", Key: g.absentKey(), Vid: g.fresh(), Sz: sz})
		case y < 5:
			g.emit(Op{Kind: "delete", Key: e.k})
		case y < 6:
			g.emit(Op{Kind: "loadanddelete", Key: e.k})
		case y < 8:
			g.emit(Op{Kind: "put", Key: e.k, Vid: g.fresh(), Sz: g.fillSize()})
		case y < 9:
			g.emit(Op{Kind: "get", Key: e.k})
		default:
			for j := 0; j < 3; j++ {
				g.emit(Op{Kind: "put", Key: g.absentKey(), Vid: g.fresh(), Sz: g.fillSize()})
			}
		}
		if g.r.Intn(5) != 0 {
			g.heals = append(g.heals, pendingHeal{e.vid, len(g.items) + g.r.Intn(4)})
		}
	case x < 89:
		// heal something (possibly never poisoned)
		id := int64(1 + g.r.Intn(int(g.nextVid)+1))
		var bad []int64
		for v := range g.s.bad {
			bad = append(bad, v)
		}
		sort.Slice(bad, func(i, j int) bool { return bad[i] < bad[j] })
		if len(bad) > 0 && g.r.Intn(3) != 0 {
			id = bad[g.r.Intn(len(bad))]
		}
		g.emit(Op{Kind: "heal", Vid: id})
	default:
		g.emit(g.observer())
	}
}

func (g *gen) malformedStep() {
	k := int64(g.r.Intn(8))
	id := int64(1 + g.r.Intn(int(g.nextVid)+3))
	switch g.r.Intn(11) {
	case 0:
		g.emit(Op{Kind: "put", Key: k, Vid: g.fresh(), Sz: uint64(g.r.Int63n(int64(g.cap + 3)))})
	case 1:
		g.emit(Op{Kind: "get", Key: k})
	case 2:
		g.emit(Op{Kind: "delete", Key: k})
	case 3:
		g.emit(Op{Kind: "loadanddelete", Key: k})
	case 4:
		g.emit(Op{Kind: "len"})
	case 5:
		g.emit(Op{Kind: "size"})
	case 6:
		g.emit(Op{Kind: "range"})
	case 7:
		g.emit(Op{Kind: "rangefilo"})
	case 8:
		g.emit(Op{Kind: "rangefifo"})
	case 9:
		g.emit(Op{Kind: "poison", Vid: id})
		if g.r.Intn(3) == 0 {
			g.emit(Op{Kind: "poison", Vid: id})
		}
	default:
		g.emit(Op{Kind: "heal", Vid: id})
	}
}

func genRandom(seed int64, id int) History {
	r := c.Rng(seed, id)
	g := &gen{r: r, cap: uint64(4 + r.Intn(37))}
	nk := 3 + r.Intn(4)
	for i := 0; i < nk; i++ {
		g.keys = append(g.keys, int64(i))
	}
	g.s = &sim{cap: g.cap, bad: map[int64]bool{}}
	malformed := r.Intn(100) < 15
	withConc := !malformed && r.Intn(3) == 0
	n := 30 + r.Intn(21)
	groups := 0
	for len(g.items) < n {
		switch {
		case malformed:
			g.malformedStep()
		case withConc && groups < 4 && r.Intn(10) == 0:
			g.concGroup()
			groups++
		default:
			g.structuredStep()
		}
	}
	if withConc && groups == 0 {
		g.concGroup()
	}
	name := "random"
	if malformed {
		name = "malformed"
	}
	return History{ID: id, Name: name, Cap: g.cap, Items: append(g.items, tail(true)...)}
}

// ---------------------------------------------------------------------
// Exhaustive interleavings (stateless DFS over the enabled sets).

type setup struct {
	name  string
	items []Item
}

func exSetups() []setup {
	return []setup{
		{"empty", nil},
		{"nearly_full", []Item{put(0, 1, 4), put(1, 2, 4)}},
		{"key0_big", []Item{put(0, 1, 9)}},
		{"lru_poisoned", []Item{put(0, 1, 4), put(1, 2, 4), poison(1)}},
	}
}

// exAlphabet returns operation i of the alphabet for thread t.
func exAlphabet(i, t int) Op {
	vid := int64(11 + t)
	switch i {
	case 0:
		return Op{Kind: "put", Key: 0, Vid: vid, Sz: 3}
	case 1:
		return Op{Kind: "put", Key: 0, Vid: vid, Sz: 7}
	case 2:
		return Op{Kind: "put", Key: 1, Vid: vid, Sz: 7}
	case 3:
		return Op{Kind: "put", Key: 2, Vid: vid, Sz: 3}
	case 4:
		return Op{Kind: "get", Key: 0}
	case 5:
		return Op{Kind: "get", Key: 1}
	case 6:
		return Op{Kind: "loadanddelete", Key: 0}
	case 7:
		return Op{Kind: "delete", Key: 1}
	case 8:
		return Op{Kind: "len"}
	default:
		return Op{Kind: "size"}
	}
}

const exAlphabetSize = 10
const exMaxSchedules = 4000

type exUnit struct {
	setup setup
	ops   []Op
}

func multisets(n, k, from int, cur []int, out *[][]int) {
	if len(cur) == n {
		*out = append(*out, append([]int{}, cur...))
		return
	}
	for i := from; i < k; i++ {
		multisets(n, k, i, append(cur, i), out)
	}
}

func exUnits(ns []int) []exUnit {
	var us []exUnit
	for _, n := range ns {
		var ms [][]int
		multisets(n, exAlphabetSize, 0, nil, &ms)
		for _, s := range exSetups() {
			for _, m := range ms {
				ops := make([]Op, n)
				for t, a := range m {
					ops[t] = exAlphabet(a, t)
				}
				us = append(us, exUnit{s, ops})
			}
		}
	}
	return us
}

// explore enumerates every schedule of one unit; complete=false when the
// enumeration was cut short (implementation failure or too many schedules).
func explore(u exUnit) (hs []History, complete bool) {
	var prefix []int
	for {
		items := append([]Item{}, u.setup.items...)
		gi := len(items)
		items = append(items, Item{Conc: append([]Op{}, u.ops...), Sched: append([]int{}, prefix...)})
		items = append(items, tail(false)...)
		h := History{Name: "exhaustive/" + u.setup.name, Cap: 10, Items: items}
		runHistory(&h)
		hs = append(hs, h)
		if h.Failure != nil || len(hs) >= exMaxSchedules {
			return hs, false
		}
		sched, ens := h.Items[gi].Sched, h.Items[gi].enabled
		// next schedule in lexicographic order
		next := -1
		for i := len(sched) - 1; i >= 0 && next < 0; i-- {
			for _, e := range ens[i] {
				if e > sched[i] {
					prefix = append(append([]int{}, sched[:i]...), e)
					next = i
					break
				}
			}
		}
		if next < 0 {
			return hs, true
		}
	}
}

// ---------------------------------------------------------------------

func parallel(workers, n int, f func(i int)) {
	var wg sync.WaitGroup
	var next atomic.Int64
	for w := 0; w < workers; w++ {
		wg.Add(1)
		go func() {
			defer wg.Done()
			for {
				i := int(next.Add(1)) - 1
				if i >= n {
					return
				}
				f(i)
			}
		}()
	}
	wg.Wait()
}

func main() {
	writeCorpus := flag.String("writecorpus", "", "also write the corpus histories (with observations) into this directory")
	a := c.ParseArgs()
	if a.Workers < 1 {
		a.Workers = 1
	}
	lru.VerifYieldHook = yieldHook
	rep := c.NewReport("C16", a)
	rep.ImplFailures = []c.ImplFailure{}

	if runtime.GOMAXPROCS(0) < 4 {
		runtime.GOMAXPROCS(4)
	}
	var hs []History
	var fhs, shs []History // free-running scenarios, stress rounds
	exhaustive := false
	if a.Replay != "" {
		// a history file, or a replay file of the orchestrator wrapping one
		var wrapped struct {
			History *History `json:"history"`
		}
		var h History
		c.ReadJSON(a.Replay, &wrapped)
		if wrapped.History != nil {
			h = *wrapped.History
		} else {
			c.ReadJSON(a.Replay, &h)
		}
		switch {
		case h.Free != nil:
			// timing dependent: the same scenario, repetitions and delay
			// sequence, but the interleavings are the scheduler's
			lru.VerifYieldHook = nil
			runFree(&h)
			fhs = []History{h}
		case h.Stress != nil:
			lru.VerifYieldHook = nil
			runStressHistory(&h)
			shs = []History{h}
		default:
			runHistory(&h)
			hs = []History{h}
		}
	} else {
		nrand, ns := 300, []int{2}
		if a.Tier == "thorough" {
			nrand, ns = 3000, []int{2, 3}
		}
		hs = corpus()
		ncorpus := len(hs)
		for i := 0; i < nrand; i++ {
			hs = append(hs, genRandom(a.Seed, 100+i))
		}
		parallel(a.Workers, len(hs), func(i int) { runHistory(&hs[i]) })
		if *writeCorpus != "" {
			for i := 0; i < ncorpus; i++ {
				c.WriteJSON(filepath.Join(*writeCorpus, hs[i].Name+".json"), hs[i])
			}
		}
		units := exUnits(ns)
		res := make([][]History, len(units))
		var incomplete atomic.Int64
		parallel(a.Workers, len(units), func(i int) {
			var ok bool
			res[i], ok = explore(units[i])
			if !ok {
				incomplete.Add(1)
			}
		})
		id := 10000
		for i := range res {
			for j := range res[i] {
				res[i][j].ID = id
				id++
				hs = append(hs, res[i][j])
			}
		}
		exhaustive = incomplete.Load() == 0
		rep.Histogram["exhaustive_units"] = len(units)
		rep.Histogram["exhaustive_units_incomplete"] = int(incomplete.Load())
		rep.Histogram["exhaustive_cases"] = id - 10000
		rep.Histogram["corpus_cases"] = ncorpus
		rep.Histogram["random_cases"] = nrand

		// free-running part: no yield hook, no scheduler control
		lru.VerifYieldHook = nil
		thorough := a.Tier == "thorough"
		fhs = freeScenarios(a.Seed, thorough)
		par := runtime.GOMAXPROCS(0) / 3
		if par < 1 {
			par = 1
		}
		t0 := time.Now()
		budget := 12 * time.Second
		if thorough {
			budget = 8 * time.Minute
		}
		rep.Histogram["free_scenarios_cut_short"] = runFreeAll(fhs, par, budget)
		rep.Histogram["free_wall_ms"] = int(time.Since(t0).Milliseconds())
		nstress := 320
		if thorough {
			nstress = 4000
		}
		for i := 0; i < nstress; i++ {
			shs = append(shs, stressHistory(a.Seed, i, thorough))
		}
		t0 = time.Now()
		spar := runtime.GOMAXPROCS(0) / 6
		if spar < 1 {
			spar = 1
		}
		parallel(spar, len(shs), func(i int) { runStressHistory(&shs[i]) })
		rep.Histogram["stress_wall_ms"] = int(time.Since(t0).Milliseconds())
	}
	sort.SliceStable(hs, func(i, j int) bool { return hs[i].ID < hs[j].ID })

	// hist files and case terms in parallel, shards in order
	terms := make([]string, len(hs))
	paths := make([]string, len(hs))
	parallel(a.Workers, len(hs), func(i int) {
		terms[i] = caseTerm(&hs[i])
		paths[i] = filepath.Join(a.Out, fmt.Sprintf("hist-%d.json", hs[i].ID))
		c.WriteJSON(paths[i], hs[i])
	})
	// at most 400 cases per shard; small runs are spread over 8 shards
	shard := 400
	if len(hs) < 8*shard {
		shard = (len(hs) + 7) / 8
	}
	if shard < 50 {
		shard = 50
	}
	nshards := (len(hs) + shard - 1) / shard
	parallel(a.Workers, nshards, func(s int) {
		lo, hi := s*shard, (s+1)*shard
		if hi > len(hs) {
			hi = len(hs)
		}
		c.WriteFile(filepath.Join(a.Out, fmt.Sprintf("cases_%d.v", s)),
			casesHeader+strings.Join(terms[lo:hi], ";\n")+"\n"+casesTrailer)
	})

	// free-running scenarios: own shards (fcases), stress rounds: hist files only
	fterms := make([]string, len(fhs))
	fpaths := make([]string, len(fhs))
	parallel(a.Workers, len(fhs), func(i int) {
		fterms[i] = freeTerm(&fhs[i])
		fpaths[i] = filepath.Join(a.Out, fmt.Sprintf("hist-%d.json", fhs[i].ID))
		c.WriteJSON(fpaths[i], fhs[i])
	})
	if len(fhs) > 0 {
		fshard := (len(fhs) + 5) / 6
		if fshard > 400 {
			fshard = 400
		}
		if fshard < 50 {
			fshard = 50
		}
		nf := (len(fhs) + fshard - 1) / fshard
		parallel(a.Workers, nf, func(s int) {
			lo, hi := s*fshard, (s+1)*fshard
			if hi > len(fhs) {
				hi = len(fhs)
			}
			c.WriteFile(filepath.Join(a.Out, fmt.Sprintf("cases_free_%d.v", s)),
				freeHeader+strings.Join(fterms[lo:hi], ";\n")+"\n"+freeTrailer)
		})
		rep.Histogram["free_shards"] = nf
	}
	if len(hs) == 0 {
		nshards = 0
	}
	freeSigs := c.Signatures{}
	for i := range fhs {
		h := &fhs[i]
		rep.Cases[fmt.Sprint(h.ID)] = fpaths[i]
		rep.Histogram["free_scenarios"]++
		rep.Histogram["free_repetitions"] += h.Free.Reps
		rep.Histogram["free_distinct_outcomes"] += len(h.Free.Outcomes)
		if len(h.Free.Outcomes) > 1 {
			rep.Histogram["free_scenarios_with_several_outcomes"]++
		}
		if h.Free.NoCb {
			rep.Histogram["free_scenarios_without_callback"]++
		}
		var sb strings.Builder
		for j := range h.Items {
			if h.Items[j].Op != nil {
				sb.WriteString(letters[h.Items[j].Op.Kind])
				continue
			}
			sb.WriteString("[")
			for _, o := range h.Items[j].Conc {
				sb.WriteString(letters[o.Kind])
			}
			sb.WriteString("]")
			rep.Histogram[fmt.Sprintf("free_group_threads:%d", len(h.Items[j].Conc))]++
		}
		if len(h.Free.Outcomes) > 1 {
			freeSigs.Add(sb.String())
		}
		if h.Failure != nil {
			rep.ImplFailures = append(rep.ImplFailures, c.ImplFailure{Case: fmt.Sprint(h.ID),
				Step: h.Failure.Step, What: h.Failure.What, Tag: h.Failure.Tag})
			rep.Histogram["impl_failure:"+h.Failure.Tag]++
		}
	}
	for i := range shs {
		h := &shs[i]
		p := filepath.Join(a.Out, fmt.Sprintf("hist-%d.json", h.ID))
		c.WriteJSON(p, h)
		rep.Cases[fmt.Sprint(h.ID)] = p
		rep.Histogram["stress_rounds"]++
		rep.Histogram["stress_ops"] += h.Stress.Ops
		if h.Failure != nil {
			// every failing round is counted, the first few are reported
			if rep.Histogram["impl_failure:"+h.Failure.Tag] < 5 {
				rep.ImplFailures = append(rep.ImplFailures, c.ImplFailure{Case: fmt.Sprint(h.ID),
					Step: h.Failure.Step, What: h.Failure.What, Tag: h.Failure.Tag})
			}
			rep.Histogram["impl_failure:"+h.Failure.Tag]++
			rep.Histogram["stress_rounds_failed"]++
		}
	}

	sigs, nontrivial := c.Signatures{}, c.Signatures{}
	for i := range hs {
		h := &hs[i]
		sig, nt := signature(h, rep.Histogram)
		sigs.Add(sig)
		if nt {
			nontrivial.Add(sig)
		}
		rep.Cases[fmt.Sprint(h.ID)] = paths[i]
		if h.Failure != nil {
			rep.ImplFailures = append(rep.ImplFailures, c.ImplFailure{Case: fmt.Sprint(h.ID),
				Step: h.Failure.Step, What: h.Failure.What, Tag: h.Failure.Tag})
			rep.Histogram["impl_failure:"+h.Failure.Tag]++
		}
	}
	rep.Histogram["distinct_signatures"] = len(sigs)
	rep.Histogram["shards"] = nshards
	rep.Evaluations = len(hs) + len(fhs) + len(shs)
	rep.DistinctNontrivial = len(nontrivial) + len(freeSigs)
	rep.Exhaustive = exhaustive
	rep.Rule = "histories of put/get/delete/loadanddelete/len/size/range*/poison/heal (and groups of 2-3 concurrent callers run under a " +
		"controlled scheduler on the verif yield hook) executed on the real lru.Cache; signature = one letter per op (E = Put " +
		"returned an error, P = Put that evicted, upper case = hit), concurrent group in brackets; a history is non-trivial when " +
		"it contains an eviction, a failed Put, a delete/loadanddelete that removed nothing while some value was poisoned, or a " +
		"concurrent group; distinct = distinct signatures among the non-trivial histories. Exhaustive part: every schedule of every " +
		"multiset of N ops from a 10-op alphabet over keys {0,1,2} on 4 start states (N=2 quick, N=2,3 thorough). Free-running part (no " +
		"scheduler control, no yield hook, real goroutines): scenarios = sequential prefix + 2-3 concurrent calls (all pairs and a " +
		"sample of / all triples of the alphabet on 6 start states, with and without delete callback, plus random scenarios) repeated " +
		"hundreds to thousands of times from a spin barrier with randomised pre-delays; every DISTINCT outcome (results of the calls + " +
		"Len/Size/Range* afterwards) is checked in Coq to be the outcome of some sequential order of the calls; a free scenario counts " +
		"as non-trivial (signature = op letters) when at least two distinct outcomes were observed. Stress rounds: 4-8 goroutines, random " +
		"calls on 2-4 keys, invariants checked on the Go side during the run and at rest."
	pick := func(pred func(h *History) bool) {
		for i := range hs {
			if pred(&hs[i]) {
				rep.Samples = append(rep.Samples, hs[i])
				return
			}
		}
	}
	if a.Replay != "" {
		for _, l := range [][]History{hs, fhs, shs} {
			if len(l) > 0 {
				rep.Samples = append(rep.Samples, l[0])
			}
		}
	} else {
		pick(func(h *History) bool { return h.Name == "f12" })
		pick(func(h *History) bool { return h.Name == "random" })
		pick(func(h *History) bool { return strings.HasPrefix(h.Name, "exhaustive") })
	}
	rep.Write(a.Out)
}
