// genaccess: the translator that regenerates /verif/coq/Generated/AccessSites.v
// from the TYPE-CHECKED source of the neutrino checkout on every check run.
//
// It loads the two modules of the checkout (<repo> and <repo>/cache): the
// package list comes from `go list -deps -json ./...` (no build tags, so files
// tagged `verif` and *_test.go are not part of the build; files named
// verif_*.go / *_verif.go and the packages under tools/ and testdata/ are
// skipped as well), the packages are parsed with go/parser and type-checked
// from source with go/types (only the standard library is used: the harness
// module cannot take golang.org/x/tools offline).  The two modules are
// analysed as one universe; objects are identified by package path and name,
// so the main module's own copy of the cache module resolves to the checkout's
// cache/ sources:
//
//	pass 1  function nodes (every FuncDecl and every function literal) and a
//	        class-hierarchy call graph; goroutine / callback / api / init roots;
//	pass 2  flow-sensitive must-held lockset over the structured AST of every
//	        function node, plus the locks held at every static call site of an
//	        unexported function (fn_requires, greatest fixpoint);
//	pass 3  every occurrence of a struct field / package-level variable
//	        declared in the checkout, classified KRead / KWrite / KCall /
//	        KAtomicR / KAtomicW / KAddr (vocabulary: coq/C18/AccessTypes.v).
//
// Refinements of the passes (all decided from the source, listed in the
// header comment of the generated file where they matter):
//   - a_ctor: plain functions init / New… / new… whose first result is (a
//     pointer to) a named type of the checkout, and, by closure, unexported
//     functions all of whose static callers are constructors
//     (ctor_by_callers); a local initialised from a call of a constructor is
//     fresh;
//   - opaque_types.txt: container types analysed at their owners' fields (KCall
//     on the field, no variables / sites of their own);
//   - private_types.txt: types whose exported methods are treated like
//     unexported ones (no api root, a_req from the call sites);
//   - container/heap and sort.Sort/Stable call Len/Less/Swap/Push/Pop of their
//     argument; function-typed parameters that are only called, and locals that
//     are only bound to literals and only called, make the literals "sync"
//     (prepass + greatest fixpoint, solveKinds); a local closure is analysed
//     from the intersection of the lock states at its uses;
//   - the state at a goto label is the intersection of the fall-through state
//     and of the states at the gotos that target it (iterated).
//
// No line numbers are emitted (only the -locate mode prints them) and
// expression text is printed without white space, so edits that do not touch
// an access leave the output unchanged.
//
// usage: genaccess [-repo dir] [-dump] [-strictreq] [-locate file.go:LINE ...]
//
//	default:    the Coq file on stdout (repo: -repo, else $VERIF_REPO, else /repo)
//	-dump:      plain-text listing, one line per site ('*' = listed in access_sites),
//	            plus the other tables and two diagnostic sections
//	-locate:    JSON array of the access sites on the given source lines
//	-strictreq: fn_requires also counts the method calls a constructor makes on
//	            the object it is building (by default they are left out, like
//	            the accesses with a_fresh / a_ctor)
package main

import (
	"bytes"
	_ "embed"
	"encoding/json"
	"flag"
	"fmt"
	"go/ast"
	"go/parser"
	"go/printer"
	"go/token"
	"go/types"
	"os"
	"os/exec"
	"path/filepath"
	"regexp"
	"runtime"
	"sort"
	"strconv"
	"strings"
	"sync"
)

//go:embed extra_vars.txt
var extraVarsTxt string

//go:embed opaque_types.txt
var opaqueTypesTxt string

//go:embed private_types.txt
var privateTypesTxt string

//go:embed init_fns.txt
var initFnsTxt string

//go:embed extra_edges.txt
var extraEdgesTxt string

//go:embed callers_of.txt
var callersOfTxt string

func readList(txt string) []string {
	var r []string
	for _, l := range strings.Split(txt, "\n") {
		if i := strings.Index(l, "#"); i >= 0 {
			l = l[:i]
		}
		if l = strings.TrimSpace(l); l != "" {
			r = append(r, l)
		}
	}
	sort.Strings(r)
	return r
}

// the known synchronous higher-order callees, as printed in the header
const syncCalleesDoc = "walletdb.View walletdb.Update walletdb.*.ForEach walletdb.*.ForEachBucket " +
	"sort.Slice sort.SliceStable sort.Search sort.Sort sync.Once.Do sync.Map.Range strings.Map strings.FieldsFunc " +
	"slices.* maps.* fn.Option.WhenSome lru.Cache.Range lru.Cache.RangeFILO lru.Cache.RangeFIFO lru.syncMap.Range; " +
	"func(){..}() is synchronous; time.AfterFunc literals are goroutines; " +
	"function-typed parameters that are only called and local closures that are only called make their literals sync; " +
	"container/heap and sort.Sort/Stable call Len/Less/Swap/Push/Pop of their argument; " +
	"fn_requires leaves out the method calls on the fresh object in a constructor; " +
	"shared locals (local:<fn>:<x>: captured by a goroutine literal, or a map / slice handed to a go statement): a_fresh = before this instance is published; " +
	"a goroutine handed a map / slice is assumed to read it (ctx goarg<n>), its writes through the alias are not seen; " +
	"path variables <pkg.S.f>->g: the field g selected directly through the pointer field f of a checkout struct S (->*: the whole pointee assigned), " +
	"same kind as the access of g; pointers held in locals / parameters and pointer elements of maps / slices are not followed"

// ---------------------------------------------------------------- locksets

const (
	LW = 1
	LR = 2
)

type lockset map[string]int

func (a lockset) clone() lockset {
	b := make(lockset, len(a))
	for k, v := range a {
		b[k] = v
	}
	return b
}

// meet: must-held on both paths.  A lock held for writing on one path and
// for reading on the other is held (at least) for reading.
func meet(a, b lockset) lockset {
	r := lockset{}
	for k, v := range a {
		if w, ok := b[k]; ok {
			if v == w {
				r[k] = v
			} else {
				r[k] = LR
			}
		}
	}
	return r
}

func meetAll(l []lockset) lockset {
	r := l[0].clone()
	for _, x := range l[1:] {
		r = meet(r, x)
	}
	return r
}

// join: held by the caller or lexically.
func join(a, b lockset) lockset {
	r := a.clone()
	for k, v := range b {
		if w, ok := r[k]; !ok || v < w {
			r[k] = v
		}
	}
	return r
}

func equalLS(a, b lockset) bool {
	if len(a) != len(b) {
		return false
	}
	for k, v := range a {
		if w, ok := b[k]; !ok || w != v {
			return false
		}
	}
	return true
}

func (a lockset) names() []string {
	var n []string
	for k := range a {
		n = append(n, k)
	}
	sort.Strings(n)
	return n
}

func (a lockset) coq() string {
	var p []string
	for _, k := range a.names() {
		m := "LW"
		if a[k] == LR {
			m = "LR"
		}
		p = append(p, "("+coqStr(k)+", "+m+")")
	}
	return "[" + strings.Join(p, "; ") + "]"
}

func (a lockset) pairs() [][2]string {
	p := [][2]string{}
	for _, k := range a.names() {
		m := "LW"
		if a[k] == LR {
			m = "LR"
		}
		p = append(p, [2]string{k, m})
	}
	return p
}

func coqStr(s string) string {
	return "\"" + strings.ReplaceAll(s, "\"", "\"\"") + "\""
}

func coqStrList(l []string) string {
	var p []string
	for _, s := range l {
		p = append(p, coqStr(s))
	}
	return "[" + strings.Join(p, "; ") + "]"
}

// ---------------------------------------------------------------- model

type universe struct {
	named  []*types.Named // named non-alias types of the in-checkout packages seen in this load
	ifaces []*types.Named // the exported interface types among them
	cha    map[string][]*types.Func
}

type declInfo struct {
	name       string // "dir/file.go:Recv.Func"
	file       string // relative path of the file
	fd         *ast.FuncDecl
	pkg        *Package
	u          *universe
	ordinal    map[*ast.FuncLit]int
	goPos      []token.Pos
	goStmts    []token.Pos // the go statements only, in source order
	gotoLabels map[string]bool
	dirty      map[types.Object]bool
	freshDef   map[types.Object]*fnode
	callInit   map[types.Object][]*types.Func // locals initialised from calls: fresh if the callees are constructors
	node       *fnode                         // the FuncDecl's (or pseudo) node
	opaque     bool                           // method of an opaque type: contributes no sites
	closures   map[types.Object]*closureVar
	pending    []*closureRT
}

// closureVar: the uses of a local that is bound to function literals only
// and otherwise only called
type closureVar struct {
	sites []closureUse
}

// closureRT: a local variable bound once to a function literal and only
// called (rule "local closure"): the literal is walked after its enclosing
// FuncDecl, from the intersection of the lock states at its uses.
type closureRT struct {
	lit   *ast.FuncLit
	node  *fnode
	v     *closureVar
	nuses int // syntactic number of call / argument uses
	info  *types.Info
	fset  *token.FileSet
}

type closureUse struct {
	caller *fnode
	state  lockset
	how    int
}

type callsite struct {
	caller  *fnode
	state   lockset
	recvObj types.Object // root variable of the receiver expression, if any
	preGo   bool         // no go statement precedes the call in the caller's FuncDecl
}

type fnode struct {
	order         int
	name          string // a_fn
	ctx           string // a_ctx
	kind          string // decl, pseudo, go, defer, sync, func
	parent        *fnode
	di            *declInfo
	obj           *types.Func
	callees       map[*fnode]bool
	valueUsed     bool
	goTarget      bool
	chaTarget     bool
	sites         []callsite // direct static call sites
	uses          map[string]bool
	private       bool // method of a private type
	initFn        bool // listed in init_fns.txt: runs before the object is published
	ctor          bool
	ctorByCallers bool
	closure       *closureRT // literal bound to a local that is only called
	api           bool
	eligible      bool
	reqTop        bool
	req           lockset
	roots         []string
}

func (a *analysis) nodeByName(name string) *fnode {
	for _, n := range a.nodes {
		if n.kind == "decl" && n.name == name {
			return n
		}
	}
	return nil
}

// use: records how a function is used (callers_of): "call:", "icall:",
// "go:", "ref:", "edge:" + the using function node
func (n *fnode) use(kind string, by *fnode) {
	if n.uses == nil {
		n.uses = map[string]bool{}
	}
	n.uses[kind+":"+by.display()] = true
}

func (n *fnode) display() string {
	if n.ctx == "" {
		return n.name
	}
	return n.name + "/" + n.ctx
}

type vinfo struct {
	name                          string
	class                         string
	extPkg                        string // package declaring the (external) named type of the variable
	pkgVar                        bool
	opaque                        bool // the type of the variable is an opaque container type of the checkout
	writes, atomics, calls, sites int
	pathw                         int // KWrite / KAddr / KAtomicW / KCall sites whose base object is not fresh
}

// sharedVar: a local variable or parameter that a goroutine started by its
// FuncDecl can see: captured by a goroutine literal, or a map / slice handed
// to a go statement
type sharedVar struct {
	name    string
	obj     *types.Var
	capLits []*ast.FuncLit // the goroutine literals that capture it
	pubPos  []token.Pos    // the literals / go statements that publish it, or the start of the loop around them that does not enclose the declaration
}

// fresh: the occurrence at pos is before this instance of the variable is
// published
func (sv *sharedVar) fresh(pos token.Pos) bool {
	for _, g := range sv.capLits {
		if g.Pos() <= pos && pos < g.End() {
			return false
		}
	}
	for _, p := range sv.pubPos {
		if pos >= p {
			return false
		}
	}
	return true
}

type rawSite struct {
	v       string
	node    *fnode
	kind    string // KRead KWrite KCall KAtomicR KAtomicW KAddr
	m       string
	locks   lockset
	root    types.Object // root variable of the base expression
	local   bool         // site of a shared local: fresh is already decided
	ctxOv   string       // synthetic site: a_ctx ("goarg<n>") ...
	rootsOv []string     // ... and roots
	fresh   bool
	ctor    bool
	preGo   bool
	file    string
	line    int
}

type analysis struct {
	root      string
	inPaths   map[string]bool
	owner     map[*types.Var]string
	vars      map[string]*vinfo
	nodes     []*fnode
	nodeByKey map[string]*fnode
	condAlias map[string]map[string]bool
	raw       []rawSite
	unres     map[[2]string]bool
	anomalies map[string]bool // -dump only: lock operations the lexical analysis cannot balance
	opaque    map[string]bool // "pkg.Type"
	private   map[string]bool // "pkg.Type"
	litBind   map[*ast.FuncLit]*litBind
	params    map[string]*tracked       // "funcKey#i": function-typed parameters
	paramObj  map[types.Object]string   // parameter object -> key
	closures  map[types.Object]*tracked // locals bound once to a literal
	kinds     map[*ast.FuncLit]string   // go, defer, sync, func
	shared    map[types.Object]*sharedVar
	litNode   map[*ast.FuncLit]*fnode
	nshared   int
	npkgs     int
	nlits     int
}

// ---------------------------------------------------------------- helpers on types

func unparen(e ast.Expr) ast.Expr {
	for {
		p, ok := e.(*ast.ParenExpr)
		if !ok {
			return e
		}
		e = p.X
	}
}

func deref(t types.Type) types.Type {
	if p, ok := types.Unalias(t).Underlying().(*types.Pointer); ok {
		return p.Elem()
	}
	return t
}

func namedOf(t types.Type) *types.Named {
	n, _ := types.Unalias(t).(*types.Named)
	return n
}

func isStructValue(t types.Type) bool {
	if t == nil {
		return false
	}
	if _, ok := types.Unalias(t).(*types.TypeParam); ok {
		return false
	}
	_, ok := t.Underlying().(*types.Struct)
	return ok
}

func pkgPathOf(n *types.Named) string {
	if n == nil || n.Obj().Pkg() == nil {
		return ""
	}
	return n.Obj().Pkg().Path()
}

func isSyncPkg(p string) bool { return p == "sync" || p == "sync/atomic" }

// typeKey: "pkgname.Type" of a named type (type arguments ignored)
func typeKey(n *types.Named) string {
	if n == nil || n.Obj().Pkg() == nil {
		return ""
	}
	return n.Obj().Pkg().Name() + "." + n.Obj().Name()
}

func (a *analysis) isOpaque(t types.Type) bool {
	n := namedOf(deref(t))
	return n != nil && a.inCheckout(n.Obj().Pkg()) && a.opaque[typeKey(n)]
}

func (a *analysis) inCheckout(p *types.Package) bool {
	return p != nil && a.inPaths[p.Path()]
}

func recvNamed(f *types.Func) *types.Named {
	sig, ok := f.Type().(*types.Signature)
	if !ok || sig.Recv() == nil {
		return nil
	}
	return namedOf(deref(sig.Recv().Type()))
}

func funcKey(f *types.Func) string {
	f = f.Origin()
	if f.Pkg() == nil {
		return ""
	}
	r := ""
	if sig, ok := f.Type().(*types.Signature); ok && sig.Recv() != nil {
		if n := namedOf(deref(sig.Recv().Type())); n != nil {
			r = n.Obj().Name() + "."
		} else {
			r = "?."
		}
	}
	return f.Pkg().Path() + "." + r + f.Name()
}

func isInterfaceMethod(f *types.Func) bool {
	sig, ok := f.Type().(*types.Signature)
	return ok && sig.Recv() != nil && types.IsInterface(sig.Recv().Type())
}

// class of a variable by its type (AccessTypes.v f_class); ext = the package
// declaring the external named type, if any.
func (a *analysis) classOf(t types.Type) (class, ext string) {
	t = types.Unalias(t)
	if _, ok := t.(*types.TypeParam); ok {
		return "other", ""
	}
	if n := namedOf(deref(t)); n != nil && isSyncPkg(pkgPathOf(n)) {
		return "sync", ""
	}
	if p, ok := t.Underlying().(*types.Pointer); ok {
		el := types.Unalias(p.Elem())
		if _, ok := el.(*types.TypeParam); ok {
			return "other", ""
		}
		n := namedOf(el)
		if n == nil {
			return "other", ""
		}
		if a.inCheckout(n.Obj().Pkg()) {
			if _, ok := n.Underlying().(*types.Struct); ok {
				return "ptr-in", ""
			}
			return "other", ""
		}
		return "ptr-ext", pkgPathOf(n)
	}
	n := namedOf(t)
	if n != nil && !a.inCheckout(n.Obj().Pkg()) {
		ext = pkgPathOf(n)
	}
	switch t.Underlying().(type) {
	case *types.Chan:
		return "chan", ext
	case *types.Signature:
		return "func", ext
	case *types.Interface:
		return "iface", ""
	case *types.Map:
		return "map", ext
	case *types.Slice:
		return "slice", ext
	case *types.Basic:
		return "basic", ext
	case *types.Array:
		return "array", ext
	case *types.Struct:
		if n == nil {
			return "other", ""
		}
		if a.inCheckout(n.Obj().Pkg()) {
			return "struct-in", ""
		}
		return "struct-ext", ext
	}
	return "other", ext
}

func isAtomicType(t types.Type) bool {
	n := namedOf(deref(t))
	return n != nil && pkgPathOf(n) == "sync/atomic"
}

func (a *analysis) varName(v *types.Var) string {
	if v == nil {
		return ""
	}
	v = v.Origin()
	if v.IsField() {
		return a.owner[v]
	}
	if v.Pkg() != nil && v.Parent() == v.Pkg().Scope() && a.inCheckout(v.Pkg()) {
		return v.Pkg().Name() + "." + v.Name()
	}
	return ""
}

func isPkgLevel(v *types.Var) bool {
	return v != nil && !v.IsField() && v.Pkg() != nil && v.Parent() == v.Pkg().Scope()
}

// ---------------------------------------------------------------- loading

func fatal(format string, args ...interface{}) {
	fmt.Fprintf(os.Stderr, "genaccess: "+format+"\n", args...)
	os.Exit(1)
}

func excludedPkg(path string) bool {
	p := path + "/"
	return strings.Contains(p, "/tools/") || strings.Contains(p, "/testdata/")
}

func skipFile(name string) bool {
	b := filepath.Base(name)
	return strings.HasPrefix(b, "verif_") || strings.HasSuffix(b, "_verif.go") || strings.HasSuffix(b, "_test.go")
}

// Package: what the analysis needs of a loaded package (the subset of
// golang.org/x/tools/go/packages.Package it would use; that module cannot be
// added to the harness module offline, see the report).
type Package struct {
	PkgPath   string
	Fset      *token.FileSet
	Syntax    []*ast.File
	Types     *types.Package
	TypesInfo *types.Info
	Imports   []*Package
	Errors    []error
	root      bool
}

type listPkg struct {
	ImportPath string
	Name       string
	Dir        string
	GoFiles    []string
	Imports    []string
	ImportMap  map[string]string
	DepOnly    bool
	Error      *struct{ Err string }
}

type mapImporter struct {
	byPath map[string]*Package
	remap  map[string]string
}

func (m mapImporter) Import(path string) (*types.Package, error) {
	if path == "unsafe" {
		return types.Unsafe, nil
	}
	if r, ok := m.remap[path]; ok {
		path = r
	}
	if p := m.byPath[path]; p != nil && p.Types != nil {
		return p.Types, nil
	}
	return nil, fmt.Errorf("package %s not loaded", path)
}

// load lists the packages of the module in dir and their dependencies with
// the go command (no build tags, cgo off), parses them and type-checks them
// from source in dependency order: the packages of the module completely,
// their dependencies without function bodies.
func load(dir string) []*Package {
	cmd := exec.Command("go", "list", "-e", "-deps", "-json=ImportPath,Name,Dir,GoFiles,Imports,ImportMap,DepOnly,Error", "./...")
	cmd.Dir = dir
	cmd.Env = append(os.Environ(), "GOFLAGS=-mod=mod", "GOPROXY=off", "CGO_ENABLED=0", "PWD="+dir)
	var stderr bytes.Buffer
	cmd.Stderr = &stderr
	out, err := cmd.Output()
	if err != nil {
		fatal("go list in %s: %v\n%s", dir, err, stderr.String())
	}
	var lps []*listPkg
	dec := json.NewDecoder(bytes.NewReader(out))
	for dec.More() {
		lp := &listPkg{}
		if err := dec.Decode(lp); err != nil {
			fatal("go list in %s: %v", dir, err)
		}
		lps = append(lps, lp)
	}
	fset := token.NewFileSet()
	type parsed struct {
		files []*ast.File
		errs  []error
	}
	res := make([]parsed, len(lps))
	var wg sync.WaitGroup
	sem := make(chan struct{}, runtime.NumCPU())
	for i, lp := range lps {
		if lp.ImportPath == "unsafe" {
			continue
		}
		res[i].files = make([]*ast.File, len(lp.GoFiles))
		res[i].errs = make([]error, len(lp.GoFiles))
		for j, f := range lp.GoFiles {
			wg.Add(1)
			go func(i, j int, path string) {
				defer wg.Done()
				sem <- struct{}{}
				defer func() { <-sem }()
				res[i].files[j], res[i].errs[j] = parser.ParseFile(fset, path, nil, parser.SkipObjectResolution)
			}(i, j, filepath.Join(lp.Dir, f))
		}
	}
	wg.Wait()
	byPath := map[string]*Package{}
	var roots []*Package
	for i, lp := range lps {
		if lp.ImportPath == "unsafe" {
			continue
		}
		p := &Package{PkgPath: lp.ImportPath, Fset: fset, root: !lp.DepOnly}
		byPath[lp.ImportPath] = p
		if p.root && excludedPkg(p.PkgPath) {
			continue
		}
		if lp.Error != nil {
			p.Errors = append(p.Errors, fmt.Errorf("%s", lp.Error.Err))
		}
		for j, f := range res[i].files {
			if res[i].errs[j] != nil {
				p.Errors = append(p.Errors, res[i].errs[j])
			}
			if f != nil {
				p.Syntax = append(p.Syntax, f)
			}
		}
		for _, ip := range lp.Imports {
			if q := byPath[ip]; q != nil {
				p.Imports = append(p.Imports, q)
			}
		}
		if p.root && len(lp.GoFiles) == 0 && lp.Error == nil {
			continue // only test files
		}
		conf := types.Config{
			Importer:         mapImporter{byPath, lp.ImportMap},
			Sizes:            types.SizesFor("gc", "amd64"),
			IgnoreFuncBodies: !p.root,
			Error:            func(err error) { p.Errors = append(p.Errors, err) },
		}
		if p.root {
			p.TypesInfo = &types.Info{
				Types:      map[ast.Expr]types.TypeAndValue{},
				Defs:       map[*ast.Ident]types.Object{},
				Uses:       map[*ast.Ident]types.Object{},
				Selections: map[*ast.SelectorExpr]*types.Selection{},
				Implicits:  map[ast.Node]types.Object{},
				Instances:  map[*ast.Ident]types.Instance{},
			}
		}
		p.Types, _ = conf.Check(lp.ImportPath, fset, p.Syntax, p.TypesInfo)
		if p.root {
			if len(p.Errors) > 0 {
				for _, e := range p.Errors {
					fmt.Fprintf(os.Stderr, "genaccess: %s: %v\n", p.PkgPath, e)
				}
				os.Exit(1)
			}
			roots = append(roots, p)
		}
	}
	if len(roots) == 0 {
		fatal("no packages in %s", dir)
	}
	sort.Slice(roots, func(i, j int) bool { return roots[i].PkgPath < roots[j].PkgPath })
	return roots
}

func visit(pkgs []*Package, f func(*Package)) {
	seen := map[*Package]bool{}
	var rec func(p *Package)
	rec = func(p *Package) {
		if seen[p] {
			return
		}
		seen[p] = true
		for _, q := range p.Imports {
			rec(q)
		}
		f(p)
	}
	for _, p := range pkgs {
		rec(p)
	}
}

// ---------------------------------------------------------------- text

func text(fset *token.FileSet, e ast.Node) string {
	var b bytes.Buffer
	printer.Fprint(&b, fset, e)
	var o strings.Builder
	for _, r := range b.String() {
		if r == ' ' || r == '\t' || r == '\n' || r == '\r' {
			continue
		}
		o.WriteRune(r)
	}
	return o.String()
}

func funcID(fd *ast.FuncDecl) string {
	name := fd.Name.Name
	if fd.Recv != nil && len(fd.Recv.List) == 1 {
		t := fd.Recv.List[0].Type
		if s, ok := t.(*ast.StarExpr); ok {
			t = s.X
		}
		switch ix := t.(type) {
		case *ast.IndexExpr:
			t = ix.X
		case *ast.IndexListExpr:
			t = ix.X
		}
		if id, ok := t.(*ast.Ident); ok {
			name = id.Name + "." + name
		}
	}
	return name
}

var ctorRe = regexp.MustCompile(`^(New|new)[A-Z_].*$`)

// ---------------------------------------------------------------- class hierarchy

func lookupMethod(t *types.Named, pkg *types.Package, name string) *types.Func {
	obj, _, _ := types.LookupFieldOrMethod(types.NewPointer(t), true, pkg, name)
	f, _ := obj.(*types.Func)
	return f
}

func implements(t *types.Named, it *types.Interface) bool {
	if it.NumMethods() == 0 {
		return false
	}
	if t.TypeParams().Len() > 0 {
		// generic type: by method names (the instantiation is not known)
		for i := 0; i < it.NumMethods(); i++ {
			m := it.Method(i)
			if lookupMethod(t, m.Pkg(), m.Name()) == nil {
				return false
			}
		}
		return true
	}
	if types.Implements(t, it) || types.Implements(types.NewPointer(t), it) {
		return true
	}
	// an instantiated generic interface (cache.Cache[K, V]): by method names
	generic := false
	for i := 0; i < it.NumMethods() && !generic; i++ {
		sig := it.Method(i).Type().(*types.Signature)
		for _, tup := range []*types.Tuple{sig.Params(), sig.Results()} {
			for j := 0; j < tup.Len(); j++ {
				if _, ok := types.Unalias(tup.At(j).Type()).(*types.TypeParam); ok {
					generic = true
				}
			}
		}
	}
	if generic {
		for i := 0; i < it.NumMethods(); i++ {
			m := it.Method(i)
			if lookupMethod(t, m.Pkg(), m.Name()) == nil {
				return false
			}
		}
		return true
	}
	return false
}

// targets of a call of interface method m on a value of interface type it
func (u *universe) dispatch(it *types.Interface, m *types.Func) []*types.Func {
	key := fmt.Sprintf("%p.%s", it, m.Name())
	if r, ok := u.cha[key]; ok {
		return r
	}
	var r []*types.Func
	for _, t := range u.named {
		if types.IsInterface(t) {
			continue
		}
		if !implements(t, it) {
			continue
		}
		if f := lookupMethod(t, m.Pkg(), m.Name()); f != nil {
			r = append(r, f)
		}
	}
	u.cha[key] = r
	return r
}

// ---------------------------------------------------------------- walker

const (
	callNormal = iota
	callGo
	callDefer
)

type loopCtx struct {
	label  string
	isLoop bool
	breaks []lockset
	conts  []lockset
}

type walker struct {
	a         *analysis
	info      *types.Info
	fset      *token.FileSet
	di        *declInfo
	node      *fnode
	cur       lockset
	record    bool
	loops     []*loopCtx
	deferHeld map[string]bool
	inherited map[string]bool // literal: the locks of the start state
	// goto: the states at the goto statements of the previous pass over the
	// body and of this pass so far, and the states given to the labels
	gotoPrev   map[string][]lockset
	gotoCur    map[string][]lockset
	labelState map[string]lockset
	reach      bool // the labeled statement being entered is reachable from above
}

// body: walks the statements of a function node.  With goto labels the body
// is analysed repeatedly (without recording) until the states at the labels
// are stable: state at a label = intersection of the fall-through state and
// of the states at the gotos that target it.
func (w *walker) body(list []ast.Stmt) {
	if len(w.di.gotoLabels) == 0 {
		if !w.stmts(list) {
			w.leaving()
		}
		return
	}
	start := w.cur.clone()
	reset := func() {
		w.cur = start.clone()
		w.loops = nil
		w.deferHeld = map[string]bool{}
		w.gotoPrev, w.gotoCur = w.gotoCur, map[string][]lockset{}
		w.labelState = map[string]lockset{}
	}
	saved := w.record
	w.record = false
	var prev map[string]lockset
	for i := 0; i < 8; i++ {
		reset()
		w.stmts(list)
		stable := prev != nil && len(prev) == len(w.labelState)
		for l, st := range w.labelState {
			if p, ok := prev[l]; !ok || !equalLS(p, st) {
				stable = false
			}
		}
		prev = w.labelState
		if stable {
			break
		}
	}
	w.record = saved
	reset()
	if !w.stmts(list) {
		w.leaving()
	}
}

func (w *walker) sub(node *fnode, start lockset) *walker {
	inh := map[string]bool{}
	for n := range start {
		inh[n] = true
	}
	return &walker{a: w.a, info: w.info, fset: w.fset, di: w.di, node: node, cur: start, record: true, deferHeld: map[string]bool{}, inherited: inh}
}

func (w *walker) deferState() lockset {
	r := lockset{}
	for n := range w.deferHeld {
		if m, ok := w.cur[n]; ok {
			r[n] = m
		}
	}
	return r
}

// leaving: the function node returns; a lock still held without a deferred
// unlock is handed to the caller (not modelled)
func (w *walker) leaving() {
	if !w.record {
		return
	}
	for _, n := range w.cur.names() {
		if !w.deferHeld[n] && !w.inherited[n] {
			w.a.anomalies[w.node.display()+": returns holding "+n] = true
		}
	}
}

// --- statements; the result says the statement does not complete normally

func (w *walker) stmts(list []ast.Stmt) bool {
	term := false
	for _, s := range list {
		w.reach = !term
		if ls, ok := s.(*ast.LabeledStmt); ok && w.di.gotoLabels[ls.Label.Name] {
			term = false
		}
		t := w.stmt(s, "")
		if !term {
			term = t
		}
	}
	return term
}

func (w *walker) isTerminatingCall(e ast.Expr) bool {
	c, ok := unparen(e).(*ast.CallExpr)
	if !ok {
		return false
	}
	switch f := unparen(c.Fun).(type) {
	case *ast.Ident:
		if b, ok := w.info.Uses[f].(*types.Builtin); ok && b.Name() == "panic" {
			return true
		}
	case *ast.SelectorExpr:
		if fn, ok := w.info.Uses[f.Sel].(*types.Func); ok && fn.Pkg() != nil {
			p, n := fn.Pkg().Path(), fn.Name()
			if p == "os" && n == "Exit" {
				return true
			}
			if p == "runtime" && n == "Goexit" {
				return true
			}
			if p == "log" && (strings.HasPrefix(n, "Fatal") || strings.HasPrefix(n, "Panic")) {
				return true
			}
		}
	}
	return false
}

func (w *walker) findLoop(label string, needLoop bool) *loopCtx {
	for i := len(w.loops) - 1; i >= 0; i-- {
		l := w.loops[i]
		if label != "" {
			if l.label == label {
				return l
			}
			continue
		}
		if needLoop && !l.isLoop {
			continue
		}
		return l
	}
	return nil
}

func (w *walker) stmt(s ast.Stmt, label string) bool {
	switch s := s.(type) {
	case nil:
		return false
	case *ast.ExprStmt:
		w.expr(s.X)
		return w.isTerminatingCall(s.X)
	case *ast.AssignStmt:
		for _, r := range s.Rhs {
			w.expr(r)
		}
		if s.Tok == token.DEFINE {
			if len(s.Lhs) == len(s.Rhs) {
				for i, l := range s.Lhs {
					if id, ok := l.(*ast.Ident); ok && (freshForm(w.info, s.Rhs[i]) || calledFunc(w.info, s.Rhs[i]) != nil) {
						if o := w.info.Defs[id]; o != nil {
							w.di.freshDef[o] = w.node
						}
					}
				}
			} else if len(s.Rhs) == 1 && len(s.Lhs) > 1 && calledFunc(w.info, s.Rhs[0]) != nil {
				if id, ok := s.Lhs[0].(*ast.Ident); ok {
					if o := w.info.Defs[id]; o != nil {
						w.di.freshDef[o] = w.node
					}
				}
			}
			// a variable that := only re-uses is assigned
			for _, l := range s.Lhs {
				if id, ok := l.(*ast.Ident); ok && id.Name != "_" && w.info.Defs[id] == nil {
					w.written(l)
				}
			}
		} else {
			for _, l := range s.Lhs {
				w.written(l)
			}
		}
		return false
	case *ast.IncDecStmt:
		w.written(s.X)
		return false
	case *ast.SendStmt:
		w.expr(s.Chan)
		w.expr(s.Value)
		return false
	case *ast.DeclStmt:
		gd, ok := s.Decl.(*ast.GenDecl)
		if !ok || gd.Tok != token.VAR {
			return false
		}
		for _, sp := range gd.Specs {
			vs := sp.(*ast.ValueSpec)
			for _, v := range vs.Values {
				w.expr(v)
			}
			for i, nm := range vs.Names {
				o := w.info.Defs[nm]
				if o == nil {
					continue
				}
				if len(vs.Values) == 0 {
					if isStructValue(o.Type()) {
						w.di.freshDef[o] = w.node
					}
				} else if len(vs.Values) == len(vs.Names) && (freshForm(w.info, vs.Values[i]) || calledFunc(w.info, vs.Values[i]) != nil) {
					w.di.freshDef[o] = w.node
				} else if len(vs.Values) == 1 && len(vs.Names) > 1 && i == 0 && calledFunc(w.info, vs.Values[0]) != nil {
					w.di.freshDef[o] = w.node
				}
			}
		}
		return false
	case *ast.GoStmt:
		w.call(s.Call, callGo)
		w.goArgs(s.Call, s.Pos())
		return false
	case *ast.DeferStmt:
		w.call(s.Call, callDefer)
		return false
	case *ast.ReturnStmt:
		for _, r := range s.Results {
			w.expr(r)
		}
		w.leaving()
		return true
	case *ast.BranchStmt:
		lab := ""
		if s.Label != nil {
			lab = s.Label.Name
		}
		switch s.Tok {
		case token.BREAK:
			if l := w.findLoop(lab, false); l != nil {
				l.breaks = append(l.breaks, w.cur.clone())
			}
		case token.CONTINUE:
			if l := w.findLoop(lab, true); l != nil {
				l.conts = append(l.conts, w.cur.clone())
			}
		case token.GOTO:
			if w.gotoCur != nil {
				w.gotoCur[lab] = append(w.gotoCur[lab], w.cur.clone())
			}
		}
		return true // goto and fallthrough as well
	case *ast.BlockStmt:
		return w.stmts(s.List)
	case *ast.EmptyStmt:
		return false
	case *ast.LabeledStmt:
		if w.di.gotoLabels[s.Label.Name] {
			var in []lockset
			if w.reach {
				in = append(in, w.cur)
			}
			in = append(in, w.gotoPrev[s.Label.Name]...)
			in = append(in, w.gotoCur[s.Label.Name]...)
			if len(in) == 0 {
				w.cur = lockset{}
			} else {
				w.cur = meetAll(in)
			}
			if w.labelState != nil {
				w.labelState[s.Label.Name] = w.cur.clone()
			}
		}
		return w.stmt(s.Stmt, s.Label.Name)
	case *ast.IfStmt:
		w.stmt(s.Init, "")
		w.expr(s.Cond)
		before := w.cur.clone()
		var exits []lockset
		if !w.stmt(s.Body, "") {
			exits = append(exits, w.cur)
		}
		if s.Else != nil {
			w.cur = before.clone()
			if !w.stmt(s.Else, "") {
				exits = append(exits, w.cur)
			}
		} else {
			exits = append(exits, before)
		}
		if len(exits) == 0 {
			return true
		}
		w.cur = meetAll(exits)
		return false
	case *ast.SwitchStmt:
		w.stmt(s.Init, "")
		if s.Tag != nil {
			w.expr(s.Tag)
		}
		return w.clauses(s.Body.List, label, true)
	case *ast.TypeSwitchStmt:
		w.stmt(s.Init, "")
		switch x := s.Assign.(type) {
		case *ast.ExprStmt:
			w.expr(x.X)
		case *ast.AssignStmt:
			for _, r := range x.Rhs {
				w.expr(r)
			}
		}
		return w.clauses(s.Body.List, label, true)
	case *ast.SelectStmt:
		return w.clauses(s.Body.List, label, false)
	case *ast.ForStmt:
		w.stmt(s.Init, "")
		return w.loop(label, s.Cond == nil,
			func() {
				if s.Cond != nil {
					w.expr(s.Cond)
				}
			},
			s.Body,
			func() { w.stmt(s.Post, "") })
	case *ast.RangeStmt:
		w.expr(s.X)
		return w.loop(label, false,
			func() {
				if s.Tok == token.ASSIGN {
					if s.Key != nil {
						w.written(s.Key)
					}
					if s.Value != nil {
						w.written(s.Value)
					}
				}
			},
			s.Body, func() {})
	}
	return false
}

// clauses: switch / type switch (fallThrough: without default the statement
// may be skipped) and select (one clause always runs).
func (w *walker) clauses(list []ast.Stmt, label string, isSwitch bool) bool {
	before := w.cur.clone()
	ctx := &loopCtx{label: label}
	w.loops = append(w.loops, ctx)
	var exits []lockset
	hasDefault := false
	var ft lockset
	for _, c := range list {
		w.cur = before.clone()
		if ft != nil {
			w.cur = meet(w.cur, ft)
			ft = nil
		}
		var body []ast.Stmt
		switch cc := c.(type) {
		case *ast.CaseClause:
			if cc.List == nil {
				hasDefault = true
			}
			for _, e := range cc.List {
				w.expr(e)
			}
			body = cc.Body
		case *ast.CommClause:
			if cc.Comm == nil {
				hasDefault = true
			}
			w.stmt(cc.Comm, "")
			body = cc.Body
		}
		term := w.stmts(body)
		if n := len(body); n > 0 {
			if b, ok := body[n-1].(*ast.BranchStmt); ok && b.Tok == token.FALLTHROUGH {
				ft = w.cur.clone()
				continue
			}
		}
		if !term {
			exits = append(exits, w.cur)
		}
	}
	w.loops = w.loops[:len(w.loops)-1]
	exits = append(exits, ctx.breaks...)
	if isSwitch && !hasDefault {
		exits = append(exits, before)
	}
	if len(exits) == 0 {
		w.cur = before
		return true
	}
	w.cur = meetAll(exits)
	return false
}

// loop: entry state E; the head (condition / range assignment), the body and
// the post statement are analysed in E ∩ X, X the state at the end of the
// body and at its continue statements, iterated until stable.
func (w *walker) loop(label string, forever bool, head func(), body *ast.BlockStmt, post func()) bool {
	E := w.cur.clone()
	entry := E.clone()
	pass := func() (lockset, []lockset) {
		w.cur = entry.clone()
		head()
		ctx := &loopCtx{label: label, isLoop: true}
		w.loops = append(w.loops, ctx)
		term := w.stmts(body.List)
		w.loops = w.loops[:len(w.loops)-1]
		ends := ctx.conts
		if !term {
			ends = append(ends, w.cur)
		}
		var X lockset
		if len(ends) > 0 {
			X = meetAll(ends)
			w.cur = X.clone()
			post()
		}
		return X, ctx.breaks
	}
	saved := w.record
	w.record = false
	for i := 0; i < 5; i++ {
		X, _ := pass()
		n := entry
		if X != nil {
			n = meet(entry, X)
		}
		if equalLS(n, entry) {
			break
		}
		entry = n
	}
	w.record = saved
	_, breaks := pass()
	exits := breaks
	if !forever {
		exits = append(exits, entry)
	}
	if len(exits) == 0 {
		w.cur = entry
		return true
	}
	w.cur = meetAll(exits)
	return false
}

func freshForm(info *types.Info, e ast.Expr) bool {
	e = unparen(e)
	switch x := e.(type) {
	case *ast.CompositeLit:
		return true
	case *ast.UnaryExpr:
		if x.Op == token.AND {
			_, ok := unparen(x.X).(*ast.CompositeLit)
			return ok
		}
	case *ast.CallExpr:
		if id, ok := unparen(x.Fun).(*ast.Ident); ok {
			if b, ok := info.Uses[id].(*types.Builtin); ok && b.Name() == "new" {
				return true
			}
		}
	}
	return false
}

// --- variables

// chain: e denotes a field (through embedded fields, if promoted) or a
// package-level variable: the base expression (nil for a variable) and the
// fields along the selection path, the selected one last.
func (w *walker) chain(e ast.Expr) (ast.Expr, []*types.Var, bool) {
	switch x := unparen(e).(type) {
	case *ast.Ident:
		if v, ok := w.info.Uses[x].(*types.Var); ok && isPkgLevel(v) {
			return nil, []*types.Var{v}, true
		}
	case *ast.SelectorExpr:
		if sel, ok := w.info.Selections[x]; ok {
			if sel.Kind() != types.FieldVal {
				return nil, nil, false
			}
			vs := pathVars(sel.Recv(), sel.Index())
			if len(vs) == 0 {
				return nil, nil, false
			}
			return x.X, vs, true
		}
		if v, ok := w.info.Uses[x.Sel].(*types.Var); ok && isPkgLevel(v) {
			return nil, []*types.Var{v}, true
		}
	}
	return nil, nil, false
}

func pathVars(t types.Type, index []int) []*types.Var {
	var vs []*types.Var
	for _, i := range index {
		st, ok := deref(t).Underlying().(*types.Struct)
		if !ok || i >= st.NumFields() {
			return vs
		}
		f := st.Field(i)
		vs = append(vs, f)
		t = f.Type()
	}
	return vs
}

func rootIdent(e ast.Expr) *ast.Ident {
	for e != nil {
		switch x := e.(type) {
		case *ast.Ident:
			return x
		case *ast.ParenExpr:
			e = x.X
		case *ast.SelectorExpr:
			e = x.X
		case *ast.IndexExpr:
			e = x.X
		case *ast.SliceExpr:
			e = x.X
		case *ast.StarExpr:
			e = x.X
		case *ast.UnaryExpr:
			if x.Op != token.AND {
				return nil
			}
			e = x.X
		default:
			return nil
		}
	}
	return nil
}

// rootObj: the variable at the root of a base expression
func (w *walker) rootObj(base ast.Expr) types.Object {
	if base == nil {
		return nil
	}
	id := rootIdent(base)
	if id == nil {
		return nil
	}
	return w.info.Uses[id]
}

// isFreshObj (after the walk, the constructors being known): o is a local
// of node n's FuncDecl that only ever holds objects created in the function
// (composite literal, new, zero value, result of a constructor) ...
func (a *analysis) isFreshObj(o types.Object, n *fnode) bool {
	if o == nil {
		return false
	}
	di := n.di
	def, ok := di.freshDef[o]
	if !ok || di.dirty[o] {
		return false
	}
	for _, f := range di.callInit[o] {
		if t := a.nodeByKey[funcKey(f)]; t == nil || !t.ctor || isInterfaceMethod(f.Origin()) {
			return false
		}
	}
	// ... and is still private to the function node that created it and to
	// the literals that run synchronously in it
	for ; n != nil; n = n.parent {
		if n == def {
			return true
		}
		if n.kind != "sync" && n.kind != "defer" {
			return false
		}
	}
	return false
}

func (w *walker) site(v *types.Var, kind, m string, pos token.Pos, base ast.Expr) {
	if !w.record {
		return
	}
	name := w.a.varName(v)
	if name == "" {
		return
	}
	vi := w.a.vars[name]
	if vi == nil {
		return
	}
	if vi.class == "sync" && (kind == "KRead" || kind == "KAddr" || kind == "KCall") {
		return
	}
	if w.di.opaque {
		return
	}
	preGo := true
	for _, g := range w.di.goPos {
		if g < pos {
			preGo = false
			break
		}
	}
	p := w.fset.Position(pos)
	w.a.raw = append(w.a.raw, rawSite{
		v: name, node: w.node, kind: kind, m: m, locks: w.cur.clone(),
		root: w.rootObj(base), preGo: preGo,
		file: w.di.file, line: p.Line,
	})
}

// ptrField: v is a pointer-to-struct field of a struct type of the checkout
// (not a sync type): the fields selected through it are path variables
func (w *walker) ptrField(v *types.Var) string {
	if v == nil || !v.IsField() {
		return ""
	}
	p, ok := types.Unalias(v.Type()).Underlying().(*types.Pointer)
	if !ok {
		return ""
	}
	if _, ok := p.Elem().Underlying().(*types.Struct); !ok {
		return ""
	}
	if n := namedOf(p.Elem()); n != nil && isSyncPkg(pkgPathOf(n)) {
		return ""
	}
	return w.a.varName(v)
}

// predField: the field whose value the expression base denotes (X.f, (*X.f))
func (w *walker) predField(base ast.Expr) *types.Var {
	if base == nil {
		return nil
	}
	e := unparen(base)
	if st, ok := e.(*ast.StarExpr); ok {
		e = unparen(st.X)
	}
	if _, ok := e.(*ast.SelectorExpr); !ok {
		return nil
	}
	if _, vs, ok := w.chain(e); ok && vs[len(vs)-1].IsField() {
		return vs[len(vs)-1]
	}
	return nil
}

// siteAt: the site of the i-th field of a selection path and, if that field
// is selected directly through a pointer field f of a checkout struct, the
// same access of the path variable "<f>->g"
func (w *walker) siteAt(base ast.Expr, vs []*types.Var, i int, kind, m string, pos token.Pos) {
	w.site(vs[i], kind, m, pos, base)
	var pred *types.Var
	if i > 0 {
		pred = vs[i-1]
	} else {
		pred = w.predField(base)
	}
	if pn := w.ptrField(pred); pn != "" {
		w.pathSite(pn+"->"+vs[i].Name(), vs[i].Type(), kind, m, pos, base)
	}
}

// pathSite: an access of the field g behind the pointer field f, as an
// access of the path variable "<pkg.S.f>->g" ("->*": the whole pointee)
func (w *walker) pathSite(name string, t types.Type, kind, m string, pos token.Pos, base ast.Expr) {
	if !w.record || w.di.opaque {
		return
	}
	if t != nil {
		if cl, _ := w.a.classOf(t); cl == "sync" && (kind == "KRead" || kind == "KAddr" || kind == "KCall") {
			return
		}
	}
	if w.a.vars[name] == nil {
		w.a.vars[name] = &vinfo{name: name, class: "path"}
	}
	preGo := true
	for _, g := range w.di.goPos {
		if g < pos {
			preGo = false
			break
		}
	}
	p := w.fset.Position(pos)
	w.a.raw = append(w.a.raw, rawSite{
		v: name, node: w.node, kind: kind, m: m, locks: w.cur.clone(),
		root: w.rootObj(base), preGo: preGo,
		file: w.di.file, line: p.Line,
	})
}

// access: the holders are read, the selected variable gets the given kind
func (w *walker) access(base ast.Expr, vs []*types.Var, kind, m string, pos token.Pos) {
	for i := range vs[:len(vs)-1] {
		w.siteAt(base, vs, i, "KRead", "", pos)
	}
	if kind != "" {
		w.siteAt(base, vs, len(vs)-1, kind, m, pos)
	}
	if base != nil {
		w.expr(base)
	}
}

// written: an assignment lands on e (or inside the memory of e)
func (w *walker) written(e ast.Expr) {
	e = unparen(e)
	if id, ok := e.(*ast.Ident); ok && id.Name == "_" {
		return
	}
	if base, vs, ok := w.chain(e); ok {
		n := len(vs)
		w.siteAt(base, vs, n-1, "KWrite", "", e.Pos())
		i := n - 2
		for ; i >= 0; i-- {
			if isStructValue(vs[i].Type()) {
				w.siteAt(base, vs, i, "KWrite", "", e.Pos())
			} else {
				break
			}
		}
		if i >= 0 {
			for j := 0; j <= i; j++ {
				w.siteAt(base, vs, j, "KRead", "", e.Pos())
			}
			w.expr(base)
			return
		}
		if base == nil {
			return
		}
		if isStructValue(w.info.TypeOf(base)) {
			w.written(base)
		} else {
			w.expr(base)
		}
		return
	}
	switch x := e.(type) {
	case *ast.Ident:
		if o, ok := w.info.Uses[x].(*types.Var); ok {
			w.localSite(o, "KWrite", x.Pos())
		}
	case *ast.SelectorExpr:
		// a field of an anonymous struct or of a type outside the checkout
		if isStructValue(w.info.TypeOf(x.X)) {
			w.written(x.X)
		} else {
			w.expr(x.X)
		}
	case *ast.IndexExpr:
		w.expr(x.Index)
		switch types.Unalias(w.info.TypeOf(x.X)).Underlying().(type) {
		case *types.Array, *types.Slice, *types.Map:
			w.written(x.X)
		default:
			w.expr(x.X)
		}
	case *ast.SliceExpr:
		for _, i := range []ast.Expr{x.Low, x.High, x.Max} {
			if i != nil {
				w.expr(i)
			}
		}
		switch types.Unalias(w.info.TypeOf(x.X)).Underlying().(type) {
		case *types.Array, *types.Slice:
			w.written(x.X)
		default:
			w.expr(x.X)
		}
	case *ast.StarExpr:
		// *X.f = v overwrites every field behind the pointer field f
		if pn := w.ptrField(w.predField(x.X)); pn != "" {
			if b, _, ok := w.chain(x.X); ok {
				w.pathSite(pn+"->*", nil, "KWrite", "", e.Pos(), b)
			}
		}
		w.expr(x.X)
	default:
		w.expr(e)
	}
}

// addr: &e outside a sync/atomic call
func (w *walker) addr(e ast.Expr) {
	e = unparen(e)
	if base, vs, ok := w.chain(e); ok {
		w.access(base, vs, "KAddr", "", e.Pos())
		return
	}
	switch x := e.(type) {
	case *ast.Ident:
		if o, ok := w.info.Uses[x].(*types.Var); ok && w.a.shared[o] != nil {
			w.localSite(o, "KAddr", x.Pos())
		} else {
			w.expr(e)
		}
	case *ast.IndexExpr:
		w.expr(x.Index)
		switch types.Unalias(w.info.TypeOf(x.X)).Underlying().(type) {
		case *types.Array, *types.Slice:
			w.addr(x.X)
		default:
			w.expr(x.X)
		}
	default:
		w.expr(e)
	}
}

// localSite: an occurrence of a shared local (see sharedScan)
func (w *walker) localSite(o *types.Var, kind string, pos token.Pos) {
	if !w.record {
		return
	}
	sv := w.a.shared[o]
	if sv == nil {
		return
	}
	preGo := true
	for _, g := range w.di.goPos {
		if g < pos {
			preGo = false
			break
		}
	}
	p := w.fset.Position(pos)
	w.a.raw = append(w.a.raw, rawSite{
		v: sv.name, node: w.node, kind: kind, locks: w.cur.clone(), local: true, fresh: sv.fresh(pos),
		preGo: preGo, file: w.di.file, line: p.Line,
	})
}

// goArgs: a shared map / slice handed to a go statement: the started
// goroutine is assumed to read it
func (w *walker) goArgs(c *ast.CallExpr, stmtPos token.Pos) {
	if !w.record {
		return
	}
	var args []*sharedVar
	for _, arg := range c.Args {
		if id, ok := unparen(arg).(*ast.Ident); ok {
			if o, ok := w.info.Uses[id].(*types.Var); ok {
				if sv := w.a.shared[o]; sv != nil && isMapOrSlice(o.Type()) {
					args = append(args, sv)
				}
			}
		}
	}
	if len(args) == 0 {
		return
	}
	var roots []string
	fun := unparen(c.Fun)
	if fl, ok := fun.(*ast.FuncLit); ok {
		if n := w.a.litNode[fl]; n != nil {
			roots = append(roots, "go:"+n.display())
		}
	} else if o := w.closureVar(fun); o != nil {
		for _, fl := range w.a.closures[o].lits {
			if n := w.a.litNode[fl]; n != nil {
				roots = append(roots, "go:"+n.display())
			}
		}
	} else if fn := w.funcRef(fun); fn != nil {
		var recvT types.Type
		if se, ok := fun.(*ast.SelectorExpr); ok {
			recvT = w.info.TypeOf(se.X)
		}
		for _, t := range w.targets(fn, recvT) {
			roots = append(roots, "go:"+t.display())
		}
	}
	if len(roots) == 0 {
		roots = []string{"go:unknown"}
	}
	sort.Strings(roots)
	n := 1
	for _, g := range w.di.goStmts {
		if g < stmtPos {
			n++
		}
	}
	p := w.fset.Position(stmtPos)
	for _, sv := range args {
		w.a.raw = append(w.a.raw, rawSite{
			v: sv.name, node: w.node, kind: "KRead", locks: lockset{}, local: true,
			ctxOv: "goarg" + strconv.Itoa(n), rootsOv: roots, file: w.di.file, line: p.Line,
		})
	}
}

func isMapOrSlice(t types.Type) bool {
	switch t.Underlying().(type) {
	case *types.Map, *types.Slice:
		return true
	}
	return false
}

// valueRef: a function or method used as a value
func (w *walker) valueRef(fn *types.Func, recvT types.Type) {
	if !w.record {
		return
	}
	for _, t := range w.targets(fn, recvT) {
		t.valueUsed = true
		t.use("ref", w.node)
	}
}

// targets: the in-checkout function nodes a reference to fn may denote
func (w *walker) targets(fn *types.Func, recvT types.Type) []*fnode {
	fn = fn.Origin()
	if isInterfaceMethod(fn) {
		var it *types.Interface
		if recvT != nil {
			if _, tp := types.Unalias(recvT).(*types.TypeParam); !tp && types.IsInterface(recvT) {
				it, _ = recvT.Underlying().(*types.Interface)
			}
		}
		if it == nil {
			it, _ = fn.Type().(*types.Signature).Recv().Type().Underlying().(*types.Interface)
		}
		if it == nil {
			return nil
		}
		var r []*fnode
		for _, f := range w.di.u.dispatch(it, fn) {
			if n := w.a.nodeByKey[funcKey(f)]; n != nil {
				r = append(r, n)
			}
		}
		return r
	}
	if !w.a.inCheckout(fn.Pkg()) {
		return nil
	}
	if n := w.a.nodeByKey[funcKey(fn)]; n != nil {
		return []*fnode{n}
	}
	return nil
}

func (w *walker) link(fn *types.Func, recvT types.Type, how int, recv ast.Expr, pos token.Pos) {
	if !w.record {
		return
	}
	preGo := true
	for _, g := range w.di.goPos {
		if g < pos {
			preGo = false
			break
		}
	}
	cha := isInterfaceMethod(fn.Origin())
	ts := w.targets(fn, recvT)
	for _, t := range ts {
		switch {
		case how == callGo:
			t.use("go", w.node)
		case cha:
			t.use("icall", w.node)
		default:
			t.use("call", w.node)
		}
		switch how {
		case callGo:
			t.goTarget = true
		default:
			w.node.callees[t] = true
			st := w.cur.clone()
			if how == callDefer {
				st = w.deferState()
			}
			switch {
			case !cha:
				t.sites = append(t.sites, callsite{w.node, st, w.rootObj(recv), preGo})
			case t.private:
				// interface dispatch to a method of a private type: a call
				// site; its locks count if nothing else can be meant
				if len(ts) > 1 {
					st = lockset{}
				}
				t.sites = append(t.sites, callsite{w.node, st, nil, preGo})
			default:
				t.chaTarget = true
			}
		}
	}
}

// --- expressions

func (w *walker) expr(e ast.Expr) {
	switch x := e.(type) {
	case nil:
	case *ast.Ident:
		switch o := w.info.Uses[x].(type) {
		case *types.Var:
			if isPkgLevel(o) {
				w.site(o, "KRead", "", x.Pos(), nil)
			} else {
				w.localSite(o, "KRead", x.Pos())
			}
		case *types.Func:
			w.valueRef(o, nil)
		}
	case *ast.FuncLit:
		w.literal(x, callNormal)
	case *ast.CompositeLit:
		isStruct := false
		if t := w.info.TypeOf(x); t != nil {
			_, isStruct = deref(t).Underlying().(*types.Struct)
		}
		for _, el := range x.Elts {
			if kv, ok := el.(*ast.KeyValueExpr); ok {
				if !isStruct {
					w.expr(kv.Key)
				}
				w.expr(kv.Value)
			} else {
				w.expr(el)
			}
		}
	case *ast.ParenExpr:
		w.expr(x.X)
	case *ast.SelectorExpr:
		if base, vs, ok := w.chain(x); ok {
			w.access(base, vs, "KRead", "", x.Pos())
			return
		}
		if sel, ok := w.info.Selections[x]; ok {
			switch sel.Kind() {
			case types.MethodVal:
				// method value: the receiver is evaluated now
				fn := sel.Obj().(*types.Func)
				w.recvAccess(x, sel, fn, true)
				w.valueRef(fn, w.info.TypeOf(x.X))
			case types.MethodExpr:
				w.valueRef(sel.Obj().(*types.Func), nil)
			default:
				w.expr(x.X)
			}
			return
		}
		if fn, ok := w.info.Uses[x.Sel].(*types.Func); ok {
			w.valueRef(fn, nil)
		}
	case *ast.IndexExpr:
		w.expr(x.X)
		if tv, ok := w.info.Types[x.Index]; !ok || !tv.IsType() {
			w.expr(x.Index)
		}
	case *ast.IndexListExpr:
		w.expr(x.X)
	case *ast.SliceExpr:
		w.expr(x.X)
		w.expr(x.Low)
		w.expr(x.High)
		w.expr(x.Max)
	case *ast.TypeAssertExpr:
		w.expr(x.X)
	case *ast.CallExpr:
		w.call(x, callNormal)
	case *ast.StarExpr:
		w.expr(x.X)
	case *ast.UnaryExpr:
		if x.Op == token.AND {
			w.addr(x.X)
		} else {
			w.expr(x.X)
		}
	case *ast.BinaryExpr:
		w.expr(x.X)
		w.expr(x.Y)
	case *ast.KeyValueExpr:
		w.expr(x.Key)
		w.expr(x.Value)
	}
}

// literal: a function literal; its use (go, defer, sync, func) was decided
// by the prepass; n = ordinal among the literals of the enclosing FuncDecl.
// how: the literal is an argument of a plain / deferred call.
func (w *walker) literal(fl *ast.FuncLit, how int) {
	if !w.record {
		return
	}
	kind := w.a.kinds[fl]
	if kind == "" {
		kind = "func"
	}
	ctx := kind + strconv.Itoa(w.di.ordinal[fl])
	if w.node.ctx != "" {
		ctx = w.node.ctx + "/" + ctx
	}
	n := &fnode{order: len(w.a.nodes), name: w.di.name, ctx: ctx, kind: kind, parent: w.node, di: w.di, callees: map[*fnode]bool{}}
	w.a.nodes = append(w.a.nodes, n)
	w.a.nlits++
	w.a.litNode[fl] = n
	if b := w.a.litBind[fl]; b != nil && b.kind == bVar {
		if t := w.a.closures[b.obj]; t != nil && t.ok && t.binds(fl) {
			// a local closure that is only called: walked after the
			// FuncDecl, from the states at its uses
			c := &closureRT{lit: fl, node: n, info: w.info, fset: w.fset, v: w.closureOf(b.obj)}
			for _, u := range t.uses {
				if u.kind == uCall || u.kind == uArg {
					c.nuses++
				}
			}
			n.closure = c
			w.di.pending = append(w.di.pending, c)
			return
		}
	}
	var start lockset
	switch kind {
	case "sync":
		start = w.cur.clone()
		if how == callDefer {
			start = w.deferState()
		}
		w.node.callees[n] = true
	case "defer":
		start = w.deferState()
		w.node.callees[n] = true
	default:
		start = lockset{}
	}
	s := w.sub(n, start)
	s.body(fl.Body.List)
	if kind == "defer" {
		// unlocks done by the deferred literal are deferred unlocks
		ast.Inspect(fl.Body, func(nd ast.Node) bool {
			if _, ok := nd.(*ast.FuncLit); ok {
				return false
			}
			if c, ok := nd.(*ast.CallExpr); ok {
				if se, ok := unparen(c.Fun).(*ast.SelectorExpr); ok {
					if sel, ok := w.info.Selections[se]; ok && sel.Kind() == types.MethodVal {
						fn := sel.Obj().(*types.Func)
						if op := lockOp(fn); op == "Unlock" || op == "RUnlock" {
							w.deferHeld[w.lockNameSel(se, sel)] = true
						}
					}
				}
			}
			return true
		})
	}
}

func (w *walker) closureOf(o types.Object) *closureVar {
	c := w.di.closures[o]
	if c == nil {
		c = &closureVar{}
		w.di.closures[o] = c
	}
	return c
}

// closureVar: id is a local bound to a literal that is only called
func (w *walker) closureVar(e ast.Expr) types.Object {
	id, ok := unparen(e).(*ast.Ident)
	if !ok {
		return nil
	}
	o := w.info.Uses[id]
	if o == nil {
		return nil
	}
	if t := w.a.closures[o]; t != nil && t.ok {
		return o
	}
	return nil
}

// closureUse: the closure is called (or handed to a synchronous callee) here
func (w *walker) closureUse(o types.Object, how int) {
	if !w.record {
		return
	}
	st := w.cur.clone()
	switch how {
	case callDefer:
		st = w.deferState()
	case callGo:
		st = lockset{}
	}
	c := w.closureOf(o)
	c.sites = append(c.sites, closureUse{w.node, st, how})
}

// finishClosures: walks the bodies of the local closures of a FuncDecl, each
// from the intersection of the lock states at its uses; a closure is taken
// when all its uses have been seen (the uses inside other closures are seen
// when those are walked), in source order otherwise (then from no locks)
func (a *analysis) finishClosures(di *declInfo) {
	for len(di.pending) > 0 {
		pick, forced := -1, false
		for i, c := range di.pending {
			if len(c.v.sites) >= c.nuses {
				pick = i
				break
			}
		}
		if pick < 0 {
			pick, forced = 0, true
		}
		c := di.pending[pick]
		di.pending = append(di.pending[:pick:pick], di.pending[pick+1:]...)
		var states []lockset
		for _, u := range c.v.sites {
			if u.how != callGo {
				u.caller.callees[c.node] = true
				states = append(states, u.state)
			}
		}
		start := lockset{}
		if c.node.kind == "sync" && !forced && len(states) > 0 {
			start = meetAll(states)
		}
		inh := map[string]bool{}
		for n := range start {
			inh[n] = true
		}
		w := &walker{a: a, info: c.info, fset: c.fset, di: di, node: c.node, cur: start, record: true, deferHeld: map[string]bool{}, inherited: inh}
		w.body(c.lit.Body.List)
	}
}

func lockOp(fn *types.Func) string {
	if fn.Pkg() == nil || fn.Pkg().Path() != "sync" {
		return ""
	}
	switch fn.Name() {
	case "Lock", "Unlock", "RLock", "RUnlock":
	default:
		return ""
	}
	if r := recvNamed(fn); r != nil {
		switch r.Obj().Name() {
		case "Mutex", "RWMutex", "Locker":
			return fn.Name()
		}
	}
	return ""
}

func (w *walker) lockNameSel(se *ast.SelectorExpr, sel *types.Selection) string {
	if idx := sel.Index(); len(idx) > 1 {
		vs := pathVars(sel.Recv(), idx[:len(idx)-1])
		if len(vs) > 0 {
			if n := w.a.varName(vs[len(vs)-1]); n != "" {
				return n
			}
		}
		return "expr:" + w.di.name + ":" + text(w.fset, se.X)
	}
	return w.lockName(se.X)
}

func (w *walker) lockName(e ast.Expr) string {
	e = unparen(e)
	if u, ok := e.(*ast.UnaryExpr); ok && u.Op == token.AND {
		e = unparen(u.X)
	}
	if s, ok := e.(*ast.SelectorExpr); ok && s.Sel.Name == "L" {
		if sel, ok := w.info.Selections[s]; ok && sel.Kind() == types.FieldVal {
			if f, ok := sel.Obj().(*types.Var); ok && f.Pkg() != nil && f.Pkg().Path() == "sync" {
				// the Locker of a condition variable
				if _, vs, ok := w.chain(s.X); ok {
					if cn := w.a.varName(vs[len(vs)-1]); cn != "" {
						if al := w.a.condAlias[cn]; len(al) == 1 {
							for n := range al {
								return n
							}
						}
						return cn + ".L"
					}
				}
				if id, ok := unparen(s.X).(*ast.Ident); ok {
					return "local:" + w.di.name + ":" + id.Name + ".L"
				}
				return "expr:" + w.di.name + ":" + text(w.fset, e)
			}
		}
	}
	if _, vs, ok := w.chain(e); ok {
		if n := w.a.varName(vs[len(vs)-1]); n != "" {
			return n
		}
		return "expr:" + w.di.name + ":" + text(w.fset, e)
	}
	if id, ok := e.(*ast.Ident); ok {
		return "local:" + w.di.name + ":" + id.Name
	}
	return "expr:" + w.di.name + ":" + text(w.fset, e)
}

// recvAccess: the access made by calling method fn on the receiver se.X
// (through the embedded fields of the selection, if the method is promoted)
func (w *walker) recvAccess(se *ast.SelectorExpr, sel *types.Selection, fn *types.Func, isValue bool) {
	var implicit []*types.Var
	if idx := sel.Index(); len(idx) > 1 {
		implicit = pathVars(sel.Recv(), idx[:len(idx)-1])
	}
	var base ast.Expr
	var vs []*types.Var
	if len(implicit) > 0 {
		// X.M() is X.e1...en.M(): the embedded fields are read in the
		// context of X
		base, vs = se.X, implicit
		if b0, v0, ok := w.chain(se.X); ok {
			base, vs = b0, append(append([]*types.Var{}, v0...), implicit...)
		}
	} else if b0, v0, ok := w.chain(se.X); ok {
		base, vs = b0, v0
	} else {
		w.expr(se.X)
		return
	}
	r := vs[len(vs)-1]
	kind, m := "KRead", ""
	class, _ := w.a.classOf(r.Type())
	switch {
	case class == "sync":
		kind = ""
		if isAtomicType(r.Type()) && !isValue {
			if fn.Name() == "Load" {
				kind = "KAtomicR"
			} else {
				kind = "KAtomicW"
			}
		}
	default:
		if n := namedOf(deref(r.Type())); n != nil && !types.IsInterface(n) && n.Obj().Pkg() != nil &&
			!isSyncPkg(pkgPathOf(n)) && (!w.a.inCheckout(n.Obj().Pkg()) || w.a.opaque[typeKey(n)]) {
			kind, m = "KCall", fn.Name()
		}
	}
	w.access(base, vs, kind, m, se.Pos())
}

func isSyncHO(fn *types.Func) bool {
	if fn.Pkg() == nil {
		return false
	}
	p, n := fn.Pkg().Path(), fn.Name()
	r := ""
	if rn := recvNamed(fn); rn != nil {
		r = rn.Obj().Name()
	}
	switch {
	case p == "github.com/btcsuite/btcwallet/walletdb":
		return (r == "" && (n == "View" || n == "Update")) || (r != "" && (n == "ForEach" || n == "ForEachBucket"))
	case p == "sort":
		return r == "" && (n == "Slice" || n == "SliceStable" || n == "Search" || n == "Sort")
	case p == "sync":
		return (r == "Once" && n == "Do") || (r == "Map" && n == "Range")
	case p == "strings":
		return r == "" && (n == "Map" || n == "FieldsFunc")
	case p == "slices" || p == "maps" || p == "golang.org/x/exp/slices" || p == "golang.org/x/exp/maps":
		return true
	case p == "github.com/lightningnetwork/lnd/fn/v2" || p == "github.com/lightningnetwork/lnd/fn":
		return r == "Option" && n == "WhenSome"
	case strings.HasSuffix(p, "/neutrino/cache/lru"):
		return (r == "Cache" && (n == "Range" || n == "RangeFILO" || n == "RangeFIFO")) || (r == "syncMap" && n == "Range")
	}
	return false
}

func isAfterFunc(fn *types.Func) bool {
	return fn != nil && fn.Pkg() != nil && fn.Pkg().Path() == "time" && fn.Name() == "AfterFunc" && recvNamed(fn) == nil
}

func (w *walker) args(c *ast.CallExpr, fn *types.Func, how int) {
	for i, arg := range c.Args {
		ua := unparen(arg)
		if fl, ok := ua.(*ast.FuncLit); ok {
			w.literal(fl, how)
			continue
		}
		if how != callGo && w.a.argSync(fn, i) {
			// a function value in a position where it is only called,
			// synchronously: a call edge instead of a callback root
			if o := w.closureVar(ua); o != nil {
				w.closureUse(o, how)
				continue
			}
			switch x := ua.(type) {
			case *ast.Ident:
				if f, ok := w.info.Uses[x].(*types.Func); ok {
					w.link(f, nil, how, nil, x.Pos())
					continue
				}
			case *ast.SelectorExpr:
				if sel, ok := w.info.Selections[x]; ok {
					if f, ok := sel.Obj().(*types.Func); ok && sel.Kind() == types.MethodVal {
						w.recvAccess(x, sel, f, true)
						w.link(f, w.info.TypeOf(x.X), how, nil, x.Pos())
						continue
					}
				} else if f, ok := w.info.Uses[x.Sel].(*types.Func); ok {
					w.link(f, nil, how, nil, x.Pos())
					continue
				}
			}
		}
		w.expr(arg)
	}
}

func (w *walker) unresolved(c *ast.CallExpr) {
	if !w.record {
		return
	}
	w.a.unres[[2]string{w.node.display(), text(w.fset, c.Fun)}] = true
}

func (w *walker) call(c *ast.CallExpr, how int) {
	fun := unparen(c.Fun)
	if tv, ok := w.info.Types[fun]; ok && tv.IsType() {
		for _, a := range c.Args {
			w.expr(a)
		}
		return
	}
	inst := fun
	switch x := fun.(type) {
	case *ast.IndexExpr:
		if w.funcRef(x.X) != nil {
			inst = unparen(x.X)
		}
	case *ast.IndexListExpr:
		if w.funcRef(x.X) != nil {
			inst = unparen(x.X)
		}
	}
	switch f := inst.(type) {
	case *ast.FuncLit:
		for _, a := range c.Args {
			w.expr(a)
		}
		w.literal(f, callNormal)
		return
	case *ast.Ident:
		switch o := w.info.Uses[f].(type) {
		case *types.Builtin:
			w.builtin(c, o.Name())
			return
		case *types.Func:
			w.staticCall(c, o, how)
			return
		case *types.Var:
			if co := w.closureVar(f); co != nil {
				// a local closure that is only called
				w.args(c, nil, how)
				w.closureUse(co, how)
				return
			}
			if key, ok := w.a.paramObj[o]; ok && w.a.params[key].ok {
				// a parameter that is only called: the callers of this
				// function have the edges to what they pass
				w.args(c, nil, how)
				return
			}
		}
	case *ast.SelectorExpr:
		if sel, ok := w.info.Selections[f]; ok {
			switch sel.Kind() {
			case types.MethodVal:
				w.methodCall(c, f, sel, how)
				return
			case types.MethodExpr:
				w.staticCall(c, sel.Obj().(*types.Func), how)
				return
			}
		} else if o, ok := w.info.Uses[f.Sel].(*types.Func); ok {
			w.staticCall(c, o, how)
			return
		}
	}
	// a function-typed value: field, parameter, local, call result
	w.expr(fun)
	w.args(c, nil, how)
	w.unresolved(c)
}

func (w *walker) funcRef(e ast.Expr) *types.Func {
	switch x := unparen(e).(type) {
	case *ast.Ident:
		f, _ := w.info.Uses[x].(*types.Func)
		return f
	case *ast.SelectorExpr:
		if sel, ok := w.info.Selections[x]; ok {
			if sel.Kind() == types.FieldVal {
				return nil
			}
			f, _ := sel.Obj().(*types.Func)
			return f
		}
		f, _ := w.info.Uses[x.Sel].(*types.Func)
		return f
	}
	return nil
}

func (w *walker) staticCall(c *ast.CallExpr, fn *types.Func, how int) {
	if fn.Pkg() != nil && fn.Pkg().Path() == "sync/atomic" && recvNamed(fn) == nil && len(c.Args) > 0 {
		kind := "KAtomicW"
		if strings.HasPrefix(fn.Name(), "Load") {
			kind = "KAtomicR"
		}
		done := false
		if u, ok := unparen(c.Args[0]).(*ast.UnaryExpr); ok && u.Op == token.AND {
			if base, vs, ok := w.chain(u.X); ok {
				w.access(base, vs, kind, "", u.X.Pos())
				done = true
			} else if id, ok := unparen(u.X).(*ast.Ident); ok {
				if o, ok := w.info.Uses[id].(*types.Var); ok && w.a.shared[o] != nil {
					w.localSite(o, kind, id.Pos())
					done = true
				}
			}
		}
		if !done {
			w.expr(c.Args[0])
		}
		for _, a := range c.Args[1:] {
			w.expr(a)
		}
		return
	}
	w.args(c, fn, how)
	w.link(fn, nil, how, nil, c.Pos())
	w.heapSort(c, fn, how)
}

// heapSort: container/heap and sort call the methods of their argument
func (w *walker) heapSort(c *ast.CallExpr, fn *types.Func, how int) {
	if fn.Pkg() == nil || recvNamed(fn) != nil || len(c.Args) == 0 {
		return
	}
	switch fn.Pkg().Path() {
	case "container/heap":
		switch fn.Name() {
		case "Init", "Push", "Pop", "Fix", "Remove":
		default:
			return
		}
	case "sort":
		if fn.Name() != "Sort" && fn.Name() != "Stable" {
			return
		}
	default:
		return
	}
	t := w.info.TypeOf(c.Args[0])
	if t == nil {
		return
	}
	for _, m := range []string{"Len", "Less", "Swap", "Push", "Pop"} {
		obj, _, _ := types.LookupFieldOrMethod(t, true, w.di.pkg.Types, m)
		if f, ok := obj.(*types.Func); ok {
			w.link(f, t, how, nil, c.Pos())
		}
	}
}

func (w *walker) methodCall(c *ast.CallExpr, se *ast.SelectorExpr, sel *types.Selection, how int) {
	fn := sel.Obj().(*types.Func)
	if op := lockOp(fn); op != "" {
		name := w.lockNameSel(se, sel)
		w.expr(se.X)
		switch {
		case how == callDefer:
			if op == "Unlock" || op == "RUnlock" {
				w.deferHeld[name] = true
			}
		case how == callGo:
		case op == "Lock":
			w.cur[name] = LW
		case op == "RLock":
			w.cur[name] = LR
		default:
			if _, held := w.cur[name]; !held && w.record {
				w.a.anomalies[w.node.display()+": "+op+" of "+name+" which is not held lexically"] = true
			}
			delete(w.cur, name)
		}
		return
	}
	w.recvAccess(se, sel, fn, false)
	w.args(c, fn, how)
	w.link(fn, w.info.TypeOf(se.X), how, se.X, c.Pos())
}

func (w *walker) builtin(c *ast.CallExpr, name string) {
	switch name {
	case "delete", "clear", "copy":
		for i, a := range c.Args {
			if i == 0 {
				w.written(a)
			} else {
				w.expr(a)
			}
		}
	case "new", "make":
		for i, a := range c.Args {
			if i > 0 {
				w.expr(a)
			}
		}
	default:
		for _, a := range c.Args {
			w.expr(a)
		}
	}
}

// ---------------------------------------------------------------- driver

func (a *analysis) rel(path string) string {
	r, err := filepath.Rel(a.root, path)
	if err != nil {
		return path
	}
	return filepath.ToSlash(r)
}

// prescan: ordinals of the literals, positions of the go statements, goto
// targets and the locals that are assigned something else than a fresh object
func prescan(di *declInfo, info *types.Info, body ast.Node) {
	ast.Inspect(body, func(n ast.Node) bool {
		switch x := n.(type) {
		case *ast.FuncLit:
			di.ordinal[x] = len(di.ordinal) + 1
		case *ast.GoStmt:
			di.goPos = append(di.goPos, x.Pos())
			di.goStmts = append(di.goStmts, x.Pos())
		case *ast.CallExpr:
			if se, ok := unparen(x.Fun).(*ast.SelectorExpr); ok {
				if f, ok := info.Uses[se.Sel].(*types.Func); ok && isAfterFunc(f) {
					di.goPos = append(di.goPos, x.Pos())
				}
			}
		case *ast.BranchStmt:
			if x.Tok == token.GOTO && x.Label != nil {
				di.gotoLabels[x.Label.Name] = true
			}
		case *ast.AssignStmt:
			for i, l := range x.Lhs {
				id, ok := unparen(l).(*ast.Ident)
				if !ok {
					continue
				}
				o := info.Defs[id]
				if o == nil {
					o = info.Uses[id]
				}
				if o == nil {
					continue
				}
				good := false
				if x.Tok == token.DEFINE || x.Tok == token.ASSIGN {
					if len(x.Lhs) == len(x.Rhs) {
						if freshForm(info, x.Rhs[i]) {
							good = true
						} else if f := calledFunc(info, x.Rhs[i]); f != nil {
							di.callInit[o] = append(di.callInit[o], f)
							good = true
						}
					} else if len(x.Rhs) == 1 && i == 0 {
						// x, err := newFoo(..)
						if f := calledFunc(info, x.Rhs[0]); f != nil {
							di.callInit[o] = append(di.callInit[o], f)
							good = true
						}
					}
				}
				if !good {
					di.dirty[o] = true
				}
			}
		case *ast.ValueSpec:
			for i, nm := range x.Names {
				o := info.Defs[nm]
				if o == nil || len(x.Values) == 0 {
					continue
				}
				var rhs ast.Expr
				if len(x.Values) == len(x.Names) {
					rhs = x.Values[i]
				} else if i == 0 {
					rhs = x.Values[0]
				}
				if rhs == nil || len(x.Values) == len(x.Names) && freshForm(info, rhs) {
					continue
				}
				if f := calledFunc(info, rhs); f != nil {
					di.callInit[o] = append(di.callInit[o], f)
				}
			}
		case *ast.RangeStmt:
			for _, l := range []ast.Expr{x.Key, x.Value} {
				if id, ok := l.(*ast.Ident); ok {
					if o := info.Defs[id]; o != nil {
						di.dirty[o] = true
					} else if o := info.Uses[id]; o != nil {
						di.dirty[o] = true
					}
				}
			}
		}
		return true
	})
}

// calledFunc: e is a call of a statically known function or method
func calledFunc(info *types.Info, e ast.Expr) *types.Func {
	c, ok := unparen(e).(*ast.CallExpr)
	if !ok {
		return nil
	}
	return funcRefInfo(info, c.Fun)
}

func funcRefInfo(info *types.Info, e ast.Expr) *types.Func {
	e = unparen(e)
	switch x := e.(type) {
	case *ast.IndexExpr:
		e = unparen(x.X)
	case *ast.IndexListExpr:
		e = unparen(x.X)
	}
	switch x := e.(type) {
	case *ast.Ident:
		f, _ := info.Uses[x].(*types.Func)
		return f
	case *ast.SelectorExpr:
		if sel, ok := info.Selections[x]; ok {
			if sel.Kind() == types.FieldVal {
				return nil
			}
			f, _ := sel.Obj().(*types.Func)
			return f
		}
		f, _ := info.Uses[x.Sel].(*types.Func)
		return f
	}
	return nil
}

// ---------------------------------------------------------------- how function literals are used

const (
	bOther = iota
	bImm   // func(){..}(), go func(){..}(), defer func(){..}()
	bArg   // argument of a call
	bVar   // bound to a local variable
)

type litBind struct {
	kind   int
	how    int // bImm, bArg: the call is a plain / go / defer call
	callee *types.Func
	idx    int
	obj    types.Object
}

const (
	uOther = iota
	uCall  // f(..), go f(..), defer f(..)
	uArg   // passed as an argument
	uNil   // compared with nil
	uBind  // the assignment that binds the literal
)

type fuse struct {
	kind   int
	how    int
	callee *types.Func
	idx    int
	lits   []*ast.FuncLit // the enclosing literals
}

// tracked: a function-typed parameter of a FuncDecl, or a local bound to a
// literal; ok = it is only called (greatest fixpoint, see solveKinds)
type tracked struct {
	lits    []*ast.FuncLit // closure variable: the literals it is bound to
	nassign int            // closure variable: number of assignments
	uses    []fuse
	ok      bool
}

func (t *tracked) binds(fl *ast.FuncLit) bool {
	for _, l := range t.lits {
		if l == fl {
			return true
		}
	}
	return false
}

func isNil(info *types.Info, e ast.Expr) bool {
	id, ok := unparen(e).(*ast.Ident)
	if !ok {
		return false
	}
	_, isNil := info.Uses[id].(*types.Nil)
	return isNil
}

func isLocalVar(o types.Object) bool {
	v, ok := o.(*types.Var)
	return ok && !v.IsField() && v.Pkg() != nil && v.Parent() != v.Pkg().Scope()
}

// prepass: how the literals of a FuncDecl (or of package-level initialisers)
// are used, and the uses of its function-typed parameters and of the locals
// bound to literals
func (a *analysis) prepass(info *types.Info, fn *types.Func, body ast.Node) {
	if fn != nil {
		sig := fn.Type().(*types.Signature)
		for i := 0; i < sig.Params().Len(); i++ {
			pv := sig.Params().At(i)
			if _, ok := pv.Type().Underlying().(*types.Signature); ok && !(sig.Variadic() && i == sig.Params().Len()-1) {
				key := funcKey(fn) + "#" + strconv.Itoa(i)
				a.params[key] = &tracked{ok: true}
				a.paramObj[pv] = key
			}
		}
	}
	// enclosing nodes, parentheses skipped
	howOf := func(stack []ast.Node, c *ast.CallExpr) int {
		for i := len(stack) - 1; i >= 0; i-- {
			if stack[i] == ast.Node(c) {
				if i > 0 {
					switch g := stack[i-1].(type) {
					case *ast.GoStmt:
						if g.Call == c {
							return callGo
						}
					case *ast.DeferStmt:
						if g.Call == c {
							return callDefer
						}
					}
				}
				break
			}
		}
		return callNormal
	}
	parentOf := func(stack []ast.Node) ast.Node {
		for i := len(stack) - 1; i >= 0; i-- {
			if _, ok := stack[i].(*ast.ParenExpr); !ok {
				return stack[i]
			}
		}
		return nil
	}
	walk := func(f func(n ast.Node, stack []ast.Node)) {
		var stack []ast.Node
		ast.Inspect(body, func(n ast.Node) bool {
			if n == nil {
				stack = stack[:len(stack)-1]
				return true
			}
			f(n, stack)
			stack = append(stack, n)
			return true
		})
	}
	// 1. the literals, and the number of assignments of every local
	nassign := map[types.Object]int{}
	walk(func(n ast.Node, stack []ast.Node) {
		switch x := n.(type) {
		case *ast.AssignStmt:
			for _, l := range x.Lhs {
				if id, ok := unparen(l).(*ast.Ident); ok {
					o := info.Defs[id]
					if o == nil {
						o = info.Uses[id]
					}
					if o != nil {
						nassign[o]++
					}
				}
			}
		case *ast.ValueSpec:
			if len(x.Values) > 0 {
				for _, nm := range x.Names {
					if o := info.Defs[nm]; o != nil {
						nassign[o]++
					}
				}
			}
		case *ast.RangeStmt:
			for _, l := range []ast.Expr{x.Key, x.Value} {
				if id, ok := l.(*ast.Ident); ok {
					o := info.Defs[id]
					if o == nil {
						o = info.Uses[id]
					}
					if o != nil {
						nassign[o] += 2
					}
				}
			}
		case *ast.FuncLit:
			b := &litBind{kind: bOther}
			a.litBind[x] = b
			switch p := parentOf(stack).(type) {
			case *ast.CallExpr:
				if unparen(p.Fun) == ast.Expr(x) {
					b.kind, b.how = bImm, howOf(stack, p)
					return
				}
				for i, arg := range p.Args {
					if unparen(arg) == ast.Expr(x) {
						b.kind, b.how, b.idx, b.callee = bArg, howOf(stack, p), i, funcRefInfo(info, p.Fun)
					}
				}
			case *ast.AssignStmt:
				if len(p.Lhs) == len(p.Rhs) {
					for i, r := range p.Rhs {
						if unparen(r) != ast.Expr(x) {
							continue
						}
						if id, ok := unparen(p.Lhs[i]).(*ast.Ident); ok {
							o := info.Defs[id]
							if o == nil {
								o = info.Uses[id]
							}
							if o != nil && isLocalVar(o) {
								b.kind, b.obj = bVar, o
							}
						}
					}
				}
			case *ast.ValueSpec:
				if len(p.Names) == len(p.Values) {
					for i, r := range p.Values {
						if unparen(r) == ast.Expr(x) {
							if o := info.Defs[p.Names[i]]; o != nil && isLocalVar(o) {
								b.kind, b.obj = bVar, o
							}
						}
					}
				}
			}
			if b.kind == bVar {
				t := a.closures[b.obj]
				if t == nil {
					t = &tracked{ok: true}
					a.closures[b.obj] = t
				}
				t.lits = append(t.lits, x)
			}
		}
	})
	for o, n := range nassign {
		if t := a.closures[o]; t != nil {
			t.nassign = n
		}
	}
	// 2. the uses of the tracked objects
	walk(func(n ast.Node, stack []ast.Node) {
		id, ok := n.(*ast.Ident)
		if !ok {
			return
		}
		o := info.Uses[id]
		if o == nil {
			return
		}
		var t *tracked
		if key, ok := a.paramObj[o]; ok {
			t = a.params[key]
		} else {
			t = a.closures[o]
		}
		if t == nil {
			return
		}
		u := fuse{kind: uOther}
		for _, s := range stack {
			if fl, ok := s.(*ast.FuncLit); ok {
				u.lits = append(u.lits, fl)
			}
		}
		switch p := parentOf(stack).(type) {
		case *ast.CallExpr:
			if unparen(p.Fun) == ast.Expr(id) {
				u.kind, u.how = uCall, howOf(stack, p)
			} else {
				for i, arg := range p.Args {
					if unparen(arg) == ast.Expr(id) {
						u.kind, u.how, u.idx, u.callee = uArg, howOf(stack, p), i, funcRefInfo(info, p.Fun)
					}
				}
			}
		case *ast.BinaryExpr:
			if (p.Op == token.EQL || p.Op == token.NEQ) && (isNil(info, p.X) || isNil(info, p.Y)) {
				u.kind = uNil
			}
		case *ast.AssignStmt:
			if len(p.Lhs) == len(p.Rhs) {
				for i, l := range p.Lhs {
					if unparen(l) == ast.Expr(id) {
						if _, ok := unparen(p.Rhs[i]).(*ast.FuncLit); ok {
							u.kind = uBind
						}
					}
				}
			}
		}
		t.uses = append(t.uses, u)
	})
}

// sharedScan: the locals and parameters of a FuncDecl that a goroutine it
// starts can see: (1) referenced inside a goroutine literal (go statement,
// time.AfterFunc) and declared outside it, or (2) a map or slice passed as an
// argument of a go statement.  Channels, functions, sync types and the
// receiver are left out.
func (a *analysis) sharedScan(di *declInfo, info *types.Info) {
	fd := di.fd
	recv := map[types.Object]bool{}
	if fd.Recv != nil {
		for _, f := range fd.Recv.List {
			for _, nm := range f.Names {
				if o := info.Defs[nm]; o != nil {
					recv[o] = true
				}
			}
		}
	}
	eligible := func(o types.Object) *types.Var {
		v, ok := o.(*types.Var)
		if !ok || !isLocalVar(v) || recv[v] || v.Name() == "_" {
			return nil
		}
		switch v.Type().Underlying().(type) {
		case *types.Chan, *types.Signature:
			return nil
		}
		if cl, _ := a.classOf(v.Type()); cl == "sync" {
			return nil
		}
		return v
	}
	var found []*sharedVar
	get := func(v *types.Var) *sharedVar {
		sv := a.shared[v]
		if sv == nil {
			sv = &sharedVar{obj: v}
			a.shared[v] = sv
			found = append(found, sv)
		}
		return sv
	}
	// publish: v becomes visible to a goroutine at pos; if a loop around
	// that point does not enclose the declaration of v (the variable is not
	// fresh per iteration), everything from the start of that loop on comes
	// after a publication
	publish := func(sv *sharedVar, pos token.Pos, stack []ast.Node) {
		for _, s := range stack {
			switch s.(type) {
			case *ast.ForStmt, *ast.RangeStmt:
				if !(s.Pos() <= sv.obj.Pos() && sv.obj.Pos() < s.End()) && s.Pos() < pos {
					pos = s.Pos()
				}
			}
		}
		sv.pubPos = append(sv.pubPos, pos)
	}
	var stack []ast.Node
	ast.Inspect(fd.Body, func(n ast.Node) bool {
		if n == nil {
			stack = stack[:len(stack)-1]
			return true
		}
		switch x := n.(type) {
		case *ast.Ident:
			o := info.Uses[x]
			if o == nil {
				break
			}
			v := eligible(o)
			if v == nil {
				break
			}
			for i, s := range stack {
				g, ok := s.(*ast.FuncLit)
				if !ok || a.kinds[g] != "go" || (g.Pos() <= v.Pos() && v.Pos() < g.End()) {
					continue
				}
				sv := get(v)
				dup := false
				for _, c := range sv.capLits {
					if c == g {
						dup = true
					}
				}
				if !dup {
					sv.capLits = append(sv.capLits, g)
					publish(sv, g.Pos(), stack[:i])
				}
			}
		case *ast.GoStmt:
			for _, arg := range x.Call.Args {
				if id, ok := unparen(arg).(*ast.Ident); ok {
					if o := info.Uses[id]; o != nil {
						if v := eligible(o); v != nil && isMapOrSlice(v.Type()) {
							publish(get(v), x.Pos(), stack)
						}
					}
				}
			}
		}
		stack = append(stack, n)
		return true
	})
	// names: local:<fn>:<x>, a second variable of that name gets #2, ...
	sort.Slice(found, func(i, j int) bool { return found[i].obj.Pos() < found[j].obj.Pos() })
	seen := map[string]int{}
	for _, sv := range found {
		seen[sv.obj.Name()]++
		sv.name = "local:" + di.name + ":" + sv.obj.Name()
		if k := seen[sv.obj.Name()]; k > 1 {
			sv.name += "#" + strconv.Itoa(k)
		}
		a.vars[sv.name] = &vinfo{name: sv.name, class: "local"}
		a.nshared++
	}
}

// argSync: a function value passed as argument idx of a call of callee is
// only called, synchronously, by the callee
func (a *analysis) argSync(callee *types.Func, idx int) bool {
	if callee == nil {
		return false
	}
	callee = callee.Origin()
	if isSyncHO(callee) {
		return true
	}
	t := a.params[funcKey(callee)+"#"+strconv.Itoa(idx)]
	return t != nil && t.ok
}

func (a *analysis) litKind(fl *ast.FuncLit) string {
	b := a.litBind[fl]
	if b == nil {
		return "func"
	}
	switch b.kind {
	case bImm:
		switch b.how {
		case callGo:
			return "go"
		case callDefer:
			return "defer"
		}
		return "sync"
	case bArg:
		if b.how == callGo {
			return "func"
		}
		if isAfterFunc(b.callee) {
			return "go"
		}
		if a.argSync(b.callee, b.idx) {
			return "sync"
		}
	case bVar:
		if t := a.closures[b.obj]; t != nil && t.ok && t.binds(fl) {
			for _, u := range t.uses {
				if u.kind == uCall && u.how == callGo {
					return "go"
				}
			}
			return "sync"
		}
	}
	return "func"
}

// solveKinds: greatest fixpoint of "is only called" for the function-typed
// parameters (every use is a call, or passes the value on to a parameter with
// the same property or to a known synchronous callee, from the function body
// or a sync/defer literal of it) and for the locals that are only ever bound
// to literals (every use is a call, a go / defer call, or such a passing on)
func (a *analysis) solveKinds() {
	paramOK := func(t *tracked) bool {
		for _, u := range t.uses {
			switch u.kind {
			case uCall:
				if u.how == callGo {
					return false
				}
			case uArg:
				if u.how == callGo || !a.argSync(u.callee, u.idx) {
					return false
				}
			case uNil:
			default:
				return false
			}
			for _, fl := range u.lits {
				if k := a.litKind(fl); k != "sync" && k != "defer" {
					return false
				}
			}
		}
		return true
	}
	closureOK := func(t *tracked) bool {
		if t.nassign != len(t.lits) {
			return false // also assigned something else than a literal
		}
		for _, u := range t.uses {
			switch u.kind {
			case uCall, uNil, uBind:
			case uArg:
				if u.how == callGo || !a.argSync(u.callee, u.idx) {
					return false
				}
			default:
				return false
			}
		}
		return true
	}
	for changed := true; changed; {
		changed = false
		for _, t := range a.params {
			if t.ok && !paramOK(t) {
				t.ok, changed = false, true
			}
		}
		for _, t := range a.closures {
			if t.ok && !closureOK(t) {
				t.ok, changed = false, true
			}
		}
	}
	for fl := range a.litBind {
		a.kinds[fl] = a.litKind(fl)
	}
}

func newDeclInfo(name, file string, p *Package, u *universe) *declInfo {
	return &declInfo{name: name, file: file, pkg: p, u: u, ordinal: map[*ast.FuncLit]int{},
		gotoLabels: map[string]bool{}, dirty: map[types.Object]bool{}, freshDef: map[types.Object]*fnode{},
		callInit: map[types.Object][]*types.Func{}, closures: map[types.Object]*closureVar{}}
}

type kindedSite struct {
	line string
	key  []string
	rs   rawSite
}

func main() {
	repo := flag.String("repo", "", "neutrino checkout (default $VERIF_REPO, else /repo)")
	dump := flag.Bool("dump", false, "plain-text listing instead of the Coq file")
	strictReq := flag.Bool("strictreq", false, "fn_requires: count the call sites on fresh objects in constructors as well")
	var locate multiFlag
	flag.Var(&locate, "locate", "file.go:LINE (relative to the repo root): print the access sites on that line as JSON; may be repeated")
	flag.Parse()
	if *repo == "" {
		*repo = os.Getenv("VERIF_REPO")
	}
	if *repo == "" {
		*repo = "/repo"
	}
	root, err := filepath.Abs(*repo)
	if err != nil {
		fatal("%v", err)
	}
	if r, err := filepath.EvalSymlinks(root); err == nil {
		root = r
	}

	a := &analysis{root: root, inPaths: map[string]bool{}, owner: map[*types.Var]string{}, vars: map[string]*vinfo{},
		nodeByKey: map[string]*fnode{}, condAlias: map[string]map[string]bool{}, unres: map[[2]string]bool{}, anomalies: map[string]bool{},
		opaque: map[string]bool{}, private: map[string]bool{}, litBind: map[*ast.FuncLit]*litBind{}, params: map[string]*tracked{},
		paramObj: map[types.Object]string{}, closures: map[types.Object]*tracked{}, kinds: map[*ast.FuncLit]string{},
		shared: map[types.Object]*sharedVar{}, litNode: map[*ast.FuncLit]*fnode{}}
	for _, t := range readList(opaqueTypesTxt) {
		a.opaque[t] = true
	}
	for _, t := range readList(privateTypesTxt) {
		a.private[t] = true
	}

	// ---- load the two modules
	type loaded struct {
		pkgs []*Package
		u    *universe
	}
	dirs := []string{root, filepath.Join(root, "cache")}
	loads := make([]loaded, len(dirs))
	var lwg sync.WaitGroup
	for i, d := range dirs {
		if _, err := os.Stat(filepath.Join(d, "go.mod")); err != nil {
			fatal("no module in %s", d)
		}
		lwg.Add(1)
		go func(i int, d string) {
			defer lwg.Done()
			loads[i] = loaded{load(d), &universe{cha: map[string][]*types.Func{}}}
		}(i, d)
	}
	lwg.Wait()
	for _, l := range loads {
		for _, p := range l.pkgs {
			a.inPaths[p.PkgPath] = true
		}
	}
	analysed := map[string]bool{}

	// ---- variables: the fields of the named struct types and the package-level
	// variables of the in-checkout packages (of every load: the main module
	// sees its own copy of the cache module's types)
	regPkg := func(tp *types.Package, u *universe) {
		sc := tp.Scope()
		for _, nm := range sc.Names() {
			switch o := sc.Lookup(nm).(type) {
			case *types.TypeName:
				if o.IsAlias() {
					continue
				}
				n, ok := o.Type().(*types.Named)
				if !ok {
					continue
				}
				u.named = append(u.named, n)
				if types.IsInterface(n) && o.Exported() {
					u.ifaces = append(u.ifaces, n)
				}
				st, ok := n.Underlying().(*types.Struct)
				if !ok || a.opaque[typeKey(n)] {
					continue // the fields of an opaque type are not variables
				}
				for i := 0; i < st.NumFields(); i++ {
					f := st.Field(i)
					name := tp.Name() + "." + o.Name() + "." + f.Name()
					a.owner[f] = name
					if a.vars[name] == nil {
						cl, ext := a.classOf(f.Type())
						a.vars[name] = &vinfo{name: name, class: cl, extPkg: ext, opaque: a.isOpaque(f.Type())}
					}
				}
			case *types.Var:
				name := tp.Name() + "." + o.Name()
				if o.Name() == "_" {
					continue
				}
				if a.vars[name] == nil {
					cl, ext := a.classOf(o.Type())
					a.vars[name] = &vinfo{name: name, class: cl, extPkg: ext, pkgVar: true, opaque: a.isOpaque(o.Type())}
				}
			}
		}
	}
	for _, l := range loads {
		seen := map[string]bool{}
		for _, p := range l.pkgs {
			seen[p.PkgPath] = true
			regPkg(p.Types, l.u)
		}
		visit(l.pkgs, func(p *Package) {
			if a.inPaths[p.PkgPath] && !seen[p.PkgPath] && p.Types != nil {
				seen[p.PkgPath] = true
				regPkg(p.Types, l.u)
			}
		})
	}

	// ---- function nodes
	type work struct {
		di   *declInfo
		node *fnode
		body []ast.Stmt
		info *types.Info
		fset *token.FileSet
		vals []ast.Expr // pseudo node: the initialisers
	}
	var works []work
	nfuncs := 0
	// named struct types declared inside functions: their fields are
	// variables like those of package-level types
	type localType struct {
		pkg *types.Package
		fn  string
		tn  *types.TypeName
	}
	var localTypes []localType
	for _, l := range loads {
		for _, p := range l.pkgs {
			if analysed[p.PkgPath] {
				continue
			}
			analysed[p.PkgPath] = true
			a.npkgs++
			for _, f := range p.Syntax {
				fname := p.Fset.Position(f.Pos()).Filename
				if skipFile(fname) {
					continue
				}
				rel := a.rel(fname)
				var vals []ast.Expr
				for _, d := range f.Decls {
					switch d := d.(type) {
					case *ast.FuncDecl:
						name := rel + ":" + funcID(d)
						di := newDeclInfo(name, rel, p, l.u)
						di.fd = d
						obj, _ := p.TypesInfo.Defs[d.Name].(*types.Func)
						n := &fnode{order: len(a.nodes), name: name, kind: "decl", di: di, obj: obj, callees: map[*fnode]bool{}}
						di.node = n
						// constructor by name: a plain function init, or New… /
						// new… whose first result is (a pointer to) a named type
						// of the checkout
						if d.Recv == nil && obj != nil {
							if d.Name.Name == "init" {
								n.ctor = true
							} else if ctorRe.MatchString(d.Name.Name) || d.Name.Name == "New" {
								if res := obj.Type().(*types.Signature).Results(); res.Len() > 0 {
									if rn := namedOf(deref(res.At(0).Type())); rn != nil && a.inCheckout(rn.Obj().Pkg()) {
										n.ctor = true
									}
								}
							}
						}
						if obj != nil {
							if rn := recvNamed(obj); rn != nil {
								n.private = a.private[typeKey(rn)]
								di.opaque = a.opaque[typeKey(rn)]
							}
						}
						a.nodes = append(a.nodes, n)
						nfuncs++
						if obj != nil && !(d.Recv == nil && (d.Name.Name == "init" || d.Name.Name == "_")) {
							a.nodeByKey[funcKey(obj)] = n
						}
						if d.Body != nil {
							ast.Inspect(d.Body, func(nd ast.Node) bool {
								if ts, ok := nd.(*ast.TypeSpec); ok {
									if tn, ok := p.TypesInfo.Defs[ts.Name].(*types.TypeName); ok && !tn.IsAlias() {
										localTypes = append(localTypes, localType{p.Types, funcID(d), tn})
									}
								}
								return true
							})
							prescan(di, p.TypesInfo, d.Body)
							a.prepass(p.TypesInfo, obj, d.Body)
							works = append(works, work{di: di, node: n, body: d.Body.List, info: p.TypesInfo, fset: p.Fset})
						}
					case *ast.GenDecl:
						if d.Tok != token.VAR {
							continue
						}
						for _, sp := range d.Specs {
							vals = append(vals, sp.(*ast.ValueSpec).Values...)
						}
					}
				}
				if len(vals) > 0 {
					name := rel + ":init"
					di := newDeclInfo(name, rel, p, l.u)
					for _, v := range vals {
						prescan(di, p.TypesInfo, v)
						a.prepass(p.TypesInfo, nil, v)
					}
					n := &fnode{order: len(a.nodes), name: name, kind: "pseudo", di: di, ctor: true, callees: map[*fnode]bool{}}
					di.node = n
					a.nodes = append(a.nodes, n)
					works = append(works, work{di: di, node: n, info: p.TypesInfo, fset: p.Fset, vals: vals})
				}
			}
		}
	}

	// ---- the fields of the function-local struct types: "pkg.Type.field", or
	// "pkg.Func$Type.field" if the name is also that of a package-level type or
	// of another local type of the package
	{
		count := map[string]int{}
		for _, lt := range localTypes {
			count[lt.pkg.Path()+"."+lt.tn.Name()]++
		}
		for _, lt := range localTypes {
			n, ok := lt.tn.Type().(*types.Named)
			if !ok {
				continue
			}
			st, ok := n.Underlying().(*types.Struct)
			if !ok {
				continue
			}
			tname := lt.tn.Name()
			if count[lt.pkg.Path()+"."+tname] > 1 || lt.pkg.Scope().Lookup(tname) != nil {
				tname = lt.fn + "$" + tname
			}
			for i := 0; i < st.NumFields(); i++ {
				f := st.Field(i)
				name := lt.pkg.Name() + "." + tname + "." + f.Name()
				a.owner[f] = name
				if a.vars[name] == nil {
					cl, ext := a.classOf(f.Type())
					a.vars[name] = &vinfo{name: name, class: cl, extPkg: ext, opaque: a.isOpaque(f.Type())}
				}
			}
		}
	}

	// ---- condition variables: c = sync.NewCond(&m)
	for _, wk := range works {
		w := &walker{a: a, info: wk.info, fset: wk.fset, di: wk.di, node: wk.node, cur: lockset{}, deferHeld: map[string]bool{}}
		newCondArg := func(e ast.Expr) ast.Expr {
			c, ok := unparen(e).(*ast.CallExpr)
			if !ok || len(c.Args) != 1 {
				return nil
			}
			f := w.funcRef(c.Fun)
			if f == nil || f.Pkg() == nil || f.Pkg().Path() != "sync" || f.Name() != "NewCond" {
				return nil
			}
			return c.Args[0]
		}
		note := func(c *types.Var, arg ast.Expr) {
			cn := a.varName(c)
			if cn == "" {
				return
			}
			if a.condAlias[cn] == nil {
				a.condAlias[cn] = map[string]bool{}
			}
			a.condAlias[cn][w.lockName(arg)] = true
		}
		visit := func(n ast.Node) bool {
			switch x := n.(type) {
			case *ast.AssignStmt:
				if len(x.Lhs) == len(x.Rhs) {
					for i, l := range x.Lhs {
						if arg := newCondArg(x.Rhs[i]); arg != nil {
							if _, vs, ok := w.chain(l); ok {
								note(vs[len(vs)-1], arg)
							}
						}
					}
				}
			case *ast.KeyValueExpr:
				if arg := newCondArg(x.Value); arg != nil {
					if id, ok := x.Key.(*ast.Ident); ok {
						if v, ok := wk.info.Uses[id].(*types.Var); ok && v.IsField() {
							note(v, arg)
						}
					}
				}
			}
			return true
		}
		for _, s := range wk.body {
			ast.Inspect(s, visit)
		}
		for _, v := range wk.vals {
			ast.Inspect(v, visit)
		}
	}

	// ---- the walk
	a.solveKinds()
	for _, wk := range works {
		if wk.di.fd != nil {
			a.sharedScan(wk.di, wk.info)
		}
	}
	for _, wk := range works {
		w := &walker{a: a, info: wk.info, fset: wk.fset, di: wk.di, node: wk.node, cur: lockset{}, record: true, deferHeld: map[string]bool{}}
		if wk.vals != nil {
			for _, v := range wk.vals {
				w.expr(v)
			}
		} else {
			w.body(wk.body)
		}
		a.finishClosures(wk.di)
	}

	// ---- extra_edges.txt: call edges connected by hand; each is a call site
	// at the end of the caller's body with no lock held lexically
	var extraEdges [][2]string
	{
		seen := map[[2]string]bool{}
		for _, l := range readList(extraEdgesTxt) {
			parts := strings.Split(l, "->")
			if len(parts) != 2 {
				fatal("extra_edges.txt: bad line %q", l)
			}
			from, to := strings.TrimSpace(parts[0]), strings.TrimSpace(parts[1])
			caller := a.nodeByName(from)
			if caller == nil {
				fatal("extra_edges.txt: no function %s in the checkout", from)
			}
			var callees []*fnode
			if strings.HasSuffix(to, ".*") {
				prefix := strings.TrimSuffix(to, "*")
				for _, n := range a.nodes {
					if n.kind == "decl" && n.di.fd.Recv != nil && strings.HasPrefix(n.name, prefix) &&
						!strings.Contains(n.name[len(prefix):], ".") {
						callees = append(callees, n)
					}
				}
			} else if n := a.nodeByName(to); n != nil {
				callees = append(callees, n)
			}
			if len(callees) == 0 {
				fatal("extra_edges.txt: no function %s in the checkout", to)
			}
			for _, c := range callees {
				k := [2]string{caller.name, c.name}
				if seen[k] {
					continue
				}
				seen[k] = true
				extraEdges = append(extraEdges, k)
				c.use("edge", caller)
				caller.callees[c] = true
				c.sites = append(c.sites, callsite{caller, lockset{}, nil, len(caller.di.goPos) == 0})
			}
		}
		sort.Slice(extraEdges, func(i, j int) bool {
			if extraEdges[i][0] != extraEdges[j][0] {
				return extraEdges[i][0] < extraEdges[j][0]
			}
			return extraEdges[i][1] < extraEdges[j][1]
		})
	}

	// ---- callers_of.txt
	type usesOf struct {
		name string
		uses []string
	}
	var callersOf []usesOf
	for _, f := range readList(callersOfTxt) {
		n := a.nodeByName(f)
		if n == nil {
			fatal("callers_of.txt: no function %s in the checkout", f)
		}
		u := usesOf{name: f}
		for k := range n.uses {
			u.uses = append(u.uses, k)
		}
		sort.Strings(u.uses)
		callersOf = append(callersOf, u)
	}

	// ---- constructors by callers: least fixpoint from the name rule
	declOf := func(n *fnode) *fnode {
		// the FuncDecl in whose goroutine the node runs, nil for go / func literals
		for n.kind == "sync" || n.kind == "defer" {
			if n.closure != nil {
				return nil
			}
			n = n.parent
		}
		if n.kind == "decl" || n.kind == "pseudo" {
			return n
		}
		return nil
	}
	var ctorByCallers []string
	for changed := true; changed; {
		changed = false
		for _, n := range a.nodes {
			if n.kind != "decl" || n.ctor || ast.IsExported(n.di.fd.Name.Name) || n.valueUsed || n.goTarget || n.chaTarget || len(n.sites) == 0 {
				continue
			}
			all := true
			for _, cs := range n.sites {
				if d := declOf(cs.caller); d == nil || !d.ctor {
					all = false
					break
				}
			}
			if all {
				n.ctor, n.ctorByCallers, changed = true, true, true
				ctorByCallers = append(ctorByCallers, n.name)
			}
		}
	}
	sort.Strings(ctorByCallers)

	// ---- pre-publication functions: constructors and init_fns.txt
	initFns := readList(initFnsTxt)
	isInitFn := map[string]bool{}
	for _, f := range initFns {
		isInitFn[f] = true
	}
	for _, n := range a.nodes {
		if n.kind == "decl" && isInitFn[n.name] {
			n.initFn = true
		}
	}
	// lexDecl: the FuncDecl (or pseudo node) whose goroutine a node runs in
	// lexically: itself, or the encloser of a sync / defer literal
	lexDecl := func(n *fnode) *fnode {
		for n.kind == "sync" || n.kind == "defer" {
			n = n.parent
		}
		if n.kind == "decl" || n.kind == "pseudo" {
			return n
		}
		return nil
	}
	// prePub: roots are not handed on to the callees of these nodes
	prePub := func(n *fnode) bool {
		d := lexDecl(n)
		return d != nil && (d.ctor || d.initFn)
	}

	// ---- roots
	for _, n := range a.nodes {
		if n.kind != "decl" || !ast.IsExported(n.di.fd.Name.Name) || n.private {
			continue
		}
		switch {
		case n.di.fd.Recv == nil:
			n.api = true
		case len(n.sites) == 0:
			n.api = true
		default:
			rn := recvNamed(n.obj)
			if rn == nil {
				n.api = true
				break
			}
			rn = rn.Origin()
			if rn.Obj().Exported() {
				n.api = true
				break
			}
			for _, it := range n.di.u.ifaces {
				iface := it.Underlying().(*types.Interface)
				has := false
				for i := 0; i < iface.NumMethods(); i++ {
					if iface.Method(i).Name() == n.di.fd.Name.Name {
						has = true
					}
				}
				if has && implements(rn, iface) {
					n.api = true
					break
				}
			}
		}
	}
	rootStarts := map[string][]*fnode{}
	for _, n := range a.nodes {
		switch n.kind {
		case "decl":
			if n.api {
				rootStarts["api"] = append(rootStarts["api"], n)
			}
			if n.di.fd.Recv == nil && n.di.fd.Name.Name == "init" {
				rootStarts["init"] = append(rootStarts["init"], n)
			}
			if n.goTarget {
				rootStarts["go:"+n.display()] = append(rootStarts["go:"+n.display()], n)
			}
			if n.valueUsed {
				rootStarts["cb:"+n.display()] = append(rootStarts["cb:"+n.display()], n)
			}
		case "pseudo":
			rootStarts["init"] = append(rootStarts["init"], n)
		case "go":
			rootStarts["go:"+n.display()] = append(rootStarts["go:"+n.display()], n)
		case "func":
			rootStarts["cb:"+n.display()] = append(rootStarts["cb:"+n.display()], n)
		}
	}
	var rootNames []string
	for r := range rootStarts {
		rootNames = append(rootNames, r)
	}
	sort.Strings(rootNames)
	var goRoots []string
	rootReach := map[string]int{} // number of FuncDecls a root reaches
	for _, r := range rootNames {
		if strings.HasPrefix(r, "go:") {
			goRoots = append(goRoots, r)
		}
		seen := map[*fnode]bool{}
		queue := append([]*fnode{}, rootStarts[r]...)
		for _, n := range queue {
			seen[n] = true
		}
		for len(queue) > 0 {
			n := queue[0]
			queue = queue[1:]
			n.roots = append(n.roots, r)
			if n.kind == "decl" {
				rootReach[r]++
			}
			if prePub(n) {
				continue // runs before the object is published: the root stops here
			}
			for c := range n.callees {
				if !seen[c] {
					seen[c] = true
					queue = append(queue, c)
				}
			}
		}
	}

	// ---- requires: greatest fixpoint over the static call sites
	var effReq func(n *fnode) (lockset, bool)
	inEff := map[*fnode]bool{}
	effReq = func(n *fnode) (lockset, bool) {
		switch n.kind {
		case "decl":
			return n.req, n.reqTop
		case "sync", "defer":
			if n.closure == nil {
				return effReq(n.parent)
			}
			// a local closure: what all the nodes that call it have
			if inEff[n] {
				return nil, true
			}
			inEff[n] = true
			defer delete(inEff, n)
			top := true
			var acc lockset
			for _, u := range n.closure.v.sites {
				if u.how == callGo {
					return lockset{}, false
				}
				r, rtop := effReq(u.caller)
				if rtop {
					continue
				}
				if top {
					acc, top = r.clone(), false
				} else {
					acc = meet(acc, r)
				}
			}
			if top {
				return nil, len(n.closure.v.sites) > 0
			}
			return acc, false
		}
		return lockset{}, false
	}
	// Call sites in a constructor whose receiver is the object under
	// construction (fresh) are left out unless -strictreq is given: like the
	// accesses of a_fresh / a_ctor sites they cannot race.
	computeReq := func(strict bool) {
		for _, n := range a.nodes {
			n.req, n.reqTop, n.eligible = lockset{}, false, false
			if n.kind == "decl" && (!ast.IsExported(n.di.fd.Name.Name) || n.private) && !n.valueUsed && !n.goTarget && !n.chaTarget &&
				len(n.sites) > 0 && n.di.fd.Name.Name != "init" && n.di.fd.Name.Name != "main" {
				n.eligible = true
				n.reqTop = true
			}
		}
		for changed := true; changed; {
			changed = false
			for _, n := range a.nodes {
				if !n.eligible {
					continue
				}
				top := true
				var acc lockset
				for _, cs := range n.sites {
					if !strict && cs.recvObj != nil && cs.caller.di.node.ctor && a.isFreshObj(cs.recvObj, cs.caller) {
						continue
					}
					if d := lexDecl(cs.caller); !strict && d != nil && d.initFn {
						continue // a call made before the object is published
					}
					r, rtop := effReq(cs.caller)
					if rtop {
						continue
					}
					s := join(cs.state, r)
					if top {
						acc, top = s, false
					} else {
						acc = meet(acc, s)
					}
				}
				if top {
					continue
				}
				if n.reqTop || !equalLS(acc, n.req) {
					n.reqTop, n.req = false, acc
					changed = true
				}
			}
		}
		for _, n := range a.nodes {
			if n.reqTop {
				n.reqTop, n.req = false, lockset{}
			}
		}
	}
	var reqNoCtor []string
	if *dump {
		computeReq(!*strictReq)
		for _, n := range a.nodes {
			if n.kind == "decl" && len(n.req) > 0 {
				reqNoCtor = append(reqNoCtor, n.name+" "+n.req.coq())
			}
		}
		sort.Strings(reqNoCtor)
	}
	computeReq(*strictReq)
	reqOf := func(n *fnode) lockset {
		r, top := effReq(n)
		if top || r == nil {
			return lockset{}
		}
		return r
	}
	for i := range a.raw {
		rs := &a.raw[i]
		if rs.local {
			continue
		}
		rs.ctor = rs.node.di.node.ctor
		rs.fresh = a.isFreshObj(rs.root, rs.node)
	}

	// ---- render the sites
	kindStr := func(rs rawSite) string {
		if rs.kind == "KCall" {
			return "(KCall " + coqStr(rs.m) + ")"
		}
		return rs.kind
	}
	// a synthetic site (a map / slice handed to a go statement) has its own
	// ctx and roots and runs with nothing held
	siteCtx := func(rs rawSite) string {
		if rs.ctxOv != "" {
			return rs.ctxOv
		}
		return rs.node.ctx
	}
	siteRoots := func(rs rawSite) []string {
		if rs.ctxOv != "" {
			return rs.rootsOv
		}
		return rs.node.roots
	}
	siteReq := func(rs rawSite) lockset {
		if rs.ctxOv != "" {
			return lockset{}
		}
		return reqOf(rs.node)
	}
	render := func(rs rawSite) kindedSite {
		line := fmt.Sprintf("mkA %s %s %s %s %s %s %v %v %v %s", coqStr(rs.v), coqStr(rs.node.name), coqStr(siteCtx(rs)),
			kindStr(rs), rs.locks.coq(), siteReq(rs).coq(), rs.fresh, rs.ctor, rs.preGo, coqStrList(siteRoots(rs)))
		return kindedSite{line: line, key: []string{rs.v, rs.node.name, siteCtx(rs), kindStr(rs), rs.locks.coq(), line}, rs: rs}
	}

	if len(locate) > 0 {
		type jsite struct {
			Loc    string      `json:"loc"`
			Var    string      `json:"var"`
			Fn     string      `json:"fn"`
			Ctx    string      `json:"ctx"`
			Kind   string      `json:"kind"`
			Method string      `json:"method"`
			Locks  [][2]string `json:"locks"`
			Req    [][2]string `json:"req"`
			Fresh  bool        `json:"fresh"`
			Ctor   bool        `json:"ctor"`
			PreGo  bool        `json:"pre_go"`
		}
		out := []jsite{}
		seen := map[string]bool{}
		for _, loc := range locate {
			i := strings.LastIndex(loc, ":")
			if i < 0 {
				fatal("bad -locate %q", loc)
			}
			ln, err := strconv.Atoi(loc[i+1:])
			if err != nil {
				fatal("bad -locate %q", loc)
			}
			file := loc[:i]
			if filepath.IsAbs(file) {
				if r, err := filepath.EvalSymlinks(file); err == nil {
					file = r
				}
				file = a.rel(file)
			}
			file = filepath.ToSlash(filepath.Clean(file))
			for _, rs := range a.raw {
				if rs.file != file || rs.line != ln {
					continue
				}
				j := jsite{Loc: loc, Var: rs.v, Fn: rs.node.name, Ctx: siteCtx(rs), Kind: rs.kind, Method: rs.m,
					Locks: rs.locks.pairs(), Req: siteReq(rs).pairs(), Fresh: rs.fresh, Ctor: rs.ctor, PreGo: rs.preGo}
				b, _ := json.Marshal(j)
				if seen[string(b)] {
					continue
				}
				seen[string(b)] = true
				out = append(out, j)
			}
		}
		b, _ := json.MarshalIndent(out, "", " ")
		fmt.Println(string(b))
		return
	}

	seenLine := map[string]bool{}
	var all []kindedSite
	for _, rs := range a.raw {
		k := render(rs)
		if seenLine[k.line] {
			continue
		}
		seenLine[k.line] = true
		all = append(all, k)
	}
	sort.Slice(all, func(i, j int) bool {
		for x := range all[i].key {
			if all[i].key[x] != all[j].key[x] {
				return all[i].key[x] < all[j].key[x]
			}
		}
		return false
	})
	for _, k := range all {
		vi := a.vars[k.rs.v]
		vi.sites++
		switch k.rs.kind {
		case "KWrite", "KAddr":
			if !k.rs.fresh && !k.rs.ctor {
				vi.writes++
			}
		case "KAtomicR", "KAtomicW":
			vi.atomics++
		case "KCall":
			vi.calls++
		}
		switch k.rs.kind {
		case "KWrite", "KAddr", "KAtomicW", "KCall":
			// (path variables) a_ctor does not excuse the site: what is
			// behind a pointer field need not belong to the object under
			// construction; only a fresh base object does
			if !k.rs.fresh {
				vi.pathw++
			}
		}
	}
	extra := map[string]bool{}
	for _, l := range strings.Split(extraVarsTxt, "\n") {
		if i := strings.Index(l, "#"); i >= 0 {
			l = l[:i]
		}
		if l = strings.TrimSpace(l); l != "" {
			extra[l] = true
		}
	}
	mutableExt := func(p string) bool {
		return strings.HasPrefix(p, "container/") || p == "bytes" || p == "strings" || p == "math/rand" || p == "bufio"
	}
	interesting := map[string]bool{}
	var varNames []string
	for name, vi := range a.vars {
		varNames = append(varNames, name)
		if vi.class == "path" {
			// a field behind a pointer field: interesting iff mutated
			// through an object that is not fresh
			if vi.pathw > 0 || extra[name] {
				interesting[name] = true
			}
			continue
		}
		if vi.writes > 0 || vi.atomics > 0 || (vi.calls > 0 && (mutableExt(vi.extPkg) || vi.opaque)) || extra[name] {
			interesting[name] = true
		}
	}
	sort.Strings(varNames)
	var emit []kindedSite
	for _, k := range all {
		if interesting[k.rs.v] {
			emit = append(emit, k)
		}
	}
	var unres [][2]string
	for u := range a.unres {
		unres = append(unres, u)
	}
	sort.Slice(unres, func(i, j int) bool {
		if unres[i][0] != unres[j][0] {
			return unres[i][0] < unres[j][0]
		}
		return unres[i][1] < unres[j][1]
	})
	var reqs []*fnode
	for _, n := range a.nodes {
		if n.kind == "decl" && len(n.req) > 0 {
			reqs = append(reqs, n)
		}
	}
	sort.Slice(reqs, func(i, j int) bool { return reqs[i].name < reqs[j].name })

	// the constructors by name, and the call sites of the init functions
	var ctorFns []string
	seenCtor := map[string]bool{}
	var initFnCalls [][3]string
	seenCall := map[[3]string]bool{}
	for _, n := range a.nodes {
		if (n.kind == "decl" || n.kind == "pseudo") && n.ctor && !n.ctorByCallers && !seenCtor[n.name] {
			seenCtor[n.name] = true
			ctorFns = append(ctorFns, n.name)
		}
		if n.initFn {
			for _, cs := range n.sites {
				k := [3]string{n.name, cs.caller.display(), strconv.FormatBool(cs.preGo)}
				if !seenCall[k] {
					seenCall[k] = true
					initFnCalls = append(initFnCalls, k)
				}
			}
		}
	}
	sort.Strings(ctorFns)
	sort.Slice(initFnCalls, func(i, j int) bool {
		for x := 0; x < 3; x++ {
			if initFnCalls[i][x] != initFnCalls[j][x] {
				return initFnCalls[i][x] < initFnCalls[j][x]
			}
		}
		return false
	})

	if *dump {
		for _, k := range all {
			mark := " "
			if interesting[k.rs.v] {
				mark = "*"
			}
			rs := k.rs
			kd := rs.kind
			if rs.m != "" {
				kd += " " + rs.m
			}
			fmt.Printf("%s %s | %s | %s | %s | locks=%s req=%s | fresh=%v ctor=%v pre_go=%v | %s\n", mark, rs.v, rs.node.name, siteCtx(rs), kd,
				rs.locks.coq(), siteReq(rs).coq(), rs.fresh, rs.ctor, rs.preGo, strings.Join(siteRoots(rs), " "))
		}
		fmt.Println("---- field_summary (class writes atomics calls sites)")
		for _, n := range varNames {
			vi := a.vars[n]
			fmt.Printf("%s %s %d %d %d %d\n", n, vi.class, vi.writes, vi.atomics, vi.calls, vi.sites)
		}
		fmt.Println("---- fn_requires")
		for _, n := range reqs {
			fmt.Printf("%s %s\n", n.name, n.req.coq())
		}
		fmt.Println("---- (informational) fn_requires with the opposite setting of -strictreq")
		for _, l := range reqNoCtor {
			fmt.Println(l)
		}
		fmt.Println("---- unresolved_calls")
		for _, u := range unres {
			fmt.Printf("%s %s\n", u[0], u[1])
		}
		fmt.Println("---- goroutine_roots")
		for _, r := range goRoots {
			fmt.Println(r)
		}
		fmt.Println("---- lock operations that are not balanced lexically")
		var an []string
		for x := range a.anomalies {
			an = append(an, x)
		}
		sort.Strings(an)
		for _, x := range an {
			fmt.Println(x)
		}
		fmt.Println("---- constructors by callers (unexported, every static caller is a constructor)")
		for _, c := range ctorByCallers {
			fmt.Println(c)
		}
		fmt.Println("---- constructors by name")
		for _, c := range ctorFns {
			fmt.Println(c)
		}
		fmt.Println("---- init_fns and their static call sites (function, caller, pre_go)")
		for _, c := range initFns {
			if n := a.nodeByName(c); n == nil {
				fmt.Println(c, "NOT FOUND")
			}
		}
		for _, c := range initFnCalls {
			fmt.Println(c[0], c[1], c[2])
		}
		fmt.Println("---- callers_of")
		for _, c := range callersOf {
			fmt.Println(c.name, strings.Join(c.uses, " "))
		}
		fmt.Println("---- extra edges (extra_edges.txt, expanded)")
		for _, e := range extraEdges {
			fmt.Println(e[0], "->", e[1])
		}
		fmt.Println("---- function-typed parameters that are only called (literals passed there are sync)")
		var pk []string
		for k, t := range a.params {
			if t.ok {
				pk = append(pk, k)
			}
		}
		sort.Strings(pk)
		for _, k := range pk {
			fmt.Println(k)
		}
		fmt.Println("---- cond aliases")
		var cns []string
		for c := range a.condAlias {
			cns = append(cns, c)
		}
		sort.Strings(cns)
		for _, c := range cns {
			var l []string
			for n := range a.condAlias[c] {
				l = append(l, n)
			}
			sort.Strings(l)
			fmt.Printf("%s -> %s\n", c, strings.Join(l, " "))
		}
		fmt.Println("---- roots: number of functions (FuncDecls) reached")
		for _, r := range rootNames {
			if strings.HasPrefix(r, "go:") || strings.HasPrefix(r, "cb:") {
				fmt.Printf("%s %d\n", r, rootReach[r])
			}
		}
		return
	}

	o := &bytes.Buffer{}
	list := func(name, typ string, items []string) {
		if len(items) == 0 {
			fmt.Fprintf(o, "Definition %s : %s := [].\n", name, typ)
			return
		}
		fmt.Fprintf(o, "Definition %s : %s := [\n", name, typ)
		for i, s := range items {
			sep := ";"
			if i == len(items)-1 {
				sep = ""
			}
			fmt.Fprintf(o, "  %s%s\n", s, sep)
		}
		fmt.Fprintln(o, "].")
	}
	fmt.Fprintln(o, "(* GENERATED by harness/cmd/genaccess from the type-checked source of the neutrino checkout. Do not edit. *)")
	fmt.Fprintln(o, "From Coq Require Import String List.")
	fmt.Fprintln(o, "From Verif Require Import C18.AccessTypes.")
	fmt.Fprintln(o, "Import ListNotations.")
	fmt.Fprintln(o, "Open Scope string_scope.")
	nsharedInt, npath, npathInt := 0, 0, 0
	for name, vi := range a.vars {
		if vi.class == "path" {
			npath++
		}
		if interesting[name] {
			switch vi.class {
			case "local":
				nsharedInt++
			case "path":
				npathInt++
			}
		}
	}
	fmt.Fprintf(o, "(* %d packages, %d functions, %d literals, %d variables (%d of them shared locals, %d interesting; %d path variables, %d interesting), %d interesting, %d sites, %d unresolved calls; synchronous higher-order callees: %s *)\n",
		a.npkgs, nfuncs, a.nlits, len(varNames), a.nshared, nsharedInt, npath, npathInt, len(interesting), len(emit), len(unres), syncCalleesDoc)
	var items []string
	for _, k := range emit {
		items = append(items, k.line)
	}
	list("access_sites", "list asite", items)
	items = nil
	for _, n := range varNames {
		vi := a.vars[n]
		items = append(items, fmt.Sprintf("mkF %s %s %d %d %d %d", coqStr(n), coqStr(vi.class), vi.writes, vi.atomics, vi.calls, vi.sites))
	}
	list("field_summary", "list fsum", items)
	items = nil
	for _, n := range reqs {
		items = append(items, fmt.Sprintf("(%s, %s)", coqStr(n.name), n.req.coq()))
	}
	list("fn_requires", "list (string * list (string * lmode))", items)
	items = nil
	for _, u := range unres {
		items = append(items, fmt.Sprintf("(%s, %s)", coqStr(u[0]), coqStr(u[1])))
	}
	list("unresolved_calls", "list (string * string)", items)
	items = nil
	for _, r := range goRoots {
		items = append(items, coqStr(r))
	}
	fmt.Fprintln(o, "(* all \"go:\" roots, sorted *)")
	list("goroutine_roots", "list string", items)
	fmt.Fprintln(o, "(* unexported functions all of whose static callers are constructors: a_ctor by closure *)")
	items = nil
	for _, c := range ctorByCallers {
		items = append(items, coqStr(c))
	}
	list("ctor_by_callers", "list string", items)
	fmt.Fprintln(o, "(* a_ctor by name: init, New… / new… returning a type of the checkout, and the package-level initialisers (file.go:init) *)")
	items = nil
	for _, c := range ctorFns {
		items = append(items, coqStr(c))
	}
	list("ctor_fns", "list string", items)
	fmt.Fprintln(o, "(* init_fns.txt, and every static call site of these functions: (function, caller fn[/ctx], a_pre_go at the call) *)")
	items = nil
	for _, c := range initFns {
		items = append(items, coqStr(c))
	}
	list("init_fns", "list string", items)
	items = nil
	for _, c := range initFnCalls {
		items = append(items, fmt.Sprintf("(%s, %s, %v)", coqStr(c[0]), coqStr(c[1]), c[2] == "true"))
	}
	list("init_fn_calls", "list (string * string * bool)", items)
	fmt.Fprintln(o, "(* extra_edges.txt, expanded: call edges connected by hand (caller, callee) *)")
	items = nil
	for _, e := range extraEdges {
		items = append(items, fmt.Sprintf("(%s, %s)", coqStr(e[0]), coqStr(e[1])))
	}
	list("extra_edges", "list (string * string)", items)
	fmt.Fprintln(o, "(* callers_of.txt: every use of these functions in the checkout: call: / icall: (interface dispatch that can reach it) / go: / ref: (used as a value) / edge: (extra_edges.txt) + the using function[/ctx] *)")
	items = nil
	for _, c := range callersOf {
		items = append(items, fmt.Sprintf("(%s, %s)", coqStr(c.name), coqStrList(c.uses)))
	}
	list("callers_of", "list (string * list string)", items)
	items = nil
	for _, t := range readList(opaqueTypesTxt) {
		items = append(items, coqStr(t))
	}
	list("opaque_types", "list string", items)
	items = nil
	for _, t := range readList(privateTypesTxt) {
		items = append(items, coqStr(t))
	}
	list("private_types", "list string", items)
	os.Stdout.Write(o.Bytes())
}

type multiFlag []string

func (m *multiFlag) String() string     { return strings.Join(*m, ",") }
func (m *multiFlag) Set(s string) error { *m = append(*m, s); return nil }
