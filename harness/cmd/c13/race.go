// BAN-VS-REGISTRATION family of the C13 harness (enforcement half): a
// misbehaviour report for address B (ChainService.BanPeer) is made to land
// at chosen points of the registration of a new connection to B, on a real
// ChainService talking to two scripted nodes (internal/netsim): the control
// node C and node B, which holds back its verack until told.
//
// The orders are pinned without hooks and without sleeps:
//
//	held       B's verack is released; the ban-status lookup the ChainService
//	           makes for the new peer runs, and its RETURN is held by a
//	           database wrapper (netsim.HoldDB; the lookup is recognised by
//	           its call stack: ChainService.IsBanned called from package
//	           neutrino).  BanPeer(B) is called and has returned; BanPeer's
//	           own peer-table query has either completed or is parked waiting
//	           for the goroutine that is being held (goroutine states read
//	           with runtime.Stack).  Then the lookup is released.
//	prehold    the same, the lookup is held BEFORE its transaction runs
//	ban-first  BanPeer(B) completes (its query too) while B's handshake is
//	           unfinished; then the verack is released
//	reg-first  the verack is released, B is registered (PeerByAddr), then
//	           BanPeer(B)
//
// Expectation, every order: BanPeer returned nil, and within raceBound the
// system is quiescent with IsBanned(B) && B not connected (not in the peer
// table as a connected peer, no open socket at B); C untouched.  Coq side:
// C13.Enforce (interleaving model), C13.ReplayE.run_rcases (model prediction
// for the order incl. whether BanPeer's query had to wait; monitor), theorems
// in C13/PropertiesE.v.
//
// The family needs the process to itself as far as ChainService.BanPeer is
// concerned (BanPeer's query goroutine is found by name): it runs before the
// public family starts, one scenario at a time.
package main

import (
	"fmt"
	"os"
	"path/filepath"
	"runtime"
	"strings"
	"time"

	"github.com/btcsuite/btcwallet/walletdb"
	"github.com/lightninglabs/neutrino/banman"

	c "verifharness/internal/common"
	ns "verifharness/internal/netsim"
)

const raceIDBase = 200000

// raceBound is how long after the last pinned step the ban may take to be
// enforced.
const raceBound = 5 * time.Second

var raceOrders = []string{"held", "prehold", "ban-first", "reg-first"}

// RaceCase is one scenario and its observations.
type RaceCase struct {
	ID    int    `json:"id"`
	Race  bool   `json:"race"`
	Order int    `json:"order"`
	Name  string `json:"name"`
	// observations
	LookupCaller  string `json:"lookup_caller,omitempty"`   // who looked the ban up for the new peer
	OnPeerHandler bool   `json:"on_peer_handler,omitempty"` // ... on the peerHandler goroutine
	Waited        bool   `json:"ban_query_waited"`          // BanPeer's peer-table query had to wait for the held lookup
	Banned        bool   `json:"banned"`
	Connected     bool   `json:"connected"` // connected peer in the table, or open socket at B
	InTable       bool   `json:"in_table"`
	LiveAtB       int    `json:"live_at_b"`
	QuiesceMs     int64  `json:"quiesce_ms"`
	Done          bool   `json:"done"`
	Fail          string `json:"fail,omitempty"`
	FailTag       string `json:"fail_tag,omitempty"`
}

// banQueryState looks for the goroutine BanPeer starts to find and
// disconnect the peer: gone (its query was answered), parked in the select
// of ChainService.Peers, or something else (not scheduled yet, running).
func banQueryState() (exists, parked bool) {
	buf := make([]byte, 4<<20)
	buf = buf[:runtime.Stack(buf, true)]
	for _, g := range strings.Split(string(buf), "\n\n") {
		if !strings.Contains(g, "neutrino.(*ChainService).BanPeer.func") {
			continue
		}
		exists = true
		head := g
		if i := strings.IndexByte(g, '\n'); i >= 0 {
			head = g[:i]
		}
		if strings.Contains(head, "[select") && strings.Contains(g, "neutrino.(*ChainService).Peers") {
			parked = true
		}
	}
	return
}

// awaitBanQuery waits until BanPeer's query goroutine is gone (returns
// false) or — only possible when the goroutine that answers it is the one
// being held — parked waiting for it (returns true).
func awaitBanQuery(handlerHeld bool, d time.Duration) (waited, settled bool) {
	end := time.Now().Add(d)
	for {
		exists, parked := banQueryState()
		switch {
		case !exists:
			return false, true
		case parked && handlerHeld:
			return true, true
		}
		if time.Now().After(end) {
			return parked, false
		}
		time.Sleep(time.Millisecond)
	}
}

func runRace(rc *RaceCase, work string, tipUnix int64) {
	fail := func(tag, f string, a ...any) {
		if rc.Fail == "" {
			rc.Fail, rc.FailTag = fmt.Sprintf(f, a...), tag
		}
	}
	dir, err := os.MkdirTemp(work, fmt.Sprintf("race%d-", rc.ID))
	if err != nil {
		panic(err)
	}
	defer os.RemoveAll(dir)
	ch := ns.CachedChain(7, 24, time.Unix(tipUnix, 0), 0.3)
	nt := ns.NewNet()
	nodeC := nt.AddAt("198.51.100.2:18555", ch, ns.Behaviour{})
	nodeB := nt.AddAt("203.0.113.7:18555", ch, ns.Behaviour{HoldVerack: true})
	defer nt.Shutdown()
	hdb := &ns.HoldDB{}
	cl, err := ns.NewClient(dir, nt, nt.Addrs(), 8*time.Second, false,
		ns.ClientOpts{WrapDB: func(db walletdb.DB) walletdb.DB { hdb.DB = db; return hdb }})
	if err != nil {
		fail("setup", "setup: %v", err)
		return
	}
	if err := cl.Start(); err != nil {
		fail("setup", "setup: %v", err)
		cl.CloseDB()
		return
	}
	release := func() {}
	defer func() {
		release()
		nodeB.ReleaseVerack()
		if ret, _, _ := cl.StopWithin(20 * time.Second); !ret {
			fail("stop-hang", "ChainService.Stop did not return within 20s")
			return
		}
		cl.CloseDB()
	}()
	cs := cl.CS
	connected := func(addr string) (inTable, conn bool) {
		sp := cs.PeerByAddr(addr)
		return sp != nil, sp != nil && sp.Connected()
	}
	if !ns.WaitUntil(15*time.Second, func() bool {
		_, ok := connected(nodeC.Addr)
		return ok && nodeB.AwaitingVerack() >= 1
	}) {
		fail("setup", "setup: control peer not connected / B's handshake not begun")
		return
	}
	ban := func() bool {
		if err := cs.BanPeer(nodeB.Addr, banman.InvalidFilterHeader); err != nil {
			fail("banpeer-error", "BanPeer(B) failed: %v", err)
			return false
		}
		return true
	}
	switch rc.Order {
	case 0, 1:
		mode := ns.HoldAfter
		if rc.Order == 1 {
			mode = ns.HoldBefore
		}
		var paused <-chan ns.HoldInfo
		paused, release = hdb.Arm(mode)
		nodeB.ReleaseVerack()
		var info ns.HoldInfo
		select {
		case info = <-paused:
		case <-time.After(15 * time.Second):
			hdb.Disarm()
			fail("no-registration-lookup", "no ban-status lookup was made for the new connection to B within 15s of its verack")
			return
		}
		rc.LookupCaller, rc.OnPeerHandler = info.Caller, info.OnPeerHandler
		if !ban() {
			return
		}
		// BanPeer has returned: the record is stored; its query goroutine
		// exists.  Let it get as far as it can.
		waited, settled := awaitBanQuery(info.OnPeerHandler, raceBound)
		rc.Waited = waited
		if !settled {
			fail("ban-query-stuck", "BanPeer's peer-table query neither completed nor is it waiting for the held lookup")
			return
		}
		release()
	case 2:
		if !ban() {
			return
		}
		if waited, settled := awaitBanQuery(false, raceBound); !settled {
			rc.Waited = waited
			fail("ban-query-stuck", "BanPeer's peer-table query did not complete although nothing is held")
			return
		}
		nodeB.ReleaseVerack()
	case 3:
		nodeB.ReleaseVerack()
		if !ns.WaitUntil(15*time.Second, func() bool { in, _ := connected(nodeB.Addr); return in }) {
			fail("setup", "setup: B was not registered within 15s of its verack")
			return
		}
		if !ban() {
			return
		}
		if waited, settled := awaitBanQuery(false, raceBound); !settled {
			rc.Waited = waited
			fail("ban-query-stuck", "BanPeer's peer-table query did not complete although nothing is held")
			return
		}
	}
	// quiescence: the ban is enforced, or the bound passes
	t0 := time.Now()
	ns.WaitUntil(raceBound, func() bool {
		in, conn := connected(nodeB.Addr)
		rc.InTable, rc.LiveAtB = in, nodeB.Live()
		rc.Banned = cs.IsBanned(nodeB.Addr)
		rc.Connected = conn || rc.LiveAtB > 0
		return rc.Banned && !rc.Connected
	})
	rc.QuiesceMs = time.Since(t0).Milliseconds()
	rc.Done = true
	if _, ok := connected(nodeC.Addr); !ok || cs.IsBanned(nodeC.Addr) {
		fail("control-affected", "control peer C: connected=%v banned=%v", ok, cs.IsBanned(nodeC.Addr))
	}
}

// raceSection writes the cases, fills the report and returns the Gallina
// definition of the race cases.
func raceSection(rs []RaceCase, rep *c.Report, out string, nontrivial c.Signatures) string {
	var items []string
	for i := range rs {
		r := &rs[i]
		path := filepath.Join(out, fmt.Sprintf("hist-%d.json", r.ID))
		c.WriteJSON(path, r)
		rep.Cases[fmt.Sprint(r.ID)] = path
		if r.Fail != "" {
			rep.ImplFailures = append(rep.ImplFailures, c.ImplFailure{Case: fmt.Sprint(r.ID), Step: r.Order,
				What: "ban-vs-registration (" + r.Name + "): " + r.Fail, Tag: r.FailTag})
		}
		if !r.Done {
			continue
		}
		items = append(items, fmt.Sprintf("(%d, (%d, %s, %s, %s))", r.ID, r.Order, c.Bool(r.Waited), c.Bool(r.Banned), c.Bool(r.Connected)))
		nontrivial.Add("race:" + r.Name)
		rep.Histogram["race:"+r.Name]++
		if r.Waited {
			rep.Histogram["race-ban-query-waited"]++
		}
	}
	return "Definition rcases : list (Z * rcase) := [\n" + strings.Join(items, ";\n") + "].\n"
}
