// PUBLIC-ENTRY family of the C13 harness: histories of
// ChainService.IsBanned / BanPeer / UnbanPeer on a real ChainService (real
// bbolt ban store, no peers), over the same spelling generator as the store
// histories.  An address is looked up under several textual forms BEFORE it
// is banned under another one (whatever the public layer remembers about an
// address string is primed), and under all of them again after every ban,
// unban and lapse.  The Coq side (C13.Replay.run_pcases) runs the model of the
// public layer (pstep: parse, then the store) and the monitor pholds: every
// IsBanned answer must be the banned bit the store specification gives the
// network that the address denotes (C13_public_status_is_store_status).
package main

import (
	"fmt"
	"math/rand"
	"net"
	"os"
	"path/filepath"
	"strings"
	"time"

	"github.com/lightninglabs/neutrino"
	"github.com/lightninglabs/neutrino/banman"

	c "verifharness/internal/common"
	ns "verifharness/internal/netsim"
)

const pubIDBase = 100000

// pubBan is the ban duration of public histories (neutrino.BanDuration is a
// package variable): short, so that lapses occur inside a history.
const pubBan = 1200 * time.Millisecond

// PubOp is one public call (JSON form, replayable) and its observation.
type PubOp struct {
	Kind   string `json:"kind"` // isbanned|banpeer|unbanpeer|sleep
	Addr   string `json:"addr,omitempty"`
	Reason uint8  `json:"reason,omitempty"`
	DurMs  int64  `json:"dur_ms,omitempty"` // sleep
	// observations
	Parsed []byte `json:"parsed,omitempty"` // net.ParseIP of the host part
	Now    int64  `json:"now,omitempty"`
	BanNs  int64  `json:"ban_ns,omitempty"` // neutrino.BanDuration at the call
	Obs    string `json:"obs,omitempty"`    // ans|ok|err
	Banned bool   `json:"banned,omitempty"`
}

// PubHistory is a history of public calls on one ChainService.
type PubHistory struct {
	ID     int     `json:"id"`
	Public bool    `json:"public"`
	Ops    []PubOp `json:"ops"`
	Fail   string  `json:"fail,omitempty"` // setup / stop failure
}

var junkAddrs = []string{"not-an-ip", "liar.test:18444", "localhost:18555", "localhost", "abcdefghijklmnop.onion:8333", ""}

func genPublic(r *rand.Rand, id int, nops int, timed bool) PubHistory {
	h := PubHistory{ID: id, Public: true}
	// two or three target addresses, IPv4 and IPv6, of this history alone
	// (all public histories of a run share one ChainService)
	j := id - pubIDBase
	own4 := func() net.IP { return net.IPv4(10, 64+byte(j>>8), byte(j), byte(3+r.Intn(2))) }
	own6 := func() net.IP {
		return net.ParseIP(fmt.Sprintf("%s:%x::%d", []string{"2001:db8", "fe80:0:abcd"}[r.Intn(2)], j+1, 1+r.Intn(2)))
	}
	var targets []net.IP
	targets = append(targets, own4(), own6())
	if r.Intn(2) == 0 {
		if r.Intn(2) == 0 {
			targets = append(targets, own4())
		} else {
			targets = append(targets, own6())
		}
	}
	used := make([][]string, len(targets))
	form := func(t int, fresh bool) string {
		if !fresh && len(used[t]) > 0 {
			return used[t][r.Intn(len(used[t]))]
		}
		a := spell(r, targets[t])
		for _, u := range used[t] {
			if u == a {
				return a
			}
		}
		used[t] = append(used[t], a)
		return a
	}
	lookupAll := func(t int) {
		for _, a := range used[t] {
			h.Ops = append(h.Ops, PubOp{Kind: "isbanned", Addr: a})
		}
	}
	// prime: every target is looked up under a few forms while not banned
	for t := range targets {
		for k := 2 + r.Intn(3); k > 0; k-- {
			h.Ops = append(h.Ops, PubOp{Kind: "isbanned", Addr: form(t, true)})
		}
	}
	sleeps := 0
	for len(h.Ops) < nops {
		t := r.Intn(len(targets))
		switch x := r.Intn(100); {
		case x < 40:
			h.Ops = append(h.Ops, PubOp{Kind: "isbanned", Addr: form(t, r.Intn(10) < 3)})
		case x < 62:
			h.Ops = append(h.Ops, PubOp{Kind: "banpeer", Addr: form(t, r.Intn(2) == 0), Reason: uint8(1 + r.Intn(5))})
			if r.Intn(10) < 8 {
				lookupAll(t)
			}
		case x < 74:
			h.Ops = append(h.Ops, PubOp{Kind: "unbanpeer", Addr: form(t, r.Intn(2) == 0)})
			if r.Intn(10) < 8 {
				lookupAll(t)
			}
		case x < 80:
			h.Ops = append(h.Ops, PubOp{Kind: "isbanned", Addr: junkAddrs[r.Intn(len(junkAddrs))]})
		case x < 84:
			k := "banpeer"
			if r.Intn(3) == 0 {
				k = "unbanpeer"
			}
			h.Ops = append(h.Ops, PubOp{Kind: k, Addr: junkAddrs[r.Intn(len(junkAddrs))], Reason: 1})
		default:
			if timed && sleeps < 4 {
				sleeps++
				h.Ops = append(h.Ops, PubOp{Kind: "sleep", DurMs: int64(300 + r.Intn(500))})
				if r.Intn(2) == 0 {
					lookupAll(t)
				}
			}
		}
	}
	return h
}

// fixedPublic is the regression history of the family: every form of one
// IPv4 and one IPv6 address is looked up, the address is banned under one
// more form, everything is looked up again; then unbanned (yet another form),
// looked up, banned again, and looked up after the lapse.
func fixedPublic(id int) PubHistory {
	h := PubHistory{ID: id, Public: true}
	groups := [][]string{
		{"203.0.113.9", "203.0.113.9:8333", "::ffff:203.0.113.9", "[::ffff:203.0.113.9]:18555",
			"0:0:0:0:0:ffff:cb00:7109", "[0:0:0:0:0:FFFF:CB00:7109]:1"},
		{"2001:db8::9", "[2001:db8::9]:8333", "2001:0DB8:0000:0000:0000:0000:0000:0009",
			"[2001:db8:0:0:0:0:0:9]:18555", "2001:DB8::9"},
	}
	banForm := []string{"203.0.113.9:18444", "[2001:db8::9]:18444"}
	unbanForm := []string{"::ffff:cb00:7109", "2001:db8:0::9"}
	all := func(g int) {
		for _, a := range groups[g] {
			h.Ops = append(h.Ops, PubOp{Kind: "isbanned", Addr: a})
		}
	}
	for g := range groups {
		all(g)
		h.Ops = append(h.Ops, PubOp{Kind: "banpeer", Addr: banForm[g], Reason: 2})
		all(g)
		h.Ops = append(h.Ops, PubOp{Kind: "isbanned", Addr: banForm[g]})
		h.Ops = append(h.Ops, PubOp{Kind: "unbanpeer", Addr: unbanForm[g]})
		all(g)
		h.Ops = append(h.Ops, PubOp{Kind: "banpeer", Addr: groups[g][1], Reason: 3})
		all(g)
	}
	h.Ops = append(h.Ops, PubOp{Kind: "sleep", DurMs: pubBan.Milliseconds() + 1100})
	all(0)
	all(1)
	return h
}

// pubEnv is the ChainService all public histories of a run share: building
// one takes ~0.2 s under a process-wide lock, the calls themselves
// microseconds.  Histories use disjoint addresses and the public entries
// always address single-IP networks, so every history sees exactly the store
// records of its own calls (the model runs each from the empty store), while
// the ChainService is used from many goroutines at once.
type pubEnv struct {
	dir  string
	cl   *ns.Client
	fail string
}

func newPubEnv(work string) *pubEnv {
	e := &pubEnv{}
	d, err := os.MkdirTemp(work, "pub-")
	if err != nil {
		panic(err)
	}
	e.dir = d
	cl, err := ns.NewClient(d, ns.NewNet(), nil, 200*time.Millisecond, false)
	if err != nil {
		e.fail = "setup: " + err.Error()
		return e
	}
	if err := cl.Start(); err != nil {
		e.fail = "setup: " + err.Error()
		cl.CloseDB()
		return e
	}
	e.cl = cl
	return e
}

// close stops the ChainService; it returns a failure text if Stop hangs.
func (e *pubEnv) close() string {
	defer os.RemoveAll(e.dir)
	if e.cl == nil {
		return ""
	}
	if ret, _, _ := e.cl.StopWithin(20 * time.Second); !ret {
		return "stop: ChainService.Stop did not return within 20s"
	}
	e.cl.CloseDB()
	return ""
}

// runPublic executes h on the shared ChainService.
func runPublic(h *PubHistory, cs *neutrino.ChainService) {
	for i := range h.Ops {
		op := &h.Ops[i]
		if op.Kind == "sleep" {
			time.Sleep(time.Duration(op.DurMs) * time.Millisecond)
			continue
		}
		host, _, e := net.SplitHostPort(op.Addr)
		if e != nil {
			host = op.Addr
		}
		op.Parsed = net.ParseIP(host)
		dur := int64(neutrino.BanDuration)
		op.BanNs = dur
		for try := 0; ; try++ {
			t0 := time.Now().UnixNano()
			var err error
			var ans bool
			switch op.Kind {
			case "isbanned":
				ans = cs.IsBanned(op.Addr)
			case "banpeer":
				err = cs.BanPeer(op.Addr, banman.Reason(op.Reason))
			case "unbanpeer":
				// UnbanPeer also asks the connection manager to connect to
				// the address; the simulated network is empty, the dial
				// fails, nothing else happens.
				err = cs.UnbanPeer(op.Addr, false)
			}
			t1 := time.Now().UnixNano()
			amb := false
			switch op.Kind {
			case "banpeer":
				amb = floorDiv(t0+dur, 1e9) != floorDiv(t1+dur, 1e9)
			case "isbanned":
				amb = floorDiv(t0, 1e9) != floorDiv(t1, 1e9)
			}
			if amb && try < 5 {
				continue
			}
			op.Now = t0
			switch {
			case op.Kind == "isbanned":
				op.Obs, op.Banned = "ans", ans
			case err != nil:
				op.Obs = "err"
			default:
				op.Obs = "ok"
			}
			break
		}
	}
}

// pubCaseTerm renders the trace of a public history and its signature.
func pubCaseTerm(h *PubHistory) (string, string) {
	var items, sig []string
	for i := range h.Ops {
		op := &h.Ops[i]
		if op.Kind == "sleep" || op.Obs == "" {
			continue
		}
		p := c.Bytes(op.Parsed)
		var o, ob, s string
		switch op.Kind {
		case "isbanned":
			o, ob, s = c.App("PIsBanned", p, c.Z(op.Now)), c.App("PAns", c.Bool(op.Banned)), "q"
			if op.Banned {
				s = "Q"
			}
		case "banpeer":
			o, s = c.App("PBan", p, c.Z(int64(op.Reason)), c.Z(op.Now), c.Z(op.BanNs)), "b"
		case "unbanpeer":
			o, s = c.App("PUnban", p), "u"
		}
		switch op.Obs {
		case "ok":
			ob = "POk"
		case "err":
			ob, s = "PErr", "e"
		}
		items = append(items, c.Pair(o, ob))
		sig = append(sig, s)
	}
	return c.Pair(c.Z(int64(h.ID)), c.List(items)), strings.Join(sig, "")
}

// publicSection writes the histories, fills the report and returns the
// Gallina definition of the public cases.
func publicSection(ps []PubHistory, rep *c.Report, out string, nontrivial c.Signatures) string {
	var sb strings.Builder
	sb.WriteString("Definition pcases : list (Z * list (pop * pobs)) := [\n")
	first := true
	forms := 0
	for i := range ps {
		h := &ps[i]
		path := filepath.Join(out, fmt.Sprintf("hist-%d.json", h.ID))
		c.WriteJSON(path, h)
		rep.Cases[fmt.Sprint(h.ID)] = path
		if h.Fail != "" {
			tag := "setup"
			if strings.HasPrefix(h.Fail, "stop") {
				tag = "stop-hang"
			}
			rep.ImplFailures = append(rep.ImplFailures, c.ImplFailure{Case: fmt.Sprint(h.ID), What: "public family: " + h.Fail, Tag: tag})
			if tag == "setup" {
				continue
			}
		}
		t, sig := pubCaseTerm(h)
		if !first {
			sb.WriteString(";\n")
		}
		first = false
		sb.WriteString(t)
		// non-trivial: an address answered banned and answered not banned,
		// with a ban in between
		if strings.Contains(sig, "b") && strings.Contains(sig, "Q") && strings.Contains(sig, "q") {
			nontrivial.Add("pub:" + sig)
		}
		for _, ch := range sig {
			rep.Histogram["pub-op:"+string(ch)]++
		}
		seen := map[string]bool{}
		for j := range h.Ops {
			if h.Ops[j].Addr != "" && h.Ops[j].Parsed != nil && !seen[h.Ops[j].Addr] {
				seen[h.Ops[j].Addr] = true
				forms++
			}
		}
	}
	sb.WriteString("].\n")
	rep.Histogram["pub-histories"] = len(ps)
	rep.Histogram["pub-distinct-address-forms"] = forms
	return sb.String()
}
