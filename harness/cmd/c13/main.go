// Correspondence harness for C13: drives the real banman package (bbolt
// backed store, codec, ParseIPNet) with generated histories and writes the
// observations as a Coq cases file for Verif.C13.Replay.
package main

import (
	"bytes"
	"encoding/json"
	"fmt"
	"math/rand"
	"net"
	"os"
	"path/filepath"
	"sort"
	"strings"
	"sync"
	"time"

	"github.com/btcsuite/btcwallet/walletdb"
	_ "github.com/btcsuite/btcwallet/walletdb/bdb"
	"github.com/lightninglabs/neutrino"
	"github.com/lightninglabs/neutrino/banman"

	c "verifharness/internal/common"
)

// Op is one operation of a history (JSON form, replayable).
type Op struct {
	Kind   string `json:"kind"` // ban|unban|status|reopen|sleep
	Addr   string `json:"addr,omitempty"`
	Mask   []byte `json:"mask,omitempty"` // nil = default
	Raw    bool   `json:"raw,omitempty"`  // build net.IPNet by hand with a 4-byte IP
	Reason uint8  `json:"reason,omitempty"`
	DurMs  int64  `json:"dur_ms,omitempty"`
	// observations
	Now    int64  `json:"now,omitempty"`
	Obs    string `json:"obs,omitempty"`
	IP     []byte `json:"ip,omitempty"`
	NMask  []byte `json:"nmask,omitempty"`
	Parsed []byte `json:"parsed,omitempty"`
	PErr   bool   `json:"perr,omitempty"`
	Banned bool   `json:"banned,omitempty"`
	OReas  uint8  `json:"oreason,omitempty"`
	OExp   int64  `json:"oexp,omitempty"`
	// statusban: a ban of the same network committed right after the first
	// database transaction of the Status call (concurrent caller)
	Now2 int64  `json:"now2,omitempty"`
	Obs2 string `json:"obs2,omitempty"`
}

type History struct {
	ID  int  `json:"id"`
	Ops []Op `json:"ops"`
}

var v4pool = []net.IP{
	net.IPv4(10, 1, 2, 3), net.IPv4(10, 1, 2, 4), net.IPv4(192, 168, 0, 1),
	net.IPv4(10, 1, 3, 3),
}
var v6pool = []net.IP{
	net.ParseIP("2001:db8::1"), net.ParseIP("2001:db8::2"),
	net.ParseIP("2001:db8:0:1::1"), net.ParseIP("fe80::abcd:1"),
}

// spellings returns different textual forms of one IP.
func spell(r *rand.Rand, ip net.IP) string {
	if ip4 := ip.To4(); ip4 != nil {
		switch r.Intn(5) {
		case 0:
			return ip4.String()
		case 1:
			return fmt.Sprintf("%s:%d", ip4.String(), 1+r.Intn(65000))
		case 2:
			return "::ffff:" + ip4.String()
		case 3:
			return fmt.Sprintf("[::ffff:%s]:%d", ip4.String(), 1+r.Intn(65000))
		default:
			return fmt.Sprintf("0:0:0:0:0:ffff:%02x%02x:%02x%02x",
				ip4[0], ip4[1], ip4[2], ip4[3])
		}
	}
	ip16 := ip.To16()
	switch r.Intn(4) {
	case 0:
		return ip16.String()
	case 1:
		return fmt.Sprintf("[%s]:%d", ip16.String(), 1+r.Intn(65000))
	case 2:
		parts := make([]string, 8)
		for i := 0; i < 8; i++ {
			parts[i] = fmt.Sprintf("%04X", uint16(ip16[2*i])<<8|uint16(ip16[2*i+1]))
		}
		return strings.Join(parts, ":")
	default:
		parts := make([]string, 8)
		for i := 0; i < 8; i++ {
			parts[i] = fmt.Sprintf("%x", uint16(ip16[2*i])<<8|uint16(ip16[2*i+1]))
		}
		return "[" + strings.Join(parts, ":") + "]:8333"
	}
}

func pickMask(r *rand.Rand, v4 bool) []byte {
	x := r.Intn(10)
	switch {
	case x < 5:
		return nil
	case x < 7:
		if v4 {
			return net.CIDRMask(8*(1+r.Intn(4)), 32)
		}
		return net.CIDRMask(16*(1+r.Intn(8)), 128)
	case x < 8:
		// 16-byte mask for a v4 address (all-ones prefix form)
		if v4 {
			return net.CIDRMask(96+8*(1+r.Intn(4)), 128)
		}
		return net.CIDRMask(64, 128)
	case x < 9:
		// mismatched family: yields a nil IP
		if v4 {
			return net.CIDRMask(64, 128)
		}
		return net.CIDRMask(24, 32)
	default:
		return net.CIDRMask(0, 32)
	}
}

func genHistory(r *rand.Rand, id int, nops int, timed bool) History {
	h := History{ID: id}
	type target struct {
		ip   net.IP
		mask []byte
		v4   bool
	}
	var banned []target
	for len(h.Ops) < nops {
		x := r.Intn(100)
		var ip net.IP
		v4 := r.Intn(2) == 0
		if v4 {
			ip = v4pool[r.Intn(len(v4pool))]
		} else {
			ip = v6pool[r.Intn(len(v6pool))]
		}
		mask := pickMask(r, v4)
		// Queries and unbans mostly aim at a network banned earlier
		// (in a fresh spelling), so that banned answers are common.
		if x >= 35 && len(banned) > 0 && r.Intn(10) < 6 {
			t := banned[r.Intn(len(banned))]
			ip, mask, v4 = t.ip, t.mask, t.v4
		}
		if x < 35 {
			banned = append(banned, target{ip, mask, v4})
		}
		addr := spell(r, ip)
		if r.Intn(40) == 0 {
			addr = "not-an-ip"
		}
		raw := v4 && r.Intn(6) == 0
		switch {
		case x < 35:
			var dur int64
			switch d := r.Intn(10); {
			case d < 5:
				dur = int64(3600_000 + r.Intn(1000000))
			case d < 6:
				dur = -int64(r.Intn(5000))
			case d < 7:
				dur = 0
			default:
				if timed {
					dur = int64(200 + r.Intn(2500))
				} else {
					dur = int64(86400_000) * int64(1+r.Intn(400))
				}
			}
			reason := uint8(1 + r.Intn(5))
			if r.Intn(10) == 0 {
				reason = uint8(r.Intn(256))
			}
			h.Ops = append(h.Ops, Op{Kind: "ban", Addr: addr, Mask: mask, Raw: raw, Reason: reason, DurMs: dur})
		case x < 41 && len(banned) > 0:
			// a query racing with a fresh ban of the same network, often
			// on a record that has lapsed but was not queried since
			t := banned[r.Intn(len(banned))]
			a2 := spell(r, t.ip)
			if r.Intn(2) == 0 {
				h.Ops = append(h.Ops, Op{Kind: "ban", Addr: a2, Mask: t.mask, Reason: 2, DurMs: -int64(1 + r.Intn(3000))})
			}
			h.Ops = append(h.Ops, Op{Kind: "statusban", Addr: spell(r, t.ip), Mask: t.mask, Reason: uint8(1 + r.Intn(5)), DurMs: int64(3600_000 + r.Intn(100000))})
			h.Ops = append(h.Ops, Op{Kind: "status", Addr: spell(r, t.ip), Mask: t.mask})
		case x < 45:
			h.Ops = append(h.Ops, Op{Kind: "unban", Addr: addr, Mask: mask, Raw: raw})
		case x < 90:
			h.Ops = append(h.Ops, Op{Kind: "status", Addr: addr, Mask: mask, Raw: raw})
		case x < 95:
			h.Ops = append(h.Ops, Op{Kind: "reopen"})
		default:
			if timed {
				h.Ops = append(h.Ops, Op{Kind: "sleep", DurMs: int64(100 + r.Intn(900))})
			}
		}
	}
	return h
}

// hookDB lets the harness run something right after the next database
// transaction completes (a concurrent caller slipping in between two
// transactions of one store call).
type hookDB struct {
	walletdb.DB
	afterTx func()
}

func (d *hookDB) fire() {
	if f := d.afterTx; f != nil {
		d.afterTx = nil
		f()
	}
}
func (d *hookDB) View(f func(tx walletdb.ReadTx) error, reset func()) error {
	err := d.DB.View(f, reset)
	d.fire()
	return err
}
func (d *hookDB) Update(f func(tx walletdb.ReadWriteTx) error, reset func()) error {
	err := d.DB.Update(f, reset)
	d.fire()
	return err
}

func openDB(path string) walletdb.DB {
	db, err := walletdb.Open("bdb", path, true, 10*time.Second, false)
	if err != nil {
		db, err = walletdb.Create("bdb", path, true, 10*time.Second, false)
	}
	if err != nil {
		panic(err)
	}
	return db
}

// runHistory executes h on the real code, filling in observations.
func runHistory(h *History, dir string) {
	path := filepath.Join(dir, fmt.Sprintf("ban-%d.db", h.ID))
	os.Remove(path)
	raw := openDB(path)
	db := &hookDB{DB: raw}
	store, err := banman.NewStore(db)
	if err != nil {
		panic(err)
	}
	defer func() { db.DB.Close(); os.Remove(path) }()

	for i := range h.Ops {
		op := &h.Ops[i]
		switch op.Kind {
		case "sleep":
			time.Sleep(time.Duration(op.DurMs) * time.Millisecond)
			continue
		case "reopen":
			db.DB.Close()
			db = &hookDB{DB: openDB(path)}
			store, err = banman.NewStore(db)
			if err != nil {
				op.Obs = "err"
			} else {
				op.Obs = "ok"
			}
			continue
		}
		// Parse.
		host, _, e := net.SplitHostPort(op.Addr)
		if e != nil {
			host = op.Addr
		}
		op.Parsed = net.ParseIP(host)
		var mask net.IPMask
		if op.Mask != nil {
			mask = net.IPMask(op.Mask)
		}
		ipNet, perr := banman.ParseIPNet(op.Addr, mask)
		if perr != nil {
			op.PErr = true
			op.Obs = "parse-err"
			continue
		}
		if op.Raw && ipNet.IP.To4() != nil {
			// the 4-byte form of the same network
			ipNet = &net.IPNet{IP: ipNet.IP.To4(), Mask: ipNet.Mask}
		}
		op.IP = ipNet.IP
		op.NMask = ipNet.Mask
		dur := time.Duration(op.DurMs) * time.Millisecond
		for try := 0; ; try++ {
			if op.Kind == "statusban" {
				// A statusban cannot be retried (the ban of the first
				// attempt would be in the store): start it where
				// neither now nor now+dur is near a second boundary.
				for w := 0; w < 2000; w++ {
					t := time.Now().UnixNano()
					f1 := ((t % 1e9) + 1e9) % 1e9
					f2 := (((t + int64(dur)) % 1e9) + 1e9) % 1e9
					if f1 > 2e7 && f1 < 8e8 && f2 > 2e7 && f2 < 8e8 {
						break
					}
					time.Sleep(5 * time.Millisecond)
				}
			}
			t0 := time.Now().UnixNano()
			var err error
			var st banman.Status
			switch op.Kind {
			case "ban":
				err = store.BanIPNet(ipNet, banman.Reason(op.Reason), dur)
			case "unban":
				err = store.UnbanIPNet(ipNet)
			case "status":
				st, err = store.Status(ipNet)
			case "statusban":
				db.afterTx = func() {
					op.Now2 = time.Now().UnixNano()
					if e := store.BanIPNet(ipNet, banman.Reason(op.Reason), dur); e != nil {
						op.Obs2 = "err"
					} else {
						op.Obs2 = "ok"
					}
				}
				st, err = store.Status(ipNet)
				db.afterTx = nil
			}
			t1 := time.Now().UnixNano()
			// The code reads the clock somewhere in [t0,t1]; the
			// observation is unambiguous iff no second boundary
			// (of now, resp. now+dur) lies inside that window.
			amb := false
			switch op.Kind {
			case "ban":
				amb = floorDiv(t0+int64(dur), 1e9) != floorDiv(t1+int64(dur), 1e9)
			case "status", "statusban":
				amb = floorDiv(t0, 1e9) != floorDiv(t1, 1e9) ||
					floorDiv(t0+int64(dur), 1e9) != floorDiv(t1+int64(dur), 1e9)
			}
			if amb && op.Kind == "statusban" {
				// ambiguous and not repeatable: the history ends
				// before this operation
				h.Ops = h.Ops[:i]
				return
			}
			if amb && try < 5 {
				continue
			}
			op.Now = t0
			if err != nil {
				op.Obs = "err"
			} else if op.Kind == "status" || op.Kind == "statusban" {
				op.Obs = "status"
				op.Banned = st.Banned
				if st.Banned {
					op.OReas = uint8(st.Reason)
					op.OExp = st.Expiration.Unix()
				}
			} else {
				op.Obs = "ok"
			}
			break
		}
	}
}

func floorDiv(a, b int64) int64 {
	q := a / b
	if (a%b != 0) && ((a < 0) != (b < 0)) {
		q--
	}
	return q
}

func netTerm(ip, mask []byte) string {
	return fmt.Sprintf("{| ip := %s; mask := %s |}", c.Bytes(ip), c.Bytes(mask))
}

func obsTerm(op *Op) string {
	switch op.Obs {
	case "ok":
		return "OOk"
	case "err":
		return "OErr"
	case "status":
		return c.App("OStatus", c.Bool(op.Banned), c.Z(int64(op.OReas)), c.Z(op.OExp))
	}
	panic("obs " + op.Obs)
}

// opNet renders the network an operation addresses. Unless the harness built
// the *net.IPNet itself (raw 4-byte form), it is the MODEL's ParseIPNet of
// the address (parsed by net.ParseIP, independent of banman) and mask the
// caller passed: a wrong banman.ParseIPNet shows up in the histories (model
// mismatch and monitor), not only in the parse table.
func opNet(op *Op) string {
	if op.Raw || op.Parsed == nil {
		return netTerm(op.IP, op.NMask)
	}
	m := "None"
	if op.Mask != nil {
		m = c.Some(c.Bytes(op.Mask))
	}
	return c.App("pn", c.Bytes(op.Parsed), m)
}

// caseTerm renders the store trace of a history.
func caseTerm(h *History) (string, string) {
	var items []string
	var sig []string
	for i := range h.Ops {
		op := &h.Ops[i]
		if op.Kind == "sleep" || op.Obs == "parse-err" {
			continue
		}
		var o string
		switch op.Kind {
		case "ban":
			o = c.App("Ban", opNet(op), c.Z(int64(op.Reason)), c.Z(op.Now), c.Z(op.DurMs*1000000))
		case "unban":
			o = c.App("Unban", opNet(op))
		case "status":
			o = c.App("Status", opNet(op), c.Z(op.Now))
		case "statusban":
			// sequential reading: the status query, then the ban
			items = append(items, c.Pair(c.App("Status", opNet(op), c.Z(op.Now)), obsTerm(op)))
			sig = append(sig, "c")
			if op.Obs2 == "" {
				continue // the store call made no transaction the ban could follow
			}
			ob2 := "OOk"
			if op.Obs2 == "err" {
				ob2 = "OErr"
			}
			items = append(items, c.Pair(c.App("Ban", opNet(op), c.Z(int64(op.Reason)), c.Z(op.Now2), c.Z(op.DurMs*1000000)), ob2))
			sig = append(sig, "b")
			continue
		case "reopen":
			o = "Reopen"
		}
		items = append(items, c.Pair(o, obsTerm(op)))
		s := op.Kind[:1]
		if op.Kind == "status" && op.Banned {
			s = "S"
		}
		if op.Obs == "err" {
			s = "e"
		}
		sig = append(sig, s)
	}
	return c.Pair(c.Z(int64(h.ID)), c.List(items)), strings.Join(sig, "")
}

func main() {
	a := c.ParseArgs()
	rep := c.NewReport("C13", a)
	var hs []History
	var ps []PubHistory
	var rs []RaceCase
	if a.Replay != "" {
		// a hist-<id>.json file, or a replay file of ./check (the history
		// is its "history" member)
		raw, err := os.ReadFile(a.Replay)
		if err != nil {
			panic(err)
		}
		var wrap struct {
			History json.RawMessage `json:"history"`
		}
		if json.Unmarshal(raw, &wrap) == nil && len(wrap.History) > 0 {
			raw = wrap.History
		}
		var probe struct {
			Public bool `json:"public"`
			Race   bool `json:"race"`
		}
		if err := json.Unmarshal(raw, &probe); err != nil {
			panic(err)
		}
		if probe.Race {
			var r RaceCase
			if err := json.Unmarshal(raw, &r); err != nil {
				panic(err)
			}
			rs = []RaceCase{{ID: r.ID, Race: true, Order: r.Order, Name: r.Name}}
		} else if probe.Public {
			var p PubHistory
			if err := json.Unmarshal(raw, &p); err != nil {
				panic(err)
			}
			p.Fail = ""
			ps = []PubHistory{p}
		} else {
			var h History
			if err := json.Unmarshal(raw, &h); err != nil {
				panic(err)
			}
			hs = []History{h}
		}
	} else {
		n, nops, ntimed := 48, 30, 12
		if a.Tier == "thorough" {
			n, nops, ntimed = 800, 40, 60
		}
		for i := 0; i < n; i++ {
			r := c.Rng(a.Seed, i)
			hs = append(hs, genHistory(r, i, nops, i < ntimed))
		}
		// public-entry family (ChainService.IsBanned / BanPeer / UnbanPeer)
		np, npops, nptimed := 24, 36, 10
		if a.Tier == "thorough" {
			np, npops, nptimed = 200, 50, 60
		}
		for i := 0; i < np; i++ {
			id := pubIDBase + i
			ps = append(ps, genPublic(c.Rng(a.Seed, id), id, npops, i < nptimed))
		}
		// the fixed regression history (started first: it ends with a sleep)
		ps = append([]PubHistory{fixedPublic(pubIDBase + np)}, ps...)
		// ban-vs-registration family (enforcement): every order
		nr := 1
		if a.Tier == "thorough" {
			nr = 8
		}
		for i := 0; i < nr*len(raceOrders); i++ {
			o := i % len(raceOrders)
			rs = append(rs, RaceCase{ID: raceIDBase + i, Race: true, Order: o, Name: raceOrders[o]})
		}
	}
	work, err := os.MkdirTemp(a.Out, "db")
	if err != nil {
		panic(err)
	}
	defer os.RemoveAll(work)

	var wg sync.WaitGroup
	sem := make(chan struct{}, a.Workers)
	var env *pubEnv
	// The ban-vs-registration scenarios run first, one at a time, with the
	// normal ban duration; only then does the public family start (it calls
	// ChainService.BanPeer from many goroutines, with bans that last pubBan:
	// neutrino.BanDuration is a package variable; the store histories pass
	// their own durations).  The store histories run alongside both.
	wg.Add(1)
	go func() {
		defer wg.Done()
		tip := time.Now().Add(-20 * time.Minute).Unix()
		for i := range rs {
			runRace(&rs[i], work, tip)
		}
		neutrino.BanDuration = pubBan
		if len(ps) > 0 {
			env = newPubEnv(work)
		}
		for i := range ps {
			if env.fail != "" {
				ps[i].Fail = env.fail
				continue
			}
			wg.Add(1)
			sem <- struct{}{}
			go func(h *PubHistory) {
				defer wg.Done()
				defer func() { <-sem }()
				runPublic(h, env.cl.CS)
			}(&ps[i])
		}
	}()
	for i := range hs {
		wg.Add(1)
		sem <- struct{}{}
		go func(h *History) {
			defer wg.Done()
			defer func() { <-sem }()
			runHistory(h, work)
		}(&hs[i])
	}
	wg.Wait()
	if env != nil {
		if f := env.close(); f != "" {
			ps[0].Fail = f
		}
	}

	// Parse and codec cases: every distinct (parsed, mask) and network seen.
	type pc struct{ parsed, mask, ip, nmask []byte; perr, hasMask bool }
	parseSeen := map[string]pc{}
	codecSeen := map[string][3][]byte{}
	spellings := map[string]map[string]bool{}
	for i := range hs {
		for j := range hs[i].Ops {
			op := &hs[i].Ops[j]
			if op.Kind == "sleep" || op.Kind == "reopen" {
				continue
			}
			key := fmt.Sprintf("%x/%x/%v", op.Parsed, op.Mask, op.Mask != nil)
			if !op.Raw {
				parseSeen[key] = pc{op.Parsed, op.Mask, op.IP, op.NMask, op.PErr, op.Mask != nil}
			}
			if op.Parsed != nil {
				k := fmt.Sprintf("%x", []byte(op.Parsed))
				if spellings[k] == nil {
					spellings[k] = map[string]bool{}
				}
				spellings[k][op.Addr] = true
			}
			if !op.PErr {
				var buf bytes.Buffer
				ipn := &net.IPNet{IP: op.IP, Mask: op.NMask}
				var enc, dip, dmask []byte
				if err := banman.VerifEncodeIPNet(&buf, ipn); err == nil {
					enc = append([]byte{}, buf.Bytes()...)
					// decodeIPNet is only defined (here) on
					// complete buffers: family-length masks.
					alen := 16
					if enc[0] == 0 {
						alen = 4
					}
					if len(enc) == 1+2*alen {
						d, err := banman.VerifDecodeIPNet(bytes.NewReader(enc))
						if err == nil {
							dip, dmask = d.IP, d.Mask
						}
					}
				}
				codecSeen[fmt.Sprintf("%x/%x", op.IP, op.NMask)] = [3][]byte{enc, dip, dmask}
			}
		}
	}

	var sb strings.Builder
	sb.WriteString("From Coq Require Import ZArith List.\nFrom Verif Require Import C13.Model C13.Spec C13.Replay C13.Enforce C13.ReplayE.\nImport ListNotations.\nOpen Scope Z_scope.\n")
	sb.WriteString("Definition cases : list (Z * list (op * obs)) := [\n")
	sigs := c.Signatures{}
	nontrivial := c.Signatures{}
	for i := range hs {
		t, sig := caseTerm(&hs[i])
		if i > 0 {
			sb.WriteString(";\n")
		}
		sb.WriteString(t)
		sigs.Add(sig)
		// non-trivial: contains a ban, a status that reports banned and a
		// status that reports not banned (lapse, unban or other net)
		if strings.Contains(sig, "b") && strings.Contains(sig, "S") && strings.Contains(sig, "s") {
			nontrivial.Add(sig)
		}
		for _, ch := range sig {
			rep.Histogram["op:"+string(ch)]++
		}
		path := filepath.Join(a.Out, fmt.Sprintf("hist-%d.json", hs[i].ID))
		c.WriteJSON(path, hs[i])
		rep.Cases[fmt.Sprint(hs[i].ID)] = path
	}
	sb.WriteString("].\n")
	sb.WriteString(publicSection(ps, rep, a.Out, nontrivial))
	sb.WriteString(raceSection(rs, rep, a.Out, nontrivial))

	// parse cases: (parsed, mask option, expected net option)
	sb.WriteString("Definition parse_cases : list (bytes * option bytes * option ipnet) := [\n")
	keys := make([]string, 0, len(parseSeen))
	for k := range parseSeen {
		keys = append(keys, k)
	}
	sort.Strings(keys)
	for i, k := range keys {
		p := parseSeen[k]
		if i > 0 {
			sb.WriteString(";\n")
		}
		m := "None"
		if p.hasMask {
			m = c.Some(c.Bytes(p.mask))
		}
		e := "None"
		if !p.perr {
			e = c.Some(netTerm(p.ip, p.nmask))
		}
		sb.WriteString(fmt.Sprintf("(%s, %s, %s)", c.Bytes(p.parsed), m, e))
	}
	sb.WriteString("].\n")
	sb.WriteString("Definition codec_cases : list (ipnet * option bytes * option ipnet) := [\n")
	keys = keys[:0]
	for k := range codecSeen {
		keys = append(keys, k)
	}
	sort.Strings(keys)
	for i, k := range keys {
		var ipb, mb []byte
		fmt.Sscanf(k, "%x/%x", &ipb, &mb)
		v := codecSeen[k]
		if i > 0 {
			sb.WriteString(";\n")
		}
		enc, dec := "None", "None"
		if v[0] != nil {
			enc = c.Some(c.Bytes(v[0]))
		}
		if v[1] != nil {
			dec = c.Some(netTerm(v[1], v[2]))
		}
		sb.WriteString(fmt.Sprintf("(%s, %s, %s)", netTerm(ipb, mb), enc, dec))
	}
	sb.WriteString("].\n")
	sb.WriteString("Definition R := Eval vm_compute in (run_cases cases ++ run_pcases pcases ++ run_rcases rcases ++ map (fun i => (i, 3, 0, 0)) (parse_mismatches parse_cases) ++ map (fun i => (i, 4, 0, 0)) (codec_mismatches codec_cases)).\nSet Printing Width 1000000.\nSet Printing Depth 1000000.\nPrint R.\n")
	c.WriteFile(filepath.Join(a.Out, "cases.v"), sb.String())

	// Independent implementation-side check: all spellings of one IP hit
	// the same ParseIP bytes by construction (keyed on them); record how
	// many spellings each address was exercised with.
	maxSp := 0
	for _, m := range spellings {
		if len(m) > maxSp {
			maxSp = len(m)
		}
	}
	rep.Histogram["distinct_addresses"] = len(spellings)
	rep.Histogram["max_spellings_per_address"] = maxSp
	rep.Histogram["parse_cases"] = len(parseSeen)
	rep.Histogram["codec_cases"] = len(codecSeen)
	rep.Histogram["distinct_signatures"] = len(sigs)
	rep.Evaluations = len(hs) + len(ps) + len(rs)
	rep.DistinctNontrivial = len(nontrivial)
	rep.Rule = "histories of ban/unban/status/reopen(/sleep) over 8 addresses in random spellings and masks, executed on the real bbolt-backed banman.Store with the real clock; a history is non-trivial when it contains a ban, a status answered banned and a status answered not banned; distinct = distinct op-kind signature; public-entry family: histories of ChainService.IsBanned/BanPeer/UnbanPeer on a real ChainService (no peers, 1.2 s bans) with 2-3 addresses looked up under several spellings before being banned under another and under all of them after every ban/unban/lapse; non-trivial when it contains a ban, an IsBanned answered true and one answered false; ban-vs-registration family: BanPeer(B) pinned at four points of the registration of a new connection to B (lookup held after / before its transaction, ban first, registration first) on a real ChainService with two scripted nodes"
	for i := 0; i < len(hs) && i < 3; i++ {
		rep.Samples = append(rep.Samples, hs[i])
	}
	rep.Write(a.Out)
}
