package main

// Backlog probes at moments INSIDE an operation (-prop C19).
//
// The production notification channel is unbuffered and the subscription
// manager calls NotificationsSinceHeight from the goroutine that consumes it,
// so a backlog request can arrive while the block manager is blocked handing
// over event k of the running operation. For C19 the harness therefore runs
// the block manager on an unbuffered channel, executes every operation on its
// own goroutine and plays the consumer: it takes exactly k events, waits until
// the operation's goroutine is parked on the next send (or has returned),
// calls NotificationsSinceHeight for a few heights, and goes on consuming.
// "Parked" is read off runtime.Stack (goroutine state "select"/"chan send"),
// never inferred from elapsed time; every wait has a deadline.

import (
	"bytes"
	"errors"
	"fmt"
	"reflect"
	"runtime"
	"sort"
	"strings"
	"sync"
	"time"
	"unsafe"

	"github.com/btcsuite/btcd/wire/v2"
	"github.com/lightninglabs/neutrino/blockntfns"
	"github.com/lightninglabs/neutrino/headerfs"

	c "verifharness/internal/common"
)

// ProbeRec is one probe: planned (K, Hs) before the run, actual K, heights
// and answers after it.
type ProbeRec struct {
	K   int     `json:"k"`
	Hs  []int64 `json:"hs,omitempty"`
	Obs string  `json:"obs,omitempty"` // Coq term: list (Z * option (list (Z * Z) * Z))
	// requests during which the n-th read of the block header store fails:
	// pairs (n, h) and the answers, Coq term list (Z * Z * option ...)
	Fs   [][2]int64 `json:"fs,omitempty"`
	FObs string     `json:"fobs,omitempty"`
}

// faultStore is the block header store handed to the block manager with
// -prop C19: while armed, its n-th FetchHeaderByHeight fails (once).
type faultStore struct {
	headerfs.BlockHeaderStore
	mu     sync.Mutex
	armed  bool
	failAt int
	calls  int
}

var errInjected = errors.New("injected header store read fault")

func (f *faultStore) FetchHeaderByHeight(h uint32) (*wire.BlockHeader, error) {
	f.mu.Lock()
	if f.armed {
		f.calls++
		if f.calls == f.failAt {
			f.mu.Unlock()
			return nil, errInjected
		}
	}
	f.mu.Unlock()
	return f.BlockHeaderStore.FetchHeaderByHeight(h)
}

func (f *faultStore) arm(n int) {
	f.mu.Lock()
	f.armed, f.failAt, f.calls = true, n, 0
	f.mu.Unlock()
}

func (f *faultStore) disarm() {
	f.mu.Lock()
	f.armed = false
	f.mu.Unlock()
}

// answerTerm prints one NotificationsSinceHeight answer.
func (v *env) answerTerm(h int64) string {
	ntfns, best, err := v.bm.NotificationsSinceHeight(uint32(h))
	if err != nil {
		return "None"
	}
	var it []string
	for _, n := range ntfns {
		hd := n.Header()
		hh := hd.BlockHash()
		it = append(it, c.Pair(c.Z(v.tok(hh)), c.Z(int64(n.Height()))))
	}
	return c.Some(c.Pair(c.List(it), c.Z(int64(best))))
}

// faultTerm: for every (n, h) the answer to NotificationsSinceHeight(h) while
// the n-th header read of the request fails.
func (v *env) faultTerm(fs [][2]int64) string {
	var out []string
	for _, p := range fs {
		v.fault.arm(int(p[0]))
		a := v.answerTerm(p[1])
		v.fault.disarm()
		out = append(out, c.Pair(c.Pair(c.Z(p[0]), c.Z(p[1])), a))
	}
	return c.List(out)
}

// autoFaults: (n, h) pairs: loops of many, two, some and one reads with the
// fault at the first, a middle, the last read and one past the last (no
// fault).
func (v *env) autoFaults() [][2]int64 {
	fv := int64(v.bm.FilterHeaderTip())
	var out [][2]int64
	seen := map[[2]int64]bool{}
	add := func(n, h int64) {
		p := [2]int64{n, h}
		if h > 0 && h < fv && n >= 1 && !seen[p] && len(out) < 5 {
			seen[p] = true
			out = append(out, p)
		}
	}
	long := fv - 1     // reads of a request for height 1
	add((long+1)/2, 1) // a middle read of the longest loop
	add(long, 1)       // its last read
	add(1, fv-2)       // first of two reads
	add(3, fv-2)       // one past the last read: no fault
	add(1, 1)
	add(2, fv/2)
	add(1, fv-1)
	return out
}

const probeDeadline = 30 * time.Second

const (
	stBlocked = iota
	stDone
	stTimeout
)

// unbufferNotifications replaces the block manager's notification channel by
// an unbuffered one, as in production (newBlockManager), and returns it. The
// verif hook installs a large buffer; the field is reached by reflection so
// that no hook has to change.
func (v *env) unbufferNotifications() {
	ch := make(chan blockntfns.BlockNtfn)
	bm := reflect.ValueOf(v.bm).Elem().FieldByName("bm").Elem()
	f := bm.FieldByName("blockNtfnChan")
	reflect.NewAt(f.Type(), unsafe.Pointer(f.UnsafeAddr())).Elem().Set(reflect.ValueOf(ch))
	v.ntfn = ch
}

func goid() string {
	var b [64]byte
	n := runtime.Stack(b[:], false)
	f := strings.Fields(string(b[:n]))
	if len(f) < 2 {
		return "?"
	}
	return f[1]
}

// parked reports whether goroutine gid is parked in a select or channel send.
func (v *env) parked(gid string) bool {
	if v.stackBuf == nil {
		v.stackBuf = make([]byte, 1<<18)
	}
	var s []byte
	for {
		n := runtime.Stack(v.stackBuf, true)
		if n < len(v.stackBuf) {
			s = v.stackBuf[:n]
			break
		}
		v.stackBuf = make([]byte, 2*len(v.stackBuf))
	}
	hdr := []byte("goroutine " + gid + " [")
	for off := 0; ; {
		i := bytes.Index(s[off:], hdr)
		if i < 0 {
			return false
		}
		i += off
		if i == 0 || s[i-1] == '\n' {
			st := s[i+len(hdr):]
			return bytes.HasPrefix(st, []byte("select")) || bytes.HasPrefix(st, []byte("chan send"))
		}
		off = i + len(hdr)
	}
}

func (v *env) waitParked(gid string, done chan struct{}, deadline time.Time) int {
	for i := 0; ; i++ {
		select {
		case <-done:
			return stDone
		default:
		}
		if i >= 2 && v.parked(gid) {
			return stBlocked
		}
		if time.Now().After(deadline) {
			return stTimeout
		}
		if i < 20 {
			runtime.Gosched()
		} else {
			time.Sleep(20 * time.Microsecond) // back-off between polls only
		}
	}
}

// sinceTerm calls NotificationsSinceHeight for every height and prints the
// answers as a Coq list of (h, option (backlog, best)).
func (v *env) sinceTerm(since []int64) string {
	var sn []string
	for _, h := range since {
		if h < 0 {
			continue
		}
		sn = append(sn, c.Pair(c.Z(h), v.answerTerm(h)))
	}
	return c.List(sn)
}

// autoHeights: 0, small heights, and heights below / at / above the filter
// tip before the operation, the filter store's tip now and the in-memory tip
// now.
func (v *env) autoHeights(ft0 int64) []int64 {
	cand := []int64{0, 1, 2, ft0 - 1, ft0, ft0 + 1}
	if _, st, err := v.e.FS.ChainTip(); err == nil {
		cand = append(cand, int64(st)-1, int64(st), int64(st)+1)
	}
	fv := int64(v.bm.FilterHeaderTip())
	cand = append(cand, fv, fv+1)
	seen := map[int64]bool{}
	var hs []int64
	for _, h := range cand {
		if h >= 0 && !seen[h] {
			seen[h] = true
			hs = append(hs, h)
		}
	}
	sort.Slice(hs, func(i, j int) bool { return hs[i] < hs[j] })
	return hs
}

// execProbed runs op on its own goroutine, consumes its notifications and
// probes the backlog at the planned moments. Returns the events of the
// operation and the probes actually made. A panic of the handler is re-raised
// on the caller's goroutine; a hang sets v.hung.
func (v *env) execProbed(op *Op, plan []ProbeRec, auto bool) (evs []blockntfns.BlockNtfn, recs []ProbeRec) {
	done := make(chan struct{})
	gidCh := make(chan string, 1)
	var pv interface{}
	ft0 := int64(v.bm.FilterHeaderTip())
	go func() {
		defer close(done)
		defer func() { pv = recover() }()
		gidCh <- goid()
		v.exec(op)
	}()
	gid := <-gidCh
	deadline := time.Now().Add(probeDeadline)
	timer := time.NewTimer(probeDeadline)
	defer timer.Stop()
	lastK := -1
	probe := func(p ProbeRec) bool {
		k := len(evs)
		if k == lastK {
			return true
		}
		lastK = k
		ok := make(chan ProbeRec, 1)
		go func() {
			hs, fs := p.Hs, p.Fs
			if auto {
				hs = v.autoHeights(ft0)
				if v.fault != nil {
					fs = v.autoFaults()
				}
			}
			r := ProbeRec{K: k, Hs: hs, Obs: v.sinceTerm(hs)}
			if v.fault != nil {
				r.Fs, r.FObs = fs, v.faultTerm(fs)
			}
			ok <- r
		}()
		select {
		case r := <-ok:
			recs = append(recs, r)
			return true
		case <-timer.C:
			v.hung = fmt.Sprintf("NotificationsSinceHeight did not return while the operation was at event %d", k)
			return false
		}
	}
	next := 0
	finished := false
	for !finished {
		if next < len(plan) && len(evs) >= plan[next].K {
			st := v.waitParked(gid, done, deadline)
			if st == stTimeout {
				v.hung = fmt.Sprintf("after %d events the operation is neither blocked on the notification channel nor finished", len(evs))
				return evs, recs
			}
			if !probe(plan[next]) {
				return evs, recs
			}
			next++
			finished = st == stDone
			continue
		}
		select {
		case n := <-v.ntfn:
			evs = append(evs, n)
		case <-done:
			finished = true
		case <-timer.C:
			v.hung = fmt.Sprintf("operation did not finish (%d events consumed)", len(evs))
			return evs, recs
		}
	}
	if pv != nil {
		panic(pv)
	}
	if next < len(plan) {
		// fewer events than planned: the probe is made after the return
		if !probe(plan[next]) {
			return evs, recs
		}
	}
	return evs, recs
}

// probesTerm prints the probes of one history for C19/Replay.v:
// mprobes : list (step, list (k, answers)) and mfaults : the same shape for
// the answers under a read fault.
func probesTerm(h *History) (string, string) {
	var items, fitems []string
	step := 0
	for j := range h.Ops {
		if h.Ops[j].Obs == "" {
			continue
		}
		if len(h.Ops[j].Probes) > 0 {
			var ps, fps []string
			for _, p := range h.Ops[j].Probes {
				ps = append(ps, c.Pair(c.Z(int64(p.K)), p.Obs))
				if p.FObs != "" {
					fps = append(fps, c.Pair(c.Z(int64(p.K)), p.FObs))
				}
			}
			items = append(items, c.Pair(c.Z(int64(step)), c.List(ps)))
			if len(fps) > 0 {
				fitems = append(fitems, c.Pair(c.Z(int64(step)), c.List(fps)))
			}
		}
		step++
	}
	return c.List(items), c.List(fitems)
}
