// Command c18rescan is a scenario program for the race stage of property C18
// (cmd/c18 builds it with -race and runs it like the other harnesses; it has
// no model, no cases and no verdict of its own).  It drives the REAL
// neutrino.Rescan through its public interface (NewRescan, Start, Update,
// WaitForShutdown) over a minimal in-memory ChainSource, in the call patterns
// none of the correspondence harnesses has:
//
//	(a) bounded rescan, end block given BY HASH only, Start, then at once
//	    Update from the calling goroutine, a second Update, wait for the end
//	(b) end block by HEIGHT only + Update
//	(c) start block given as a pointer (hash or height) + Update(Rewind)
//	(d) unbounded rescan with a quit channel, Update, new blocks, close quit
//	(e) two goroutines calling Update concurrently on one running rescan
//
// Every iteration has its own chain object and its own stamps, nothing is
// shared between iterations; the program's own counters are atomics.  Every
// wait has a deadline; a stuck rescan is abandoned and the program exits 0.
package main

import (
	"errors"
	"fmt"
	"math/rand"
	"os"
	"sync"
	"sync/atomic"
	"time"

	"github.com/btcsuite/btcd/address/v2"
	"github.com/btcsuite/btcd/btcutil/v2"
	"github.com/btcsuite/btcd/btcutil/v2/gcs"
	"github.com/btcsuite/btcd/btcutil/v2/gcs/builder"
	"github.com/btcsuite/btcd/chaincfg/v2"
	"github.com/btcsuite/btcd/chainhash/v2"
	"github.com/btcsuite/btcd/rpcclient"
	"github.com/btcsuite/btcd/txscript/v2"
	"github.com/btcsuite/btcd/wire/v2"
	"github.com/lightninglabs/neutrino"
	"github.com/lightninglabs/neutrino/blockntfns"
	"github.com/lightninglabs/neutrino/headerfs"

	c "verifharness/internal/common"
)

const (
	nAddr        = 4
	waitDeadline = 4 * time.Second  // one wait inside a scenario
	runDeadline  = 60 * time.Second // the whole program (c18 kills it earlier)
)

var (
	params      = chaincfg.RegressionNetParams
	addrs       [nAddr]address.Address
	addrScripts [nAddr][]byte
)

func init() {
	for i := 0; i < nAddr; i++ {
		h := make([]byte, 20)
		for j := range h {
			h[j] = byte((i+1)*23 + j)
		}
		a, err := address.NewAddressWitnessPubKeyHash(h, &params)
		if err != nil {
			panic(err)
		}
		s, err := txscript.PayToAddrScript(a)
		if err != nil {
			panic(err)
		}
		addrs[i], addrScripts[i] = a, s
	}
}

// ---------------------------------------------------------------------
// The chain source: a linked list of headers with one paying transaction per
// block and the block's real basic filter.  Immutable except for extend().

type blk struct {
	hdr    wire.BlockHeader
	hash   chainhash.Hash
	msg    *wire.MsgBlock // read-only after construction
	filter *gcs.Filter
	fhdr   chainhash.Hash
}

type sub struct {
	ch chan blockntfns.BlockNtfn
}

type chain struct {
	mu     sync.Mutex
	blocks []*blk
	byHash map[chainhash.Hash]int
	subs   map[*sub]struct{}
	cur    int32 // IsCurrent, atomic
}

func newChain(n int, salt uint32) *chain {
	ch := &chain{byHash: map[chainhash.Hash]int{}, subs: map[*sub]struct{}{}, cur: 1}
	g := params.GenesisBlock
	gf, err := builder.BuildBasicFilter(g, nil)
	if err != nil {
		panic(err)
	}
	gfh, _ := builder.MakeHeaderForFilter(gf, chainhash.Hash{})
	ch.blocks = append(ch.blocks, &blk{hdr: g.Header, hash: g.BlockHash(), msg: g, filter: gf, fhdr: gfh})
	ch.byHash[g.BlockHash()] = 0
	for i := 1; i < n; i++ {
		ch.appendLocked(salt)
	}
	return ch
}

// appendLocked adds one block on top (caller holds mu or is the constructor).
func (ch *chain) appendLocked(salt uint32) *blk {
	prev := ch.blocks[len(ch.blocks)-1]
	n := len(ch.blocks)
	msg := wire.NewMsgBlock(&wire.BlockHeader{Version: 1, PrevBlock: prev.hash,
		Timestamp: prev.hdr.Timestamp.Add(10 * time.Minute), Bits: 0x207fffff, Nonce: salt<<8 + uint32(n)})
	tx := wire.NewMsgTx(1)
	tx.AddTxIn(wire.NewTxIn(wire.NewOutPoint(&chainhash.Hash{}, 0xffffffff), []byte{byte(n), byte(salt), 0x51}, nil))
	tx.AddTxOut(wire.NewTxOut(5000, addrScripts[n%nAddr]))
	msg.AddTransaction(tx)
	msg.Header.MerkleRoot = tx.TxHash()
	f, err := builder.BuildBasicFilter(msg, nil)
	if err != nil {
		panic(err)
	}
	fh, _ := builder.MakeHeaderForFilter(f, prev.fhdr)
	b := &blk{hdr: msg.Header, hash: msg.BlockHash(), msg: msg, filter: f, fhdr: fh}
	ch.byHash[b.hash] = n
	ch.blocks = append(ch.blocks, b)
	return b
}

// extend adds a block and notifies the subscribers.
func (ch *chain) extend(salt uint32) {
	ch.mu.Lock()
	defer ch.mu.Unlock()
	b := ch.appendLocked(salt)
	n := blockntfns.NewBlockConnected(b.hdr, uint32(len(ch.blocks)-1))
	for s := range ch.subs {
		select {
		case s.ch <- n:
		default: // a subscriber that does not read: drop, never block
		}
	}
}

func (ch *chain) ChainParams() chaincfg.Params { return params }

func (ch *chain) IsCurrent() bool { return atomic.LoadInt32(&ch.cur) == 1 }

func (ch *chain) BestBlock() (*headerfs.BlockStamp, error) {
	ch.mu.Lock()
	defer ch.mu.Unlock()
	t := ch.blocks[len(ch.blocks)-1]
	return &headerfs.BlockStamp{Height: int32(len(ch.blocks) - 1), Hash: t.hash, Timestamp: t.hdr.Timestamp}, nil
}

func (ch *chain) GetBlockHeaderByHeight(h uint32) (*wire.BlockHeader, error) {
	ch.mu.Lock()
	defer ch.mu.Unlock()
	if int(h) >= len(ch.blocks) {
		return nil, errors.New("height not found")
	}
	hd := ch.blocks[h].hdr
	return &hd, nil
}

func (ch *chain) GetBlockHeader(hash *chainhash.Hash) (*wire.BlockHeader, uint32, error) {
	ch.mu.Lock()
	defer ch.mu.Unlock()
	i, ok := ch.byHash[*hash]
	if !ok {
		return nil, 0, errors.New("header not found")
	}
	hd := ch.blocks[i].hdr
	return &hd, uint32(i), nil
}

func (ch *chain) GetFilterHeaderByHeight(h uint32) (*chainhash.Hash, error) {
	ch.mu.Lock()
	defer ch.mu.Unlock()
	if int(h) >= len(ch.blocks) {
		return nil, errors.New("filter header not found")
	}
	fh := ch.blocks[h].fhdr
	return &fh, nil
}

func (ch *chain) GetCFilter(hash chainhash.Hash, _ wire.FilterType, _ ...neutrino.QueryOption) (*gcs.Filter, error) {
	ch.mu.Lock()
	defer ch.mu.Unlock()
	i, ok := ch.byHash[hash]
	if !ok {
		return nil, errors.New("filter not found")
	}
	return ch.blocks[i].filter, nil
}

// GetBlock hands out a fresh btcutil.Block (it caches hashes lazily) around
// the read-only message.
func (ch *chain) GetBlock(hash chainhash.Hash, _ ...neutrino.QueryOption) (*btcutil.Block, error) {
	ch.mu.Lock()
	defer ch.mu.Unlock()
	i, ok := ch.byHash[hash]
	if !ok {
		return nil, errors.New("block not found")
	}
	b := btcutil.NewBlock(ch.blocks[i].msg)
	b.SetHeight(int32(i))
	return b, nil
}

func (ch *chain) Subscribe(best uint32) (*blockntfns.Subscription, error) {
	ch.mu.Lock()
	defer ch.mu.Unlock()
	s := &sub{ch: make(chan blockntfns.BlockNtfn, len(ch.blocks)+64)}
	for i := int(best) + 1; i < len(ch.blocks); i++ {
		s.ch <- blockntfns.NewBlockConnected(ch.blocks[i].hdr, uint32(i))
	}
	ch.subs[s] = struct{}{}
	return &blockntfns.Subscription{Notifications: s.ch, Cancel: func() {
		ch.mu.Lock()
		delete(ch.subs, s)
		ch.mu.Unlock()
	}}, nil
}

// ---------------------------------------------------------------------
// Scenario plumbing.

type stats struct {
	iterations, finished, abandoned, updatesOK, updatesErr, connected, disconnected, recv int64
}

var st stats

func handlers() rpcclient.NotificationHandlers {
	return rpcclient.NotificationHandlers{
		OnFilteredBlockConnected: func(_ int32, _ *wire.BlockHeader, txs []*btcutil.Tx) {
			atomic.AddInt64(&st.connected, 1)
			atomic.AddInt64(&st.recv, int64(len(txs)))
		},
		OnFilteredBlockDisconnected: func(int32, *wire.BlockHeader) {
			atomic.AddInt64(&st.disconnected, 1)
		},
	}
}

// run is one started rescan with its safety net.
type run struct {
	r       *neutrino.Rescan
	errCh   <-chan error
	quit    chan struct{}
	once    sync.Once
	hasQuit bool
}

func (x *run) closeQuit() { x.once.Do(func() { close(x.quit) }) }

func (x *run) update(opts ...neutrino.UpdateOption) {
	if err := x.r.Update(opts...); err != nil {
		atomic.AddInt64(&st.updatesErr, 1)
	} else {
		atomic.AddInt64(&st.updatesOK, 1)
	}
}

// finish waits for the rescan goroutine; a rescan that does not end by itself
// is told to quit, one that does not react is abandoned.
func (x *run) finish(expectEnd bool) {
	ended := false
	if expectEnd {
		select {
		case <-x.errCh:
			ended = true
		case <-time.After(waitDeadline):
		}
	}
	if !ended {
		x.closeQuit()
		select {
		case <-x.errCh:
			ended = true
		case <-time.After(waitDeadline):
		}
	}
	if !ended {
		atomic.AddInt64(&st.abandoned, 1)
		return
	}
	done := make(chan struct{})
	go func() { x.r.WaitForShutdown(); close(done) }()
	select {
	case <-done:
		atomic.AddInt64(&st.finished, 1)
	case <-time.After(waitDeadline):
		atomic.AddInt64(&st.abandoned, 1)
	}
	x.closeQuit()
}

func start(ch *chain, withQuit bool, opts ...neutrino.RescanOption) *run {
	x := &run{quit: make(chan struct{}), hasQuit: withQuit}
	all := []neutrino.RescanOption{neutrino.NotificationHandlers(handlers())}
	if withQuit {
		all = append(all, neutrino.QuitChan(x.quit))
	}
	all = append(all, opts...)
	x.r = neutrino.NewRescan(ch, all...)
	x.errCh = x.r.Start()
	return x
}

func randUpdate(r *rand.Rand, maxRewind int) []neutrino.UpdateOption {
	var u []neutrino.UpdateOption
	switch r.Intn(6) {
	case 0:
		u = append(u, neutrino.AddAddrs(addrs[r.Intn(nAddr)]))
	case 1:
		u = append(u, neutrino.AddInputs(neutrino.InputWithScript{
			OutPoint: wire.OutPoint{Index: uint32(r.Intn(3))}, PkScript: addrScripts[r.Intn(nAddr)]}))
	case 2:
		u = append(u, neutrino.Rewind(uint32(1+r.Intn(maxRewind))))
	case 3:
		u = append(u, neutrino.AddAddrs(addrs[r.Intn(nAddr)]), neutrino.Rewind(uint32(1+r.Intn(maxRewind))))
	case 4:
		u = append(u, neutrino.AddAddrs(addrs[r.Intn(nAddr)]), neutrino.DisableDisconnectedNtfns(true),
			neutrino.Rewind(uint32(1+r.Intn(maxRewind))))
	default:
		u = append(u, neutrino.AddAddrs(addrs[0], addrs[1]))
	}
	return u
}

func startStamp(r *rand.Rand, ch *chain, h int) *headerfs.BlockStamp {
	switch r.Intn(3) {
	case 0:
		return &headerfs.BlockStamp{Hash: ch.blocks[h].hash}
	case 1:
		return &headerfs.BlockStamp{Height: int32(h)}
	default:
		return &headerfs.BlockStamp{Hash: ch.blocks[h].hash, Height: int32(h)}
	}
}

func watch(r *rand.Rand) []neutrino.RescanOption {
	switch r.Intn(3) {
	case 0:
		return nil
	case 1:
		return []neutrino.RescanOption{neutrino.WatchAddrs(addrs[r.Intn(nAddr)])}
	default:
		return []neutrino.RescanOption{neutrino.WatchInputs(neutrino.InputWithScript{
			OutPoint: wire.OutPoint{Index: 1}, PkScript: addrScripts[r.Intn(nAddr)]})}
	}
}

// ---------------------------------------------------------------------
// Scenarios.  Each builds its own chain and stamps.

func scenario(kind int, r *rand.Rand, salt uint32) {
	atomic.AddInt64(&st.iterations, 1)
	n := 12 + r.Intn(24)
	ch := newChain(n, salt)
	end := 3 + r.Intn(n-4) // 3 .. n-2
	startH := r.Intn(3)    // 0..2 (below end)
	switch kind {
	case 0: // (a) end by HASH only, Update right after Start, second Update
		endStamp := &headerfs.BlockStamp{Hash: ch.blocks[end].hash}
		opts := append(watch(r), neutrino.StartBlock(startStamp(r, ch, startH)), neutrino.EndBlock(endStamp))
		x := start(ch, r.Intn(3) != 0, opts...)
		x.update(randUpdate(r, end+2)...)
		x.update(randUpdate(r, end+2)...)
		x.finish(true)
	case 1: // (b) end by HEIGHT only
		endStamp := &headerfs.BlockStamp{Height: int32(end)}
		opts := append(watch(r), neutrino.StartBlock(startStamp(r, ch, startH)), neutrino.EndBlock(endStamp))
		x := start(ch, r.Intn(3) != 0, opts...)
		x.update(randUpdate(r, end+2)...)
		if r.Intn(2) == 0 {
			x.update(randUpdate(r, end+2)...)
		}
		x.finish(true)
	case 2: // (c) start block pointer + Rewind below / at / above it
		s := 2 + r.Intn(end-2+1) // 2..end
		if s >= end {
			s = end - 1
		}
		sp := startStamp(r, ch, s)
		var endOpt neutrino.RescanOption
		if r.Intn(2) == 0 {
			endOpt = neutrino.EndBlock(&headerfs.BlockStamp{Hash: ch.blocks[end].hash, Height: int32(end)})
		} else {
			endOpt = neutrino.EndBlock(&headerfs.BlockStamp{Hash: ch.blocks[end].hash})
		}
		x := start(ch, true, append(watch(r), neutrino.StartBlock(sp), endOpt)...)
		x.update(neutrino.Rewind(uint32(1+r.Intn(s+1))), neutrino.AddAddrs(addrs[r.Intn(nAddr)]))
		x.finish(true)
	case 3: // (d) unbounded, quit channel, Update, new blocks, Update(Rewind), quit
		var opts []neutrino.RescanOption
		if r.Intn(2) == 0 {
			opts = append(opts, neutrino.StartBlock(startStamp(r, ch, startH)))
		}
		if r.Intn(3) == 0 {
			opts = append(opts, neutrino.StartTime(ch.blocks[end].hdr.Timestamp))
		}
		x := start(ch, true, append(opts, watch(r)...)...)
		x.update(randUpdate(r, n)...)
		for i := r.Intn(3); i > 0; i-- {
			ch.extend(salt)
		}
		x.update(neutrino.Rewind(uint32(1+r.Intn(n-1))), neutrino.AddAddrs(addrs[r.Intn(nAddr)]))
		if r.Intn(2) == 0 {
			ch.extend(salt)
		}
		x.finish(false)
	default: // (e) two goroutines updating one running rescan
		var opts []neutrino.RescanOption
		bounded := r.Intn(2) == 0
		if bounded {
			opts = append(opts, neutrino.StartBlock(startStamp(r, ch, startH)),
				neutrino.EndBlock(&headerfs.BlockStamp{Hash: ch.blocks[end].hash}))
		}
		x := start(ch, true, append(opts, watch(r)...)...)
		u1, u2 := randUpdate(r, end), randUpdate(r, end)
		var wg sync.WaitGroup
		wg.Add(2)
		go func() { defer wg.Done(); x.update(u1...); x.update(neutrino.AddAddrs(addrs[2])) }()
		go func() { defer wg.Done(); x.update(u2...) }()
		done := make(chan struct{})
		go func() { wg.Wait(); close(done) }()
		select {
		case <-done:
		case <-time.After(waitDeadline):
			x.closeQuit()
			select {
			case <-done:
			case <-time.After(waitDeadline):
			}
		}
		x.finish(bounded)
	}
}

func main() {
	a := c.ParseArgs()
	t0 := time.Now()
	groups := a.Workers
	if groups < 2 {
		groups = 2
	}
	if groups > 6 {
		groups = 6
	}
	perKind := 200
	if a.Tier == "thorough" {
		perKind = 1000
	}
	const kinds = 5
	total := kinds * perKind
	var next int64
	var wg sync.WaitGroup
	for g := 0; g < groups; g++ {
		wg.Add(1)
		go func() {
			defer wg.Done()
			for {
				i := int(atomic.AddInt64(&next, 1)) - 1
				if i >= total || time.Since(t0) > runDeadline-2*waitDeadline {
					return
				}
				scenario(i%kinds, c.Rng(a.Seed, i), uint32(i))
			}
		}()
	}
	done := make(chan struct{})
	go func() { wg.Wait(); close(done) }()
	select {
	case <-done:
	case <-time.After(runDeadline):
	}
	rep := c.NewReport("C18", a)
	rep.Evaluations = int(atomic.LoadInt64(&st.iterations))
	rep.DistinctNontrivial = kinds
	rep.Rule = "scenario program for the race stage: no verdict of its own"
	rep.Histogram["iterations"] = int(atomic.LoadInt64(&st.iterations))
	rep.Histogram["rescans_finished"] = int(atomic.LoadInt64(&st.finished))
	rep.Histogram["rescans_abandoned"] = int(atomic.LoadInt64(&st.abandoned))
	rep.Histogram["updates_ok"] = int(atomic.LoadInt64(&st.updatesOK))
	rep.Histogram["updates_err"] = int(atomic.LoadInt64(&st.updatesErr))
	rep.Histogram["blocks_connected"] = int(atomic.LoadInt64(&st.connected))
	rep.Histogram["blocks_disconnected"] = int(atomic.LoadInt64(&st.disconnected))
	rep.Histogram["relevant_txs"] = int(atomic.LoadInt64(&st.recv))
	rep.Histogram["milliseconds"] = int(time.Since(t0).Milliseconds())
	rep.Write(a.Out)
	fmt.Printf("c18rescan: %d iterations, %d rescans finished, %d abandoned, %d/%d updates ok/err, %d connected, %d disconnected, %.1fs\n",
		rep.Histogram["iterations"], rep.Histogram["rescans_finished"], rep.Histogram["rescans_abandoned"],
		rep.Histogram["updates_ok"], rep.Histogram["updates_err"], rep.Histogram["blocks_connected"],
		rep.Histogram["blocks_disconnected"], time.Since(t0).Seconds())
	os.Exit(0)
}
