// Correspondence harness for the block-manager properties (C01, C02, C19):
// drives the REAL blockManager handlers (handleHeadersMsg, handleInvMsg,
// handleNewPeerMsg, handleDonePeerMsg, writeCFHeadersMsg, rollBackToHeight,
// NotificationsSinceHeight) on real header stores with generated block trees
// (valid and invalid forks under random chain parameters) and message
// schedules, and records the observable state after every operation. With
// -prop C19 the backlog is also probed at moments inside an operation
// (probe.go).
package main

import (
	"bytes"
	"flag"
	"fmt"
	"math/big"
	"math/rand"
	"os"
	"path/filepath"
	"reflect"
	"sort"
	"strings"
	"sync"
	"time"
	"unsafe"

	"github.com/btcsuite/btcd/blockchain"
	"github.com/btcsuite/btcd/chaincfg/v2"
	"github.com/btcsuite/btcd/chainhash/v2"
	"github.com/btcsuite/btcd/peer"
	"github.com/btcsuite/btcd/wire/v2"
	"github.com/lightninglabs/neutrino"
	"github.com/lightninglabs/neutrino/blockntfns"
	"github.com/lightninglabs/neutrino/headerfs"

	c "verifharness/internal/common"
	"verifharness/internal/storeh"
)

var propFlag = flag.String("prop", "C01", "property whose Replay module evaluates the cases")

// ParamSpec is the JSON form of the chain parameters of a history.
type ParamSpec struct {
	Bpr         int64  `json:"bpr"`
	NoRetarget  bool   `json:"noretarget"`
	ReduceMin   bool   `json:"reducemin"`
	Bip94       bool   `json:"bip94"`
	BipHeight   int32  `json:"bipheight"`
	MemCap      uint32 `json:"memcap"`
	Checkpoints []int  `json:"checkpoints"` // node ids
}

type Op struct {
	Kind    string `json:"kind"` // headers inv newpeer donepeer writecf rollback restart
	Peer    int    `json:"peer,omitempty"`
	Now     int64  `json:"now,omitempty"`
	Nodes   []int  `json:"nodes,omitempty"`
	Node    int    `json:"node,omitempty"`  // inv: announced node (-1 none); writecf: stop node
	Start   int32  `json:"start,omitempty"` // newpeer
	Last    int32  `json:"last,omitempty"`  // newpeer
	Full    bool   `json:"full,omitempty"`
	N       int    `json:"n,omitempty"` // writecf: number of filter hashes
	BadPrev bool   `json:"badprev,omitempty"`
	H       int32  `json:"h,omitempty"`     // rollback height
	WFail   int    `json:"wfail,omitempty"` // headers: the k-th BlockHeaders.WriteHeaders call of the operation fails
	RFail   int    `json:"rfail,omitempty"` // headers: the k-th BlockHeaders.RollbackLastBlock call of the operation cannot truncate the header file
	Obs     string `json:"obs,omitempty"`
	Term    string `json:"term,omitempty"`
	// backlog probes made while the operation was running (-prop C19)
	Probes  []ProbeRec `json:"probes,omitempty"`
	ftDrop  int        // committed blocks removed by the operation (report only)
	wfHit   bool       // the write fault struck (report only)
	crashed bool       // the handler panicked on the injected rollback fault: the process was restarted
}

type History struct {
	ID     int       `json:"id"`
	Seed   int64     `json:"seed"`
	Params ParamSpec `json:"params"`
	Nodes  []*Node   `json:"nodes"`
	Ops    []Op      `json:"ops"`
	// a long-chain backlog history (long.go) instead of a tree and operations
	Long *LongSpec `json:"long,omitempty"`
}

func mkParams(ps ParamSpec, t *Tree) *chaincfg.Params {
	p := chaincfg.SimNetParams
	p.TargetTimePerBlock = 10 * time.Second
	p.TargetTimespan = time.Duration(ps.Bpr) * 10 * time.Second
	p.RetargetAdjustmentFactor = 4
	p.PoWNoRetargeting = ps.NoRetarget
	p.ReduceMinDifficulty = ps.ReduceMin
	p.MinDiffReductionTime = 20 * time.Second
	p.EnforceBIP94 = ps.Bip94
	p.BIP0034Height, p.BIP0065Height, p.BIP0066Height = ps.BipHeight, ps.BipHeight, ps.BipHeight
	p.Checkpoints = nil
	if t != nil {
		for _, id := range ps.Checkpoints {
			n := t.Nodes[id]
			hh := n.Hash
			p.Checkpoints = append(p.Checkpoints, chaincfg.Checkpoint{Height: n.Height, Hash: &hh})
		}
	}
	return &p
}

func setField(p *peer.Peer, name string, v interface{}) {
	f := reflect.ValueOf(p).Elem().FieldByName(name)
	reflect.NewAt(f.Type(), unsafe.Pointer(f.UnsafeAddr())).Elem().Set(reflect.ValueOf(v))
}
func getInt32(p *peer.Peer, name string) int64 {
	return reflect.ValueOf(p).Elem().FieldByName(name).Int()
}

type env struct {
	dir       string
	e         *storeh.Env
	bm        *neutrino.VerifBM
	ts        *clock
	peers     map[int]*neutrino.ServerPeer
	ftok      map[chainhash.Hash]int64
	tree      *Tree
	gfh       chainhash.Hash
	panicked  string
	panicStep int
	// -prop C19: unbuffered notification channel, consumed by the harness
	ntfn     chan blockntfns.BlockNtfn
	stackBuf []byte
	hung     string
	fault    *faultStore            // -prop C19: read faults of the block header store
	wf       *wfStore               // the block header store given to the block manager (write and rollback faults)
	crashEvs []blockntfns.BlockNtfn // notifications of the process that died in the last operation
	crashes  int
	// what a restart needs to build a new block manager over the same stores
	params   *chaincfg.Params
	memCap   uint32
	restarts int
	// generation: histories that contain restarts draw from their own stream
	r3          *rand.Rand
	restartHist bool
	// ... and so do the checkpoint-fork, flip-flop and write-fault histories
	r4     *rand.Rand
	wfHist bool
	rfHist bool // random rollback faults (histories without checkpoints, not with -prop C19)
}

// newBM builds a block manager over the environment's stores the way
// NewChainService does (newBlockManager through the verif hook) and installs
// the observation plumbing: with -prop C19 the unbuffered notification
// channel consumed by the harness and the fault-injecting store wrapper.
func (v *env) newBM() {
	var err error
	var inner headerfs.BlockHeaderStore = v.e.BS
	if *propFlag == "C19" {
		// the block manager reads block headers through a wrapper that
		// can make one read of a backlog request fail
		v.fault = &faultStore{BlockHeaderStore: v.e.BS}
		inner = v.fault
	}
	// ... and writes them through one that can make a WriteHeaders call fail
	v.wf = &wfStore{BlockHeaderStore: inner, file: func() *storeh.FFile { return v.e.BF }}
	v.bm, err = neutrino.VerifNewBlockManager(*v.params, v.wf, v.e.FS, v.ts, v.memCap)
	if err != nil {
		panic(err)
	}
	if *propFlag == "C19" {
		v.unbufferNotifications()
	}
}

// restart: the process is stopped and started again. The old block manager
// is dropped (nothing of its in-memory state survives), a NEW one is built
// over the SAME stores, and the peers are gone: they have to connect again.
func (v *env) restart() {
	v.bm = nil
	v.ntfn = nil
	v.peers = map[int]*neutrino.ServerPeer{}
	// the stores are closed and opened again, as by a new process
	v.e.Close()
	if err := v.e.Open(); err != nil {
		panic(err)
	}
	v.newBM()
	v.restarts++
}

// wfStore wraps the block header store handed to the block manager: while
// armed, its k-th WriteHeaders call fails and writes nothing (what the real
// store does when a write fails half-way is C07's subject).
type wfStore struct {
	headerfs.BlockHeaderStore
	mu     sync.Mutex
	failAt int
	calls  int
	hit    bool
	// rollback faults: the k-th RollbackLastBlock cannot truncate the header
	// file (injected through the file wrapper of the real store, as the
	// C07/C08 harnesses do): the index has gone back, the bytes are still
	// in the file, an error is returned
	rbFailAt int
	rbCalls  int
	rbHit    bool
	file     func() *storeh.FFile
}

func (w *wfStore) RollbackLastBlock() (*headerfs.BlockStamp, error) {
	w.mu.Lock()
	strike := false
	if w.rbFailAt > 0 {
		w.rbCalls++
		strike = w.rbCalls == w.rbFailAt
	}
	w.mu.Unlock()
	if !strike {
		return w.BlockHeaderStore.RollbackLastBlock()
	}
	f := w.file()
	f.TruncFail = true
	bs, err := w.BlockHeaderStore.RollbackLastBlock()
	f.TruncFail = false
	if err != nil {
		w.rbHit = true
	}
	return bs, err
}

func (w *wfStore) armRollback(k int) {
	w.mu.Lock()
	w.rbFailAt, w.rbCalls, w.rbHit = k, 0, false
	w.mu.Unlock()
}

var errWriteInjected = fmt.Errorf("injected header store write fault")

func (w *wfStore) WriteHeaders(hdrs ...headerfs.BlockHeader) error {
	w.mu.Lock()
	if w.failAt > 0 {
		w.calls++
		if w.calls == w.failAt {
			w.hit = true
			w.mu.Unlock()
			return errWriteInjected
		}
	}
	w.mu.Unlock()
	return w.BlockHeaderStore.WriteHeaders(hdrs...)
}

func (w *wfStore) arm(k int) {
	w.mu.Lock()
	w.failAt, w.calls, w.hit = k, 0, false
	w.mu.Unlock()
}

type clock struct{ t time.Time }

func (f *clock) AdjustedTime() time.Time         { return f.t }
func (f *clock) AddTimeSample(string, time.Time) {}
func (f *clock) Offset() time.Duration           { return 0 }

func (v *env) tok(h chainhash.Hash) int64 {
	for _, n := range v.tree.Nodes {
		if n.Hash == h {
			return int64(n.ID) + 1
		}
	}
	return 0
}
func (v *env) filterTok(h chainhash.Hash) int64 {
	if t, ok := v.ftok[h]; ok {
		return t
	}
	t := int64(storeh.FilterBase + len(v.ftok))
	v.ftok[h] = t
	return t
}

func hdrTerm(t *Tree, n *Node) string {
	hn := blockchain.HashToBig(&n.Hash)
	prev := int64(0)
	if n.Parent >= 0 {
		prev = int64(n.Parent) + 1
	}
	return fmt.Sprintf("{| hid := %d; hprev := %d; hnum := 0x%s; hbits := %d; htime := %d; hver := %d |}",
		n.ID+1, prev, hn.Text(16), n.Hdr.Bits, n.Hdr.Timestamp.Unix(), n.Hdr.Version)
}

func optPair(ok bool, a, b int64) string {
	if !ok {
		return "None"
	}
	return c.Some(c.Pair(c.Z(a), c.Z(b)))
}

// observe reads the property-relevant state off the real block manager.
func (v *env) observe(evs []blockntfns.BlockNtfn, since []int64) string {
	bs, fs := v.e.BS, v.e.FS
	var sb strings.Builder
	sb.WriteString("(Build_obs ")
	var chain []int64
	tipOK := false
	var tipTok, tipH int64
	if h, ht, err := bs.ChainTip(); err == nil {
		tipOK, tipTok, tipH = true, v.tok(h.BlockHash()), int64(ht)
	}
	// read by height until the first failure (at most tip+2)
	for h := uint32(0); h < 100000; h++ {
		hd, err := bs.FetchHeaderByHeight(h)
		if err != nil {
			break
		}
		chain = append(chain, v.tok(hd.BlockHash()))
	}
	sb.WriteString(c.Ints(chain))
	sb.WriteString(" " + optPair(tipOK, tipTok, tipH))
	var lk []int64
	for _, n := range v.tree.Nodes {
		hh := n.Hash
		ht, err := bs.HeightFromHash(&hh)
		if err != nil {
			lk = append(lk, -1)
		} else {
			lk = append(lk, int64(ht))
		}
	}
	sb.WriteString(" " + c.Ints(lk))
	var fchain []int64
	for h := uint32(0); h < 100000; h++ {
		fh, err := fs.FetchHeaderByHeight(h)
		if err != nil {
			break
		}
		fchain = append(fchain, v.filterTok(*fh))
	}
	sb.WriteString(" " + c.Ints(fchain))
	if fh, ht, err := fs.ChainTip(); err == nil {
		sb.WriteString(" " + optPair(true, v.filterTok(*fh), int64(ht)))
	} else {
		sb.WriteString(" None")
	}
	sync := "None"
	if sp := v.bm.SyncPeer(); sp != nil {
		for id, q := range v.peers {
			if q == sp {
				sync = c.Some(c.Z(int64(id)))
			}
		}
	}
	sb.WriteString(" " + sync)
	ids := make([]int, 0, len(v.peers))
	for id := range v.peers {
		ids = append(ids, id)
	}
	sort.Ints(ids)
	var ps []string
	for _, id := range ids {
		q := v.peers[id]
		ps = append(ps, fmt.Sprintf("(%d, %s, %s)", id, c.Z(int64(q.LastBlock())), c.Bool(getInt32(q.Peer, "disconnect") != 0)))
	}
	sb.WriteString(" " + c.List(ps))
	if h, hh, ok := v.bm.HeaderListBack(); ok {
		sb.WriteString(" " + optPair(true, int64(h), v.tok(hh)))
	} else {
		sb.WriteString(" None")
	}
	sb.WriteString(fmt.Sprintf(" %s %d", c.Z(int64(v.bm.NextCheckpointHeight())), v.bm.FilterHeaderTip()))
	var es []string
	for _, n := range evs {
		hd := n.Header()
		hh := hd.BlockHash()
		switch x := n.(type) {
		case *blockntfns.Connected:
			es = append(es, c.App("EConn", c.Z(v.tok(hh)), c.Z(int64(n.Height()))))
		case *blockntfns.Disconnected:
			nt := x.ChainTip()
			es = append(es, c.App("EDisc", c.Z(v.tok(hh)), c.Z(int64(n.Height())), c.Z(v.tok(nt.BlockHash()))))
		}
	}
	sb.WriteString(" " + c.List(es))
	sb.WriteString(" " + v.sinceTerm(since) + ")")
	return sb.String()
}

func (v *env) exec(op *Op) {
	t := v.tree
	switch op.Kind {
	case "newpeer":
		p, err := peer.NewOutboundPeer(&peer.Config{}, fmt.Sprintf("10.0.0.%d:18555", op.Peer))
		if err != nil {
			panic(err)
		}
		sv := wire.SFNodeWitness | wire.SFNodeCF
		if op.Full {
			sv |= wire.SFNodeNetwork
		}
		setField(p, "services", sv)
		setField(p, "startingHeight", op.Start)
		p.UpdateLastBlockHeight(op.Last)
		sp := neutrino.VerifNewServerPeer(p)
		v.peers[op.Peer] = sp
		v.bm.NewPeer(sp)
		op.Term = fmt.Sprintf("(ONewPeer %d %d %d %s)", op.Peer, op.Start, op.Last, c.Bool(op.Full))
	case "donepeer":
		v.bm.DonePeer(v.peers[op.Peer])
		op.Term = fmt.Sprintf("(ODonePeer %d)", op.Peer)
	case "headers":
		v.ts.t = time.Unix(op.Now, 0)
		hs := make([]*wire.BlockHeader, len(op.Nodes))
		names := make([]string, len(op.Nodes))
		for i, id := range op.Nodes {
			hs[i] = t.Nodes[id].Hdr
			names[i] = fmt.Sprintf("H%d", id)
		}
		if op.RFail > 0 {
			// a rollback that cannot truncate the header file: the
			// handler is expected to panic ("Rollback failed"); that is
			// the death of the process: the stores are re-opened through
			// their constructors (start-up recovery runs) and a new
			// block manager is built over them
			v.wf.armRollback(op.RFail)
			old := v.bm
			func() {
				defer v.wf.armRollback(0)
				defer func() {
					if x := recover(); x != nil {
						if !v.wf.rbHit {
							panic(x)
						}
						op.crashed = true
					}
				}()
				v.bm.Headers(v.peers[op.Peer], hs)
			}()
			if op.crashed {
				v.crashEvs = append([]blockntfns.BlockNtfn{}, old.DrainNotifications()...)
				v.restart()
				v.crashes++
			}
			op.Term = fmt.Sprintf("(OHeadersR %d %d %s %d)", op.Peer, op.Now, c.List(names), op.RFail)
		} else if op.WFail > 0 {
			v.wf.arm(op.WFail)
			func() {
				defer v.wf.arm(0)
				v.bm.Headers(v.peers[op.Peer], hs)
				op.wfHit = v.wf.hit
			}()
			op.Term = fmt.Sprintf("(OHeadersF %d %d %s %d)", op.Peer, op.Now, c.List(names), op.WFail)
		} else {
			v.bm.Headers(v.peers[op.Peer], hs)
			op.Term = fmt.Sprintf("(OHeaders %d %d %s)", op.Peer, op.Now, c.List(names))
		}
	case "inv":
		v.ts.t = time.Unix(op.Now, 0)
		inv := wire.NewMsgInv()
		arg := "None"
		if op.Node >= 0 {
			hh := t.Nodes[op.Node].Hash
			inv.AddInvVect(wire.NewInvVect(wire.InvTypeBlock, &hh))
			arg = c.Some(c.Z(int64(op.Node) + 1))
		} else {
			var hh chainhash.Hash
			inv.AddInvVect(wire.NewInvVect(wire.InvTypeTx, &hh))
		}
		v.bm.Inv(v.peers[op.Peer], inv)
		op.Term = fmt.Sprintf("(OInv %d %d %s)", op.Peer, op.Now, arg)
	case "writecf":
		stop := t.Nodes[op.Node].Hash
		tip, _, err := v.e.FS.ChainTip()
		if err != nil {
			panic(err)
		}
		prev := *tip
		if op.BadPrev {
			prev[0] ^= 0xff
		}
		msg := wire.NewMsgCFHeaders()
		msg.FilterType = wire.GCSFilterRegular
		msg.StopHash = stop
		msg.PrevFilterHeader = prev
		last := prev
		var toks []int64
		r := rand.New(rand.NewSource(int64(op.Node)*7919 + int64(op.N)))
		for i := 0; i < op.N; i++ {
			var fh chainhash.Hash
			r.Read(fh[:])
			msg.AddCFHash(&fh)
			last = chainhash.DoubleHashH(append(fh[:], last[:]...))
			toks = append(toks, v.filterTok(last))
		}
		v.bm.WriteCFHeaders(msg)
		op.Term = fmt.Sprintf("(OWriteCF %d %s %d)", v.filterTok(prev), c.Ints(toks), op.Node+1)
	case "rollback":
		v.bm.RollBackToHeight(uint32(op.H))
		op.Term = fmt.Sprintf("(ORollback %d)", op.H)
	case "restart":
		v.restart()
		op.Term = "ORestart"
	default:
		panic(op.Kind)
	}
}

// ---------------------------------------------------------------------
// generation

var corruptions = []string{"pow", "bits", "time-old", "time-new", "version"}

func genTree(r *rand.Rand, ps *ParamSpec, now0 int64) *Tree {
	t := newTree(mkParams(*ps, nil))
	main := 8 + r.Intn(22)
	easy := new(big.Int).Rsh(chaincfg.SimNetParams.PowLimit, 7)
	var cur *Node
	dtOf := func() int64 {
		// keep mining cheap: once the target has dropped by 2^7, slow
		// the chain down so that the next retargets raise it again
		if cur != nil && blockchain.CompactToBig(cur.Hdr.Bits).Cmp(easy) < 0 {
			return 45 + int64(r.Intn(20))
		}
		switch r.Intn(6) {
		case 0:
			return 1
		case 1:
			return 25 + int64(r.Intn(30)) // beyond the min-difficulty reduction time
		default:
			return 5 + int64(r.Intn(12))
		}
	}
	var mainNodes []*Node
	cur = t.Nodes[0]
	for i := 0; i < main; i++ {
		cur = t.mine(r, cur, dtOf(), "", now0)
		mainNodes = append(mainNodes, cur)
	}
	t.main = mainNodes
	// forks
	nf := 1 + r.Intn(4)
	var forkBases []*Node
	for f := 0; f < nf; f++ {
		base := t.Nodes[0]
		if r.Intn(8) != 0 {
			base = mainNodes[r.Intn(len(mainNodes))]
			if r.Intn(2) == 0 && base.Parent >= 0 {
				base = t.Nodes[base.Parent]
			}
		}
		// relative length: shorter, equal (tie), longer than the main branch above base
		rem := int(mainNodes[len(mainNodes)-1].Height - base.Height)
		var l int
		switch r.Intn(4) {
		case 0:
			l = rem // tie in length
		case 1:
			l = rem + 1 + r.Intn(2)
		case 2:
			l = 1 + r.Intn(3)
		default:
			l = rem - 1
		}
		if l < 1 {
			l = 1
		}
		if l > 12 {
			l = 12
		}
		bad := -1
		if r.Intn(3) == 0 {
			bad = r.Intn(l)
		}
		forkBases = append(forkBases, base)
		c0 := base
		for i := 0; i < l; i++ {
			cor := ""
			if i == bad {
				cor = corruptions[r.Intn(len(corruptions))]
			}
			cur = c0
			c0 = t.mine(r, c0, dtOf(), cor, now0)
		}
	}
	// an invalid header on top of the main chain sometimes
	if r.Intn(3) == 0 {
		at := mainNodes[r.Intn(len(mainNodes))]
		cur = at
		bad := t.mine(r, at, dtOf(), corruptions[r.Intn(len(corruptions))], now0)
		if r.Intn(2) == 0 {
			cur = bad
			t.mine(r, bad, dtOf(), "", now0)
		}
	}
	// checkpoints on the main chain (0-3)
	ncp := []int{0, 1, 1, 2, 3}[r.Intn(5)]
	hs := map[int32]bool{}
	var cps []*Node
	for i := 0; i < ncp; i++ {
		n := mainNodes[r.Intn(len(mainNodes))]
		// prefer the main-chain block right above a fork point, so that
		// forks just below a reached checkpoint occur
		if len(forkBases) > 0 && r.Intn(2) == 0 {
			fb := forkBases[r.Intn(len(forkBases))]
			for _, m := range mainNodes {
				if m.Parent == fb.ID {
					n = m
				}
			}
		}
		if !hs[n.Height] {
			hs[n.Height] = true
			cps = append(cps, n)
		}
	}
	sort.Slice(cps, func(i, j int) bool { return cps[i].Height < cps[j].Height })
	for _, n := range cps {
		ps.Checkpoints = append(ps.Checkpoints, n.ID)
	}
	return t
}

func (t *Tree) leaves() []*Node {
	isParent := map[int]bool{}
	for _, n := range t.Nodes {
		isParent[n.Parent] = true
	}
	var l []*Node
	for _, n := range t.Nodes {
		if !isParent[n.ID] {
			l = append(l, n)
		}
	}
	return l
}

func genOps(r, r2 *rand.Rand, t *Tree, v *env, nops int, now0 int64) []Op {
	var ops []Op
	npeers := 1 + r.Intn(3)
	leaves := t.leaves()
	type pstate struct {
		leaf *Node
		sent *Node // last node sent
	}
	ps := map[int]*pstate{}
	alive := map[int]bool{}
	// emitP executes op on the real block manager and records the
	// observation. With -prop C19 the operation runs against the unbuffered
	// notification channel and the backlog is probed at the planned moments
	// (plan == nil: a random plan for operations that can emit events).
	emitP := func(op Op, plan []ProbeRec) {
		if v.panicked != "" {
			return
		}
		var evs []blockntfns.BlockNtfn
		ftBefore := int(v.bm.FilterHeaderTip())
		if v.ntfn != nil && plan == nil && (op.Kind == "headers" || op.Kind == "writecf") && r2.Intn(10) < 7 {
			k := r2.Intn(4)
			plan = []ProbeRec{{K: k}}
			if r2.Intn(2) == 0 {
				plan = append(plan, ProbeRec{K: k + 1 + r2.Intn(3)})
			}
		}
		if v.ntfn != nil && r2.Intn(4) == 0 {
			// and once after the operation has returned (between operations)
			plan = append(append([]ProbeRec{}, plan...), ProbeRec{K: 1 << 20})
		}
		func() {
			defer func() {
				if x := recover(); x != nil {
					v.panicked = fmt.Sprint(x)
					v.panicStep = len(ops)
				}
			}()
			if v.ntfn != nil && op.Kind != "restart" {
				// (a restart replaces the notification channel: it runs on
				// this goroutine and emits nothing)
				evs, op.Probes = v.execProbed(&op, plan, true)
			} else {
				v.exec(&op)
			}
		}()
		if v.hung != "" && v.panicked == "" {
			v.panicked = v.hung
			v.panicStep = len(ops)
		}
		if v.panicked != "" {
			op.Obs, op.Term = "", ""
			ops = append(ops, op) // keep the crashing operation in the replayable history
			return
		}
		var since []int64
		if r.Intn(2) == 0 {
			ft := int64(v.bm.FilterHeaderTip())
			since = []int64{0, 1, ft, ft - 1, ft + 1, 2}
		}
		if v.ntfn == nil {
			evs = v.bm.DrainNotifications()
		}
		if op.crashed {
			evs, v.crashEvs = v.crashEvs, nil
			for id := range alive {
				delete(alive, id)
			}
		}
		op.Obs = v.observe(evs, since)
		op.ftDrop = ftBefore - int(v.bm.FilterHeaderTip())
		ops = append(ops, op)
	}
	emit := func(op Op) { emitP(op, nil) }
	addPeerAt := func(id int, leaf *Node) {
		ps[id] = &pstate{leaf: leaf, sent: t.Nodes[0]}
		alive[id] = true
		emit(Op{Kind: "newpeer", Peer: id, Start: leaf.Height, Last: leaf.Height, Full: true})
	}
	addPeer := func(id int) {
		leaf := leaves[r.Intn(len(leaves))]
		ps[id] = &pstate{leaf: leaf, sent: t.Nodes[0]}
		alive[id] = true
		start := leaf.Height
		if r.Intn(4) == 0 {
			start = int32(r.Intn(int(leaf.Height) + 3))
		}
		last := start
		if r.Intn(3) == 0 {
			last = 0
		}
		emit(Op{Kind: "newpeer", Peer: id, Start: start, Last: last, Full: r.Intn(8) != 0})
	}
	nodeIDs := func(seg []*Node) []int {
		var ns []int
		for _, n := range seg {
			ns = append(ns, n.ID)
		}
		return ns
	}
	nowOK := func() int64 { return now0 + int64(r2.Intn(600)) }
	// midPlan: one or two moments strictly inside an operation expected to
	// emit n events (and sometimes the moment before the first event)
	midPlan := func(n int) []ProbeRec {
		if n < 2 {
			return []ProbeRec{{K: 0}}
		}
		k := 1 + r2.Intn(n-1)
		plan := []ProbeRec{{K: k}}
		if k+1 < n && r2.Intn(2) == 0 {
			plan = append(plan, ProbeRec{K: k + 1 + r2.Intn(n-k-1)})
		}
		if r2.Intn(4) == 0 {
			plan = append([]ProbeRec{{K: 0}}, plan...)
		}
		return plan
	}
	// cfBatch commits filter headers for the next k blocks of the stored chain
	cfBatch := func(k int, bad bool, plan []ProbeRec) bool {
		_, bt, err := v.e.BS.ChainTip()
		_, ft, err2 := v.e.FS.ChainTip()
		if err != nil || err2 != nil || ft >= bt {
			return false
		}
		if k > int(bt-ft) {
			k = int(bt - ft)
		}
		hd, err := v.e.BS.FetchHeaderByHeight(ft + uint32(k))
		if err != nil {
			return false
		}
		stop := int(v.tok(hd.BlockHash())) - 1
		if stop < 0 {
			return false
		}
		emitP(Op{Kind: "writecf", Node: stop, N: k, BadPrev: bad}, plan)
		return true
	}
	// restart: a new block manager over the same stores; every peer is gone
	doRestart := func() {
		emit(Op{Kind: "restart"})
		for id := range alive {
			delete(alive, id)
		}
	}
	// syncTo: peer id answers like a node until the client stores leaf
	// (a message is cut at a checkpoint, so this may take several)
	syncTo := func(id int, leaf *Node, rr *rand.Rand) {
		full := t.path(t.Nodes[0], leaf)
		for i := 0; i < 14; i++ {
			fork := t.Nodes[0]
			for _, n := range full {
				hh := n.Hash
				if _, err := v.e.BS.HeightFromHash(&hh); err != nil {
					break
				}
				fork = n
			}
			rest := t.path(fork, leaf)
			if len(rest) == 0 {
				return
			}
			k := 3 + rr.Intn(8)
			if k > len(rest) {
				k = len(rest)
			}
			emit(Op{Kind: "headers", Peer: id, Now: nowOK(), Nodes: nodeIDs(rest[:k])})
		}
	}
	// handOver: the next branch is revealed by another peer: the old one
	// leaves, or the client restarts, or the new one just joins
	handOver := func(old, id int, leaf *Node, rr *rand.Rand) {
		switch rr.Intn(4) {
		case 0:
			doRestart()
		case 1:
			// (stays; the new peer is listened to only if the client is current)
		default:
			if alive[old] {
				emit(Op{Kind: "donepeer", Peer: old})
				delete(alive, old)
			}
		}
		addPeerAt(id, leaf)
	}
	firstPeer := 1
	switch {
	case t.cpf != nil:
		ci := t.cpf
		mainTip := t.main[len(t.main)-1]
		if v.r4.Intn(5) < 3 {
			// the client follows sideA: its tip is exactly one below the
			// checkpoint when the main chain (heavier, through the
			// checkpoint) is revealed: adopted up to the checkpoint
			addPeerAt(1, ci.sideA)
			syncTo(1, ci.sideA, v.r4)
			handOver(1, 2, mainTip, v.r4)
			syncTo(2, mainTip, v.r4)
			firstPeer = 3
		} else {
			// the client's tip is exactly ON the checkpoint when a heavier
			// branch forking below it is revealed (refused), then the
			// main chain goes on
			addPeerAt(1, mainTip)
			full := t.path(t.Nodes[0], mainTip)
			c := int(ci.c)
			j := v.r4.Intn(c)
			if j > 0 {
				emit(Op{Kind: "headers", Peer: 1, Now: nowOK(), Nodes: nodeIDs(full[:j])})
			}
			emit(Op{Kind: "headers", Peer: 1, Now: nowOK(), Nodes: nodeIDs(full[j : c+v.r4.Intn(3)])})
			emit(Op{Kind: "headers", Peer: 1, Now: nowOK(), Nodes: nodeIDs(t.path(ci.forkC, ci.sideC))})
			if _, bt, err := v.e.BS.ChainTip(); err == nil && int32(bt) == ci.c && c < len(full) {
				// the next main-chain header (a valid child of the tip)
				// followed by the longer branch forking at the tip, in
				// ONE message: the first two headers are not linked
				emit(Op{Kind: "headers", Peer: 1, Now: nowOK(), Nodes: append([]int{full[c].ID}, nodeIDs(t.path(t.main[ci.c-1], ci.sideB))...)})
			}
			syncTo(1, mainTip, v.r4)
			firstPeer = 2
		}
		// a branch forking exactly AT the reached checkpoint, heavier: adopted
		pid := firstPeer - 1
		emit(Op{Kind: "headers", Peer: pid, Now: nowOK(), Nodes: nodeIDs(t.path(t.main[ci.c-1], ci.sideB))})
		ps[pid].leaf, ps[pid].sent = ci.sideB, ci.sideB
	case t.cpinv != nil:
		// the tip is below a checkpoint; a single-rule-invalid header in
		// EXTENSION position: alone (or with a valid child), or as the
		// suffix of a batch whose prefix is valid; nothing of it may be
		// stored
		ci := t.cpinv
		mainTip := t.main[len(t.main)-1]
		addPeerAt(1, mainTip)
		firstPeer = 2
		if v.r4.Intn(2) == 0 {
			syncTo(1, t.atHeight(int(ci.h)-1), v.r4)
			emit(Op{Kind: "headers", Peer: 1, Now: nowOK(), Nodes: nodeIDs(t.path(t.atHeight(int(ci.h)-1), ci.badLeaf))})
		} else {
			j := v.r4.Intn(int(ci.h)) // the client has heights 0..j
			syncTo(1, t.atHeight(j), v.r4)
			emit(Op{Kind: "headers", Peer: 1, Now: nowOK(), Nodes: nodeIDs(t.path(t.atHeight(j), ci.badLeaf))})
		}
		if v.r4.Intn(3) == 0 {
			emit(Op{Kind: "headers", Peer: 1, Now: nowOK(), Nodes: nodeIDs(t.path(t.atHeight(int(ci.h)-1), ci.bad))})
		}
		syncTo(1, mainTip, v.r4)
	case t.ctx2 != nil:
		// a branch header that is judged differently on its own branch and
		// in another context (the main chain's, or a scratch chain left
		// over from a refused sibling); everything from the sync peer, no
		// restart in between
		xi := t.ctx2
		nb := func() int64 { return xi.nowBig + int64(v.r4.Intn(300)) }
		ps[1] = &pstate{leaf: xi.wTip, sent: xi.mainTip}
		alive[1] = true
		emit(Op{Kind: "newpeer", Peer: 1, Start: xi.wTip.Height, Last: xi.wTip.Height, Full: true})
		firstPeer = 2
		full := t.path(t.Nodes[0], xi.mainTip)
		for i := 0; i < len(full); {
			k := 4 + v.r4.Intn(9)
			if i+k > len(full) {
				k = len(full) - i
			}
			emit(Op{Kind: "headers", Peer: 1, Now: nb(), Nodes: nodeIDs(full[i : i+k])})
			i += k
		}
		if v.r4.Intn(2) == 0 {
			cfBatch(2+v.r4.Intn(5), false, nil)
		}
		if xi.s != nil {
			emit(Op{Kind: "headers", Peer: 1, Now: nb(), Nodes: []int{xi.s.ID}})
			if v.r4.Intn(3) == 0 {
				cfBatch(1+v.r4.Intn(3), false, nil)
			}
		}
		emit(Op{Kind: "headers", Peer: 1, Now: nb(), Nodes: nodeIDs(t.path(xi.fork, xi.wTip))})
		if v.r4.Intn(3) == 0 {
			emit(Op{Kind: "headers", Peer: 1, Now: nb(), Nodes: nodeIDs(t.path(xi.fork, xi.wTip))})
		}
	case t.stale != nil:
		// two reorganisation attempts in a row, no restart and no change
		// of the sync peer in between: X (tie or lighter: refused), then Y
		// forking higher up, at a height X covers
		si := t.stale
		nb := func() int64 { return si.nowBig + int64(v.r4.Intn(300)) }
		ps[1] = &pstate{leaf: si.yTip, sent: si.aTip}
		alive[1] = true
		emit(Op{Kind: "newpeer", Peer: 1, Start: si.yTip.Height, Last: si.yTip.Height, Full: true})
		firstPeer = 2
		full := t.path(t.Nodes[0], si.aTip)
		for i := 0; i < len(full); {
			k := 4 + v.r4.Intn(9)
			if i+k > len(full) {
				k = len(full) - i
			}
			emit(Op{Kind: "headers", Peer: 1, Now: nb(), Nodes: nodeIDs(full[i : i+k])})
			i += k
		}
		if v.r4.Intn(2) == 0 {
			cfBatch(2+v.r4.Intn(5), false, nil)
		}
		xp := 1
		if v.r4.Intn(4) == 0 {
			// X comes from another peer (listened to only if the
			// client is current)
			ps[2] = &pstate{leaf: si.xTip, sent: si.xTip}
			alive[2] = true
			emit(Op{Kind: "newpeer", Peer: 2, Start: si.xTip.Height, Last: si.xTip.Height, Full: true})
			xp, firstPeer = 2, 3
		}
		emit(Op{Kind: "headers", Peer: xp, Now: nb(), Nodes: nodeIDs(t.path(si.fork, si.xTip))})
		if v.r4.Intn(3) == 0 {
			cfBatch(1+v.r4.Intn(3), false, nil)
		}
		emit(Op{Kind: "headers", Peer: 1, Now: nb(), Nodes: nodeIDs(t.path(si.yFork, si.yTip))})
		if v.r4.Intn(2) == 0 {
			// and once more (the scratch list now holds Y)
			emit(Op{Kind: "headers", Peer: 1, Now: nb(), Nodes: nodeIDs(t.path(si.yFork, si.yTip))})
		}
	case t.shv != nil:
		// a branch with FEWER headers but strictly more work, across a
		// retarget, revealed in one message by the sync peer: adopted
		hi := t.shv
		ps[1] = &pstate{leaf: hi.aTip, sent: hi.aTip}
		alive[1] = true
		emit(Op{Kind: "newpeer", Peer: 1, Start: hi.aTip.Height, Last: hi.aTip.Height, Full: true})
		firstPeer = 2
		syncTo(1, hi.aTip, v.r4)
		if v.r4.Intn(2) == 0 {
			cfBatch(2+v.r4.Intn(5), false, nil)
		}
		if v.r4.Intn(3) == 0 {
			// first without its last header: still lighter or a tie? no:
			// 4 per header against x <= 6 in total: one post-retarget
			// header only is lighter (4 < x + 0) only if x > 4; either
			// way model and implementation must agree
			bp := t.path(hi.fork, hi.bTip)
			emit(Op{Kind: "headers", Peer: 1, Now: nowOK(), Nodes: nodeIDs(bp[:len(bp)-1])})
		}
		emit(Op{Kind: "headers", Peer: 1, Now: nowOK(), Nodes: nodeIDs(t.path(hi.fork, hi.bTip))})
		ps[1].leaf, ps[1].sent = hi.bTip, hi.bTip
	case t.rtg != nil:
		// both clamps of the difficulty adjustment: the header computed
		// without the clamp in extension position (refused), the clamped
		// one (accepted), later the unclamped one's branch in reorg position
		ri := t.rtg
		mainTip := t.main[len(t.main)-1]
		addPeerAt(1, mainTip)
		firstPeer = 2
		syncTo(1, t.atHeight(int(ri.hMin)-1), v.r4)
		emit(Op{Kind: "headers", Peer: 1, Now: nowOK(), Nodes: nodeIDs(t.path(t.atHeight(int(ri.hMin)-1), ri.minBadLeaf)[:1+v.r4.Intn(2)])})
		syncTo(1, t.atHeight(int(ri.hMax)-1), v.r4)
		emit(Op{Kind: "headers", Peer: 1, Now: nowOK(), Nodes: nodeIDs(t.path(t.atHeight(int(ri.hMax)-1), ri.maxBadLeaf)[:1+v.r4.Intn(2)])})
		syncTo(1, mainTip, v.r4)
		emit(Op{Kind: "headers", Peer: 1, Now: nowOK(), Nodes: nodeIDs(t.path(t.atHeight(int(ri.hMax)-1), ri.maxBadLeaf))})
		emit(Op{Kind: "headers", Peer: 1, Now: nowOK(), Nodes: nodeIDs(t.path(t.atHeight(int(ri.hMin)-1), ri.minBadLeaf))})
	case t.trap2 != nil:
		ti := t.trap2
		mainTip := t.main[len(t.main)-1]
		addPeerAt(1, ti.side)
		syncTo(1, ti.side, v.r4)
		handOver(1, 2, mainTip, v.r4)
		firstPeer = 3
		oneMsg := func(leaf *Node) {
			br := t.path(ti.base, leaf)
			upto := int(ti.c2-ti.base.Height) + v.r4.Intn(3)
			if upto > len(br) {
				upto = len(br)
			}
			emit(Op{Kind: "headers", Peer: 2, Now: nowOK(), Nodes: nodeIDs(br[:upto])})
		}
		if v.r4.Intn(5) < 3 {
			// matches the first checkpoint, contradicts the second:
			// an invalid branch, the chain must stay as it is
			oneMsg(ti.forkLeaf)
		}
		// the control: matches both (adopted up to the first checkpoint)
		oneMsg(mainTip)
		syncTo(2, mainTip, v.r4)
	case t.flip != nil && t.rbf:
		// the heavier branch B arrives while the block header file cannot
		// be truncated: the k-th RollbackLastBlock of the reorganisation
		// fails (index back, bytes still there); the handler panics, the
		// process restarts (stores re-opened: recovery), the peers connect
		// again and B is offered once more, then A comes back extended
		fi := t.flip
		addPeerAt(1, fi.aExt)
		syncTo(1, fi.aTip, v.r4)
		for i := v.r4.Intn(3); i > 0; i-- {
			if !cfBatch(2+v.r4.Intn(4), false, nil) {
				break
			}
		}
		d := len(t.path(fi.fork, fi.aTip))
		emit(Op{Kind: "headers", Peer: 1, Now: nowOK(), Nodes: nodeIDs(t.path(fi.fork, fi.bTip)), RFail: 1 + v.r4.Intn(d)})
		addPeerAt(2, fi.aExt)
		firstPeer = 3
		emit(Op{Kind: "headers", Peer: 2, Now: nowOK(), Nodes: nodeIDs(t.path(fi.fork, fi.bTip))})
		if v.r4.Intn(2) == 0 {
			cfBatch(1+v.r4.Intn(3), false, nil)
		}
		rf := 0
		if v.r4.Intn(3) == 0 {
			rf = 1 + v.r4.Intn(2)
		}
		emit(Op{Kind: "headers", Peer: 2, Now: nowOK(), Nodes: nodeIDs(t.path(fi.fork, fi.aExt)), RFail: rf})
		if rf > 0 {
			addPeerAt(3, fi.aExt)
			firstPeer = 4
			emit(Op{Kind: "headers", Peer: 3, Now: nowOK(), Nodes: nodeIDs(t.path(fi.fork, fi.aExt))})
		}
		cfBatch(2+v.r4.Intn(3), false, nil)
	case t.flip != nil:
		fi := t.flip
		addPeerAt(1, fi.aExt)
		{
			// the client's tip is the fork point: a valid child of the
			// tip followed by its sibling's (longer) branch in ONE
			// message: the first two headers are not linked
			syncTo(1, fi.fork, v.r4)
			if _, bt, err := v.e.BS.ChainTip(); err == nil && int32(bt) == fi.fork.Height {
				x := t.path(fi.fork, fi.aTip)[0]
				emit(Op{Kind: "headers", Peer: 1, Now: nowOK(), Nodes: append([]int{x.ID}, nodeIDs(t.path(fi.fork, fi.bTip))...)})
			}
		}
		syncTo(1, fi.aTip, v.r4)
		for i := v.r4.Intn(3); i > 0; i-- {
			if !cfBatch(2+v.r4.Intn(4), false, nil) {
				break
			}
		}
		// the peer sends the top of A again (redundant headers are looked up
		// by hash in the store)
		dup := t.path(fi.fork, fi.aTip)
		if v.r4.Intn(2) == 0 {
			emit(Op{Kind: "headers", Peer: 1, Now: nowOK(), Nodes: nodeIDs(dup[v.r4.Intn(len(dup)):])})
		}
		emit(Op{Kind: "headers", Peer: 1, Now: nowOK(), Nodes: nodeIDs(dup)})
		pid := 1
		if v.r4.Intn(2) == 0 {
			// another peer reveals B (the store keeps running: no restart)
			if v.r4.Intn(2) == 0 {
				emit(Op{Kind: "donepeer", Peer: 1})
				delete(alive, 1)
			}
			addPeerAt(2, fi.aExt)
			pid = 2
		}
		firstPeer = pid + 1
		if v.r4.Intn(2) == 0 {
			// an old stored header followed by B (which does not build on
			// it) in ONE message: not linked
			k := t.main[v.r4.Intn(len(t.main))]
			if k != fi.fork {
				emit(Op{Kind: "headers", Peer: pid, Now: nowOK(), Nodes: append([]int{k.ID}, nodeIDs(t.path(fi.fork, fi.bTip))...)})
			}
		}
		{
			// the part of B that only TIES with what it would displace,
			// followed by a header that does not build on it: the LAST
			// link of the message is broken
			bp := t.path(fi.fork, fi.bTip)
			emit(Op{Kind: "headers", Peer: pid, Now: nowOK(), Nodes: append(nodeIDs(bp[:len(bp)-1]), fi.aExt.ID)})
		}
		// B: one header longer
		emit(Op{Kind: "headers", Peer: pid, Now: nowOK(), Nodes: nodeIDs(t.path(fi.fork, fi.bTip))})
		if v.r4.Intn(2) == 0 {
			cfBatch(1+v.r4.Intn(3), false, nil)
		}
		// A comes back, extended: heavier again
		back := t.path(fi.fork, fi.aExt)
		if v.r4.Intn(3) == 0 {
			// first only the part the client had before (lighter now: refused)
			emit(Op{Kind: "headers", Peer: pid, Now: nowOK(), Nodes: nodeIDs(t.path(fi.fork, fi.aTip))})
		}
		emit(Op{Kind: "headers", Peer: pid, Now: nowOK(), Nodes: nodeIDs(back)})
		ps[pid].leaf, ps[pid].sent = fi.aExt, fi.aExt
		cfBatch(2+v.r4.Intn(3), false, nil)
	case t.wfc != nil:
		wi := t.wfc
		mainTip := t.main[len(t.main)-1]
		addPeerAt(1, mainTip)
		syncTo(1, wi.t0, v.r4)
		// the batch that reaches the checkpoint: its write fails
		upto := int(wi.c) + v.r4.Intn(3)
		if upto > len(t.main) {
			upto = len(t.main)
		}
		emit(Op{Kind: "headers", Peer: 1, Now: nowOK(), Nodes: nodeIDs(t.path(wi.t0, t.main[upto-1])), WFail: 1})
		// another branch that connects to the stored tip and has a
		// different header at the checkpoint height
		pid := 1
		if v.r4.Intn(2) == 0 {
			addPeerAt(2, wi.side)
			pid = 2
		}
		firstPeer = 3
		emit(Op{Kind: "headers", Peer: pid, Now: nowOK(), Nodes: nodeIDs(t.path(wi.t0, wi.side))})
		syncTo(1, mainTip, v.r4)
	case t.restart != nil:
		// sync the main chain, commit some filter headers, RESTART, then one
		// peer (the sync peer after the restart) reveals three branches that
		// fork d >= 2 blocks below the stored tip, i.e. below everything the
		// in-memory window holds after the restart: equal work (refused),
		// less work (refused), more work (adopted)
		ri := t.restart
		mainTip := t.main[len(t.main)-1]
		addPeerAt(1, mainTip)
		full := t.path(t.Nodes[0], mainTip)
		for i := 0; i < 12; i++ {
			// answer like a node: the headers the client does not have yet
			// (a message is cut at a checkpoint)
			var rest []*Node
			for _, n := range full {
				hh := n.Hash
				if _, err := v.e.BS.HeightFromHash(&hh); err != nil {
					rest = append(rest, n)
				}
			}
			if len(rest) == 0 {
				break
			}
			k := 3 + v.r3.Intn(8)
			if k > len(rest) {
				k = len(rest)
			}
			emit(Op{Kind: "headers", Peer: 1, Now: nowOK(), Nodes: nodeIDs(rest[:k])})
		}
		for i := v.r3.Intn(4); i > 0; i-- {
			if !cfBatch(2+v.r3.Intn(4), false, nil) {
				break
			}
		}
		if v.r3.Intn(3) == 0 {
			emit(Op{Kind: "donepeer", Peer: 1})
			delete(alive, 1)
		}
		doRestart()
		ps[2] = &pstate{leaf: ri.heavy, sent: ri.heavy}
		alive[2] = true
		emit(Op{Kind: "newpeer", Peer: 2, Start: ri.heavy.Height, Last: ri.heavy.Height, Full: true})
		firstPeer = 3
		order := [][]*Node{t.path(ri.base, ri.tie), t.path(ri.base, ri.light)}
		if v.r3.Intn(2) == 0 {
			order[0], order[1] = order[1], order[0]
		}
		if v.r3.Intn(2) == 0 {
			// the equal-work branch with one more header at the end that
			// does NOT build on it (valid proof of work, another
			// branch's tip): the LAST link of the message is broken
			emit(Op{Kind: "headers", Peer: 2, Now: nowOK(), Nodes: append(nodeIDs(t.path(ri.base, ri.tie)), ri.heavy.ID)})
		}
		for _, br := range order {
			emit(Op{Kind: "headers", Peer: 2, Now: nowOK(), Nodes: nodeIDs(br)})
		}
		emit(Op{Kind: "headers", Peer: 2, Now: nowOK(), Nodes: nodeIDs(t.path(ri.base, ri.heavy))})
		cfBatch(2+v.r3.Intn(3), false, nil)
	case t.trap != nil:
		// ONE headers message from the sync peer, sent while the tip is
		// below the first checkpoint, that matches the first checkpoint
		// and carries a non-checkpointed valid header at the height of
		// the second one
		tr := t.trap
		addPeerAt(1, tr.forkLeaf)
		firstPeer = 2
		full := t.path(t.Nodes[0], tr.forkLeaf)
		j := 0
		if r2.Intn(2) == 0 {
			j = r2.Intn(int(tr.c1)) // heights 1..j (j < c1) are synced first
		}
		if j > 0 {
			emit(Op{Kind: "headers", Peer: 1, Now: nowOK(), Nodes: nodeIDs(full[:j])})
		}
		upto := int(tr.c2) + r2.Intn(3)
		if upto > len(full) {
			upto = len(full)
		}
		emit(Op{Kind: "headers", Peer: 1, Now: nowOK(), Nodes: nodeIDs(full[j:upto])})
		ps[1].sent = full[upto-1]
	case t.reorgLeaf != nil:
		// sync the main chain, commit filter headers up to (nearly) the
		// tip in batches of >= 3, then a peer with a longer branch
		// forking >= 2 blocks below the tip, then filter headers for the
		// new branch; the backlog is probed inside the batches and
		// inside the reorganisation
		mainTip := t.main[len(t.main)-1]
		addPeerAt(1, mainTip)
		full := t.path(t.Nodes[0], mainTip)
		for i := 0; i < 12; i++ {
			// answer like a node: the headers the client does not have yet
			// (a message is cut at a checkpoint, so this may take more
			// messages than len(full)/k)
			var rest []*Node
			for _, n := range full {
				hh := n.Hash
				if _, err := v.e.BS.HeightFromHash(&hh); err != nil {
					rest = append(rest, n)
				}
			}
			if len(rest) == 0 {
				break
			}
			k := 4 + r2.Intn(8)
			if k > len(rest) {
				k = len(rest)
			}
			emit(Op{Kind: "headers", Peer: 1, Now: nowOK(), Nodes: nodeIDs(rest[:k])})
		}
		target := int(mainTip.Height) - r2.Intn(2)
		for i := 0; i < 12; i++ {
			_, ft, err := v.e.FS.ChainTip()
			if err != nil || int(ft) >= target {
				break
			}
			k := 3 + r2.Intn(4)
			if int(ft)+k > target {
				k = target - int(ft)
			}
			if !cfBatch(k, false, midPlan(k)) {
				break
			}
		}
		if v.restartHist && v.r3.Intn(2) == 0 {
			// the longer branch is revealed to a restarted client
			doRestart()
		} else {
			emit(Op{Kind: "donepeer", Peer: 1})
			delete(alive, 1)
		}
		addPeerAt(2, t.reorgLeaf)
		firstPeer = 3
		var branch []*Node
		for _, n := range t.path(t.Nodes[0], t.reorgLeaf) {
			hh := n.Hash
			if _, err := v.e.BS.HeightFromHash(&hh); err != nil {
				branch = append(branch, n)
			}
		}
		if len(branch) > 0 {
			depth := int(mainTip.Height) - int(branch[0].Height) + 1
			emitP(Op{Kind: "headers", Peer: 2, Now: nowOK(), Nodes: nodeIDs(branch)}, midPlan(depth))
			ps[2].sent = t.reorgLeaf
		}
		for i := 0; i < 2; i++ {
			k := 3 + r2.Intn(3)
			if !cfBatch(k, false, midPlan(k)) {
				break
			}
		}
	}
	if npeers < firstPeer {
		npeers = firstPeer - 1
	}
	for id := firstPeer; id <= npeers; id++ {
		addPeer(id)
	}
	nextPeer := npeers + 1
	nowOf := func() int64 {
		switch r.Intn(20) {
		case 0:
			return now0 + 86400*3 // far ahead: chain looks stale
		case 1:
			return now0 - 4000
		default:
			return now0 + int64(r.Intn(600))
		}
	}
	for len(ops) < nops && v.panicked == "" {
		var ids []int
		for id := range alive {
			ids = append(ids, id)
		}
		sort.Ints(ids)
		if len(ids) == 0 {
			addPeer(nextPeer)
			nextPeer++
			continue
		}
		id := ids[r.Intn(len(ids))]
		st := ps[id]
		x := r.Intn(100)
		switch {
		case x < 62: // headers
			full := t.path(t.Nodes[0], st.leaf)
			var seg []*Node
			switch y := r.Intn(20); {
			case y < 11: // answer like a node would: the headers after the fork point with the client's chain
				fork := t.Nodes[0]
				for _, n := range full {
					hh := n.Hash
					if _, err := v.e.BS.HeightFromHash(&hh); err != nil {
						break
					}
					fork = n
				}
				rest := t.path(fork, st.leaf)
				if len(rest) == 0 { // the client has the whole branch: move on to a heavier leaf if there is one
					st.leaf = leaves[r.Intn(len(leaves))]
					continue
				}
				k := 1 + r.Intn(9)
				if k > len(rest) {
					k = len(rest)
				}
				seg = rest[:k]
				st.sent = seg[len(seg)-1]
				if _, bt, err := v.e.BS.ChainTip(); err == nil && v.restartHist && v.restarts < 2 &&
					fork.Height < int32(bt) && v.r3.Intn(2) == 0 {
					// a fork below the stored tip is about to be revealed:
					// restart first; the peer connects again (new id) and
					// answers the restarted client
					doRestart()
					nid := nextPeer
					nextPeer++
					ps[nid] = &pstate{leaf: st.leaf, sent: st.sent}
					alive[nid] = true
					emit(Op{Kind: "newpeer", Peer: nid, Start: st.leaf.Height, Last: st.leaf.Height, Full: true})
					id = nid
				}
			case y < 14: // continue after what was sent, chunked
				rest := t.path(st.sent, st.leaf)
				if len(rest) == 0 {
					rest = full
				}
				k := 1 + r.Intn(7)
				if k > len(rest) {
					k = len(rest)
				}
				seg = rest[:k]
				st.sent = seg[len(seg)-1]
			case y < 17: // any sub-path of the peer's branch (duplicates, overlaps, gaps)
				a := r.Intn(len(full))
				b := a + 1 + r.Intn(len(full)-a)
				seg = full[a:b]
			case y < 19: // switch to another leaf and send its whole branch tail
				st.leaf = leaves[r.Intn(len(leaves))]
				full = t.path(t.Nodes[0], st.leaf)
				a := r.Intn(len(full))
				seg = full[a:]
				st.sent = st.leaf
			default: // not internally connected
				for i := 0; i < 2+r.Intn(3); i++ {
					seg = append(seg, t.Nodes[1+r.Intn(len(t.Nodes)-1)])
				}
				if r.Intn(2) == 0 {
					// ... only between the first and the second header:
					// the first one stored or a child of the stored tip,
					// the rest a linked piece of the peer's branch
					a := r.Intn(len(full))
					first := seg[0]
					if th, bt, err := v.e.BS.ChainTip(); err == nil {
						tipHash := th.BlockHash()
						var cands []*Node
						for _, n := range t.Nodes[1:] {
							hh := n.Hash
							_, e2 := v.e.BS.HeightFromHash(&hh)
							if (e2 == nil && n.Height <= int32(bt)) || (n.Parent >= 0 && t.Nodes[n.Parent].Hash == tipHash) {
								cands = append(cands, n)
							}
						}
						if len(cands) > 0 {
							first = cands[r.Intn(len(cands))]
						}
					}
					if full[a].Parent != first.ID {
						seg = append([]*Node{first}, full[a:]...)
					}
				}
			}
			var ns []int
			for _, n := range seg {
				ns = append(ns, n.ID)
			}
			if len(ns) == 0 {
				continue
			}
			rfail := 0
			if v.rfHist && len(t.P.Checkpoints) == 0 && v.r4.Intn(4) == 0 {
				rfail = 1 + v.r4.Intn(2)
			}
			wfail := 0
			if v.wfHist {
				switch v.r4.Intn(10) {
				case 0, 1:
					wfail = 1
				case 2:
					wfail = 2
				}
			}
			if rfail > 0 {
				wfail = 0
			}
			emit(Op{Kind: "headers", Peer: id, Now: nowOf(), Nodes: ns, WFail: wfail, RFail: rfail})
		case x < 70:
			n := -1
			if r.Intn(5) != 0 {
				n = 1 + r.Intn(len(t.Nodes)-1)
			}
			emit(Op{Kind: "inv", Peer: id, Now: nowOf(), Node: n})
		case x < 78:
			emit(Op{Kind: "donepeer", Peer: id})
			delete(alive, id)
		case x < 84:
			addPeer(nextPeer)
			nextPeer++
		case x < 96: // filter headers for the next blocks of the stored chain
			_, bt, err := v.e.BS.ChainTip()
			_, ft, err2 := v.e.FS.ChainTip()
			if err != nil || err2 != nil || ft >= bt {
				continue
			}
			k := 1 + r.Intn(int(bt-ft))
			if k > 6 {
				k = 6
			}
			if !cfBatch(k, r.Intn(8) == 0, nil) {
				continue
			}
		default:
			// (rollBackToHeight is only ever reached through
			// handleHeadersMsg: reorganisations and checkpoint
			// mismatches; it is not driven directly)
			if v.restartHist && v.restarts < 3 {
				doRestart()
			}
			continue
		}
	}
	return ops
}

func runHistory(id int, seed int64, nops int, base string, replay *History) (h History, v *env) {
	tmpl, err := storeh.Template(base)
	if err != nil {
		panic(err)
	}
	dir := filepath.Join(base, fmt.Sprintf("h%d", id))
	os.RemoveAll(dir)
	if err := storeh.CopyDir(tmpl, dir); err != nil {
		panic(err)
	}
	defer os.RemoveAll(dir)
	r := c.Rng(seed, id)
	r2 := c.Rng(seed, id+500009)
	r3 := c.Rng(seed, id+700001)
	r4 := c.Rng(seed, id+900007)
	restartHist, wfHist := false, false
	now0 := chaincfg.SimNetParams.GenesisBlock.Header.Timestamp.Unix() + 3600
	var ps ParamSpec
	var t *Tree
	if replay != nil {
		ps = replay.Params
		cp := ps.Checkpoints
		ps.Checkpoints = nil
		t = newTree(mkParams(ps, nil))
		for _, n := range replay.Nodes[1:] {
			hd := &wire.BlockHeader{}
			if err := hd.Deserialize(bytes.NewReader(n.Raw)); err != nil {
				panic(err)
			}
			nn := &Node{ID: n.ID, Parent: n.Parent, Height: n.Height, Corrupt: n.Corrupt, Hdr: hd, Raw: n.Raw}
			nn.Hash = hd.BlockHash()
			t.Nodes = append(t.Nodes, nn)
		}
		ps.Checkpoints = cp
	} else {
		ps = ParamSpec{Bpr: int64(3 + r.Intn(6)), NoRetarget: r.Intn(5) < 2, ReduceMin: r.Intn(2) == 0,
			Bip94: r.Intn(6) == 0, BipHeight: []int32{0, 0, 5}[r.Intn(3)], MemCap: []uint32{40, 48, 64, 0}[r.Intn(4)]}
		// scenario histories draw from their own stream (r2); the plain
		// histories are the same with and without them
		// ... and so do the histories with restarts (r3): 12% the scripted
		// restart scenario, another 18% restarts injected into the history
		rmode := r3.Intn(100)
		restartHist = rmode < 30
		// ... and the checkpoint-fork (10%), flip-flop (10%) and
		// write-fault-at-a-checkpoint (8%) scenarios (r4); in another 15%
		// random header-store write faults strike headers messages
		smode := r4.Intn(100)
		wfHist = smode >= 28 && smode < 43
		switch mode := r2.Intn(100); {
		case smode < 10:
			t = genCpForkTree(r4, &ps, now0)
		case smode < 20:
			t = genFlipTree(r4, &ps, now0)
		case smode < 28:
			t = genWfcpTree(r4, &ps, now0)
		case smode >= 43 && smode < 51:
			t = genTrap2Tree(r4, &ps, now0)
		case smode >= 51 && smode < 66:
			t = genCpInvTree(r4, &ps, now0)
		case smode >= 66 && smode < 76:
			t = genRetargetTree(r4, &ps, now0)
		case smode >= 76 && smode < 83:
			t = genStaleCtxTree(r4, &ps, now0)
		case smode >= 83 && smode < 90:
			t = genShortHeavyTree(r4, &ps, now0)
		case smode >= 95:
			t = genCtx2Tree(r4, &ps, now0)
		case smode >= 90 && smode < 95 && *propFlag != "C19":
			t = genFlipTree(r4, &ps, now0)
			t.rbf = true
			ps.Checkpoints = nil
		case rmode < 12:
			t = genRestartTree(r3, &ps, now0)
		case mode < 15:
			t = genTrapTree(r2, &ps, now0)
		case mode < 60 && *propFlag == "C19":
			t = genTree(r, &ps, now0)
			addReorgFork(r2, t, &ps, now0)
		default:
			t = genTree(r, &ps, now0)
		}
	}
	params := mkParams(ps, t)
	t.P = params
	e := &storeh.Env{Dir: dir}
	if err := e.Open(); err != nil {
		panic(err)
	}
	defer e.Close()
	v = &env{dir: dir, e: e, ts: &clock{time.Unix(now0, 0)}, peers: map[int]*neutrino.ServerPeer{}, ftok: map[chainhash.Hash]int64{}, tree: t}
	gf, err := e.FS.FetchHeaderByHeight(0)
	if err != nil {
		panic(err)
	}
	v.gfh = *gf
	v.filterTok(*gf)
	v.params, v.memCap = params, ps.MemCap
	v.r3, v.restartHist = r3, restartHist
	v.r4, v.wfHist = r4, wfHist
	v.rfHist = (wfHist || restartHist) && *propFlag != "C19" && replay == nil
	v.newBM()
	h = History{ID: id, Seed: seed, Params: ps}
	if replay != nil {
		for _, op := range replay.Ops {
			op.Obs, op.Term = "", ""
			plan := op.Probes
			op.Probes = nil
			var evs []blockntfns.BlockNtfn
			func() {
				defer func() {
					if x := recover(); x != nil {
						v.panicked = fmt.Sprint(x)
						v.panicStep = len(h.Ops)
					}
				}()
				if v.ntfn != nil && op.Kind != "restart" {
					evs, op.Probes = v.execProbed(&op, plan, false)
				} else {
					v.exec(&op)
				}
			}()
			if v.hung != "" && v.panicked == "" {
				v.panicked = v.hung
				v.panicStep = len(h.Ops)
			}
			if v.panicked != "" {
				op.Obs, op.Term = "", ""
				h.Ops = append(h.Ops, op)
				break
			}
			var since []int64
			ft := int64(v.bm.FilterHeaderTip())
			since = []int64{0, 1, ft, ft - 1, ft + 1, 2}
			if v.ntfn == nil {
				evs = v.bm.DrainNotifications()
			}
			if op.crashed {
				evs, v.crashEvs = v.crashEvs, nil
			}
			op.Obs = v.observe(evs, since)
			h.Ops = append(h.Ops, op)
		}
	} else {
		h.Ops = genOps(r, r2, t, v, nops, now0)
	}
	for _, n := range t.Nodes {
		if n.Raw == nil && n.ID > 0 {
			var b bytes.Buffer
			n.Hdr.Serialize(&b)
			n.Raw = b.Bytes()
		}
	}
	h.Nodes = t.Nodes
	return h, v
}

func paramsTerm(ps ParamSpec, t *Tree, id int) string {
	p := t.P
	ts := int64(p.TargetTimespan / time.Second)
	var cps []string
	for _, cp := range p.Checkpoints {
		for _, n := range t.Nodes {
			if n.Hash == *cp.Hash {
				cps = append(cps, c.Pair(c.Z(int64(cp.Height)), c.Z(int64(n.ID)+1)))
			}
		}
	}
	memcap := int64(ps.MemCap)
	if memcap == 0 {
		memcap = int64(neutrino.VerifNumMaxMemHeaders())
	}
	return fmt.Sprintf("{| genesis := C%d_H0; powLimit := 0x%s; powLimitBits := %d; bpr := %d; minTs := %d; maxTs := %d; targetTs := %d; reduceMinDiff := %s; minDiffRedTime := %d; noRetarget := %s; bip94 := %s; bip34h := %d; bip65h := %d; bip66h := %d; checkpoints := %s; memCap := %d |}",
		id, new(big.Int).Set(p.PowLimit).Text(16), p.PowLimitBits, t.bpr, t.minTs, t.maxTs, ts,
		c.Bool(p.ReduceMinDifficulty), int64(p.MinDiffReductionTime/time.Second), c.Bool(p.PoWNoRetargeting), c.Bool(p.EnforceBIP94),
		p.BIP0034Height, p.BIP0065Height, p.BIP0066Height, c.List(cps), memcap)
}

func main() {
	a := c.ParseArgs()
	prop := *propFlag
	rep := c.NewReport(prop, a)
	base := filepath.Join(a.Out, "stores")
	os.MkdirAll(base, 0o755)
	defer os.RemoveAll(base)

	n, nops := 60, 30
	if a.Tier == "thorough" {
		n, nops = 1200, 40
	}
	var replay *History
	var corpus []History
	if a.Replay != "" {
		var h History
		c.ReadJSON(a.Replay, &h)
		if len(h.Nodes) == 0 && h.Long == nil {
			// a replay file written by ./check: the history is wrapped
			var w struct {
				History History `json:"history"`
			}
			c.ReadJSON(a.Replay, &w)
			h = w.History
		}
		replay = &h
		n = 1
	} else {
		files, _ := filepath.Glob("../corpus/BM/*.json")
		more, _ := filepath.Glob("../corpus/" + prop + "/*.json")
		files = append(files, more...)
		for _, f := range files {
			var h History
			c.ReadJSON(f, &h)
			corpus = append(corpus, h)
		}
		n += len(corpus)
	}
	// the long-chain backlog histories (long.go): with -prop C19, two fixed
	// shapes per run; they run beside the tree histories
	var longHs []History
	var longFails []string
	var lwg sync.WaitGroup
	startLong := func(id int, spec LongSpec) {
		k := len(longHs)
		longHs = append(longHs, History{})
		longFails = append(longFails, "")
		lwg.Add(1)
		go func() {
			defer lwg.Done()
			longHs[k], longFails[k] = runLong(id, a.Seed, base, spec)
		}()
	}
	finishLong := func() {
		lwg.Wait()
		if len(longHs) == 0 {
			return
		}
		c.WriteFile(filepath.Join(a.Out, "cases_long.v"), longCasesFile(longHs))
		for k := range longHs {
			h := &longHs[k]
			p := filepath.Join(a.Out, fmt.Sprintf("hist-%d.json", h.ID))
			c.WriteJSON(p, h)
			rep.Cases[fmt.Sprint(h.ID)] = p
			rep.Histogram["histories_long_chain_backlog"]++
			rep.Histogram["long_chain_backlog_requests"] += len(h.Long.Reqs)
			if longFails[k] != "" {
				rep.ImplFailures = append(rep.ImplFailures, c.ImplFailure{Case: fmt.Sprint(h.ID), Step: 0,
					What: "long-chain backlog history: " + longFails[k], Tag: "panic"})
			}
		}
		rep.Evaluations += len(longHs)
	}
	if replay != nil && replay.Long != nil {
		sp := *replay.Long
		sp.Term = ""
		startLong(replay.ID, sp)
		finishLong()
		rep.Rule = "replay of a long-chain backlog history"
		rep.Write(a.Out)
		return
	}
	if replay == nil && prop == "C19" {
		for _, ls := range longSpecs {
			startLong(ls.id, LongSpec{N: ls.n, F: ls.f})
		}
	}
	hs := make([]History, n)
	envs := make([]*env, n)
	var wg sync.WaitGroup
	sem := make(chan struct{}, a.Workers)
	for i := 0; i < n; i++ {
		wg.Add(1)
		sem <- struct{}{}
		go func(i int) {
			defer wg.Done()
			defer func() { <-sem }()
			id, rp := i, replay
			if replay != nil {
				id = replay.ID
			} else if i >= n-len(corpus) {
				rp = &corpus[i-(n-len(corpus))]
				id = rp.ID
			}
			hs[i], envs[i] = runHistory(id, a.Seed, nops, base, rp)
		}(i)
	}
	wg.Wait()

	const perShard = 8
	shard := 0
	distinct := c.Signatures{}
	for start := 0; start < n; start += perShard {
		end := start + perShard
		if end > n {
			end = n
		}
		var sb strings.Builder
		sb.WriteString("From stdpp Require Import list.\nFrom Coq Require Import ZArith.\nFrom Verif Require Import S2.Model S2.Replay " + prop + ".Replay.\nOpen Scope Z_scope.\n")
		var names []string
		for i := start; i < end; i++ {
			h := &hs[i]
			t := envs[i].tree
			for _, nd := range t.Nodes {
				sb.WriteString(fmt.Sprintf("Definition C%d_H%d : header := %s.\n", h.ID, nd.ID, hdrTerm(t, nd)))
			}
			sb.WriteString(fmt.Sprintf("Definition C%d_P : params := %s.\n", h.ID, paramsTerm(h.Params, t, h.ID)))
			var items []string
			for j := range h.Ops {
				if h.Ops[j].Obs == "" {
					continue
				}
				term := strings.ReplaceAll(h.Ops[j].Term, "[H", fmt.Sprintf("[C%d_H", h.ID))
				term = strings.ReplaceAll(term, "; H", fmt.Sprintf("; C%d_H", h.ID))
				items = append(items, c.Pair(term, h.Ops[j].Obs))
			}
			var hashes []string
			for _, nd := range t.Nodes {
				hashes = append(hashes, c.Z(int64(nd.ID)+1))
			}
			sb.WriteString(fmt.Sprintf("Definition C%d : bcase := {| bid := %d; bparams := C%d_P; bgfh := %d; bhashes := %s; btrace := %s |}.\n",
				h.ID, h.ID, h.ID, storeh.FilterBase, c.List(hashes), c.List(items)))
			if prop == "C19" {
				pt, ft := probesTerm(h)
				sb.WriteString(fmt.Sprintf("Definition M%d : mcase := {| mbase := C%d; mprobes := %s; mfaults := %s |}.\n", h.ID, h.ID, pt, ft))
				names = append(names, fmt.Sprintf("M%d", h.ID))
			} else {
				names = append(names, fmt.Sprintf("C%d", h.ID))
			}
		}
		sb.WriteString("Definition R := Eval vm_compute in (run_cases " + c.List(names) + ").\nSet Printing Width 1000000.\nSet Printing Depth 1000000.\nPrint R.\n")
		c.WriteFile(filepath.Join(a.Out, fmt.Sprintf("cases_%d.v", shard)), sb.String())
		shard++
	}
	for i := range hs {
		h := &hs[i]
		p := filepath.Join(a.Out, fmt.Sprintf("hist-%d.json", h.ID))
		c.WriteJSON(p, h)
		rep.Cases[fmt.Sprint(h.ID)] = p
		sig := ""
		reorg, cf := false, false
		for _, op := range h.Ops {
			rep.Histogram["op:"+op.Kind]++
			if op.RFail > 0 {
				rep.Histogram["headers_with_rollback_fault_armed"]++
				if op.crashed {
					rep.Histogram["headers_with_rollback_fault_crash_and_restart"]++
				}
			}
			if op.WFail > 0 {
				rep.Histogram["headers_with_write_fault_armed"]++
				if op.wfHit {
					rep.Histogram["headers_with_write_fault_struck"]++
				}
			}
			sig += op.Kind[:1]
			if strings.Contains(op.Obs, "EDisc") {
				reorg = true
				rep.Histogram["ops_with_disconnect_events"]++
			}
			if strings.Contains(op.Obs, "EConn") {
				cf = true
			}
			nconn, ndisc := strings.Count(op.Obs, "EConn"), strings.Count(op.Obs, "EDisc")
			if nconn >= 3 {
				rep.Histogram["filter_batches_of_3_or_more"]++
			}
			if ndisc >= 2 {
				rep.Histogram["reorgs_of_depth_2_or_more"]++
			}
			if op.ftDrop >= 2 {
				rep.Histogram["reorgs_removing_2_or_more_committed_blocks"]++
			}
			for _, p := range op.Probes {
				rep.Histogram["backlog_probes"]++
				rep.Histogram["backlog_requests_with_read_fault"] += len(p.Fs)
				switch {
				case p.K < ndisc:
					rep.Histogram["backlog_probes_inside_reorg"]++
				case p.K < nconn:
					rep.Histogram["backlog_probes_inside_filter_batch"]++
				}
			}
		}
		for _, nd := range envs[i].tree.Nodes {
			if nd.Corrupt != "" {
				rep.Histogram["corrupt:"+nd.Corrupt]++
			}
		}
		if envs[i].hung != "" {
			rep.ImplFailures = append(rep.ImplFailures, c.ImplFailure{Case: fmt.Sprint(h.ID), Step: envs[i].panicStep,
				What: "backlog probe: " + envs[i].hung, Tag: "probe-timeout"})
		} else if envs[i].panicked != "" {
			rep.ImplFailures = append(rep.ImplFailures, c.ImplFailure{Case: fmt.Sprint(h.ID), Step: envs[i].panicStep,
				What: "handler panicked: " + envs[i].panicked, Tag: "panic"})
		}
		if envs[i].tree.trap != nil {
			rep.Histogram["histories_two_checkpoints_in_one_message"]++
		}
		if envs[i].tree.reorgLeaf != nil {
			rep.Histogram["histories_c19_batch_reorg_scenario"]++
		}
		if envs[i].tree.restart != nil {
			rep.Histogram["histories_restart_fork_scenario"]++
		}
		if envs[i].restarts > 0 {
			rep.Histogram["histories_with_restart"]++
		}
		if envs[i].tree.cpf != nil {
			rep.Histogram["histories_checkpoint_fork_scenario"]++
		}
		if envs[i].tree.cpinv != nil {
			rep.Histogram["histories_invalid_extension_below_checkpoint_scenario"]++
		}
		if envs[i].tree.ctx2 != nil {
			rep.Histogram["histories_branch_header_wrong_context_scenario"]++
		}
		if envs[i].tree.stale != nil {
			rep.Histogram["histories_two_reorg_attempts_stale_context_scenario"]++
		}
		if envs[i].tree.shv != nil {
			rep.Histogram["histories_shorter_heavier_branch_scenario"]++
		}
		if envs[i].tree.rtg != nil {
			rep.Histogram["histories_retarget_clamps_scenario"]++
		}
		if envs[i].tree.trap2 != nil {
			rep.Histogram["histories_two_checkpoints_one_reorg_message_scenario"]++
		}
		if envs[i].crashes > 0 {
			rep.Histogram["histories_with_crash_in_rollback"]++
		}
		if envs[i].tree.flip != nil {
			rep.Histogram["histories_flip_flop_scenario"]++
		}
		if envs[i].tree.wfc != nil {
			rep.Histogram["histories_write_fault_at_checkpoint_scenario"]++
		}
		rep.Histogram["tree_nodes"] += len(envs[i].tree.Nodes)
		rep.Histogram["checkpoints"] += len(h.Params.Checkpoints)
		if reorg && cf {
			distinct.Add(sig)
		}
	}
	rep.Evaluations = n
	finishLong()
	rep.DistinctNontrivial = len(distinct)
	rep.Rule = "histories on the real blockManager handlers over real header stores: a random block tree (main chain 8-30, up to 4 forks incl. work ties and longer branches, single-rule corruptions: pow, bits, time-old, time-new, version) under random parameters (retarget interval 3-8, no-retarget / min-difficulty / BIP94 flags, 0-3 checkpoints, in-memory window 2..10000) revealed by 1-4 peers in chunks, duplicates, overlaps, unconnected batches, with inv, peer arrivals/departures, filter-header batches; scenario histories from a separate PRNG stream: (15%) two checkpoints closer together than one headers message with a valid branch leaving the main chain right after the first one, ONE message from the sync peer through both checkpoint heights while the tip is below the first; (-prop C19, 45%) main chain synced, filter headers committed in batches of >= 3 up to the tip, then a longer valid branch forking >= 2 blocks below the tip, then batches on the new branch; histories with restarts from a third PRNG stream (30%): a restart builds a NEW blockManager (newBlockManager through the verif hook) over the SAME stores, re-installs the notification plumbing and forgets all peers, which have to connect again; (12%) scripted: main chain synced under no-retargeting, filter headers committed, restart, then the new sync peer reveals an equal-work and a lighter branch forking >= 2 blocks below the stored tip (below the whole in-memory window: refused) and a heavier one (adopted); (18%) a restart right before a peer reveals a fork below the stored tip, or at a random point; scenario histories from a fourth PRNG stream: (10%) checkpoint fork under no-retargeting: the client follows a side branch whose tip is exactly ONE BELOW a checkpoint when the heavier main chain through the checkpoint is revealed (handed over by peer departure, restart, or a second peer), or its tip is exactly ON the checkpoint when a heavier branch forking below it is revealed (refused), then a heavier branch forking exactly AT the reached checkpoint (adopted); (10%) flip-flop on one running store: A synced, top of A sent again, heavier B adopted, then A extended by 2-3 headers comes back (adopted), from the same or another peer; (8%) two checkpoints closer together than one message, the client on a side branch below the first: ONE competing message from the fork point through both checkpoint heights that matches the first and contradicts the second (invalid: chain unchanged), then the control matching both; in flip-flop histories and the random stream also messages whose first header (stored, or a valid child of the stored tip) is not the parent of the second while the rest is linked; (15%) a checkpoint above the tip and a single-rule-invalid header (time-old / bits with a valid proof of work for the wrong bits / version / time-new / pow) in EXTENSION position below it, alone or as the suffix of a batch with a valid prefix; (10%) retargeting at a difficulty above the minimum with one period far shorter than timespan/4 and one far longer than timespan*4: at both retarget heights the header computed WITHOUT the clamp (refused, in extension and in reorg position) and the clamped one (accepted); in flip-flop and restart-fork histories also a reorganising message whose linked part only ties with the headers it would displace and whose LAST header does not build on the one before it; (7%) two reorganisation attempts in a row on one running block manager: sibling branches A (accepted) and X (tie or one header lighter, refused) whose timestamps lie many median windows apart (X far earlier or far later), then a longer branch Y forking at an A header whose height X covers, its first header's timestamp between the true median time and the one computed over X (invalid Y: refused; valid Y: adopted); (7%) a fork below a retarget boundary whose branch has FEWER headers than it displaces but strictly more work because one of the two retarget clamps binds (branch period far shorter than timespan/4, or the accepted chain's far longer than timespan*4), revealed in one message (adopted); (5%, not with -prop C19) a heavier branch arrives while the block header file cannot be truncated: the k-th BlockHeaders.RollbackLastBlock of the reorganisation fails like a failed ftruncate (index rolled back, bytes still in the file; injected through the file wrapper of the real store), the handler's panic is the death of the process: both stores are re-opened through their constructors (start-up recovery), a new block manager is built, the peers connect again and the branch is offered once more (operation OHeadersR); the same fault also strikes random headers messages of histories without checkpoints; (5%) a branch header judged in the wrong context: a branch longer than the main chain forking 6-8 blocks below the tip whose own (or the main chain's) timestamps run many median windows ahead, its header at exactly tip+1 between the two medians (invalid on its own branch, or valid but too old on the main chain's); or a refused one-header sibling S of a stored non-tip header M with the lowest timestamp the median rule allows (or M with it), then a longer branch forking AT M whose first header's timestamp lies between the median with S and the median with M; (8%) the batch reaching a checkpoint is lost to a failing BlockHeaders.WriteHeaders, then a branch connecting to the stored tip with a different header at the checkpoint height; (15%) the k-th WriteHeaders call (k = 1, 2) of random headers messages fails (a wrapper around the block header store; operation OHeadersF); a restart also closes and re-opens both header stores; with -prop C19 also two fixed long-chain backlog histories (both header stores filled with ~4500 entries, a real block manager over them, NotificationsSinceHeight from 2002/2001/2000/1999 blocks below the committed tip, 1, 100, the tip, one above and 0; run-length encoded, judged by coq/C19/ReplayLong.v); with -prop C19 every operation runs against an unbuffered notification channel and NotificationsSinceHeight is probed while the handler is blocked on event k and after it returned (histogram backlog_probes*), also with the n-th FetchHeaderByHeight of the request made to fail through a wrapper of the block header store (backlog_requests_with_read_fault); non-trivial = the history contains a rollback/reorganisation (disconnect events) and committed filter headers (connect events); distinct = distinct op-kind signature"
	for i := 0; i < n && i < 2; i++ {
		rep.Samples = append(rep.Samples, hs[i])
	}
	rep.Write(a.Out)
}
