package main

// Long-chain backlog histories (-prop C19; C11 runs them too).
//
// The two real header stores are filled with several thousand entries
// (written straight to the stores: the headers carry no proof of work, the
// stores do not look at it), a real block manager is built over them
// (newBlockManager through the verif hook) and asked for backlogs
// (NotificationsSinceHeight) from heights far below the committed tip: 2001,
// 2000 and 1999 blocks below it (2000 = wire.MaxBlockHeadersPerMsg), 1, 100,
// the tip itself and one above. Store contents and answers are printed
// run-length encoded for coq/C19/ReplayLong.v.

import (
	"fmt"
	"os"
	"path/filepath"
	"strings"
	"time"

	"github.com/btcsuite/btcd/chaincfg/v2"
	"github.com/btcsuite/btcd/chainhash/v2"
	"github.com/btcsuite/btcd/wire/v2"
	"github.com/lightninglabs/neutrino"
	"github.com/lightninglabs/neutrino/headerfs"

	c "verifharness/internal/common"
	"verifharness/internal/storeh"
)

// LongSpec describes one long-chain history: N block headers above the
// genesis block, filter headers for the first F of them.
type LongSpec struct {
	N    int     `json:"n"`
	F    int     `json:"f"`
	Reqs []int64 `json:"reqs,omitempty"`
	Term string  `json:"term,omitempty"`
}

var longSpecs = []struct {
	id   int
	n, f int
}{
	{920001, 4500, 4500},
	{920002, 4600, 4203},
}

type run3 struct{ tok, h, n int64 }

func runsTerm(rs []run3) string {
	var it []string
	for _, r := range rs {
		it = append(it, fmt.Sprintf("(%d, %d, %d)", r.tok, r.h, r.n))
	}
	return c.List(it)
}

func addRun(rs []run3, tok, h int64) []run3 {
	if k := len(rs); k > 0 && rs[k-1].tok+rs[k-1].n == tok && rs[k-1].h+rs[k-1].n == h {
		rs[k-1].n++
		return rs
	}
	return append(rs, run3{tok, h, 1})
}

// runLong executes one long-chain history and returns it with the Coq term
// of its case in Long.Term.
func runLong(id int, seed int64, base string, spec LongSpec) (h History, failure string) {
	h = History{ID: id, Seed: seed, Long: &spec}
	tmpl, err := storeh.Template(base)
	if err != nil {
		panic(err)
	}
	dir := filepath.Join(base, fmt.Sprintf("long%d", id))
	os.RemoveAll(dir)
	if err := storeh.CopyDir(tmpl, dir); err != nil {
		panic(err)
	}
	defer os.RemoveAll(dir)
	e := &storeh.Env{Dir: dir}
	if err := e.Open(); err != nil {
		panic(err)
	}
	defer e.Close()
	defer func() {
		if x := recover(); x != nil {
			failure = fmt.Sprint(x)
		}
	}()

	r := c.Rng(seed, id)
	params := chaincfg.SimNetParams
	params.Checkpoints = nil
	tok := map[chainhash.Hash]int64{*params.GenesisHash: 1}
	prev := params.GenesisBlock.Header
	t0 := prev.Timestamp
	var bbatch []headerfs.BlockHeader
	var fbatch []headerfs.FilterHeader
	flush := func() {
		if len(bbatch) > 0 {
			if err := e.BS.WriteHeaders(bbatch...); err != nil {
				panic(err)
			}
			bbatch = nil
		}
		if len(fbatch) > 0 {
			if err := e.FS.WriteHeaders(fbatch...); err != nil {
				panic(err)
			}
			fbatch = nil
		}
	}
	for i := 1; i <= spec.N; i++ {
		hd := &wire.BlockHeader{Version: 4, PrevBlock: prev.BlockHash(), Bits: params.PowLimitBits,
			Timestamp: t0.Add(time.Duration(i) * 10 * time.Second)}
		r.Read(hd.MerkleRoot[:])
		hh := hd.BlockHash()
		tok[hh] = int64(i) + 1
		bbatch = append(bbatch, headerfs.BlockHeader{BlockHeader: hd, Height: uint32(i)})
		if i <= spec.F {
			var fh chainhash.Hash
			r.Read(fh[:])
			fbatch = append(fbatch, headerfs.FilterHeader{HeaderHash: hh, FilterHash: fh, Height: uint32(i)})
		}
		prev = *hd
		if len(bbatch) == 1000 {
			flush()
		}
	}
	flush()

	ts := &clock{t0.Add(time.Duration(spec.N) * 10 * time.Second)}
	bm, err := neutrino.VerifNewBlockManager(params, e.BS, e.FS, ts, 0)
	if err != nil {
		panic(err)
	}

	// the stores as read back by height
	var chain []run3
	for ht := uint32(0); ht < 1000000; ht++ {
		hd, err := e.BS.FetchHeaderByHeight(ht)
		if err != nil {
			break
		}
		chain = addRun(chain, tok[hd.BlockHash()], int64(ht))
	}
	flen := int64(0)
	if _, fh, err := e.FS.ChainTip(); err == nil {
		flen = int64(fh) + 1
	}
	ft := int64(bm.FilterHeaderTip())

	reqs := spec.Reqs
	if len(reqs) == 0 {
		for _, q := range []int64{ft - 2001, ft - 2000, ft - 1999, 1, 100, ft, ft + 1, 0, ft - 1, ft - 2002} {
			if q >= 0 {
				reqs = append(reqs, q)
			}
		}
	}
	var items []string
	for _, q := range reqs {
		ntfns, best, err := bm.NotificationsSinceHeight(uint32(q))
		ans := "None"
		if err == nil {
			var rs []run3
			for _, n := range ntfns {
				hd := n.Header()
				rs = addRun(rs, tok[hd.BlockHash()], int64(n.Height()))
			}
			ans = c.Some(c.Pair(runsTerm(rs), c.Z(int64(best))))
		}
		items = append(items, c.Pair(c.Z(q), ans))
	}
	spec.Reqs = reqs
	spec.Term = fmt.Sprintf("{| lid := %d; lchain := %s; lflen := %d; lftip := %d; lreqs := %s |}",
		id, runsTerm(chain), flen, ft, c.List(items))
	h.Long = &spec
	return h, ""
}

// longCasesFile is the cases file of the long-chain histories.
func longCasesFile(hs []History) string {
	var sb strings.Builder
	sb.WriteString("From stdpp Require Import list.\nFrom Coq Require Import ZArith.\nFrom Verif Require Import S2.Model C19.ReplayLong.\nOpen Scope Z_scope.\n")
	var names []string
	for _, h := range hs {
		if h.Long == nil || h.Long.Term == "" {
			continue
		}
		sb.WriteString(fmt.Sprintf("Definition L%d : lcase := %s.\n", h.ID, h.Long.Term))
		names = append(names, fmt.Sprintf("L%d", h.ID))
	}
	sb.WriteString("Definition R := Eval vm_compute in (run_long " + c.List(names) + ").\nSet Printing Width 1000000.\nSet Printing Depth 1000000.\nPrint R.\n")
	return sb.String()
}
