package main

// Scenario generators on top of the random stream: they draw from their own
// PRNG (r2), so that the histories of the plain stream are the same with and
// without them.

import (
	"math/big"
	"math/rand"

	"github.com/btcsuite/btcd/blockchain"
	"github.com/btcsuite/btcd/chaincfg/v2"
)

// dtFor picks the spacing of the next block: mostly fast, but slow once the
// target has dropped by 2^7 so that mining stays cheap.
func dtFor(r *rand.Rand, cur *Node) int64 {
	easy := new(big.Int).Rsh(chaincfg.SimNetParams.PowLimit, 7)
	if cur != nil && blockchain.CompactToBig(cur.Hdr.Bits).Cmp(easy) < 0 {
		return 45 + int64(r.Intn(20))
	}
	switch r.Intn(6) {
	case 0:
		return 1
	case 1:
		return 25 + int64(r.Intn(30))
	default:
		return 5 + int64(r.Intn(12))
	}
}

// genTrapTree: main chain with two checkpoints at heights c1 < c2 = c1 + 1..4
// and a valid branch forking off the block at height c1 that reaches at least
// height c2 (so ONE headers message can match checkpoint c1 and carry a
// non-checkpointed, otherwise valid header at height c2).
func genTrapTree(r *rand.Rand, ps *ParamSpec, now0 int64) *Tree {
	t := newTree(mkParams(*ps, nil))
	n := 10 + r.Intn(16)
	cur := t.Nodes[0]
	for i := 0; i < n; i++ {
		cur = t.mine(r, cur, dtFor(r, cur), "", now0)
		t.main = append(t.main, cur)
	}
	c1 := 2 + r.Intn(n-7)     // 2 .. n-6
	c2 := c1 + 1 + r.Intn(4)  // c1+1 .. c1+4 <= n-2
	fl := c2 - c1 + r.Intn(4) // the branch reaches height c2 .. c2+3
	cur = t.main[c1-1]
	for i := 0; i < fl; i++ {
		cur = t.mine(r, cur, dtFor(r, cur), "", now0)
	}
	t.trap = &trapInfo{c1: int32(c1), c2: int32(c2), forkLeaf: cur}
	// sometimes another valid branch from below the first checkpoint, longer
	// than the main chain (a reorganisation across checkpoints must be refused)
	if r.Intn(3) == 0 {
		b := r.Intn(c1)
		cur = t.Nodes[0]
		if b > 0 {
			cur = t.main[b-1]
		}
		for i := 0; i < n-b+1 && i < 14; i++ {
			cur = t.mine(r, cur, dtFor(r, cur), "", now0)
		}
	}
	ps.Checkpoints = []int{t.main[c1-1].ID, t.main[c2-1].ID}
	if r.Intn(3) == 0 {
		h3 := c2 + 2 + r.Intn(n-c2-1) // c2+2 .. n
		ps.Checkpoints = append(ps.Checkpoints, t.main[h3-1].ID)
	}
	return t
}

// addReorgFork adds a valid branch that forks d >= 2 blocks below the tip of
// the main chain (not below the newest checkpoint) and is longer than the
// part it replaces.
func addReorgFork(r *rand.Rand, t *Tree, ps *ParamSpec, now0 int64) {
	tip := len(t.main)
	maxcp := 0
	for _, id := range ps.Checkpoints {
		if h := int(t.Nodes[id].Height); h > maxcp {
			maxcp = h
		}
	}
	d := 2 + r.Intn(4)
	for d > 0 && tip-d < maxcp {
		d--
	}
	if d < 1 {
		return
	}
	base := t.Nodes[0]
	if tip-d > 0 {
		base = t.main[tip-d-1]
	}
	cur := base
	for i := 0; i < d+1+r.Intn(2); i++ {
		cur = t.mine(r, cur, dtFor(r, cur), "", now0)
	}
	t.reorgLeaf = cur
}

// genRestartTree: main chain of 8..18 blocks without retargeting (work =
// number of headers) and three valid branches forking d = 2..5 blocks below
// its tip: equal work, less work, more work. At most one checkpoint, at or
// below the fork point.
func genRestartTree(r *rand.Rand, ps *ParamSpec, now0 int64) *Tree {
	ps.NoRetarget = true
	t := newTree(mkParams(*ps, nil))
	n := 8 + r.Intn(11)
	cur := t.Nodes[0]
	for i := 0; i < n; i++ {
		cur = t.mine(r, cur, dtFor(r, cur), "", now0)
		t.main = append(t.main, cur)
	}
	d := 2 + r.Intn(4)
	base := t.main[n-d-1] // height n-d
	grow := func(l int) *Node {
		c0 := base
		for i := 0; i < l; i++ {
			c0 = t.mine(r, c0, dtFor(r, c0), "", now0)
		}
		return c0
	}
	t.restart = &restartInfo{base: base, tie: grow(d), light: grow(d - 1), heavy: grow(d + 1)}
	if r.Intn(3) == 0 {
		ps.Checkpoints = []int{t.main[r.Intn(n-d)].ID} // height 1 .. n-d
	}
	return t
}

func (t *Tree) atHeight(h int) *Node {
	if h == 0 {
		return t.Nodes[0]
	}
	return t.main[h-1]
}

func (t *Tree) grow(r *rand.Rand, from *Node, l int, now0 int64) *Node {
	c0 := from
	for i := 0; i < l; i++ {
		c0 = t.mine(r, c0, dtFor(r, c0), "", now0)
	}
	return c0
}

// genCpForkTree: see cpForkInfo. No retargeting: work = number of headers.
func genCpForkTree(r *rand.Rand, ps *ParamSpec, now0 int64) *Tree {
	ps.NoRetarget = true
	t := newTree(mkParams(*ps, nil))
	n := 10 + r.Intn(9)
	t.main = nil
	cur := t.Nodes[0]
	for i := 0; i < n; i++ {
		cur = t.mine(r, cur, dtFor(r, cur), "", now0)
		t.main = append(t.main, cur)
	}
	c := 4 + r.Intn(n-6) // 4 .. n-3
	dA := 1 + r.Intn(3)
	fA := c - 1 - dA
	fC := c - 1 - r.Intn(3)
	if fC < 0 {
		fC = 0
	}
	info := &cpForkInfo{c: int32(c)}
	info.sideA = t.grow(r, t.atHeight(fA), dA, now0)
	info.sideB = t.grow(r, t.atHeight(c), n-c+1, now0)
	info.forkC = t.atHeight(fC)
	info.sideC = t.grow(r, info.forkC, n-fC+1, now0)
	t.cpf = info
	ps.Checkpoints = []int{t.main[c-1].ID}
	return t
}

// genFlipTree: see flipInfo.
func genFlipTree(r *rand.Rand, ps *ParamSpec, now0 int64) *Tree {
	ps.NoRetarget = true
	t := newTree(mkParams(*ps, nil))
	n := 8 + r.Intn(8)
	cur := t.Nodes[0]
	for i := 0; i < n; i++ {
		cur = t.mine(r, cur, dtFor(r, cur), "", now0)
		t.main = append(t.main, cur)
	}
	d := 1 + r.Intn(3)
	info := &flipInfo{fork: t.atHeight(n - d), aTip: cur}
	info.bTip = t.grow(r, info.fork, d+1, now0)
	info.aExt = t.grow(r, cur, 2+r.Intn(2), now0)
	t.flip = info
	if r.Intn(3) == 0 {
		ps.Checkpoints = []int{t.main[r.Intn(n-d)].ID}
	}
	return t
}

// genWfcpTree: see wfcpInfo.
func genWfcpTree(r *rand.Rand, ps *ParamSpec, now0 int64) *Tree {
	t := newTree(mkParams(*ps, nil))
	n := 10 + r.Intn(7)
	cur := t.Nodes[0]
	for i := 0; i < n; i++ {
		cur = t.mine(r, cur, dtFor(r, cur), "", now0)
		t.main = append(t.main, cur)
	}
	c := 4 + r.Intn(n-6) // 4 .. n-3
	j := r.Intn(3)
	t0 := c - 1 - j
	info := &wfcpInfo{c: int32(c), t0: t.atHeight(t0)}
	info.side = t.grow(r, info.t0, j+2+r.Intn(3), now0)
	t.wfc = info
	ps.Checkpoints = []int{t.main[c-1].ID}
	if r.Intn(2) == 0 && c+2 <= n {
		ps.Checkpoints = append(ps.Checkpoints, t.main[c+1+r.Intn(n-c-1)].ID)
	}
	return t
}

// genTrap2Tree: see trap2Info. No retargeting: work = number of headers.
func genTrap2Tree(r *rand.Rand, ps *ParamSpec, now0 int64) *Tree {
	ps.NoRetarget = true
	t := newTree(mkParams(*ps, nil))
	n := 12 + r.Intn(9)
	cur := t.Nodes[0]
	for i := 0; i < n; i++ {
		cur = t.mine(r, cur, dtFor(r, cur), "", now0)
		t.main = append(t.main, cur)
	}
	c1 := 3 + r.Intn(n-9)    // 3 .. n-7
	c2 := c1 + 1 + r.Intn(4) // <= n-3
	f := r.Intn(c1 - 1)      // 0 .. c1-2
	info := &trap2Info{c1: int32(c1), c2: int32(c2), base: t.atHeight(f)}
	info.side = t.grow(r, info.base, 1+r.Intn(c1-1-f), now0) // tip <= c1-1
	info.forkLeaf = t.grow(r, t.atHeight(c1), c2-c1+r.Intn(3), now0)
	t.trap2 = info
	ps.Checkpoints = []int{t.main[c1-1].ID, t.main[c2-1].ID}
	return t
}

// genCpInvTree: see cpInvInfo.
func genCpInvTree(r *rand.Rand, ps *ParamSpec, now0 int64) *Tree {
	t := newTree(mkParams(*ps, nil))
	n := 10 + r.Intn(9)
	cur := t.Nodes[0]
	for i := 0; i < n; i++ {
		cur = t.mine(r, cur, dtFor(r, cur), "", now0)
		t.main = append(t.main, cur)
	}
	c := 5 + r.Intn(n-6) // 5 .. n-2
	h := 2 + r.Intn(c-2) // 2 .. c-1
	kind := []string{"time-old", "time-old", "time-old", "time-old", "bits", "bits", "bits", "version", "time-new", "pow"}[r.Intn(10)]
	info := &cpInvInfo{c: int32(c), h: int32(h)}
	info.bad = t.mine(r, t.atHeight(h-1), dtFor(r, t.atHeight(h-1)), kind, now0)
	info.badLeaf = info.bad
	if r.Intn(2) == 0 {
		info.badLeaf = t.grow(r, info.bad, 1+r.Intn(2), now0)
	}
	t.cpinv = info
	ps.Checkpoints = []int{t.main[c-1].ID}
	if r.Intn(3) == 0 && c+2 <= n {
		ps.Checkpoints = append(ps.Checkpoints, t.main[c+1+r.Intn(n-c-1)].ID)
	}
	return t
}

// genRetargetTree: see retargetInfo.
func genRetargetTree(r *rand.Rand, ps *ParamSpec, now0 int64) *Tree {
	ps.NoRetarget, ps.ReduceMin = false, false
	t := newTree(mkParams(*ps, nil))
	b := int(t.bpr)
	cur := t.Nodes[0]
	add := func(dt int64) {
		cur = t.mine(r, cur, dt, "", now0)
		t.main = append(t.main, cur)
	}
	// heights 1 .. 2b-1: one second apart (periods far shorter than
	// timespan/4): the target drops by 4 at height b and again at 2b
	for len(t.main) < 2*b-1 {
		add(1)
	}
	info := &retargetInfo{hMin: int32(2 * b), hMax: int32(3 * b)}
	info.minBad = t.mine(r, cur, 1, "noclamp", now0)
	add(1) // height 2b, correctly clamped
	// heights 2b+1 .. 3b-1: far apart (period longer than timespan*4, but
	// short enough for the unclamped target to stay below the limit)
	slow := int64(40*b/(b-1)) * int64(3+r.Intn(3)) / 2 // 1.5 .. 2.5 times the bound
	for len(t.main) < 3*b-1 {
		add(slow)
	}
	info.maxBad = t.mine(r, cur, 10, "noclamp", now0)
	add(10) // height 3b, correctly clamped
	for i := 2 + r.Intn(4); i > 0; i-- {
		add(5 + int64(r.Intn(10)))
	}
	n := len(t.main)
	info.minBadLeaf = t.grow(r, info.minBad, n-2*b+1, now0)
	info.maxBadLeaf = t.grow(r, info.maxBad, n-3*b+1, now0)
	t.rtg = info
	return t
}

func (t *Tree) growDt(r *rand.Rand, from *Node, l int, dt int64, now0 int64) *Node {
	c0 := from
	for i := 0; i < l; i++ {
		c0 = t.mine(r, c0, dt, "", now0)
	}
	return c0
}

// genStaleCtxTree: see staleCtxInfo. No retargeting: work = number of headers.
func genStaleCtxTree(r *rand.Rand, ps *ParamSpec, now0 int64) *Tree {
	ps.NoRetarget = true
	t := newTree(mkParams(*ps, nil))
	m := 12 + r.Intn(5)
	cur := t.Nodes[0]
	for i := 0; i < m; i++ {
		cur = t.mine(r, cur, 300+int64(r.Intn(300)), "", now0)
		t.main = append(t.main, cur)
	}
	info := &staleCtxInfo{low: r.Intn(2) == 0, fork: cur}
	a := 8 + r.Intn(3)                 // headers of A
	wide := int64(4000 + r.Intn(3000)) // many median windows of the narrow branch
	narrow := int64(1 + r.Intn(3))
	aDt, xDt := wide, narrow
	if !info.low {
		aDt, xDt = narrow, wide
	}
	var aNodes []*Node
	c0 := cur
	for i := 0; i < a; i++ {
		c0 = t.mine(r, c0, aDt, "", now0)
		aNodes = append(aNodes, c0)
		t.main = append(t.main, c0)
	}
	info.aTip = c0
	xl := a
	if r.Intn(3) == 0 {
		xl = a - 1 // lighter instead of a tie
	}
	info.xTip = t.growDt(r, cur, xl, xDt, now0)
	// Y forks at A_j (1-based), 6 <= j <= min(a, xl) - 1: X covers that height
	top := xl
	j := 6 + r.Intn(top-6)
	info.yFork = aNodes[j-1]
	ft := info.fork.Hdr.Timestamp.Unix()
	if info.low {
		// true median = A_(j-5) >= fork + wide; X's headers end at
		// fork + xl*narrow: in between, NOT after the true median
		t.forceTime = ft + wide/2
	} else {
		// true median ~ fork + j*narrow; X's headers run up to
		// fork + xl*wide: after the true median, far below X's median
		t.forceTime = info.yFork.Hdr.Timestamp.Unix() + 5 + int64(r.Intn(20))
	}
	y1 := t.mine(r, info.yFork, 0, "", now0)
	if info.low {
		y1.Corrupt = "time-old"
	}
	info.yTip = t.growDt(r, y1, a-j+r.Intn(2), 5+int64(r.Intn(10)), now0) // a-j+1 .. a-j+2 headers against a-j
	// every timestamp of the tree must be acceptable to the clock
	mx := int64(0)
	for _, n := range t.Nodes {
		if u := n.Hdr.Timestamp.Unix(); u > mx {
			mx = u
		}
	}
	info.nowBig = mx + 60
	t.stale = info
	return t
}

// genShortHeavyTree: see shortHeavyInfo. Retargeting on, min-difficulty off.
func genShortHeavyTree(r *rand.Rand, ps *ParamSpec, now0 int64) *Tree {
	ps.NoRetarget, ps.ReduceMin, ps.Bip94 = false, false, false
	if ps.Bpr < 4 {
		ps.Bpr = 4
	}
	t := newTree(mkParams(*ps, nil))
	b := int(t.bpr)
	cur := t.Nodes[0]
	add := func(dt int64) {
		cur = t.mine(r, cur, dt, "", now0)
		t.main = append(t.main, cur)
	}
	info := &shortHeavyInfo{maxSide: r.Intn(2) == 0}
	pace := int64(10) // the target spacing: a period at this pace leaves the difficulty alone
	R := b            // the retarget height the two branches cross
	if info.maxSide {
		// two fast periods first: the difficulty is 16 times the minimum
		for len(t.main) < 2*b-1 {
			add(1)
		}
		add(1)
		R = 3 * b
	}
	// the fork point is the first or second block of the period before R
	for len(t.main) < R-b+1+r.Intn(2) {
		add(pace)
	}
	info.fork = cur
	f := len(t.main)
	x := 4 + r.Intn(3)           // A's headers after the retarget
	y := 2                       // B's: 4*y > x, y < x
	aPre, bPre := pace, int64(1) // min side: B's period is far shorter than timespan/4: 4 times harder
	if info.maxSide {
		// A's period is far longer than timespan*4: 4 times easier; B's is on pace
		aPre, bPre = int64(40*b/(b-1))*2, pace
	}
	for len(t.main) < R-1 {
		add(aPre)
	}
	for i := 0; i < x; i++ {
		add(pace)
	}
	info.aTip = cur
	bp := t.growDt(r, info.fork, R-1-f, bPre, now0)
	info.bTip = t.growDt(r, bp, y, pace, now0)
	t.shv = info
	return t
}

// genCtx2Tree: see ctx2Info. No retargeting: work = number of headers.
func genCtx2Tree(r *rand.Rand, ps *ParamSpec, now0 int64) *Tree {
	ps.NoRetarget = true
	t := newTree(mkParams(*ps, nil))
	info := &ctx2Info{kind: r.Intn(4)}
	cur := t.Nodes[0]
	add := func(dt int64) {
		cur = t.mine(r, cur, dt, "", now0)
		t.main = append(t.main, cur)
	}
	norm := func() int64 { return 300 + int64(r.Intn(300)) }
	wide := int64(8000 + r.Intn(3000))
	switch info.kind {
	case 0, 1:
		f := 12 + r.Intn(4)
		d := 6 + r.Intn(3)
		for len(t.main) < f {
			add(norm())
		}
		info.fork = cur
		mainDt, wDt := norm, func() int64 { return wide }
		if info.kind == 1 {
			mainDt, wDt = func() int64 { return wide }, func() int64 { return 1 + int64(r.Intn(3)) }
		}
		for i := 0; i < d; i++ {
			add(mainDt())
		}
		info.mainTip = cur
		w := info.fork
		for i := 0; i < d; i++ {
			w = t.mine(r, w, wDt(), "", now0)
		}
		// the header at exactly tip+1
		if info.kind == 0 {
			// after the main chain's median, not after its own (W_(d-5))
			t.forceTime = info.mainTip.Hdr.Timestamp.Unix() + 10
		} else {
			// after its own median, not after the main chain's (M_(tip-5))
			t.forceTime = w.Hdr.Timestamp.Unix() + 5
		}
		w = t.mine(r, w, 0, "", now0)
		if info.kind == 0 {
			w.Corrupt = "time-old"
		}
		info.wTip = t.growDt(r, w, 1+r.Intn(2), 5+int64(r.Intn(10)), now0)
	default:
		j := 12 + r.Intn(4) // height of M
		for len(t.main) < j-1 {
			add(norm())
		}
		info.sPar = cur
		// the lowest timestamp the median rule allows at height j
		low := t.medianTime(cur) + 1
		if info.kind == 2 {
			t.forceTime = low
			info.s = t.mine(r, cur, 0, "", now0)
			add(norm()) // M: ordinary
		} else {
			t.forceTime = cur.Hdr.Timestamp.Unix() + wide
			info.s = t.mine(r, cur, 0, "", now0)
			t.forceTime = low
			add(0) // M: as low as allowed
		}
		info.fork = cur
		up := 1 + r.Intn(4)
		for i := 0; i < up; i++ {
			add(norm())
		}
		info.mainTip = cur
		// Y1's parent is handed to the check explicitly; the header at
		// height j is looked up as an ANCESTOR from Y2 on. Y2's ancestors:
		// Y1 (the largest), the header at height j, main[j-1 .. j-9].
		// With an ordinary header at j the median is main[j-4], with the
		// lowest possible one (between main[j-6] and main[j-5]) it is
		// main[j-5]: Y2 = main[j-4] is not after the former and after the
		// latter. kind 2: M ordinary, S low: Y2 invalid; kind 3: M low, S
		// high: Y2 valid.
		y := t.mine(r, info.fork, norm(), "", now0)
		t.forceTime = t.atHeight(j - 4).Hdr.Timestamp.Unix()
		y = t.mine(r, y, 0, "", now0)
		if info.kind == 2 {
			y.Corrupt = "time-old"
		}
		info.wTip = t.growDt(r, y, up-1+r.Intn(2), 5+int64(r.Intn(10)), now0)
	}
	mx := int64(0)
	for _, n := range t.Nodes {
		if u := n.Hdr.Timestamp.Unix(); u > mx {
			mx = u
		}
	}
	info.nowBig = mx + 60
	t.ctx2 = info
	return t
}
