package main

import (
	"math/big"
	"math/rand"
	"time"

	"github.com/btcsuite/btcd/blockchain"
	"github.com/btcsuite/btcd/chaincfg/v2"
	"github.com/btcsuite/btcd/chainhash/v2"
	"github.com/btcsuite/btcd/wire/v2"
)

// Node is a block header in the generated tree.
type Node struct {
	ID      int               `json:"id"`
	Parent  int               `json:"parent"`
	Height  int32             `json:"height"`
	Corrupt string            `json:"corrupt,omitempty"`
	Hdr     *wire.BlockHeader `json:"-"`
	Hash    chainhash.Hash    `json:"-"`
	// serialised header for replay
	Raw []byte `json:"raw"`
}

// Tree is a block tree rooted at the genesis block of the parameter set.
type Tree struct {
	P     *chaincfg.Params
	Nodes []*Node
	bpr   int32
	minTs int64
	maxTs int64

	// generator bookkeeping (not part of a stored history)
	main      []*Node   // the main chain, main[i] at height i+1
	reorgLeaf *Node     // -prop C19 scenario: tip of a valid branch longer than the main chain
	trap      *trapInfo // two-checkpoints-in-one-message scenario
	restart   *restartInfo
	cpf       *cpForkInfo
	flip      *flipInfo
	wfc       *wfcpInfo
	trap2     *trap2Info
	cpinv     *cpInvInfo
	rtg       *retargetInfo
	stale     *staleCtxInfo
	shv       *shortHeavyInfo

	rbf  bool // flip tree used for the failing-rollback scenario
	ctx2 *ctx2Info

	// forceTime, if non-zero, is the timestamp of the next mined header
	// (valid or not); reset by mine
	forceTime int64
}

// staleCtxInfo: two reorganisation attempts in a row. The accepted chain is
// main ++ A (A forks at fork); X forks at fork too, ties with A or is one
// header shorter, and its timestamps are many median windows away from A's
// (low: X far earlier, high: X far later). Y forks at an A header whose height
// X covers and is longer than what it displaces; the timestamp of its first
// header lies between the median time of its true ancestors and the median
// computed over X's headers: with low, Y is INVALID (not after the true
// median), with high it is valid.
type staleCtxInfo struct {
	low              bool
	fork, aTip, xTip *Node
	yFork, yTip      *Node
	nowBig           int64
}

// shortHeavyInfo: a fork below a retarget boundary; B has FEWER headers than
// A has above the fork point but strictly more work, because the two
// branches' retarget periods differ so much that one of the clamps binds.
type shortHeavyInfo struct {
	fork, aTip, bTip *Node
	maxSide          bool
}

// cpInvInfo: a checkpoint at height c above everything the client has; bad is
// a single-rule-invalid child of the main-chain block at height h-1 < c-1
// (badLeaf = bad or a valid child of it).
type cpInvInfo struct {
	c, h    int32
	bad     *Node
	badLeaf *Node
}

// retargetInfo: a chain with retargeting whose second period is much shorter
// than timespan/4 and whose third is much longer than timespan*4, so that both
// clamps of the difficulty adjustment bind at a difficulty above the minimum;
// minBad / maxBad are the headers at those retarget heights computed WITHOUT
// the clamp (valid proof of work for their own bits), each with a branch on
// top that is longer than the main chain above it.
type retargetInfo struct {
	hMin, hMax         int32
	minBad, minBadLeaf *Node
	maxBad, maxBadLeaf *Node
}

// trap2Info: two checkpoints c1 < c2 <= c1+4 on the main chain; side leaves
// the main chain at base (below c1) and ends below c1; forkLeaf leaves the
// main chain right after c1 and runs past c2's height with a header that is
// not the checkpoint. A client on side gets ONE message from base through
// both checkpoint heights: along forkLeaf it matches c1 and contradicts c2
// (invalid branch: chain unchanged), along the main chain it matches both.
type trap2Info struct {
	c1, c2               int32
	base, side, forkLeaf *Node
}

// cpForkInfo: checkpoint at height c on the main chain; sideA leaves the main
// chain below c and ends at height c-1 (a client on it has its tip exactly
// one below the checkpoint); sideB forks AT the checkpoint block and is
// longer than the main chain above it; sideC forks below the checkpoint and
// is longer than the main chain (must be refused once c is reached).
type cpForkInfo struct {
	c                   int32
	sideA, sideB, sideC *Node
	forkC               *Node
}

// flipInfo: branch B forks off the main chain (A) at fork and is one header
// longer; aExt extends A's old tip aTip so that A is the heavier one again.
type flipInfo struct {
	fork, aTip, bTip, aExt *Node
}

// wfcpInfo: checkpoint at height c; side leaves the main chain at t0 < c and
// runs past height c (its header at height c is not the checkpoint).
type wfcpInfo struct {
	c    int32
	t0   *Node
	side *Node
}

// restartInfo: three valid branches forking off the main chain at base, d >= 2
// blocks below its tip, under no-retargeting (every header carries the same
// work): tie has d headers, light d-1, heavy d+1.
type restartInfo struct {
	base, tie, light, heavy *Node
}

// trapInfo describes a tree with two checkpoints (heights c1 < c2, both on
// the main chain) closer together than one headers message and a valid branch
// that leaves the main chain right after the first one and runs past the
// height of the second.
type trapInfo struct {
	c1, c2   int32
	forkLeaf *Node
}

func newTree(p *chaincfg.Params) *Tree {
	t := &Tree{P: p}
	ts := int64(p.TargetTimespan / time.Second)
	t.bpr = int32(ts / int64(p.TargetTimePerBlock/time.Second))
	t.minTs = ts / p.RetargetAdjustmentFactor
	t.maxTs = ts * p.RetargetAdjustmentFactor
	g := &Node{ID: 0, Parent: -1, Height: 0, Hdr: &p.GenesisBlock.Header}
	g.Hash = g.Hdr.BlockHash()
	t.Nodes = append(t.Nodes, g)
	return t
}

func (t *Tree) anc(n *Node, h int32) *Node {
	if h < 0 || h > n.Height {
		return nil
	}
	for n.Height > h {
		n = t.Nodes[n.Parent]
	}
	return n
}

// requiredBits transliterates btcd's calcNextRequiredDifficulty over the tree.
func (t *Tree) requiredBits(last *Node, newTime int64) uint32 {
	p := t.P
	if p.PoWNoRetargeting {
		return p.PowLimitBits
	}
	if (last.Height+1)%t.bpr != 0 {
		if p.ReduceMinDifficulty {
			red := int64(p.MinDiffReductionTime / time.Second)
			if newTime > last.Hdr.Timestamp.Unix()+red {
				return p.PowLimitBits
			}
			it := last
			for it != nil && it.Height%t.bpr != 0 && it.Hdr.Bits == p.PowLimitBits {
				if it.Parent < 0 {
					it = nil
				} else {
					it = t.Nodes[it.Parent]
				}
			}
			if it == nil {
				return p.PowLimitBits
			}
			return it.Hdr.Bits
		}
		return last.Hdr.Bits
	}
	first := t.anc(last, last.Height-(t.bpr-1))
	if first == nil {
		return p.PowLimitBits
	}
	actual := last.Hdr.Timestamp.Unix() - first.Hdr.Timestamp.Unix()
	adj := actual
	if actual < t.minTs {
		adj = t.minTs
	} else if actual > t.maxTs {
		adj = t.maxTs
	}
	old := blockchain.CompactToBig(last.Hdr.Bits)
	if p.EnforceBIP94 {
		old = blockchain.CompactToBig(first.Hdr.Bits)
	}
	nt := new(big.Int).Mul(old, big.NewInt(adj))
	nt.Div(nt, big.NewInt(int64(p.TargetTimespan/time.Second)))
	if nt.Cmp(p.PowLimit) > 0 {
		nt.Set(p.PowLimit)
	}
	return blockchain.BigToCompact(nt)
}

func (t *Tree) medianTime(n *Node) int64 {
	var ts []int64
	it := n
	for i := 0; i < 11 && it != nil; i++ {
		ts = append(ts, it.Hdr.Timestamp.Unix())
		if it.Parent < 0 {
			it = nil
		} else {
			it = t.Nodes[it.Parent]
		}
	}
	for i := 1; i < len(ts); i++ {
		for j := i; j > 0 && ts[j] < ts[j-1]; j-- {
			ts[j], ts[j-1] = ts[j-1], ts[j]
		}
	}
	return ts[len(ts)/2]
}

// mine adds a child of parent. corrupt selects one rule to break ("" = valid).
func (t *Tree) mine(r *rand.Rand, parent *Node, dt int64, corrupt string, now int64) *Node {
	tm := parent.Hdr.Timestamp.Unix() + dt
	mtp := t.medianTime(parent)
	if tm <= mtp {
		tm = mtp + 1
	}
	if t.forceTime != 0 {
		tm, t.forceTime = t.forceTime, 0
	}
	switch corrupt {
	case "time-old":
		tm = mtp - int64(r.Intn(3))
	case "time-new":
		tm = now + 7201 + int64(r.Intn(1000))
	}
	bits := t.requiredBits(parent, tm)
	ver := int32(4)
	switch corrupt {
	case "noclamp":
		// the difficulty a retarget would give if the measured timespan
		// of the period were not clamped to [timespan/4, timespan*4]
		mn, mx := t.minTs, t.maxTs
		t.minTs, t.maxTs = 1, 1<<40
		bits = t.requiredBits(parent, tm)
		t.minTs, t.maxTs = mn, mx
	case "bits":
		alt := []uint32{0x1d00ffff, 0x207ffffe, 0x1f7fffff, bits + 1}
		bits = alt[r.Intn(len(alt))]
	case "version":
		ver = int32(1 + r.Intn(3))
	}
	h := &wire.BlockHeader{Version: ver, PrevBlock: parent.Hash, Timestamp: time.Unix(tm, 0), Bits: bits}
	r.Read(h.MerkleRoot[:])
	target := blockchain.CompactToBig(bits)
	// descendants of a header with corrupted difficulty bits inherit a hard
	// target; they are unreachable for a correct client anyway: do not grind
	hard := target.Cmp(new(big.Int).Rsh(t.P.PowLimit, 24)) < 0
	for nonce := uint32(r.Intn(1 << 20)); ; nonce++ {
		h.Nonce = nonce
		hh := h.BlockHash()
		ok := blockchain.HashToBig(&hh).Cmp(target) <= 0
		if corrupt == "pow" {
			ok = !ok
		}
		if hard {
			// the difficulty mismatch is detected before the proof of
			// work is looked at; do not grind against a hard target
			// (a wrong but easy target gets a proper proof of work, so
			// that only the difficulty rule speaks against the header)
			ok = true
		}
		if ok {
			break
		}
	}
	n := &Node{ID: len(t.Nodes), Parent: parent.ID, Height: parent.Height + 1, Hdr: h, Corrupt: corrupt}
	n.Hash = h.BlockHash()
	t.Nodes = append(t.Nodes, n)
	return n
}

// path returns the nodes from the child of ancestor a down to n.
func (t *Tree) path(a, n *Node) []*Node {
	var p []*Node
	for n != nil && n != a {
		p = append([]*Node{n}, p...)
		if n.Parent < 0 {
			return nil
		}
		n = t.Nodes[n.Parent]
	}
	if n != a {
		return nil
	}
	return p
}

// ---- blockchain.HeaderCtx / ChainCtx over the tree, to cross-check the
// generator against btcd's own rules ----
type tctx struct {
	t *Tree
	n *Node
}

func (c tctx) Height() int32    { return c.n.Height }
func (c tctx) Bits() uint32     { return c.n.Hdr.Bits }
func (c tctx) Timestamp() int64 { return c.n.Hdr.Timestamp.Unix() }
func (c tctx) Parent() blockchain.HeaderCtx {
	if c.n.Parent < 0 {
		return nil
	}
	return tctx{c.t, c.t.Nodes[c.n.Parent]}
}
func (c tctx) RelativeAncestorCtx(d int32) blockchain.HeaderCtx {
	a := c.t.anc(c.n, c.n.Height-d)
	if a == nil {
		return nil
	}
	return tctx{c.t, a}
}

type cctx struct{ t *Tree }

func (c cctx) ChainParams() *chaincfg.Params                         { return c.t.P }
func (c cctx) BlocksPerRetarget() int32                              { return c.t.bpr }
func (c cctx) MinRetargetTimespan() int64                            { return c.t.minTs }
func (c cctx) MaxRetargetTimespan() int64                            { return c.t.maxTs }
func (c cctx) VerifyCheckpoint(int32, *chainhash.Hash) bool          { return true }
func (c cctx) FindPreviousCheckpoint() (blockchain.HeaderCtx, error) { return nil, nil }

// btcdAccepts runs btcd's contextual + context-free header checks.
func (t *Tree) btcdAccepts(n *Node, now time.Time) bool {
	parent := t.Nodes[n.Parent]
	if err := blockchain.CheckBlockHeaderContext(n.Hdr, tctx{t, parent}, blockchain.BFNone, cctx{t}, true); err != nil {
		return false
	}
	return blockchain.CheckBlockHeaderSanity(n.Hdr, t.P.PowLimit, fixedTime{now}, blockchain.BFNone) == nil
}

type fixedTime struct{ t time.Time }

func (f fixedTime) AdjustedTime() time.Time         { return f.t }
func (f fixedTime) AddTimeSample(string, time.Time) {}
func (f fixedTime) Offset() time.Duration           { return 0 }

// ctx2Info: a branch header judged in the wrong context.
// kind 0/1: W forks d = 6..8 blocks below the tip and is longer than the main
// chain above the fork; its own timestamps (kind 0) or the main chain's
// (kind 1) run many median windows ahead, and W's header at exactly tip+1
// lies between the median over its own ancestors and the median over the main
// chain's: kind 0 invalid on its own branch (fine on the main chain's
// context), kind 1 valid (too old on the main chain's context).
// kind 2/3: S is a one-header sibling of the stored non-tip header M whose
// timestamp is as low as the median rule allows (kind 2) or M's is (kind 3);
// Y forks AT M, longer than the main chain above M, its first header's
// timestamp between the median with S and the median with M in the window:
// kind 2 invalid, kind 3 valid.
type ctx2Info struct {
	kind    int
	fork    *Node // fork point of W / the header M
	wTip    *Node // tip of W / of Y
	sPar, s *Node // kind 2/3: S and its parent
	mainTip *Node
	nowBig  int64
}
