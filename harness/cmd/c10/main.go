// Correspondence harness for C10: drives the real neutrino.UtxoScanner
// (utxoscanner.go + batch_spend_reporter.go) in lock-step over a synthetic
// chain.  The four chain callbacks of the scanner are gated: each one reports
// its arrival to the driver goroutine and blocks until the driver releases it,
// so the interleaving of Enqueue / new block / fetch failure / Stop with the
// scanner goroutine is decided by the recorded history alone.  The history
// with the observations after every op is printed as a Coq cases file for
// Verif.C10.Replay.
package main

import (
	"bytes"
	"crypto/sha256"
	"encoding/binary"
	"errors"
	"fmt"
	"math/rand"
	"os"
	"path/filepath"
	"runtime/debug"
	"sort"
	"strings"
	"sync"
	"sync/atomic"
	"time"

	"github.com/btcsuite/btcd/btcutil/v2"
	"github.com/btcsuite/btcd/chainhash/v2"
	"github.com/btcsuite/btcd/wire/v2"
	"github.com/lightninglabs/neutrino"
	"github.com/lightninglabs/neutrino/headerfs"

	c "verifharness/internal/common"
)

// errFetch is the one injected callback error.
var errFetch = errors.New("verif: injected fetch failure")

// errRange is returned by a callback asked for a block beyond the tip (the
// scanner never does that).
var errRange = errors.New("verif: block beyond the tip requested")

var errAbort = errors.New("case aborted")

const (
	waitDeadline  = 3 * time.Second
	finalDeadline = 2 * time.Second
	casesPerShard = 150
)

// ---------------------------------------------------------------------
// History (JSON form, replayable).

// TxDesc describes one transaction of the synthetic chain.
type TxDesc struct {
	Tok   int64      `json:"tok"`
	Ins   [][2]int64 `json:"ins"` // (token, index) of the spent outpoints
	Nouts int64      `json:"nouts"`
	// Scr, if present, names for every output the outpoint whose script it
	// pays to (its script class representative); absent = its own script.
	Scr [][2]int64 `json:"scr,omitempty"`
}

// Del is one observed delivery.
type Del struct {
	ID  int    `json:"id"`
	Res string `json:"res"`
}

// Op is one operation with the observations made after it.
type Op struct {
	Kind  string `json:"kind"` // enq|start|step|newblock|stop|finish
	Tok   int64  `json:"tok"`
	Idx   int64  `json:"idx"`
	Birth int64  `json:"birth"`
	Fail  bool   `json:"fail"`
	Fm    bool   `json:"fm"`
	// observations
	PC  int        `json:"pc"`
	H   int64      `json:"h"`
	WL  [][2]int64 `json:"wl"`
	Acc bool       `json:"acc"`
	Del []Del      `json:"del"`

	// script-only directives (corpus): kind "run" = auto steps until no
	// callback is pending; kind "until" = auto steps until callback
	// (uk,uh) is pending.  FP forces a filter false positive on a
	// scripted step.  Never recorded.
	uk, uh int
	fp     bool
}

// History is one case.
type History struct {
	ID      int        `json:"id"`
	Name    string     `json:"name,omitempty"`
	Chain   [][]TxDesc `json:"chain"`
	Tip0    int        `json:"tip0"`
	Ops     []Op       `json:"ops"`
	Aborted bool       `json:"aborted,omitempty"`

	fail *c.ImplFailure
	ev   map[string]int
}

// ---------------------------------------------------------------------
// Synthetic chain.

func scriptFor(tok, idx int64) []byte {
	b := make([]byte, 14)
	b[0], b[1] = 0x6a, 0x0c
	binary.BigEndian.PutUint64(b[2:], uint64(tok))
	binary.BigEndian.PutUint32(b[10:], uint32(idx))
	return b
}

func decodeScript(b []byte) (int64, int64, bool) {
	if len(b) != 14 || b[0] != 0x6a || b[1] != 0x0c {
		return 0, 0, false
	}
	return int64(binary.BigEndian.Uint64(b[2:])), int64(binary.BigEndian.Uint32(b[10:])), true
}

func valueOf(tok, idx int64) int64 { return 1000*(tok+1) + idx }

func fakeHash(tok int64) chainhash.Hash {
	return chainhash.Hash(sha256.Sum256([]byte(fmt.Sprintf("fake%d", tok))))
}

type chainT struct {
	desc      [][]TxDesc
	blocks    []*wire.MsgBlock
	hashes    []chainhash.Hash
	heightOf  map[chainhash.Hash]int
	tokOfTx   map[chainhash.Hash]int64
	hashOfTok map[int64]chainhash.Hash
	nouts     map[int64]int64
	createH   map[int64]int
	spentAt   []map[[2]int64]bool // per height: outpoints spent by that block
	spendH    map[[2]int64]int    // first height spending the outpoint
	outputs   [][2]int64          // every real output
	byHeight  map[int][][2]int64  // real outputs created at a height
	fakes     [][2]int64          // fake outpoints spent by chain inputs
	rep       map[[2]int64][2]int64 // script class representative of outputs that share a script
	filterSet []map[[2]int64]bool   // per height: script classes in the block's filter
	classes   map[[2]int64][][2]int64 // members of every shared script class
	toks      []int64
}

func (ch *chainT) hashOfToken(tok int64) chainhash.Hash {
	if h, ok := ch.hashOfTok[tok]; ok {
		return h
	}
	return fakeHash(tok)
}

// repOf returns the script class (representative outpoint) of an outpoint.
func (ch *chainT) repOf(o [2]int64) [2]int64 {
	if r, ok := ch.rep[o]; ok {
		return r
	}
	return o
}

// scriptOf returns the pkScript an outpoint pays to.
func (ch *chainT) scriptOf(tok, idx int64) []byte {
	r := ch.repOf([2]int64{tok, idx})
	return scriptFor(r[0], r[1])
}

func buildChain(desc [][]TxDesc) *chainT {
	ch := &chainT{desc: desc, heightOf: map[chainhash.Hash]int{},
		tokOfTx: map[chainhash.Hash]int64{}, hashOfTok: map[int64]chainhash.Hash{},
		nouts: map[int64]int64{}, createH: map[int64]int{}, spendH: map[[2]int64]int{},
		byHeight: map[int][][2]int64{}, rep: map[[2]int64][2]int64{}, classes: map[[2]int64][][2]int64{}}
	for _, blk := range desc {
		for _, td := range blk {
			for j, r := range td.Scr {
				o := [2]int64{td.Tok, int64(j)}
				if r != o {
					ch.rep[o] = r
					if len(ch.classes[r]) == 0 {
						ch.classes[r] = append(ch.classes[r], r)
					}
					ch.classes[r] = append(ch.classes[r], o)
				}
			}
		}
	}
	for h, blk := range desc {
		fset := map[[2]int64]bool{}
		var prev chainhash.Hash
		if h > 0 {
			prev = ch.hashes[h-1]
		}
		hdr := wire.NewBlockHeader(1, &prev, &chainhash.Hash{}, 0x207fffff, uint32(h+1))
		hdr.Timestamp = time.Unix(1600000000+600*int64(h), 0)
		mb := wire.NewMsgBlock(hdr)
		spent := map[[2]int64]bool{}
		for _, td := range blk {
			tx := wire.NewMsgTx(2)
			if len(td.Ins) == 0 {
				// coinbase style null input, unique signature script
				ss := make([]byte, 17)
				ss[0] = 0x51
				binary.BigEndian.PutUint64(ss[1:], uint64(h))
				binary.BigEndian.PutUint64(ss[9:], uint64(td.Tok))
				tx.AddTxIn(wire.NewTxIn(wire.NewOutPoint(&chainhash.Hash{}, 0xffffffff), ss, nil))
			}
			for _, in := range td.Ins {
				hh := ch.hashOfToken(in[0])
				tx.AddTxIn(wire.NewTxIn(wire.NewOutPoint(&hh, uint32(in[1])), []byte{0x51}, nil))
				k := [2]int64{in[0], in[1]}
				spent[k] = true
				fset[ch.repOf(k)] = true
				if _, ok := ch.spendH[k]; !ok {
					ch.spendH[k] = h
				}
				if in[0] >= 1000 {
					ch.fakes = append(ch.fakes, k)
				}
			}
			for j := int64(0); j < td.Nouts; j++ {
				tx.AddTxOut(wire.NewTxOut(valueOf(td.Tok, j), ch.scriptOf(td.Tok, j)))
				o := [2]int64{td.Tok, j}
				fset[ch.repOf(o)] = true
				ch.outputs = append(ch.outputs, o)
				ch.byHeight[h] = append(ch.byHeight[h], o)
			}
			if err := mb.AddTransaction(tx); err != nil {
				panic(err)
			}
			th := tx.TxHash()
			ch.tokOfTx[th] = td.Tok
			ch.hashOfTok[td.Tok] = th
			ch.nouts[td.Tok] = td.Nouts
			ch.createH[td.Tok] = h
			ch.toks = append(ch.toks, td.Tok)
		}
		bh := mb.BlockHash()
		ch.blocks = append(ch.blocks, mb)
		ch.hashes = append(ch.hashes, bh)
		ch.heightOf[bh] = h
		ch.spentAt = append(ch.spentAt, spent)
		ch.filterSet = append(ch.filterSet, fset)
	}
	return ch
}

func (ch *chainT) trueMatch(h int64, wl [][2]int64) bool {
	if h < 0 || int(h) >= len(ch.spentAt) {
		return false
	}
	for _, o := range wl {
		if ch.filterSet[h][o] {
			return true
		}
	}
	return false
}

// genChain draws a chain description.
func genChain(r *rand.Rand, L int) [][]TxDesc {
	var next, fakeNext int64 = 0, 1000
	var unspent, spentL, fakesUsed [][2]int64
	var all []TxDesc
	var desc [][]TxDesc
	var allOuts [][2]int64
	repOfOut := map[[2]int64][2]int64{}
	for h := 0; h < L; h++ {
		var blk []TxDesc
		add := func(t TxDesc) {
			// script sharing: an output pays the script of an earlier
			// output of the same tx (several outputs to one address)
			// or of an earlier tx (address reuse)
			share := false
			t.Scr = make([][2]int64, t.Nouts)
			for j := int64(0); j < t.Nouts; j++ {
				o := [2]int64{t.Tok, j}
				t.Scr[j] = o
				x := r.Float64()
				switch {
				case x < 0.22 && j > 0:
					t.Scr[j] = t.Scr[r.Int63n(j)]
				case x < 0.40 && len(allOuts) > 0:
					t.Scr[j] = repOfOut[allOuts[r.Intn(len(allOuts))]]
				}
				if t.Scr[j] != o {
					share = true
				}
			}
			for j := int64(0); j < t.Nouts; j++ {
				o := [2]int64{t.Tok, j}
				repOfOut[o] = t.Scr[j]
				allOuts = append(allOuts, o)
			}
			if !share {
				t.Scr = nil
			}
			blk = append(blk, t)
			all = append(all, t)
			for j := int64(0); j < t.Nouts; j++ {
				unspent = append(unspent, [2]int64{t.Tok, j})
			}
		}
		add(TxDesc{Tok: next, Ins: [][2]int64{}, Nouts: int64(1 + r.Intn(2))})
		next++
		n := r.Intn(4)
		for k := 0; k < n; k++ {
			nin := 1 + r.Intn(3)
			ins := [][2]int64{}
			for i := 0; i < nin; i++ {
				x := r.Float64()
				switch {
				case x < 0.10 || len(unspent) == 0:
					if len(fakesUsed) > 0 && r.Intn(10) < 2 {
						ins = append(ins, fakesUsed[r.Intn(len(fakesUsed))])
					} else {
						f := [2]int64{fakeNext, int64(r.Intn(2))}
						fakeNext++
						fakesUsed = append(fakesUsed, f)
						ins = append(ins, f)
					}
				case x < 0.15 && len(spentL) > 0:
					ins = append(ins, spentL[r.Intn(len(spentL))])
				case x < 0.18:
					t := all[r.Intn(len(all))]
					ins = append(ins, [2]int64{t.Tok, t.Nouts + int64(r.Intn(2))})
				default:
					j := r.Intn(len(unspent))
					if r.Intn(2) == 0 && len(unspent) > 4 {
						j = len(unspent) - 1 - r.Intn(4)
					}
					o := unspent[j]
					unspent = append(unspent[:j], unspent[j+1:]...)
					spentL = append(spentL, o)
					ins = append(ins, o)
				}
			}
			add(TxDesc{Tok: next, Ins: ins, Nouts: int64(1 + r.Intn(3))})
			next++
		}
		desc = append(desc, blk)
	}
	return desc
}

// ---------------------------------------------------------------------
// Gated scanner.

type arrival struct {
	kind int
	h    int64
	wl   [][2]int64
}

type response struct{ fail, match bool }

type reqState struct {
	req             *neutrino.GetUtxoRequest
	tok, idx, birth int64
	collected       bool
}

type runner struct {
	h        *History
	ch       *chainT
	sc       *neutrino.UtxoScanner
	tip      atomic.Int64
	arr      chan arrival
	rel      chan response
	aborted  atomic.Bool
	abortCh  chan struct{}
	stopDone chan struct{}

	started, stopped, exited bool
	pend                     *arrival
	inScan                   bool
	lastEnd                  int64
	reqs                     []*reqState
	replay                   bool
	anyResult                bool
}

func (r *runner) gate(a arrival) (response, bool) {
	if r.aborted.Load() {
		return response{}, false
	}
	select {
	case r.arr <- a:
	case <-r.abortCh:
		return response{}, false
	}
	select {
	case resp := <-r.rel:
		return resp, true
	case <-r.abortCh:
		return response{}, false
	}
}

func decodeWL(wl [][]byte) [][2]int64 {
	seen := map[[2]int64]bool{}
	out := [][2]int64{}
	for _, e := range wl {
		t, i, ok := decodeScript(e)
		if !ok {
			t, i = -1, int64(len(e))
		}
		k := [2]int64{t, i}
		if !seen[k] {
			seen[k] = true
			out = append(out, k)
		}
	}
	sort.Slice(out, func(a, b int) bool {
		if out[a][0] != out[b][0] {
			return out[a][0] < out[b][0]
		}
		return out[a][1] < out[b][1]
	})
	return out
}

func newRunner(h *History, replay bool) *runner {
	r := &runner{h: h, ch: buildChain(h.Chain), arr: make(chan arrival), rel: make(chan response),
		abortCh: make(chan struct{}), stopDone: make(chan struct{}), replay: replay}
	h.ev = map[string]int{}
	if h.Tip0 < 0 {
		h.Tip0 = 0
	}
	if h.Tip0 >= len(r.ch.blocks) {
		h.Tip0 = len(r.ch.blocks) - 1
	}
	r.tip.Store(int64(h.Tip0))
	ch := r.ch
	heightOf := func(hash *chainhash.Hash) int64 {
		if v, ok := ch.heightOf[*hash]; ok {
			return int64(v)
		}
		return -1
	}
	r.sc = neutrino.VerifNewUtxoScanner(
		func() (*headerfs.BlockStamp, error) {
			resp, ok := r.gate(arrival{kind: 1})
			if !ok || resp.fail {
				return nil, errFetch
			}
			t := r.tip.Load()
			return &headerfs.BlockStamp{Height: int32(t), Hash: ch.hashes[t]}, nil
		},
		func(height int64) (*chainhash.Hash, error) {
			resp, ok := r.gate(arrival{kind: 2, h: height})
			if !ok || resp.fail {
				return nil, errFetch
			}
			if height < 0 || height > r.tip.Load() {
				return nil, errRange
			}
			hh := ch.hashes[height]
			return &hh, nil
		},
		func(wl [][]byte, hash *chainhash.Hash) (bool, error) {
			resp, ok := r.gate(arrival{kind: 3, h: heightOf(hash), wl: decodeWL(wl)})
			if !ok || resp.fail {
				return false, errFetch
			}
			return resp.match, nil
		},
		func(hash chainhash.Hash) (*btcutil.Block, error) {
			hh := heightOf(&hash)
			resp, ok := r.gate(arrival{kind: 4, h: hh})
			if !ok || resp.fail {
				return nil, errFetch
			}
			if hh < 0 {
				return nil, errRange
			}
			return btcutil.NewBlock(ch.blocks[hh]), nil
		},
	)
	return r
}

func (r *runner) pc() int {
	switch {
	case r.exited:
		return 6
	case r.pend != nil:
		return r.pend.kind
	case !r.started:
		return 7
	}
	return 0
}

func (r *runner) waitArr() bool {
	t := time.NewTimer(waitDeadline)
	defer t.Stop()
	select {
	case a := <-r.arr:
		r.pend = &a
		return true
	case <-t.C:
		return false
	}
}

func (r *runner) waitArrOrDone() bool {
	t := time.NewTimer(waitDeadline)
	defer t.Stop()
	select {
	case a := <-r.arr:
		r.pend = &a
		return true
	case <-r.stopDone:
		r.exited = true
		return true
	case <-t.C:
		return false
	}
}

func (r *runner) allAnswered() bool {
	for _, q := range r.reqs {
		if !q.collected && !q.req.VerifResultReady() {
			return false
		}
	}
	return true
}

// waitArrOrIdle is used after a scan ended: the scanner delivers and then
// either starts the next scan or waits on its condition variable.
func (r *runner) waitArrOrIdle() bool {
	deadline := time.Now().Add(waitDeadline)
	okCount := 0
	for {
		select {
		case a := <-r.arr:
			r.pend = &a
			return true
		default:
		}
		if r.allAnswered() && r.sc.VerifQueued() == 0 {
			okCount++
			if okCount >= 2 {
				return true
			}
		} else {
			okCount = 0
		}
		if time.Now().After(deadline) {
			return false
		}
		t := time.NewTimer(200 * time.Microsecond)
		select {
		case a := <-r.arr:
			t.Stop()
			r.pend = &a
			return true
		case <-t.C:
		}
	}
}

func (r *runner) encode(rep *neutrino.SpendReport, err error) string {
	ch := r.ch
	switch {
	case err == neutrino.ErrShuttingDown:
		return "RErrShut"
	case err == errFetch:
		return "RErrFetch"
	case err != nil:
		return "RHang"
	case rep == nil:
		return "REmpty"
	case rep.SpendingTx != nil:
		tok := int64(-1)
		if t, ok := ch.tokOfTx[rep.SpendingTx.TxHash()]; ok {
			tok = t
		}
		if rep.Output != nil {
			tok = -2
		}
		return fmt.Sprintf("RSpent %s %s %s", c.Z(tok), c.Z(int64(rep.SpendingInputIndex)), c.Z(int64(rep.SpendingTxHeight)))
	case rep.Output != nil:
		tok, idx := rep.Output.Value/1000-1, rep.Output.Value%1000
		if !bytes.Equal(rep.Output.PkScript, ch.scriptOf(tok, idx)) {
			return "RHang"
		}
		H := int64(-1)
		bh := int64(rep.BlockHeight)
		if rep.BlockHash != nil && bh < int64(len(ch.hashes)) && *rep.BlockHash == ch.hashes[bh] &&
			rep.Output.Value == valueOf(tok, idx) {
			if n, real := ch.nouts[tok]; real && idx < n {
				H = bh
			}
		}
		return fmt.Sprintf("RUnspent %s %s %s %s", c.Z(H), c.Z(int64(rep.BlockIndex)), c.Z(tok), c.Z(idx))
	}
	return "RHang"
}

func sortDel(d []Del) {
	sort.SliceStable(d, func(a, b int) bool {
		if d[a].ID != d[b].ID {
			return d[a].ID < d[b].ID
		}
		return d[a].Res < d[b].Res
	})
}

// poll collects what has been delivered (quit not closed: deterministic).
func (r *runner) poll() []Del {
	out := []Del{}
	for id, q := range r.reqs {
		if q.req.VerifResultReady() {
			rep, err := q.req.Result(nil)
			q.collected = true
			out = append(out, Del{id, r.encode(rep, err)})
		}
	}
	sortDel(out)
	return out
}

// collectFinal returns Result() of every request not collected before.  With
// quit closed Result picks at random between a delivered value and
// ErrShuttingDown; the delivered value is preferred (Result is repeated until
// the value has been taken), which makes the record deterministic.
func (r *runner) collectFinal() []Del {
	out := []Del{}
	cancel := make(chan struct{})
	t := time.AfterFunc(finalDeadline, func() { close(cancel) })
	defer t.Stop()
	for id, q := range r.reqs {
		if q.collected {
			continue
		}
		var rep *neutrino.SpendReport
		var err error
		for i := 0; i < 200; i++ {
			ready := q.req.VerifResultReady()
			rep, err = q.req.Result(cancel)
			if !ready || !q.req.VerifResultReady() || err == neutrino.ErrGetUtxoCancelled {
				break
			}
		}
		q.collected = true
		out = append(out, Del{id, r.encode(rep, err)})
	}
	sortDel(out)
	return out
}

// release lets the pending callback return and mirrors whether the scan ends.
func (r *runner) release(resp response) (terminal bool, ok bool) {
	p := r.pend
	r.pend = nil
	t := time.NewTimer(waitDeadline)
	defer t.Stop()
	select {
	case r.rel <- resp:
	case <-t.C:
		return false, false
	}
	tip := r.tip.Load()
	switch p.kind {
	case 1:
		if !r.inScan {
			if resp.fail {
				terminal = true
			} else {
				r.inScan, r.lastEnd = true, tip
			}
		} else {
			if resp.fail {
				terminal = true
			} else if tip > r.lastEnd {
				r.lastEnd = tip
				r.h.ev["ev:tip-grew-during-scan"]++
			} else {
				terminal = true
			}
		}
	default:
		terminal = resp.fail
	}
	if terminal {
		r.inScan = false
	}
	return terminal, true
}

// exec runs one op on the real scanner and records it with its observations.
func (r *runner) exec(op Op) error {
	o := Op{Kind: op.Kind, Tok: op.Tok, Idx: op.Idx, Birth: op.Birth, Fail: op.Fail, Fm: op.Fm,
		Acc: true, WL: [][2]int64{}, Del: []Del{}}
	what := ""
	switch op.Kind {
	case "enq":
		wasIdle := r.started && !r.exited && !r.stopped && r.pend == nil
		// events
		if p := r.pend; p != nil && !r.stopped {
			late := false
			switch p.kind {
			case 2:
				late = op.Birth < p.h
			case 3, 4:
				late = op.Birth <= p.h
			case 1:
				late = r.inScan && op.Birth <= r.lastEnd
			}
			if late {
				r.h.ev["ev:late-arrival"]++
			}
		}
		for _, q := range r.reqs {
			if q.tok == op.Tok && q.idx == op.Idx {
				r.h.ev["ev:dup-outpoint"]++
				break
			}
		}
		if wasIdle && r.anyResult {
			r.h.ev["ev:idle-rescan"]++
		}
		r.h.ev[fmt.Sprintf("enq@%d", r.pc())]++
		req, err := r.sc.Enqueue(&neutrino.InputWithScript{
			OutPoint: wire.OutPoint{Hash: r.ch.hashOfToken(op.Tok), Index: uint32(op.Idx)},
			PkScript: r.ch.scriptOf(op.Tok, op.Idx),
		}, uint32(op.Birth), nil)
		if err != nil {
			o.Acc = false
		} else {
			r.reqs = append(r.reqs, &reqState{req: req, tok: op.Tok, idx: op.Idx, birth: op.Birth})
			if wasIdle && !r.waitArr() {
				what = "no callback after Enqueue on an idle scanner"
			}
		}
	case "start":
		if r.started {
			r.sc.Start()
			break
		}
		r.started = true
		r.sc.Start()
		if r.stopped {
			if !r.waitArrOrDone() {
				what = "scanner started after Stop neither calls back nor exits"
			}
		} else if len(r.reqs) > 0 {
			if !r.waitArr() {
				what = "no callback after Start with queued requests"
			}
		}
	case "step":
		if r.pend == nil {
			break
		}
		if op.Fail && (r.pend.kind == 2 || r.pend.kind == 4) {
			for _, q := range r.reqs {
				if !q.collected && q.birth == r.pend.h {
					r.h.ev["ev:fail-at-start-height"]++
					break
				}
			}
		}
		terminal, ok := r.release(response{fail: op.Fail, match: op.Fm})
		switch {
		case !ok:
			what = "pending callback does not take its release"
		case r.stopped:
			if !r.waitArrOrDone() {
				what = "after Stop the scanner neither calls back nor exits"
			}
		case !terminal:
			if !r.waitArr() {
				what = "scanner does not call back during a scan"
			}
		default:
			if !r.waitArrOrIdle() {
				what = "scan ended but a request is neither answered nor queued"
			}
		}
	case "newblock":
		if t := r.tip.Load(); t+1 < int64(len(r.ch.blocks)) {
			r.tip.Store(t + 1)
		}
	case "stop":
		if r.stopped {
			r.sc.Stop() // returns at once
			break
		}
		r.stopped = true
		if r.pend != nil {
			r.h.ev["ev:stop-mid-scan"]++
		}
		go func(sc *neutrino.UtxoScanner, done chan struct{}) {
			sc.Stop()
			close(done)
		}(r.sc, r.stopDone)
		t := time.NewTimer(waitDeadline)
		select {
		case <-r.sc.VerifQuit():
			t.Stop()
		case <-t.C:
			what = "Stop does not close quit"
		}
		if what == "" && r.started && r.pend == nil {
			t := time.NewTimer(waitDeadline)
			select {
			case <-r.stopDone:
				r.exited = true
				t.Stop()
			case <-t.C:
				what = "Stop of an idle scanner does not return"
			}
		}
	case "finish":
	default:
		panic("unknown op kind " + op.Kind)
	}
	o.PC = r.pc()
	if r.pend != nil {
		if r.pend.kind != 1 {
			o.H = r.pend.h
		}
		if r.pend.kind == 3 {
			o.WL = r.pend.wl
		}
	}
	if what == "" {
		if op.Kind == "finish" {
			o.Del = r.collectFinal()
		} else if !r.stopped {
			o.Del = r.poll()
		}
		for _, d := range o.Del {
			if !strings.HasPrefix(d.Res, "RErr") && d.Res != "RHang" {
				r.anyResult = true
			}
		}
	}
	r.h.Ops = append(r.h.Ops, o)
	if what != "" {
		r.abort(len(r.h.Ops)-1, what, "")
		return errAbort
	}
	return nil
}

// abort turns a hang into an impl failure and shuts the scanner down.
func (r *runner) abort(step int, what, tag string) {
	if tag == "" {
		tag = "scanner-hang"
		if !r.allAnswered() {
			tag = "caller-left-waiting"
		}
	}
	if r.h.fail == nil {
		r.h.fail = &c.ImplFailure{Case: fmt.Sprint(r.h.ID), Step: step, What: what, Tag: tag}
	}
	r.h.Aborted = true
	if r.aborted.CompareAndSwap(false, true) {
		close(r.abortCh)
	}
	r.pend = nil
	if !r.stopped {
		r.stopped = true
		go func(sc *neutrino.UtxoScanner, done chan struct{}) {
			sc.Stop()
			close(done)
		}(r.sc, r.stopDone)
	}
	if !r.started {
		// Stop waits for the batch manager to exit
		r.started = true
		r.sc.Start()
	}
	t := time.NewTimer(finalDeadline)
	defer t.Stop()
	select {
	case <-r.stopDone:
		r.exited = true
	case <-t.C:
	}
}

func (r *runner) autoFm() bool {
	if r.pend != nil && r.pend.kind == 3 {
		return r.ch.trueMatch(r.pend.h, r.pend.wl)
	}
	return true
}

// script executes a fixed op list (corpus or replay).
func (r *runner) script(ops []Op) error {
	for _, op := range ops {
		switch op.Kind {
		case "run", "until":
			for n := 0; n < 80 && r.pend != nil && !r.exited; n++ {
				if op.Kind == "until" && r.pend.kind == op.uk && (op.uk == 1 || r.pend.h == int64(op.uh)) {
					break
				}
				if err := r.exec(Op{Kind: "step", Fm: r.autoFm()}); err != nil {
					return err
				}
			}
		case "step":
			if !r.replay {
				op.Fm = r.autoFm() || op.fp
			}
			if err := r.exec(op); err != nil {
				return err
			}
		default:
			if err := r.exec(op); err != nil {
				return err
			}
		}
	}
	return nil
}

// ending appends Stop, the draining steps and Finish.
func (r *runner) ending() error {
	if n := len(r.h.Ops); n > 0 && r.h.Ops[n-1].Kind == "finish" {
		return nil
	}
	if !r.stopped {
		if err := r.exec(Op{Kind: "stop"}); err != nil {
			return err
		}
	}
	if !r.started {
		if err := r.exec(Op{Kind: "start"}); err != nil {
			return err
		}
	}
	for n := 0; r.pend != nil && !r.exited; n++ {
		if n > 400 {
			r.h.Ops = append(r.h.Ops, Op{Kind: "step", Acc: true, WL: [][2]int64{}, Del: []Del{}, PC: r.pc()})
			r.abort(len(r.h.Ops)-1, "scanner keeps scanning after Stop", "scanner-hang")
			return errAbort
		}
		if err := r.exec(Op{Kind: "step", Fm: r.autoFm()}); err != nil {
			return err
		}
	}
	return r.exec(Op{Kind: "finish"})
}

// ---------------------------------------------------------------------
// Online generator.

type genT struct {
	rng       *rand.Rand
	maxOps    int
	malformed bool
	forceFail bool
	lastTok   int64
}

func clamp0(b int64) int64 {
	if b < 0 {
		return 0
	}
	return b
}

func (g *genT) pickTarget(r *runner) Op {
	rng, ch := g.rng, r.ch
	tip := r.tip.Load()
	L := int64(len(ch.blocks))
	mk := func(t, i, b int64) Op {
		g.lastTok = t
		return Op{Kind: "enq", Tok: t, Idx: i, Birth: clamp0(b)}
	}
	if g.malformed && rng.Intn(8) == 0 {
		o := ch.outputs[rng.Intn(len(ch.outputs))]
		return mk(o[0], o[1], tip+1000+int64(rng.Intn(5)))
	}
	// the other outputs paying the script of an output requested earlier
	// (different outpoints, one pkScript), from the same or an earlier height
	if len(r.reqs) > 0 && rng.Float64() < 0.30 {
		q := r.reqs[rng.Intn(len(r.reqs))]
		cl := ch.classes[ch.repOf([2]int64{q.tok, q.idx})]
		if len(cl) > 1 {
			o := cl[rng.Intn(len(cl))]
			if o != [2]int64{q.tok, q.idx} {
				r.h.ev["ev:shared-script-sibling"]++
				b := int64(ch.createH[o[0]])
				if rng.Intn(3) == 0 && q.birth < b {
					b = q.birth
				}
				return mk(o[0], o[1], b)
			}
		}
	}
	// an output of a shared script class
	if len(ch.classes) > 0 && rng.Float64() < 0.15 {
		var keys [][2]int64
		for k := range ch.classes {
			keys = append(keys, k)
		}
		sort.Slice(keys, func(a, b int) bool {
			if keys[a][0] != keys[b][0] {
				return keys[a][0] < keys[b][0]
			}
			return keys[a][1] < keys[b][1]
		})
		cl := ch.classes[keys[rng.Intn(len(keys))]]
		o := cl[rng.Intn(len(cl))]
		return mk(o[0], o[1], int64(ch.createH[o[0]]))
	}
	// duplicates of an earlier request
	if len(r.reqs) > 0 && rng.Float64() < 0.25 {
		q := r.reqs[rng.Intn(len(r.reqs))]
		b := q.birth
		switch rng.Intn(4) {
		case 0:
			b -= int64(1 + rng.Intn(2))
		case 1:
			b += int64(1 + rng.Intn(2))
		}
		return mk(q.tok, q.idx, b)
	}
	// a start height right where the running scan is
	if p := r.pend; p != nil && p.kind >= 2 && rng.Float64() < 0.45 {
		b := clamp0(p.h + int64(rng.Intn(3)) - 1)
		if outs := ch.byHeight[int(b)]; len(outs) > 0 && rng.Float64() < 0.7 {
			o := outs[rng.Intn(len(outs))]
			return mk(o[0], o[1], b)
		}
		o := ch.outputs[rng.Intn(len(ch.outputs))]
		return mk(o[0], o[1], b)
	}
	x := rng.Float64()
	switch {
	case x < 0.10 && g.lastTok >= 0 && ch.nouts[g.lastTok] > 0:
		// another output of the transaction requested last
		t := g.lastTok
		return mk(t, int64(rng.Intn(int(ch.nouts[t]))), int64(ch.createH[t]))
	case x < 0.19:
		t := ch.toks[rng.Intn(len(ch.toks))]
		return mk(t, ch.nouts[t]+int64(rng.Intn(2)), int64(ch.createH[t]))
	case x < 0.33:
		if len(ch.fakes) > 0 && rng.Float64() < 0.7 {
			f := ch.fakes[rng.Intn(len(ch.fakes))]
			b := rng.Int63n(L)
			if sh, ok := ch.spendH[f]; ok && rng.Intn(2) == 0 {
				b = int64(rng.Intn(sh + 1))
			}
			return mk(f[0], f[1], b)
		}
		return mk(2000+int64(rng.Intn(20)), int64(rng.Intn(2)), rng.Int63n(L))
	}
	o := ch.outputs[rng.Intn(len(ch.outputs))]
	// prefer outputs that get spent
	if _, ok := ch.spendH[o]; !ok && rng.Intn(2) == 0 {
		o = ch.outputs[rng.Intn(len(ch.outputs))]
	}
	cr := int64(ch.createH[o[0]])
	sp, spent := ch.spendH[o]
	y := rng.Float64()
	var b int64
	switch {
	case y < 0.50:
		b = cr
	case y < 0.62:
		b = cr - 1 - int64(rng.Intn(2))
	case y < 0.74:
		if spent && int64(sp) > cr {
			b = cr + 1 + rng.Int63n(int64(sp)-cr)
		} else {
			b = cr + 1 + int64(rng.Intn(2))
		}
	case y < 0.84:
		if spent {
			b = int64(sp) + 1 + int64(rng.Intn(2))
		} else {
			b = cr + 2
		}
	case y < 0.92:
		b = tip + 1 + int64(rng.Intn(3))
	case y < 0.98:
		b = cr
	default:
		b = tip + 40 + int64(rng.Intn(20))
	}
	return mk(o[0], o[1], b)
}

func (g *genT) step(r *runner) Op {
	op := Op{Kind: "step", Fm: true}
	if r.pend == nil {
		return op
	}
	if r.pend.kind == 3 {
		op.Fm = r.ch.trueMatch(r.pend.h, r.pend.wl) || g.rng.Float64() < 0.25
	}
	if g.forceFail && !r.stopped && (r.pend.kind == 2 || r.pend.kind == 4) {
		for _, q := range r.reqs {
			if !q.collected && q.birth == r.pend.h {
				if g.rng.Float64() < 0.6 {
					op.Fail = true
					g.forceFail = false
				}
				break
			}
		}
	}
	if g.rng.Float64() < 0.04 {
		op.Fail = true
	}
	return op
}

func (g *genT) weird(r *runner) Op {
	switch g.rng.Intn(5) {
	case 0:
		return Op{Kind: "start"}
	case 1:
		return Op{Kind: "newblock"}
	case 2:
		return g.pickTarget(r)
	case 3:
		if r.stopped {
			return Op{Kind: "stop"}
		}
		return Op{Kind: "start"}
	}
	return g.step(r)
}

func (r *runner) generate(g *genT) error {
	rng := g.rng
	L := int64(len(r.ch.blocks))
	// before Start
	for i, n := 0, rng.Intn(4); i < n; i++ {
		if err := r.exec(g.pickTarget(r)); err != nil {
			return err
		}
	}
	if g.malformed {
		for i, n := 0, rng.Intn(4); i < n; i++ {
			var op Op
			switch rng.Intn(4) {
			case 0:
				op = Op{Kind: "step", Fm: true, Fail: rng.Intn(3) == 0}
			case 1:
				op = Op{Kind: "newblock"}
			case 2:
				op = g.pickTarget(r)
			default:
				if rng.Intn(4) == 0 {
					op = Op{Kind: "stop"}
				} else {
					op = Op{Kind: "step", Fm: false}
				}
			}
			if err := r.exec(op); err != nil {
				return err
			}
		}
	}
	if err := r.exec(Op{Kind: "start"}); err != nil {
		return err
	}
	nops := g.maxOps/2 + rng.Intn(g.maxOps/2+1)
	after := 0
	for i := 0; i < nops; i++ {
		var op Op
		blocksRemain := r.tip.Load()+1 < L
		switch {
		case r.exited:
			if !g.malformed || after >= 3 {
				i = nops
				continue
			}
			after++
			op = g.weird(r)
		case r.stopped:
			if g.malformed && rng.Intn(4) == 0 {
				op = g.weird(r)
			} else if r.pend != nil {
				op = g.step(r)
			} else {
				op = Op{Kind: "start"} // stopped before Start
			}
		case r.pend == nil: // idle
			x := rng.Float64()
			switch {
			case x < 0.62:
				op = g.pickTarget(r)
			case x < 0.87:
				if blocksRemain || g.malformed {
					op = Op{Kind: "newblock"}
				} else {
					op = g.pickTarget(r)
				}
			case x < 0.93:
				op = Op{Kind: "stop"}
			default:
				if g.malformed {
					op = g.weird(r)
				} else {
					op = g.pickTarget(r)
				}
			}
		default:
			x := rng.Float64()
			switch {
			case x < 0.62:
				op = g.step(r)
			case x < 0.84:
				op = g.pickTarget(r)
			case x < 0.94:
				if blocksRemain || (g.malformed && rng.Intn(3) == 0) {
					op = Op{Kind: "newblock"}
				} else {
					op = g.step(r)
				}
			case x < 0.9495:
				op = Op{Kind: "stop"}
			default:
				if g.malformed {
					op = g.weird(r)
				} else {
					op = g.step(r)
				}
			}
		}
		if op.Kind == "stop" && !r.stopped {
			r.h.ev["ev:early-stop"]++
		}
		if err := r.exec(op); err != nil {
			return err
		}
	}
	return nil
}

// ---------------------------------------------------------------------
// Fixed corpus.

func tx(tok, nouts int64, ins ...[2]int64) TxDesc {
	if ins == nil {
		ins = [][2]int64{}
	}
	return TxDesc{Tok: tok, Ins: ins, Nouts: nouts}
}
func in(t, i int64) [2]int64 { return [2]int64{t, i} }
func enq(t, i, b int64) Op   { return Op{Kind: "enq", Tok: t, Idx: i, Birth: b} }
func until(k, h int) Op      { return Op{Kind: "until", uk: k, uh: h} }

var (
	opStart    = Op{Kind: "start"}
	opStep     = Op{Kind: "step"}
	opStepFail = Op{Kind: "step", Fail: true}
	opNewBlock = Op{Kind: "newblock"}
	opStop     = Op{Kind: "stop"}
	opRun      = Op{Kind: "run"}
)

// chainA: block 1 creates tx 2 (one output, never spent).
func chainA() [][]TxDesc {
	return [][]TxDesc{
		{tx(0, 1)},
		{tx(1, 1), tx(2, 1, in(0, 0))},
		{tx(3, 1)},
		{tx(4, 1)},
	}
}

// chainB: (2,0) created in 1 and spent in 2 by tx 4, (2,1) unspent; tx 6 is
// created in 3 and its output 0 spent in the same block by tx 7, (6,1)
// unspent; block 4 spends the fake outpoint (1000,0) and (4,0).
func chainB() [][]TxDesc {
	return [][]TxDesc{
		{tx(0, 2)},
		{tx(1, 1), tx(2, 2, in(0, 0))},
		{tx(3, 1), tx(4, 1, in(2, 0))},
		{tx(5, 1), tx(6, 2, in(1, 0)), tx(7, 1, in(6, 0))},
		{tx(8, 1), tx(9, 1, in(1000, 0), in(4, 0))},
		{tx(10, 1)},
	}
}

func corpus() []History {
	return []History{
		// 0: F06 — GetBlock fails for the block a fresh request starts at
		{Name: "f06", Chain: chainA(), Tip0: 3, Ops: []Op{
			enq(2, 0, 1), opStart, opStep, opStep, opStepFail, opRun}},
		// 1: F06 with a second request that keeps the scanner going; Stop
		// while the last BestSnapshot of the second scan is pending
		{Name: "f06b", Chain: chainA(), Tip0: 3, Ops: []Op{
			enq(2, 0, 1), enq(4, 0, 3), opStart, opStep, opStep, opStepFail,
			opStep, opStep, opStep, opStop}},
		// 2: F07 — a second request for the same outpoint with a later
		// start height joins the running batch
		{Name: "f07", Chain: chainA(), Tip0: 3, Ops: []Op{
			enq(2, 0, 1), opStart, opStep, opStep, opStep, enq(2, 0, 2), opRun}},
		// 3: answered, idle, new block, new request, new scan
		{Name: "idle-rescan", Chain: chainB(), Tip0: 3, Ops: []Op{
			enq(2, 0, 1), opStart, opRun, opNewBlock, enq(4, 0, 2), opRun}},
		// 4: request enqueued after the scan passed its start height
		{Name: "late-arrival", Chain: chainB(), Tip0: 4, Ops: []Op{
			enq(2, 1, 1), opStart, until(2, 3), enq(4, 0, 2), opRun}},
		// 5: create-and-spend in one block, sibling outputs, bad index, fake
		{Name: "same-block-spend", Chain: chainB(), Tip0: 5, Ops: []Op{
			enq(6, 0, 3), enq(6, 1, 3), enq(6, 5, 3), enq(1000, 0, 0), opStart, opRun}},
		// 6: start height above the tip, reached after new blocks
		{Name: "above-tip", Chain: chainB(), Tip0: 2, Ops: []Op{
			enq(9, 0, 4), opStart, opStep, opNewBlock, opNewBlock, opRun}},
		// 7: Stop while GetBlock is pending with freshly dequeued requests
		{Name: "stop-at-getblock", Chain: chainB(), Tip0: 5, Ops: []Op{
			enq(2, 0, 1), opStart, until(4, 1), enq(4, 0, 2), opStop}},
		// 8: Stop while the final BestSnapshot is pending
		{Name: "stop-at-final-best", Chain: chainB(), Tip0: 3, Ops: []Op{
			enq(2, 1, 1), opStart, opStep, until(1, 0), opStop}},
		// 9: filter false positive, then the duplicate with an earlier start
		{Name: "dup-earlier-start", Chain: chainB(), Tip0: 5, Ops: []Op{
			enq(2, 1, 2), opStart, opStep, until(3, 3), {Kind: "step", fp: true},
			enq(2, 1, 1), opRun}},
		// 10: two outputs of one tx pay ONE script; (2,0) is spent in block
		// 2, (2,1) in block 4, which is fetched only through a filter
		// match on the shared script (truthful filter, no false positive)
		{Name: "shared-script-later-spend", Chain: chainC(), Tip0: 5, Ops: []Op{
			enq(2, 0, 1), enq(2, 1, 1), opStart, opRun}},
		// 11: address reuse across transactions: (4,0) pays the script of
		// (2,0); (2,0) spent in 3, (4,0) spent in 5
		{Name: "reused-script-later-spend", Chain: chainD(), Tip0: 6, Ops: []Op{
			enq(2, 0, 1), opStart, opStep, opStep, enq(4, 0, 2), opRun}},
		// 12..16: progress (C10_deferred_request_answered).
		// 12: a request deferred into nextBatch, then the running batch
		// fails: the deferred request is served by the next batch
		{Name: "deferred-then-failed-batch", Chain: chainB(), Tip0: 5, Ops: []Op{
			enq(2, 1, 1), opStart, until(3, 3), enq(4, 0, 2), until(3, 4), opStepFail, opRun}},
		// 13: a request queued above the scan position survives a failed
		// batch and is served by the next one, which starts at its height
		{Name: "queued-above-failed-batch", Chain: chainB(), Tip0: 5, Ops: []Op{
			enq(2, 1, 1), enq(9, 0, 4), opStart, until(2, 2), opStepFail, opRun}},
		// 14: the tip lookup after the scanned range fails: everybody in
		// the reporter gets the error
		{Name: "post-scan-tip-lookup-fails", Chain: chainB(), Tip0: 5, Ops: []Op{
			enq(2, 1, 1), enq(4, 0, 2), opStart, opStep, until(1, 0), opStepFail, opRun}},
		// 15: the first tip lookup of a batch fails twice: the batch
		// manager retries, the request is served by the third attempt
		{Name: "first-tip-lookup-fails-twice", Chain: chainB(), Tip0: 5, Ops: []Op{
			enq(2, 1, 1), opStart, opStepFail, opStepFail, opRun}},
		// 16: requests with ever lower start heights arrive while a batch
		// runs: none extends the running batch, the next batch serves all
		{Name: "lower-arrivals-do-not-extend-batch", Chain: chainB(), Tip0: 5, Ops: []Op{
			enq(9, 0, 4), opStart, until(2, 4), enq(6, 1, 3), opStep, enq(4, 0, 2), opStep,
			enq(2, 1, 1), opStep, enq(2, 0, 1), opRun}},
	}
}

// chainC: tx 2 (block 1) has two outputs paying one script.
func chainC() [][]TxDesc {
	t2 := tx(2, 2, in(0, 0))
	t2.Scr = [][2]int64{{2, 0}, {2, 0}}
	return [][]TxDesc{
		{tx(0, 1)},
		{tx(1, 1), t2},
		{tx(3, 1), tx(4, 1, in(2, 0))},
		{tx(5, 1)},
		{tx(6, 1), tx(7, 1, in(1000, 0), in(2, 1))},
		{tx(8, 1)},
	}
}

// chainD: (4,0) in block 2 pays the script of (2,0) of block 1.
func chainD() [][]TxDesc {
	t4 := tx(4, 1, in(1, 0))
	t4.Scr = [][2]int64{{2, 0}}
	return [][]TxDesc{
		{tx(0, 1)},
		{tx(1, 1), tx(2, 1, in(0, 0))},
		{tx(3, 1), t4},
		{tx(5, 1), tx(6, 1, in(2, 0))},
		{tx(7, 1)},
		{tx(8, 1), tx(9, 1, in(4, 0))},
		{tx(10, 1)},
	}
}

// ---------------------------------------------------------------------
// One case.

type job struct {
	id     int
	fixed  *History // corpus or replay
	replay bool
}

func runCase(a c.Args, j job) (h *History) {
	if j.fixed != nil {
		h = &History{ID: j.id, Name: j.fixed.Name, Chain: j.fixed.Chain, Tip0: j.fixed.Tip0, Ops: []Op{}}
	} else {
		h = &History{ID: j.id, Ops: []Op{}}
	}
	var r *runner
	defer func() {
		if e := recover(); e != nil {
			h.fail = &c.ImplFailure{Case: fmt.Sprint(h.ID), Step: len(h.Ops),
				What: fmt.Sprintf("panic: %v\n%s", e, debug.Stack()), Tag: "panic"}
			h.Aborted = true
			if r != nil {
				func() {
					defer func() { recover() }()
					r.abort(len(h.Ops), "panic", "panic")
				}()
			}
		}
	}()
	if j.fixed != nil {
		r = newRunner(h, j.replay)
		if r.script(j.fixed.Ops) == nil {
			r.ending()
		}
		return h
	}
	rng := c.Rng(a.Seed, j.id)
	maxL, maxOps := 9, 50
	if a.Tier == "thorough" {
		maxL, maxOps = 14, 90
	}
	L := 4 + rng.Intn(maxL-3)
	h.Chain = genChain(rng, L)
	h.Tip0 = rng.Intn(L)
	if h.Tip0 < L/2 && rng.Intn(3) != 0 {
		h.Tip0 = L/2 + rng.Intn(L-L/2)
	}
	r = newRunner(h, false)
	g := &genT{rng: rng, maxOps: maxOps, malformed: rng.Float64() < 0.10,
		forceFail: rng.Float64() < 0.15, lastTok: -1}
	if r.generate(g) == nil {
		r.ending()
	}
	return h
}

// ---------------------------------------------------------------------
// Coq output.

func pairs(l [][2]int64) string {
	it := make([]string, len(l))
	for i, p := range l {
		it[i] = "(" + c.Z(p[0]) + "," + c.Z(p[1]) + ")"
	}
	return c.List(it)
}

func caseTerm(h *History) string {
	blks := make([]string, len(h.Chain))
	for i, b := range h.Chain {
		txs := make([]string, len(b))
		for k, t := range b {
			txs[k] = fmt.Sprintf("T %s %s %s", c.Z(t.Tok), pairs(t.Ins), c.Z(t.Nouts))
		}
		blks[i] = c.List(txs)
	}
	tr := make([]string, len(h.Ops))
	for i := range h.Ops {
		op := &h.Ops[i]
		var o string
		switch op.Kind {
		case "enq":
			o = fmt.Sprintf("Enq (%s,%s) %s", c.Z(op.Tok), c.Z(op.Idx), c.Z(op.Birth))
		case "start":
			o = "Start"
		case "step":
			o = fmt.Sprintf("Step %s %s", c.Bool(op.Fail), c.Bool(op.Fm))
		case "newblock":
			o = "NewBlock"
		case "stop":
			o = "Stop"
		case "finish":
			o = "Finish"
		}
		del := make([]string, len(op.Del))
		for k, d := range op.Del {
			del[k] = fmt.Sprintf("(%d, %s)", d.ID, d.Res)
		}
		tr[i] = fmt.Sprintf("(%s, O %d %s %s %s %s)", o, op.PC, c.Z(op.H), pairs(op.WL), c.Bool(op.Acc), c.List(del))
	}
	var sc []string
	for _, b := range h.Chain {
		for _, t := range b {
			for j, r := range t.Scr {
				if r != [2]int64{t.Tok, int64(j)} {
					sc = append(sc, fmt.Sprintf("((%s,%s),(%s,%s))", c.Z(t.Tok), c.Z(int64(j)), c.Z(r[0]), c.Z(r[1])))
				}
			}
		}
	}
	return fmt.Sprintf("(%d, (%s, %s, %s, %s))", h.ID, c.List(blks), c.List(sc), c.Z(int64(h.Tip0)), c.List(tr))
}

func writeCases(out string, hs []*History) {
	var ok []*History
	for _, h := range hs {
		if !h.Aborted {
			ok = append(ok, h)
		}
	}
	file := func(name string, part []*History) {
		var sb strings.Builder
		sb.WriteString("From Coq Require Import ZArith List Bool.\nFrom Verif Require Import C10.Model C10.Spec C10.Replay.\nImport ListNotations.\nOpen Scope Z_scope.\n")
		sb.WriteString("Definition cases : list (Z * case) := [\n")
		for i, h := range part {
			if i > 0 {
				sb.WriteString(";\n")
			}
			sb.WriteString(caseTerm(h))
		}
		sb.WriteString("\n].\nDefinition R := Eval vm_compute in (run_cases cases).\nSet Printing Width 1000000.\nSet Printing Depth 1000000.\nPrint R.\n")
		c.WriteFile(filepath.Join(out, name), sb.String())
	}
	// stale files of an earlier run in the same directory
	old, _ := filepath.Glob(filepath.Join(out, "cases*.v"))
	for _, f := range old {
		os.Remove(f)
	}
	if len(ok) <= casesPerShard {
		file("cases.v", ok)
		return
	}
	for s := 0; s*casesPerShard < len(ok); s++ {
		e := (s + 1) * casesPerShard
		if e > len(ok) {
			e = len(ok)
		}
		file(fmt.Sprintf("cases_%d.v", s), ok[s*casesPerShard:e])
	}
}

// ---------------------------------------------------------------------

func signature(h *History) (sig string, enqDuringScan, nonError bool) {
	var sb strings.Builder
	prev := 7
	for i := range h.Ops {
		op := &h.Ops[i]
		l := ""
		switch op.Kind {
		case "enq":
			l = "e"
			if op.Acc && prev >= 1 && prev <= 4 {
				enqDuringScan = true
			}
		case "start":
			l = "S"
		case "step":
			l = "s"
			if op.Fail {
				l = "f"
			}
		case "newblock":
			l = "n"
		case "stop":
			l = "X"
		case "finish":
			l = "F"
		}
		fmt.Fprintf(&sb, "%s%d", l, op.PC)
		for _, d := range op.Del {
			if !strings.HasPrefix(d.Res, "RErr") && d.Res != "RHang" {
				nonError = true
			}
		}
		prev = op.PC
	}
	return sb.String(), enqDuringScan, nonError
}

func main() {
	a := c.ParseArgs()
	rep := c.NewReport("C10", a)
	rep.ImplFailures = []c.ImplFailure{}
	var jobs []job
	if a.Replay != "" {
		var h History
		c.ReadJSON(a.Replay, &h)
		jobs = []job{{id: h.ID, fixed: &h, replay: true}}
	} else {
		cp := corpus()
		for i := range cp {
			jobs = append(jobs, job{id: i, fixed: &cp[i]})
		}
		n := 260
		if a.Tier == "thorough" {
			n = 4000
		}
		for i := 0; i < n; i++ {
			jobs = append(jobs, job{id: len(cp) + i})
		}
	}
	t0 := time.Now()
	hs := make([]*History, len(jobs))
	var wg sync.WaitGroup
	workers := a.Workers
	if workers < 1 {
		workers = 1
	}
	sem := make(chan struct{}, workers)
	for i := range jobs {
		wg.Add(1)
		sem <- struct{}{}
		go func(i int) {
			defer wg.Done()
			defer func() { <-sem }()
			hs[i] = runCase(a, jobs[i])
		}(i)
	}
	wg.Wait()

	writeCases(a.Out, hs)
	rep.Histogram["filter_adapter_table_rows"] = writeAdapterTable(a.Out)
	nontrivial := c.Signatures{}
	all := c.Signatures{}
	for _, h := range hs {
		path := filepath.Join(a.Out, fmt.Sprintf("hist-%d.json", h.ID))
		c.WriteJSON(path, h)
		rep.Cases[fmt.Sprint(h.ID)] = path
		if h.fail != nil {
			rep.ImplFailures = append(rep.ImplFailures, *h.fail)
		}
		if h.Aborted {
			rep.Histogram["aborted"]++
		}
		for k, v := range h.ev {
			rep.Histogram[k] += v
		}
		for i := range h.Ops {
			op := &h.Ops[i]
			switch op.Kind {
			case "step":
				if op.Fail {
					rep.Histogram["op:stepfail"]++
				} else {
					rep.Histogram["op:step"]++
				}
			case "enq":
				rep.Histogram["op:enq"]++
				if !op.Acc {
					rep.Histogram["op:enq-rejected"]++
				}
			default:
				rep.Histogram["op:"+op.Kind]++
			}
			for _, d := range op.Del {
				rep.Histogram["res:"+strings.Fields(d.Res)[0]]++
			}
		}
		sig, during, nonErr := signature(h)
		all.Add(sig)
		if during && nonErr {
			nontrivial.Add(sig)
		}
		rep.Histogram[fmt.Sprintf("ops:%02d-%02d", len(h.Ops)/20*20, len(h.Ops)/20*20+19)]++
	}
	rep.Histogram["distinct_signatures"] = len(all)
	rep.Evaluations = len(hs)
	rep.DistinctNontrivial = len(nontrivial)
	rep.Rule = "distinct signatures (string of op-kind letters e/S/s/f/n/X/F, each followed by the pending-callback code after the op) among histories that contain at least one Enqueue accepted while a callback was pending (request arriving during a running scan) AND at least one non-error result (RSpent/RUnspent/REmpty)"
	for i := 0; i < len(hs) && i < 3; i++ {
		rep.Samples = append(rep.Samples, hs[i])
	}
	rep.Notes = fmt.Sprintf("real UtxoScanner driven in lock-step through gated chain callbacks; %d corpus + generated histories; harness time %.2fs; at Finish a value delivered after Stop is preferred over ErrShuttingDown (Result is repeated until the delivered value is taken)",
		len(corpus()), time.Since(t0).Seconds())
	rep.Write(a.Out)

	if os.Getenv("C10_WRITE_CORPUS") == "1" && a.Replay == "" {
		dir := "/verif/corpus/C10"
		if err := os.MkdirAll(dir, 0o755); err != nil {
			panic(err)
		}
		for _, h := range hs {
			if h.Name == "f06" || h.Name == "f07" {
				c.WriteJSON(filepath.Join(dir, h.Name+".json"), h)
			}
		}
	}
}
