package main

// Table for the filter adapter (coq/C10/Adapter.v): the real
// blockFilterMatches over a chain source whose GetCFilter gives each outcome.

import (
	"errors"
	"fmt"
	"path/filepath"
	"strings"

	"github.com/btcsuite/btcd/btcutil/v2/gcs"
	"github.com/btcsuite/btcd/btcutil/v2/gcs/builder"
	"github.com/btcsuite/btcd/chainhash/v2"
	"github.com/btcsuite/btcd/wire/v2"
	"github.com/lightninglabs/neutrino"
	"github.com/lightninglabs/neutrino/headerfs"

	c "verifharness/internal/common"
)

// adapterSource is a chain source of which only GetCFilter is ever called.
type adapterSource struct {
	neutrino.ChainSource
	filter *gcs.Filter
	err    error
}

func (a *adapterSource) GetCFilter(chainhash.Hash, wire.FilterType,
	...neutrino.QueryOption) (*gcs.Filter, error) {

	return a.filter, a.err
}

func writeAdapterTable(out string) (rows int) {
	var h chainhash.Hash
	h[0] = 7
	key := builder.DeriveKey(&h)
	watched := []byte{0x51, 0x20, 1, 2, 3}
	other := []byte{0x00, 0x14, 9, 9, 9}
	mk := func(scripts ...[]byte) *gcs.Filter {
		f, err := gcs.BuildGCSFilter(builder.DefaultP, builder.DefaultM, key, scripts)
		if err != nil {
			panic(err)
		}
		return f
	}
	type row struct {
		fetch string
		src   *adapterSource
	}
	tab := []row{
		{"FOk 2 true", &adapterSource{filter: mk(watched, other)}},
		{"FOk 1 true", &adapterSource{filter: mk(watched)}},
		{"FOk 1 false", &adapterSource{filter: mk(other)}},
		{"FOk 0 false", &adapterSource{filter: mk()}},
		{"FHashNotFound", &adapterSource{err: headerfs.ErrHashNotFound}},
		{"FFetchFailed", &adapterSource{err: neutrino.ErrFilterFetchFailed}},
		{"FFetchFailed", &adapterSource{err: fmt.Errorf("wrapped: %w", neutrino.ErrFilterFetchFailed)}},
		{"FOther", &adapterSource{err: errors.New("some other failure")}},
		{"FOther", &adapterSource{err: neutrino.ErrShuttingDown}},
	}
	var items []string
	for _, r := range tab {
		m, err := neutrino.VerifBlockFilterMatches(r.src, [][]byte{watched}, &h)
		res := "ANoMatch"
		switch {
		case err != nil:
			res = "AErr"
		case m:
			res = "AMatch"
		}
		items = append(items, fmt.Sprintf("(%s, %s)", r.fetch, res))
	}
	var sb strings.Builder
	sb.WriteString("From Coq Require Import ZArith List Bool.\nFrom Verif Require Import C10.Adapter.\nImport ListNotations.\nOpen Scope Z_scope.\n")
	sb.WriteString("Definition tab : list (fetch * ares) := " + c.List(items) + ".\n")
	sb.WriteString("Definition R := Eval vm_compute in (adapter_rows 700000 tab).\nSet Printing Width 1000000.\nSet Printing Depth 1000000.\nPrint R.\n")
	c.WriteFile(filepath.Join(out, "cases_adapter.v"), sb.String())
	return len(tab)
}
