// Two more system-level families for C12 (real dispatcher, deadlines on the
// Go side, impl_failures with a replayable history):
//
//	cancelstop: real workers over silent peers; a batch with many more
//	  requests than workers is cancelled by its caller and, while the
//	  dispatcher still drains the queued (already cancelled) jobs through the
//	  workers, the work manager is stopped — the order of ChainService.Stop,
//	  whose quit channel is the batches' cancel channel.  The batch must get
//	  its one cancel verdict and Stop must return: every send of worker.Run
//	  has the quit alternative.  Tag stop-blocked.
//	idlewakes: scripted worker; >= 24 batches guarded by an idle
//	  (ProgressTimeout) timer, their requests never answered; all the timers
//	  expire while the dispatcher is outside its outer select (inside a slow
//	  OnMaxTries callback).  The wake of an expired idle timer must not be
//	  lost: every batch gets its timeout verdict.  Tag no-verdict.
package main

import (
	"fmt"
	"time"

	"github.com/lightninglabs/neutrino/query"
)

const (
	csBound       = 6 * time.Second // Stop / verdict bound of cancelstop
	iwIdle        = 100 * time.Millisecond
	iwCallback    = 400 * time.Millisecond
	iwBound       = 4 * time.Second // after the callback
	csRequestsDef = 3000
)

func genCancelStop(i int) *sysScenario {
	return &sysScenario{Kind: "cancelstop", Peers: 2 + i%2, First: csRequestsDef, Trials: 6, Offset: i}
}

func genIdleWakes(i int) *sysScenario {
	return &sysScenario{Kind: "idlewakes", Peers: 1, First: 24 + 4*(i%4)}
}

func runCancelStop(h *History) {
	sc := h.System
	sc.Verdict = ""
	fail := func(step int, what string) {
		if h.Failure == "" {
			h.Failure, h.FailStep = what, step
		}
	}
	for trial := 0; trial < sc.Trials && h.Failure == ""; trial++ {
		peerChan := make(chan query.Peer)
		wm := query.NewWorkManager(&query.Config{
			ConnectedPeers: func() (<-chan query.Peer, func(), error) { return peerChan, func() {}, nil },
			NewWorker:      query.NewWorker,
			Ranking:        query.NewPeerRanking(),
		})
		wm.Start()
		stopNow := func() bool {
			done := make(chan struct{})
			go func() { wm.Stop(); close(done) }()
			select {
			case <-done:
				return true
			case <-time.After(csBound):
				return false
			}
		}
		ok := true
		for i := 0; i < sc.Peers && ok; i++ {
			select {
			case peerChan <- query.NewVerifPeer(fmt.Sprintf("peer%d", i)): // never answers
			case <-time.After(waitDeadline):
				ok = false
			}
		}
		if !ok {
			fail(trial, "dispatcher does not accept a new peer")
			stopNow()
			return
		}
		reqs := make([]*query.Request, sc.First)
		for i := range reqs {
			reqs[i] = pingPongRequest(uint64(i + 1))
		}
		cancel := make(chan struct{})
		errChan := wm.Query(reqs, query.Cancel(cancel))
		time.Sleep(5 * time.Millisecond) // the first jobs reach the peers
		close(cancel)
		select {
		case err := <-errChan:
			sc.Verdict = errName(err)
			if err != query.ErrJobCanceled {
				fail(trial, fmt.Sprintf("cancelstop: cancelled batch got verdict %q, want the cancel error", sc.Verdict))
			}
		case <-time.After(csBound):
			fail(trial, "cancelstop: no verdict for the cancelled batch")
		}
		// Stop while the queued, already cancelled jobs are draining
		time.Sleep(time.Duration((trial+sc.Offset)%8) * 50 * time.Microsecond)
		if !stopNow() {
			fail(trial, fmt.Sprintf("stop-blocked: Stop() did not return within %v when called while the %d queued jobs of a cancelled batch were draining through %d workers (a worker blocked in a send that has no quit alternative)",
				csBound, sc.First, sc.Peers))
			return
		}
		select {
		case err := <-errChan:
			fail(trial, "cancelstop: second verdict "+errName(err)+" for the cancelled batch")
		default:
		}
	}
}

func runIdleWakes(h *History) {
	sc := h.System
	sc.Verdict, sc.Missing = "", 0
	fail := func(step int, what string) {
		if h.Failure == "" {
			h.Failure, h.FailStep = what, step
		}
	}
	peerChan := make(chan query.Peer)
	workerChan := make(chan *query.VerifWorker, 1)
	wm := query.NewWorkManager(&query.Config{
		ConnectedPeers: func() (<-chan query.Peer, func(), error) { return peerChan, func() {}, nil },
		NewWorker: func(p query.Peer) query.Worker {
			w := query.NewVerifWorker(p)
			workerChan <- w
			return w
		},
		// a slow callback (think: persisting a ban): the dispatcher is
		// outside its outer select while the idle timers expire
		OnMaxTries: func(query.Peer) { time.Sleep(iwCallback) },
		Ranking:    query.NewPeerRanking(),
	})
	wm.Start()
	defer func() {
		if !withDeadline(func() { wm.Stop() }) {
			fail(99, "Stop did not return")
		}
	}()
	select {
	case peerChan <- query.NewVerifPeer("peer0"):
	case <-time.After(waitDeadline):
		fail(0, "dispatcher does not accept a new peer")
		return
	}
	wk := <-workerChan
	accept := func(wait time.Duration) (query.VerifJob, bool) {
		end := time.Now().Add(wait)
		for time.Now().Before(end) {
			if j, ok := wk.TryAccept(); ok {
				return j, true
			}
			time.Sleep(200 * time.Microsecond)
		}
		return query.VerifJob{}, false
	}
	// batch 0: one request, one try; the worker takes it
	first := wm.Query([]*query.Request{pingPongRequest(1)}, query.NumRetries(1))
	job0, ok := accept(waitDeadline)
	if !ok {
		fail(1, "first job not offered")
		return
	}
	// the idle-guarded batches queue up behind the busy worker
	var idle []chan error
	for i := 0; i < sc.First; i++ {
		idle = append(idle, wm.Query([]*query.Request{pingPongRequest(uint64(i + 2))}, query.ProgressTimeout(iwIdle)))
	}
	// batch 0 fails for good: its verdict, then the dispatcher sits in OnMaxTries
	delivered := make(chan struct{})
	go func() { wk.Deliver(job0, query.ErrQueryTimeout); close(delivered) }()
	select {
	case <-delivered:
	case <-time.After(waitDeadline):
		fail(2, "result not taken")
		return
	}
	select {
	case err := <-first:
		sc.Verdict = errName(err)
	case <-time.After(waitDeadline):
		fail(2, "batch 0: no verdict")
		return
	}
	// from now on the worker accepts whatever it is offered and never answers
	stopAccept := make(chan struct{})
	defer close(stopAccept)
	go func() {
		for {
			select {
			case <-stopAccept:
				return
			default:
			}
			wk.TryAccept()
			time.Sleep(200 * time.Microsecond)
		}
	}()
	deadline := time.After(iwCallback + iwBound)
	for i, c := range idle {
		select {
		case err := <-c:
			if err != query.ErrQueryTimeout {
				fail(3, fmt.Sprintf("idlewakes: batch %d got verdict %q, want the timeout error", i+1, errName(err)))
			}
		case <-deadline:
			sc.Missing++
			deadline = time.After(10 * time.Millisecond)
		}
	}
	if sc.Missing != 0 {
		fail(4, fmt.Sprintf("no-verdict: %d of %d batches never got a verdict although their idle timeout (%v) expired more than %v ago, all of them while the dispatcher was busy for %v (wakes of expired idle timers lost)",
			sc.Missing, sc.First, iwIdle, iwBound, iwCallback))
	}
}
