// Real worker.Run histories for C12.
//
//  1. worker-level: the real worker.Run with a scripted peer, one event at a
//     time (job offered, peer message, job timer, disconnect, caller cancel,
//     batch-internal cancel, result taken, quit); replayed in Coq against the
//     worker model and the worker-contract monitor.
//  2. system-level: real workers behind the real dispatcher; a batch hits its
//     idle or hard timeout while jobs are in flight and queued, then later
//     batches must be issued to the idle peers and succeed.  Checked here
//     with deadlines (a request that is never issued is an impl_failure).
package main

import (
	"fmt"
	"math/rand"
	"time"

	"github.com/btcsuite/btcd/wire/v2"
	"github.com/lightninglabs/neutrino/query"

	c "verifharness/internal/common"
)

const (
	wShortTimeout = 40 * time.Millisecond
	wAbsentWait   = 30 * time.Millisecond
	wPresentWait  = 3 * time.Second
)

// WEv is one worker-level event with its observation.
type WEv struct {
	K     string `json:"k"` // job|msg|timer|disc|cancel|intcancel|take|quit
	J     int64  `json:"j,omitempty"`
	Pre   int    `json:"pre,omitempty"` // job: 1 caller cancel closed, 2 internal cancel closed at pick-up
	Short bool   `json:"short,omitempty"`
	Fin   bool   `json:"fin,omitempty"`
	Prog  bool   `json:"prog,omitempty"`

	Skipped bool   `json:"skipped,omitempty"`
	Acc     bool   `json:"acc,omitempty"`
	Sent    bool   `json:"sent,omitempty"`
	HasRes  bool   `json:"hasres,omitempty"`
	ResJ    int64  `json:"resj,omitempty"`
	ResE    string `json:"rese,omitempty"`
}

func pingPongRequest(nonce uint64) *query.Request {
	return &query.Request{
		Req: &wire.MsgPing{Nonce: nonce},
		HandleResp: func(req, resp wire.Message, _ string) query.Progress {
			pong, ok := resp.(*wire.MsgPong)
			if !ok {
				return query.Progress{}
			}
			// worker-level histories script the handler's answer in
			// the two top bits; system-level ones match the nonce.
			if pong.Nonce>>62 != 0 {
				return query.Progress{Finished: pong.Nonce>>62&1 != 0, Progressed: pong.Nonce>>63 != 0}
			}
			if pong.Nonce == req.(*wire.MsgPing).Nonce {
				return query.Progress{Finished: true, Progressed: true}
			}
			return query.Progress{}
		},
	}
}

func errName(err error) string {
	switch err {
	case nil:
		return "ok"
	case query.ErrQueryTimeout:
		return "timeout"
	case query.ErrPeerDisconnected:
		return "disc"
	case query.ErrJobCanceled:
		return "cancel"
	}
	return "other"
}

type wRunner struct {
	peer        *query.VerifPeer
	w           *query.VerifRealWorker
	outstanding bool
	caused      bool
	cancel      chan struct{}
	internal    chan struct{}
	cClosed     bool
	iClosed     bool
	discClosed  bool
	jobStart    time.Time
	short       bool
	quit        bool
	failure     string
}

func (r *wRunner) gone() bool {
	select {
	case <-r.w.Done():
		return true
	default:
		return false
	}
}

func (r *wRunner) exec(e *WEv) bool {
	switch e.K {
	case "job":
		cancel, internal := make(chan struct{}), make(chan struct{})
		if e.Pre == 1 {
			close(cancel)
		} else if e.Pre == 2 {
			close(internal)
		}
		tmo := time.Hour
		if e.Short {
			tmo = wShortTimeout
		}
		wait := wPresentWait
		if r.outstanding || r.gone() || r.discClosed || r.quit {
			wait = wAbsentWait
		}
		// drain anything queued to the peer before
		for len(r.peer.Sent) > 0 {
			<-r.peer.Sent
		}
		start := time.Now()
		e.Acc = r.w.Offer(uint64(e.J), pingPongRequest(uint64(e.J)), tmo, cancel, internal, wait)
		if e.Acc {
			r.outstanding, r.caused = true, e.Pre != 0
			r.cancel, r.internal = cancel, internal
			r.cClosed, r.iClosed = e.Pre == 1, e.Pre == 2
			r.jobStart, r.short = start, e.Short
			w := wPresentWait
			if e.Pre != 0 {
				w = wAbsentWait
			}
			select {
			case <-r.peer.Sent:
				e.Sent = true
			case <-time.After(w):
			}
		}
	case "msg":
		if r.gone() || r.quit || (r.outstanding && r.caused) {
			return false
		}
		var n uint64
		if e.Fin {
			n |= 1 << 62
		}
		if e.Prog {
			n |= 1 << 63
		}
		if n == 0 {
			// unrelated message
			select {
			case r.peer.Msgs <- &wire.MsgVerAck{}:
			case <-time.After(wPresentWait):
				return false
			}
		} else {
			select {
			case r.peer.Msgs <- &wire.MsgPong{Nonce: n}:
			case <-time.After(wPresentWait):
				return false
			}
		}
		if e.Fin && r.outstanding {
			r.caused = true
		}
	case "timer":
		if !r.outstanding || !r.short || r.caused {
			return false
		}
		time.Sleep(time.Until(r.jobStart.Add(4 * wShortTimeout)))
		r.caused = true
	case "disc":
		if r.discClosed {
			return false
		}
		r.discClosed = true
		close(r.peer.Disconnect)
		if r.outstanding {
			r.caused = true
		} else {
			select {
			case <-r.w.Done():
			case <-time.After(wPresentWait):
			}
		}
	case "cancel":
		if !r.outstanding || r.cClosed || r.caused {
			return false
		}
		r.cClosed, r.caused = true, true
		close(r.cancel)
	case "intcancel":
		if !r.outstanding || r.iClosed || r.caused {
			return false
		}
		r.iClosed, r.caused = true, true
		close(r.internal)
	case "take":
		wait := wAbsentWait
		if r.outstanding && r.caused && !r.quit {
			wait = wPresentWait
		}
		j, err, ok := r.w.Take(wait)
		if ok {
			e.HasRes, e.ResJ, e.ResE = true, int64(j), errName(err)
			r.outstanding, r.caused = false, false
		}
	case "quit":
		if r.quit {
			return false
		}
		r.quit = true
		r.w.Quit()
		select {
		case <-r.w.Done():
		case <-time.After(wPresentWait):
			r.failure = "stop-blocked: worker.Run did not return after quit was closed (a send or wait without the quit alternative)"
		}
	default:
		return false
	}
	return true
}

func genWorkerHistory(r *rand.Rand, n int) []WEv {
	var evs []WEv
	next := int64(0)
	for cyc := 0; cyc < n; cyc++ {
		if r.Intn(12) == 0 {
			evs = append(evs, WEv{K: "msg", Prog: r.Intn(2) == 0}) // message while idle: ignored
		}
		job := WEv{K: "job", J: next}
		next++
		cause := r.Intn(100)
		switch {
		case cause < 12:
			job.Pre = 1 + r.Intn(2)
		case cause < 27:
			job.Short = true
		}
		evs = append(evs, job)
		if job.Pre == 0 && !job.Short {
			for k := r.Intn(3); k > 0; k-- {
				evs = append(evs, WEv{K: "msg", Prog: r.Intn(2) == 0})
			}
			if r.Intn(10) == 0 {
				evs = append(evs, WEv{K: "job", J: next}) // offered while busy: not read
				next++
			}
			if r.Intn(10) == 0 {
				evs = append(evs, WEv{K: "take"}) // nothing to take yet
			}
		}
		switch {
		case job.Pre != 0:
			if r.Intn(4) == 0 {
				// told to quit while holding the cancel result nobody takes
				evs = append(evs, WEv{K: "quit"})
			}
		case job.Short:
			evs = append(evs, WEv{K: "timer"})
		case cause < 55:
			evs = append(evs, WEv{K: "msg", Fin: true, Prog: r.Intn(2) == 0})
		case cause < 65:
			evs = append(evs, WEv{K: "disc"})
		case cause < 78:
			evs = append(evs, WEv{K: "cancel"})
		case cause < 96:
			evs = append(evs, WEv{K: "intcancel"})
		default:
			evs = append(evs, WEv{K: "quit"})
		}
		evs = append(evs, WEv{K: "take"})
		if r.Intn(25) == 0 {
			evs = append(evs, WEv{K: "quit"})
		}
		if r.Intn(30) == 0 {
			evs = append(evs, WEv{K: "disc"})
		}
	}
	return evs
}

func runWorkerHistory(h *History) {
	run := &wRunner{peer: query.NewVerifPeer("peer0")}
	run.w = query.NewVerifRealWorker(run.peer)
	defer func() {
		if !run.quit {
			run.w.Quit()
		}
	}()
	evs := h.WEvents
	h.WEvents = nil
	for _, e := range evs {
		e.Skipped, e.Acc, e.Sent, e.HasRes, e.ResJ, e.ResE = false, false, false, false, 0, ""
		if !run.exec(&e) {
			e.Skipped = true
		}
		h.WEvents = append(h.WEvents, e)
		if run.failure != "" && h.Failure == "" {
			h.Failure, h.FailStep = run.failure, len(h.WEvents)-1
		}
	}
}

func wevTerm(e *WEv) string {
	switch e.K {
	case "job":
		return c.App("WJob", c.Z(e.J), c.Bool(e.Pre != 0))
	case "msg":
		return c.App("WMsg", c.Bool(e.Fin), c.Bool(e.Prog))
	case "timer":
		return "WTimer"
	case "disc":
		return "WDisconnect"
	case "cancel":
		return "WCancel"
	case "intcancel":
		return "WIntCancel"
	case "take":
		return "WTake"
	case "quit":
		return "WQuit"
	}
	panic("worker event " + e.K)
}

func wcaseTerm(h *History) string {
	var items []string
	for i := range h.WEvents {
		e := &h.WEvents[i]
		if e.Skipped {
			continue
		}
		res := "None"
		if e.HasRes {
			res = fmt.Sprintf("(Some (%d, %s))", e.ResJ, jerrName(e.ResE))
		}
		items = append(items, c.Pair(wevTerm(e),
			fmt.Sprintf("{| wacc := %s; wsent := %s; wres := %s |}", c.Bool(e.Acc), c.Bool(e.Sent), res)))
	}
	return c.Pair(c.Z(int64(h.ID)), c.List(items))
}

func workerCorpus() [][]WEv {
	J := func(j int64) WEv { return WEv{K: "job", J: j} }
	T := WEv{K: "take"}
	return [][]WEv{
		{J(0), {K: "msg", Fin: true, Prog: true}, T, J(1), {K: "intcancel"}, T, J(2), {K: "msg", Fin: true}, T},
		{{K: "job", J: 0, Pre: 2}, T, J(1), {K: "msg", Fin: true}, T, {K: "job", J: 2, Pre: 1}, T},
		{J(0), {K: "cancel"}, T, {K: "job", J: 1, Short: true}, {K: "timer"}, T, J(2), {K: "disc"}, T, J(3)},
		{J(0), {K: "msg"}, {K: "msg", Prog: true}, J(1), T, {K: "quit"}, T, J(2)},
		{J(0), {K: "msg", Fin: true}, T, {K: "job", J: 1, Pre: 1}, {K: "quit"}, T},
		{{K: "job", J: 0, Pre: 2}, {K: "quit"}, T},
	}
}

// ---------------------------------------------------------------------
// system level: real workers behind the real dispatcher

type sysScenario struct {
	Kind    string `json:"kind"` // idle|hard | noise|progress (timed family, timed.go)
	Peers   int    `json:"peers"`
	First   int    `json:"first"`   // requests in the batch that times out
	Later   []int  `json:"later"`   // sizes of the batches submitted afterwards
	Verdict string `json:"verdict"` // observed verdict of the first batch
	Served  []bool `json:"served"`
	// timed family
	JobTimeoutMs int `json:"jobtimeoutms,omitempty"`
	ChatterMs    int `json:"chatterms,omitempty"`
	MovedAfterMs int `json:"movedafterms,omitempty"` // observed: request reached the honest peer
	DoneAfterMs  int `json:"doneafterms,omitempty"`  // observed: verdict
	MaxGapMs     int `json:"maxgapms,omitempty"`     // observed: largest gap between two chatter messages
	// cancelstop / idlewakes families (shutdown.go)
	Trials  int `json:"trials,omitempty"`
	Offset  int `json:"offset,omitempty"`
	Missing int `json:"missing,omitempty"` // observed: batches without a verdict
}

func runSystem(h *History) {
	sc := h.System
	switch sc.Kind {
	case "noise", "progress":
		runTimed(h)
		return
	case "cancelstop":
		runCancelStop(h)
		return
	case "idlewakes":
		runIdleWakes(h)
		return
	}
	fail := func(step int, what string) {
		if h.Failure == "" {
			h.Failure, h.FailStep = what, step
		}
	}
	peerChan := make(chan query.Peer)
	wm := query.NewWorkManager(&query.Config{
		ConnectedPeers: func() (<-chan query.Peer, func(), error) { return peerChan, func() {}, nil },
		NewWorker:      query.NewWorker,
		Ranking:        query.NewPeerRanking(),
	})
	wm.Start()
	defer func() {
		if !withDeadline(func() { wm.Stop() }) {
			fail(99, "Stop did not return with real workers")
		}
	}()
	var peers []*query.VerifPeer
	for i := 0; i < sc.Peers; i++ {
		p := query.NewVerifPeer(fmt.Sprintf("peer%d", i))
		peers = append(peers, p)
		select {
		case peerChan <- p:
		case <-time.After(waitDeadline):
			fail(0, "dispatcher does not accept a new peer")
			return
		}
	}
	nonce := uint64(1)
	mk := func(n int) []*query.Request {
		var rs []*query.Request
		for i := 0; i < n; i++ {
			rs = append(rs, pingPongRequest(nonce))
			nonce++
		}
		return rs
	}
	// answer answers one pending request at some peer; false if none shows up
	answer := func(wait time.Duration) bool {
		deadline := time.After(wait)
		for {
			for _, p := range peers {
				select {
				case msg := <-p.Sent:
					pong := &wire.MsgPong{Nonce: msg.(*wire.MsgPing).Nonce}
					select {
					case p.Msgs <- pong:
						return true
					case <-time.After(waitDeadline):
						return false
					}
				default:
				}
			}
			select {
			case <-deadline:
				return false
			case <-time.After(2 * time.Millisecond):
			}
		}
	}
	verdict := func(ch chan error, wait time.Duration) (string, bool) {
		select {
		case err := <-ch:
			return errName(err), true
		case <-time.After(wait):
			return "", false
		}
	}

	// 1. the batch that times out, with jobs in flight (one per peer) and queued
	var errChan chan error
	if sc.Kind == "idle" {
		errChan = wm.Query(mk(sc.First), query.ProgressTimeout(150*time.Millisecond))
	} else {
		errChan = wm.Query(mk(sc.First), query.Timeout(200*time.Millisecond))
		time.Sleep(320 * time.Millisecond)
		// a late answer makes the dispatcher look at the hard deadline
		if !answer(waitDeadline) {
			fail(1, "first batch was never issued to a peer")
			return
		}
	}
	v, ok := verdict(errChan, waitDeadline)
	sc.Verdict = v
	if !ok || v != "timeout" {
		fail(1, fmt.Sprintf("timed-out batch: verdict %q (received=%v), want the timeout error", v, ok))
		return
	}
	if v2, ok2 := verdict(errChan, 40*time.Millisecond); ok2 {
		fail(1, "second verdict "+v2+" for the timed-out batch")
		return
	}
	// 2. later batches must be issued to the idle peers and succeed
	time.Sleep(20 * time.Millisecond)
	for _, p := range peers {
		for len(p.Sent) > 0 {
			<-p.Sent // requests of the timed-out batch that were never answered
		}
	}
	for i, n := range sc.Later {
		lo := nonce
		ch := wm.Query(mk(n))
		issued := 0
		v, got := "", false
		deadline := time.Now().Add(waitDeadline)
		for !got && time.Now().Before(deadline) {
			for _, p := range peers {
				select {
				case msg := <-p.Sent:
					nn := msg.(*wire.MsgPing).Nonce
					if nn >= lo {
						issued++
					}
					select {
					case p.Msgs <- &wire.MsgPong{Nonce: nn}:
					case <-time.After(500 * time.Millisecond):
					}
				default:
				}
			}
			v, got = verdict(ch, 2*time.Millisecond)
		}
		sc.Served = append(sc.Served, got && v == "ok")
		if issued < n {
			fail(2+i, fmt.Sprintf("batch submitted after a timed-out batch: %d of its %d requests were never issued to any of the %d connected idle peers (the timed-out batch blocks later batches)", n-issued, n, sc.Peers))
			return
		}
		if !got || v != "ok" {
			fail(2+i, fmt.Sprintf("batch submitted after a timed-out batch: verdict %q (received=%v), want success", v, got))
			return
		}
	}
}

func genSystem(r *rand.Rand, i int) *sysScenario {
	sc := &sysScenario{Kind: []string{"idle", "hard"}[i%2], Peers: 1 + r.Intn(3)}
	sc.First = sc.Peers + r.Intn(3) // in flight at every peer, possibly more queued
	if sc.Kind == "hard" && sc.First < 2 {
		sc.First = 2
	}
	for k := 1 + r.Intn(2); k > 0; k-- {
		sc.Later = append(sc.Later, 1+r.Intn(2))
	}
	return sc
}
