// Correspondence harness for C12: drives the real query.peerWorkManager
// dispatcher (workmanager.go) with scripted workers, one event at a time,
// and writes the observations as Coq cases for Verif.C12.Replay.
//
// Determinism: every channel of the dispatcher is unbuffered (the progress
// wake channel is made unbuffered through the verif hook), the harness makes
// exactly one channel ready at a time and after every event waits for a
// barrier (a wake for a batch number that cannot exist) while accepting the
// jobs the dispatcher hands out.  Every wait has a deadline; a dispatcher
// that does not come back is an impl_failure.
package main

import (
	"errors"
	"fmt"
	"math/rand"
	"path/filepath"
	"reflect"
	"sort"
	"strings"
	"sync"
	"time"

	"github.com/lightninglabs/neutrino/query"

	c "verifharness/internal/common"
)

const (
	waitDeadline = 4 * time.Second
	longTimeout  = time.Hour
	realTimerMs  = 400 // real hard / idle timers used in a few cases
)

var errOther = errors.New("some other failure")

// Ev is one event of a history (JSON form, replayable) with what was
// observed on the real dispatcher after it.
type Ev struct {
	K string `json:"k"` // batch|peer|exit|result|dup|wake|idlewait|hardfire|cancel|quit
	// batch
	N          int  `json:"n,omitempty"`
	NoRetryMax bool `json:"noretrymax,omitempty"`
	Retries    int  `json:"retries,omitempty"`
	Prog       int  `json:"prog,omitempty"` // 0 none, 1 armed (1h, wakes injected), 2 real short timer
	Hard       int  `json:"hard,omitempty"` // 0 1h, 1 already passed (1ns), 2 real short timer
	WithCancel bool `json:"withcancel,omitempty"`
	// peer / exit / result / dup
	P   int    `json:"p,omitempty"`
	Err string `json:"err,omitempty"` // ok|timeout|disc|cancel|other
	// wake / idlewait / hardfire / cancel
	B      int  `json:"b,omitempty"`
	Gen    int  `json:"gen,omitempty"`
	GenCur bool `json:"gencur,omitempty"` // use the generation the harness believes current

	// resolved at run time / observations
	Skipped bool       `json:"skipped,omitempty"`
	Job     int64      `json:"job,omitempty"`
	Disp    [][3]int64 `json:"disp,omitempty"`   // job, worker, timeout seconds
	Verd    [][2]int64 `json:"verd,omitempty"`   // batch, class
	Max     []int64    `json:"max,omitempty"`    // OnMaxTries peers
	Scores  [][2]int64 `json:"scores,omitempty"` // peer, score
}

type History struct {
	ID        int          `json:"id"`
	Kind      string       `json:"kind,omitempty"` // "" dispatcher with scripted workers | worker | system
	WEvents   []WEv        `json:"wevents,omitempty"`
	System    *sysScenario `json:"system,omitempty"`
	Name      string `json:"name,omitempty"`
	Malformed bool   `json:"malformed,omitempty"`
	Scripted  bool   `json:"scripted,omitempty"` // replay the events as given
	NEv       int    `json:"nev,omitempty"`
	RealTimer int    `json:"realtimer,omitempty"` // 0 none, 1 idle, 2 hard
	Events    []Ev   `json:"events"`
	Tainted   string `json:"tainted,omitempty"`
	Failure   string `json:"failure,omitempty"`
	FailStep  int    `json:"failstep,omitempty"`
}

// ---------------------------------------------------------------------
// one run of the real dispatcher

type hWorker struct {
	id      int
	w       *query.VerifWorker
	holding *query.VerifJob
	last    *query.VerifJob
	exited  bool
}

type hBatch struct {
	errChan  chan error
	n        int
	first    int64
	verdicts int
	cancel   chan struct{}
	canceled bool
	prog     int
	hard     int
	gen      int
	t0       time.Time // submission (hard) / last arm (idle)
	live     bool
}

type runner struct {
	h        *History
	wm       query.WorkManager
	ranking  query.PeerRanking
	peerChan chan query.Peer
	newW     chan *hWorker
	workers  map[int]*hWorker
	order    []int
	batches  []*hBatch
	nextJob  int64
	mu       sync.Mutex
	maxTries []int64
	stopped  bool
	// real timer bookkeeping
	safeUntil time.Time
	haveReal  bool
}

type implFail struct {
	what string
}

func peerID(addr string) int {
	var id int
	fmt.Sscanf(addr, "peer%d", &id)
	return id
}

func newRunner(h *History) *runner {
	r := &runner{h: h, workers: map[int]*hWorker{}}
	r.peerChan = make(chan query.Peer)
	r.newW = make(chan *hWorker, 4)
	r.ranking = query.NewPeerRanking()
	r.wm = query.NewWorkManager(&query.Config{
		ConnectedPeers: func() (<-chan query.Peer, func(), error) {
			return r.peerChan, func() {}, nil
		},
		NewWorker: func(p query.Peer) query.Worker {
			w := query.NewVerifWorker(p)
			r.newW <- &hWorker{id: peerID(p.Addr()), w: w}
			return w
		},
		OnMaxTries: func(p query.Peer) {
			r.mu.Lock()
			r.maxTries = append(r.maxTries, int64(peerID(p.Addr())))
			r.mu.Unlock()
		},
		Ranking: r.ranking,
	})
	query.VerifUnbufferWakes(r.wm)
	r.wm.Start()
	return r
}

func errOf(kind string) error {
	switch kind {
	case "ok":
		return nil
	case "timeout":
		return query.ErrQueryTimeout
	case "disc":
		return query.ErrPeerDisconnected
	case "cancel":
		return query.ErrJobCanceled
	default:
		return errOther
	}
}

func classOf(err error) int64 {
	switch err {
	case nil:
		return 0
	case query.ErrQueryTimeout:
		return 1
	case query.ErrPeerDisconnected:
		return 2
	case query.ErrJobCanceled:
		return 3
	case query.ErrWorkManagerShuttingDown:
		return 5
	default:
		return 4
	}
}

func (r *runner) addWorker(hw *hWorker) {
	if _, ok := r.workers[hw.id]; !ok {
		r.order = append(r.order, hw.id)
	}
	r.workers[hw.id] = hw
}

// settle waits until the dispatcher is back in its outer select, accepting
// the jobs it hands out meanwhile.
func (r *runner) settle(e *Ev) *implFail {
	done := make(chan bool, 1)
	go func() { done <- query.VerifBarrier(r.wm) }()
	deadline := time.NewTimer(waitDeadline)
	defer deadline.Stop()
	for {
		cases := []reflect.SelectCase{
			{Dir: reflect.SelectRecv, Chan: reflect.ValueOf(done)},
			{Dir: reflect.SelectRecv, Chan: reflect.ValueOf(deadline.C)},
			{Dir: reflect.SelectRecv, Chan: reflect.ValueOf(r.newW)},
		}
		var who []*hWorker
		for _, id := range r.order {
			hw := r.workers[id]
			if hw.exited || hw.holding != nil {
				continue
			}
			cases = append(cases, reflect.SelectCase{Dir: reflect.SelectRecv, Chan: reflect.ValueOf(hw.w.JobChan())})
			who = append(who, hw)
		}
		i, v, _ := reflect.Select(cases)
		switch {
		case i == 0:
			return nil
		case i == 1:
			return &implFail{"dispatcher did not return to its select loop within the deadline (blocked)"}
		case i == 2:
			r.addWorker(v.Interface().(*hWorker))
		default:
			hw := who[i-3]
			j := query.WrapJob(v.Interface())
			hw.holding = &j
			hw.last = &j
			e.Disp = append(e.Disp, [3]int64{int64(j.Index()), int64(hw.id), int64(j.Timeout() / time.Second)})
		}
	}
}

// collect reads every batch's error channel without blocking, and the
// ranking, after the dispatcher has settled.
func (r *runner) collect(e *Ev) {
	for b, hb := range r.batches {
		for {
			select {
			case err := <-hb.errChan:
				hb.verdicts++
				hb.live = false
				e.Verd = append(e.Verd, [2]int64{int64(b), classOf(err)})
				continue
			default:
			}
			break
		}
	}
	r.mu.Lock()
	e.Max = append(e.Max, r.maxTries...)
	r.maxTries = nil
	r.mu.Unlock()
	snap := query.VerifRankSnapshot(r.ranking)
	for addr, sc := range snap {
		e.Scores = append(e.Scores, [2]int64{int64(peerID(addr)), int64(sc)})
	}
	sort.Slice(e.Scores, func(i, j int) bool { return e.Scores[i][0] < e.Scores[j][0] })
}

func (r *runner) batchOfJob(j int64) int {
	for b, hb := range r.batches {
		if j >= hb.first && j < hb.first+int64(hb.n) {
			return b
		}
	}
	return -1
}

func withDeadline(f func()) bool {
	done := make(chan struct{})
	go func() { f(); close(done) }()
	select {
	case <-done:
		return true
	case <-time.After(waitDeadline):
		return false
	}
}

// exec performs one event on the real dispatcher. Returns (applicable, failure).
func (r *runner) exec(e *Ev) (bool, *implFail) {
	start := time.Now()
	if r.stopped && e.K != "batch" {
		return false, nil
	}
	switch e.K {
	case "batch":
		reqs := make([]*query.Request, e.N)
		for i := range reqs {
			reqs[i] = &query.Request{}
		}
		hb := &hBatch{n: e.N, first: r.nextJob, prog: e.Prog, hard: e.Hard, live: true, t0: start}
		opts := []query.QueryOption{query.NumRetries(uint8(e.Retries))}
		if e.NoRetryMax {
			opts = append(opts, query.NoRetryMax())
		}
		switch e.Hard {
		case 0:
			opts = append(opts, query.Timeout(longTimeout))
		case 1:
			opts = append(opts, query.Timeout(0)) // normalised to 1ns by the package
		case 2:
			opts = append(opts, query.Timeout(realTimerMs*time.Millisecond))
		}
		switch e.Prog {
		case 1:
			opts = append(opts, query.ProgressTimeout(longTimeout))
			hb.gen = 1
		case 2:
			opts = append(opts, query.ProgressTimeout(realTimerMs*time.Millisecond))
			hb.gen = 1
		}
		if e.WithCancel {
			hb.cancel = make(chan struct{})
			opts = append(opts, query.Cancel(hb.cancel))
		}
		if !withDeadline(func() { hb.errChan = r.wm.Query(reqs, opts...) }) {
			return true, &implFail{"Query blocked: dispatcher does not accept a new batch"}
		}
		r.batches = append(r.batches, hb)
		if !r.stopped {
			r.nextJob += int64(e.N)
		}
		if e.Hard == 2 || e.Prog == 2 {
			r.haveReal = true
			r.safeUntil = start.Add(realTimerMs / 2 * time.Millisecond)
		}
	case "peer":
		if hw, ok := r.workers[e.P]; ok && !hw.exited {
			return false, nil
		}
		p := query.NewVerifPeer(fmt.Sprintf("peer%d", e.P))
		select {
		case r.peerChan <- p:
		case <-time.After(waitDeadline):
			return true, &implFail{"dispatcher does not accept a new peer"}
		}
	case "exit":
		hw, ok := r.workers[e.P]
		if !ok || hw.exited || hw.holding != nil {
			return false, nil
		}
		hw.exited = true
		hw.w.Exit()
		select {
		case <-hw.w.Done():
		case <-time.After(waitDeadline):
			return true, &implFail{"worker Run did not return"}
		}
	case "result", "dup":
		hw, ok := r.workers[e.P]
		if !ok || hw.exited {
			return false, nil
		}
		var job *query.VerifJob
		if e.K == "result" {
			if hw.holding == nil {
				return false, nil
			}
			job = hw.holding
		} else {
			if hw.holding != nil || hw.last == nil {
				return false, nil
			}
			job = hw.last
		}
		e.Job = int64(job.Index())
		hw.holding = nil
		if !withDeadline(func() { hw.w.Deliver(*job, errOf(e.Err)) }) {
			return true, &implFail{"worker could not take the scripted result"}
		}
		select {
		case <-hw.w.Sent():
		case <-time.After(waitDeadline):
			return true, &implFail{"dispatcher does not receive a job result (blocked)"}
		}
	case "wake":
		if e.GenCur && e.B < len(r.batches) {
			e.Gen = r.batches[e.B].gen
		}
		e.GenCur = false
		ok := withDeadline(func() { query.VerifInjectWake(r.wm, uint64(e.B), uint64(e.Gen)) })
		if !ok {
			return true, &implFail{"dispatcher does not receive a progress wake (blocked)"}
		}
	case "idlewait":
		// the real idle timer of batch B is left to fire
		if e.B >= len(r.batches) || r.batches[e.B].prog != 2 {
			return false, nil
		}
		hb := r.batches[e.B]
		e.Gen = hb.gen
		time.Sleep(time.Until(hb.t0.Add(realTimerMs * 5 / 2 * time.Millisecond)))
		r.haveReal = false
	case "hardfire":
		if e.B >= len(r.batches) || r.batches[e.B].hard == 0 {
			return false, nil
		}
		hb := r.batches[e.B]
		if hb.hard == 1 {
			time.Sleep(time.Until(hb.t0.Add(30 * time.Millisecond)))
		} else {
			time.Sleep(time.Until(hb.t0.Add(realTimerMs * 2 * time.Millisecond)))
			r.haveReal = false
		}
	case "cancel":
		if e.B >= len(r.batches) || r.batches[e.B].cancel == nil || r.batches[e.B].canceled {
			return false, nil
		}
		r.batches[e.B].canceled = true
		close(r.batches[e.B].cancel)
	case "quit":
		if !withDeadline(func() { r.wm.Stop() }) {
			return true, &implFail{"Stop did not return: dispatcher or a worker blocked at shutdown"}
		}
		r.stopped = true
	default:
		return false, nil
	}
	if !r.stopped {
		if f := r.settle(e); f != nil {
			return true, f
		}
	}
	r.collect(e)
	// harness-side tracking used only to generate sensible next events
	if e.K == "result" || e.K == "dup" {
		if b := r.batchOfJob(e.Job); b >= 0 {
			hb := r.batches[b]
			if e.Err == "ok" && hb.live && hb.prog != 0 {
				hb.gen++
				hb.t0 = start
				if hb.prog == 2 {
					r.safeUntil = start.Add(realTimerMs / 2 * time.Millisecond)
				}
			}
		}
	}
	for _, hb := range r.batches {
		if (hb.prog == 2 || hb.hard == 2) && !hb.live {
			r.haveReal = false // its timers are stopped or no longer looked at
		}
	}
	if r.haveReal && time.Now().After(r.safeUntil) && r.h.Tainted == "" {
		r.h.Tainted = "event finished too close to a real timer deadline (machine too slow); case dropped"
	}
	return true, nil
}

// ---------------------------------------------------------------------
// generator (online: valid next events depend on what the dispatcher did)

type gen struct {
	r        *rand.Rand
	run      *runner
	nextPeer int
	pending  []Ev // events forced next
	realAt   int  // step at which the real timer of the history is left to fire
}

func (g *gen) pickErr(canceled bool) string {
	x := g.r.Intn(100)
	if canceled {
		if x < 70 {
			return "cancel"
		}
		x = g.r.Intn(100)
	}
	switch {
	case x < 48:
		return "ok"
	case x < 68:
		return "timeout"
	case x < 80:
		return "other"
	case x < 92:
		return "disc"
	default:
		return "cancel"
	}
}

func (g *gen) newBatch() Ev {
	e := Ev{K: "batch"}
	switch x := g.r.Intn(20); {
	case x == 0:
		e.N = 0
	default:
		e.N = 1 + g.r.Intn(5)
	}
	e.NoRetryMax = g.r.Intn(5) == 0
	e.Retries = []int{0, 1, 2, 2, 2, 3, 5, 255}[g.r.Intn(8)]
	if g.r.Intn(10) < 4 {
		e.Prog = 1
	}
	if g.r.Intn(100) < 15 {
		e.Hard = 1
	}
	e.WithCancel = g.r.Intn(10) < 3
	return e
}

func (g *gen) next(step, total int) Ev {
	if len(g.pending) > 0 {
		e := g.pending[0]
		g.pending = g.pending[1:]
		return e
	}
	run := g.run
	if run.stopped {
		return g.newBatch()
	}
	if step >= total {
		return Ev{K: "quit"}
	}
	var busy, idle, exited, alive []int
	for _, id := range run.order {
		hw := run.workers[id]
		switch {
		case hw.exited:
			exited = append(exited, id)
		case hw.holding != nil:
			busy = append(busy, id)
			alive = append(alive, id)
		default:
			idle = append(idle, id)
			alive = append(alive, id)
		}
	}
	nlive := 0
	var cancellable, realB []int
	for b, hb := range run.batches {
		if hb.live {
			nlive++
			if hb.cancel != nil && !hb.canceled {
				cancellable = append(cancellable, b)
			}
			if hb.prog == 2 || hb.hard == 2 {
				realB = append(realB, b)
			}
		}
	}
	if g.realAt > 0 && step >= g.realAt && len(realB) > 0 {
		g.realAt = 0
		b := realB[0]
		if run.batches[b].prog == 2 {
			return Ev{K: "idlewait", B: b}
		}
		return Ev{K: "hardfire", B: b}
	}
	type choice struct {
		w float64
		k string
	}
	var ch []choice
	bw := 0.5
	if nlive < 3 {
		bw = 2
	}
	if nlive == 0 {
		bw = 4
	}
	ch = append(ch, choice{bw, "batch"})
	if len(alive) < 4 {
		pw := 2.0
		if len(alive) == 0 {
			pw = 8
		}
		ch = append(ch, choice{pw, "peer"})
	}
	if len(busy) > 0 {
		ch = append(ch, choice{10 + 2*float64(len(busy)), "result"})
	}
	if len(idle) > 0 {
		ch = append(ch, choice{0.8, "exit"})
	}
	if len(run.batches) > 0 {
		ch = append(ch, choice{1.5, "wake"})
	}
	if len(cancellable) > 0 {
		ch = append(ch, choice{0.8, "cancel"})
	}
	if run.h.Malformed {
		if len(idle) > 0 {
			ch = append(ch, choice{2.5, "dup"})
		}
		ch = append(ch, choice{0.5, "badwake"})
	}
	if len(realB) > 0 && step > total/4 {
		ch = append(ch, choice{3, "real"})
	}
	ch = append(ch, choice{0.25, "quit"})
	var tot float64
	for _, x := range ch {
		tot += x.w
	}
	x := g.r.Float64() * tot
	k := ch[len(ch)-1].k
	for _, y := range ch {
		if x < y.w {
			k = y.k
			break
		}
		x -= y.w
	}
	switch k {
	case "batch":
		e := g.newBatch()
		if run.h.RealTimer != 0 && !run.haveReal && len(realB) == 0 && !g.usedReal() {
			if run.h.RealTimer == 1 {
				e.Prog, e.Hard = 2, 0
			} else {
				e.Hard = 2
			}
			if e.N < 3 {
				e.N = 3 + g.r.Intn(3)
			}
			g.realAt = step + 1 + g.r.Intn(4)
		}
		if e.Hard == 1 {
			g.pending = append(g.pending, Ev{K: "hardfire", B: len(run.batches)})
		}
		return e
	case "peer":
		if len(exited) > 0 && g.r.Intn(3) == 0 {
			return Ev{K: "peer", P: exited[g.r.Intn(len(exited))]}
		}
		id := g.nextPeer
		g.nextPeer++
		return Ev{K: "peer", P: id}
	case "result":
		id := busy[g.r.Intn(len(busy))]
		hw := run.workers[id]
		b := run.batchOfJob(int64(hw.holding.Index()))
		canceled := b >= 0 && (run.batches[b].canceled || hw.holding.InternalCanceled())
		e := Ev{K: "result", P: id, Err: g.pickErr(canceled)}
		if e.Err == "disc" && g.r.Intn(5) != 0 {
			g.pending = append(g.pending, Ev{K: "exit", P: id})
		}
		return e
	case "exit":
		return Ev{K: "exit", P: idle[g.r.Intn(len(idle))]}
	case "wake":
		b := g.r.Intn(len(run.batches))
		if g.r.Intn(2) == 0 {
			return Ev{K: "wake", B: b, GenCur: true}
		}
		return Ev{K: "wake", B: b, Gen: g.r.Intn(4)}
	case "badwake":
		return Ev{K: "wake", B: g.r.Intn(len(run.batches) + 2), Gen: g.r.Intn(3)}
	case "cancel":
		return Ev{K: "cancel", B: cancellable[g.r.Intn(len(cancellable))]}
	case "dup":
		if len(idle) > 0 {
			return Ev{K: "dup", P: idle[g.r.Intn(len(idle))], Err: g.pickErr(false)}
		}
		return Ev{K: "wake", B: 0, Gen: 0}
	case "real":
		b := realB[0]
		if run.batches[b].prog == 2 {
			return Ev{K: "idlewait", B: b}
		}
		return Ev{K: "hardfire", B: b}
	}
	return Ev{K: "quit"}
}

func (g *gen) usedReal() bool {
	for _, hb := range g.run.batches {
		if hb.prog == 2 || hb.hard == 2 {
			return true
		}
	}
	return false
}

// runHistory executes (and, unless scripted, generates) one history.
func runHistory(h *History, seed int64) {
	run := newRunner(h)
	defer func() {
		if !run.stopped {
			go run.wm.Stop()
		}
	}()
	fail := func(step int, f *implFail) {
		h.Failure = f.what
		h.FailStep = step
	}
	if h.Scripted {
		evs := h.Events
		h.Events = nil
		for _, e := range evs {
			e.Disp, e.Verd, e.Max, e.Scores, e.Skipped = nil, nil, nil, nil, false
			ok, f := run.exec(&e)
			if !ok {
				e.Skipped = true
			}
			h.Events = append(h.Events, e)
			if f != nil {
				fail(len(h.Events)-1, f)
				return
			}
		}
	} else {
		g := &gen{r: c.Rng(seed, h.ID), run: run}
		total := h.NEv
		postQuit := g.r.Intn(3)
		for step := 0; step < total+40; step++ {
			if run.stopped {
				if postQuit == 0 {
					break
				}
				postQuit--
			}
			e := g.next(step, total)
			ok, f := run.exec(&e)
			if !ok {
				continue
			}
			h.Events = append(h.Events, e)
			if f != nil {
				fail(len(h.Events)-1, f)
				return
			}
		}
		if !run.stopped {
			e := Ev{K: "quit"}
			_, f := run.exec(&e)
			h.Events = append(h.Events, e)
			if f != nil {
				fail(len(h.Events)-1, f)
				return
			}
		}
	}
	// Independent implementation-side check: after Stop every batch has
	// received exactly one value on its error channel.
	if run.stopped && h.Failure == "" {
		for b, hb := range run.batches {
			if hb.verdicts != 1 {
				h.Failure = fmt.Sprintf("batch %d received %d verdicts by the end of the run", b, hb.verdicts)
				h.FailStep = len(h.Events) - 1
				// still emitted to Coq: the monitor reports it too
				break
			}
		}
	}
}

// ---------------------------------------------------------------------
// Coq output

var verdictName = []string{"VSuccess", "VTimeout", "VDisconnected", "VCanceled", "VOther", "VShutdown"}

func jerrName(s string) string {
	switch s {
	case "ok":
		return "JOk"
	case "timeout":
		return "JTimeout"
	case "disc":
		return "JDisconnected"
	case "cancel":
		return "JCanceled"
	}
	return "JOther"
}

func evTerm(e *Ev) string {
	switch e.K {
	case "batch":
		pt := int64(0)
		if e.Prog != 0 {
			pt = 1
		}
		return c.App("NewBatch", fmt.Sprintf("%d%%nat", e.N), c.Bool(e.NoRetryMax), c.Z(int64(e.Retries)), c.Z(pt))
	case "peer":
		return c.App("PeerConnected", c.Z(int64(e.P)))
	case "exit":
		return c.App("WorkerExit", c.Z(int64(e.P)))
	case "result", "dup":
		return c.App("Result", c.Z(e.Job), c.Z(int64(e.P)), jerrName(e.Err))
	case "wake", "idlewait":
		return c.App("ProgressWake", c.Z(int64(e.B)), c.Z(int64(e.Gen)))
	case "hardfire":
		return c.App("HardTimer", c.Z(int64(e.B)))
	case "cancel":
		return c.App("Cancel", c.Z(int64(e.B)))
	case "quit":
		return "Quit"
	}
	panic("event kind " + e.K)
}

func obsTerm(e *Ev) string {
	var d, v, m, s []string
	for _, x := range e.Disp {
		d = append(d, fmt.Sprintf("(%d, %d, %d)", x[0], x[1], x[2]))
	}
	for _, x := range e.Verd {
		v = append(v, fmt.Sprintf("(%d, %s)", x[0], verdictName[x[1]]))
	}
	for _, x := range e.Max {
		m = append(m, c.Z(x))
	}
	for _, x := range e.Scores {
		s = append(s, fmt.Sprintf("(%d, %d)", x[0], x[1]))
	}
	return fmt.Sprintf("{| odisp := %s; overd := %s; omax := %s; oscores := %s |}", c.List(d), c.List(v), c.List(m), c.List(s))
}

func caseTerm(h *History) string {
	var items []string
	for i := range h.Events {
		e := &h.Events[i]
		if e.Skipped {
			continue
		}
		items = append(items, c.Pair(evTerm(e), obsTerm(e)))
	}
	return c.Pair(c.Z(int64(h.ID)), c.List(items))
}

func sigOf(h *History) (string, bool) {
	var sb strings.Builder
	redisp := map[int64]bool{}
	retry, resultVerdict, nb := false, false, 0
	for i := range h.Events {
		e := &h.Events[i]
		if e.Skipped {
			continue
		}
		switch e.K {
		case "batch":
			nb++
			sb.WriteString("B")
		case "peer":
			sb.WriteString("P")
		case "exit":
			sb.WriteString("X")
		case "result":
			sb.WriteString(map[string]string{"ok": "o", "timeout": "t", "disc": "d", "cancel": "c", "other": "e"}[e.Err])
			if len(e.Verd) > 0 {
				resultVerdict = true
			}
		case "dup":
			sb.WriteString("D")
		case "wake":
			sb.WriteString("w")
		case "idlewait":
			sb.WriteString("I")
		case "hardfire":
			sb.WriteString("H")
		case "cancel":
			sb.WriteString("C")
		case "quit":
			sb.WriteString("Q")
		}
		for _, v := range e.Verd {
			sb.WriteString(fmt.Sprintf("[%d]", v[1]))
		}
		for _, d := range e.Disp {
			if redisp[d[0]] {
				retry = true
			}
			redisp[d[0]] = true
		}
	}
	return sb.String(), retry && resultVerdict && nb >= 2
}

// ---------------------------------------------------------------------
// corpus of fixed histories (run first)

func corpus() []History {
	P := func(p int) Ev { return Ev{K: "peer", P: p} }
	R := func(p int, err string) Ev { return Ev{K: "result", P: p, Err: err} }
	Q := Ev{K: "quit"}
	hs := []History{
		{Name: "retry-then-success", Events: []Ev{P(0), {K: "batch", N: 1, Retries: 2}, R(0, "timeout"), R(0, "ok"), Q}},
		{Name: "retry-cap-then-late-results-discarded", Events: []Ev{P(0), P(1), {K: "batch", N: 3, Retries: 2}, R(0, "timeout"), R(0, "other"), R(1, "timeout"), R(1, "ok"), R(0, "ok"), R(1, "ok"), {K: "batch", N: 1, Retries: 2}, R(0, "ok"), R(1, "ok"), Q}},
		{Name: "empty-and-peerless-batches-answered-at-quit", Events: []Ev{{K: "batch", N: 0, Retries: 2}, {K: "batch", N: 2, Retries: 2}, Q, {K: "batch", N: 1, Retries: 2}}},
		{Name: "hard-deadline-examined-on-result", Events: []Ev{P(0), {K: "batch", N: 2, Retries: 2, Hard: 1}, {K: "hardfire", B: 0}, R(0, "ok"), R(0, "ok"), Q}},
		{Name: "hard-deadline-with-failed-result-requeues-stale-job", Events: []Ev{P(0), {K: "batch", N: 2, Retries: 5, Hard: 1}, {K: "hardfire", B: 0}, R(0, "other"), R(0, "cancel"), R(0, "cancel"), Q}},
		{Name: "stale-wake-ignored-current-wake-times-out", Events: []Ev{P(0), {K: "batch", N: 3, Retries: 2, Prog: 1}, R(0, "ok"), {K: "wake", B: 0, Gen: 1}, {K: "wake", B: 0, Gen: 2}, R(0, "ok"), {K: "wake", B: 0, Gen: 2}, Q}},
		{Name: "cancel", Events: []Ev{P(0), P(1), {K: "batch", N: 3, Retries: 2, WithCancel: true}, {K: "cancel", B: 0}, R(1, "cancel"), R(0, "cancel"), R(0, "cancel"), R(1, "ok"), Q}},
		{Name: "no-retry-max", Events: []Ev{P(0), {K: "batch", N: 1, NoRetryMax: true, Retries: 1}, R(0, "timeout"), R(0, "timeout"), R(0, "timeout"), R(0, "timeout"), R(0, "timeout"), R(0, "other"), R(0, "disc"), R(0, "ok"), Q}},
		{Name: "retries-zero", Events: []Ev{P(0), {K: "batch", N: 2, Retries: 0}, R(0, "disc"), {K: "exit", P: 0}, P(0), R(0, "ok"), Q}},
		{Name: "ranking-prefers-rewarded-peer", Events: []Ev{P(0), {K: "batch", N: 2, Retries: 2}, R(0, "ok"), R(0, "ok"), P(1), P(2), {K: "batch", N: 1, Retries: 2}, R(0, "timeout"), R(0, "timeout"), {K: "batch", N: 4, Retries: 2}, Q}},
		{Name: "disconnect-exit-reconnect", Events: []Ev{P(0), P(1), {K: "batch", N: 4, Retries: 3}, R(0, "disc"), {K: "exit", P: 0}, R(1, "ok"), P(0), R(0, "ok"), R(1, "ok"), R(0, "ok"), R(1, "ok"), Q}},
		{Name: "real-idle-timer", RealTimer: 1, Events: []Ev{P(0), {K: "batch", N: 3, Retries: 2, Prog: 2}, R(0, "ok"), {K: "idlewait", B: 0}, R(0, "ok"), Q}},
		{Name: "real-hard-timer", RealTimer: 2, Events: []Ev{P(0), {K: "batch", N: 3, Retries: 2, Hard: 2}, R(0, "ok"), {K: "hardfire", B: 0}, R(0, "ok"), R(0, "ok"), Q}},
		{Name: "malformed-duplicate-result", Malformed: true, Events: []Ev{P(0), {K: "batch", N: 2, Retries: 2}, R(0, "ok"), R(0, "ok"), {K: "dup", P: 0, Err: "ok"}, {K: "batch", N: 2, Retries: 2}, R(0, "timeout"), Q}},
	}
	for i := range hs {
		hs[i].ID = i
		hs[i].Scripted = true
	}
	return hs
}

func main() {
	a := c.ParseArgs()
	rep := c.NewReport("C12", a)
	var hs []History
	if a.Replay != "" {
		var h History
		// a replay file written by the orchestrator wraps the history
		var wrap struct {
			History *History `json:"history"`
		}
		c.ReadJSON(a.Replay, &wrap)
		if wrap.History != nil {
			h = *wrap.History
		} else {
			c.ReadJSON(a.Replay, &h)
		}
		h.Scripted = true
		h.Failure, h.Tainted = "", ""
		hs = []History{h}
	} else {
		hs = corpus()
		n, nreal := 600, 8
		if a.Tier == "thorough" {
			n, nreal = 12000, 64
		}
		base := len(hs)
		for i := 0; i < n; i++ {
			r := c.Rng(a.Seed, base+i)
			h := History{ID: base + i, NEv: 25 + r.Intn(50)}
			h.Malformed = i%10 >= 8 // 20 % malformed stream (worker contract broken)
			if i < nreal {
				h.RealTimer = 1 + i%2
				h.Malformed = false
			}
			hs = append(hs, h)
		}
		// real worker.Run: worker-level histories and system scenarios
		nw, nsys := 60, 8
		if a.Tier == "thorough" {
			nw, nsys = 600, 40
		}
		for i, evs := range workerCorpus() {
			hs = append(hs, History{ID: 100000 + i, Kind: "worker", WEvents: evs})
		}
		for i := 0; i < nw; i++ {
			r := c.Rng(a.Seed, 100100+i)
			hs = append(hs, History{ID: 100100 + i, Kind: "worker", WEvents: genWorkerHistory(r, 4+r.Intn(8))})
		}
		for i := 0; i < nsys; i++ {
			r := c.Rng(a.Seed, 200000+i)
			hs = append(hs, History{ID: 200000 + i, Kind: "system", System: genSystem(r, i)})
		}
		// timed family: real workers behind the real dispatcher, chatty peer
		ntimed := 6
		if a.Tier == "thorough" {
			ntimed = 24
		}
		for i := 0; i < ntimed; i++ {
			hs = append(hs, History{ID: 300000 + i, Kind: "system", System: genTimed(i)})
		}
		// shutdown while a cancelled batch drains; idle wakes while the dispatcher is busy
		ncs, niw := 4, 3
		if a.Tier == "thorough" {
			ncs, niw = 16, 12
		}
		for i := 0; i < ncs; i++ {
			hs = append(hs, History{ID: 400000 + i, Kind: "system", System: genCancelStop(i + int(a.Seed%1000))})
		}
		for i := 0; i < niw; i++ {
			hs = append(hs, History{ID: 500000 + i, Kind: "system", System: genIdleWakes(i + int(a.Seed%1000))})
		}
	}

	var wg sync.WaitGroup
	sem := make(chan struct{}, a.Workers)
	for i := range hs {
		wg.Add(1)
		sem <- struct{}{}
		go func(h *History) {
			defer wg.Done()
			defer func() { <-sem }()
			switch h.Kind {
			case "worker":
				runWorkerHistory(h)
			case "system":
				h.Failure = ""
				h.System.Served, h.System.Verdict = nil, ""
				runSystem(h)
			default:
				runHistory(h, a.Seed)
			}
		}(&hs[i])
	}
	wg.Wait()

	header := "From Coq Require Import ZArith List.\nFrom Verif Require Import C12.Model C12.Spec C12.Replay.\nImport ListNotations.\nOpen Scope Z_scope.\n"
	consts := fmt.Sprintf("[%d; %d; %d; %d; %d]", query.VerifBestScore, query.VerifDefaultScore, query.VerifWorstScore,
		int64(query.VerifMinQueryTimeout/time.Second), int64(query.VerifMaxQueryTimeout/time.Second))
	const perShard = 75
	sigs := c.Signatures{}
	nontrivial := c.Signatures{}
	var shard []string
	nshard := 0
	flush := func(last bool) {
		if len(shard) == 0 && !(last && nshard == 0) {
			return
		}
		var sb strings.Builder
		sb.WriteString(header)
		sb.WriteString("Definition cases : list (Z * list (ev * obs)) := [\n")
		sb.WriteString(strings.Join(shard, ";\n"))
		sb.WriteString("].\n")
		extra := ""
		if nshard == 0 {
			extra = " ++ consts_rows " + consts
		}
		sb.WriteString("Definition R := Eval vm_compute in (run_cases cases" + extra + ").\nSet Printing Width 1000000.\nSet Printing Depth 1000000.\nPrint R.\n")
		c.WriteFile(filepath.Join(a.Out, fmt.Sprintf("cases_%d.v", nshard)), sb.String())
		nshard++
		shard = nil
	}
	nev := 0
	var wcases []string
	for i := range hs {
		h := &hs[i]
		path := filepath.Join(a.Out, fmt.Sprintf("hist-%d.json", h.ID))
		c.WriteJSON(path, h)
		rep.Cases[fmt.Sprint(h.ID)] = path
		if h.Tainted != "" {
			rep.Histogram["dropped_timing"]++
			continue
		}
		if h.Kind == "worker" {
			wcases = append(wcases, wcaseTerm(h))
			rep.Evaluations++
			if h.Failure != "" {
				rep.ImplFailures = append(rep.ImplFailures, c.ImplFailure{Case: fmt.Sprint(h.ID), Step: h.FailStep, What: h.Failure})
			}
			for j := range h.WEvents {
				if !h.WEvents[j].Skipped {
					rep.Histogram["wev:"+h.WEvents[j].K]++
					if h.WEvents[j].HasRes {
						rep.Histogram["wresult:"+h.WEvents[j].ResE]++
					}
				}
			}
			continue
		}
		if h.Kind == "system" {
			rep.Evaluations++
			rep.Histogram["system:"+h.System.Kind]++
			if h.Failure != "" {
				rep.ImplFailures = append(rep.ImplFailures, c.ImplFailure{Case: fmt.Sprint(h.ID), Step: h.FailStep, What: h.Failure})
			}
			continue
		}
		if h.Failure != "" {
			rep.ImplFailures = append(rep.ImplFailures, c.ImplFailure{Case: fmt.Sprint(h.ID), Step: h.FailStep, What: h.Failure})
		}
		rep.Evaluations++
		sig, nt := sigOf(h)
		sigs.Add(sig)
		if nt {
			nontrivial.Add(sig)
		}
		for j := range h.Events {
			e := &h.Events[j]
			if e.Skipped {
				continue
			}
			nev++
			k := e.K
			if k == "result" {
				k += ":" + e.Err
			}
			rep.Histogram["ev:"+k]++
			for _, v := range e.Verd {
				rep.Histogram["verdict:"+verdictName[v[1]]]++
			}
			rep.Histogram["handouts"] += len(e.Disp)
			rep.Histogram["onmaxtries"] += len(e.Max)
		}
		if h.Malformed {
			rep.Histogram["histories_malformed"]++
		}
		if h.RealTimer != 0 {
			rep.Histogram["histories_real_timer"]++
		}
		shard = append(shard, caseTerm(h))
		if len(shard) >= perShard {
			flush(false)
		}
	}
	flush(true)
	if len(wcases) > 0 {
		c.WriteFile(filepath.Join(a.Out, "cases_w.v"), header+
			"Definition wcases : list (Z * list (wev * wobs)) := [\n"+strings.Join(wcases, ";\n")+"].\n"+
			"Definition R := Eval vm_compute in (run_wcases wcases).\nSet Printing Width 1000000.\nSet Printing Depth 1000000.\nPrint R.\n")
	}
	rep.Histogram["events"] = nev
	rep.Histogram["distinct_signatures"] = len(sigs)
	rep.DistinctNontrivial = len(nontrivial)
	rep.Rule = "histories of new batches (all option sets), peer connects/exits/reconnects, job results of every class, injected and real progress wakes, hard deadlines, cancels, Quit at arbitrary points and late Query calls, executed on the real peerWorkManager dispatcher with scripted workers; non-trivial = at least two batches, a verdict caused by a job result and a job handed out again after a failure; distinct = distinct signature of event kinds + result classes + verdict classes"
	for i := 0; i < len(hs) && len(rep.Samples) < 3; i++ {
		if hs[i].Tainted == "" {
			rep.Samples = append(rep.Samples, hs[i])
		}
	}
	rep.Write(a.Out)
}
