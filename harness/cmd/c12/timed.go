// Timed family for C12: the REAL query.Worker (worker.Run) behind the real
// dispatcher, two peers.  The peer that is handed the request does not answer
// it but keeps sending a response every ChatterMs:
//
//	noise:    responses that make no progress (Progress{}): the job timer must
//	          NOT be postponed by them — the job is reported timed out after
//	          its per-job timeout, re-queued to the other (honest) peer and
//	          the batch succeeds within a generous bound;
//	progress: responses that do make progress (Progressed, not Finished): the
//	          timer is legitimately re-armed — the job must stay with the
//	          chatty peer while it talks; once it falls silent the job times
//	          out, moves to the honest peer and the batch succeeds.
//
// The per-job timeout is shortened through the verif hook
// NewVerifShortTimeoutWorker (the dispatcher's constant is 2 s); the loop of
// worker.Run is the unchanged real one.  Bounds are generous (seconds against
// a 250 ms timeout); the "too early" check of the progress variant is only
// judged when the chatter was measured to be dense enough, so that a loaded
// machine cannot cause a false alarm.
package main

import (
	"fmt"
	"time"

	"github.com/btcsuite/btcd/wire/v2"
	"github.com/lightninglabs/neutrino/query"
)

const (
	timedJobTimeout = 250 * time.Millisecond
	timedChatter    = 20 * time.Millisecond
	timedTalkFor    = 1000 * time.Millisecond // progress variant: 4 job timeouts
	timedBound      = 4 * time.Second
	timedDenseGap   = 150 * time.Millisecond
)

func genTimed(i int) *sysScenario {
	return &sysScenario{Kind: []string{"noise", "progress"}[i%2], Peers: 2, First: 1,
		JobTimeoutMs: int(timedJobTimeout / time.Millisecond), ChatterMs: int(timedChatter / time.Millisecond)}
}

func runTimed(h *History) {
	sc := h.System
	sc.Verdict, sc.MovedAfterMs, sc.DoneAfterMs, sc.MaxGapMs = "", 0, 0, 0
	fail := func(step int, what string) {
		if h.Failure == "" {
			h.Failure, h.FailStep = what, step
		}
	}
	jobTimeout := time.Duration(sc.JobTimeoutMs) * time.Millisecond
	chatter := time.Duration(sc.ChatterMs) * time.Millisecond
	peerChan := make(chan query.Peer)
	wm := query.NewWorkManager(&query.Config{
		ConnectedPeers: func() (<-chan query.Peer, func(), error) { return peerChan, func() {}, nil },
		NewWorker: func(p query.Peer) query.Worker {
			return query.NewVerifShortTimeoutWorker(p, jobTimeout)
		},
		Ranking: query.NewPeerRanking(),
	})
	wm.Start()
	defer func() {
		if !withDeadline(func() { wm.Stop() }) {
			fail(99, "Stop did not return with real workers")
		}
	}()
	var peers []*query.VerifPeer
	for i := 0; i < 2; i++ {
		p := query.NewVerifPeer(fmt.Sprintf("peer%d", i))
		peers = append(peers, p)
		select {
		case peerChan <- p:
		case <-time.After(waitDeadline):
			fail(0, "dispatcher does not accept a new peer")
			return
		}
	}
	const nonce = uint64(7)
	errChan := wm.Query([]*query.Request{pingPongRequest(nonce)})

	t0 := time.Now()
	chatty := -1
	var talkStart, lastSent, moved, silentSince time.Time
	var maxGap time.Duration
	talking := false
	deadline := t0.Add(timedBound + timedTalkFor + 2*time.Second)
	for time.Now().Before(deadline) {
		select {
		case err := <-errChan:
			sc.Verdict = errName(err)
			sc.DoneAfterMs = int(time.Since(t0) / time.Millisecond)
		default:
		}
		if sc.Verdict != "" {
			break
		}
		for i, p := range peers {
			select {
			case <-p.Sent:
				switch {
				case chatty == -1:
					chatty, talking = i, true
					talkStart, lastSent = time.Now(), time.Now()
				case i != chatty && moved.IsZero():
					moved = time.Now()
					sc.MovedAfterMs = int(moved.Sub(talkStart) / time.Millisecond)
					fallthrough
				default:
					// the honest peer (or the chatty one, asked again) answers
					select {
					case p.Msgs <- &wire.MsgPong{Nonce: nonce}:
					case <-time.After(waitDeadline):
					}
				}
			default:
			}
		}
		now := time.Now()
		if talking && sc.Kind == "progress" && now.Sub(talkStart) >= timedTalkFor {
			talking, silentSince = false, now
		}
		if talking && moved.IsZero() && now.Sub(lastSent) >= chatter {
			var msg wire.Message
			if sc.Kind == "progress" {
				msg = &wire.MsgPong{Nonce: 1 << 63} // Progressed, not Finished
			} else {
				msg = &wire.MsgPong{Nonce: nonce + 1} // not ours: Progress{}
			}
			select {
			case peers[chatty].Msgs <- msg:
				done := time.Now()
				if g := done.Sub(lastSent); g > maxGap {
					maxGap = g
				}
				lastSent = done
			case <-time.After(500 * time.Millisecond):
				maxGap = time.Second
				lastSent = time.Now()
			}
		}
		// the noise variant is decided as soon as the bound is exceeded
		if sc.Kind == "noise" && chatty >= 0 && now.Sub(talkStart) > timedBound {
			break
		}
		if sc.Kind == "progress" && !silentSince.IsZero() && now.Sub(silentSince) > timedBound {
			break
		}
		time.Sleep(time.Millisecond)
	}
	sc.MaxGapMs = int(maxGap / time.Millisecond)

	if chatty == -1 {
		fail(1, "timed: the request was never issued to a peer")
		return
	}
	switch sc.Kind {
	case "noise":
		if moved.IsZero() {
			fail(2, fmt.Sprintf("timed: a peer that sends a non-progress response every %d ms keeps the job beyond %v (per-job timeout %v): the worker never reports ErrQueryTimeout, the job is never re-queued to the idle honest peer and the batch gets no verdict (job timer postponed by responses that make no progress)",
				sc.ChatterMs, timedBound, jobTimeout))
			return
		}
		if sc.Verdict != "ok" {
			fail(3, fmt.Sprintf("timed: batch verdict %q after the job moved to the honest peer, want success", sc.Verdict))
		}
	case "progress":
		if !moved.IsZero() && (silentSince.IsZero() || moved.Before(silentSince)) && maxGap < timedDenseGap {
			fail(2, fmt.Sprintf("timed: the job was taken from a peer %d ms after hand-out although it reported progress every <= %d ms (per-job timeout %v): a response that makes progress does not re-arm the job timer",
				sc.MovedAfterMs, sc.MaxGapMs, jobTimeout))
			return
		}
		if moved.IsZero() {
			fail(3, fmt.Sprintf("timed: the job did not move to the honest peer within %v after the chatty peer fell silent", timedBound))
			return
		}
		if sc.Verdict != "ok" {
			fail(4, fmt.Sprintf("timed: batch verdict %q after the job moved to the honest peer, want success", sc.Verdict))
		}
	}
}
