// Harness for the ENFORCEMENT half of C13: peers that do not offer witness /
// compact-filter service, or that serve a provably invalid block, filter
// header or filter checkpoint, are banned and disconnected, and the client
// keeps no connection to a banned address (reconnect attempts are refused).
// A full neutrino.ChainService runs against scripted nodes
// (internal/netsim); observables are IsBanned and the connected-peer set at
// every 20 ms sample, plus the handshakes the client begins with an address
// after banning it.  Coq monitor: C13net/Replay.v.
//
// Not registered as a property of its own: the coordinator merges it into
// the C13 check.
package main

import (
	"fmt"
	"math/rand"
	"os"
	"path/filepath"
	"strings"
	"sync"
	"time"

	c "verifharness/internal/common"
	ns "verifharness/internal/netsim"
)

// Hist is a scenario, the expectation per node, and the observations.
type Hist struct {
	ns.Scenario
	Kinds []string `json:"kinds"`
	// Expect per node: 0 never banned, 1 banned by the deadline, 2
	// checkpoint-only liar (F15), 3 either.
	Expect []int      `json:"expect"`
	Res    *ns.Result `json:"result,omitempty"`
}

func pickHeight(r *rand.Rand, ch *ns.Chain, max int) int {
	var cand []int
	for _, x := range ch.HeightsWithTxs(true) {
		if x <= max {
			cand = append(cand, x)
		}
	}
	return cand[r.Intn(len(cand))]
}

// kinds of scenario
var kinds = []string{"no-witness", "no-cf", "block-mutatetx", "block-badwitness", "cfheaders-liar", "consistent-liar",
	"extra-honest", "unexposed-block-liar", "lighter-fork", "cp-liar-long", "cp-only-liar-long",
	"same-ip-cfheaders-liars", "same-ip-consistent-liars", "banfault-cfheaders-liar", "banfault-block-liar",
	// the misbehaving node is configured by HOST NAME (ConnectPeers
	// "liar<id>.test:port", resolved by the simulated resolver): same
	// expectations as for a peer given by IP literal; the ban must be the
	// record of the resolved IP (IsBanned of the IP form), and the
	// connection manager's redials must be refused
	"host-no-witness", "host-no-cf", "host-block-mutatetx", "host-cfheaders-liar"}

func gen(r *rand.Rand, id int, seed, tipUnix int64, kind string) Hist {
	if strings.HasPrefix(kind, "host-") {
		h := gen(r, id, seed, tipUnix, kind[5:])
		h.Kinds[0] = kind
		for j := range h.Nodes {
			switch {
			case h.Expect[j] == 1:
				h.Nodes[j].Host = fmt.Sprintf("liar%d.test", id)
			case r.Intn(2) == 0:
				h.Nodes[j].Host = fmt.Sprintf("honest%d.test", id)
			}
		}
		if h.DeadlineMs > 22000 {
			// bans of filter-header liars come after ~10 s; the rest of the
			// run watches the redials
			h.DeadlineMs = 22000
		}
		return h
	}
	h := Hist{}
	h.ID, h.Seed, h.TipUnix = id, seed, tipUnix
	h.ChainLen = 120 + 40*r.Intn(3)
	long := strings.HasSuffix(kind, "-long")
	if long {
		h.ChainLen = 1030 + 10*r.Intn(6)
	}
	ch := ns.CachedChain(seed, h.ChainLen, time.Unix(tipUnix, 0), 0.3)
	h.RetryMs = 1000
	h.Kinds = []string{kind}
	honest := ns.NodeSpec{Chain: "main"}
	h.DeadlineMs = 9000
	switch kind {
	case "no-witness":
		h.Nodes = []ns.NodeSpec{honest, {Chain: "main", B: ns.Behaviour{NoWitness: true}}}
		h.Expect = []int{0, 1}
	case "no-cf":
		h.Nodes = []ns.NodeSpec{honest, {Chain: "main", B: ns.Behaviour{NoCF: true}}}
		h.Expect = []int{0, 1}
	case "block-mutatetx", "block-badwitness":
		// the honest peer does not serve blocks, so the request reaches
		// the liar
		honest.B.Silent = []string{"getdata"}
		h.Nodes = []ns.NodeSpec{honest, {Chain: "main", B: ns.Behaviour{Block: &ns.BlockLie{Kind: kind[6:], Height: -1}}}}
		h.Expect = []int{0, 1}
		h.Events = []ns.Event{{AtMs: 1500, Kind: "getblock", Height: 1 + r.Intn(h.ChainLen)}}
		h.DeadlineMs = 16000
	case "unexposed-block-liar":
		h.Nodes = []ns.NodeSpec{honest, {Chain: "main", B: ns.Behaviour{Block: &ns.BlockLie{Kind: "mutatetx", Height: -1}}}}
		h.Expect = []int{0, 0}
	case "cfheaders-liar":
		h.Nodes = []ns.NodeSpec{honest, {Chain: "main", B: ns.Behaviour{Filter: &ns.FilterLie{
			Height: pickHeight(r, ch, h.ChainLen), InCheckpt: true, InHeaders: true}}}}
		h.Expect = []int{0, 1}
		h.DeadlineMs = 30000
	case "consistent-liar":
		h.Nodes = []ns.NodeSpec{honest, {Chain: "main", B: ns.Behaviour{Filter: &ns.FilterLie{
			Height: pickHeight(r, ch, h.ChainLen), InCheckpt: true, InHeaders: true, InFilter: true}}}}
		h.Expect = []int{0, 1}
		h.DeadlineMs = 30000
	case "same-ip-cfheaders-liars", "same-ip-consistent-liars":
		// Two connections to ONE IP on different ports, both established
		// before anything is detected, both telling a provable filter-header
		// lie, plus an honest control peer.  The ban record is keyed by IP,
		// the disconnect by exact address: when the block manager reports
		// the two liars one after the other, the second one is already
		// "banned" (its sibling's record) but still has to be disconnected.
		mk := func(port int, hgt int) ns.NodeSpec {
			return ns.NodeSpec{Chain: "main", Addr: fmt.Sprintf("203.0.113.5:%d", port), B: ns.Behaviour{Filter: &ns.FilterLie{
				Height: hgt, InCheckpt: true, InHeaders: true, InFilter: kind == "same-ip-consistent-liars"}}}
		}
		hgt := pickHeight(r, ch, h.ChainLen)
		h.Nodes = []ns.NodeSpec{mk(18555, hgt), mk(28555, hgt), honest}
		if r.Intn(2) == 0 {
			h.Nodes[0], h.Nodes[2] = h.Nodes[2], h.Nodes[0]
			h.Expect = []int{0, 1, 1}
		} else {
			h.Expect = []int{1, 1, 0}
		}
		h.DeadlineMs = 30000
	case "banfault-cfheaders-liar":
		// the ban cannot be recorded (ban store write fault): the liar must
		// be disconnected all the same
		h.Nodes = []ns.NodeSpec{honest, {Chain: "main", B: ns.Behaviour{Filter: &ns.FilterLie{
			Height: pickHeight(r, ch, h.ChainLen), InCheckpt: true, InHeaders: true}}}}
		h.Expect = []int{0, 4}
		h.BanStoreFault = true
		h.DeadlineMs = 30000
	case "banfault-block-liar":
		honest.B.Silent = []string{"getdata"}
		h.Nodes = []ns.NodeSpec{honest, {Chain: "main", B: ns.Behaviour{Block: &ns.BlockLie{Kind: "mutatetx", Height: -1}}}}
		h.Expect = []int{0, 4}
		h.BanStoreFault = true
		h.Events = []ns.Event{{AtMs: 1500, Kind: "getblock", Height: 1 + r.Intn(h.ChainLen)}}
		h.DeadlineMs = 16000
	case "extra-honest":
		h.Nodes = []ns.NodeSpec{honest, honest, honest}
		h.Expect = []int{0, 0, 0}
		h.Events = []ns.Event{{AtMs: 800, Kind: "reorg", Depth: 2, N: 2}, {AtMs: 1500, Kind: "getblock", Height: -3}}
	case "lighter-fork":
		h.Nodes = []ns.NodeSpec{honest, {Chain: "lighter", LighterDepth: 2 + r.Intn(6)}}
		// a peer on another valid chain cannot answer filter queries about
		// ours; the client may or may not hold that against it
		h.Expect = []int{0, 3}
		h.DeadlineMs = 15000
	case "cp-liar-long":
		h.Nodes = []ns.NodeSpec{honest, {Chain: "main", B: ns.Behaviour{Filter: &ns.FilterLie{
			Height: pickHeight(r, ch, 1000), InCheckpt: true, InHeaders: true, InFilter: true}}}}
		h.Expect = []int{0, 1}
		h.DeadlineMs = 40000
	case "cp-only-liar-long":
		h.Nodes = []ns.NodeSpec{honest, {Chain: "main", B: ns.Behaviour{Filter: &ns.FilterLie{
			Height: pickHeight(r, ch, 1000), InCheckpt: true}}}}
		h.Expect = []int{0, 2}
		h.DeadlineMs = 30000
	default:
		panic(kind)
	}
	// sometimes the misbehaving node is dialled first
	if len(h.Nodes) == 2 && r.Intn(2) == 0 {
		h.Nodes[0], h.Nodes[1] = h.Nodes[1], h.Nodes[0]
		h.Expect[0], h.Expect[1] = h.Expect[1], h.Expect[0]
		h.Kinds = append(h.Kinds, "swapped")
	}
	return h
}

// exposed reports whether a node whose only misbehaviour is a filter or
// block lie received at least one request whose answer carries the lie.
func exposed(b *ns.Behaviour, received string) bool {
	got := func(cmd string) bool { return strings.Contains(" "+received, " "+cmd+"=") }
	switch {
	case b.Filter != nil:
		return (b.Filter.InCheckpt && got("getcfcheckpt")) || (b.Filter.InHeaders && got("getcfheaders")) ||
			(b.Filter.InFilter && got("getcfilters"))
	case b.Block != nil:
		return got("getdata")
	}
	return true
}

// opposed reports whether a filter-header lie of node j could be proved to
// the client: some node that tells the truth about filter headers was asked
// for filter headers or checkpoints too.  (When the liar happens to complete
// its handshake a few milliseconds before every other peer, the client takes
// the whole filter-header chain from it alone: nothing contradicts the lie,
// and no ban can be demanded.  Whether the client then holds valid filter
// headers is C03/C04's concern.)
func opposed(h *Hist, j int) bool {
	for k := range h.Nodes {
		if k == j || h.Nodes[k].B.Filter != nil || k >= len(h.Res.Received) {
			continue
		}
		rc := " " + h.Res.Received[k]
		if strings.Contains(rc, " getcfheaders=") || strings.Contains(rc, " getcfcheckpt=") {
			return true
		}
	}
	return false
}

func bools(b []bool) string {
	it := make([]string, len(b))
	for i, x := range b {
		it[i] = c.Bool(x)
	}
	return c.List(it)
}

func caseTerm(h *Hist) string {
	var exp, samples, vers []string
	for _, e := range h.Expect {
		exp = append(exp, fmt.Sprint(e))
	}
	for _, s := range h.Res.Samples {
		samples = append(samples, fmt.Sprintf("(%d, %s, %s)", s.T, bools(s.Banned), bools(s.Connected)))
	}
	for _, v := range h.Res.VersionsAfterBan {
		vers = append(vers, fmt.Sprint(v))
	}
	return fmt.Sprintf("(%d, mkBCase %s\n  %s\n  %s)", h.ID, c.List(exp), c.List(samples), c.List(vers))
}

func main() {
	a := c.ParseArgs()
	rep := c.NewReport("C13", a)
	tip := time.Now().Add(-20 * time.Minute).Unix()
	var hs []Hist
	if a.Replay != "" {
		var h Hist
		c.ReadJSON(a.Replay, &h)
		if time.Since(time.Unix(h.TipUnix, 0)) > 20*time.Hour {
			h.TipUnix = tip
		}
		h.Res = nil
		hs = []Hist{h}
	} else {
		reps := 1
		if a.Tier == "thorough" {
			reps = 8
		}
		id := 0
		for rp := 0; rp < reps; rp++ {
			for _, k := range kinds {
				hs = append(hs, gen(c.Rng(a.Seed, id), id, a.Seed, tip, k))
				id++
			}
		}
	}
	work, err := os.MkdirTemp(a.Out, "net")
	if err != nil {
		panic(err)
	}
	for i := range hs {
		ns.CachedChain(hs[i].Seed, hs[i].ChainLen, time.Unix(hs[i].TipUnix, 0), 0.3)
	}
	var wg sync.WaitGroup
	sem := make(chan struct{}, a.Workers)
	for i := range hs {
		wg.Add(1)
		sem <- struct{}{}
		go func(h *Hist) {
			defer wg.Done()
			defer func() { <-sem }()
			h.Res = ns.RunScenario(&h.Scenario, work)
		}(&hs[i])
	}
	wg.Wait()

	var sb strings.Builder
	sb.WriteString("From Coq Require Import ZArith List Bool.\nFrom Verif Require Import C13net.Replay.\nImport ListNotations.\nOpen Scope Z_scope.\n")
	sb.WriteString("Definition cases : list (Z * bcase) := [\n")
	sigs := c.Signatures{}
	first := true
	for i := range hs {
		h := &hs[i]
		if h.Res.SetupErr != "" {
			rep.ImplFailures = append(rep.ImplFailures, c.ImplFailure{Case: fmt.Sprint(h.ID), What: "setup: " + h.Res.SetupErr, Tag: "setup"})
			continue
		}
		if !h.Res.StopReturned {
			rep.ImplFailures = append(rep.ImplFailures, c.ImplFailure{Case: fmt.Sprint(h.ID), What: "Stop did not return within 30s at the end of the scenario", Tag: "stop-hang"})
		}
		// A liar that was never asked a question it lies about (it
		// connected after the client had finished that part of the sync)
		// has shown no misbehaviour: no ban can be demanded of the client.
		for j := range h.Nodes {
			if j < len(h.Expect) && (h.Expect[j] == 1 || h.Expect[j] == 4) && j < len(h.Res.Received) && !exposed(&h.Nodes[j].B, h.Res.Received[j]) {
				h.Expect[j] = 3
				h.Kinds = append(h.Kinds, "liar-never-asked")
				rep.Histogram["liar-never-asked"]++
			} else if j < len(h.Expect) && (h.Expect[j] == 1 || h.Expect[j] == 4) && h.Nodes[j].B.Filter != nil && !opposed(h, j) {
				h.Expect[j] = 3
				h.Kinds = append(h.Kinds, "liar-unopposed")
				rep.Histogram["liar-unopposed"]++
			}
		}
		if !first {
			sb.WriteString(";\n")
		}
		first = false
		sb.WriteString(caseTerm(h))
		sigs.Add(strings.Join(h.Kinds, "+"))
		rep.Histogram["kind:"+h.Kinds[0]]++
		for j, e := range h.Expect {
			b := len(h.Res.Final.Banned) > j && h.Res.Final.Banned[j]
			rep.Histogram[fmt.Sprintf("expect%d-banned:%v", e, b)]++
			if b {
				rep.Histogram["redials-after-ban"] += h.Res.DialsAfterBan[j]
				rep.Histogram["handshakes-after-ban"] += h.Res.VersionsAfterBan[j]
			}
		}
		rep.Histogram["samples"] += len(h.Res.Samples)
		rep.Histogram["polls"] += h.Res.Polls
		path := filepath.Join(a.Out, fmt.Sprintf("hist-%d.json", h.ID))
		c.WriteJSON(path, h)
		rep.Cases[fmt.Sprint(h.ID)] = path
		if len(rep.Samples) < 3 {
			rep.Samples = append(rep.Samples, map[string]any{"scenario": h.Scenario, "kinds": h.Kinds, "expect": h.Expect,
				"final": h.Res.Final, "ban_ms": h.Res.BanMs, "dials_after_ban": h.Res.DialsAfterBan})
		}
	}
	sb.WriteString("].\n")
	sb.WriteString("Definition R := Eval vm_compute in (run_cases cases).\nSet Printing Width 1000000.\nSet Printing Depth 1000000.\nPrint R.\n")
	c.WriteFile(filepath.Join(a.Out, "cases.v"), sb.String())
	rep.Evaluations = len(hs)
	rep.DistinctNontrivial = len(sigs)
	rep.Rule = "distinct (misbehaviour kind, dial order) signatures; every scenario contains a detected-misbehaviour event or a must-not-ban control"
	rep.Write(a.Out)
	os.RemoveAll(work)
	os.Exit(0)
}
