// Correspondence harness for C14: drives the real chainimport.Import against
// real headerfs stores (bbolt + flat files) with import files written by the
// harness from synthetic, mined header chains, and writes the observations as
// Coq cases for Verif.C14.Replay.
package main

import (
	"context"
	"crypto/sha256"
	"encoding/binary"
	"encoding/json"
	"errors"
	"fmt"
	"io"
	"math/big"
	"math/rand"
	"os"
	"path/filepath"
	"runtime"
	"sort"
	"strings"
	"sync"
	"time"

	"github.com/btcsuite/btcd/blockchain"
	"github.com/btcsuite/btcd/chaincfg/v2"
	"github.com/btcsuite/btcd/chainhash/v2"
	"github.com/btcsuite/btcd/wire/v2"
	"github.com/btcsuite/btcwallet/walletdb"
	_ "github.com/btcsuite/btcwallet/walletdb/bdb"
	"github.com/lightninglabs/neutrino/chainimport"
	"github.com/lightninglabs/neutrino/chainsync"
	"github.com/lightninglabs/neutrino/headerfs"

	c "verifharness/internal/common"
)

// ---------------------------------------------------------------------
// History format (replayable).

// Node describes one synthetic block header; headers are re-mined
// deterministically from these descriptions. Node 0 is the genesis header.
type Node struct {
	Parent  int    `json:"p"`                 // pool index of the parent (difficulty / time context)
	DT      int64  `json:"dt"`                // timestamp = parent's + DT
	AbsT    int64  `json:"abst,omitempty"`    // absolute timestamp instead
	Bits    uint32 `json:"bits,omitempty"`    // override of the expected difficulty bits
	BitsXor uint32 `json:"bitsxor,omitempty"` // expected bits xor this
	NoClamp bool   `json:"noclamp,omitempty"` // bits of a retarget computed without the two clamps
	BadPow  bool   `json:"badpow,omitempty"`  // hash above the target
	PrevUnk int    `json:"prevunk,omitempty"` // PrevBlock is unknown hash number k (broken link)
}

type Meta struct {
	Net   uint32 `json:"net"`
	Ver   uint8  `json:"ver"`
	Type  uint8  `json:"type"`
	Start uint32 `json:"start"`
	Slack int    `json:"slack,omitempty"`
}

type Obs struct {
	OK      bool   `json:"ok"`
	Err     string `json:"err,omitempty"` // informational only, never compared
	B       []int  `json:"b"`
	F       []int  `json:"f"`
	BTipTok int    `json:"btip_tok"`
	BTipH   int    `json:"btip_h"`
	FTipTok int    `json:"ftip_tok"`
	FTipH   int    `json:"ftip_h"`
	Idx     []int  `json:"idx"`
}

type Op struct {
	Kind   string `json:"kind"` // import | rollback
	N      uint32 `json:"n,omitempty"`
	BMeta  Meta   `json:"bmeta"`
	FMeta  Meta   `json:"fmeta"`
	BFile  []int  `json:"bfile"` // pool indices
	FFile  []int  `json:"ffile"` // filter tokens
	Batch  int    `json:"batch"`
	FailBW int    `json:"fail_bw,omitempty"`
	FailFW int    `json:"fail_fw,omitempty"`
	FailRB bool   `json:"fail_rb,omitempty"`
	// Cancel: the context handed to Import reports cancellation from its
	// Cancel-th poll on (1 = cancelled on entry), 0 = never. CancelSel is
	// the generator's draw: when Cancel is 0 and CancelSel is not, the
	// runner first runs the same import on a copy of the stores under a
	// live, counting context (Polls = number of polls it made) and sets
	// Cancel = 1 + (CancelSel-1) mod (Polls+1), i.e. any poll of this
	// import or "later than the last poll". Replays use Cancel as recorded.
	Cancel    int    `json:"cancel,omitempty"`
	CancelSel int    `json:"cancel_sel,omitempty"`
	Polls     int    `json:"polls,omitempty"` // informational
	Tag       string `json:"tag,omitempty"`   // generator's label, informational
	Obs    *Obs   `json:"obs,omitempty"`
}

type History struct {
	ID      int    `json:"id"`
	Variant int    `json:"variant"`
	Nodes   []Node `json:"nodes"`
	InitB   []int  `json:"init_b"`
	InitF   []int  `json:"init_f"`
	Ops     []Op   `json:"ops"`
	Now     int64  `json:"now"`
}

// ---------------------------------------------------------------------
// Chain parameters.

const futureT = 4102444800 // 2100-01-01, within uint32

func chainParams(variant int) chaincfg.Params {
	p := chaincfg.RegressionNetParams
	p.ReduceMinDifficulty = false
	if variant == 1 {
		p.PoWNoRetargeting = false
		p.TargetTimespan = 60 * time.Second
		p.TargetTimePerBlock = 10 * time.Second
		p.RetargetAdjustmentFactor = 4
	}
	return p
}

func blocksPerRetarget(p *chaincfg.Params) int64 {
	return int64(int32(p.TargetTimespan.Seconds() / p.TargetTimePerBlock.Seconds()))
}

// ---------------------------------------------------------------------
// Pool of mined headers.

type built struct {
	hdr    wire.BlockHeader
	hash   chainhash.Hash
	height int
}

type pool struct {
	params  chaincfg.Params
	nodes   []Node
	b       []built
	tok     map[chainhash.Hash]int
	unk     map[int]chainhash.Hash
	genFilt chainhash.Hash
}

func unkHash(k int) chainhash.Hash {
	return chainhash.Hash(sha256.Sum256([]byte(fmt.Sprintf("unknown-%d", k))))
}

const unkBase = 900000

func (p *pool) expectedBits(parent int) uint32 { return p.expectedBitsC(parent, true) }

func (p *pool) expectedBitsC(parent int, clamp bool) uint32 {
	P := &p.params
	if P.PoWNoRetargeting {
		return P.PowLimitBits
	}
	pb := p.b[parent]
	bpr := blocksPerRetarget(P)
	if int64(pb.height+1)%bpr != 0 {
		return pb.hdr.Bits
	}
	// walk back bpr-1 ancestors
	a := parent
	for i := int64(0); i < bpr-1 && a > 0; i++ {
		a = p.nodes[a].Parent
	}
	first := p.b[a]
	actual := pb.hdr.Timestamp.Unix() - first.hdr.Timestamp.Unix()
	minTS := int64(P.TargetTimespan.Seconds() / float64(P.RetargetAdjustmentFactor))
	maxTS := int64(P.TargetTimespan.Seconds() * float64(P.RetargetAdjustmentFactor))
	if !clamp {
		if actual < 1 {
			actual = 1
		}
	} else if actual < minTS {
		actual = minTS
	} else if actual > maxTS {
		actual = maxTS
	}
	nt := new(big.Int).Mul(blockchain.CompactToBig(pb.hdr.Bits), big.NewInt(actual))
	nt.Div(nt, big.NewInt(int64(P.TargetTimespan/time.Second)))
	if nt.Cmp(P.PowLimit) > 0 {
		nt.Set(P.PowLimit)
	}
	return blockchain.BigToCompact(nt)
}

func buildPool(variant int, nodes []Node, genFilt chainhash.Hash) *pool {
	p := &pool{params: chainParams(variant), nodes: nodes, tok: map[chainhash.Hash]int{},
		unk: map[int]chainhash.Hash{}, genFilt: genFilt}
	for i, n := range nodes {
		var bt built
		if i == 0 {
			bt.hdr = p.params.GenesisBlock.Header
			bt.height = 0
		} else {
			par := p.b[n.Parent]
			bt.height = par.height + 1
			h := wire.BlockHeader{Version: 4, PrevBlock: par.hash}
			if n.PrevUnk != 0 {
				h.PrevBlock = unkHash(n.PrevUnk)
				p.unk[n.PrevUnk] = h.PrevBlock
			}
			h.MerkleRoot = chainhash.Hash(sha256.Sum256([]byte(fmt.Sprintf("node-%d", i))))
			ts := par.hdr.Timestamp.Unix() + n.DT
			if n.AbsT != 0 {
				ts = n.AbsT
			}
			if ts < 1 {
				ts = 1
			}
			h.Timestamp = time.Unix(ts, 0)
			h.Bits = p.expectedBitsC(n.Parent, !n.NoClamp) ^ n.BitsXor
			if n.Bits != 0 {
				h.Bits = n.Bits
			}
			target := blockchain.CompactToBig(h.Bits)
			for nonce := uint32(0); nonce < 4000000; nonce++ {
				h.Nonce = nonce
				hh := h.BlockHash()
				good := blockchain.HashToBig(&hh).Cmp(target) <= 0
				if good != n.BadPow {
					break
				}
			}
			bt.hdr = h
		}
		bt.hash = bt.hdr.BlockHash()
		p.b = append(p.b, bt)
		p.tok[bt.hash] = i + 1
	}
	return p
}

func (p *pool) hashTok(h chainhash.Hash) int {
	if h == (chainhash.Hash{}) {
		return 0
	}
	if t, ok := p.tok[h]; ok {
		return t
	}
	for k, u := range p.unk {
		if u == h {
			return unkBase + k
		}
	}
	return -2
}

// filter header tokens: 0 = the genesis filter header of the store
func (p *pool) filtBytes(t int) chainhash.Hash {
	if t == 0 {
		return p.genFilt
	}
	return chainhash.Hash(sha256.Sum256([]byte(fmt.Sprintf("filter-%d", t))))
}

func (p *pool) filtTok(h chainhash.Hash, known map[chainhash.Hash]int) int {
	if t, ok := known[h]; ok {
		return t
	}
	return -2
}

var cpHeights = []uint32{7, 13}

func installCheckpoints(genFilt chainhash.Hash) {
	p := &pool{genFilt: genFilt}
	m := map[uint32]*chainhash.Hash{}
	for _, h := range cpHeights {
		x := p.filtBytes(int(h))
		m[h] = &x
	}
	chainsync.VerifSetFilterHeaderCheckpoints(chaincfg.RegressionNetParams.Net, m)
}

// ---------------------------------------------------------------------
// Stores, fault wrappers.

var errInjected = errors.New("injected write failure")

type faultB struct {
	headerfs.BlockHeaderStore
	n, failAt int
	failRB    bool
}

func (w *faultB) WriteHeaders(h ...headerfs.BlockHeader) error {
	if len(h) > 0 {
		w.n++
		if w.n == w.failAt {
			return errInjected
		}
	}
	return w.BlockHeaderStore.WriteHeaders(h...)
}

func (w *faultB) RollbackBlockHeaders(n uint32) (*headerfs.BlockStamp, error) {
	if w.failRB && n > 0 {
		return nil, errInjected
	}
	return w.BlockHeaderStore.RollbackBlockHeaders(n)
}

type faultF struct {
	headerfs.FilterHeaderStore
	n, failAt int
}

func (w *faultF) WriteHeaders(h ...headerfs.FilterHeader) error {
	if len(h) > 0 {
		w.n++
		if w.n == w.failAt {
			return errInjected
		}
	}
	return w.FilterHeaderStore.WriteHeaders(h...)
}

var tmplFiles = []string{"h.db", "block_headers.bin", "reg_filter_headers.bin"}

func makeTemplate(dir string) chainhash.Hash {
	if err := os.MkdirAll(dir, 0o755); err != nil {
		panic(err)
	}
	db, err := walletdb.Create("bdb", filepath.Join(dir, "h.db"), true, 10*time.Second, false)
	if err != nil {
		panic(err)
	}
	P := chainParams(0)
	if _, err := headerfs.NewBlockHeaderStore(dir, db, &P); err != nil {
		panic(err)
	}
	fs, err := headerfs.NewFilterHeaderStore(dir, db, headerfs.RegularFilter, &P, nil)
	if err != nil {
		panic(err)
	}
	g, err := fs.FetchHeaderByHeight(0)
	if err != nil {
		panic(err)
	}
	if err := db.Close(); err != nil {
		panic(err)
	}
	return *g
}

func copyFile(src, dst string) {
	in, err := os.Open(src)
	if err != nil {
		panic(err)
	}
	defer in.Close()
	out, err := os.Create(dst)
	if err != nil {
		panic(err)
	}
	if _, err := io.Copy(out, in); err != nil {
		panic(err)
	}
	if err := out.Close(); err != nil {
		panic(err)
	}
}

func writeImportFile(path string, m Meta, raw []byte) {
	buf := make([]byte, 0, 10+len(raw)+m.Slack)
	var b4 [4]byte
	binary.LittleEndian.PutUint32(b4[:], m.Net)
	buf = append(buf, b4[:]...)
	buf = append(buf, m.Ver, m.Type)
	binary.LittleEndian.PutUint32(b4[:], m.Start)
	buf = append(buf, b4[:]...)
	buf = append(buf, raw...)
	for i := 0; i < m.Slack; i++ {
		buf = append(buf, byte(i+1))
	}
	if err := os.WriteFile(path, buf, 0o644); err != nil {
		panic(err)
	}
}

// ---------------------------------------------------------------------
// Running one history on the real code.

type runner struct {
	p      *pool
	bs     headerfs.BlockHeaderStore
	fs     headerfs.FilterHeaderStore
	ftoks  map[chainhash.Hash]int
	dir    string
	nfiles int
}

func (r *runner) observe(ok bool, errs string) *Obs {
	o := &Obs{OK: ok, Err: errs, B: []int{}, F: []int{}, Idx: []int{}}
	for h := uint32(0); h < 400; h++ {
		x, err := r.bs.FetchHeaderByHeight(h)
		if err != nil {
			break
		}
		o.B = append(o.B, r.p.hashTok(x.BlockHash()))
	}
	for h := uint32(0); h < 400; h++ {
		x, err := r.fs.FetchHeaderByHeight(h)
		if err != nil {
			break
		}
		o.F = append(o.F, r.p.filtTok(*x, r.ftoks))
	}
	if hd, h, err := r.bs.ChainTip(); err != nil {
		o.BTipH, o.BTipTok = -1, 0
	} else {
		o.BTipH, o.BTipTok = int(h), r.p.hashTok(hd.BlockHash())
	}
	if fh, h, err := r.fs.ChainTip(); err != nil {
		o.FTipH, o.FTipTok = -1, 0
	} else {
		o.FTipH, o.FTipTok = int(h), r.p.filtTok(*fh, r.ftoks)
	}
	for i := range r.p.b {
		hh := r.p.b[i].hash
		h, err := r.bs.HeightFromHash(&hh)
		if err != nil {
			o.Idx = append(o.Idx, -1)
		} else {
			o.Idx = append(o.Idx, int(h))
		}
	}
	return o
}

// pollCtx is a context whose cancellation is scheduled by poll count: every
// call of Done or Err is one poll; from the cancelAt-th poll on (0 = never)
// Done's channel is closed and Err reports context.Canceled. It never goes
// back to live. Deterministic: no timers, no goroutines.
type pollCtx struct {
	mu       sync.Mutex
	polls    int
	cancelAt int
	closed   bool
	done     chan struct{}
}

func newPollCtx(cancelAt int) *pollCtx {
	return &pollCtx{cancelAt: cancelAt, done: make(chan struct{})}
}

func (x *pollCtx) poll() bool {
	x.mu.Lock()
	defer x.mu.Unlock()
	if !x.closed {
		// polls after the cancellation are not counted: ctxCancelled
		// calls Err only then, and nothing depends on them any more
		x.polls++
		if x.cancelAt > 0 && x.polls >= x.cancelAt {
			x.closed = true
			close(x.done)
		}
	}
	return x.closed
}

func (x *pollCtx) Deadline() (time.Time, bool) { return time.Time{}, false }
func (x *pollCtx) Value(any) any               { return nil }
func (x *pollCtx) Done() <-chan struct{} {
	x.poll()
	return x.done
}
func (x *pollCtx) Err() error {
	if x.poll() {
		return context.Canceled
	}
	return nil
}

var _ context.Context = (*pollCtx)(nil)

func (r *runner) writeFiles(op *Op) (bpath, fpath string) {
	r.nfiles++
	bpath = filepath.Join(r.dir, fmt.Sprintf("blocks-%d.bin", r.nfiles))
	fpath = filepath.Join(r.dir, fmt.Sprintf("filters-%d.bin", r.nfiles))
	var braw, fraw []byte
	for _, i := range op.BFile {
		w := &byteWriter{}
		if err := r.p.b[i].hdr.Serialize(w); err != nil {
			panic(err)
		}
		braw = append(braw, w.b...)
	}
	for _, t := range op.FFile {
		x := r.p.filtBytes(t)
		r.ftoks[x] = t
		fraw = append(fraw, x[:]...)
	}
	writeImportFile(bpath, op.BMeta, braw)
	writeImportFile(fpath, op.FMeta, fraw)
	return
}

func runImport(params chaincfg.Params, bs headerfs.BlockHeaderStore, fs headerfs.FilterHeaderStore,
	bpath, fpath string, op *Op, ctx context.Context) (ok bool, errs string) {

	opts := &chainimport.ImportOptions{
		TargetChainParams:       params,
		TargetBlockHeaderStore:  &faultB{BlockHeaderStore: bs, failAt: op.FailBW, failRB: op.FailRB},
		TargetFilterHeaderStore: &faultF{FilterHeaderStore: fs, failAt: op.FailFW},
		BlockHeadersSource:      bpath,
		FilterHeadersSource:     fpath,
		WriteBatchSizePerRegion: op.Batch,
	}
	imp, err := chainimport.NewHeadersImport(opts)
	if err != nil {
		return false, "new: " + err.Error()
	}
	_, err = imp.Import(ctx)
	if err != nil {
		return false, err.Error()
	}
	return true, ""
}

// probePolls runs the import of op on a COPY of the stores under a live,
// counting context and returns the number of context polls it made.
func (r *runner) probePolls(op *Op, bpath, fpath string) int {
	pdir := filepath.Join(r.dir, "probe")
	os.RemoveAll(pdir)
	if err := os.MkdirAll(pdir, 0o755); err != nil {
		panic(err)
	}
	defer os.RemoveAll(pdir)
	for _, f := range tmplFiles {
		copyFile(filepath.Join(r.dir, f), filepath.Join(pdir, f))
	}
	db, err := walletdb.Open("bdb", filepath.Join(pdir, "h.db"), true, 10*time.Second, false)
	if err != nil {
		panic(err)
	}
	defer db.Close()
	bs, err := headerfs.NewBlockHeaderStore(pdir, db, &r.p.params)
	if err != nil {
		// stores a set-up rollback left unreadable for the constructor:
		// nothing to probe
		return 0
	}
	fs, err := headerfs.NewFilterHeaderStore(pdir, db, headerfs.RegularFilter, &r.p.params, nil)
	if err != nil {
		return 0
	}
	ctx := newPollCtx(0)
	runImport(r.p.params, bs, fs, bpath, fpath, op, ctx)
	return ctx.polls
}

func (r *runner) doImport(op *Op) (ok bool, errs string) {
	bpath, fpath := r.writeFiles(op)
	if op.Cancel == 0 && op.CancelSel > 0 {
		op.Polls = r.probePolls(op, bpath, fpath)
		op.Cancel = 1 + (op.CancelSel-1)%(op.Polls+1)
	}
	return runImport(r.p.params, r.bs, r.fs, bpath, fpath, op, newPollCtx(op.Cancel))
}

type byteWriter struct{ b []byte }

func (w *byteWriter) Write(p []byte) (int, error) { w.b = append(w.b, p...); return len(p), nil }

// runHistory executes h on fresh copies of the template stores. It returns a
// non-empty string if the implementation hung or panicked.
func runHistory(h *History, work, tmpl string, genFilt chainhash.Hash) (fail string, step int) {
	dir := filepath.Join(work, fmt.Sprintf("case-%d", h.ID))
	if err := os.MkdirAll(dir, 0o755); err != nil {
		panic(err)
	}
	defer os.RemoveAll(dir)
	for _, f := range tmplFiles {
		copyFile(filepath.Join(tmpl, f), filepath.Join(dir, f))
	}
	db, err := walletdb.Open("bdb", filepath.Join(dir, "h.db"), true, 10*time.Second, false)
	if err != nil {
		panic(err)
	}
	defer db.Close()
	p := buildPool(h.Variant, h.Nodes, genFilt)
	bs, err := headerfs.NewBlockHeaderStore(dir, db, &p.params)
	if err != nil {
		panic(err)
	}
	fs, err := headerfs.NewFilterHeaderStore(dir, db, headerfs.RegularFilter, &p.params, nil)
	if err != nil {
		panic(err)
	}
	r := &runner{p: p, bs: bs, fs: fs, ftoks: map[chainhash.Hash]int{genFilt: 0}, dir: dir}
	// prefill through the stores' own WriteHeaders
	var bhs []headerfs.BlockHeader
	for ht, i := range h.InitB {
		if ht == 0 {
			continue
		}
		hd := p.b[i].hdr
		bhs = append(bhs, headerfs.BlockHeader{BlockHeader: &hd, Height: uint32(ht)})
	}
	if len(bhs) > 0 {
		if err := bs.WriteHeaders(bhs...); err != nil {
			panic(err)
		}
	}
	var fhs []headerfs.FilterHeader
	for ht, t := range h.InitF {
		x := p.filtBytes(t)
		r.ftoks[x] = t
		if ht == 0 {
			continue
		}
		fhs = append(fhs, headerfs.FilterHeader{HeaderHash: p.b[h.InitB[ht]].hash, FilterHash: x, Height: uint32(ht)})
	}
	if len(fhs) > 0 {
		if err := fs.WriteHeaders(fhs...); err != nil {
			panic(err)
		}
	}
	for k := range h.Ops {
		op := &h.Ops[k]
		type res struct {
			ok    bool
			errs  string
			panic string
		}
		ch := make(chan res, 1)
		go func() {
			defer func() {
				if e := recover(); e != nil {
					ch <- res{panic: fmt.Sprint(e)}
				}
			}()
			switch op.Kind {
			case "import":
				ok, es := r.doImport(op)
				ch <- res{ok: ok, errs: es}
			case "rollback":
				_, err := bs.RollbackBlockHeaders(op.N)
				if err != nil {
					ch <- res{ok: false, errs: err.Error()}
				} else {
					ch <- res{ok: true}
				}
			default:
				panic("unknown op " + op.Kind)
			}
		}()
		select {
		case x := <-ch:
			if x.panic != "" {
				return "panic: " + x.panic, k
			}
			op.Obs = r.observe(x.ok, x.errs)
		case <-time.After(60 * time.Second):
			return "hang: operation did not return within 60s", k
		}
	}
	return "", 0
}

// ---------------------------------------------------------------------
// Generators.

type gen struct {
	r     *rand.Rand
	nodes []Node
	h     *History
	// pace[k] is the block spacing of retarget period k of a retargeting
	// chain: 0 as drawn, 1 fast (the lower clamp of the retarget binds),
	// 2 slow (the upper clamp binds once two fast periods made the target
	// 16 times harder than the limit)
	pace []int
}

func (g *gen) height(n int) int {
	h := 0
	for ; n > 0; n = g.nodes[n].Parent {
		h++
	}
	return h
}

func (g *gen) add(n Node) int {
	g.nodes = append(g.nodes, n)
	return len(g.nodes) - 1
}

func (g *gen) dt(variant int) int64 {
	if variant == 1 {
		return 3 + int64(g.r.Intn(20))
	}
	return 30 + int64(g.r.Intn(900))
}

// mainChain appends a valid chain of n nodes on top of node `on`, returns the indices.
func (g *gen) chain(on, n, variant int) []int {
	out := []int{}
	for i := 0; i < n; i++ {
		dt := g.dt(variant)
		if variant == 1 && g.pace != nil {
			if k := g.height(on) / 6; k < len(g.pace) {
				switch g.pace[k] {
				case 1:
					dt = 1 + int64(g.r.Intn(2))
				case 2:
					dt = 50 + int64(g.r.Intn(70))
				}
			}
		}
		on = g.add(Node{Parent: on, DT: dt})
		out = append(out, on)
	}
	return out
}

func okMeta(typ uint8, start int) Meta {
	return Meta{Net: uint32(chaincfg.RegressionNetParams.Net), Ver: 0, Type: typ, Start: uint32(start)}
}

func seqTok(from, to int) []int { // inclusive heights -> main filter tokens
	out := []int{}
	for i := from; i <= to; i++ {
		out = append(out, i)
	}
	return out
}

func importOp(bfile, ffile []int, start, batch int, tag string) Op {
	return Op{Kind: "import", BMeta: okMeta(0, start), FMeta: okMeta(1, start),
		BFile: append([]int{}, bfile...), FFile: append([]int{}, ffile...), Batch: batch, Tag: tag}
}

func pickBatch(r *rand.Rand) int {
	switch r.Intn(10) {
	case 0:
		return 0 // default
	case 1:
		return 1
	case 2:
		return 1000
	default:
		return 1 + r.Intn(7)
	}
}

// pacedCheat: a retargeting chain whose periods are mined fast, fast, slow
// (or slow after one fast one), imported from a low tip with a file whose
// header at a retarget height claims the difficulty the rule gives WITHOUT
// its clamps (k odd) or the honest chain that needs the clamp (k even).
func pacedCheat(seed int64, id, k int) History {
	r := c.Rng(seed, id)
	g := &gen{r: r, nodes: []Node{{Parent: -1}}}
	g.pace = [][]int{{1, 1, 2, 0}, {1, 1, 1, 2}, {1, 2, 2, 0}}[(k/2)%3]
	N := 25
	main := append([]int{0}, g.chain(0, N-1, 1)...)
	B := []int{0, 3, 11, 17}[(k/6)%4]
	E := N - 1
	h := History{ID: id, Variant: 1}
	S := B + 1
	if k%4 >= 2 {
		S = 0
	}
	bfile := append([]int{}, main[S:E+1]...)
	ffile := seqTok(S, E)
	if S == 0 {
		ffile[0] = 0
	}
	tag := "paced-honest"
	if k%2 == 1 {
		// the retarget after the last paced period above the tip
		cpos := 0
		for rh := 6; rh <= E; rh += 6 {
			if rh > B && rh/6-1 < len(g.pace) && g.pace[rh/6-1] != 0 {
				cpos = rh
			}
		}
		n := Node{Parent: main[cpos-1], DT: g.nodes[main[cpos]].DT, NoClamp: true}
		alt := []int{g.add(n)}
		alt = append(alt, g.chain(alt[0], E-cpos, 1)...)
		bfile = append(append([]int{}, main[S:cpos]...), alt...)
		tag = "corrupt-bits-unclamped"
	}
	op := importOp(bfile, ffile, S, []int{0, 1, 4, 1000}[(k/2)%4], tag)
	h.InitB = append([]int{}, main[:B+1]...)
	h.InitF = seqTok(0, B)
	h.InitF[0] = 0
	rep := op
	rep.BFile = append([]int{}, op.BFile...)
	rep.FFile = append([]int{}, op.FFile...)
	rep.Tag = "repeat"
	h.Ops = []Op{op, rep}
	h.Nodes = g.nodes
	return h
}

func genHistory(seed int64, id int) History {
	if id%25 == 7 {
		return pacedCheat(seed, id, id/25+int(seed%24))
	}
	r := c.Rng(seed, id)
	variant := r.Intn(2)
	g := &gen{r: r, nodes: []Node{{Parent: -1}}}
	N := 8 + r.Intn(18)
	if variant == 1 && r.Intn(3) == 0 {
		// paced periods: both clamps of the retarget rule bind
		N = 20 + r.Intn(6)
		g.pace = [][]int{{1, 1, 2, 0, 0}, {1, 2, 1, 2, 0}, {1, 1, 1, 2, 2}, {2, 1, 1, 2, 1}}[r.Intn(4)]
	}
	main := append([]int{0}, g.chain(0, N-1, variant)...) // main[h] = node at height h
	B := 1 + r.Intn(N-2)                                  // block tip of the target
	if r.Intn(8) == 0 {
		B = 0
	}
	F := B
	h := History{ID: id, Variant: variant}
	kind := r.Intn(100)
	// file range
	S := r.Intn(B + 2)
	if r.Intn(3) == 0 {
		S = B + 1
	}
	if r.Intn(6) == 0 {
		S = 0
	}
	E := S + r.Intn(N-S)
	if r.Intn(3) != 0 && N-1 > B {
		E = B + 1 + r.Intn(N-1-B)
		if E < S {
			E = S
		}
	}
	bfile := append([]int{}, main[S:E+1]...)
	ffile := seqTok(S, E)
	if S == 0 {
		ffile[0] = 0
	}
	op := importOp(bfile, ffile, S, pickBatch(r), "plain")
	var pre []Op
	switch {
	case kind < 28:
		// plain: extension / overlap as drawn
	case kind < 34:
		// block store ahead of the filter store, with injected write failures
		F, op = blockAhead(r, g, main, variant, N, B)
		switch r.Intn(4) {
		case 0:
			op.FailBW = 1 + r.Intn(2)
		case 1, 2:
			op.FailFW = 1 + r.Intn(3)
		case 3:
			op.FailFW = 1 + r.Intn(3)
			op.FailRB = true
		}
		op.Batch = 1 + r.Intn(3)
		op.Tag += "-fault"
	case kind < 40:
		// gap
		if B+2 <= N-1 {
			S = B + 2 + r.Intn(N-1-(B+1))
			E = S + r.Intn(N-S)
			op = importOp(main[S:E+1], seqTok(S, E), S, pickBatch(r), "gap")
		}
		if r.Intn(2) == 0 {
			// headers of a valid chain under a start height that is off by one
			d := uint32(1)
			if r.Intn(2) == 0 && op.BMeta.Start > 0 {
				d = ^uint32(0) // -1
			}
			op.BMeta.Start += d
			op.FMeta.Start += d
			op.Tag = "shifted"
		}
	case kind < 64:
		// corrupted block header at file position c (height c), valid continuation on top of it
		lo := S
		if lo < 1 {
			lo = 1
		}
		if lo > E {
			break
		}
		cpos := lo + r.Intn(E-lo+1)
		if r.Intn(3) == 0 {
			cpos = lo // first header of the file (or height 1)
		}
		if r.Intn(4) == 0 && B+1 >= lo && B+1 <= E {
			cpos = B + 1 // first new header
		}
		if r.Intn(6) == 0 {
			cpos = E // last header of the file
		}
		n := Node{Parent: main[cpos-1], DT: g.dt(variant)}
		tag := ""
		switch r.Intn(7) {
		case 0:
			n.PrevUnk = 1 + r.Intn(3)
			tag = "link"
		case 1:
			n.BadPow = true
			tag = "pow"
		case 2:
			n.BitsXor = 1 << uint(r.Intn(3))
			tag = "bits"
		case 3:
			n.Bits = 0x1f7fffff
			tag = "bits-hard"
		case 4:
			n.DT = -int64(1000 + r.Intn(100000))
			tag = "time-old"
		case 5:
			n.AbsT = futureT + int64(r.Intn(1000))
			tag = "time-future"
		case 6:
			n.DT += 1 + int64(r.Intn(3))
			tag = "fork"
		}
		if g.pace != nil && r.Intn(2) == 0 {
			// a retarget header claiming the difficulty the rule would
			// give without its clamps, after a paced period
			var rhs []int
			for rh := 6; rh <= E; rh += 6 {
				if rh >= lo && rh/6-1 < len(g.pace) && g.pace[rh/6-1] != 0 {
					rhs = append(rhs, rh)
				}
			}
			if len(rhs) > 0 {
				cpos = rhs[r.Intn(len(rhs))]
				n = Node{Parent: main[cpos-1], DT: g.nodes[main[cpos]].DT, NoClamp: true}
				tag = "bits-unclamped"
			}
		}
		alt := []int{g.add(n)}
		alt = append(alt, g.chain(alt[0], E-cpos, variant)...)
		bfile = append(append([]int{}, main[S:cpos]...), alt...)
		op = importOp(bfile, ffile, S, pickBatch(r), "corrupt-"+tag)
	case kind < 72:
		// wrong filter header at some position
		j := S + r.Intn(E-S+1)
		if r.Intn(2) == 0 {
			for _, cp := range cpHeights {
				if int(cp) >= S && int(cp) <= E {
					j = int(cp)
				}
			}
		}
		ffile[j-S] = 500 + j
		op = importOp(bfile, ffile, S, pickBatch(r), "filter-wrong")
	case kind < 80:
		// block store ahead of the filter store
		if r.Intn(4) == 0 {
			// file as drawn relative to the block tip
			if B >= 1 {
				F = r.Intn(B)
			}
			op.Tag = "block-ahead"
		} else {
			F, op = blockAhead(r, g, main, variant, N, B)
		}
	case kind < 84:
		// filter tip unreadable: block store rolled back below the filter tip
		if B >= 1 {
			n := 1 + r.Intn(B)
			pre = append(pre, Op{Kind: "rollback", N: uint32(n), Tag: "pre-rollback"})
		}
		op.Tag = "filter-tip-lost"
	case kind < 94:
		// injected write failures
		switch r.Intn(4) {
		case 0:
			op.FailBW = 1 + r.Intn(3)
		case 1:
			op.FailFW = 1 + r.Intn(3)
		case 2:
			op.FailFW = 1 + r.Intn(3)
			op.FailRB = true
		case 3:
			op.FailBW = 1 + r.Intn(3)
			op.FailFW = 1 + r.Intn(3)
		}
		if r.Intn(2) == 0 {
			op.Batch = 1 + r.Intn(3)
		}
		op.Tag = "fault"
	default:
		// malformed / incompatible metadata
		switch r.Intn(9) {
		case 0:
			op.BMeta.Net = uint32(wire.MainNet)
			op.FMeta.Net = uint32(wire.MainNet)
		case 1:
			op.FMeta.Net = uint32(wire.TestNet3)
		case 2:
			op.BMeta.Type, op.FMeta.Type = 1, 0
		case 3:
			op.BMeta.Ver = 1
		case 4:
			op.FMeta.Start = op.FMeta.Start + 1
		case 5:
			if len(op.FFile) > 1 {
				op.FFile = op.FFile[:len(op.FFile)-1]
			} else {
				op.FFile = append(op.FFile, 777)
			}
		case 6:
			op.BMeta.Slack = 1 + r.Intn(70)
		case 7:
			op.FMeta.Slack = 1 + r.Intn(30)
		case 8:
			op.BFile, op.FFile = []int{}, []int{}
		}
		op.Tag = "meta"
	}
	h.InitB = append([]int{}, main[:B+1]...)
	h.InitF = seqTok(0, F)
	h.InitF[0] = 0
	h.Ops = append(h.Ops, pre...)
	// the context is cancelled at some poll of this import (valid files,
	// corrupted files, faults, stores at different heights alike): the
	// poll is drawn over the whole range of polls the import makes, plus
	// "after the last one"; a quarter of them: cancelled on entry
	drawCancel := func(o *Op) {
		o.CancelSel = 1 + r.Intn(1<<20)
		if r.Intn(4) == 0 {
			o.CancelSel = 1
		}
		o.Tag += "+cancel"
	}
	if r.Intn(100) < 42 {
		drawCancel(&op)
		if r.Intn(3) == 0 && op.Batch != 1 {
			// more polls: smaller batches
			op.Batch = 1 + r.Intn(3)
		}
	}
	h.Ops = append(h.Ops, op)
	// repeat the same import without faults (idempotence / recovery)
	rep := op
	rep.BFile = append([]int{}, op.BFile...)
	rep.FFile = append([]int{}, op.FFile...)
	rep.FailBW, rep.FailFW, rep.FailRB = 0, 0, false
	rep.Cancel, rep.CancelSel, rep.Polls = 0, 0, 0
	rep.Tag = "repeat"
	if r.Intn(3) == 0 {
		rep.Batch = pickBatch(r)
	}
	if op.CancelSel != 0 && r.Intn(4) == 0 {
		// cancelled again, then once more to the end
		rep2 := rep
		rep2.BFile = append([]int{}, op.BFile...)
		rep2.FFile = append([]int{}, op.FFile...)
		drawCancel(&rep)
		h.Ops = append(h.Ops, rep)
		rep = rep2
	}
	h.Ops = append(h.Ops, rep)
	// sometimes a further file continuing the main chain
	if r.Intn(3) == 0 {
		S2 := r.Intn(N)
		E2 := S2 + r.Intn(N-S2)
		ff := seqTok(S2, E2)
		if S2 == 0 {
			ff[0] = 0
		}
		fop := importOp(main[S2:E2+1], ff, S2, pickBatch(r), "further")
		if r.Intn(4) == 0 {
			drawCancel(&fop)
		}
		h.Ops = append(h.Ops, fop)
	}
	h.Nodes = g.nodes
	return h
}

// blockAhead draws a filter tip F below the block tip B and a file placed
// relative to the filter tip: start at or below F+1, end within both stores,
// within the block store only (divergence region), or above the block tip;
// sometimes the file forks off the stored chain inside the divergence region.
func blockAhead(r *rand.Rand, g *gen, main []int, variant, N, B int) (int, Op) {
	F := B
	if B >= 1 {
		F = r.Intn(B)
	}
	S := r.Intn(F + 2)
	if r.Intn(3) == 0 {
		S = F + 1
	}
	if S > B {
		S = B
	}
	lo1 := S
	if F+1 > lo1 {
		lo1 = F + 1
	}
	E := S
	switch z := r.Intn(5); {
	case z == 0 && S <= F:
		E = S + r.Intn(F-S+1)
	case z <= 2 || N-1 <= B:
		if lo1 <= B {
			E = lo1 + r.Intn(B-lo1+1)
		}
	default:
		E = B + 1 + r.Intn(N-1-B)
	}
	bfile := append([]int{}, main[S:E+1]...)
	tag := "block-ahead"
	if r.Intn(6) == 0 && lo1 <= E && lo1 >= 1 {
		// a valid fork leaving the stored chain at cpos > F
		hi := E
		if hi > B {
			hi = B
		}
		if lo1 <= hi {
			cpos := lo1 + r.Intn(hi-lo1+1)
			n := Node{Parent: main[cpos-1], DT: g.dt(variant) + 1 + int64(r.Intn(3))}
			alt := []int{g.add(n)}
			alt = append(alt, g.chain(alt[0], E-cpos, variant)...)
			bfile = append(append([]int{}, main[S:cpos]...), alt...)
			tag = "block-ahead-fork"
		}
	}
	ffile := seqTok(S, E)
	if S == 0 {
		ffile[0] = 0
	}
	return F, importOp(bfile, ffile, S, pickBatch(r), tag)
}

// corpus: fixed regression histories (the witnesses of the fixed findings first).
func corpus() []History {
	var out []History
	mk := func(variant, n int) (*gen, []int) {
		g := &gen{r: rand.New(rand.NewSource(int64(1000 + len(out)))), nodes: []Node{{Parent: -1}}}
		main := append([]int{0}, g.chain(0, n-1, variant)...)
		return g, main
	}
	initF := func(f int) []int { x := seqTok(0, f); x[0] = 0; return x }
	// F08 witness: file 3..12 onto stores 0..5, batch 4
	for variant := 0; variant < 2; variant++ {
		g, main := mk(variant, 13)
		op := importOp(main[3:13], seqTok(3, 12), 3, 4, "f08")
		rep := op
		rep.Tag = "repeat"
		out = append(out, History{Variant: variant, Nodes: g.nodes, InitB: main[:6], InitF: initF(5), Ops: []Op{op, rep}})
	}
	// F09 witnesses: file starts at tip+1; its first header has bad PoW / wrong bits / old time
	for k := 0; k < 3; k++ {
		g, main := mk(k%2, 11)
		n := Node{Parent: main[5], DT: 7}
		switch k {
		case 0:
			n.BadPow = true
		case 1:
			n.BitsXor = 2
		case 2:
			n.DT = -500000
		}
		a := g.add(n)
		alt := append([]int{a}, g.chain(a, 4, k%2)...)
		op := importOp(alt, seqTok(6, 10), 6, 4, "f09")
		rep := op
		rep.Tag = "repeat"
		out = append(out, History{Variant: k % 2, Nodes: g.nodes, InitB: main[:6], InitF: initF(5), Ops: []Op{op, rep}})
	}
	// filter write failure in the second batch, with and without rollback failure
	for k := 0; k < 2; k++ {
		g, main := mk(1, 14)
		op := importOp(main[2:14], seqTok(2, 13), 2, 3, "fault")
		op.FailFW = 2
		op.FailRB = k == 1
		rep := op
		rep.FailFW, rep.FailRB = 0, false
		rep.Tag = "repeat"
		out = append(out, History{Variant: 1, Nodes: g.nodes, InitB: main[:5], InitF: initF(4), Ops: []Op{op, rep}})
	}
	// block store ahead of filter store: extension and pure overlap
	{
		g, main := mk(0, 12)
		op := importOp(main[1:12], seqTok(1, 11), 1, 5, "block-ahead")
		op2 := importOp(main[1:4], seqTok(1, 3), 1, 2, "block-ahead-overlap")
		out = append(out, History{Variant: 0, Nodes: g.nodes, InitB: main[:8], InitF: initF(4), Ops: []Op{op, op2}})
	}
	// F-C14-3: block store ahead; the filter store catches up over several
	// filter-only batches, then both are extended; file ending below the
	// block tip (start 0, batch 2); filter write failing inside the
	// divergence region
	{
		g, main := mk(1, 21)
		op := importOp(main[3:21], seqTok(3, 20), 3, 2, "fc14-3")
		rep := op
		rep.Tag = "repeat"
		out = append(out, History{Variant: 1, Nodes: g.nodes, InitB: main[:10], InitF: initF(5), Ops: []Op{op, rep}})
		ff := seqTok(0, 8)
		ff[0] = 0
		op2 := importOp(main[0:9], ff, 0, 2, "fc14-3-short")
		rep2 := op2
		rep2.Tag = "repeat"
		out = append(out, History{Variant: 1, Nodes: g.nodes, InitB: main[:10], InitF: initF(5), Ops: []Op{op2, rep2}})
		op3 := importOp(main[1:21], seqTok(1, 20), 1, 2, "fc14-3-fault")
		op3.FailFW = 2
		rep3 := op3
		rep3.FailFW = 0
		rep3.Tag = "repeat"
		out = append(out, History{Variant: 1, Nodes: g.nodes, InitB: main[:10], InitF: initF(5), Ops: []Op{op3, rep3}})
	}
	// from genesis into empty stores, default batch; then idempotent repeat
	{
		g, main := mk(1, 20)
		ff := seqTok(0, 19)
		ff[0] = 0
		op := importOp(main, ff, 0, 0, "from-genesis")
		rep := op
		rep.Tag = "repeat"
		out = append(out, History{Variant: 1, Nodes: g.nodes, InitB: main[:1], InitF: initF(0), Ops: []Op{op, rep}})
	}
	// wrong filter header at a checkpointed height
	{
		g, main := mk(0, 10)
		ff := seqTok(4, 9)
		ff[3] = 507
		op := importOp(main[4:10], ff, 4, 2, "filter-wrong")
		out = append(out, History{Variant: 0, Nodes: g.nodes, InitB: main[:5], InitF: initF(4), Ops: []Op{op}})
	}
	// Context cancellation (the poll numbers are fixed: block validator =
	// one poll per batch, filter validator = one poll per batch, append loop
	// = one poll per batch + one before it finds the region exhausted).
	// (a) cancelled on entry, file with a new header that does not link / a
	// first new header without proof of work / a filter header
	// contradicting a checkpoint:
	// both validators skip everything, the append loop must notice before
	// it writes; then the same file under a live context is rejected
	for k := 0; k < 3; k++ {
		g, main := mk(k%2, 13)
		cpos := 6 // first new header
		if k == 0 {
			cpos = 8 // the link to the target tip is checked before validation
		}
		n := Node{Parent: main[cpos-1], DT: 9}
		switch k {
		case 0:
			n.PrevUnk = 2
		case 1:
			n.BadPow = true
		}
		bfile := append([]int{}, main[3:cpos]...)
		ff := seqTok(3, 12)
		if k == 2 {
			bfile = append([]int{}, main[3:13]...)
			ff[4] = 507
		} else {
			a := g.add(n)
			bfile = append(append(bfile, a), g.chain(a, 12-cpos, k%2)...)
		}
		op := importOp(bfile, ff, 3, 4, "cancel-before-validation")
		op.Cancel = 1
		live := op
		live.Cancel = 0
		live.Tag = "repeat"
		out = append(out, History{Variant: k % 2, Nodes: g.nodes, InitB: main[:6], InitF: initF(5), Ops: []Op{op, live}})
	}
	// (b) valid file 2..13 onto stores 0..4, batch 3: validators 4+4 polls,
	// append loop polls 9,10,11 before the three batches, 12 before EOF;
	// cancelled at poll 10 (one batch written), 11, 12 (everything written,
	// failure reported), 13 (never seen); the repeat completes the import
	for _, at := range []int{10, 11, 12, 13, 5} {
		g, main := mk(1, 14)
		op := importOp(main[2:14], seqTok(2, 13), 2, 3, "cancel-between-batches")
		op.Cancel = at
		rep := op
		rep.Cancel = 0
		rep.Tag = "repeat"
		out = append(out, History{Variant: 1, Nodes: g.nodes, InitB: main[:5], InitF: initF(4), Ops: []Op{op, rep}})
	}
	// (c) block store 0..9 ahead of filter store 0..5, file 3..20, batch 2:
	// validators 9+9 polls, divergence catch-up (filter-only) polls 19,20
	// before its two batches and 21 before EOF, then the common region;
	// cancelled inside the catch-up, at its last poll, and in the common
	// region; (d) the same with a filter header contradicting a checkpoint
	// inside the divergence region, cancelled on entry
	for _, at := range []int{19, 20, 21, 23, 1} {
		g, main := mk(1, 21)
		bfile := append([]int{}, main[3:21]...)
		ff := seqTok(3, 20)
		tag := "cancel-in-divergence"
		if at == 1 {
			// filter header at the checkpointed height 7, inside the
			// divergence region 6..9, contradicts the checkpoint
			ff[7-3] = 507
			tag = "cancel-before-validation-divergence"
		}
		op := importOp(bfile, ff, 3, 2, tag)
		op.Cancel = at
		rep := op
		rep.Cancel = 0
		rep.Tag = "repeat"
		out = append(out, History{Variant: 1, Nodes: g.nodes, InitB: main[:10], InitF: initF(5), Ops: []Op{op, rep}})
	}
	// (e) a file lying within both stores, cancelled on entry: nothing is
	// validated, nothing is to be written, Import reports success
	{
		g, main := mk(0, 12)
		op := importOp(main[2:7], seqTok(2, 6), 2, 2, "cancel-nothing-to-write")
		op.Cancel = 1
		out = append(out, History{Variant: 0, Nodes: g.nodes, InitB: main[:9], InitF: initF(8), Ops: []Op{op}})
	}
	for i := range out {
		out[i].ID = i
	}
	return out
}

// ---------------------------------------------------------------------
// Gallina output.

// bigZ prints a (possibly 256-bit) integer; large values in hexadecimal,
// which coqc parses much faster than decimal.
func bigZ(v *big.Int) string {
	if v.Sign() < 0 {
		return "(-" + bigZ(new(big.Int).Neg(v)) + ")"
	}
	if v.BitLen() <= 62 {
		return v.String()
	}
	return "0x" + v.Text(16)
}

func metaTerm(m Meta) string {
	return fmt.Sprintf("(mkM %d %d %d (Ht %d) %d)", m.Net, m.Ver, m.Type, m.Start, m.Slack)
}

func ints(xs []int) string {
	it := make([]string, len(xs))
	for i, x := range xs {
		it[i] = c.Z(int64(x))
	}
	return c.List(it)
}

func obsTerm(o *Obs) string {
	return fmt.Sprintf("(mkO %s %s %s (%s, %s) (%s, %s) %s)", c.Bool(o.OK), ints(o.B), ints(o.F),
		c.Z(int64(o.BTipTok)), c.Z(int64(o.BTipH)), c.Z(int64(o.FTipTok)), c.Z(int64(o.FTipH)), ints(o.Idx))
}

func paramsTerm(P *chaincfg.Params, now int64) string {
	bpr := blocksPerRetarget(P)
	minTS := int64(P.TargetTimespan.Seconds() / float64(P.RetargetAdjustmentFactor))
	maxTS := int64(P.TargetTimespan.Seconds() * float64(P.RetargetAdjustmentFactor))
	var cps []string
	for _, h := range cpHeights {
		cps = append(cps, fmt.Sprintf("(%d, %d)", h, h))
	}
	return fmt.Sprintf("(mkP %d %s %d %d %d %d %s %d %s %d)", uint32(P.Net), c.Bool(P.PoWNoRetargeting), bpr,
		minTS, maxTS, int64(P.TargetTimespan/time.Second), bigZ(P.PowLimit), P.PowLimitBits, c.List(cps), now)
}

func caseTerm(h *History, genFilt chainhash.Hash) string {
	p := buildPool(h.Variant, h.Nodes, genFilt)
	var hs []string
	for i := range p.b {
		b := p.b[i]
		prev := p.hashTok(b.hdr.PrevBlock)
		hs = append(hs, fmt.Sprintf("H %d %d %d %d %s", i+1, prev, b.hdr.Bits, b.hdr.Timestamp.Unix(),
			bigZ(blockchain.HashToBig(&b.hash))))
	}
	var ops []string
	for i := range h.Ops {
		op := &h.Ops[i]
		var t string
		if op.Kind == "import" {
			rb := "false"
			if op.FailRB {
				rb = "true"
			}
			t = fmt.Sprintf("RI %s %s %s %s %d (mkF %d %d %s %d)", metaTerm(op.BMeta), ints(op.BFile),
				metaTerm(op.FMeta), ints(op.FFile), op.Batch, op.FailBW, op.FailFW, rb, op.Cancel)
		} else {
			t = fmt.Sprintf("RR %d", op.N)
		}
		ops = append(ops, fmt.Sprintf("(%s, %s)", t, obsTerm(op.Obs)))
	}
	return fmt.Sprintf("(%d, mkCase %s\n %s\n %s %s\n %s)", h.ID, paramsTerm(&p.params, h.Now),
		c.List(hs), ints(h.InitB), ints(h.InitF), c.List(ops))
}

// auxiliary pure-function tables: CompactToBig / BigToCompact
func auxTables(r *rand.Rand) (string, string) {
	var c2b, b2c []string
	for i := 0; i < 300; i++ {
		var v uint32
		switch i % 4 {
		case 0:
			v = r.Uint32()
		case 1:
			v = uint32(r.Intn(36))<<24 | uint32(r.Intn(1<<24))
		case 2:
			v = 0x1d00ffff + uint32(r.Intn(1000))
		default:
			v = uint32(r.Intn(6))<<24 | uint32(r.Intn(1<<24))
		}
		c2b = append(c2b, fmt.Sprintf("(%d, %s)", v, bigZ(blockchain.CompactToBig(v))))
	}
	for i := 0; i < 300; i++ {
		n := new(big.Int).Rand(r, new(big.Int).Lsh(big.NewInt(1), uint(1+r.Intn(260))))
		if i%7 == 0 {
			n.Neg(n)
		}
		if i%11 == 0 {
			n.SetInt64(int64(r.Intn(70000)))
		}
		b2c = append(b2c, fmt.Sprintf("(%s, %d)", bigZ(n), blockchain.BigToCompact(n)))
	}
	return c.List(c2b), c.List(b2c)
}

// ---------------------------------------------------------------------

func signature(h *History) (sig string, nontrivial bool) {
	var sb strings.Builder
	fmt.Fprintf(&sb, "v%d:", h.Variant)
	changed, interesting := false, false
	prevB, prevF := len(h.InitB), len(h.InitF)
	for i := range h.Ops {
		op := &h.Ops[i]
		o := op.Obs
		if o == nil {
			continue
		}
		if op.Kind == "rollback" {
			sb.WriteString("R")
		} else {
			cls := "o" // overlap start
			switch {
			case int(op.BMeta.Start) == 0:
				cls = "g"
			case int(op.BMeta.Start) == prevB || int(op.BMeta.Start) == prevF:
				cls = "x" // exact extension of one of the stores
			case int(op.BMeta.Start) > prevB:
				cls = "G"
			}
			fmt.Fprintf(&sb, "I%s", cls)
			if prevB != prevF {
				sb.WriteString("d")
			}
			if op.FailBW+op.FailFW > 0 {
				sb.WriteString("f")
				interesting = true
			}
			if op.Cancel > 0 && op.Cancel <= op.Polls {
				// a poll of this import reported cancellation
				sb.WriteString("k")
				interesting = true
			}
			if strings.HasPrefix(op.Tag, "corrupt") || strings.HasPrefix(op.Tag, "filter-wrong") || op.Tag == "f09" {
				sb.WriteString("c")
				interesting = true
			}
			if op.BMeta.Start > 0 {
				interesting = true
			}
			if o.OK {
				sb.WriteString("+")
			} else {
				sb.WriteString("-")
			}
		}
		if len(o.B) != prevB || len(o.F) != prevF {
			sb.WriteString("w")
			changed = true
		}
		prevB, prevF = len(o.B), len(o.F)
	}
	return sb.String(), changed && interesting
}

func main() {
	a := c.ParseArgs()
	rep := c.NewReport("C14", a)
	work := filepath.Join(a.Out, "tmp")
	os.RemoveAll(work)
	tmpl := filepath.Join(work, "template")
	genFilt := makeTemplate(tmpl)
	installCheckpoints(genFilt)
	now := time.Now().Unix()

	var hs []History
	if a.Replay != "" {
		raw, err := os.ReadFile(a.Replay)
		if err != nil {
			panic(err)
		}
		var wrap struct {
			History *History `json:"history"`
		}
		var h History
		if err := json.Unmarshal(raw, &wrap); err == nil && wrap.History != nil {
			h = *wrap.History
		} else if err := json.Unmarshal(raw, &h); err != nil {
			panic(err)
		}
		for i := range h.Ops {
			h.Ops[i].Obs = nil
		}
		hs = []History{h}
	} else {
		hs = corpus()
		n := 300
		if a.Tier == "thorough" {
			n = 4000
		}
		base := len(hs)
		for i := 0; i < n; i++ {
			hs = append(hs, genHistory(a.Seed, base+i))
		}
	}
	for i := range hs {
		hs[i].Now = now
	}

	type failure struct {
		what string
		step int
	}
	fails := make([]failure, len(hs))
	var wg sync.WaitGroup
	sem := make(chan struct{}, a.Workers)
	for i := range hs {
		wg.Add(1)
		sem <- struct{}{}
		go func(i int) {
			defer wg.Done()
			defer func() { <-sem }()
			w, st := runHistory(&hs[i], work, tmpl, genFilt)
			fails[i] = failure{w, st}
			if i%64 == 0 {
				runtime.GC()
			}
		}(i)
	}
	wg.Wait()
	os.RemoveAll(work)

	sigs := c.Signatures{}
	nontrivial := c.Signatures{}
	var terms []string
	for i := range hs {
		h := &hs[i]
		path := filepath.Join(a.Out, fmt.Sprintf("hist-%d.json", h.ID))
		c.WriteJSON(path, h)
		rep.Cases[fmt.Sprint(h.ID)] = path
		if fails[i].what != "" {
			tag := "panic"
			if strings.HasPrefix(fails[i].what, "hang") {
				tag = "hang"
			}
			rep.ImplFailures = append(rep.ImplFailures, c.ImplFailure{Case: fmt.Sprint(h.ID), Step: fails[i].step, What: fails[i].what, Tag: tag})
			continue
		}
		terms = append(terms, caseTerm(h, genFilt))
		sig, nt := signature(h)
		sigs.Add(sig)
		if nt {
			nontrivial.Add(sig)
		}
		for k := range h.Ops {
			op := &h.Ops[k]
			rep.Histogram["op:"+op.Kind]++
			if op.Kind == "import" {
				rep.Histogram["tag:"+op.Tag]++
				if op.Obs.OK {
					rep.Histogram["result:success"]++
				} else {
					rep.Histogram["result:failure"]++
				}
				if op.BMeta.Start > 0 {
					rep.Histogram["start>0"]++
				}
				if op.Cancel > 0 {
					switch {
					case op.Polls == 0 && op.CancelSel == 0:
						rep.Histogram["cancel:fixed"]++
					case op.Cancel > op.Polls:
						rep.Histogram["cancel:after-last-poll"]++
					case op.Obs.OK:
						rep.Histogram["cancel:seen-success"]++
					default:
						rep.Histogram["cancel:seen-failure"]++
					}
				}
				rep.Histogram[fmt.Sprintf("batch:%d", op.Batch)]++
			}
		}
	}
	// shards
	const per = 40
	c2b, b2c := auxTables(c.Rng(a.Seed, 999999))
	shard := 0
	for lo := 0; lo < len(terms) || shard == 0; lo += per {
		hi := lo + per
		if hi > len(terms) {
			hi = len(terms)
		}
		var sb strings.Builder
		sb.WriteString("From Coq Require Import ZArith List.\nFrom Verif Require Import C14.Model C14.Spec C14.Replay.\nImport ListNotations.\nOpen Scope Z_scope.\n")
		sb.WriteString("Definition cases : list (Z * tcase) := [\n")
		sb.WriteString(strings.Join(terms[lo:hi], ";\n"))
		sb.WriteString("].\n")
		if shard == 0 {
			sb.WriteString("Definition c2b_cases : list (Z * Z) := " + c2b + ".\n")
			sb.WriteString("Definition b2c_cases : list (Z * Z) := " + b2c + ".\n")
			sb.WriteString("Definition R := Eval vm_compute in (run_cases cases ++ map (fun i => (i, 3, 0, 0)) (c2b_mismatches c2b_cases) ++ map (fun i => (i, 4, 0, 0)) (b2c_mismatches b2c_cases)).\n")
		} else {
			sb.WriteString("Definition R := Eval vm_compute in (run_cases cases).\n")
		}
		sb.WriteString("Set Printing Width 1000000.\nSet Printing Depth 1000000.\nPrint R.\n")
		c.WriteFile(filepath.Join(a.Out, fmt.Sprintf("cases_%d.v", shard)), sb.String())
		shard++
	}

	keys := make([]string, 0, len(sigs))
	for k := range sigs {
		keys = append(keys, k)
	}
	sort.Strings(keys)
	rep.Histogram["distinct_signatures"] = len(sigs)
	rep.Evaluations = len(terms)
	rep.DistinctNontrivial = len(nontrivial)
	rep.Rule = "histories = (target stores prefilled through WriteHeaders, optional block-store rollback, import, repeated import, optional further import) on real headerfs stores; signature = parameter variant + per op: start class (genesis/overlap/exact extension/gap), stores-at-different-heights, fault, context-cancelled-at-a-poll-the-import-made, corruption, result, stores-changed; a history is non-trivial when some import has a non-zero start height, an injected write failure, a context cancellation that one of its polls saw or a corrupted header AND some operation changed the stores; distinct = distinct signatures among those"
	for i := 0; i < len(hs) && i < 3; i++ {
		rep.Samples = append(rep.Samples, hs[i])
	}
	rep.Write(a.Out)
}
