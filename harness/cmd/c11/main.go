// Correspondence harness for C11: drives the real blockntfns.SubscriptionManager
// with a scripted NotificationSource, many subscribers that read fast, slowly
// or not at all, more events than the 20-slot buffers hold, concurrent
// cancels and Stop at arbitrary points.  It records, per subscriber, the
// backlog the source handed out, bounds on the registration point in the
// global emission order, everything received in order and whether the
// channel was closed, and writes that as a Coq cases file for
// Verif.C11.Replay (acceptor `admissible` + model comparison).
package main

import (
	"fmt"
	"math/rand"
	"path/filepath"
	"sort"
	"strings"
	"sync"
	"sync/atomic"
	"time"

	"github.com/btcsuite/btcd/wire/v2"
	"github.com/lightninglabs/neutrino/blockntfns"

	c "verifharness/internal/common"
)

// ---------------------------------------------------------------------
// Histories.

// Op is one driver step of a history.
type Op struct {
	// emit n: send n events synchronously (rendezvous with the handler)
	// aemit n: start a goroutine sending n events; runs concurrently with
	//          the following ops until join (or the end)
	// join: wait for all asynchronous activity
	// sub: NewSubscription (backlog of BL elements, reader Mode)
	// cancel s / acancel s: Subscription.Cancel of script subscriber s
	// wake s: a never-reading subscriber starts to read
	// sync: emit one event and wait until every live reading subscriber got it
	// stop / astop: SubscriptionManager.Stop
	// sleep n: n microseconds
	Kind string `json:"kind"`
	N    int    `json:"n,omitempty"`
	Sub  int    `json:"sub,omitempty"`
	BL   int    `json:"bl,omitempty"`
	Mode string `json:"mode,omitempty"` // fast|slow|never
	Fail bool   `json:"fail,omitempty"` // the source fails the backlog request
	Zero bool   `json:"zero,omitempty"` // request height 0 (no backlog)
	// DelayUs: the source takes this long to answer the backlog request
	// (sub), resp. Stop is called this long after the op starts (astop).
	DelayUs int `json:"delay_us,omitempty"`
	// Gate (sub): while the manager is inside NotificationsSinceHeight the
	// source offers the next event to the handler (bounded wait) and only
	// then returns the backlog as of BEFORE that event.  Taking the backlog
	// and joining the fan-out set must be one handler step, so the event
	// can only be accepted after the registration.
	Gate bool `json:"gate,omitempty"`
	// osub: an overlap group: len(Members) NewSubscription calls issued from
	// separate goroutines so that they are in progress at the same time.
	//   Pat "first": member 0 is issued, the handler is held inside its
	//     backlog request (NotificationsSinceHeight), the other members are
	//     issued, then the handler is released;
	//   Pat "chain": the handler is held inside every member's backlog
	//     request in turn (Prog: the next member is only issued while the
	//     handler is held in the previous one's request);
	//   Pat "free": no gating, all members start at the same moment.
	// Mid: actions started (asynchronously) while the handler is held.
	Members []Member `json:"members,omitempty"`
	Pat     string   `json:"pat,omitempty"`
	Prog    bool     `json:"prog,omitempty"`
	Mid     []MidAct `json:"mid,omitempty"`
}

// Member is one NewSubscription call of an overlap group.
type Member struct {
	BL   int    `json:"bl,omitempty"`
	Mode string `json:"mode"`
	Zero bool   `json:"zero,omitempty"`
	Fail bool   `json:"fail,omitempty"`
}

// MidAct is started while the handler is held for the At-th time in an
// overlap group: "cancel" of script subscriber Sub (registered earlier, or a
// member of the group that has already returned), "emit" of N events.
type MidAct struct {
	At   int    `json:"at"`
	Kind string `json:"kind"`
	Sub  int    `json:"sub,omitempty"`
	N    int    `json:"n,omitempty"`
}

// SubObs is what was observed for one `sub` op.
type SubObs struct {
	Script   int     `json:"script"`
	Height   uint32  `json:"height"`
	Mode     string  `json:"mode"`
	OK       bool    `json:"ok"`
	Backlog  []int64 `json:"backlog"`
	RLo      int64   `json:"rlo"`
	RHi      int64   `json:"rhi"`
	Got      []int64 `json:"got"`
	Closed   bool    `json:"closed"`
	Ended    bool    `json:"ended"`
	MustUpto int64   `json:"must_upto"`
	EHi      int64   `json:"ehi"`
	// Reg: position in the order in which the handler registered the
	// successful subscriptions (-1: not registered)
	Reg int `json:"reg"`
}

// History is a replayable case with its observations.
type History struct {
	ID  int  `json:"id"`
	Ops []Op `json:"ops"`
	// observations
	Det     bool     `json:"det"`
	Emitted []int64  `json:"emitted"`
	Acts    []string `json:"acts"`
	Subs    []SubObs `json:"subs"`
	// Snaps: what a subscriber had seen at the moment its consumer observed
	// the channel closed during the history (Ended: its Cancel or Stop had
	// been requested by then)
	Snaps []SubObs `json:"snaps,omitempty"`
	Fails []string `json:"fails,omitempty"`
}

// ---------------------------------------------------------------------
// Scripted notification source.

type source struct {
	ch chan blockntfns.BlockNtfn
	mu sync.Mutex
	bl map[uint32][]int64
	er map[uint32]bool
	dl map[uint32]time.Duration
	// gate[h]: offer an event from inside the backlog request for h
	gate map[uint32]bool
	// entry[h]: events (completed, started) when the backlog request for h
	// came in: the backlog is a snapshot taken at that emission position
	entry map[uint32][2]int64
	r     *runner
	// grp: the overlap group in progress serves the backlog requests
	grp *group
}

const gateWait = 3 * time.Millisecond

func (s *source) Notifications() <-chan blockntfns.BlockNtfn { return s.ch }

func (s *source) NotificationsSinceHeight(h uint32) ([]blockntfns.BlockNtfn, uint32, error) {
	s.mu.Lock()
	if g := s.grp; g != nil {
		s.mu.Unlock()
		return g.serve(h)
	}
	d := s.dl[h]
	g := s.gate[h]
	s.entry[h] = [2]int64{s.r.completed.Load(), s.r.started.Load()}
	s.mu.Unlock()
	if d > 0 {
		time.Sleep(d)
	}
	if g {
		s.r.gateEmit()
	}
	s.mu.Lock()
	defer s.mu.Unlock()
	if s.er[h] {
		return nil, 0, fmt.Errorf("scripted source failure")
	}
	if h == 0 {
		return nil, 0, nil
	}
	ids := s.bl[h]
	out := make([]blockntfns.BlockNtfn, 0, len(ids))
	for _, id := range ids {
		out = append(out, ntfn(id))
	}
	return out, h + uint32(len(ids)), nil
}

var emptyHeader wire.BlockHeader

// ntfn encodes an event id in the height; both notification kinds occur.
func ntfn(id int64) blockntfns.BlockNtfn {
	if id%7 == 3 {
		return blockntfns.NewBlockDisconnected(emptyHeader, uint32(id), emptyHeader)
	}
	return blockntfns.NewBlockConnected(emptyHeader, uint32(id))
}

// ---------------------------------------------------------------------
// Runner.

const (
	sendDeadline   = 3 * time.Second
	callDeadline   = 3 * time.Second
	syncDeadline   = 4 * time.Second
	closeDeadline  = 3 * time.Second
	backlogIDBase  = 100000
	heightPerSub   = 1000
	slowReaderUnit = 150 * time.Microsecond
)

type subState struct {
	obs      *SubObs
	sub      *blockntfns.Subscription
	mu       sync.Mutex
	got      []int64
	closed   bool
	wakeCh   chan struct{}
	wakeOnce sync.Once
	done     chan struct{}
	delay    time.Duration
	reading  atomic.Bool
	r        *runner
	script   int
	endReq   atomic.Bool // Cancel of this subscription has been requested
}

func (s *subState) wake() {
	s.wakeOnce.Do(func() { s.reading.Store(true); close(s.wakeCh) })
}

func (s *subState) consume() {
	defer close(s.done)
	<-s.wakeCh
	for n := range s.sub.Notifications {
		s.mu.Lock()
		s.got = append(s.got, int64(n.Height()))
		s.mu.Unlock()
		if s.delay > 0 {
			time.Sleep(s.delay)
		}
	}
	s.mu.Lock()
	s.closed = true
	s.mu.Unlock()
	if s.r != nil {
		s.r.sawClose(s)
	}
}

func (s *subState) has(id int64) bool {
	s.mu.Lock()
	defer s.mu.Unlock()
	for i := len(s.got) - 1; i >= 0; i-- {
		if s.got[i] == id {
			return true
		}
	}
	return false
}

type runner struct {
	h   *History
	mgr *blockntfns.SubscriptionManager
	src *source

	started   atomic.Int64
	completed atomic.Int64
	emitMu    sync.Mutex
	emitted   []int64
	nextID    atomic.Int64

	stopBegun  atomic.Bool
	stopOnce   sync.Once
	stopDoneCh chan struct{}

	subsMu sync.Mutex
	subs   []*subState // by script number; nil entries for failed subs
	nOK    int
	async  sync.WaitGroup
	failMu sync.Mutex
	fails  []c.ImplFailure
	step   int
	failed atomic.Bool

	runStart, runLen int64
	runAt            int

	gateAccepted atomic.Int64

	regOrder   []int // script numbers in registration order
	epilogue   atomic.Bool
	snapMu     sync.Mutex
	snaps      []SubObs
	overlapped int
}

// sawClose is called by a consumer that observed its channel closed.  A
// channel may only be closed by that subscription's own Cancel or by Stop.
func (r *runner) sawClose(s *subState) {
	if r.epilogue.Load() {
		return
	}
	ended := s.endReq.Load() || r.stopBegun.Load()
	ehi := int64(-1)
	if ended {
		ehi = r.started.Load()
	}
	s.mu.Lock()
	o := *s.obs
	o.Got = append([]int64{}, s.got...)
	s.mu.Unlock()
	o.Closed, o.Ended, o.EHi, o.MustUpto = true, ended, ehi, 0
	r.snapMu.Lock()
	r.snaps = append(r.snaps, o)
	r.snapMu.Unlock()
	if !ended {
		r.fail("closed-without-cancel", fmt.Sprintf("the notification channel of subscriber %d was closed although neither its own Cancel nor Stop had been requested (another client's Cancel reached it)", s.script))
	}
}

func (r *runner) regIndex(script int) int {
	for i, s := range r.regOrder {
		if s == script {
			return i
		}
	}
	return -1
}

func (r *runner) fail(tag, what string) {
	r.failMu.Lock()
	defer r.failMu.Unlock()
	r.failed.Store(true)
	r.fails = append(r.fails, c.ImplFailure{Case: fmt.Sprint(r.h.ID), Step: r.step, What: what, Tag: tag})
}

// withDeadline runs f in a goroutine; false if it did not return in time.
func withDeadline(d time.Duration, f func()) bool {
	done := make(chan struct{})
	go func() { f(); close(done) }()
	t := time.NewTimer(d)
	defer t.Stop()
	select {
	case <-done:
		return true
	case <-t.C:
		return false
	}
}

// sendOne offers the next event to the handler.
func (r *runner) sendOne() (int64, bool) {
	id := r.nextID.Add(1)
	r.started.Add(1)
	t := time.NewTimer(sendDeadline)
	defer t.Stop()
	select {
	case r.src.ch <- ntfn(id):
		r.emitMu.Lock()
		r.emitted = append(r.emitted, id)
		r.emitMu.Unlock()
		r.completed.Add(1)
		return id, true
	case <-r.stopDoneCh:
		return id, false
	case <-t.C:
		if !r.stopBegun.Load() {
			r.fail("handler-blocked", fmt.Sprintf("the handler did not accept event %d within %v although the manager is running (a subscriber is blocking it)", id, sendDeadline))
		}
		return id, false
	}
}

// gateEmit offers one event from inside NotificationsSinceHeight, for a
// bounded time.  Only used while no other emitter is active.
func (r *runner) gateEmit() {
	if r.stopBegun.Load() {
		return
	}
	id := r.nextID.Add(1)
	r.started.Add(1)
	t := time.NewTimer(gateWait)
	defer t.Stop()
	select {
	case r.src.ch <- ntfn(id):
		r.emitMu.Lock()
		r.emitted = append(r.emitted, id)
		r.emitMu.Unlock()
		r.completed.Add(1)
		r.actEmit(id)
		r.gateAccepted.Add(1)
	case <-t.C:
	}
}

func (r *runner) emitN(n int) {
	for i := 0; i < n; i++ {
		if _, ok := r.sendOne(); !ok {
			return
		}
	}
}

func (r *runner) act(s string) { r.h.Acts = append(r.h.Acts, s) }

// actEmit records an accepted synchronous emission, merging runs.
func (r *runner) actEmit(id int64) {
	if r.runLen > 0 && r.runStart+r.runLen == id && len(r.h.Acts) == r.runAt+1 {
		r.runLen++
		r.h.Acts[r.runAt] = c.App("AEmits", c.Z(r.runStart), c.Z(r.runLen))
		return
	}
	r.runStart, r.runLen, r.runAt = id, 1, len(r.h.Acts)
	r.act(c.App("AEmits", c.Z(id), "1"))
}

func (r *runner) addSub(st *subState) {
	r.subsMu.Lock()
	r.subs = append(r.subs, st)
	r.subsMu.Unlock()
}

func (r *runner) snapshot() []*subState {
	r.subsMu.Lock()
	defer r.subsMu.Unlock()
	return append([]*subState{}, r.subs...)
}

func (r *runner) subAt(i int) *subState {
	r.subsMu.Lock()
	defer r.subsMu.Unlock()
	if i < 0 || i >= len(r.subs) {
		return nil
	}
	return r.subs[i]
}

func (r *runner) doSub(script int, op Op) {
	o := &SubObs{Script: script, Mode: op.Mode, EHi: -1}
	h := uint32(heightPerSub * (script + 1))
	if op.Zero {
		h = 0
	}
	o.Height = h
	r.src.mu.Lock()
	if op.DelayUs > 0 {
		r.src.dl[h] = time.Duration(op.DelayUs) * time.Microsecond
	}
	r.src.gate[h] = op.Gate
	delete(r.src.entry, h)
	if op.Fail {
		r.src.er[h] = true
	} else if h != 0 {
		ids := make([]int64, op.BL)
		for j := range ids {
			ids[j] = int64(backlogIDBase*(script+1) + j + 1)
		}
		r.src.bl[h] = ids
		o.Backlog = ids
	}
	r.src.mu.Unlock()

	var sub *blockntfns.Subscription
	var err error
	o.Reg = -1
	r.act("ACall")
	o.RLo = r.completed.Load()
	ok := withDeadline(callDeadline, func() { sub, err = r.mgr.NewSubscription(h) })
	o.RHi = r.started.Load()
	// The backlog is a snapshot taken when the source was asked: that is
	// the registration point (tighter bounds than the call bracket).
	r.src.mu.Lock()
	if e, seen := r.src.entry[h]; seen {
		if e[0] > o.RLo {
			o.RLo = e[0]
		}
		if e[1] < o.RHi {
			o.RHi = e[1]
		}
	}
	r.src.mu.Unlock()
	if !ok {
		r.fail("register-hang", fmt.Sprintf("NewSubscription(%d) did not return within %v", h, callDeadline))
		r.h.Subs = append(r.h.Subs, *o)
		r.addSub(nil)
		return
	}
	if err != nil || sub == nil {
		r.h.Subs = append(r.h.Subs, *o)
		r.addSub(nil)
		r.act("(AFail 0)")
		return
	}
	o.OK = true
	o.Reg = len(r.regOrder)
	r.regOrder = append(r.regOrder, script)
	st := r.newSubState(script, op.Mode, o, sub)
	r.addSub(st)
	r.nOK++
	r.act(c.App("AReg", "0", zlist(o.Backlog)))
}

// newSubState starts the consumer of a registered subscription.
func (r *runner) newSubState(script int, mode string, o *SubObs, sub *blockntfns.Subscription) *subState {
	st := &subState{obs: o, sub: sub, wakeCh: make(chan struct{}), done: make(chan struct{}), r: r, script: script}
	if mode == "slow" {
		st.delay = time.Duration(1+script%4) * slowReaderUnit
	}
	if mode != "never" {
		st.wake()
	}
	go st.consume()
	return st
}

// ---------------------------------------------------------------------
// Overlap groups: NewSubscription calls in progress at the same time.

const (
	holdDeadline = 2 * time.Second
	stagger      = 120 * time.Microsecond
)

type member struct {
	idx    int
	script int
	spec   Member
	h      uint32
	obs    *SubObs
	st     *subState
	ok     bool
	ret    chan struct{}
	// set by serve under group.mu
	entered  bool
	held     bool
	released bool
	entryC   int64
	entryS   int64
	issued   bool
	rhi      int64
}

type group struct {
	r         *runner
	mu        sync.Mutex
	ms        []*member
	hold      bool
	order     []int // members in the order the handler asked for their backlog
	enteredCh chan int
	doneCh    chan int
	release   chan struct{}
}

// serve is NotificationsSinceHeight while the group runs (handler goroutine).
func (g *group) serve(h uint32) ([]blockntfns.BlockNtfn, uint32, error) {
	g.mu.Lock()
	var m *member
	for _, x := range g.ms {
		if x.issued && !x.entered && x.h == h {
			m = x
			break
		}
	}
	if m == nil {
		g.mu.Unlock()
		return nil, 0, fmt.Errorf("backlog request for an unknown height %d", h)
	}
	m.entered, m.held = true, g.hold
	m.entryC, m.entryS = g.r.completed.Load(), g.r.started.Load()
	g.order = append(g.order, m.idx)
	held := m.held
	g.mu.Unlock()
	g.enteredCh <- m.idx
	if held {
		t := time.NewTimer(holdDeadline)
		select {
		case <-g.release:
		case <-t.C:
		}
		t.Stop()
	}
	if m.spec.Fail {
		return nil, 0, fmt.Errorf("scripted source failure")
	}
	if h == 0 {
		return nil, 0, nil
	}
	out := make([]blockntfns.BlockNtfn, 0, len(m.obs.Backlog))
	for _, id := range m.obs.Backlog {
		out = append(out, ntfn(id))
	}
	return out, h + uint32(len(out)), nil
}

// issue starts member i's NewSubscription call in its own goroutine.
func (g *group) issue(i int, start <-chan struct{}) {
	m := g.ms[i]
	m.obs.RLo = g.r.completed.Load()
	g.mu.Lock()
	m.issued = true
	g.mu.Unlock()
	go func() {
		defer func() { close(m.ret); g.doneCh <- i }()
		if start != nil {
			<-start
		}
		var sub *blockntfns.Subscription
		var err error
		ok := withDeadline(callDeadline+holdDeadline, func() { sub, err = g.r.mgr.NewSubscription(m.h) })
		m.rhi = g.r.started.Load()
		if !ok {
			g.r.fail("register-hang", fmt.Sprintf("NewSubscription(%d) did not return within %v", m.h, callDeadline+holdDeadline))
			return
		}
		if err != nil || sub == nil {
			return
		}
		// the observation is complete before the consumer starts (a
		// snapshot may be taken as soon as it runs)
		g.mu.Lock()
		g.bounds(m)
		g.mu.Unlock()
		m.obs.OK = true
		m.st = g.r.newSubState(m.script, m.spec.Mode, m.obs, sub)
		m.ok = true
	}()
}

// bounds: registration point of m in the emission order: between the start
// and the return of the call, and as of the moment the handler asked for the
// backlog (the backlog is a snapshot taken then).
func (g *group) bounds(m *member) {
	o := m.obs
	o.RHi = m.rhi
	// requests for height 0 cannot be told apart: with several such members
	// only the call bracket is used
	zeros := 0
	for _, x := range g.ms {
		if x.h == 0 {
			zeros++
		}
	}
	if m.entered && (m.h != 0 || zeros == 1) {
		if m.entryC > o.RLo {
			o.RLo = m.entryC
		}
		if m.entryS < o.RHi {
			o.RHi = m.entryS
		}
	}
}

// releaseOne lets the handler leave the backlog request it is held in.
func (g *group) releaseOne() {
	g.mu.Lock()
	n := 0
	for _, i := range g.order {
		if m := g.ms[i]; m.held && !m.released {
			m.released = true
			n++
			break
		}
	}
	g.mu.Unlock()
	for ; n > 0; n-- {
		g.release <- struct{}{}
	}
}

// releaseAll stops holding and releases whoever is held.
func (g *group) releaseAll() {
	g.mu.Lock()
	g.hold = false
	n := 0
	for _, m := range g.ms {
		if m.held && !m.released {
			m.released = true
			n++
		}
	}
	g.mu.Unlock()
	for ; n > 0; n-- {
		g.release <- struct{}{}
	}
}

func (r *runner) doGroup(base int, op Op) {
	k := len(op.Members)
	if k == 0 {
		return
	}
	g := &group{r: r, hold: op.Pat == "first" || op.Pat == "chain",
		enteredCh: make(chan int, k), doneCh: make(chan int, k), release: make(chan struct{}, k)}
	for i, sp := range op.Members {
		script := base + i
		o := &SubObs{Script: script, Mode: sp.Mode, EHi: -1, Reg: -1}
		h := uint32(heightPerSub * (script + 1))
		if sp.Zero {
			h = 0
		}
		o.Height = h
		if !sp.Fail && h != 0 {
			ids := make([]int64, sp.BL)
			for j := range ids {
				ids[j] = int64(backlogIDBase*(script+1) + j + 1)
			}
			o.Backlog = ids
		}
		g.ms = append(g.ms, &member{idx: i, script: script, spec: sp, h: h, obs: o, ret: make(chan struct{})})
	}
	r.src.mu.Lock()
	r.src.grp = g
	r.src.mu.Unlock()
	r.overlapped += k

	nIssued, nReturned := 0, 0
	// wait: "entered" (the handler is inside a backlog request), "done"
	// (every issued call has returned) or "timeout"
	wait := func(d time.Duration) string {
		t := time.NewTimer(d)
		defer t.Stop()
		for {
			if nReturned == nIssued {
				return "done"
			}
			select {
			case <-g.enteredCh:
				return "entered"
			case <-g.doneCh:
				nReturned++
			case <-t.C:
				return "timeout"
			}
		}
	}
	issue := func(i int, start <-chan struct{}) {
		g.issue(i, start)
		nIssued++
	}
	emitting := false
	mid := func(at int) {
		for _, ma := range op.Mid {
			if ma.At != at {
				continue
			}
			switch ma.Kind {
			case "emit":
				// one emitter at a time: the emission order is what the
				// emitter records
				if emitting {
					continue
				}
				emitting = true
				n := ma.N
				r.async.Add(1)
				go func() { defer r.async.Done(); r.emitN(n) }()
			case "cancel":
				var st *subState
				if ma.Sub >= base && ma.Sub < base+k {
					m := g.ms[ma.Sub-base]
					t := time.NewTimer(2 * time.Millisecond)
					select {
					case <-m.ret:
						if m.ok {
							st = m.st
						}
					case <-t.C:
					}
					t.Stop()
				} else {
					st = r.subAt(ma.Sub)
				}
				if st != nil {
					s := ma.Sub
					r.async.Add(1)
					go func() { defer r.async.Done(); r.doCancel(s, st) }()
				}
			}
		}
		if len(op.Mid) > 0 {
			time.Sleep(stagger)
		}
	}
	finish := func() {
		g.releaseAll()
		for {
			ev := wait(callDeadline + 2*holdDeadline)
			if ev == "done" {
				break
			}
			if ev == "timeout" {
				r.fail("overlap-hang", "overlapping NewSubscription calls did not all return")
				break
			}
		}
	}

	switch op.Pat {
	case "first":
		issue(0, nil)
		wait(holdDeadline)
		for i := 1; i < k; i++ {
			issue(i, nil)
			time.Sleep(stagger)
		}
		time.Sleep(2 * stagger)
		mid(0)
		finish()
	case "chain":
		issue(0, nil)
		next := 1
		if !op.Prog {
			wait(holdDeadline)
			for ; next < k; next++ {
				issue(next, nil)
				time.Sleep(stagger)
			}
			time.Sleep(stagger)
		}
		ev := "entered"
		if op.Prog {
			ev = wait(holdDeadline)
		}
		for step := 0; step < 4*k && ev != "timeout"; step++ {
			if ev == "done" && next >= k {
				break
			}
			if next < k {
				issue(next, nil)
				next++
				time.Sleep(2 * stagger)
			}
			mid(step)
			g.releaseOne()
			ev = wait(holdDeadline)
		}
		finish()
	default: // "free"
		start := make(chan struct{})
		for i := 0; i < k; i++ {
			issue(i, start)
		}
		close(start)
		mid(0)
		finish()
	}

	r.src.mu.Lock()
	r.src.grp = nil
	r.src.mu.Unlock()

	// Observations and handler-level actions.  The calls were started in
	// script order; the handler took them in g.order.
	g.mu.Lock()
	order := append([]int{}, g.order...)
	g.mu.Unlock()
	for range g.ms {
		r.act("ACall")
	}
	pending := make([]int, k)
	for i := range pending {
		pending[i] = i
	}
	take := func(i int) int {
		for p, x := range pending {
			if x == i {
				pending = append(pending[:p], pending[p+1:]...)
				return p
			}
		}
		return 0
	}
	for _, i := range order {
		m := g.ms[i]
		p := take(i)
		if m.ok {
			m.obs.Reg = len(r.regOrder)
			r.regOrder = append(r.regOrder, m.script)
			r.act(c.App("AReg", fmt.Sprint(p), zlist(m.obs.Backlog)))
		} else {
			r.act(c.App("AFail", fmt.Sprint(p)))
		}
	}
	for range pending {
		r.act("(AFail 0)")
	}
	for _, m := range g.ms {
		if m.ok {
			r.addSub(m.st)
			r.nOK++
		} else {
			g.bounds(m)
			r.h.Subs = append(r.h.Subs, *m.obs)
			r.addSub(nil)
		}
	}
}

func (r *runner) doCancel(script int, st *subState) {
	if st == nil {
		return
	}
	st.endReq.Store(true)
	ok := withDeadline(callDeadline, func() { st.sub.Cancel() })
	ehi := r.started.Load()
	if !ok {
		r.fail("cancel-hang", fmt.Sprintf("Cancel of subscriber %d did not return within %v", script, callDeadline))
		return
	}
	st.mu.Lock()
	if !st.obs.Ended {
		st.obs.Ended = true
		st.obs.EHi = ehi
	}
	st.mu.Unlock()
}

func (r *runner) doStop() {
	r.stopBegun.Store(true)
	ok := withDeadline(2*callDeadline, func() { r.mgr.Stop() })
	ehi := r.started.Load()
	if !ok {
		r.fail("stop-hang", "SubscriptionManager.Stop did not return")
		return
	}
	r.stopOnce.Do(func() { close(r.stopDoneCh) })
	r.endAll(ehi)
}

func (r *runner) endAll(ehi int64) {
	for _, st := range r.snapshot() {
		if st == nil {
			continue
		}
		st.mu.Lock()
		if !st.obs.Ended {
			st.obs.Ended = true
			st.obs.EHi = ehi
		}
		st.mu.Unlock()
	}
}

func (r *runner) stopped() bool {
	select {
	case <-r.stopDoneCh:
		return true
	default:
		return false
	}
}

func (r *runner) join() {
	if !withDeadline(4*callDeadline, r.async.Wait) {
		r.fail("async-hang", "asynchronous emit/cancel/stop did not finish")
	}
}

func (r *runner) doSync() {
	r.join()
	if r.stopBegun.Load() {
		return
	}
	id, ok := r.sendOne()
	if !ok {
		return
	}
	r.actEmit(id)
	pos := r.completed.Load()
	dl := time.Now().Add(syncDeadline)
	for i, st := range r.subs {
		if st == nil || !st.reading.Load() {
			continue
		}
		st.mu.Lock()
		ended := st.obs.Ended
		st.mu.Unlock()
		if ended {
			continue
		}
		for !st.has(id) {
			st.mu.Lock()
			cl := st.closed
			st.mu.Unlock()
			if cl && !st.endReq.Load() && !r.stopBegun.Load() && !st.has(id) {
				r.fail("not-delivered", fmt.Sprintf("live reading subscriber %d did not receive event %d: its channel was closed although it was not cancelled", i, id))
				break
			}
			if time.Now().After(dl) {
				r.fail("not-delivered", fmt.Sprintf("live reading subscriber %d did not receive event %d within %v", i, id, syncDeadline))
				break
			}
			time.Sleep(50 * time.Microsecond)
		}
		st.obs.MustUpto = pos
	}
}

func run(h *History) []c.ImplFailure {
	h.Emitted, h.Acts, h.Subs, h.Fails = nil, nil, nil, nil
	h.Det = true
	for _, op := range h.Ops {
		switch op.Kind {
		case "aemit", "acancel", "astop":
			h.Det = false
		case "osub":
			if len(op.Mid) > 0 {
				h.Det = false
			}
		}
	}
	h.Snaps = nil
	src := &source{ch: make(chan blockntfns.BlockNtfn), bl: map[uint32][]int64{}, er: map[uint32]bool{}, dl: map[uint32]time.Duration{},
		gate: map[uint32]bool{}, entry: map[uint32][2]int64{}}
	r := &runner{h: h, src: src, mgr: blockntfns.NewSubscriptionManager(src), stopDoneCh: make(chan struct{})}
	src.r = r
	r.mgr.Start()

	nsub := 0
	for i, op := range h.Ops {
		r.step = i
		if r.failed.Load() {
			break
		}
		switch op.Kind {
		case "emit":
			r.join()
			for k := 0; k < op.N; k++ {
				id, ok := r.sendOne()
				if !ok {
					break
				}
				r.actEmit(id)
			}
		case "aemit":
			r.join()
			r.async.Add(1)
			n := op.N
			go func() { defer r.async.Done(); r.emitN(n) }()
		case "join":
			r.join()
		case "sub":
			if op.Gate {
				r.join()
			}
			r.doSub(nsub, op)
			nsub++
		case "osub":
			r.join()
			r.doGroup(nsub, op)
			nsub += len(op.Members)
		case "cancel":
			if st := r.subAt(op.Sub); st != nil {
				if !r.stopBegun.Load() {
					r.act(c.App("ACancel", fmt.Sprint(r.regIndex(op.Sub))))
				}
				r.doCancel(op.Sub, st)
			}
		case "acancel":
			r.async.Add(1)
			s, st := op.Sub, r.subAt(op.Sub)
			go func() { defer r.async.Done(); r.doCancel(s, st) }()
		case "wake":
			if st := r.subAt(op.Sub); st != nil {
				st.wake()
			}
		case "sync":
			r.doSync()
		case "stop":
			if !r.stopBegun.Load() {
				r.act("AStop")
			}
			r.doStop()
		case "astop":
			r.async.Add(1)
			d := time.Duration(op.DelayUs) * time.Microsecond
			go func() {
				defer r.async.Done()
				if d > 0 {
					time.Sleep(d)
				}
				r.doStop()
			}()
		case "sleep":
			time.Sleep(time.Duration(op.N) * time.Microsecond)
		}
	}
	r.step = len(h.Ops)
	// Epilogue: everything asynchronous ends, the manager is stopped, every
	// subscriber reads until its channel is closed.
	r.join()
	if !r.stopped() {
		if !r.stopBegun.Load() {
			r.act("AStop")
		}
		r.doStop()
	}
	r.endAll(r.started.Load())
	r.epilogue.Store(true)
	dl := time.NewTimer(closeDeadline)
	defer dl.Stop()
	for i, st := range r.subs {
		if st == nil {
			continue
		}
		st.wake()
		select {
		case <-st.done:
		case <-dl.C:
			r.fail("not-closed", fmt.Sprintf("notification channel of subscriber %d was not closed within %v after cancel/stop", i, closeDeadline))
			dl.Reset(0)
		}
	}
	for _, st := range r.subs {
		if st == nil {
			continue
		}
		st.mu.Lock()
		st.obs.Got = append([]int64{}, st.got...)
		st.obs.Closed = st.closed
		h.Subs = append(h.Subs, *st.obs)
		st.mu.Unlock()
	}
	// h.Subs so far holds the failed registrations (appended in doSub);
	// keep script order.
	sortSubs(h)
	r.emitMu.Lock()
	h.Emitted = append([]int64{}, r.emitted...)
	r.emitMu.Unlock()
	r.snapMu.Lock()
	h.Snaps = append([]SubObs{}, r.snaps...)
	r.snapMu.Unlock()
	sort.Slice(h.Snaps, func(i, j int) bool {
		if h.Snaps[i].Script != h.Snaps[j].Script {
			return h.Snaps[i].Script < h.Snaps[j].Script
		}
		return len(h.Snaps[i].Got) < len(h.Snaps[j].Got)
	})
	r.failMu.Lock()
	defer r.failMu.Unlock()
	for _, f := range r.fails {
		h.Fails = append(h.Fails, f.Tag+": "+f.What)
	}
	return r.fails
}

func sortSubs(h *History) {
	out := make([]SubObs, len(h.Subs))
	for _, s := range h.Subs {
		out[s.Script] = s
	}
	h.Subs = out
}

// ---------------------------------------------------------------------
// Generators.

func pickMode(r *rand.Rand) string {
	switch x := r.Intn(10); {
	case x < 4:
		return "fast"
	case x < 7:
		return "slow"
	default:
		return "never"
	}
}

func pickBL(r *rand.Rand) int {
	switch x := r.Intn(10); {
	case x < 3:
		return 0
	case x < 6:
		return 1 + r.Intn(6)
	default:
		return 21 + r.Intn(30)
	}
}

func pickN(r *rand.Rand) int {
	switch x := r.Intn(10); {
	case x < 5:
		return 1 + r.Intn(5)
	case x < 8:
		return 6 + r.Intn(15)
	default:
		return 21 + r.Intn(30)
	}
}

func genHistory(r *rand.Rand, id int, thorough bool) History {
	h := History{ID: id}
	async := r.Intn(100) < 60
	malformed := r.Intn(100) < 25
	nsub := 0
	gateOK := true // false while an asynchronous emitter may be running
	// a group of 2-4 NewSubscription calls in progress at the same time
	addGroup := func() {
		k := 2 + r.Intn(3)
		op := Op{Kind: "osub"}
		switch x := r.Intn(10); {
		case x < 4:
			op.Pat = "first"
		case x < 8:
			op.Pat, op.Prog = "chain", r.Intn(2) == 0
		default:
			op.Pat = "free"
		}
		for i := 0; i < k; i++ {
			m := Member{BL: pickBL(r), Mode: pickMode(r)}
			if r.Intn(3) == 0 {
				m.Zero, m.BL = true, 0
			}
			if malformed && r.Intn(8) == 0 {
				m.Fail = true
			}
			op.Members = append(op.Members, m)
		}
		if r.Intn(10) < 4 {
			emits := false
			for j, n := 0, 1+r.Intn(2); j < n; j++ {
				at := 0
				if op.Pat == "chain" {
					at = r.Intn(k)
				}
				switch y := r.Intn(3); {
				case y == 1 && nsub > 0:
					op.Mid = append(op.Mid, MidAct{At: at, Kind: "cancel", Sub: r.Intn(nsub)})
				case y == 2 && op.Pat == "chain" && at >= 1:
					// a member that has (most likely) returned by then
					op.Mid = append(op.Mid, MidAct{At: at, Kind: "cancel", Sub: nsub + r.Intn(at)})
				default:
					if !emits {
						op.Mid = append(op.Mid, MidAct{At: at, Kind: "emit", N: 1 + r.Intn(3)})
						emits = true
					}
				}
			}
		}
		h.Ops = append(h.Ops, op)
		nsub += k
	}
	addSub := func() {
		if gateOK && nsub <= 5 && r.Intn(100) < 35 {
			addGroup()
			return
		}
		op := Op{Kind: "sub", BL: pickBL(r), Mode: pickMode(r)}
		if r.Intn(12) == 0 {
			op.Zero, op.BL = true, 0
		}
		if malformed && r.Intn(6) == 0 {
			op.Fail = true
		}
		if gateOK && r.Intn(5) < 2 {
			op.Gate = true
		}
		h.Ops = append(h.Ops, op)
		nsub++
	}
	racing := func() {
		switch x := r.Intn(10); {
		case x < 3 && nsub < 8:
			addSub()
		case x < 5:
			h.Ops = append(h.Ops, Op{Kind: "cancel", Sub: r.Intn(nsub)})
		case x < 7:
			h.Ops = append(h.Ops, Op{Kind: "acancel", Sub: r.Intn(nsub)})
		case x < 8:
			h.Ops = append(h.Ops, Op{Kind: "wake", Sub: r.Intn(nsub)})
		default:
			h.Ops = append(h.Ops, Op{Kind: "sleep", N: 20 + r.Intn(400)})
		}
	}
	for i, n := 0, 1+r.Intn(3); i < n; i++ {
		addSub()
	}
	steps := 5 + r.Intn(8)
	if thorough {
		steps += r.Intn(10)
	}
	stopped := false
	for s := 0; s < steps; s++ {
		x := r.Intn(100)
		switch {
		case x < 30:
			h.Ops = append(h.Ops, Op{Kind: "emit", N: pickN(r)})
		case x < 55 && async:
			h.Ops = append(h.Ops, Op{Kind: "aemit", N: pickN(r)})
			gateOK = false
			for k, n := 0, 1+r.Intn(3); k < n; k++ {
				racing()
			}
			gateOK = true // a gated sub joins the emitter first
			if r.Intn(3) > 0 {
				h.Ops = append(h.Ops, Op{Kind: "join"})
			}
		case x < 65 && nsub < 8:
			addSub()
		case x < 75:
			h.Ops = append(h.Ops, Op{Kind: "cancel", Sub: r.Intn(nsub)})
		case x < 82:
			h.Ops = append(h.Ops, Op{Kind: "wake", Sub: r.Intn(nsub)})
		case x < 92:
			h.Ops = append(h.Ops, Op{Kind: "sync"})
		case x < 96:
			h.Ops = append(h.Ops, Op{Kind: "sleep", N: 20 + r.Intn(400)})
		default:
			if malformed && !stopped {
				h.Ops = append(h.Ops, Op{Kind: "stop"})
				stopped = true
			} else {
				h.Ops = append(h.Ops, Op{Kind: "emit", N: pickN(r)})
			}
		}
	}
	// Ending.
	gateOK = false
	if !stopped {
		switch x := r.Intn(10); {
		case x < 4 || !async:
			if r.Intn(4) > 0 {
				for i := 0; i < nsub; i++ {
					if r.Intn(2) == 0 {
						h.Ops = append(h.Ops, Op{Kind: "wake", Sub: i})
					}
				}
				h.Ops = append(h.Ops, Op{Kind: "sync"})
			}
			h.Ops = append(h.Ops, Op{Kind: "stop"})
		case x < 7:
			h.Ops = append(h.Ops, Op{Kind: "aemit", N: 10 + r.Intn(30)}, Op{Kind: "sleep", N: r.Intn(300)}, Op{Kind: "stop"})
		default:
			h.Ops = append(h.Ops, Op{Kind: "aemit", N: 10 + r.Intn(30)}, Op{Kind: "sleep", N: r.Intn(200)}, Op{Kind: "astop"})
			for k, n := 0, 1+r.Intn(3); k < n; k++ {
				racing()
			}
			h.Ops = append(h.Ops, Op{Kind: "join"})
		}
	}
	if malformed {
		// operations after shutdown and repeated operations
		for k, n := 0, 1+r.Intn(4); k < n; k++ {
			switch r.Intn(5) {
			case 0:
				h.Ops = append(h.Ops, Op{Kind: "stop"})
			case 1:
				h.Ops = append(h.Ops, Op{Kind: "cancel", Sub: r.Intn(nsub)})
			case 2:
				addSub()
			case 3:
				h.Ops = append(h.Ops, Op{Kind: "emit", N: 1})
			default:
				h.Ops = append(h.Ops, Op{Kind: "cancel", Sub: r.Intn(nsub)}, Op{Kind: "cancel", Sub: r.Intn(nsub)})
			}
		}
	}
	return h
}

// corpus: fixed regression histories, run first.
func corpus() []History {
	var hs []History
	// Overlapping NewSubscription calls: every call gets its own identity.
	// two clients subscribe at the same moment (the second while the handler
	// reads the first one's backlog): both see every event, Cancel of the
	// first closes only the first, Stop closes the second
	hs = append(hs, History{Ops: []Op{
		{Kind: "osub", Pat: "first", Members: []Member{{Mode: "fast", Zero: true}, {Mode: "fast", Zero: true}}},
		{Kind: "emit", N: 5}, {Kind: "sync"}, {Kind: "cancel", Sub: 0}, {Kind: "emit", N: 1}, {Kind: "sync"}, {Kind: "stop"}}})
	// four calls, the handler held in every backlog request in turn, mixed
	// start heights and readers, then more events than the buffers hold
	hs = append(hs, History{Ops: []Op{
		{Kind: "sub", BL: 2, Mode: "fast"}, {Kind: "emit", N: 4},
		{Kind: "osub", Pat: "chain", Members: []Member{{Mode: "fast", Zero: true}, {BL: 3, Mode: "slow"}, {BL: 25, Mode: "never"}, {Mode: "fast", Zero: true}}},
		{Kind: "emit", N: 30}, {Kind: "sync"}, {Kind: "cancel", Sub: 2}, {Kind: "cancel", Sub: 4}, {Kind: "emit", N: 3},
		{Kind: "wake", Sub: 3}, {Kind: "sync"}, {Kind: "stop"}}})
	// three calls issued one after the other while the handler is held in
	// the previous one's request; an older subscriber and the first member
	// are cancelled and an event is offered in between
	hs = append(hs, History{Ops: []Op{
		{Kind: "sub", BL: 1, Mode: "fast"}, {Kind: "sub", Mode: "slow", Zero: true}, {Kind: "emit", N: 2},
		{Kind: "osub", Pat: "chain", Prog: true, Members: []Member{{BL: 2, Mode: "fast"}, {Mode: "fast", Zero: true}, {BL: 22, Mode: "slow"}},
			Mid: []MidAct{{At: 0, Kind: "cancel", Sub: 1}, {At: 1, Kind: "emit", N: 1}, {At: 2, Kind: "cancel", Sub: 2}}},
		{Kind: "join"}, {Kind: "emit", N: 25}, {Kind: "sync"}, {Kind: "cancel", Sub: 3}, {Kind: "sync"}, {Kind: "stop"}}})
	// no gating at all: four goroutines subscribe at the same moment
	hs = append(hs, History{Ops: []Op{
		{Kind: "osub", Pat: "free", Members: []Member{{Mode: "fast", Zero: true}, {BL: 1, Mode: "fast"}, {Mode: "fast", Zero: true}, {BL: 2, Mode: "fast"}}},
		{Kind: "emit", N: 22}, {Kind: "sync"}, {Kind: "cancel", Sub: 1}, {Kind: "cancel", Sub: 2}, {Kind: "sync"}, {Kind: "stop"}}})
	// a never-reading subscriber must not delay a fast one over 60 events,
	// then wakes up and must still receive all of them.
	hs = append(hs, History{Ops: []Op{
		{Kind: "sub", BL: 0, Mode: "never"}, {Kind: "sub", BL: 3, Mode: "fast"},
		{Kind: "emit", N: 60}, {Kind: "sync"}, {Kind: "wake", Sub: 0}, {Kind: "sync"}, {Kind: "stop"}}})
	// 1: backlog longer than both buffers, slow reader, live events behind it.
	hs = append(hs, History{Ops: []Op{
		{Kind: "emit", N: 5}, {Kind: "sub", BL: 45, Mode: "slow"}, {Kind: "emit", N: 30},
		{Kind: "sub", BL: 25, Mode: "never"}, {Kind: "emit", N: 25}, {Kind: "sync"},
		{Kind: "wake", Sub: 1}, {Kind: "sync"}, {Kind: "stop"}}})
	// 2: cancel of one subscriber while events are flowing to three.
	hs = append(hs, History{Ops: []Op{
		{Kind: "sub", BL: 2, Mode: "fast"}, {Kind: "sub", BL: 0, Mode: "slow"}, {Kind: "sub", BL: 22, Mode: "never"},
		{Kind: "aemit", N: 50}, {Kind: "sleep", N: 150}, {Kind: "cancel", Sub: 1}, {Kind: "acancel", Sub: 2},
		{Kind: "join"}, {Kind: "sync"}, {Kind: "stop"}}})
	// 3..: Stop while events are flowing and a registration is in progress.
	for k := 0; k < 6; k++ {
		hs = append(hs, History{Ops: []Op{
			{Kind: "sub", BL: 0, Mode: "fast"}, {Kind: "sub", BL: 1, Mode: "fast"}, {Kind: "sub", BL: 0, Mode: "slow"},
			{Kind: "emit", N: 3}, {Kind: "aemit", N: 40}, {Kind: "sleep", N: 30 * k}, {Kind: "astop"},
			{Kind: "sub", BL: 30, Mode: "fast"}, {Kind: "join"}}})
	}
	// Stop while the handler is busy with a (slow) backlog request and the
	// source has the next event ready: shutdown window of the handler.
	for k := 0; k < 40; k++ {
		hs = append(hs, History{Ops: []Op{
			{Kind: "sub", BL: 0, Mode: "fast"}, {Kind: "sub", BL: 1, Mode: "fast"}, {Kind: "sub", BL: 0, Mode: "fast"},
			{Kind: "emit", N: 2}, {Kind: "aemit", N: 12}, {Kind: "astop", DelayUs: 5 * k},
			{Kind: "sub", BL: 300, Mode: "fast"}, {Kind: "join"}}})
	}
	// the chain moves while a registration is fetching its backlog: the
	// block must reach the new subscriber live, after the backlog
	hs = append(hs, History{Ops: []Op{
		{Kind: "sub", BL: 2, Mode: "fast"}, {Kind: "emit", N: 15},
		{Kind: "sub", BL: 5, Mode: "fast", Gate: true}, {Kind: "emit", N: 3},
		{Kind: "sub", BL: 25, Mode: "slow", Gate: true}, {Kind: "sub", Zero: true, Mode: "never", Gate: true},
		{Kind: "emit", N: 30}, {Kind: "wake", Sub: 3}, {Kind: "sync"}, {Kind: "stop"}}})
	// registration failures and use after stop
	hs = append(hs, History{Ops: []Op{
		{Kind: "sub", BL: 4, Mode: "fast", Fail: true}, {Kind: "sub", Zero: true, Mode: "fast"}, {Kind: "emit", N: 25},
		{Kind: "cancel", Sub: 0}, {Kind: "cancel", Sub: 1}, {Kind: "cancel", Sub: 1}, {Kind: "emit", N: 3},
		{Kind: "sub", BL: 2, Mode: "fast"}, {Kind: "sync"}, {Kind: "stop"}, {Kind: "stop"},
		{Kind: "sub", BL: 2, Mode: "fast"}, {Kind: "emit", N: 1}, {Kind: "cancel", Sub: 2}}})
	for i := range hs {
		hs[i].ID = i
	}
	return hs
}

// stressHistory: Stop racing with a running emitter and three prompt readers.
func stressHistory(t int) History {
	return History{ID: 1000000 + t, Ops: []Op{
		{Kind: "sub", Mode: "fast"}, {Kind: "sub", BL: 2, Mode: "fast"}, {Kind: "sub", Mode: "fast"},
		{Kind: "aemit", N: 400}, {Kind: "sleep", N: 30 + t%170}, {Kind: "astop"}, {Kind: "join"}}}
}

// suspicious mirrors the prefix part of Spec.admissible.
func suspicious(h *History) bool {
	for _, s := range h.Subs {
		if !s.OK {
			continue
		}
		ok := false
		for r := s.RLo; r <= s.RHi && !ok; r++ {
			exp := append(append([]int64{}, s.Backlog...), h.Emitted[min64(r, int64(len(h.Emitted))):]...)
			if len(s.Got) <= len(exp) {
				ok = true
				for i := range s.Got {
					if s.Got[i] != exp[i] {
						ok = false
						break
					}
				}
			}
		}
		if !ok || !s.Closed {
			return true
		}
	}
	return false
}

func min64(a, b int64) int64 {
	if a < b {
		return a
	}
	return b
}

// ---------------------------------------------------------------------
// Output.

// zlist prints a list as runs of consecutive integers (Replay.unruns).
func zlist(xs []int64) string {
	var it []string
	for i := 0; i < len(xs); {
		j := i + 1
		for j < len(xs) && xs[j] == xs[j-1]+1 {
			j++
		}
		it = append(it, c.Pair(c.Z(xs[i]), c.Z(int64(j-i))))
		i = j
	}
	return "(unruns " + c.List(it) + ")"
}

func obsTerm(s *SubObs) string {
	return c.App("mkObs", zlist(s.Backlog), c.Z(s.RLo), c.Z(s.RHi), zlist(s.Got),
		c.Bool(s.Closed), c.Bool(s.Ended), c.Z(s.MustUpto), c.Z(s.EHi))
}

func caseTerm(h *History) string {
	// successful subscriptions in the order the handler registered them
	var reg []*SubObs
	for i := range h.Subs {
		if h.Subs[i].OK {
			reg = append(reg, &h.Subs[i])
		}
	}
	sort.SliceStable(reg, func(i, j int) bool { return reg[i].Reg < reg[j].Reg })
	var subs, snaps []string
	for _, s := range reg {
		subs = append(subs, obsTerm(s))
	}
	for i := range h.Snaps {
		snaps = append(snaps, obsTerm(&h.Snaps[i]))
	}
	acts := "[]"
	if h.Det {
		acts = c.List(h.Acts)
	}
	return c.Pair(c.Z(int64(h.ID)), c.App("mkCase", zlist(h.Emitted), c.Bool(h.Det), acts, c.List(subs), c.List(snaps)))
}

func signature(h *History) string {
	var sb strings.Builder
	for _, op := range h.Ops {
		switch op.Kind {
		case "emit":
			if op.N > 20 {
				sb.WriteString("E")
			} else {
				sb.WriteString("e")
			}
		case "aemit":
			sb.WriteString("a")
		case "join":
			sb.WriteString("j")
		case "sub":
			sb.WriteString(map[string]string{"fast": "F", "slow": "S", "never": "N"}[op.Mode])
			if op.Gate {
				sb.WriteString("g")
			}
		case "osub":
			sb.WriteString("O" + op.Pat[:2])
			if op.Prog {
				sb.WriteString("p")
			}
			for _, m := range op.Members {
				sb.WriteString(map[string]string{"fast": "F", "slow": "S", "never": "N"}[m.Mode])
				if m.Zero {
					sb.WriteString("0")
				}
			}
			for _, ma := range op.Mid {
				sb.WriteString("m" + ma.Kind[:1])
			}
			sb.WriteString(".")
		case "cancel":
			sb.WriteString("c")
		case "acancel":
			sb.WriteString("C")
		case "wake":
			sb.WriteString("w")
		case "sync":
			sb.WriteString("y")
		case "stop":
			sb.WriteString("x")
		case "astop":
			sb.WriteString("X")
		case "sleep":
			sb.WriteString("z")
		}
	}
	return sb.String()
}

// nontrivial: at least two registered subscribers, one of which was owed more
// than the 20 slots of its channel (backlog + live events), i.e. the
// per-subscriber queue mattered.
func nontrivial(h *History) bool {
	n, big := 0, false
	for _, s := range h.Subs {
		if !s.OK {
			continue
		}
		n++
		owed := int64(len(s.Backlog)) + int64(len(h.Emitted)) - s.RHi
		if owed > 20 || len(s.Got) > 20 {
			big = true
		}
	}
	return n >= 2 && big
}

func main() {
	a := c.ParseArgs()
	rep := c.NewReport("C11", a)
	var hs []History
	if a.Replay != "" {
		var raw struct {
			History *History `json:"history"`
		}
		c.ReadJSON(a.Replay, &raw)
		var h History
		if raw.History != nil {
			h = *raw.History
		} else {
			c.ReadJSON(a.Replay, &h)
		}
		// a replay of a racy history is repeated to give the race a chance
		for i := 0; i < 64; i++ {
			hh := h
			hh.ID = i
			hs = append(hs, hh)
		}
	} else {
		hs = corpus()
		n := 260
		if a.Tier == "thorough" {
			n = 6000
		}
		for i := len(hs); i < n; i++ {
			hs = append(hs, genHistory(c.Rng(a.Seed, i), i, a.Tier == "thorough"))
		}
	}

	var wg sync.WaitGroup
	var mu sync.Mutex
	sem := make(chan struct{}, a.Workers)

	// Stress family: Stop while three prompt readers are being fed, very many
	// times.  All trials run on the real code; only the first few and those
	// that a Go mirror of the prefix check finds suspicious are handed to Coq
	// (a pure size filter: the acceptor in Coq decides).
	nstress := 0
	if a.Replay == "" {
		nstress = 40000
		if a.Tier == "thorough" {
			nstress = 400000
		}
	}
	var kept []History
	keptFails := map[int][]c.ImplFailure{}
	for t := 0; t < nstress; t++ {
		wg.Add(1)
		sem <- struct{}{}
		go func(t int) {
			defer wg.Done()
			defer func() { <-sem }()
			h := stressHistory(t)
			fails := run(&h)
			if t < 8 || len(fails) > 0 || suspicious(&h) {
				mu.Lock()
				kept = append(kept, h)
				keptFails[h.ID] = fails
				mu.Unlock()
			}
		}(t)
	}
	wg.Wait()
	sort.Slice(kept, func(i, j int) bool { return kept[i].ID < kept[j].ID })
	for i := range kept {
		for _, f := range keptFails[kept[i].ID] {
			f.Case = fmt.Sprint(len(hs) + i)
			rep.ImplFailures = append(rep.ImplFailures, f)
		}
		kept[i].ID = len(hs) + i
	}
	rep.Histogram["stress-trials-run"] = nstress
	rep.Histogram["stress-trials-kept"] = len(kept)

	for i := range hs {
		wg.Add(1)
		sem <- struct{}{}
		go func(h *History) {
			defer wg.Done()
			defer func() { <-sem }()
			fails := run(h)
			mu.Lock()
			rep.ImplFailures = append(rep.ImplFailures, fails...)
			mu.Unlock()
		}(&hs[i])
	}
	wg.Wait()
	hs = append(hs, kept...)

	header := "From Coq Require Import ZArith List.\nFrom Verif Require Import C11.Model C11.Spec C11.Replay.\nImport ListNotations.\nOpen Scope Z_scope.\n"
	footer := "Definition R := Eval vm_compute in (run_cases cases).\nSet Printing Width 1000000.\nSet Printing Depth 1000000.\nPrint R.\n"
	const shard = 150
	sigs, nontriv := c.Signatures{}, c.Signatures{}
	for s := 0; s*shard < len(hs); s++ {
		var sb strings.Builder
		sb.WriteString(header)
		sb.WriteString("Definition cases : list (Z * case) := [\n")
		for i := s * shard; i < len(hs) && i < (s+1)*shard; i++ {
			if i > s*shard {
				sb.WriteString(";\n")
			}
			sb.WriteString(caseTerm(&hs[i]))
		}
		sb.WriteString("].\n")
		sb.WriteString(footer)
		name := "cases.v"
		if len(hs) > shard {
			name = fmt.Sprintf("cases_%d.v", s)
		}
		c.WriteFile(filepath.Join(a.Out, name), sb.String())
	}
	for i := range hs {
		h := &hs[i]
		sig := signature(h)
		sigs.Add(sig)
		if nontrivial(h) {
			nontriv.Add(sig)
		}
		for _, op := range h.Ops {
			rep.Histogram["op:"+op.Kind]++
		}
		for _, s := range h.Subs {
			if !s.OK {
				rep.Histogram["sub:registration-failed"]++
				continue
			}
			rep.Histogram["sub:"+s.Mode]++
			switch n := len(s.Got); {
			case n == 0:
				rep.Histogram["received:0"]++
			case n <= 20:
				rep.Histogram["received:1-20"]++
			case n <= 40:
				rep.Histogram["received:21-40"]++
			default:
				rep.Histogram["received:>40"]++
			}
			if s.MustUpto > 0 {
				rep.Histogram["sub:checked-complete-at-sync"]++
			}
		}
		if h.Det {
			rep.Histogram["case:deterministic"]++
		} else {
			rep.Histogram["case:racing"]++
		}
		rep.Histogram["events-emitted"] += len(h.Emitted)
		for _, op := range h.Ops {
			if op.Kind == "sub" && op.Gate {
				rep.Histogram["sub:gated-backlog-request"]++
			}
			if op.Kind == "osub" {
				rep.Histogram["overlap:groups:"+op.Pat]++
				rep.Histogram["overlap:calls-in-progress-together"] += len(op.Members)
				if len(op.Mid) > 0 {
					rep.Histogram["overlap:groups-with-cancel-or-emit-in-between"]++
				}
			}
		}
		rep.Histogram["snapshots-at-close"] += len(h.Snaps)
		path := filepath.Join(a.Out, fmt.Sprintf("hist-%d.json", h.ID))
		c.WriteJSON(path, h)
		rep.Cases[fmt.Sprint(h.ID)] = path
	}
	rep.Histogram["distinct_signatures"] = len(sigs)
	rep.Evaluations = len(hs)
	rep.DistinctNontrivial = len(nontriv)
	rep.Rule = "histories of subscribe(backlog, fast/slow/never reader) / groups of 2-4 overlapping subscribe calls (handler held inside the backlog request of one while the others are issued; cancel or emission in between) / emit / cancel / wake / sync / stop, with asynchronous emitters racing against subscribe, cancel and stop, executed on the real blockntfns.SubscriptionManager with a scripted NotificationSource; a history is non-trivial when at least two subscribers registered and one of them was owed or received more than 20 notifications (channel capacity); distinct = distinct op-kind signature"
	for i := 0; i < len(hs) && i < 3; i++ {
		rep.Samples = append(rep.Samples, hs[i])
	}
	rep.Write(a.Out)
}
