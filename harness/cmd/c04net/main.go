// Harness for the END-TO-END half of C04: "with one honest peer the client
// converges on the true best chain".  A full neutrino.ChainService runs
// against one honest scripted node and 0-3 misbehaving ones (internal/netsim)
// while the honest chain grows and reorganises.  Observables: every sampled
// best block (20 ms polling) with its filter header, and whether the client
// reports the final honest tip with the matching filter header by a deadline.
// The Coq monitor is C04net/Replay.v (safety at every sample; convergence
// unless the scenario contains the known root cause F15, tag 15).
//
// Not registered as a property of its own: the coordinator merges it into
// the C04 check.
package main

import (
	"fmt"
	"math/rand"
	"os"
	"path/filepath"
	"reflect"
	"strings"
	"sync"
	"time"

	"github.com/btcsuite/btcd/chaincfg/v2"

	c "verifharness/internal/common"
	ns "verifharness/internal/netsim"
	qs "verifharness/internal/qskel"
)

// Hist is a scenario plus its observations.
type Hist struct {
	ns.Scenario
	Kinds []string `json:"kinds"` // behaviour names of nodes 2.., for the histogram
	// Net: "" = simnet; "regtest" scenarios run in a second batch (the chain
	// parameters are process-wide in netsim).
	Net string     `json:"net,omitempty"`
	Res *ns.Result `json:"result,omitempty"`
}

type mis struct {
	name string
	long bool // needs a chain with filter checkpoints
	mk   func(r *rand.Rand, tip int) ns.NodeSpec
}

func main_(b ns.Behaviour) ns.NodeSpec { return ns.NodeSpec{B: b, Chain: "main"} }

var misList = []mis{
	{"hdr-badpow", false, func(r *rand.Rand, tip int) ns.NodeSpec {
		return main_(ns.Behaviour{Hdr: &ns.HdrLie{Kind: "badpow", Height: 1 + r.Intn(tip)}})
	}},
	{"hdr-wrongprev", false, func(r *rand.Rand, tip int) ns.NodeSpec {
		return main_(ns.Behaviour{Hdr: &ns.HdrLie{Kind: "wrongprev", Height: 2 + r.Intn(tip-1)}})
	}},
	{"lighter-fork", false, func(r *rand.Rand, tip int) ns.NodeSpec {
		return ns.NodeSpec{Chain: "lighter", LighterDepth: 2 + r.Intn(10)}
	}},
	{"filter-liar-consistent", false, func(r *rand.Rand, tip int) ns.NodeSpec {
		return main_(ns.Behaviour{Filter: &ns.FilterLie{Height: 1 + r.Intn(tip), InCheckpt: true, InHeaders: true, InFilter: true}})
	}},
	{"filter-liar-unprovable", false, func(r *rand.Rand, tip int) ns.NodeSpec {
		return main_(ns.Behaviour{Filter: &ns.FilterLie{Height: 1 + r.Intn(tip), InCheckpt: true, InHeaders: true, InFilter: true}})
	}},
	{"filter-liar-headers", false, func(r *rand.Rand, tip int) ns.NodeSpec {
		return main_(ns.Behaviour{Filter: &ns.FilterLie{Height: 1 + r.Intn(tip), InCheckpt: true, InHeaders: true}})
	}},
	{"cfilter-garbage", false, func(r *rand.Rand, tip int) ns.NodeSpec {
		return main_(ns.Behaviour{CFilterGarbage: 1 + r.Intn(tip)})
	}},
	{"block-liar", false, func(r *rand.Rand, tip int) ns.NodeSpec {
		return main_(ns.Behaviour{Block: &ns.BlockLie{Kind: []string{"mutatetx", "badwitness"}[r.Intn(2)], Height: -1}})
	}},
	{"silent-headers", false, func(r *rand.Rand, tip int) ns.NodeSpec {
		return main_(ns.Behaviour{Silent: []string{"getheaders"}})
	}},
	{"silent-cf", false, func(r *rand.Rand, tip int) ns.NodeSpec {
		return main_(ns.Behaviour{Silent: []string{"getcfheaders", "getcfcheckpt", "getcfilters"}})
	}},
	{"silent-all", false, func(r *rand.Rand, tip int) ns.NodeSpec {
		return main_(ns.Behaviour{Silent: []string{"getheaders", "getcfheaders", "getcfcheckpt", "getcfilters", "getdata", "inv"}})
	}},
	{"disconnecting", false, func(r *rand.Rand, tip int) ns.NodeSpec {
		return main_(ns.Behaviour{DisconnectOn: []string{[]string{"getheaders", "getcfheaders", "getcfcheckpt"}[r.Intn(3)]}})
	}},
	{"no-cf-bit", false, func(r *rand.Rand, tip int) ns.NodeSpec { return main_(ns.Behaviour{NoCF: true}) }},
	{"no-witness-bit", false, func(r *rand.Rand, tip int) ns.NodeSpec { return main_(ns.Behaviour{NoWitness: true}) }},
	{"refuses", false, func(r *rand.Rand, tip int) ns.NodeSpec { return main_(ns.Behaviour{RefuseDial: true}) }},
	// long-chain behaviours
	{"cp-only-liar", true, func(r *rand.Rand, tip int) ns.NodeSpec {
		return main_(ns.Behaviour{Filter: &ns.FilterLie{Height: 1 + r.Intn(1000), InCheckpt: true}})
	}},
	{"cp-liar-consistent", true, func(r *rand.Rand, tip int) ns.NodeSpec {
		return main_(ns.Behaviour{Filter: &ns.FilterLie{Height: 1 + r.Intn(1000), InCheckpt: true, InHeaders: true, InFilter: true}})
	}},
	{"silent-checkpt", true, func(r *rand.Rand, tip int) ns.NodeSpec {
		return main_(ns.Behaviour{Silent: []string{"getcfcheckpt"}})
	}},
}

var quick = true

func gen(r *rand.Rand, id int, seed, tipUnix int64, long bool, nmis int, pick []int) Hist {
	h := Hist{}
	h.ID, h.Seed, h.TipUnix = id, seed, tipUnix
	h.ChainLen = 120 + 40*r.Intn(4)
	if long {
		h.ChainLen = 1030 + 10*r.Intn(8)
	}
	h.Nodes = []ns.NodeSpec{{Chain: "main"}}
	for k := 0; k < nmis; k++ {
		var m mis
		if k < len(pick) {
			m = misList[pick[k]]
		} else {
			for {
				m = misList[r.Intn(len(misList))]
				if m.long && !long {
					continue
				}
				if m.name == "filter-liar-unprovable" {
					continue // corpus only (observation, tag 23)
				}
				if quick && (m.name == "silent-headers" || m.name == "silent-all") {
					continue
				}
				break
			}
		}
		h.Nodes = append(h.Nodes, m.mk(r, h.ChainLen))
		h.Kinds = append(h.Kinds, m.name)
	}
	// Filter lies are told about blocks with transactions besides the
	// coinbase, where the block refutes them ("-unprovable": about a
	// coinbase-only block, where neutrino's block check cannot).
	base := ns.CachedChain(seed, h.ChainLen, time.Unix(tipUnix, 0), 0.3)
	for k := range h.Nodes {
		if fl := h.Nodes[k].B.Filter; fl != nil {
			max := h.ChainLen
			if long && fl.Height <= 1000 {
				max = 1000
			}
			unprov := k >= 1 && k-1 < len(h.Kinds) && strings.HasSuffix(h.Kinds[k-1], "-unprovable")
			var cand []int
			for _, x := range base.HeightsWithTxs(!unprov) {
				if x <= max {
					cand = append(cand, x)
				}
			}
			if len(cand) > 0 {
				fl.Height = cand[r.Intn(len(cand))]
			}
		}
	}
	// the honest node is not always the first to be dialled
	if len(h.Nodes) > 1 && r.Intn(2) == 0 {
		j := 1 + r.Intn(len(h.Nodes)-1)
		h.Nodes[0], h.Nodes[j] = h.Nodes[j], h.Nodes[0]
		h.Kinds = append(h.Kinds, fmt.Sprintf("honest-at-%d", j+1))
	}
	t := 400 + r.Intn(400)
	nev := r.Intn(4)
	for k := 0; k < nev; k++ {
		if r.Intn(3) == 0 {
			h.Events = append(h.Events, ns.Event{AtMs: t, Kind: "reorg", Depth: 1 + r.Intn(4), N: 1 + r.Intn(3)})
		} else {
			h.Events = append(h.Events, ns.Event{AtMs: t, Kind: "extend", N: 1 + r.Intn(4)})
		}
		t += 50 + r.Intn(900)
	}
	h.DeadlineMs = 85000
	h.StopWhenConverged = true
	h.MinRunMs = t + 300
	// the honest chain keeps growing: a block every 20 s (a broadcast
	// query round with one unresponsive peer takes QueryTimeout = 10 s)
	h.GrowEveryMs, h.GrowCount = 20000, 4
	for _, n := range h.Nodes {
		// a sync peer that never answers getheaders is only replaced when
		// btcd's stall detection disconnects it (observed: ~105 s)
		for _, x := range n.B.Silent {
			if x == "getheaders" {
				h.DeadlineMs, h.GrowCount = 190000, 9
			}
		}
		// the checkpoint-only liar (F15) stalls filter-header sync for
		// good; 30 s are enough to see it
		if fl := n.B.Filter; fl != nil && fl.InCheckpt && !fl.InHeaders {
			h.DeadlineMs, h.GrowCount = 30000, 1
		}
	}
	return h
}

// genLifecycle: "a candidate leaves, then the sync peer leaves".  P1 completes
// its handshake first and becomes the sync peer; P2 (honest behaviour, same
// chain) and then the honest node H become sync candidates, in this order;
// further misbehaving nodes come after H.  P2 goes away for good while it is
// not the sync peer, later P1 goes away for good.  The client has to pick a
// LIVE candidate and converge on H's chain.  With p1 = "silent-headers" the
// client is still at the genesis block when P1 leaves.
func genLifecycle(r *rand.Rand, id int, seed, tipUnix int64, p1 string, nextra int) Hist {
	h := Hist{}
	h.ID, h.Seed, h.TipUnix = id, seed, tipUnix
	h.ChainLen = 120 + 40*r.Intn(4)
	first := misList[idx(p1)].mk(r, h.ChainLen)
	p2 := ns.NodeSpec{Chain: "main"}
	p2.B.HandshakeDelayMs = 350 + r.Intn(100)
	hn := ns.NodeSpec{Chain: "main"}
	hn.B.HandshakeDelayMs = 750 + r.Intn(100)
	h.Nodes = []ns.NodeSpec{first, p2, hn}
	h.Kinds = []string{p1, "candidate-leaves-then-sync-peer", "honest-at-3"}
	for k := 0; k < nextra; k++ {
		var m mis
		for {
			m = misList[r.Intn(len(misList))]
			if m.long || strings.HasPrefix(m.name, "silent") || m.name == "filter-liar-unprovable" || m.name == "lighter-fork" {
				continue
			}
			break
		}
		n := m.mk(r, h.ChainLen)
		n.B.HandshakeDelayMs = 1100 + 100*k
		h.Nodes = append(h.Nodes, n)
		h.Kinds = append(h.Kinds, m.name)
	}
	t2 := 1500 + r.Intn(400)
	t1 := t2 + 700 + r.Intn(600)
	h.Events = []ns.Event{{AtMs: t2, Kind: "leave", Node: 2}, {AtMs: t1, Kind: "leave", Node: 1}}
	if r.Intn(2) == 0 {
		h.Events = append(h.Events, ns.Event{AtMs: t1 + 300 + r.Intn(500), Kind: "extend", N: 1 + r.Intn(3)})
	}
	h.DeadlineMs = 45000
	h.StopWhenConverged = true
	h.MinRunMs = t1 + 1500
	h.GrowEveryMs, h.GrowCount = 20000, 2
	return h
}

// genHiccup: the honest node closes its first k connections during the
// version exchange (it is restarting / has no free slot) and is honest from
// then on; alone or next to misbehaving nodes.  The client dials persistent
// peers again and has to converge (seeded change C04-8: a persistent peer
// that never completed a handshake was not retried).
func genHiccup(r *rand.Rand, id int, seed, tipUnix int64, k, nmis int, pick []int) Hist {
	h := gen(r, id, seed, tipUnix, false, nmis, pick)
	// Quick tier: no node that lies in its cfheaders next to the delayed
	// honest node - that combination reproduces the open finding F-C04-3
	// (first cfheaders round answered by liars only) every time and runs to
	// the 85 s deadline; the thorough tier keeps it.
	for try := 0; quick && pick == nil && try < 20; try++ {
		liar := false
		for _, n := range h.Nodes {
			if n.B.Filter != nil && n.B.Filter.InHeaders {
				liar = true
			}
		}
		if !liar {
			break
		}
		h = gen(r, id, seed, tipUnix, false, nmis, pick)
	}
	for i := range h.Nodes {
		n := &h.Nodes[i]
		if n.Chain == "main" && reflect.DeepEqual(n.B, ns.Behaviour{}) {
			n.B.DropHandshakes = k
			break
		}
	}
	h.Kinds = append(h.Kinds, fmt.Sprintf("handshake-hiccup-%d", k))
	// connection retries after 0.4 s, 0.8 s, ... instead of 5 s, 10 s, ...
	h.RetryMs = 400
	return h
}

// genDeepReorg: the honest chain is LONGER than one headers message (2000):
// the client syncs it (two getheaders rounds, filter checkpoints), then the
// honest side reorganises its last d blocks to a heavier branch and announces
// the new tip by inv.  The scripted node answers getheaders as a real node
// does (first locator hash on its best chain, else from the genesis block, at
// most 2000 headers), so the client finds the fork only if its locator
// reaches below its own tip (seeded change C04 round 7: locator = tip only).
func genDeepReorg(r *rand.Rand, id int, seed, tipUnix int64, chainLen, depth int, second string) Hist {
	h := Hist{}
	h.ID, h.Seed, h.TipUnix = id, seed, tipUnix
	h.ChainLen = chainLen
	h.Nodes = []ns.NodeSpec{{Chain: "main"}}
	h.Kinds = []string{fmt.Sprintf("long-chain-reorg-%d", depth)}
	h.Net = "regtest" // on simnet the client asks for more headers after EVERY headers message
	if second != "" {
		h.Nodes = append(h.Nodes, misList[idx(second)].mk(r, chainLen))
		h.Kinds = append(h.Kinds, second)
	}
	t := 3500 + r.Intn(500)
	h.Events = []ns.Event{{AtMs: t, Kind: "reorg", Depth: depth, N: 1 + r.Intn(3)}}
	if r.Intn(2) == 0 {
		h.Events = append(h.Events, ns.Event{AtMs: t + 400 + r.Intn(400), Kind: "extend", N: 1 + r.Intn(2)})
	}
	h.DeadlineMs = 40000
	h.StopWhenConverged = true
	h.MinRunMs = h.Events[len(h.Events)-1].AtMs + 300
	h.GrowEveryMs, h.GrowCount = 20000, 1
	return h
}

func idx(name string) int {
	for i, m := range misList {
		if m.name == name {
			return i
		}
	}
	panic(name)
}

func base(h *Hist) *ns.Chain {
	return ns.CachedChain(h.Seed, h.ChainLen, time.Unix(h.TipUnix, 0), 0.3)
}

func caseTerm(h *Hist) string {
	res := h.Res
	var lies, samples, valid []string
	for _, n := range h.Nodes {
		if fl := n.B.Filter; fl != nil {
			flags := int64(0)
			if fl.InCheckpt {
				flags |= 1
			}
			if fl.InHeaders {
				flags |= 2
			}
			if fl.InFilter {
				flags |= 4
			}
			if len(base(h).Blocks[fl.Height].Transactions) == 1 {
				flags |= 8 // about a coinbase-only block
			}
			lies = append(lies, fmt.Sprintf("(%d, %d)", flags, fl.Height))
		}
	}
	for _, s := range res.Samples {
		samples = append(samples, fmt.Sprintf("(%s, %d, %d, %s)", c.Z(int64(s.Height)), s.Hash, s.FHdr, c.Bool(s.FHdrRead)))
	}
	for _, v := range res.Valid {
		valid = append(valid, fmt.Sprintf("(%d, %d, %d)", v.Height, v.Hash, v.FHdr))
	}
	// root-cause observables: a node that never answers getheaders; the
	// header tip and the honest node's ban flag at the last sample
	silentHdr, silentConn, lighter, honest := false, false, false, -1
	leaves := map[int]bool{}
	for _, e := range h.Events {
		if e.Kind == "leave" {
			leaves[e.Node-1] = true
		}
	}
	for i, n := range h.Nodes {
		for _, x := range n.B.Silent {
			if x == "getheaders" {
				silentHdr = true
				if i < len(res.Final.Connected) && res.Final.Connected[i] {
					silentConn = true
				}
			}
		}
		if n.Chain == "lighter" {
			lighter = true
		}
		// the honest node: follows the main chain, default behaviour (a
		// handshake delay only fixes the connection order, dropped first
		// handshakes are a connection hiccup), stays
		plain := n.B
		plain.HandshakeDelayMs, plain.DropHandshakes = 0, 0
		if honest < 0 && n.Chain == "main" && !leaves[i] && reflect.DeepEqual(plain, ns.Behaviour{}) {
			honest = i
		}
	}
	honestBanned := honest >= 0 && honest < len(res.Final.Banned) && res.Final.Banned[honest]
	return fmt.Sprintf("(%d, mkNCase %d %s %s\n  %s\n  %s %s %s %s %s %d %s %s)", h.ID, h.ChainLen, c.Bool(h.GrowCount > 0), c.List(lies),
		c.List(samples), c.List(valid), c.Bool(res.Converged), c.Bool(silentHdr), c.Z(int64(res.Final.HdrTip)), c.Bool(honestBanned), res.FinalTip,
		c.Bool(silentConn), c.Bool(lighter))
}

func bestBlockTable(out string) []string {
	var rows []string
	dir, err := os.MkdirTemp(out, "bb")
	if err != nil {
		panic(err)
	}
	defer os.RemoveAll(dir)
	r := rand.New(rand.NewSource(4))
	for n := 0; n <= 5; n++ {
		for f := 0; f <= n; f++ {
			ch := qs.BuildChain(r, make([]qs.BlockSpec, n), f, nil)
			d := filepath.Join(dir, fmt.Sprintf("t%d_%d", n, f))
			qs.MakeTemplate(d, ch)
			e := qs.Open(d, qs.EnvConfig{})
			h, idx := int64(-1), int64(-1)
			if bs, err := e.CS.BestBlock(); err == nil {
				h = int64(bs.Height)
				for i, x := range ch.Hashes {
					if x == bs.Hash {
						idx = int64(i)
					}
				}
			}
			e.Close()
			rows = append(rows, fmt.Sprintf("(%d, %d, %s, %s)", n, f, c.Z(h), c.Z(idx)))
		}
	}
	return rows
}

func main() {
	a := c.ParseArgs()
	rep := c.NewReport("C04", a)
	tip := time.Now().Add(-20 * time.Minute).Unix()
	quick = a.Tier != "thorough"
	var hs []Hist
	if a.Replay != "" {
		var h Hist
		c.ReadJSON(a.Replay, &h)
		if time.Since(time.Unix(h.TipUnix, 0)) > 20*time.Hour {
			h.TipUnix = tip
		}
		h.Res = nil
		hs = []Hist{h}
	} else {
		// corpus: honest alone; the F15 root cause; a consistent filter liar
		hs = append(hs, gen(c.Rng(a.Seed, 900), 0, a.Seed, tip, false, 0, nil))
		hs = append(hs, gen(c.Rng(a.Seed, 901), 1, a.Seed, tip, true, 1, []int{idx("cp-only-liar")}))
		hs = append(hs, gen(c.Rng(a.Seed, 902), 2, a.Seed, tip, true, 1, []int{idx("cp-liar-consistent")}))
		hs = append(hs, gen(c.Rng(a.Seed, 903), 3, a.Seed, tip, false, 2, []int{idx("filter-liar-consistent"), idx("lighter-fork")}))
		// no further growth of the honest chain: a client that finished
		// syncing from the lighter fork's peer learns of the heavier chain
		// only from an announcement (observation, tag 22)
		ng := gen(c.Rng(a.Seed, 904), 4, a.Seed, tip, false, 1, []int{idx("lighter-fork")})
		ng.Events, ng.GrowCount, ng.DeadlineMs, ng.MinRunMs = nil, 0, 45000, 0
		hs = append(hs, ng)
		up := gen(c.Rng(a.Seed, 905), 5, a.Seed, tip, false, 1, []int{idx("filter-liar-unprovable")})
		up.DeadlineMs, up.GrowCount = 30000, 1
		hs = append(hs, up)
		// a sync candidate leaves, then the (silent) sync peer leaves: the
		// client must not pick the dead candidate (seeded change C04-2)
		hs = append(hs, genLifecycle(c.Rng(a.Seed, 906), 6, a.Seed, tip, "silent-headers", 0))
		// the honest node's first connection breaks between connect and
		// verack: alone, and next to a misbehaving node (seeded change C04-8)
		hs = append(hs, genHiccup(c.Rng(a.Seed, 907), 7, a.Seed, tip, 1, 0, nil))
		hs = append(hs, genHiccup(c.Rng(a.Seed, 908), 8, a.Seed, tip, 2, 1, []int{idx("lighter-fork")}))
		// a chain longer than one headers message, then an honest-side
		// reorganisation announced by inv (seeded change C04 round 7)
		longLen := 2100 + 10*c.Rng(a.Seed, 909).Intn(51)
		hs = append(hs, genDeepReorg(c.Rng(a.Seed, 910), 9, a.Seed, tip, longLen, 5, ""))
		hs = append(hs, genDeepReorg(c.Rng(a.Seed, 911), 10, a.Seed, tip, longLen, 12, "block-liar"))
		if a.Tier == "thorough" {
			rr := c.Rng(a.Seed, 912)
			for k, d := range []int{1, 5, 12, 1, 12} {
				second := []string{"", "block-liar", "cfilter-garbage", "no-witness-bit", ""}[k]
				hs = append(hs, genDeepReorg(rr, 11+k, a.Seed, tip, 2100+10*rr.Intn(51), d, second))
			}
		}
		n, nlong := 10, 1
		if a.Tier == "thorough" {
			n, nlong = 130, 16
		}
		for i := 0; i < n; i++ {
			r := c.Rng(a.Seed, i)
			if i >= nlong && i%4 == 3 {
				// peer-lifecycle orders: every fourth random scenario
				p1 := []string{"silent-headers", "silent-headers", "silent-all", "disconnecting", "hdr-wrongprev", "no-cf-bit"}[r.Intn(6)]
				hs = append(hs, genLifecycle(r, 100+i, a.Seed, tip, p1, r.Intn(2)))
				continue
			}
			if i >= nlong && i%4 == 2 {
				// connection hiccups of the honest node: every fourth random scenario
				hs = append(hs, genHiccup(r, 100+i, a.Seed, tip, 1+r.Intn(2), r.Intn(3), nil))
				continue
			}
			hs = append(hs, gen(r, 100+i, a.Seed, tip, i < nlong, r.Intn(4), nil))
		}
	}
	work, err := os.MkdirTemp(a.Out, "net")
	if err != nil {
		panic(err)
	}
	runBatch := func(net string) {
		var wg sync.WaitGroup
		sem := make(chan struct{}, a.Workers)
		for i := range hs {
			if hs[i].Net != net {
				continue
			}
			ns.CachedChain(hs[i].Seed, hs[i].ChainLen, time.Unix(hs[i].TipUnix, 0), 0.3)
			wg.Add(1)
			sem <- struct{}{}
			go func(h *Hist) {
				defer wg.Done()
				defer func() { <-sem }()
				h.Res = ns.RunScenario(&h.Scenario, work)
			}(&hs[i])
		}
		wg.Wait()
	}
	runBatch("")
	simnet := ns.Params
	ns.SetParams(chaincfg.RegressionNetParams)
	runBatch("regtest")
	// netsim runs on the wall clock: a scenario during which this process
	// was starved (far fewer 20 ms polls than its duration allows: other
	// jobs, memory pressure) and which did not converge says nothing about
	// the client; it is run again, alone.
	starved := func(r *ns.Result) bool {
		return r.SetupErr == "" && !r.Converged && r.RunMs > 2000 && float64(r.Polls) < 0.6*float64(r.RunMs)/20
	}
	rerun := func(net string) {
		for i := range hs {
			for try := 0; hs[i].Net == net && try < 2 && starved(hs[i].Res); try++ {
				rep.Histogram["starved-rerun"]++
				hs[i].Res = ns.RunScenario(&hs[i].Scenario, work)
			}
		}
	}
	rerun("regtest")
	ns.SetParams(simnet)
	rerun("")

	var sb strings.Builder
	sb.WriteString("From Coq Require Import ZArith List Bool.\nFrom Verif Require Import C04net.Replay.\nFrom Verif Require C04.Replay.\nImport ListNotations.\nOpen Scope Z_scope.\n")
	bb := bestBlockTable(a.Out)
	sb.WriteString("Definition bb_rows : list (Z * Z * Z * Z) := " + c.List(bb) + ".\n")
	rep.Histogram["bestblock-table-rows"] = len(bb)
	sb.WriteString("Definition cases : list (Z * ncase) := [\n")
	sigs := c.Signatures{}
	first := true
	for i := range hs {
		h := &hs[i]
		if h.Res.SetupErr != "" {
			rep.ImplFailures = append(rep.ImplFailures, c.ImplFailure{Case: fmt.Sprint(h.ID), What: "setup: " + h.Res.SetupErr, Tag: "setup"})
			continue
		}
		if !h.Res.StopReturned {
			rep.ImplFailures = append(rep.ImplFailures, c.ImplFailure{Case: fmt.Sprint(h.ID), What: "Stop did not return within 30s at the end of the scenario", Tag: "stop-hang"})
		}
		if !first {
			sb.WriteString(";\n")
		}
		first = false
		sb.WriteString(caseTerm(h))
		evs := ""
		for _, e := range h.Events {
			evs += e.Kind[:1]
		}
		sig := strings.Join(h.Kinds, "+") + "/" + evs
		if len(h.Nodes) > 1 {
			sigs.Add(sig)
		}
		for _, k := range h.Kinds {
			rep.Histogram["peer:"+k]++
		}
		for _, e := range h.Events {
			rep.Histogram["event:"+e.Kind]++
		}
		if h.Res.Converged {
			rep.Histogram["converged"]++
		} else {
			rep.Histogram["not-converged"]++
		}
		rep.Histogram["samples"] += len(h.Res.Samples)
		rep.Histogram["polls"] += h.Res.Polls
		path := filepath.Join(a.Out, fmt.Sprintf("hist-%d.json", h.ID))
		c.WriteJSON(path, h)
		rep.Cases[fmt.Sprint(h.ID)] = path
		if len(rep.Samples) < 3 {
			small := *h
			rep.Samples = append(rep.Samples, map[string]any{"scenario": small.Scenario, "kinds": small.Kinds,
				"converged": h.Res.Converged, "converged_ms": h.Res.ConvergedMs, "final": h.Res.Final})
		}
	}
	sb.WriteString("].\n")
	sb.WriteString("Definition R := Eval vm_compute in (run_cases cases ++ Verif.C04.Replay.run_bb bb_rows).\nSet Printing Width 1000000.\nSet Printing Depth 1000000.\nPrint R.\n")
	c.WriteFile(filepath.Join(a.Out, "cases.v"), sb.String())
	rep.Evaluations = len(hs)
	rep.DistinctNontrivial = len(sigs)
	rep.Rule = "distinct (misbehaving peer kinds, honest position, chain event kinds) signatures among scenarios with at least one misbehaving peer"
	rep.Write(a.Out)
	os.RemoveAll(work)
	os.Exit(0)
}
