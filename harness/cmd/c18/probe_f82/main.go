// probe_f82: reproduction of finding F82 (open) under the race detector.
//
// lru.Cache.RangeFILO / RangeFIFO walk the recency list without taking the
// cache mutex, while Put/Get/Delete relink it under the mutex.
//
//	cd /verif/harness && GOFLAGS=-mod=mod GOPROXY=off go run -race ./cmd/c18/probe_f82
//
// prints WARNING: DATA RACE (lru.(*List).Front / (*Element).Next vs
// (*List).insert / remove).  Not part of any check run: the finding is
// reported statically (coq/C18/Vars.v open_sites, tag 1).
package main

import (
	"fmt"
	"sync"

	"github.com/lightninglabs/neutrino/cache/lru"
)

type val struct{ n int }

func (v *val) Size() (uint64, error) { return 1, nil }

func main() {
	c := lru.NewCache[int, *val](8)
	var wg sync.WaitGroup
	wg.Add(2)
	go func() {
		defer wg.Done()
		for i := 0; i < 20000; i++ {
			_, _ = c.Put(i%32, &val{i})
		}
	}()
	seen := 0
	go func() {
		defer wg.Done()
		for i := 0; i < 2000; i++ {
			c.RangeFILO(func(k int, v *val) bool { seen++; return true })
			c.RangeFIFO(func(k int, v *val) bool { seen++; return true })
		}
	}()
	wg.Wait()
	fmt.Println("visited", seen)
}
